import OASModel.Scalar
import OASModel.Vec3
import OASModel.Transfer
import OASModel.StructLoads
import OASModel.AeroFunc
import OASModel.Functionals
import OASModel.Stress
import OASModel.Dual
