import OASDriver.Basic
import OASDriver.LinAlg
import OASDriver.Ops
