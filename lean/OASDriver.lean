import OASDriver.Basic
import OASDriver.Ops
