import OASProofs.Lemmas.System

/-!
  Re-numbering of the unknowns of the assembled vortex-lattice system when the list of surfaces is permuted:
  for `l ~ l'` there is a bijection `σ` of the global panel indices with `locate l' (σ m) = locate l m`, acting as a
  translation inside every surface block (so that the chordwise differences of `HorseshoeCirculations` are respected).
-/
set_option linter.unusedSectionVars false
set_option linter.unusedSimpArgs false
namespace OAS
namespace VLM
open Finset

/-- a panel in chordwise row `i ≥ 1` has a global index of at least one row length -/
theorem locate_row_pos (l : List (Surf ℝ)) (m : ℕ) (s : Surf ℝ) (i j : ℕ) (hl : locate l m = some (s, i, j))
    (hi : 1 ≤ i) : s.ny - 1 ≤ m := by
  induction l generalizing m with
  | nil => simp [locate] at hl
  | cons t rest ih =>
    simp only [locate] at hl
    split_ifs at hl with h
    · simp only [Option.some.injEq, Prod.mk.injEq] at hl
      obtain ⟨rfl, rfl, rfl⟩ := hl
      by_contra hc
      have : m / (t.ny - 1) = 0 := Nat.div_eq_of_lt (by omega)
      omega
    · have := ih _ hl; omega

/-- the re-numbering relation between two surface lists -/
structure Renum (l l' : List (Surf ℝ)) (σ τ : ℕ → ℕ) : Prop where
  left : ∀ m, τ (σ m) = m
  right : ∀ m, σ (τ m) = m
  loc : ∀ m, locate l' (σ m) = locate l m
  row : ∀ m s i j, locate l m = some (s, i, j) → 1 ≤ i → σ (m - (s.ny - 1)) = σ m - (s.ny - 1)

theorem Renum.refl (l : List (Surf ℝ)) : Renum l l id id :=
  ⟨fun _ => rfl, fun _ => rfl, fun _ => rfl, fun _ _ _ _ _ _ => rfl⟩

theorem Renum.trans {l l' l'' : List (Surf ℝ)} {σ τ σ' τ' : ℕ → ℕ} (h : Renum l l' σ τ) (h' : Renum l' l'' σ' τ') :
    Renum l l'' (σ' ∘ σ) (τ ∘ τ') := by
  refine ⟨fun m => ?_, fun m => ?_, fun m => ?_, fun m s i j hl hi => ?_⟩
  · simp [h'.left, h.left]
  · simp [h.right, h'.right]
  · simp [h'.loc, h.loc]
  · simp only [Function.comp]
    rw [h.row m s i j hl hi]
    exact h'.row (σ m) s i j (by rw [h.loc]; exact hl) hi

theorem Renum.cons {l l' : List (Surf ℝ)} {σ τ : ℕ → ℕ} (h : Renum l l' σ τ) (a : Surf ℝ) :
    Renum (a :: l) (a :: l')
      (fun m => if m < a.npanels then m else σ (m - a.npanels) + a.npanels)
      (fun m => if m < a.npanels then m else τ (m - a.npanels) + a.npanels) := by
  refine ⟨fun m => ?_, fun m => ?_, fun m => ?_, fun m s i j hl hi => ?_⟩
  · by_cases hm : m < a.npanels
    · simp [hm]
    · simp [hm, h.left]; omega
  · by_cases hm : m < a.npanels
    · simp [hm]
    · simp [hm, h.right]; omega
  · by_cases hm : m < a.npanels
    · simp [hm, locate]
    · simp [hm, locate, h.loc]
  · simp only [locate] at hl
    by_cases hm : m < a.npanels
    · simp only [hm, if_true] at hl ⊢
      have : m - (s.ny - 1) < a.npanels := by omega
      simp [this]
    · simp only [hm, if_false] at hl ⊢
      have h1 := locate_row_pos l _ s i j hl hi
      have h2 := locate_row_pos l' (σ (m - a.npanels)) s i j (by rw [h.loc]; exact hl) hi
      have h3 := h.row _ s i j hl hi
      have : ¬ (m - (s.ny - 1) < a.npanels) := by omega
      simp only [this, if_false]
      have e : m - (s.ny - 1) - a.npanels = m - a.npanels - (s.ny - 1) := by omega
      rw [e, h3]; omega

theorem Renum.swap (a b : Surf ℝ) (l : List (Surf ℝ)) :
    Renum (b :: a :: l) (a :: b :: l)
      (fun m => if m < b.npanels then m + a.npanels else if m < b.npanels + a.npanels then m - b.npanels else m)
      (fun m => if m < a.npanels then m + b.npanels else if m < a.npanels + b.npanels then m - a.npanels else m) := by
  refine ⟨fun m => ?_, fun m => ?_, fun m => ?_, fun m s i j hl hi => ?_⟩
  · split_ifs <;> omega
  · split_ifs <;> omega
  · simp only [locate]
    by_cases h1 : m < b.npanels
    · have : ¬ (m + a.npanels < a.npanels) := by omega
      simp [h1, this]
    · by_cases h2 : m < b.npanels + a.npanels
      · have h3 : m - b.npanels < a.npanels := by omega
        simp [h1, h2, h3]
      · have h3 : ¬ (m < a.npanels) := by omega
        have h4 : ¬ (m - a.npanels < b.npanels) := by omega
        have h5 : ¬ (m - b.npanels < a.npanels) := by omega
        have e : m - a.npanels - b.npanels = m - b.npanels - a.npanels := by omega
        simp [h1, h2, h3, h4, h5, e]
  · simp only [locate] at hl
    by_cases h1 : m < b.npanels
    · simp only [h1, if_true] at hl ⊢
      simp only [Option.some.injEq, Prod.mk.injEq] at hl
      obtain ⟨rfl, rfl, rfl⟩ := hl
      have hge : b.ny - 1 ≤ m := by
        by_contra hc
        have : m / (b.ny - 1) = 0 := Nat.div_eq_of_lt (by omega)
        omega
      have : m - (b.ny - 1) < b.npanels := by omega
      simp only [this, if_true]; omega
    · simp only [h1, if_false] at hl ⊢
      by_cases h2 : m - b.npanels < a.npanels
      · simp only [h2, if_true, Option.some.injEq, Prod.mk.injEq] at hl
        obtain ⟨rfl, rfl, rfl⟩ := hl
        have hge : a.ny - 1 ≤ m - b.npanels := by
          by_contra hc
          have : (m - b.npanels) / (a.ny - 1) = 0 := Nat.div_eq_of_lt (by omega)
          omega
        have h3 : m < b.npanels + a.npanels := by omega
        have h4 : ¬ (m - (a.ny - 1) < b.npanels) := by omega
        have h5 : m - (a.ny - 1) < b.npanels + a.npanels := by omega
        simp only [h3, h4, h5, if_true, if_false]; omega
      · simp only [h2, if_false] at hl
        have hge := locate_row_pos l _ s i j hl hi
        have h3 : ¬ (m < b.npanels + a.npanels) := by omega
        have h4 : ¬ (m - (s.ny - 1) < b.npanels) := by omega
        have h5 : ¬ (m - (s.ny - 1) < b.npanels + a.npanels) := by omega
        simp only [h3, h4, h5, if_false]

/-- **every permutation of the surface list is a re-numbering of the unknowns** -/
theorem renum_of_perm {l l' : List (Surf ℝ)} (hp : l.Perm l') : ∃ σ τ, Renum l l' σ τ := by
  induction hp with
  | nil => exact ⟨id, id, Renum.refl _⟩
  | cons a _ ih => obtain ⟨σ, τ, h⟩ := ih; exact ⟨_, _, h.cons a⟩
  | swap a b l => exact ⟨_, _, Renum.swap a b l⟩
  | trans _ _ ih1 ih2 =>
    obtain ⟨σ, τ, h⟩ := ih1; obtain ⟨σ', τ', h'⟩ := ih2
    exact ⟨_, _, h.trans h'⟩

/-! ### consequences for the assembled system -/

variable {l l' : List (Surf ℝ)} {σ τ : ℕ → ℕ} (h : Renum l l' σ τ)
include h

theorem Renum.total : totalPanels l' = totalPanels l := by
  -- both are the least index at which `locate` returns `none`
  apply Nat.le_antisymm
  · by_contra hc
    have h1 : totalPanels l < totalPanels l' := by omega
    -- τ maps [0, N') into [0, N): a pigeonhole contradiction is avoided by using σ on the index N
    have hs : ∀ m, m < totalPanels l ↔ σ m < totalPanels l' := by
      intro m; rw [← locate_isSome_iff, ← locate_isSome_iff, h.loc]
    have hinj : Set.InjOn τ (Finset.range (totalPanels l') : Set ℕ) := by
      intro x _ y _ hxy; have := congrArg σ hxy; simpa [h.right] using this
    have hmap : ∀ x ∈ Finset.range (totalPanels l'), τ x ∈ Finset.range (totalPanels l) := by
      intro x hx; simp only [Finset.mem_range] at hx ⊢
      rw [hs, h.right]; exact hx
    have := Finset.card_le_card_of_injOn τ hmap hinj
    simp at this; omega
  · by_contra hc
    have hs : ∀ m, m < totalPanels l ↔ σ m < totalPanels l' := by
      intro m; rw [← locate_isSome_iff, ← locate_isSome_iff, h.loc]
    have hinj : Set.InjOn σ (Finset.range (totalPanels l) : Set ℕ) := by
      intro x _ y _ hxy; have := congrArg τ hxy; simpa [h.left] using this
    have hmap : ∀ x ∈ Finset.range (totalPanels l), σ x ∈ Finset.range (totalPanels l') := by
      intro x hx; simp only [Finset.mem_range] at hx ⊢
      exact (hs x).1 hx
    have := Finset.card_le_card_of_injOn σ hmap hinj
    simp at this; omega

theorem Renum.lt_iff (m : ℕ) : σ m < totalPanels l ↔ m < totalPanels l := by
  rw [← locate_isSome_iff l m, ← h.loc, locate_isSome_iff, h.total]

/-- sums over all unknowns may be taken in either numbering -/
theorem Renum.sum_eq (g : ℕ → ℝ) :
    ∑ n ∈ range (totalPanels l), g (σ n) = ∑ n ∈ range (totalPanels l), g n := by
  apply Finset.sum_nbij' σ τ
  · intro a ha; simp only [mem_range] at ha ⊢; exact (h.lt_iff a).2 ha
  · intro a ha; simp only [mem_range] at ha ⊢
    have := h.lt_iff (τ a); rw [h.right] at this; exact this.1 ha
  · intro a _; exact h.left a
  · intro a _; exact h.right a
  · intro a _; rfl

theorem Renum.influence_eq (f : Flow ℝ) (p : V3 ℝ) (n : ℕ) : influence l' f p (σ n) = influence l f p n := by
  simp only [influence, h.loc]

theorem Renum.aic_eq (f : Flow ℝ) (m n : ℕ) : aic l' f (σ m) (σ n) = aic l f m n := by
  simp only [aic, h.loc, h.influence_eq]

theorem Renum.rhs_eq (f : Flow ℝ) (m : ℕ) : rhs l' f (σ m) = rhs l f m := by
  simp only [rhs, h.loc]

theorem Renum.horseshoe_eq (gamma : ℕ → ℝ) (m : ℕ) :
    horseshoe l' (fun k => gamma (τ k)) (σ m) = horseshoe l gamma m := by
  simp only [horseshoe, h.loc]
  cases hl : locate l m with
  | none => rfl
  | some t =>
    obtain ⟨s, i, j⟩ := t
    simp only [h.left]
    split_ifs with hi
    · rw [← h.row m s i j hl hi, h.left]
    · rfl

theorem Renum.V3sum_eq (g : ℕ → V3 ℝ) :
    V3.sumTo (totalPanels l) (fun n => g (σ n)) = V3.sumTo (totalPanels l) g := by
  ext <;> simp only [V3.sumTo, sumTo_eq_sum]
  · exact h.sum_eq (fun n => (g n).x)
  · exact h.sum_eq (fun n => (g n).y)
  · exact h.sum_eq (fun n => (g n).z)

theorem Renum.panelForce_eq (f : Flow ℝ) (gamma : ℕ → ℝ) (m : ℕ) :
    panelForce l' f (fun k => gamma (τ k)) (σ m) = panelForce l f gamma m := by
  unfold panelForce
  rw [h.horseshoe_eq]
  unfold forcePtVelocity
  rw [h.loc, h.total]
  cases hl : locate l m with
  | none => rfl
  | some t =>
    obtain ⟨s, i, j⟩ := t
    simp only
    rw [← h.V3sum_eq (fun n => V3.smul (gamma (τ n)) (influence l' f (forcePt s i j) n))]
    simp only [h.left, h.influence_eq]

end VLM
end OAS
