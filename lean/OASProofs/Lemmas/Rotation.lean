import OASProofs.Lemmas.Kernel

/-!
  Rotation equivariance of the vortex-lattice kernel and of the assembled system: for a map `R` of ℝ³ that is
  linear, preserves dot products and commutes with cross products (a proper rotation),
  `kernel(R ·) = R kernel(·)`.  Instantiated for the wind-frame rotation about the `y` axis.
-/
set_option linter.unusedSectionVars false
set_option linter.unusedSimpArgs false
namespace OAS

/-- a proper rotation of ℝ³, given by the properties the proofs use -/
structure IsRot (R : V3 ℝ → V3 ℝ) : Prop where
  add : ∀ a b, R (a + b) = R a + R b
  smul : ∀ (c : ℝ) a, R (V3.smul c a) = V3.smul c (R a)
  dot : ∀ a b, V3.dot (R a) (R b) = V3.dot a b
  cross : ∀ a b, V3.cross (R a) (R b) = R (V3.cross a b)

namespace IsRot
variable {R : V3 ℝ → V3 ℝ} (h : IsRot R)
include h

theorem zero : R 0 = 0 := by
  have := h.smul 0 0
  have e : V3.smul (0 : ℝ) (0 : V3 ℝ) = 0 := by ext <;> simp
  have e' : V3.smul (0 : ℝ) (R 0) = 0 := by ext <;> simp
  rw [e, e'] at this; exact this

theorem neg (a : V3 ℝ) : R (-a) = -R a := by
  have := h.smul (-1) a
  have e : V3.smul (-1 : ℝ) a = -a := by ext <;> simp
  have e' : V3.smul (-1 : ℝ) (R a) = -R a := by ext <;> simp
  rw [e, e'] at this; exact this

theorem sub (a b : V3 ℝ) : R (a - b) = R a - R b := by
  have e : a - b = a + -b := by ext <;> simp <;> ring
  have e' : R a - R b = R a + -R b := by ext <;> simp <;> ring
  rw [e, h.add, h.neg, e']

theorem norm (a : V3 ℝ) : V3.norm (R a) = V3.norm a := by
  have := h.dot a a
  simp only [V3.dot] at this
  simp only [V3.norm, elem_sqrt, this]

theorem mk3 (k : ℝ) (c : V3 ℝ) : R ⟨k * c.x, k * c.y, k * c.z⟩ = V3.smul k (R c) := by
  rw [← h.smul]; rfl

end IsRot

namespace VLM

theorem finiteVortex_rot {R : V3 ℝ → V3 ℝ} (h : IsRot R) (r1 r2 : V3 ℝ) :
    finiteVortex (R r1) (R r2) = R (finiteVortex r1 r2) := by
  unfold finiteVortex
  simp only [h.norm, h.dot, h.cross]
  split_ifs with hd
  · set k := (1 / V3.norm r1 + 1 / V3.norm r2) / ((V3.norm r1 * V3.norm r2 + V3.dot r1 r2) * ((4 : ℕ) : ℝ) * Elem.pi) with hk
    have e : ∀ c : V3 ℝ, (⟨(1 / V3.norm r1 + 1 / V3.norm r2) * c.x / ((V3.norm r1 * V3.norm r2 + V3.dot r1 r2) * ((4 : ℕ) : ℝ) * Elem.pi),
        (1 / V3.norm r1 + 1 / V3.norm r2) * c.y / ((V3.norm r1 * V3.norm r2 + V3.dot r1 r2) * ((4 : ℕ) : ℝ) * Elem.pi),
        (1 / V3.norm r1 + 1 / V3.norm r2) * c.z / ((V3.norm r1 * V3.norm r2 + V3.dot r1 r2) * ((4 : ℕ) : ℝ) * Elem.pi)⟩ : V3 ℝ)
        = ⟨k * c.x, k * c.y, k * c.z⟩ := by
      intro c; ext <;> simp only [hk] <;> ring
    rw [e, e, h.mk3]
    ext <;> simp
  · exact h.zero.symm

theorem semiInfVortex_rot {R : V3 ℝ → V3 ℝ} (h : IsRot R) (u r : V3 ℝ) :
    semiInfVortex (R u) (R r) = R (semiInfVortex u r) := by
  unfold semiInfVortex
  simp only [h.norm, h.dot, h.cross]
  set k := 1 / (V3.norm r * (V3.norm r - V3.dot u r)) / ((4 : ℕ) : ℝ) / Elem.pi with hk
  have e : ∀ c : V3 ℝ, (⟨c.x / (V3.norm r * (V3.norm r - V3.dot u r)) / ((4 : ℕ) : ℝ) / Elem.pi,
      c.y / (V3.norm r * (V3.norm r - V3.dot u r)) / ((4 : ℕ) : ℝ) / Elem.pi,
      c.z / (V3.norm r * (V3.norm r - V3.dot u r)) / ((4 : ℕ) : ℝ) / Elem.pi⟩ : V3 ℝ) = ⟨k * c.x, k * c.y, k * c.z⟩ := by
    intro c; ext <;> simp only [hk] <;> ring
  rw [e, e, h.mk3]
  ext <;> simp

theorem ring_rot {R : V3 ℝ → V3 ℝ} (h : IsRot R) (vm : Mesh ℝ) (p : V3 ℝ) (i j : ℕ) :
    ring (fun a b => R (vm a b)) (R p) i j = R (ring vm p i j) := by
  simp only [ring, ← h.sub, finiteVortex_rot h, h.add]

theorem trailing_rot {R : V3 ℝ → V3 ℝ} (h : IsRot R) (u : V3 ℝ) (vm : Mesh ℝ) (p : V3 ℝ) (i j : ℕ) :
    trailing (R u) (fun a b => R (vm a b)) (R p) i j = R (trailing u vm p i j) := by
  simp only [trailing, ← h.sub, finiteVortex_rot h, semiInfVortex_rot h]
  rw [h.add, h.sub]

theorem latticeVel_rot {R : V3 ℝ → V3 ℝ} (h : IsRot R) (nx : ℕ) (u : V3 ℝ) (vm : Mesh ℝ) (r0 : ℕ) (p : V3 ℝ) (i j : ℕ) :
    latticeVel nx (R u) (fun a b => R (vm a b)) r0 (R p) i j = R (latticeVel nx u vm r0 p i j) := by
  unfold latticeVel
  simp only
  rw [h.add, ring_rot h (fun a b => vm (r0 + a) b)]
  congr 1
  split_ifs
  · exact trailing_rot h u (fun a b => vm (r0 + a) b) p i j
  · exact h.zero.symm

end VLM
end OAS

/-! ### the assembled system under a rotation of every mesh -/
namespace OAS
namespace VLM

/-- the surface with every mesh node mapped by `R` -/
noncomputable def mapSurf (R : V3 ℝ → V3 ℝ) (s : Surf ℝ) : Surf ℝ := { s with mesh := fun i j => R (s.mesh i j) }

@[simp] theorem mapSurf_nx (R : V3 ℝ → V3 ℝ) (s : Surf ℝ) : (mapSurf R s).nx = s.nx := rfl
@[simp] theorem mapSurf_ny (R : V3 ℝ → V3 ℝ) (s : Surf ℝ) : (mapSurf R s).ny = s.ny := rfl
@[simp] theorem mapSurf_sym (R : V3 ℝ → V3 ℝ) (s : Surf ℝ) : (mapSurf R s).sym = s.sym := rfl
@[simp] theorem mapSurf_left (R : V3 ℝ → V3 ℝ) (s : Surf ℝ) : (mapSurf R s).left = s.left := rfl
@[simp] theorem mapSurf_ground (R : V3 ℝ → V3 ℝ) (s : Surf ℝ) : (mapSurf R s).ground = s.ground := rfl
@[simp] theorem mapSurf_mesh (R : V3 ℝ → V3 ℝ) (s : Surf ℝ) (i j : ℕ) : (mapSurf R s).mesh i j = R (s.mesh i j) := rfl
@[simp] theorem mapSurf_npanels (R : V3 ℝ → V3 ℝ) (s : Surf ℝ) : (mapSurf R s).npanels = s.npanels := rfl

variable {R : V3 ℝ → V3 ℝ} (h : IsRot R)
include h

theorem collPt_rot (s : Surf ℝ) (i j : ℕ) : collPt (mapSurf R s) i j = R (collPt s i j) := by
  simp only [collPt, mapSurf_mesh, h.add, h.smul]

theorem forcePt_rot (s : Surf ℝ) (i j : ℕ) : forcePt (mapSurf R s) i j = R (forcePt s i j) := by
  simp only [forcePt, mapSurf_mesh, h.add, h.smul]

theorem boundVec_rot (s : Surf ℝ) (i j : ℕ) : boundVec (mapSurf R s) i j = R (boundVec s i j) := by
  simp only [boundVec, mapSurf_mesh, h.add, h.smul]

theorem normal_rot (s : Surf ℝ) (i j : ℕ) : normal (mapSurf R s) i j = R (normal s i j) := by
  simp only [normal, VLMGeometry.normals, VLMGeometry.rawNormal, mapSurf_mesh, ← h.sub, h.cross, h.norm]
  set n := V3.cross (s.mesh i (j + 1) - s.mesh (i + 1) j) (s.mesh i j - s.mesh (i + 1) (j + 1))
  have e : ∀ c : V3 ℝ, (⟨c.x / V3.norm n, c.y / V3.norm n, c.z / V3.norm n⟩ : V3 ℝ)
      = ⟨(1 / V3.norm n) * c.x, (1 / V3.norm n) * c.y, (1 / V3.norm n) * c.z⟩ := by
    intro c; ext <;> simp only [] <;> ring
  rw [e, e, h.mk3]
  ext <;> simp

theorem extMesh_rot (s : Surf ℝ) (hm : s.sym = true → ∀ v, R (mirrorY v) = mirrorY (R v)) (i c : ℕ) :
    extMesh (mapSurf R s) i c = R (extMesh s i c) := by
  obtain ⟨nx, ny, sym, left, ground, mesh⟩ := s
  change extMesh ⟨nx, ny, sym, left, ground, fun i j => R (mesh i j)⟩ i c = _
  simp only [extMesh]
  cases sym
  · simp
  · have hm' := hm rfl
    cases left <;> simp only [if_true, Bool.false_eq_true, if_false] <;> split_ifs <;> simp only [hm']

theorem shiftQuarter_rot (nx : ℕ) (m : Mesh ℝ) (i c : ℕ) :
    shiftQuarter nx (fun a b => R (m a b)) i c = R (shiftQuarter nx m i c) := by
  unfold shiftQuarter
  split_ifs
  · simp only [h.add, h.smul]
  · rfl

theorem vortexMesh_rot (s : Surf ℝ) (hg : s.ground = false)
    (hm : s.sym = true → ∀ v, R (mirrorY v) = mirrorY (R v)) (a a' hh hh' : ℝ) :
    vortexMesh (mapSurf R s) a' hh' = fun i c => R (vortexMesh s a hh i c) := by
  unfold vortexMesh
  simp only [mapSurf_ground, hg, Bool.false_eq_true, if_false, mapSurf_nx]
  funext i c
  have : extMesh (mapSurf R s) = fun a b => R (extMesh s a b) := by
    funext a b; exact extMesh_rot h s hm a b
  rw [this, shiftQuarter_rot h]

theorem velRaw_rot (s : Surf ℝ) (hg : s.ground = false) (u : V3 ℝ) (vm : Mesh ℝ) (p : V3 ℝ) (i jj : ℕ) :
    velRaw (mapSurf R s) (R u) (fun a b => R (vm a b)) (R p) i jj = R (velRaw s u vm p i jj) := by
  unfold velRaw
  simp only [mapSurf_ground, hg, Bool.false_eq_true, if_false, mapSurf_nx]
  exact latticeVel_rot h s.nx u vm 0 p i jj

theorem velMtx_rot (s : Surf ℝ) (hg : s.ground = false) (al al' : ℝ) (hw : wakeDir al' = R (wakeDir al))
    (vm : Mesh ℝ) (p : V3 ℝ) (i j : ℕ) :
    velMtx (mapSurf R s) al' (fun a b => R (vm a b)) (R p) i j = R (velMtx s al vm p i j) := by
  unfold velMtx
  simp only [mapSurf_sym, mapSurf_left, mapSurf_ny, hw]
  by_cases hs : s.sym = true
  · simp only [hs, if_true]
    rw [h.add, velRaw_rot h s hg, velRaw_rot h s hg]
    rfl
  · simp only [hs, Bool.false_eq_true, if_false]
    exact velRaw_rot h s hg _ vm p i j

omit h in
theorem locate_map (g : Surf ℝ → Surf ℝ) (hnx : ∀ s, (g s).nx = s.nx) (hny : ∀ s, (g s).ny = s.ny)
    (surfs : List (Surf ℝ)) (m : ℕ) :
    locate (surfs.map g) m = (locate surfs m).map (fun t => (g t.1, t.2.1, t.2.2)) := by
  induction surfs generalizing m with
  | nil => rfl
  | cons s rest ih =>
    have hp : (g s).npanels = s.npanels := by simp [Surf.npanels, hnx, hny]
    simp only [List.map_cons, locate, hp, hny]
    split_ifs
    · rfl
    · exact ih _

omit h in
theorem locate_mem (surfs : List (Surf ℝ)) (m : ℕ) (s : Surf ℝ) (i j : ℕ) (hl : locate surfs m = some (s, i, j)) :
    s ∈ surfs := by
  induction surfs generalizing m with
  | nil => simp [locate] at hl
  | cons t rest ih =>
    simp only [locate] at hl
    split_ifs at hl
    · simp only [Option.some.injEq, Prod.mk.injEq] at hl
      simp [hl.1]
    · exact List.mem_cons_of_mem _ (ih _ hl)

omit h in
theorem totalPanels_map (g : Surf ℝ → Surf ℝ) (hp : ∀ s, (g s).npanels = s.npanels) (surfs : List (Surf ℝ)) :
    totalPanels (surfs.map g) = totalPanels surfs := by
  simp only [totalPanels, List.map_map]
  congr 1
  apply List.map_congr_left
  intro s _
  exact hp s

/-- hypotheses on the configuration and on the two flow conditions for the rotation theorems:
no ground effect, `R` commutes with the `y`-mirror for symmetric surfaces, the wake direction and the
free stream of `f'` are the rotated ones of `f`, no rotation rates -/
structure RotHyp (R : V3 ℝ → V3 ℝ) (surfs : List (Surf ℝ)) (f f' : Flow ℝ) : Prop where
  ground : ∀ s ∈ surfs, s.ground = false
  mirror : ∀ s ∈ surfs, s.sym = true → ∀ v, R (mirrorY v) = mirrorY (R v)
  wake : wakeDir f'.alpha = R (wakeDir f.alpha)
  stream : freestreamDir f' = R (freestreamDir f)
  rot : f.rotational = false
  rot' : f'.rotational = false
  rho : f'.rho = f.rho

theorem influence_rot (surfs : List (Surf ℝ)) (f f' : Flow ℝ) (H : RotHyp R surfs f f') (p : V3 ℝ) (n : ℕ) :
    influence (surfs.map (mapSurf R)) f' (R p) n = R (influence surfs f p n) := by
  unfold influence
  rw [locate_map (mapSurf R) (fun _ => rfl) (fun _ => rfl)]
  cases hl : locate surfs n with
  | none => exact h.zero.symm
  | some t =>
    obtain ⟨s, i, j⟩ := t
    have hs := locate_mem surfs n s i j hl
    simp only [Option.map_some]
    rw [vortexMesh_rot h s (H.ground s hs) (H.mirror s hs) (deg2rad f.alpha) (deg2rad f'.alpha) f.h f'.h]
    exact velMtx_rot h s (H.ground s hs) f.alpha f'.alpha H.wake _ p i j

/-- **the influence matrix is invariant under a rotation of the whole configuration together with the flow** -/
theorem aic_rot (surfs : List (Surf ℝ)) (f f' : Flow ℝ) (H : RotHyp R surfs f f') (m n : ℕ) :
    aic (surfs.map (mapSurf R)) f' m n = aic surfs f m n := by
  unfold aic
  rw [locate_map (mapSurf R) (fun _ => rfl) (fun _ => rfl)]
  cases hl : locate surfs m with
  | none => rfl
  | some t =>
    obtain ⟨s, i, j⟩ := t
    simp only [Option.map_some]
    rw [collPt_rot h, influence_rot h surfs f f' H, normal_rot h, h.dot]

omit h in
theorem onset_rot_free (f f' : Flow ℝ) (hs : freestreamDir f' = R (freestreamDir f)) (hr : f.rotational = false)
    (hr' : f'.rotational = false) (c c' : V3 ℝ) : onset f' c' = R (onset f c) := by
  simp only [onset, hr, hr', Bool.false_eq_true, if_false, hs]

/-- **… so is the right-hand side …** -/
theorem rhs_rot (surfs : List (Surf ℝ)) (f f' : Flow ℝ) (H : RotHyp R surfs f f') (m : ℕ) :
    rhs (surfs.map (mapSurf R)) f' m = rhs surfs f m := by
  unfold rhs
  rw [locate_map (mapSurf R) (fun _ => rfl) (fun _ => rfl)]
  cases hl : locate surfs m with
  | none => rfl
  | some t =>
    obtain ⟨s, i, j⟩ := t
    simp only [Option.map_some]
    rw [onset_rot_free f f' H.stream H.rot H.rot' (collPt s i j), normal_rot h, h.dot]

omit h in
theorem horseshoe_map (surfs : List (Surf ℝ)) (gamma : ℕ → ℝ) (m : ℕ) :
    horseshoe (surfs.map (mapSurf R)) gamma m = horseshoe surfs gamma m := by
  unfold horseshoe
  rw [locate_map (mapSurf R) (fun _ => rfl) (fun _ => rfl)]
  cases hl : locate surfs m with
  | none => rfl
  | some t => obtain ⟨s, i, j⟩ := t; rfl

theorem V3_sumTo_rot (n : ℕ) (g : ℕ → V3 ℝ) : V3.sumTo n (fun k => R (g k)) = R (V3.sumTo n g) := by
  induction n with
  | zero =>
    have : V3.sumTo 0 g = 0 := by ext <;> simp [V3.sumTo, sumTo]
    rw [this, h.zero]; ext <;> simp [V3.sumTo, sumTo]
  | succ n ih =>
    have e : ∀ g : ℕ → V3 ℝ, V3.sumTo (n + 1) g = V3.sumTo n g + g n := by
      intro g; ext <;> simp [V3.sumTo, sumTo]
    rw [e, e, ih, h.add]

/-- **… and the panel forces rotate with the configuration.** -/
theorem panelForce_rot (surfs : List (Surf ℝ)) (f f' : Flow ℝ) (H : RotHyp R surfs f f') (gamma : ℕ → ℝ) (m : ℕ) :
    panelForce (surfs.map (mapSurf R)) f' gamma m = R (panelForce surfs f gamma m) := by
  unfold panelForce
  rw [horseshoe_map]
  unfold forcePtVelocity
  rw [locate_map (mapSurf R) (fun _ => rfl) (fun _ => rfl), totalPanels_map (mapSurf R) (fun _ => rfl)]
  cases hl : locate surfs m with
  | none => exact h.zero.symm
  | some t =>
    obtain ⟨s, i, j⟩ := t
    simp only [Option.map_some]
    rw [onset_rot_free f f' H.stream H.rot H.rot' (collPt s i j), forcePt_rot h, boundVec_rot h, H.rho]
    simp only [influence_rot h surfs f f' H, ← h.smul]
    rw [V3_sumTo_rot h, ← h.add, h.cross, h.smul]

/-! ### the same with explicitly given onset velocities (used by the compressible group with rotation rates) -/

/-- the geometric part of the hypotheses: no ground effect, `R` commutes with the `y`-mirror for symmetric surfaces, the wake
direction of `f'` is the rotated one of `f` -/
structure RotGeo (R : V3 ℝ → V3 ℝ) (surfs : List (Surf ℝ)) (f f' : Flow ℝ) : Prop where
  ground : ∀ s ∈ surfs, s.ground = false
  mirror : ∀ s ∈ surfs, s.sym = true → ∀ v, R (mirrorY v) = mirrorY (R v)
  wake : wakeDir f'.alpha = R (wakeDir f.alpha)

theorem influence_rotG (surfs : List (Surf ℝ)) (f f' : Flow ℝ) (H : RotGeo R surfs f f') (p : V3 ℝ) (n : ℕ) :
    influence (surfs.map (mapSurf R)) f' (R p) n = R (influence surfs f p n) := by
  unfold influence
  rw [locate_map (mapSurf R) (fun _ => rfl) (fun _ => rfl)]
  cases hl : locate surfs n with
  | none => exact h.zero.symm
  | some t =>
    obtain ⟨s, i, j⟩ := t
    have hs := locate_mem surfs n s i j hl
    simp only [Option.map_some]
    rw [vortexMesh_rot h s (H.ground s hs) (H.mirror s hs) (deg2rad f.alpha) (deg2rad f'.alpha) f.h f'.h]
    exact velMtx_rot h s (H.ground s hs) f.alpha f'.alpha H.wake _ p i j

theorem aic_rotG (surfs : List (Surf ℝ)) (f f' : Flow ℝ) (H : RotGeo R surfs f f') (m n : ℕ) :
    aic (surfs.map (mapSurf R)) f' m n = aic surfs f m n := by
  unfold aic
  rw [locate_map (mapSurf R) (fun _ => rfl) (fun _ => rfl)]
  cases hl : locate surfs m with
  | none => rfl
  | some t =>
    obtain ⟨s, i, j⟩ := t
    simp only [Option.map_some]
    rw [collPt_rot h, influence_rotG h surfs f f' H, normal_rot h, h.dot]

/-- panel forces rotate with the configuration when the onset velocities do -/
theorem panelForceWith_rot (surfs : List (Surf ℝ)) (f f' : Flow ℝ) (H : RotGeo R surfs f f') (hrho : f'.rho = f.rho)
    (on on' : ℕ → V3 ℝ) (hon : ∀ m, on' m = R (on m)) (gamma : ℕ → ℝ) (m : ℕ) :
    panelForceWith (surfs.map (mapSurf R)) f' on' gamma m = R (panelForceWith surfs f on gamma m) := by
  unfold panelForceWith
  rw [horseshoe_map, locate_map (mapSurf R) (fun _ => rfl) (fun _ => rfl), totalPanels_map (mapSurf R) (fun _ => rfl)]
  cases hl : locate surfs m with
  | none => exact h.zero.symm
  | some t =>
    obtain ⟨s, i, j⟩ := t
    simp only [Option.map_some]
    rw [hon m, forcePt_rot h, boundVec_rot h, hrho]
    simp only [influence_rotG h surfs f f' H, ← h.smul]
    rw [V3_sumTo_rot h, ← h.add, h.cross, h.smul]

omit h in
/-- onset velocity at the collocation point of global panel `k` -/
noncomputable def onsetAt (surfs : List (Surf ℝ)) (f : Flow ℝ) (k : ℕ) : V3 ℝ :=
  match locate surfs k with
  | none => 0
  | some (s, i, j) => onset f (collPt s i j)

omit h in
/-- `panelForce` is `panelForceWith` the onset velocities at the collocation points -/
theorem panelForce_eq_with (surfs : List (Surf ℝ)) (f : Flow ℝ) (gamma : ℕ → ℝ) (m : ℕ) :
    panelForce surfs f gamma m = panelForceWith surfs f (onsetAt surfs f) gamma m := by
  unfold panelForce panelForceWith forcePtVelocity onsetAt
  cases hl : locate surfs m with
  | none => rfl
  | some t => obtain ⟨s, i, j⟩ := t; simp only [hl]

end VLM
end OAS
