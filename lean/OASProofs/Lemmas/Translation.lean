import OASProofs.Lemmas.Rotation

/-!
  Translation invariance of the assembled vortex-lattice system: moving every mesh (and the centre of gravity used by
  the rotational onset velocity) by the same vector `d` changes neither the influence matrix, nor the right-hand side,
  nor any panel force.  For symmetric surfaces the translation must stay in the symmetry plane (`d.y = 0`); with
  ground effect the ground plane would have to move too, so ground-effect surfaces are excluded.
-/
set_option linter.unusedSectionVars false
set_option linter.unusedSimpArgs false
namespace OAS
namespace VLM

/-- the translation by `d` -/
noncomputable def shiftBy (d : V3 ℝ) : V3 ℝ → V3 ℝ := fun v => v + d

theorem dec_quarter_sum : (dec 25 100 * dec 5 10 + dec 75 100 * dec 5 10 + dec 25 100 * dec 5 10 + dec 75 100 * dec 5 10 : ℝ) = 1 := by
  simp only [dec_def]; norm_num

theorem collPt_shift (s : Surf ℝ) (d : V3 ℝ) (i j : ℕ) : collPt (mapSurf (shiftBy d) s) i j = collPt s i j + d := by
  ext <;> simp only [collPt, mapSurf_mesh, shiftBy, V3.add_x, V3.add_y, V3.add_z, V3.smul_x, V3.smul_y, V3.smul_z, dec_def] <;>
    push_cast <;> ring

theorem forcePt_shift (s : Surf ℝ) (d : V3 ℝ) (i j : ℕ) : forcePt (mapSurf (shiftBy d) s) i j = forcePt s i j + d := by
  ext <;> simp only [forcePt, mapSurf_mesh, shiftBy, V3.add_x, V3.add_y, V3.add_z, V3.smul_x, V3.smul_y, V3.smul_z, dec_def] <;>
    push_cast <;> ring

theorem boundVec_shift (s : Surf ℝ) (d : V3 ℝ) (i j : ℕ) : boundVec (mapSurf (shiftBy d) s) i j = boundVec s i j := by
  ext <;> simp only [boundVec, mapSurf_mesh, shiftBy, V3.add_x, V3.add_y, V3.add_z, V3.smul_x, V3.smul_y, V3.smul_z, dec_def] <;>
    push_cast <;> ring

theorem normal_shift (s : Surf ℝ) (d : V3 ℝ) (i j : ℕ) : normal (mapSurf (shiftBy d) s) i j = normal s i j := by
  have e : ∀ a b : V3 ℝ, (a + d) - (b + d) = a - b := fun a b => by ext <;> simp
  simp only [normal, VLMGeometry.normals, VLMGeometry.rawNormal, mapSurf_mesh, shiftBy, e]

theorem extMesh_shift (s : Surf ℝ) (d : V3 ℝ) (hd : s.sym = true → d.y = 0) (i c : ℕ) :
    extMesh (mapSurf (shiftBy d) s) i c = extMesh s i c + d := by
  obtain ⟨nx, ny, sym, left, ground, mesh⟩ := s
  change extMesh ⟨nx, ny, sym, left, ground, fun i j => shiftBy d (mesh i j)⟩ i c = _
  simp only [extMesh, shiftBy]
  cases sym
  · simp
  · have hy : d.y = 0 := hd rfl
    have hm : ∀ v : V3 ℝ, mirrorY (v + d) = mirrorY v + d := by
      intro v; ext <;> simp [hy]
    cases left <;> simp only [if_true, Bool.false_eq_true, if_false] <;> split_ifs <;> simp only [hm]

theorem shiftQuarter_shift (nx : ℕ) (m : Mesh ℝ) (d : V3 ℝ) (i c : ℕ) :
    shiftQuarter nx (fun a b => m a b + d) i c = shiftQuarter nx m i c + d := by
  unfold shiftQuarter
  split_ifs
  · ext <;> simp only [V3.add_x, V3.add_y, V3.add_z, V3.smul_x, V3.smul_y, V3.smul_z, dec_def] <;> push_cast <;> ring
  · rfl

theorem vortexMesh_shift (s : Surf ℝ) (d : V3 ℝ) (hg : s.ground = false) (hd : s.sym = true → d.y = 0) (a a' hh hh' : ℝ) :
    vortexMesh (mapSurf (shiftBy d) s) a' hh' = fun i c => vortexMesh s a hh i c + d := by
  unfold vortexMesh
  simp only [mapSurf_ground, hg, Bool.false_eq_true, if_false, mapSurf_nx]
  funext i c
  have : extMesh (mapSurf (shiftBy d) s) = fun a b => extMesh s a b + d := by
    funext a b; exact extMesh_shift s d hd a b
  rw [this, shiftQuarter_shift]

theorem velMtx_shift (s : Surf ℝ) (d : V3 ℝ) (hg : s.ground = false) (al : ℝ) (vm : Mesh ℝ) (p : V3 ℝ) (i j : ℕ) :
    velMtx (mapSurf (shiftBy d) s) al (fun a b => vm a b + d) (p + d) i j = velMtx s al vm p i j := by
  unfold velMtx velRaw
  simp only [mapSurf_sym, mapSurf_left, mapSurf_ny, mapSurf_ground, mapSurf_nx, hg, Bool.false_eq_true, if_false,
    latticeVel_translate]
  rfl

/-- hypotheses of the translation theorems -/
structure ShiftHyp (d : V3 ℝ) (surfs : List (Surf ℝ)) (f f' : Flow ℝ) : Prop where
  ground : ∀ s ∈ surfs, s.ground = false
  plane : ∀ s ∈ surfs, s.sym = true → d.y = 0
  alpha : f'.alpha = f.alpha
  beta : f'.beta = f.beta
  v : f'.v = f.v
  rho : f'.rho = f.rho
  omega : f'.omega = f.omega
  rot : f'.rotational = f.rotational
  cg : f'.cg = f.cg + d

variable {d : V3 ℝ}

theorem influence_shift (surfs : List (Surf ℝ)) (f f' : Flow ℝ) (H : ShiftHyp d surfs f f') (p : V3 ℝ) (n : ℕ) :
    influence (surfs.map (mapSurf (shiftBy d))) f' (p + d) n = influence surfs f p n := by
  unfold influence
  rw [locate_map (mapSurf (shiftBy d)) (fun _ => rfl) (fun _ => rfl)]
  cases hl : locate surfs n with
  | none => rfl
  | some t =>
    obtain ⟨s, i, j⟩ := t
    have hs := locate_mem surfs n s i j hl
    simp only [Option.map_some]
    rw [vortexMesh_shift s d (H.ground s hs) (H.plane s hs) (deg2rad f.alpha) (deg2rad f'.alpha) f.h f'.h, H.alpha]
    exact velMtx_shift s d (H.ground s hs) f.alpha _ p i j

theorem onset_shift (f f' : Flow ℝ) (surfs : List (Surf ℝ)) (H : ShiftHyp d surfs f f') (c : V3 ℝ) :
    onset f' (c + d) = onset f c := by
  have hfs : freestreamDir f' = freestreamDir f := by simp only [freestreamDir, H.alpha, H.beta, H.v]
  have e : c + d - (f.cg + d) = c - f.cg := by ext <;> simp
  simp only [onset, H.rot, hfs, H.omega, H.cg, e]

/-- **translation invariance of the influence matrix …** -/
theorem aic_shift (surfs : List (Surf ℝ)) (f f' : Flow ℝ) (H : ShiftHyp d surfs f f') (m n : ℕ) :
    aic (surfs.map (mapSurf (shiftBy d))) f' m n = aic surfs f m n := by
  unfold aic
  rw [locate_map (mapSurf (shiftBy d)) (fun _ => rfl) (fun _ => rfl)]
  cases hl : locate surfs m with
  | none => rfl
  | some t =>
    obtain ⟨s, i, j⟩ := t
    simp only [Option.map_some]
    rw [collPt_shift, influence_shift surfs f f' H, normal_shift]

/-- **… of the right-hand side (rotation about the translated centre of gravity included) …** -/
theorem rhs_shift (surfs : List (Surf ℝ)) (f f' : Flow ℝ) (H : ShiftHyp d surfs f f') (m : ℕ) :
    rhs (surfs.map (mapSurf (shiftBy d))) f' m = rhs surfs f m := by
  unfold rhs
  rw [locate_map (mapSurf (shiftBy d)) (fun _ => rfl) (fun _ => rfl)]
  cases hl : locate surfs m with
  | none => rfl
  | some t =>
    obtain ⟨s, i, j⟩ := t
    simp only [Option.map_some]
    rw [collPt_shift, onset_shift f f' surfs H, normal_shift]

/-- **… and of every panel force.** -/
theorem panelForce_shift (surfs : List (Surf ℝ)) (f f' : Flow ℝ) (H : ShiftHyp d surfs f f') (gamma : ℕ → ℝ) (m : ℕ) :
    panelForce (surfs.map (mapSurf (shiftBy d))) f' gamma m = panelForce surfs f gamma m := by
  unfold panelForce
  rw [horseshoe_map]
  unfold forcePtVelocity
  rw [locate_map (mapSurf (shiftBy d)) (fun _ => rfl) (fun _ => rfl), totalPanels_map (mapSurf (shiftBy d)) (fun _ => rfl)]
  cases hl : locate surfs m with
  | none => rfl
  | some t =>
    obtain ⟨s, i, j⟩ := t
    simp only [Option.map_some]
    rw [collPt_shift, onset_shift f f' surfs H, forcePt_shift, boundVec_shift, H.rho]
    simp only [influence_shift surfs f f' H]

end VLM
end OAS
