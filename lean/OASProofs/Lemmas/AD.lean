import OASProofs.Lemmas.Basic
import OASProofs.Lemmas.Real
import Mathlib.Analysis.SpecialFunctions.Pow.Deriv
import Mathlib.Analysis.SpecialFunctions.Sqrt
import Mathlib.Analysis.SpecialFunctions.Trigonometric.ArctanDeriv
import Mathlib.Analysis.SpecialFunctions.Trigonometric.InverseDeriv
import Mathlib.Analysis.Calculus.Deriv.Abs

/-!
  **Soundness of the forward-mode dual numbers of `OASModel/Dual.lean` over ℝ.**

  `Tracks a f t` : the dual number `a` carries the value and the derivative of `f` at `t`.  Every primitive of the
  model's scalar vocabulary (`+ − * / −`, literals, `sqrt sin cos tan exp log rpow abs atan acos`, `sumTo`) maps
  tracked arguments to a tracked result, under the side condition that makes the real function differentiable there.
  Hence the `Dual` instantiation of any model definition built from these primitives computes the exact derivative of
  its `ℝ` instantiation — which is what the correspondence check compares the code's analytic partials with.
-/
set_option linter.unusedSectionVars false
namespace OAS
namespace AD

/-- `a` is the value and derivative of `f` at `t` -/
def Tracks (a : Dual ℝ) (f : ℝ → ℝ) (t : ℝ) : Prop := a.v = f t ∧ HasDerivAt f a.d t

variable {a b : Dual ℝ} {f g : ℝ → ℝ} {t : ℝ}

theorem Tracks.const (c : ℝ) : Tracks (⟨c, 0⟩ : Dual ℝ) (fun _ => c) t := ⟨rfl, hasDerivAt_const t c⟩

/-- the seed: the independent variable itself -/
theorem Tracks.var : Tracks (⟨t, 1⟩ : Dual ℝ) (fun x => x) t := ⟨rfl, hasDerivAt_id t⟩

theorem Tracks.natCast (n : ℕ) : Tracks ((n : ℕ) : Dual ℝ) (fun _ => (n : ℝ)) t := ⟨rfl, hasDerivAt_const t _⟩
theorem Tracks.zero : Tracks (0 : Dual ℝ) (fun _ => (0 : ℝ)) t := ⟨rfl, hasDerivAt_const t _⟩
theorem Tracks.one : Tracks (1 : Dual ℝ) (fun _ => (1 : ℝ)) t := ⟨rfl, hasDerivAt_const t _⟩
theorem Tracks.pi : Tracks (Elem.pi : Dual ℝ) (fun _ => Real.pi) t := ⟨rfl, hasDerivAt_const t _⟩

theorem Tracks.add (ha : Tracks a f t) (hb : Tracks b g t) : Tracks (a + b) (fun x => f x + g x) t :=
  ⟨by show a.v + b.v = _; rw [ha.1, hb.1], ha.2.add hb.2⟩

theorem Tracks.sub (ha : Tracks a f t) (hb : Tracks b g t) : Tracks (a - b) (fun x => f x - g x) t :=
  ⟨by show a.v - b.v = _; rw [ha.1, hb.1], ha.2.sub hb.2⟩

theorem Tracks.neg (ha : Tracks a f t) : Tracks (-a) (fun x => -f x) t :=
  ⟨by show -a.v = _; rw [ha.1], ha.2.neg⟩

theorem Tracks.mul (ha : Tracks a f t) (hb : Tracks b g t) : Tracks (a * b) (fun x => f x * g x) t := by
  refine ⟨by show a.v * b.v = _; rw [ha.1, hb.1], ?_⟩
  have := ha.2.mul hb.2
  show HasDerivAt _ (a.d * b.v + a.v * b.d) t
  rw [ha.1, hb.1]; exact this

theorem Tracks.div (ha : Tracks a f t) (hb : Tracks b g t) (h0' : g t ≠ 0) : Tracks (a / b) (fun x => f x / g x) t := by
  refine ⟨by show a.v / b.v = _; rw [ha.1, hb.1], ?_⟩
  have := ha.2.div hb.2 h0'
  show HasDerivAt _ ((a.d * b.v - a.v * b.d) / (b.v * b.v)) t
  rw [ha.1, hb.1]
  exact this.congr_deriv (by rw [pow_two])

theorem Tracks.dec (n m : ℕ) : Tracks (OAS.dec n m : Dual ℝ) (fun _ => (OAS.dec n m : ℝ)) t := by
  refine ⟨rfl, ?_⟩
  show HasDerivAt _ (((0 : ℝ) * (m : ℝ) - (n : ℝ) * 0) / ((m : ℝ) * (m : ℝ))) t
  simpa using hasDerivAt_const t (OAS.dec n m : ℝ)

theorem Tracks.sqrt (ha : Tracks a f t) (h0 : 0 < f t) : Tracks (Elem.sqrt a) (fun x => Real.sqrt (f x)) t := by
  refine ⟨by show Real.sqrt a.v = _; rw [ha.1], ?_⟩
  have h0' : f t ≠ 0 := ne_of_gt h0
  have := ha.2.sqrt h0'
  show HasDerivAt _ (a.d / (((2 : ℕ) : ℝ) * Real.sqrt a.v)) t
  rw [ha.1]; push_cast; exact this

theorem Tracks.sin (ha : Tracks a f t) : Tracks (Elem.sin a) (fun x => Real.sin (f x)) t := by
  refine ⟨by show Real.sin a.v = _; rw [ha.1], ?_⟩
  show HasDerivAt _ (Real.cos a.v * a.d) t
  rw [ha.1]; exact ha.2.sin

theorem Tracks.cos (ha : Tracks a f t) : Tracks (Elem.cos a) (fun x => Real.cos (f x)) t := by
  refine ⟨by show Real.cos a.v = _; rw [ha.1], ?_⟩
  show HasDerivAt _ (-(Real.sin a.v) * a.d) t
  rw [ha.1]; exact ha.2.cos

theorem Tracks.tan (ha : Tracks a f t) (h0' : Real.cos (f t) ≠ 0) : Tracks (Elem.tan a) (fun x => Real.tan (f x)) t := by
  refine ⟨by show Real.tan a.v = _; rw [ha.1], ?_⟩
  show HasDerivAt _ (a.d / (Real.cos a.v * Real.cos a.v)) t
  have h := (Real.hasDerivAt_tan h0').comp t ha.2
  rw [ha.1]
  exact h.congr_deriv (by rw [pow_two]; field_simp)

theorem Tracks.exp (ha : Tracks a f t) : Tracks (Elem.exp a) (fun x => Real.exp (f x)) t := by
  refine ⟨by show Real.exp a.v = _; rw [ha.1], ?_⟩
  show HasDerivAt _ (Real.exp a.v * a.d) t
  rw [ha.1]; exact ha.2.exp

theorem Tracks.log (ha : Tracks a f t) (h0 : f t ≠ 0) : Tracks (Elem.log a) (fun x => Real.log (f x)) t := by
  refine ⟨by show Real.log a.v = _; rw [ha.1], ?_⟩
  show HasDerivAt _ (a.d / a.v) t
  rw [ha.1]; exact ha.2.log h0

theorem Tracks.atan (ha : Tracks a f t) : Tracks (Elem.atan a) (fun x => Real.arctan (f x)) t := by
  refine ⟨by show Real.arctan a.v = _; rw [ha.1], ?_⟩
  show HasDerivAt _ (a.d / (1 + a.v * a.v)) t
  rw [ha.1]
  have := ha.2.arctan
  exact this.congr_deriv (by rw [pow_two]; ring)

theorem Tracks.abs (ha : Tracks a f t) (h0' : f t ≠ 0) : Tracks (Elem.abs a) (fun x => |f x|) t := by
  refine ⟨by show |a.v| = _; rw [ha.1], ?_⟩
  show HasDerivAt _ (if a.v < 0 then -a.d else a.d) t
  have h0 : a.v ≠ 0 := by rw [ha.1]; exact h0'
  rcases lt_or_gt_of_ne h0 with h | h
  · rw [if_pos h]
    have hf : f t < 0 := by rw [← ha.1]; exact h
    have hev : (fun x => |f x|) =ᶠ[nhds t] (fun x => -f x) := by
      filter_upwards [ha.2.continuousAt.eventually (gt_mem_nhds hf)] with x hx
      exact abs_of_neg hx
    exact ha.2.neg.congr_of_eventuallyEq hev
  · rw [if_neg (not_lt.mpr (le_of_lt h))]
    have hf : 0 < f t := by rw [← ha.1]; exact h
    have hev : (fun x => |f x|) =ᶠ[nhds t] (fun x => f x) := by
      filter_upwards [ha.2.continuousAt.eventually (lt_mem_nhds hf)] with x hx
      exact abs_of_pos hx
    exact ha.2.congr_of_eventuallyEq hev

/-- power with a constant exponent (`x ** 2.58`, `M ** 0.18`, …), positive base -/
theorem Tracks.rpow_const (ha : Tracks a f t) (p : ℝ) (h0 : 0 < f t) :
    Tracks (Elem.rpow a (⟨p, 0⟩ : Dual ℝ)) (fun x => f x ^ p) t := by
  refine ⟨by show a.v ^ p = _; rw [ha.1], ?_⟩
  show HasDerivAt _ (p * a.v ^ (p - 1) * a.d + (if ((0 : ℝ) == 0) = true then 0 else a.v ^ p * Real.log a.v * 0)) t
  simp only [beq_self_eq_true, if_true, add_zero]
  rw [ha.1]
  have := ha.2.rpow_const (p := p) (Or.inl (ne_of_gt h0))
  exact this.congr_deriv (by ring)

/-- general power, positive base -/
theorem Tracks.rpow (ha : Tracks a f t) (hb : Tracks b g t) (h0 : 0 < f t) :
    Tracks (Elem.rpow a b) (fun x => f x ^ g x) t := by
  refine ⟨by show a.v ^ b.v = _; rw [ha.1, hb.1], ?_⟩
  show HasDerivAt _ (b.v * a.v ^ (b.v - 1) * a.d + (if (b.d == 0) = true then 0 else a.v ^ b.v * Real.log a.v * b.d)) t
  have hd : (if (b.d == 0) = true then 0 else a.v ^ b.v * Real.log a.v * b.d) = a.v ^ b.v * Real.log a.v * b.d := by
    split_ifs with h
    · rw [beq_iff_eq] at h; rw [h]; ring
    · rfl
  rw [hd, ha.1, hb.1]
  have := ha.2.rpow hb.2 h0
  exact this.congr_deriv (by ring)

theorem Tracks.acos (ha : Tracks a f t) (h1 : -1 < f t) (h2 : f t < 1) :
    Tracks (Elem.acos a) (fun x => Real.arccos (f x)) t := by
  refine ⟨by show Real.arccos a.v = _; rw [ha.1], ?_⟩
  show HasDerivAt _ (-a.d / Real.sqrt (1 - a.v * a.v)) t
  rw [ha.1]
  have h := (Real.hasDerivAt_arccos (ne_of_gt h1) (ne_of_lt h2)).comp t ha.2
  exact h.congr_deriv (by rw [pow_two]; ring)

/-- sums of tracked terms -/
theorem Tracks.sumTo (n : ℕ) (A : ℕ → Dual ℝ) (F : ℕ → ℝ → ℝ) (h : ∀ k, k < n → Tracks (A k) (F k) t) :
    Tracks (OAS.sumTo n A) (fun x => OAS.sumTo n (fun k => F k x)) t := by
  induction n with
  | zero => exact Tracks.zero
  | succ n ih =>
    exact (ih (fun k hk => h k (by omega))).add (h n (by omega))

/-- a branch that is decided by strict inequalities between *values* is locally constant; for branches on
constants (options) the two instantiations take the same branch by definition -/
theorem Tracks.congr (ha : Tracks a f t) (hfg : ∀ x, f x = g x) : Tracks a g t := by
  have : f = g := funext hfg
  rw [← this]; exact ha


theorem Dual.lt_iff (a b : Dual ℝ) : a < b ↔ a.v < b.v := Iff.rfl
@[simp] theorem Dual.zero_v : (0 : Dual ℝ).v = 0 := rfl
@[simp] theorem Dual.one_v : (1 : Dual ℝ).v = 1 := rfl
@[simp] theorem Dual.mk_v (x y : ℝ) : (⟨x, y⟩ : Dual ℝ).v = x := rfl

/-- index-decided branches (`out[:-1]`, `out[1:]` slices) -/
theorem Tracks.ite (c : Prop) [Decidable c] (ha : Tracks a f t) (hb : Tracks b g t) :
    Tracks (if c then a else b) (fun x => if c then f x else g x) t := by
  split <;> assumption

/-- a branch decided by a strict inequality between *values* is locally constant: taken … -/
theorem Tracks.ite_lt_pos {c d : Dual ℝ} {F G : ℝ → ℝ} (ha : Tracks a f t) (hb : Tracks b g t) (hlt : f t < g t)
    (hc : Tracks c F t) : Tracks (if a < b then c else d) (fun x => if f x < g x then F x else G x) t := by
  have hv : a < b := by rw [Dual.lt_iff, ha.1, hb.1]; exact hlt
  rw [if_pos hv]
  have hev : (fun x => if f x < g x then F x else G x) =ᶠ[nhds t] F := by
    have := (ha.2.continuousAt.prodMk hb.2.continuousAt).eventually
      (isOpen_lt continuous_fst continuous_snd |>.mem_nhds (show ((f t, g t) : ℝ × ℝ) ∈ {p : ℝ × ℝ | p.1 < p.2} from hlt))
    filter_upwards [this] with x hx
    exact if_pos hx
  exact ⟨by rw [hc.1]; exact (if_pos hlt).symm, hc.2.congr_of_eventuallyEq hev⟩

/-- … or not taken -/
theorem Tracks.ite_lt_neg {c d : Dual ℝ} {F G : ℝ → ℝ} (ha : Tracks a f t) (hb : Tracks b g t) (hlt : g t < f t)
    (hd : Tracks d G t) : Tracks (if a < b then c else d) (fun x => if f x < g x then F x else G x) t := by
  have hv : ¬ a < b := by rw [Dual.lt_iff, ha.1, hb.1]; exact not_lt.mpr (le_of_lt hlt)
  rw [if_neg hv]
  have hev : (fun x => if f x < g x then F x else G x) =ᶠ[nhds t] G := by
    have := (hb.2.continuousAt.prodMk ha.2.continuousAt).eventually
      (isOpen_lt continuous_fst continuous_snd |>.mem_nhds (show ((g t, f t) : ℝ × ℝ) ∈ {p : ℝ × ℝ | p.1 < p.2} from hlt))
    filter_upwards [this] with x hx
    exact if_neg (not_lt.mpr (le_of_lt hx))
  exact ⟨by rw [hd.1]; exact (if_neg (not_lt.mpr (le_of_lt hlt))).symm, hd.2.congr_of_eventuallyEq hev⟩

/-! ### vectors -/

/-- componentwise tracking of a 3-vector -/
def TracksV (a : V3 (Dual ℝ)) (f : ℝ → V3 ℝ) (t : ℝ) : Prop :=
  Tracks a.x (fun s => (f s).x) t ∧ Tracks a.y (fun s => (f s).y) t ∧ Tracks a.z (fun s => (f s).z) t

theorem TracksV.x {a : V3 (Dual ℝ)} {f : ℝ → V3 ℝ} (h : TracksV a f t) : Tracks a.x (fun s => (f s).x) t := h.1
theorem TracksV.y {a : V3 (Dual ℝ)} {f : ℝ → V3 ℝ} (h : TracksV a f t) : Tracks a.y (fun s => (f s).y) t := h.2.1
theorem TracksV.z {a : V3 (Dual ℝ)} {f : ℝ → V3 ℝ} (h : TracksV a f t) : Tracks a.z (fun s => (f s).z) t := h.2.2

section
variable {K : Type} [Zero K] [Add K]
theorem V3.sumTo_x' (n : ℕ) (f : ℕ → V3 K) : (V3.sumTo n f).x = OAS.sumTo n (fun i => (f i).x) := rfl
theorem V3.sumTo_y' (n : ℕ) (f : ℕ → V3 K) : (V3.sumTo n f).y = OAS.sumTo n (fun i => (f i).y) := rfl
theorem V3.sumTo_z' (n : ℕ) (f : ℕ → V3 K) : (V3.sumTo n f).z = OAS.sumTo n (fun i => (f i).z) := rfl
end

open Lean Elab Tactic Meta in
/-- close the goal by applying a hypothesis (possibly universally quantified over indices) without leaving subgoals -/
elab "track_hyp" : tactic => withMainContext do
  let g ← getMainGoal
  let lctx ← getLCtx
  for h in lctx do
    if h.isImplementationDetail then continue
    let s ← saveState
    try
      let gs ← g.apply h.toExpr
      if gs.isEmpty then
        replaceMainGoal []
        return
      else
        s.restore
    catch _ => s.restore
  throwError "track_hyp: no hypothesis applies"

/-- one step of the syntax-directed derivation: the model term at `Dual ℝ` on the left and the same term at `ℝ` under
the binder on the right have the same head symbol -/
macro "track_step" : tactic => `(tactic| first
  | assumption
  | track_hyp
  | exact Tracks.var
  | exact Tracks.dec _ _
  | exact Tracks.natCast _
  | exact Tracks.zero
  | exact Tracks.one
  | exact Tracks.pi
  | exact Tracks.const _
  | apply Tracks.add
  | apply Tracks.sub
  | apply Tracks.mul
  | apply Tracks.neg
  | apply Tracks.div
  | apply Tracks.sqrt
  | apply Tracks.exp
  | apply Tracks.sin
  | apply Tracks.cos
  | apply Tracks.tan
  | apply Tracks.atan
  | apply Tracks.log
  | apply Tracks.abs
  | apply Tracks.rpow
  | (refine Tracks.sumTo _ _ _ ?_; intro _ _)
  | apply Tracks.ite)

/-- scalar views of a family of tracked vectors (for `apply_assumption`) -/
theorem TracksV.fam1 {A : ℕ → V3 (Dual ℝ)} {F : ℝ → ℕ → V3 ℝ} (h : ∀ j, TracksV (A j) (fun s => F s j) t) :
    (∀ j, Tracks (A j).x (fun s => (F s j).x) t) ∧ (∀ j, Tracks (A j).y (fun s => (F s j).y) t) ∧
    (∀ j, Tracks (A j).z (fun s => (F s j).z) t) :=
  ⟨fun j => (h j).1, fun j => (h j).2.1, fun j => (h j).2.2⟩

theorem TracksV.fam2 {A : ℕ → ℕ → V3 (Dual ℝ)} {F : ℝ → ℕ → ℕ → V3 ℝ} (h : ∀ i j, TracksV (A i j) (fun s => F s i j) t) :
    (∀ i j, Tracks (A i j).x (fun s => (F s i j).x) t) ∧ (∀ i j, Tracks (A i j).y (fun s => (F s i j).y) t) ∧
    (∀ i j, Tracks (A i j).z (fun s => (F s i j).z) t) :=
  ⟨fun i j => (h i j).1, fun i j => (h i j).2.1, fun i j => (h i j).2.2⟩

/-- the projection lemmas used to reduce vector-valued model terms to scalar ones (all `rfl`, valid at every scalar type) -/
macro "v3norm" : tactic => `(tactic| try simp only [V3.add_x, V3.add_y, V3.add_z, V3.sub_x, V3.sub_y, V3.sub_z, V3.neg_x, V3.neg_y,
  V3.neg_z, V3.zero_x, V3.zero_y, V3.zero_z, V3.smul_x, V3.smul_y, V3.smul_z, V3.cross_x, V3.cross_y, V3.cross_z,
  V3.ite_x, V3.ite_y, V3.ite_z, V3.sumTo_x', V3.sumTo_y', V3.sumTo_z', V3.dot, V3.norm, M3.mulVec])

/-- derive `Tracks` for a straight-line model term, leaving the differentiability side conditions -/
macro "track" : tactic => `(tactic| repeat' track_step)

end AD
end OAS
