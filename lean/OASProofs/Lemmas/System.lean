import OASProofs.Lemmas.Kernel

/-!
  The assembled vortex-lattice system of `OASModel/VLM.lean` in terms of the velocity induced by a circulation
  distribution: rows of the linear system are `(induced velocity at the collocation point) · normal`, the force-point
  velocity is `onset + induced velocity at the force point`; a single surface's induction as a double sum over its
  panels.
-/
set_option linter.unusedSectionVars false
set_option linter.unusedSimpArgs false
namespace OAS
namespace VLM
open Finset

/-- velocity induced at `p` by the circulations `gamma` of all panels of the surface list -/
noncomputable def indVel (l : List (Surf ℝ)) (f : Flow ℝ) (gamma : ℕ → ℝ) (p : V3 ℝ) : V3 ℝ :=
  V3.sumTo (totalPanels l) (fun n => V3.smul (gamma n) (influence l f p n))

theorem forcePtVelocity_eq (l : List (Surf ℝ)) (f : Flow ℝ) (gamma : ℕ → ℝ) (m : ℕ) (s : Surf ℝ) (i j : ℕ)
    (hl : locate l m = some (s, i, j)) :
    forcePtVelocity l f gamma m = onset f (collPt s i j) + indVel l f gamma (forcePt s i j) := by
  simp only [forcePtVelocity, hl, indVel]

/-- **a row of the linear system applied to `gamma` is the normal component of the induced velocity** -/
theorem row_eq (l : List (Surf ℝ)) (f : Flow ℝ) (gamma : ℕ → ℝ) (m : ℕ) (s : Surf ℝ) (i j : ℕ)
    (hl : locate l m = some (s, i, j)) :
    ∑ n ∈ range (totalPanels l), aic l f m n * gamma n = V3.dot (indVel l f gamma (collPt s i j)) (normal s i j) := by
  simp only [aic, hl, indVel, V3.dot, V3.sumTo_x, V3.sumTo_y, V3.sumTo_z, V3.smul_x, V3.smul_y, V3.smul_z,
    Finset.sum_mul, ← Finset.sum_add_distrib]
  exact Finset.sum_congr rfl (fun n _ => by ring)

theorem locate_isSome_iff (l : List (Surf ℝ)) (m : ℕ) : (locate l m).isSome ↔ m < totalPanels l := by
  induction l generalizing m with
  | nil => simp [locate, totalPanels]
  | cons s rest ih =>
    simp only [locate, totalPanels, List.map_cons, List.sum_cons]
    split_ifs with h
    · simp; omega
    · rw [ih]; simp only [totalPanels]; omega

theorem sum_range_mul (a b : ℕ) (g : ℕ → ℝ) :
    ∑ n ∈ range (a * b), g n = ∑ i ∈ range a, ∑ j ∈ range b, g (i * b + j) := by
  induction a with
  | zero => simp
  | succ a ih => rw [Nat.succ_mul, Finset.sum_range_add, ih, Finset.sum_range_succ]

theorem locate_single (t : Surf ℝ) (i j : ℕ) (hi : i < t.nx - 1) (hj : j < t.ny - 1) :
    locate [t] (i * (t.ny - 1) + j) = some (t, i, j) := by
  have hlt : i * (t.ny - 1) + j < t.npanels := by
    unfold Surf.npanels
    calc i * (t.ny - 1) + j < i * (t.ny - 1) + (t.ny - 1) := by omega
      _ = (i + 1) * (t.ny - 1) := by ring
      _ ≤ (t.nx - 1) * (t.ny - 1) := Nat.mul_le_mul_right _ (by omega)
  have hb : 0 < t.ny - 1 := by omega
  have h1 : (i * (t.ny - 1) + j) / (t.ny - 1) = i := by
    rw [Nat.add_comm, Nat.mul_comm, Nat.add_mul_div_left _ _ hb, Nat.div_eq_of_lt hj]; simp
  have h2 : (i * (t.ny - 1) + j) % (t.ny - 1) = j := by
    rw [Nat.add_comm, Nat.mul_comm, Nat.add_mul_mod_self_left, Nat.mod_eq_of_lt hj]
  simp only [locate, hlt, if_true, h1, h2]

theorem totalPanels_single (t : Surf ℝ) : totalPanels [t] = (t.nx - 1) * (t.ny - 1) := by
  simp [totalPanels, Surf.npanels]

/-- **the induction of a single surface as a double sum over its chordwise and spanwise panel indices** -/
theorem indVel_single (t : Surf ℝ) (f : Flow ℝ) (gamma : ℕ → ℝ) (p : V3 ℝ) :
    indVel [t] f gamma p = V3.sumTo (t.nx - 1) (fun i => V3.sumTo (t.ny - 1) (fun j =>
      V3.smul (gamma (i * (t.ny - 1) + j)) (velMtx t f.alpha (vortexMesh t (deg2rad f.alpha) f.h) p i j))) := by
  have key : ∀ i ∈ range (t.nx - 1), ∀ j ∈ range (t.ny - 1),
      influence [t] f p (i * (t.ny - 1) + j) = velMtx t f.alpha (vortexMesh t (deg2rad f.alpha) f.h) p i j := by
    intro i hi j hj
    simp only [influence, locate_single t i j (mem_range.mp hi) (mem_range.mp hj)]
  ext <;>
  · simp only [indVel, totalPanels_single, V3.sumTo_x, V3.sumTo_y, V3.sumTo_z, V3.smul_x, V3.smul_y, V3.smul_z]
    rw [sum_range_mul]
    exact Finset.sum_congr rfl (fun i hi => Finset.sum_congr rfl (fun j hj => by rw [key i hi j hj]))

end VLM
end OAS

namespace OAS
namespace VLM
theorem div_mod_of_lt (i J b : ℕ) (hJ : J < b) : (i * b + J) / b = i ∧ (i * b + J) % b = J := by
  have hb : 0 < b := by omega
  constructor
  · rw [Nat.add_comm, Nat.mul_comm, Nat.add_mul_div_left _ _ hb, Nat.div_eq_of_lt hJ]; simp
  · rw [Nat.add_comm, Nat.mul_comm, Nat.add_mul_mod_self_left, Nat.mod_eq_of_lt hJ]

theorem V3.sumTo_congr (n : ℕ) (g g' : ℕ → V3 ℝ) (hg : ∀ k, k < n → g k = g' k) : V3.sumTo n g = V3.sumTo n g' := by
  ext <;> simp only [V3.sumTo_x, V3.sumTo_y, V3.sumTo_z] <;>
    exact Finset.sum_congr rfl (fun k hk => by rw [hg k (Finset.mem_range.mp hk)])

theorem V3.sumTo_mirror (n : ℕ) (g : ℕ → V3 ℝ) : mirrorY (V3.sumTo n g) = V3.sumTo n (fun k => mirrorY (g k)) := by
  ext <;> simp [Finset.sum_neg_distrib]

theorem V3.sumTo_reflect (n : ℕ) (g : ℕ → V3 ℝ) : V3.sumTo n (fun k => g (n - 1 - k)) = V3.sumTo n g := by
  ext <;> simp only [V3.sumTo_x, V3.sumTo_y, V3.sumTo_z]
  · exact Finset.sum_range_reflect (fun k => (g k).x) n
  · exact Finset.sum_range_reflect (fun k => (g k).y) n
  · exact Finset.sum_range_reflect (fun k => (g k).z) n

theorem mirrorY_smul (c : ℝ) (v : V3 ℝ) : mirrorY (V3.smul c v) = V3.smul c (mirrorY v) := by
  ext <;> simp
end VLM
end OAS
