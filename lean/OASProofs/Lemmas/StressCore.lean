import OASModel

/-!
  The scalar tails of `VonMisesTube.compute` and `VonMisesWingbox.compute` as functions of the *local* displacements;
  the model's definitions are these applied to the displacements transformed by the element frame (by `rfl`, at every
  scalar type).
-/
namespace OAS
namespace C01AD

section core
variable {K : Type} [Add K] [Sub K] [Mul K] [Div K] [Neg K] [Zero K] [One K] [NatCast K] [Elem K]

/-- the scalar tail of `VonMisesTube.compute`, as a function of the local displacements -/
def tubeCore (E G L rad : K) (u0 r0 u1 r1 : V3 K) : K × K :=
  let tmp := Elem.sqrt ((r1.y - r0.y) * (r1.y - r0.y) + (r1.z - r0.z) * (r1.z - r0.z))
  let sxx0 := E * (u1.x - u0.x) / L + E * rad / L * tmp
  let sxx1 := E * (u0.x - u1.x) / L + E * rad / L * tmp
  let sxt := G * rad * (r1.x - r0.x) / L
  (Elem.sqrt (sxx0 * sxx0 + ((3 : Nat) : K) * (sxt * sxt)), Elem.sqrt (sxx1 * sxx1 + ((3 : Nat) : K) * (sxt * sxt)))

/-- the model's `vonMisesTube` *is* `tubeCore` of the transformed displacements (definitional) -/
theorem vonMisesTube_core (E G : K) (nodes : Pts K) (radius : Nat → K) (disp : Nat → Disp K) (e : Nat) :
    vonMisesTube E G nodes radius disp e
      = tubeCore E G (V3.norm (nodes (e + 1) - nodes e)) (radius e)
          ((elemFrame (nodes e) (nodes (e + 1))).mulVec (disp e).u) ((elemFrame (nodes e) (nodes (e + 1))).mulVec (disp e).r)
          ((elemFrame (nodes e) (nodes (e + 1))).mulVec (disp (e + 1)).u)
          ((elemFrame (nodes e) (nodes (e + 1))).mulVec (disp (e + 1)).r) := rfl
end core

section wcore
variable {K : Type} [Add K] [Sub K] [Mul K] [Div K] [Neg K] [Zero K] [One K] [NatCast K] [Elem K]

/-- the four radicands of `VonMisesWingbox.compute` as a function of the local displacements and the section data -/
def wingboxRad (E G L : K) (s : WingboxSec K) (u0 r0 u1 r1 : V3 K) : K × K × K × K :=
  let n2 : K := ((2 : Nat) : K); let n4 : K := ((4 : Nat) : K); let n6 : K := ((6 : Nat) : K); let n12 : K := ((12 : Nat) : K)
  let axial := E * (u1.x - u0.x) / L
  let torsion := G * s.J / L * (r1.x - r0.x) / n2 / s.tspar / s.Aenc
  let kz := n6 * u0.y + n2 * r0.z * L - n6 * u1.y + n4 * r1.z * L
  let ky := -n6 * u0.z + n2 * r0.y * L + n6 * u1.z + n4 * r1.y * L
  let top := E / (L * L) * kz * s.htop
  let bottom := -E / (L * L) * kz * s.hbottom
  let front := -E / (L * L) * ky * s.hfront
  let rear := E / (L * L) * ky * s.hrear
  let vshear := E / (L * L * L) * (-n12 * u0.y - n6 * r0.z * L + n12 * u1.y - n6 * r1.z * L) * s.Qz / (n2 * s.tspar)
  let n3 : K := ((3 : Nat) : K)
  ( (top + rear + axial) * (top + rear + axial) + n3 * (torsion * torsion),
    (bottom + front + axial) * (bottom + front + axial) + n3 * (torsion * torsion),
    (front + axial) * (front + axial) + n3 * ((torsion - vshear) * (torsion - vshear)),
    (rear + axial) * (rear + axial) + n3 * ((torsion + vshear) * (torsion + vshear)) )

def wingboxCore (E G tssf L : K) (s : WingboxSec K) (u0 r0 u1 r1 : V3 K) : K × K × K × K :=
  let q := wingboxRad E G L s u0 r0 u1 r1
  (Elem.sqrt q.1 / tssf, Elem.sqrt q.2.1, Elem.sqrt q.2.2.1, Elem.sqrt q.2.2.2 / tssf)

theorem vonMisesWingbox_core (E G tssf : K) (nodes : Pts K) (sec : Nat → WingboxSec K) (disp : Nat → Disp K) (e : Nat) :
    vonMisesWingbox E G tssf nodes sec disp e
      = wingboxCore E G tssf (V3.norm (nodes (e + 1) - nodes e)) (sec e)
          ((elemFrame (nodes e) (nodes (e + 1))).mulVec (disp e).u) ((elemFrame (nodes e) (nodes (e + 1))).mulVec (disp e).r)
          ((elemFrame (nodes e) (nodes (e + 1))).mulVec (disp (e + 1)).u)
          ((elemFrame (nodes e) (nodes (e + 1))).mulVec (disp (e + 1)).r) := rfl
end wcore

end C01AD
end OAS
