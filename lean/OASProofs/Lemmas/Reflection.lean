import OASProofs.Lemmas.Rotation

/-!
  Reflections of ℝ³ and the vortex-lattice kernel: for `R v = v − 2 (v·n) n` (`|n| = 1`), lattices reflected *without*
  reversing their node order induce `−R` of the original velocity (a reflection reverses the sense of rotation).
  Used for the method of images of the ground effect.
-/
set_option linter.unusedSectionVars false
set_option linter.unusedSimpArgs false
namespace OAS

/-- an improper orthogonal map (a reflection), given by the properties the proofs use -/
structure IsRefl (R : V3 ℝ → V3 ℝ) : Prop where
  add : ∀ a b, R (a + b) = R a + R b
  smul : ∀ (c : ℝ) a, R (V3.smul c a) = V3.smul c (R a)
  dot : ∀ a b, V3.dot (R a) (R b) = V3.dot a b
  cross : ∀ a b, V3.cross (R a) (R b) = -R (V3.cross a b)

/-- the reflection across the plane through the origin with normal `n` -/
noncomputable def reflN (n : V3 ℝ) (v : V3 ℝ) : V3 ℝ := v - V3.smul (2 * V3.dot v n) n

theorem reflN_isRefl (n : V3 ℝ) (hn : n.x * n.x + n.y * n.y + n.z * n.z = 1) : IsRefl (reflN n) := by
  refine ⟨?_, ?_, ?_, ?_⟩
  · intro a b; ext <;> simp [reflN, V3.dot] <;> ring
  · intro c a; ext <;> simp [reflN, V3.dot] <;> ring
  · intro a b
    simp only [reflN, V3.dot, V3.sub_x, V3.sub_y, V3.sub_z, V3.smul_x, V3.smul_y, V3.smul_z]
    linear_combination (4 * (a.x * n.x + a.y * n.y + a.z * n.z) * (b.x * n.x + b.y * n.y + b.z * n.z)) * hn
  · intro a b
    ext <;> simp only [reflN, V3.dot, V3.cross_x, V3.cross_y, V3.cross_z, V3.sub_x, V3.sub_y, V3.sub_z, V3.smul_x, V3.smul_y,
      V3.smul_z, V3.neg_x, V3.neg_y, V3.neg_z]
    · linear_combination (-2 * (a.y * b.z - a.z * b.y)) * hn
    · linear_combination (2 * (a.x * b.z - a.z * b.x)) * hn
    · linear_combination (-2 * (a.x * b.y - a.y * b.x)) * hn

namespace IsRefl
variable {R : V3 ℝ → V3 ℝ} (h : IsRefl R)
include h

theorem zero : R 0 = 0 := by
  have := h.smul 0 0
  have e : V3.smul (0 : ℝ) (0 : V3 ℝ) = 0 := by ext <;> simp
  have e' : V3.smul (0 : ℝ) (R 0) = 0 := by ext <;> simp
  rw [e, e'] at this; exact this

theorem neg (a : V3 ℝ) : R (-a) = -R a := by
  have := h.smul (-1) a
  have e : V3.smul (-1 : ℝ) a = -a := by ext <;> simp
  have e' : V3.smul (-1 : ℝ) (R a) = -R a := by ext <;> simp
  rw [e, e'] at this; exact this

theorem sub (a b : V3 ℝ) : R (a - b) = R a - R b := by
  have e : a - b = a + -b := by ext <;> simp <;> ring
  have e' : R a - R b = R a + -R b := by ext <;> simp <;> ring
  rw [e, h.add, h.neg, e']

theorem norm (a : V3 ℝ) : V3.norm (R a) = V3.norm a := by
  have := h.dot a a
  simp only [V3.dot] at this
  simp only [V3.norm, elem_sqrt, this]

theorem mk3 (k : ℝ) (c : V3 ℝ) : R ⟨k * c.x, k * c.y, k * c.z⟩ = V3.smul k (R c) := by
  rw [← h.smul]; rfl

end IsRefl

namespace VLM

theorem finiteVortex_refl {R : V3 ℝ → V3 ℝ} (h : IsRefl R) (r1 r2 : V3 ℝ) :
    finiteVortex (R r1) (R r2) = -R (finiteVortex r1 r2) := by
  unfold finiteVortex
  simp only [h.norm, h.dot, h.cross]
  split_ifs with hd
  · set k := (1 / V3.norm r1 + 1 / V3.norm r2) / ((V3.norm r1 * V3.norm r2 + V3.dot r1 r2) * ((4 : ℕ) : ℝ) * Elem.pi) with hk
    have e : ∀ c : V3 ℝ, (⟨(1 / V3.norm r1 + 1 / V3.norm r2) * c.x / ((V3.norm r1 * V3.norm r2 + V3.dot r1 r2) * ((4 : ℕ) : ℝ) * Elem.pi),
        (1 / V3.norm r1 + 1 / V3.norm r2) * c.y / ((V3.norm r1 * V3.norm r2 + V3.dot r1 r2) * ((4 : ℕ) : ℝ) * Elem.pi),
        (1 / V3.norm r1 + 1 / V3.norm r2) * c.z / ((V3.norm r1 * V3.norm r2 + V3.dot r1 r2) * ((4 : ℕ) : ℝ) * Elem.pi)⟩ : V3 ℝ)
        = ⟨k * c.x, k * c.y, k * c.z⟩ := by
      intro c; ext <;> simp only [hk] <;> ring
    rw [e, e, h.mk3]
    ext <;> simp
  · rw [h.zero]; ext <;> simp

theorem semiInfVortex_refl {R : V3 ℝ → V3 ℝ} (h : IsRefl R) (u r : V3 ℝ) (hu : R u = u) :
    semiInfVortex u (R r) = -R (semiInfVortex u r) := by
  have hd : V3.dot u (R r) = V3.dot u r := by rw [← hu, h.dot, hu]
  have hc : V3.cross u (R r) = -R (V3.cross u r) := by rw [← hu, h.cross, hu]
  unfold semiInfVortex
  simp only [h.norm, hd, hc]
  set k := 1 / (V3.norm r * (V3.norm r - V3.dot u r)) / ((4 : ℕ) : ℝ) / Elem.pi with hk
  have e : ∀ c : V3 ℝ, (⟨c.x / (V3.norm r * (V3.norm r - V3.dot u r)) / ((4 : ℕ) : ℝ) / Elem.pi,
      c.y / (V3.norm r * (V3.norm r - V3.dot u r)) / ((4 : ℕ) : ℝ) / Elem.pi,
      c.z / (V3.norm r * (V3.norm r - V3.dot u r)) / ((4 : ℕ) : ℝ) / Elem.pi⟩ : V3 ℝ) = ⟨k * c.x, k * c.y, k * c.z⟩ := by
    intro c; ext <;> simp only [hk] <;> ring
  rw [e, e, h.mk3]
  ext <;> simp

/-- an affine reflection `A v = R v + t`: differences of points transform with `R` -/
theorem ring_refl {R : V3 ℝ → V3 ℝ} (h : IsRefl R) (t : V3 ℝ) (vm : Mesh ℝ) (p : V3 ℝ) (i j : ℕ) :
    ring (fun a b => R (vm a b) + t) (R p + t) i j = -R (ring vm p i j) := by
  have e : ∀ a : V3 ℝ, (R p + t) - (R a + t) = R (p - a) := by
    intro a; rw [h.sub]; ext <;> simp
  simp only [ring, e, finiteVortex_refl h, h.add]
  ext <;> simp <;> ring

theorem trailing_refl {R : V3 ℝ → V3 ℝ} (h : IsRefl R) (t u : V3 ℝ) (hu : R u = u) (vm : Mesh ℝ) (p : V3 ℝ) (i j : ℕ) :
    trailing u (fun a b => R (vm a b) + t) (R p + t) i j = -R (trailing u vm p i j) := by
  have e : ∀ a : V3 ℝ, (R p + t) - (R a + t) = R (p - a) := by
    intro a; rw [h.sub]; ext <;> simp
  simp only [trailing, e, finiteVortex_refl h, semiInfVortex_refl h u _ hu]
  rw [h.add, h.sub]
  ext <;> simp <;> ring

/-- **a lattice reflected without reversing its node order induces `−R` of the original velocity** -/
theorem latticeVel_refl {R : V3 ℝ → V3 ℝ} (h : IsRefl R) (t u : V3 ℝ) (hu : R u = u) (nx : ℕ) (vm : Mesh ℝ) (r0 : ℕ)
    (p : V3 ℝ) (i j : ℕ) :
    latticeVel nx u (fun a b => R (vm a b) + t) r0 (R p + t) i j = -R (latticeVel nx u vm r0 p i j) := by
  unfold latticeVel
  simp only
  rw [h.add, ring_refl h t (fun a b => vm (r0 + a) b)]
  split_ifs
  · rw [trailing_refl h t u hu (fun a b => vm (r0 + a) b)]
    ext <;> simp <;> ring
  · rw [h.zero]; ext <;> simp

end VLM
end OAS
