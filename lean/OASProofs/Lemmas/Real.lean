import OASModel
import Mathlib.Analysis.SpecialFunctions.Pow.Real
import Mathlib.Analysis.SpecialFunctions.Log.Basic
import Mathlib.Analysis.SpecialFunctions.Trigonometric.Arctan
import Mathlib.Analysis.SpecialFunctions.Trigonometric.Inverse
import Mathlib.Analysis.SpecialFunctions.Trigonometric.Deriv

/-! The real-number instance of the model's elementary-function class. -/
namespace OAS

noncomputable instance instElemReal : Elem ℝ where
  sqrt := Real.sqrt
  sin := Real.sin
  cos := Real.cos
  tan := Real.tan
  exp := Real.exp
  log := Real.log
  rpow := fun x y => x ^ y
  abs := fun x => |x|
  atan := Real.arctan
  acos := Real.arccos
  pi := Real.pi

@[simp] theorem elem_sqrt (x : ℝ) : Elem.sqrt x = Real.sqrt x := rfl
@[simp] theorem elem_sin (x : ℝ) : Elem.sin x = Real.sin x := rfl
@[simp] theorem elem_cos (x : ℝ) : Elem.cos x = Real.cos x := rfl
@[simp] theorem elem_tan (x : ℝ) : Elem.tan x = Real.tan x := rfl
@[simp] theorem elem_exp (x : ℝ) : Elem.exp x = Real.exp x := rfl
@[simp] theorem elem_log (x : ℝ) : Elem.log x = Real.log x := rfl
@[simp] theorem elem_rpow (x y : ℝ) : Elem.rpow x y = x ^ y := rfl
@[simp] theorem elem_abs (x : ℝ) : Elem.abs x = |x| := rfl
@[simp] theorem elem_atan (x : ℝ) : Elem.atan x = Real.arctan x := rfl
@[simp] theorem elem_pi : (Elem.pi : ℝ) = Real.pi := rfl
@[simp] theorem elem_acos (x : ℝ) : Elem.acos x = Real.arccos x := rfl

end OAS
