import OASModel
import Mathlib.Algebra.BigOperators.Intervals
import Mathlib.Algebra.BigOperators.Ring.Finset
import Mathlib.Algebra.BigOperators.Field
import Mathlib.Algebra.Order.BigOperators.Ring.Finset
import Mathlib.Tactic.Ring
import Mathlib.Tactic.FieldSimp
import Mathlib.Tactic.Linarith
import Mathlib.Tactic.NormNum
import Mathlib.Tactic.IntervalCases

/-!
  Helper lemmas shared by the property files: the bridge from the model's recursive `sumTo`
  to `Finset.sum`, component lemmas for `V3`, and the "scatter-add" pattern
  `out[:-1] = a ; out[1:] += b` that OAS uses for every element → node accumulation.
-/
set_option linter.unusedSectionVars false
namespace OAS
open Finset

section sums
variable {K : Type} [AddCommMonoid K]

theorem sumTo_eq_sum (n : ℕ) (f : ℕ → K) : sumTo n f = ∑ i ∈ range n, f i := by
  induction n with
  | zero => simp [sumTo]
  | succ n ih => simp [sumTo, ih, Finset.sum_range_succ]

/-- `out[:-1] = g ; out[1:] += h` summed over all `m+1` entries is `Σ (g + h)` over the `m`
elements. -/
theorem scatter_sum (m : ℕ) (g h : ℕ → K) :
    ∑ j ∈ range (m + 1), ((if j < m then g j else 0) + (if 1 ≤ j then h (j - 1) else 0))
      = ∑ j ∈ range m, (g j + h j) := by
  rw [Finset.sum_add_distrib, Finset.sum_add_distrib]
  congr 1
  · rw [Finset.sum_range_succ]
    simp only [lt_self_iff_false, if_false, add_zero]
    exact Finset.sum_congr rfl (fun j hj => by simp [Finset.mem_range.mp hj])
  · rw [Finset.sum_range_succ']
    simp

/-- `out[:-1] = g` : entries `j < m` of an array of length `m+1` -/
theorem sum_ite_lt_last (m : ℕ) (g : ℕ → K) :
    ∑ j ∈ range (m + 1), (if j < m then g j else 0) = ∑ j ∈ range m, g j := by
  rw [Finset.sum_range_succ]
  simp only [lt_self_iff_false, if_false, add_zero]
  exact Finset.sum_congr rfl (fun j hj => by simp [Finset.mem_range.mp hj])

/-- `out[1:] += h` : entries `1 ≤ j` of an array of length `m+1` -/
theorem sum_ite_one_le (m : ℕ) (h : ℕ → K) :
    ∑ j ∈ range (m + 1), (if 1 ≤ j then h j else 0) = ∑ j ∈ range m, h (j + 1) := by
  rw [Finset.sum_range_succ']
  simp

end sums

namespace V3
variable {K : Type}

@[ext] theorem ext' {a b : V3 K} (hx : a.x = b.x) (hy : a.y = b.y) (hz : a.z = b.z) : a = b := by
  cases a; cases b; simp_all

section
variable [Add K] [Sub K] [Mul K] [Neg K] [Zero K]
@[simp] theorem add_x (a b : V3 K) : (a + b).x = a.x + b.x := rfl
@[simp] theorem add_y (a b : V3 K) : (a + b).y = a.y + b.y := rfl
@[simp] theorem add_z (a b : V3 K) : (a + b).z = a.z + b.z := rfl
@[simp] theorem sub_x (a b : V3 K) : (a - b).x = a.x - b.x := rfl
@[simp] theorem sub_y (a b : V3 K) : (a - b).y = a.y - b.y := rfl
@[simp] theorem sub_z (a b : V3 K) : (a - b).z = a.z - b.z := rfl
@[simp] theorem neg_x (a : V3 K) : (-a).x = -a.x := rfl
@[simp] theorem neg_y (a : V3 K) : (-a).y = -a.y := rfl
@[simp] theorem neg_z (a : V3 K) : (-a).z = -a.z := rfl
@[simp] theorem zero_x : (0 : V3 K).x = 0 := rfl
@[simp] theorem zero_y : (0 : V3 K).y = 0 := rfl
@[simp] theorem zero_z : (0 : V3 K).z = 0 := rfl
@[simp] theorem smul_x (c : K) (a : V3 K) : (smul c a).x = c * a.x := rfl
@[simp] theorem smul_y (c : K) (a : V3 K) : (smul c a).y = c * a.y := rfl
@[simp] theorem smul_z (c : K) (a : V3 K) : (smul c a).z = c * a.z := rfl
@[simp] theorem cross_x (a b : V3 K) : (cross a b).x = a.y * b.z - a.z * b.y := rfl
@[simp] theorem cross_y (a b : V3 K) : (cross a b).y = a.z * b.x - a.x * b.z := rfl
@[simp] theorem cross_z (a b : V3 K) : (cross a b).z = a.x * b.y - a.y * b.x := rfl
@[simp] theorem ite_x (c : Prop) [Decidable c] (a b : V3 K) : (if c then a else b).x = if c then a.x else b.x := by
  split <;> rfl
@[simp] theorem ite_y (c : Prop) [Decidable c] (a b : V3 K) : (if c then a else b).y = if c then a.y else b.y := by
  split <;> rfl
@[simp] theorem ite_z (c : Prop) [Decidable c] (a b : V3 K) : (if c then a else b).z = if c then a.z else b.z := by
  split <;> rfl
end

section
variable [AddCommMonoid K] [Sub K] [Mul K] [Neg K]
@[simp] theorem sumTo_x (n : ℕ) (f : ℕ → V3 K) : (V3.sumTo n f).x = ∑ i ∈ range n, (f i).x := by
  simp [V3.sumTo, OAS.sumTo_eq_sum]
@[simp] theorem sumTo_y (n : ℕ) (f : ℕ → V3 K) : (V3.sumTo n f).y = ∑ i ∈ range n, (f i).y := by
  simp [V3.sumTo, OAS.sumTo_eq_sum]
@[simp] theorem sumTo_z (n : ℕ) (f : ℕ → V3 K) : (V3.sumTo n f).z = ∑ i ∈ range n, (f i).z := by
  simp [V3.sumTo, OAS.sumTo_eq_sum]
end

end V3

section dec
variable {K : Type} [DivisionRing K]
theorem dec_def (a b : ℕ) : (dec a b : K) = (a : K) / (b : K) := rfl
end dec

end OAS
