import OASProofs.Lemmas.Basic
import OASProofs.Lemmas.Real

/-!
  Symmetry lemmas for the vortex-lattice kernel of `OASModel/VLM.lean` over ℝ, each including the
  `|den| > tol` branch of `_compute_finite_vortex`.
-/
set_option linter.unusedSectionVars false
set_option linter.unusedSimpArgs false
namespace OAS
namespace VLM

/-- mirror image about the `x–z` plane -/
abbrev S := @mirrorY ℝ _

@[simp] theorem mirrorY_x (v : V3 ℝ) : (mirrorY v).x = v.x := rfl
@[simp] theorem mirrorY_y (v : V3 ℝ) : (mirrorY v).y = -v.y := rfl
@[simp] theorem mirrorY_z (v : V3 ℝ) : (mirrorY v).z = v.z := rfl

theorem mirrorY_sub (a b : V3 ℝ) : mirrorY (a - b) = mirrorY a - mirrorY b := by
  ext <;> simp <;> ring

theorem mirrorY_add (a b : V3 ℝ) : mirrorY (a + b) = mirrorY a + mirrorY b := by
  ext <;> simp <;> ring

theorem mirrorY_neg (a : V3 ℝ) : mirrorY (-a) = -mirrorY a := by ext <;> simp

theorem mirrorY_mirrorY (a : V3 ℝ) : mirrorY (mirrorY a) = a := by ext <;> simp

theorem mirrorY_zero : mirrorY (0 : V3 ℝ) = 0 := by ext <;> simp

theorem norm_mirrorY (a : V3 ℝ) : V3.norm (mirrorY a) = V3.norm a := by
  simp [V3.norm]

theorem dot_mirrorY (a b : V3 ℝ) : V3.dot (mirrorY a) (mirrorY b) = V3.dot a b := by
  simp [V3.dot]

/-- the denominator `|r1||r2| + r1·r2` of the finite-vortex kernel -/
noncomputable def fvDen (r1 r2 : V3 ℝ) : ℝ := V3.norm r1 * V3.norm r2 + V3.dot r1 r2

theorem fvDen_comm (a b : V3 ℝ) : fvDen a b = fvDen b a := by
  simp [fvDen, V3.dot]; ring

theorem fvDen_mirror (a b : V3 ℝ) : fvDen (mirrorY a) (mirrorY b) = fvDen a b := by
  simp [fvDen, norm_mirrorY, dot_mirrorY]

/-- **mirror equivariance of the finite vortex segment**, including the `tol` branch:
`fv(S r1, S r2) = − S fv(r1, r2)` (a reflection reverses the sense of rotation) -/
theorem finiteVortex_mirror (r1 r2 : V3 ℝ) :
    finiteVortex (mirrorY r1) (mirrorY r2) = -mirrorY (finiteVortex r1 r2) := by
  unfold finiteVortex
  simp only [norm_mirrorY, dot_mirrorY]
  split_ifs with h
  · ext <;> simp [V3.cross] <;> ring
  · ext <;> simp

/-- **antisymmetry**: reversing a segment reverses its induced velocity -/
theorem finiteVortex_antisymm (r1 r2 : V3 ℝ) : finiteVortex r2 r1 = -finiteVortex r1 r2 := by
  unfold finiteVortex
  have hd : V3.dot r2 r1 = V3.dot r1 r2 := by simp [V3.dot]; ring
  have hn : V3.norm r2 * V3.norm r1 = V3.norm r1 * V3.norm r2 := mul_comm _ _
  simp only [hd, hn]
  split_ifs with h
  · ext <;> simp [V3.cross] <;> ring
  · ext <;> simp

/-- mirror equivariance of the semi-infinite trailing leg for a wake direction in the `x–z` plane -/
theorem semiInfVortex_mirror (u r : V3 ℝ) (hu : u.y = 0) :
    semiInfVortex u (mirrorY r) = -mirrorY (semiInfVortex u r) := by
  unfold semiInfVortex
  have hd : V3.dot u (mirrorY r) = V3.dot u r := by simp [V3.dot, hu]
  simp only [norm_mirrorY, hd]
  ext <;> simp [V3.cross, hu] <;> ring

/-- translation invariance is built into the formulation: only differences `p − vm` enter -/
theorem ring_translate (vm : Mesh ℝ) (p t : V3 ℝ) (i j : ℕ) :
    ring (fun a b => vm a b + t) (p + t) i j = ring vm p i j := by
  have h : ∀ a b : V3 ℝ, (p + t) - (a + t) = p - a := fun a b => by ext <;> simp
  simp only [ring, h _ t]

theorem trailing_translate (u : V3 ℝ) (vm : Mesh ℝ) (p t : V3 ℝ) (i j : ℕ) :
    trailing u (fun a b => vm a b + t) (p + t) i j = trailing u vm p i j := by
  have h : ∀ a b : V3 ℝ, (p + t) - (a + t) = p - a := fun a b => by ext <;> simp
  simp only [trailing, h _ t]

theorem latticeVel_translate (nx : ℕ) (u : V3 ℝ) (vm : Mesh ℝ) (r0 : ℕ) (p t : V3 ℝ) (i j : ℕ) :
    latticeVel nx u (fun a b => vm a b + t) r0 (p + t) i j = latticeVel nx u vm r0 p i j := by
  unfold latticeVel
  simp only
  rw [ring_translate (fun a b => vm (r0 + a) b), trailing_translate u (fun a b => vm (r0 + a) b)]

/-! ### mirror-reversed lattices -/

theorem V3.add_comm' (a b : V3 ℝ) : a + b = b + a := by ext <;> simp <;> ring
theorem V3.add_assoc' (a b c : V3 ℝ) : a + b + c = a + (b + c) := by ext <;> simp <;> ring

/-- the lattice obtained by reflecting `vm` about the `x–z` plane and reversing the order of its
`C + 1` spanwise columns (the "mirrored configuration") -/
noncomputable def mirrorLattice (C : ℕ) (vm : Mesh ℝ) : Mesh ℝ := fun i c => mirrorY (vm i (C - c))

/-- **ring `j` of the mirrored lattice, seen from the mirrored point, induces the mirror image of
what ring `C−1−j` of the original lattice induces at the original point.**  (The column reversal
undoes the orientation reversal of the reflection.) -/
theorem ring_mirror (C : ℕ) (vm : Mesh ℝ) (p : V3 ℝ) (i j : ℕ) (hj : j + 1 ≤ C) :
    ring (mirrorLattice C vm) (mirrorY p) i j = mirrorY (ring vm p i (C - 1 - j)) := by
  have e1 : C - (j + 1) = C - 1 - j := by omega
  have e2 : C - j = C - 1 - j + 1 := by omega
  simp only [ring, mirrorLattice, ← mirrorY_sub, e1, e2, finiteVortex_mirror, mirrorY_add]
  set A := p - vm i (C - 1 - j + 1)
  set B := p - vm i (C - 1 - j)
  set Cc := p - vm (i + 1) (C - 1 - j)
  set D := p - vm (i + 1) (C - 1 - j + 1)
  rw [finiteVortex_antisymm A B, finiteVortex_antisymm D A, finiteVortex_antisymm Cc D, finiteVortex_antisymm B Cc]
  ext <;> simp <;> ring

theorem trailing_mirror (C : ℕ) (u : V3 ℝ) (hu : u.y = 0) (vm : Mesh ℝ) (p : V3 ℝ) (i j : ℕ) (hj : j + 1 ≤ C) :
    trailing u (mirrorLattice C vm) (mirrorY p) i j = mirrorY (trailing u vm p i (C - 1 - j)) := by
  have e1 : C - (j + 1) = C - 1 - j := by omega
  have e2 : C - j = C - 1 - j + 1 := by omega
  simp only [trailing, mirrorLattice, ← mirrorY_sub, e1, e2, finiteVortex_mirror, semiInfVortex_mirror u _ hu]
  set Cc := p - vm (i + 1) (C - 1 - j)
  set D := p - vm (i + 1) (C - 1 - j + 1)
  rw [finiteVortex_antisymm D Cc]
  ext <;> simp <;> ring

/-- **mirror equivariance of a whole lattice** (rings, extra trailing-edge segment and wake legs) -/
theorem latticeVel_mirror (nx C : ℕ) (u : V3 ℝ) (hu : u.y = 0) (vm : Mesh ℝ) (p : V3 ℝ) (i j : ℕ) (hj : j + 1 ≤ C) :
    latticeVel nx u (mirrorLattice C vm) 0 (mirrorY p) i j = mirrorY (latticeVel nx u vm 0 p i (C - 1 - j)) := by
  unfold latticeVel
  simp only [Nat.zero_add]
  have hm : (fun a b => mirrorLattice C vm a b) = mirrorLattice C (fun a b => vm a b) := rfl
  rw [mirrorY_add]
  congr 1
  · exact ring_mirror C vm p i j hj
  · split_ifs
    · exact trailing_mirror C u hu vm p i j hj
    · exact mirrorY_zero.symm

end VLM
end OAS
