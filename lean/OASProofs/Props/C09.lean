import OASProofs.Lemmas.Kernel
import OASProofs.Lemmas.Rotation

/-!
# C09  Compressibility correction implements Prandtl–Glauert and is exact at Mach 0

Model: `OASModel/PG.lean` (`pg_wind_rotation.py`, `pg_scale.py`) and `OASModel/Compressible.lean`, the wiring of
`compressible_states.py` (rotate → scale → incompressible solve at α = β = 0 with the transformed normals →
unscale → rotate back), which the correspondence check compares with the real `AeroPoint(compressible=True)`.
-/
set_option linter.unusedSectionVars false
set_option linter.unusedSimpArgs false
namespace OAS
namespace C09
open PG

/-- the first row of `Tw` is the free-stream direction: the wind frame has `x` along the free stream -/
theorem c09_wind_x_is_freestream (a b : ℝ) :
    (tw a b).r0 = ⟨Real.cos a * Real.cos b, -Real.sin b, Real.sin a * Real.cos b⟩ := by
  ext <;> simp [tw] <;> ring

/-- **the wind-frame rotation is orthogonal**: rotating back (`Twᵀ`) undoes the rotation -/
theorem c09_rot_orthogonal (a b : ℝ) (v : V3 ℝ) : fromWind a b (toWind a b v) = v := by
  have ha := Real.sin_sq_add_cos_sq a
  have hb := Real.sin_sq_add_cos_sq b
  simp only [fromWind, toWind, tw, transpose, M3.mulVec, elem_cos, elem_sin]
  set ca := Real.cos a; set sa := Real.sin a; set cb := Real.cos b; set sb := Real.sin b
  ext <;> simp only []
  · linear_combination (v.x * ca * ca + v.z * ca * sa) * hb + v.x * ha
  · linear_combination v.y * hb
  · linear_combination (sa * ca * v.x + v.z * sa * sa) * hb + v.z * ha

/-- and conversely: `Tw Twᵀ = I` -/
theorem c09_rot_orthogonal' (a b : ℝ) (v : V3 ℝ) : toWind a b (fromWind a b v) = v := by
  have ha := Real.sin_sq_add_cos_sq a
  have hb := Real.sin_sq_add_cos_sq b
  simp only [fromWind, toWind, tw, transpose, M3.mulVec, elem_cos, elem_sin]
  set ca := Real.cos a; set sa := Real.sin a; set cb := Real.cos b; set sb := Real.sin b
  ext <;> simp only []
  · linear_combination (v.x * cb * cb) * ha + v.x * hb + (cb * sb * v.y) * ha
  · linear_combination (v.y * sb * sb) * ha + v.y * hb + (sb * cb * v.x) * ha
  · linear_combination v.z * ha

/-- rotations preserve lengths (forces keep their magnitude when rotated back) -/
theorem c09_rot_isometry (a b : ℝ) (v : V3 ℝ) : V3.normSq (toWind a b v) = V3.normSq v := by
  have ha := Real.sin_sq_add_cos_sq a
  have hb := Real.sin_sq_add_cos_sq b
  simp only [toWind, tw, M3.mulVec, V3.normSq, elem_cos, elem_sin]
  set ca := Real.cos a; set sa := Real.sin a; set cb := Real.cos b; set sb := Real.sin b
  linear_combination ((v.x * ca + v.z * sa) ^ 2) * hb + (v.x ^ 2 + v.z ^ 2) * ha + v.y ^ 2 * hb

/-- **Prandtl–Glauert factor**: `β = √(1 − M²)` is positive for subsonic Mach numbers … -/
theorem c09_beta_pos (M : ℝ) (h0 : 0 ≤ M) (h1 : M < 1) : 0 < betaPG M := by
  simp only [betaPG, elem_sqrt]
  apply Real.sqrt_pos.mpr
  nlinarith

/-- … equals 1 at Mach 0 … -/
theorem c09_beta_mach0 : betaPG (0 : ℝ) = 1 := by simp [betaPG]

/-- … and depends continuously on the Mach number -/
theorem c09_beta_continuous : Continuous (fun M : ℝ => betaPG M) := by
  simp only [betaPG, elem_sqrt]
  exact Real.continuous_sqrt.comp (by continuity)

/-- **At Mach 0 the geometric stretching and the force scaling are the identity** -/
theorem c09_mach0_identity (v : V3 ℝ) :
    scaleGeom (betaPG (0 : ℝ)) v = v ∧ scaleNormal (betaPG (0 : ℝ)) v = v ∧ unscaleForce (betaPG (0 : ℝ)) v = v := by
  rw [c09_beta_mach0]
  refine ⟨?_, ?_, ?_⟩ <;> ext <;> simp [scaleGeom, scaleNormal, unscaleForce]

/-- **forces are scaled by `1/β⁴` streamwise and `1/β³` laterally/vertically** -/
theorem c09_force_scaling (M : ℝ) (f : V3 ℝ) :
    unscaleForce (betaPG M) f = ⟨f.x / (betaPG M) ^ 4, f.y / (betaPG M) ^ 3, f.z / (betaPG M) ^ 3⟩ := by
  ext <;> simp [unscaleForce] <;> ring

/-- the force scale factors are continuous in the Mach number on the subsonic range -/
theorem c09_scaling_continuous : ContinuousOn (fun M : ℝ => 1 / (betaPG M) ^ 4) (Set.Ico 0 1) ∧
    ContinuousOn (fun M : ℝ => 1 / (betaPG M) ^ 3) (Set.Ico 0 1) := by
  constructor <;>
  · apply ContinuousOn.div continuousOn_const
    · exact (c09_beta_continuous.pow _).continuousOn
    · intro M hM
      exact pow_ne_zero _ (ne_of_gt (c09_beta_pos M hM.1 hM.2))

/-- the normal transformation `(β nₓ, n_y, n_z)` is, up to a positive factor, the normal of the
stretched geometry: tangency to the stretched surface is tangency with the transformed normal -/
theorem c09_normal_of_stretched (B : ℝ) (n t : V3 ℝ) :
    V3.dot (scaleGeom B t) (scaleNormal B n) = B * V3.dot t n := by
  simp [scaleGeom, scaleNormal, V3.dot]; ring

/-! ### At Mach 0 and zero sideslip the compressible system *is* the incompressible one -/

/-- the wind-frame rotation at zero sideslip (a rotation about the `y` axis) is a proper rotation -/
theorem toWind_isRot (a : ℝ) : IsRot (toWind a 0) := by
  have ha := Real.sin_sq_add_cos_sq a
  refine ⟨?_, ?_, ?_, ?_⟩
  · intro u v; ext <;> simp [toWind, tw, M3.mulVec] <;> ring
  · intro c v; ext <;> simp [toWind, tw, M3.mulVec, V3.smul] <;> ring
  · intro u v
    simp only [toWind, tw, M3.mulVec, V3.dot, elem_cos, elem_sin, Real.cos_zero, Real.sin_zero]
    linear_combination (u.x * v.x + u.z * v.z) * ha
  · intro u v
    ext <;> simp only [toWind, tw, M3.mulVec, V3.cross, elem_cos, elem_sin, Real.cos_zero, Real.sin_zero]
    · ring
    · linear_combination (u.z * v.x - u.x * v.z) * ha
    · ring

/-- … that commutes with the mirror image about the symmetry plane -/
theorem toWind_mirror (a : ℝ) (v : V3 ℝ) : toWind a 0 (VLM.mirrorY v) = VLM.mirrorY (toWind a 0 v) := by
  ext <;> simp [toWind, tw, M3.mulVec]

theorem pgSurf_mach0 (a b : ℝ) : pgSurf a b (betaPG (0 : ℝ)) = VLM.mapSurf (toWind a b) := by
  funext s
  rw [c09_beta_mach0]
  simp only [pgSurf, VLM.mapSurf, scaleGeom, mul_one]

theorem pgNormal_mach0 (a b : ℝ) (s : VLM.Surf ℝ) (i j : ℕ) :
    pgNormal a b (betaPG (0 : ℝ)) s i j = toWind a b (VLM.normal s i j) := by
  rw [c09_beta_mach0]
  simp only [pgNormal, scaleNormal, mul_one]

theorem deg2rad_zero : deg2rad (0 : ℝ) = 0 := by simp [deg2rad]

/-- the geometric hypotheses of the rotation theorems hold between a flow and the wind-frame flow the compressible group
solves in -/
theorem rotGeo_toWind (surfs : List (VLM.Surf ℝ)) (f : VLM.Flow ℝ) (hg : ∀ s ∈ surfs, s.ground = false) :
    VLM.RotGeo (toWind (deg2rad f.alpha) 0) surfs f (pgFlow f) := by
  have ha := Real.sin_sq_add_cos_sq (deg2rad f.alpha)
  refine ⟨hg, fun s _ _ v => toWind_mirror _ v, ?_⟩
  ext <;> simp only [VLM.wakeDir, pgFlow, deg2rad_zero, toWind, tw, M3.mulVec, elem_cos, elem_sin,
    Real.cos_zero, Real.sin_zero]
  · linear_combination -ha
  · ring
  · ring

/-- at zero sideslip the free stream of the wind-frame flow is the rotated free stream -/
theorem freestream_toWind (f : VLM.Flow ℝ) (hb : f.beta = 0) :
    VLM.freestreamDir (pgFlow f) = toWind (deg2rad f.alpha) 0 (VLM.freestreamDir f) := by
  have ha := Real.sin_sq_add_cos_sq (deg2rad f.alpha)
  ext <;> simp only [VLM.freestreamDir, pgFlow, hb, deg2rad_zero, toWind, tw, M3.mulVec, elem_cos, elem_sin,
    Real.cos_zero, Real.sin_zero]
  · linear_combination (-f.v) * ha
  · ring
  · ring

/-- **at Mach 0 and zero sideslip the onset velocity of the Prandtl–Glauert-domain solve is the rotated onset velocity** –
with rotation rates too: `ω × (c − cg)` is computed in the body frame and rotated with everything else -/
theorem pgOnset_mach0 (f : VLM.Flow ℝ) (hb : f.beta = 0) (c : V3 ℝ) :
    pgOnset f (deg2rad f.alpha) 0 (betaPG (0 : ℝ)) c = toWind (deg2rad f.alpha) 0 (VLM.onset f c) := by
  have hR := toWind_isRot (deg2rad f.alpha)
  rw [c09_beta_mach0]
  simp only [pgOnset, VLM.onset, freestream_toWind f hb]
  cases f.rotational
  · simp only [Bool.false_eq_true, if_false]
    ext <;> simp
  · simp only [if_true]
    rw [hR.add]
    congr 1
    simp only [scaleRotVel, mul_one]

/-- **At Mach 0 and zero sideslip the compressible and the incompressible solvers coincide**: for every list of
surfaces (any sizes, symmetric or not, no ground effect) and every flow without sideslip – *with or without rotation
rates* – the Prandtl–Glauert system has the *same* influence matrix and the *same* right-hand side as the incompressible
system – hence the same circulations – and returns the *same* sectional forces for any circulations. -/
theorem c09_mach0_coincides (surfs : List (VLM.Surf ℝ)) (f : VLM.Flow ℝ) (hb : f.beta = 0)
    (hg : ∀ s ∈ surfs, s.ground = false) :
    (∀ m n, PG.aic surfs f 0 m n = VLM.aic surfs f m n) ∧
    (∀ m, PG.rhs surfs f 0 m = VLM.rhs surfs f m) ∧
    (∀ gamma m, PG.secForce surfs f 0 gamma m = VLM.panelForce surfs f gamma m) := by
  have hR := toWind_isRot (deg2rad f.alpha)
  have H := rotGeo_toWind surfs f hg
  have hb0 : deg2rad f.beta = 0 := by rw [hb, deg2rad_zero]
  refine ⟨?_, ?_, ?_⟩
  · intro m n
    rw [← VLM.aic_rotG hR surfs f (pgFlow f) H m n]
    simp only [PG.aic, VLM.aic, hb0, pgSurf_mach0, pgNormal_mach0]
    rw [VLM.locate_map (VLM.mapSurf _) (fun _ => rfl) (fun _ => rfl)]
    cases VLM.locate surfs m with
    | none => rfl
    | some t => obtain ⟨s, i, j⟩ := t; simp only [Option.map_some, VLM.normal_rot hR]
  · intro m
    simp only [PG.rhs, VLM.rhs, hb0, pgNormal_mach0, pgOnset_mach0 f hb]
    cases VLM.locate surfs m with
    | none => rfl
    | some t => obtain ⟨s, i, j⟩ := t; simp only [hR.dot]
  · intro gamma m
    simp only [PG.secForce, hb0, pgSurf_mach0, (c09_mach0_identity _).2.2]
    rw [VLM.panelForce_eq_with surfs f gamma m]
    have hon : ∀ k, pgOnsetAt surfs f (deg2rad f.alpha) 0 (betaPG 0) k = toWind (deg2rad f.alpha) 0 (VLM.onsetAt surfs f k) := by
      intro k
      unfold pgOnsetAt VLM.onsetAt
      cases VLM.locate surfs k with
      | none => exact hR.zero.symm
      | some t => obtain ⟨s, i, j⟩ := t; exact pgOnset_mach0 f hb _
    rw [VLM.panelForceWith_rot hR surfs f (pgFlow f) H rfl _ _ hon, c09_rot_orthogonal]

/-- non-vacuity: a two-panel non-symmetric surface at 5° incidence satisfies the hypotheses -/
example : let s : VLM.Surf ℝ := ⟨2, 3, false, false, false, fun i j => ⟨(i : ℝ), (j : ℝ) - 1, 0⟩⟩
    let f : VLM.Flow ℝ := ⟨5, 0, 10, 1, ⟨0, 1, 0⟩, 0, 0, true⟩
    f.beta = 0 ∧ ∀ t ∈ [s], t.ground = false := by
  simp

end C09
end OAS
