import OASProofs.Lemmas.Kernel

/-!
# C09  Compressibility correction implements Prandtl–Glauert and is exact at Mach 0

Model: `OASModel/PG.lean` (`pg_wind_rotation.py`, `pg_scale.py`).  The wiring of
`compressible_states.py` (rotate → scale → incompressible solve at α = β = 0 → unscale → rotate back) is
checked against the real group by the oracle of every run.
-/
set_option linter.unusedSectionVars false
set_option linter.unusedSimpArgs false
namespace OAS
namespace C09
open PG

/-- the first row of `Tw` is the free-stream direction: the wind frame has `x` along the free stream -/
theorem c09_wind_x_is_freestream (a b : ℝ) :
    (tw a b).r0 = ⟨Real.cos a * Real.cos b, -Real.sin b, Real.sin a * Real.cos b⟩ := by
  ext <;> simp [tw] <;> ring

/-- **the wind-frame rotation is orthogonal**: rotating back (`Twᵀ`) undoes the rotation -/
theorem c09_rot_orthogonal (a b : ℝ) (v : V3 ℝ) : fromWind a b (toWind a b v) = v := by
  have ha := Real.sin_sq_add_cos_sq a
  have hb := Real.sin_sq_add_cos_sq b
  simp only [fromWind, toWind, tw, transpose, M3.mulVec, elem_cos, elem_sin]
  set ca := Real.cos a; set sa := Real.sin a; set cb := Real.cos b; set sb := Real.sin b
  ext <;> simp only []
  · linear_combination (v.x * ca * ca + v.z * ca * sa) * hb + v.x * ha
  · linear_combination v.y * hb
  · linear_combination (sa * ca * v.x + v.z * sa * sa) * hb + v.z * ha

/-- and conversely: `Tw Twᵀ = I` -/
theorem c09_rot_orthogonal' (a b : ℝ) (v : V3 ℝ) : toWind a b (fromWind a b v) = v := by
  have ha := Real.sin_sq_add_cos_sq a
  have hb := Real.sin_sq_add_cos_sq b
  simp only [fromWind, toWind, tw, transpose, M3.mulVec, elem_cos, elem_sin]
  set ca := Real.cos a; set sa := Real.sin a; set cb := Real.cos b; set sb := Real.sin b
  ext <;> simp only []
  · linear_combination (v.x * cb * cb) * ha + v.x * hb + (cb * sb * v.y) * ha
  · linear_combination (v.y * sb * sb) * ha + v.y * hb + (sb * cb * v.x) * ha
  · linear_combination v.z * ha

/-- rotations preserve lengths (forces keep their magnitude when rotated back) -/
theorem c09_rot_isometry (a b : ℝ) (v : V3 ℝ) : V3.normSq (toWind a b v) = V3.normSq v := by
  have ha := Real.sin_sq_add_cos_sq a
  have hb := Real.sin_sq_add_cos_sq b
  simp only [toWind, tw, M3.mulVec, V3.normSq, elem_cos, elem_sin]
  set ca := Real.cos a; set sa := Real.sin a; set cb := Real.cos b; set sb := Real.sin b
  linear_combination ((v.x * ca + v.z * sa) ^ 2) * hb + (v.x ^ 2 + v.z ^ 2) * ha + v.y ^ 2 * hb

/-- **Prandtl–Glauert factor**: `β = √(1 − M²)` is positive for subsonic Mach numbers … -/
theorem c09_beta_pos (M : ℝ) (h0 : 0 ≤ M) (h1 : M < 1) : 0 < betaPG M := by
  simp only [betaPG, elem_sqrt]
  apply Real.sqrt_pos.mpr
  nlinarith

/-- … equals 1 at Mach 0 … -/
theorem c09_beta_mach0 : betaPG (0 : ℝ) = 1 := by simp [betaPG]

/-- … and depends continuously on the Mach number -/
theorem c09_beta_continuous : Continuous (fun M : ℝ => betaPG M) := by
  simp only [betaPG, elem_sqrt]
  exact Real.continuous_sqrt.comp (by continuity)

/-- **At Mach 0 the geometric stretching and the force scaling are the identity** -/
theorem c09_mach0_identity (v : V3 ℝ) :
    scaleGeom (betaPG (0 : ℝ)) v = v ∧ scaleNormal (betaPG (0 : ℝ)) v = v ∧ unscaleForce (betaPG (0 : ℝ)) v = v := by
  rw [c09_beta_mach0]
  refine ⟨?_, ?_, ?_⟩ <;> ext <;> simp [scaleGeom, scaleNormal, unscaleForce]

/-- **forces are scaled by `1/β⁴` streamwise and `1/β³` laterally/vertically** -/
theorem c09_force_scaling (M : ℝ) (f : V3 ℝ) :
    unscaleForce (betaPG M) f = ⟨f.x / (betaPG M) ^ 4, f.y / (betaPG M) ^ 3, f.z / (betaPG M) ^ 3⟩ := by
  ext <;> simp [unscaleForce] <;> ring

/-- the force scale factors are continuous in the Mach number on the subsonic range -/
theorem c09_scaling_continuous : ContinuousOn (fun M : ℝ => 1 / (betaPG M) ^ 4) (Set.Ico 0 1) ∧
    ContinuousOn (fun M : ℝ => 1 / (betaPG M) ^ 3) (Set.Ico 0 1) := by
  constructor <;>
  · apply ContinuousOn.div continuousOn_const
    · exact (c09_beta_continuous.pow _).continuousOn
    · intro M hM
      exact pow_ne_zero _ (ne_of_gt (c09_beta_pos M hM.1 hM.2))

/-- the normal transformation `(β nₓ, n_y, n_z)` is, up to a positive factor, the normal of the
stretched geometry: tangency to the stretched surface is tangency with the transformed normal -/
theorem c09_normal_of_stretched (B : ℝ) (n t : V3 ℝ) :
    V3.dot (scaleGeom B t) (scaleNormal B n) = B * V3.dot t n := by
  simp [scaleGeom, scaleNormal, V3.dot]; ring

end C09
end OAS
