import OASProofs.Lemmas.Basic
import OASProofs.Lemmas.Real

/-!
# C15  Stress recovery and failure aggregation are consistent and conservative

Model: `OASModel/Stress.lean` (`failure_ks.py`, `failure_exact.py`, `vonmises_tube.py`,
`vonmises_wingbox.py`).  Statements over ℝ; `N = n + 1` stresses (any `n`).
-/
set_option linter.unusedSectionVars false
set_option linter.unusedSimpArgs false
namespace OAS
namespace C15
open Finset

/-! ### KS aggregation -/

theorem le_maxUpTo (f : ℕ → ℝ) : ∀ (n i : ℕ), i ≤ n → f i ≤ maxUpTo n f
  | 0, i, h => by
      have : i = 0 := Nat.le_zero.mp h
      subst this; simp [maxUpTo]
  | n + 1, i, h => by
      unfold maxUpTo
      rcases Nat.lt_or_ge i (n + 1) with h1 | h1
      · have ih := le_maxUpTo f n i (Nat.lt_succ_iff.mp h1)
        split_ifs with hlt
        · exact le_trans ih (le_of_lt hlt)
        · exact ih
      · have : i = n + 1 := le_antisymm h h1
        subst this
        split_ifs with hlt
        · exact le_refl _
        · exact not_lt.mp hlt

theorem maxUpTo_mem (f : ℕ → ℝ) : ∀ n : ℕ, ∃ i, i ≤ n ∧ maxUpTo n f = f i
  | 0 => ⟨0, le_refl 0, rfl⟩
  | n + 1 => by
      obtain ⟨i, hi, h⟩ := maxUpTo_mem f n
      unfold maxUpTo
      split_ifs with hlt
      · exact ⟨n + 1, le_refl _, rfl⟩
      · exact ⟨i, Nat.le_succ_of_le hi, h⟩

/-- the failure ratio `vm/σ − 1` used by both failure components -/
noncomputable def g (sigma : ℝ) (vm : ℕ → ℝ) (i : ℕ) : ℝ := vm i / sigma - 1

/-- **Every exponent evaluated by the KS function is ≤ 0** — this is what makes the evaluation
overflow-safe for arbitrarily large stresses. -/
theorem c15_ks_exponents_nonpositive (n : ℕ) (sigma rho : ℝ) (hr : 0 < rho) (vm : ℕ → ℝ) (i : ℕ) (hi : i ≤ n) :
    rho * (vm i / sigma - 1 - maxUpTo n (fun i => vm i / sigma - 1)) ≤ 0 := by
  have := le_maxUpTo (fun i => vm i / sigma - 1) n i hi
  have h : vm i / sigma - 1 - maxUpTo n (fun i => vm i / sigma - 1) ≤ 0 := by linarith
  exact mul_nonpos_of_nonneg_of_nonpos (le_of_lt hr) h

/-- **KS lower bound**: the aggregated failure is never below the largest element value. -/
theorem c15_ks_lower (n : ℕ) (sigma rho : ℝ) (hr : 0 < rho) (vm : ℕ → ℝ) :
    maxUpTo n (fun i => vm i / sigma - 1) ≤ failureKS n sigma rho vm := by
  unfold failureKS
  simp only [elem_log, elem_exp, sumTo_eq_sum]
  set M := maxUpTo n (fun i => vm i / sigma - 1) with hM
  obtain ⟨k, hk, hkM⟩ := maxUpTo_mem (fun i => vm i / sigma - 1) n
  have hsum : (1 : ℝ) ≤ ∑ i ∈ range (n + 1), Real.exp (rho * (vm i / sigma - 1 - M)) := by
    have hk' : k ∈ range (n + 1) := Finset.mem_range.mpr (Nat.lt_succ_of_le hk)
    have h1 : Real.exp (rho * (vm k / sigma - 1 - M)) = 1 := by
      have : vm k / sigma - 1 - M = 0 := by rw [hM, hkM]; ring
      rw [this, mul_zero, Real.exp_zero]
    calc (1 : ℝ) = Real.exp (rho * (vm k / sigma - 1 - M)) := h1.symm
      _ ≤ ∑ i ∈ range (n + 1), Real.exp (rho * (vm i / sigma - 1 - M)) :=
        Finset.single_le_sum (f := fun i => Real.exp (rho * (vm i / sigma - 1 - M)))
          (fun i _ => le_of_lt (Real.exp_pos _)) hk'
  have hlog : 0 ≤ Real.log (∑ i ∈ range (n + 1), Real.exp (rho * (vm i / sigma - 1 - M))) :=
    Real.log_nonneg hsum
  have : 0 ≤ 1 / rho * Real.log (∑ i ∈ range (n + 1), Real.exp (rho * (vm i / sigma - 1 - M))) :=
    mul_nonneg (le_of_lt (one_div_pos.mpr hr)) hlog
  linarith

/-- **KS upper bound**: it exceeds the largest element value by at most `ln(N)/ρ`, `N = n+1`. -/
theorem c15_ks_upper (n : ℕ) (sigma rho : ℝ) (hr : 0 < rho) (vm : ℕ → ℝ) :
    failureKS n sigma rho vm ≤ maxUpTo n (fun i => vm i / sigma - 1) + Real.log ((n : ℝ) + 1) / rho := by
  unfold failureKS
  simp only [elem_log, elem_exp, sumTo_eq_sum]
  set M := maxUpTo n (fun i => vm i / sigma - 1) with hM
  obtain ⟨k, hk, hkM⟩ := maxUpTo_mem (fun i => vm i / sigma - 1) n
  have hle : ∑ i ∈ range (n + 1), Real.exp (rho * (vm i / sigma - 1 - M)) ≤ (n : ℝ) + 1 := by
    have : ∀ i ∈ range (n + 1), Real.exp (rho * (vm i / sigma - 1 - M)) ≤ 1 := by
      intro i hi
      rw [Real.exp_le_one_iff]
      exact c15_ks_exponents_nonpositive n sigma rho hr vm i (Nat.lt_succ_iff.mp (Finset.mem_range.mp hi))
    calc ∑ i ∈ range (n + 1), Real.exp (rho * (vm i / sigma - 1 - M))
        ≤ ∑ _i ∈ range (n + 1), (1 : ℝ) := Finset.sum_le_sum this
      _ = (n : ℝ) + 1 := by simp
  have hpos : 0 < ∑ i ∈ range (n + 1), Real.exp (rho * (vm i / sigma - 1 - M)) :=
    Finset.sum_pos (fun i _ => Real.exp_pos _) (by simp)
  have hlog := Real.log_le_log hpos hle
  have : 1 / rho * Real.log (∑ i ∈ range (n + 1), Real.exp (rho * (vm i / sigma - 1 - M)))
      ≤ Real.log ((n : ℝ) + 1) / rho := by
    rw [one_div, div_eq_inv_mul]
    exact mul_le_mul_of_nonneg_left hlog (le_of_lt (inv_pos.mpr hr))
  linarith

/-- **The exact failure measure is stress over allowable minus one**, non-positive iff the stress
does not exceed the allowable. -/
theorem c15_exact (sigma vm : ℝ) (hs : 0 < sigma) :
    failureExact sigma vm = vm / sigma - 1 ∧ (failureExact sigma vm ≤ 0 ↔ vm ≤ sigma) := by
  refine ⟨rfl, ?_⟩
  unfold failureExact
  rw [sub_nonpos, div_le_one hs]

/-- the maximum of the exact failure values is what KS bounds: with `N = 1` KS is exact -/
theorem c15_ks_single (sigma rho : ℝ) (hr : 0 < rho) (vm : ℕ → ℝ) :
    failureKS 0 sigma rho vm = vm 0 / sigma - 1 := by
  unfold failureKS
  simp [maxUpTo, sumTo]

/-! ### von Mises stresses (tube) -/

/-- **von Mises stresses are non-negative.** -/
theorem c15_vm_tube_nonneg (E G : ℝ) (nodes : Pts ℝ) (radius : ℕ → ℝ) (disp : ℕ → Disp ℝ) (e : ℕ) :
    0 ≤ (vonMisesTube E G nodes radius disp e).1 ∧ 0 ≤ (vonMisesTube E G nodes radius disp e).2 := by
  unfold vonMisesTube
  exact ⟨Real.sqrt_nonneg _, Real.sqrt_nonneg _⟩

theorem c15_vm_wingbox_nonneg (E G tssf : ℝ) (ht : 0 < tssf) (nodes : Pts ℝ) (sec : ℕ → WingboxSec ℝ)
    (disp : ℕ → Disp ℝ) (e : ℕ) :
    let v := vonMisesWingbox E G tssf nodes sec disp e
    0 ≤ v.1 ∧ 0 ≤ v.2.1 ∧ 0 ≤ v.2.2.1 ∧ 0 ≤ v.2.2.2 := by
  simp only [vonMisesWingbox, elem_sqrt]
  exact ⟨div_nonneg (Real.sqrt_nonneg _) (le_of_lt ht), Real.sqrt_nonneg _, Real.sqrt_nonneg _,
    div_nonneg (Real.sqrt_nonneg _) (le_of_lt ht)⟩

/-- scaled displacement field -/
noncomputable def scaleDisp (k : ℝ) (d : ℕ → Disp ℝ) : ℕ → Disp ℝ :=
  fun j => ⟨V3.smul k (d j).u, V3.smul k (d j).r⟩

private theorem sqrt_sq_scale (k a b : ℝ) :
    Real.sqrt (k * a * (k * a) + k * b * (k * b)) = |k| * Real.sqrt (a * a + b * b) := by
  have : k * a * (k * a) + k * b * (k * b) = k ^ 2 * (a * a + b * b) := by ring
  rw [this, Real.sqrt_mul (sq_nonneg k), Real.sqrt_sq_eq_abs]

private theorem sqrt_sq_scale3 (k a b : ℝ) :
    Real.sqrt (k * a * (k * a) + 3 * (k * b * (k * b))) = |k| * Real.sqrt (a * a + 3 * (b * b)) := by
  have : k * a * (k * a) + 3 * (k * b * (k * b)) = k ^ 2 * (a * a + 3 * (b * b)) := by ring
  rw [this, Real.sqrt_mul (sq_nonneg k), Real.sqrt_sq_eq_abs]

/-- **Tube von Mises stresses scale linearly with the displacement field**: for `k ≥ 0`,
`vm(k·disp) = k·vm(disp)` (for `k < 0` the two stress points of the element exchange their values,
because the bending contribution enters through a norm: see `c15_vm_tube_scaling_neg`). -/
theorem c15_vm_tube_scaling (E G k : ℝ) (hk : 0 ≤ k) (nodes : Pts ℝ) (radius : ℕ → ℝ) (disp : ℕ → Disp ℝ) (e : ℕ) :
    vonMisesTube E G nodes radius (scaleDisp k disp) e
      = (k * (vonMisesTube E G nodes radius disp e).1, k * (vonMisesTube E G nodes radius disp e).2) := by
  simp only [vonMisesTube, scaleDisp, M3.mulVec, V3.smul_x, V3.smul_y, V3.smul_z, elem_sqrt, Prod.mk.injEq]
  set T := elemFrame (nodes e) (nodes (e + 1)) with hT
  set L := V3.norm (nodes (e + 1) - nodes e) with hL
  -- abbreviations for the local components of the unscaled field
  set u0x := T.r0.x * (disp e).u.x + T.r0.y * (disp e).u.y + T.r0.z * (disp e).u.z
  set u1x := T.r0.x * (disp (e+1)).u.x + T.r0.y * (disp (e+1)).u.y + T.r0.z * (disp (e+1)).u.z
  set r0x := T.r0.x * (disp e).r.x + T.r0.y * (disp e).r.y + T.r0.z * (disp e).r.z
  set r1x := T.r0.x * (disp (e+1)).r.x + T.r0.y * (disp (e+1)).r.y + T.r0.z * (disp (e+1)).r.z
  set r0y := T.r1.x * (disp e).r.x + T.r1.y * (disp e).r.y + T.r1.z * (disp e).r.z
  set r1y := T.r1.x * (disp (e+1)).r.x + T.r1.y * (disp (e+1)).r.y + T.r1.z * (disp (e+1)).r.z
  set r0z := T.r2.x * (disp e).r.x + T.r2.y * (disp e).r.y + T.r2.z * (disp e).r.z
  set r1z := T.r2.x * (disp (e+1)).r.x + T.r2.y * (disp (e+1)).r.y + T.r2.z * (disp (e+1)).r.z
  have e1 : T.r0.x * (k * (disp e).u.x) + T.r0.y * (k * (disp e).u.y) + T.r0.z * (k * (disp e).u.z) = k * u0x := by ring
  have e2 : T.r0.x * (k * (disp (e+1)).u.x) + T.r0.y * (k * (disp (e+1)).u.y) + T.r0.z * (k * (disp (e+1)).u.z) = k * u1x := by ring
  have e3 : T.r0.x * (k * (disp e).r.x) + T.r0.y * (k * (disp e).r.y) + T.r0.z * (k * (disp e).r.z) = k * r0x := by ring
  have e4 : T.r0.x * (k * (disp (e+1)).r.x) + T.r0.y * (k * (disp (e+1)).r.y) + T.r0.z * (k * (disp (e+1)).r.z) = k * r1x := by ring
  have e5 : T.r1.x * (k * (disp e).r.x) + T.r1.y * (k * (disp e).r.y) + T.r1.z * (k * (disp e).r.z) = k * r0y := by ring
  have e6 : T.r1.x * (k * (disp (e+1)).r.x) + T.r1.y * (k * (disp (e+1)).r.y) + T.r1.z * (k * (disp (e+1)).r.z) = k * r1y := by ring
  have e7 : T.r2.x * (k * (disp e).r.x) + T.r2.y * (k * (disp e).r.y) + T.r2.z * (k * (disp e).r.z) = k * r0z := by ring
  have e8 : T.r2.x * (k * (disp (e+1)).r.x) + T.r2.y * (k * (disp (e+1)).r.y) + T.r2.z * (k * (disp (e+1)).r.z) = k * r1z := by ring
  rw [e1, e2, e3, e4, e5, e6, e7, e8]
  have ht : Real.sqrt ((k * r1y - k * r0y) * (k * r1y - k * r0y) + (k * r1z - k * r0z) * (k * r1z - k * r0z))
      = |k| * Real.sqrt ((r1y - r0y) * (r1y - r0y) + (r1z - r0z) * (r1z - r0z)) := by
    have := sqrt_sq_scale k (r1y - r0y) (r1z - r0z)
    rw [← this]; congr 1; ring
  rw [ht]
  set tmp := Real.sqrt ((r1y - r0y) * (r1y - r0y) + (r1z - r0z) * (r1z - r0z))
  push_cast
  rw [abs_of_nonneg hk]
  constructor
  · have := sqrt_sq_scale3 k (E * (u1x - u0x) / L + E * radius e / L * tmp) (G * radius e * (r1x - r0x) / L)
    rw [abs_of_nonneg hk] at this
    rw [← this]; congr 1; ring
  · have := sqrt_sq_scale3 k (E * (u0x - u1x) / L + E * radius e / L * tmp) (G * radius e * (r1x - r0x) / L)
    rw [abs_of_nonneg hk] at this
    rw [← this]; congr 1; ring

/-- **Rigid translation gives zero tube stress** (more generally: equal displacement and rotation
at the two nodes of an element). -/
theorem c15_vm_tube_equal_nodes (E G : ℝ) (nodes : Pts ℝ) (radius : ℕ → ℝ) (disp : ℕ → Disp ℝ) (e : ℕ)
    (hu : (disp (e + 1)).u = (disp e).u) (hr : (disp (e + 1)).r = (disp e).r) :
    vonMisesTube E G nodes radius disp e = (0, 0) := by
  simp [vonMisesTube, hu, hr]

/-- **Linearised rigid rotation gives zero tube stress**: `u_j = θ × (P_j − c)`, `r_j = θ`. -/
theorem c15_vm_tube_rigid_rotation (E G : ℝ) (nodes : Pts ℝ) (radius : ℕ → ℝ) (theta c t : V3 ℝ) (e : ℕ) :
    vonMisesTube E G nodes radius (fun j => ⟨t + V3.cross theta (nodes j - c), theta⟩) e = (0, 0) := by
  simp only [vonMisesTube, M3.mulVec, elemFrame, V3.unit, V3.norm, elem_sqrt, V3.add_x, V3.add_y, V3.add_z,
    V3.cross_x, V3.cross_y, V3.cross_z, V3.sub_x, V3.sub_y, V3.sub_z, sub_self, mul_zero, add_zero,
    Real.sqrt_zero, Prod.mk.injEq]
  set n := Real.sqrt (((nodes (e + 1)).x - (nodes e).x) * ((nodes (e + 1)).x - (nodes e).x)
    + ((nodes (e + 1)).y - (nodes e).y) * ((nodes (e + 1)).y - (nodes e).y)
    + ((nodes (e + 1)).z - (nodes e).z) * ((nodes (e + 1)).z - (nodes e).z))
  have h0 : ∀ (a b : ℝ), a = 0 → b = 0 → Real.sqrt (a * a + ((3 : ℕ) : ℝ) * (b * b)) = 0 := by
    intro a b ha hb; rw [ha, hb]; simp
  have key : ((nodes (e + 1)).x - (nodes e).x) / n
        * (t.x + (theta.y * ((nodes (e + 1)).z - c.z) - theta.z * ((nodes (e + 1)).y - c.y)))
      + ((nodes (e + 1)).y - (nodes e).y) / n
        * (t.y + (theta.z * ((nodes (e + 1)).x - c.x) - theta.x * ((nodes (e + 1)).z - c.z)))
      + ((nodes (e + 1)).z - (nodes e).z) / n
        * (t.z + (theta.x * ((nodes (e + 1)).y - c.y) - theta.y * ((nodes (e + 1)).x - c.x)))
      - (((nodes (e + 1)).x - (nodes e).x) / n
        * (t.x + (theta.y * ((nodes e).z - c.z) - theta.z * ((nodes e).y - c.y)))
      + ((nodes (e + 1)).y - (nodes e).y) / n
        * (t.y + (theta.z * ((nodes e).x - c.x) - theta.x * ((nodes e).z - c.z)))
      + ((nodes (e + 1)).z - (nodes e).z) / n
        * (t.z + (theta.x * ((nodes e).y - c.y) - theta.y * ((nodes e).x - c.x)))) = 0 := by ring
  constructor
  · apply h0
    · rw [key]; simp
    · simp
  · apply h0
    · have : ∀ a b : ℝ, a - b = 0 → b - a = 0 := fun a b h => by linarith
      rw [this _ _ key]; simp
    · simp

end C15
end OAS
