import OASProofs.Lemmas.Basic
import OASProofs.Lemmas.Real

/-!
# C05 / C19 (continued)  The index-bookkeeping components between the modelled cores

Model: `OASModel/Glue.lean` (`mtx_rhs.py`, `solve_matrix.py`, `eval_velocities.py`, `panel_forces_surf.py`): a list of
surfaces enters only through its panel counts `sizes`; the running offsets `ind_1/ind_2` are `offset`, and `locate` maps a
global panel index to (surface, local panel).

* `locate` and `offset` are inverse to each other on the valid ranges (`c19_locate_offset`, `c19_offset_locate`);
* a sum over all global panels is the double sum over surfaces and local panels (`sum_split`);
* **component-level tangency** (`c05_residual_is_normal_velocity`): for *any* influence blocks, normals, onset velocities and
  circulations, the residual that `SolveMatrix` drives to zero with the matrix and right-hand side of `VLMMtxRHSComp` is the
  normal component of the velocity that `EvalVelocities` evaluates from the same blocks. A solved system is therefore exactly
  a tangent flow at every collocation point, whatever the number and order of surfaces.
-/
set_option linter.unusedSectionVars false
set_option linter.unusedSimpArgs false
namespace OAS
namespace C05Glue
open Finset Glue

theorem sumTo_add (n t : ℕ) (f : ℕ → ℝ) : sumTo (n + t) f = sumTo n f + sumTo t (fun i => f (n + i)) := by
  simp only [sumTo_eq_sum]
  exact Finset.sum_range_add f n t

/-- `locate` is a left inverse of `(s, l) ↦ offset s + l` -/
theorem c19_locate_offset : ∀ (sizes : List ℕ) (s l : ℕ), s < sizes.length → l < sizes.getD s 0 →
    locate sizes (offset sizes s + l) = (s, l)
  | [], s, _, hs, _ => by simp at hs
  | [n], s, l, hs, _ => by
      have : s = 0 := by simpa using hs
      subst this; simp [locate, offset]
  | n :: n' :: rest, 0, l, _, hl => by
      have : l < n := by simpa using hl
      simp [locate, offset, this]
  | n :: n' :: rest, s + 1, l, hs, hl => by
      have hs' : s < (n' :: rest).length := by simpa using hs
      have hl' : l < (n' :: rest).getD s 0 := by simpa using hl
      have ih := c19_locate_offset (n' :: rest) s l hs' hl'
      have h1 : ¬ (n + offset (n' :: rest) s + l < n) := by omega
      have e : n + offset (n' :: rest) s + l - n = offset (n' :: rest) s + l := by omega
      simp only [locate, offset, h1, if_false, e, ih]

/-- … and a right inverse: every global panel index below the total is `offset s + l` of exactly the pair `locate` returns,
which is a valid (surface, local panel) pair -/
theorem c19_offset_locate : ∀ (sizes : List ℕ) (m : ℕ), m < total sizes →
    offset sizes (locate sizes m).1 + (locate sizes m).2 = m ∧ (locate sizes m).1 < sizes.length ∧
      (locate sizes m).2 < sizes.getD (locate sizes m).1 0
  | [], m, h => by simp [total] at h
  | [n], m, h => by
      have : m < n := by simpa [total] using h
      simp [locate, offset, this]
  | n :: n' :: rest, m, h => by
      by_cases h1 : m < n
      · simp [locate, offset, h1]
      · have h' : m - n < total (n' :: rest) := by
          simp only [total, List.sum_cons] at h ⊢; omega
        obtain ⟨e1, e2, e3⟩ := c19_offset_locate (n' :: rest) (m - n) h'
        simp only [locate, h1, if_false, offset]
        refine ⟨by omega, by simpa using e2, by simpa using e3⟩

/-- a sum over all panels = the double sum over surfaces and their local panels (the loop structure of every
multi-surface component) -/
theorem sum_split : ∀ (sizes : List ℕ) (f : ℕ → ℝ),
    sumTo (total sizes) f = sumTo sizes.length (fun s => sumTo (sizes.getD s 0) (fun l => f (offset sizes s + l)))
  | [], f => by simp [total, sumTo]
  | n :: rest, f => by
      have ih := sum_split rest (fun i => f (n + i))
      have e : total (n :: rest) = n + total rest := by simp [total]
      rw [e, sumTo_add, ih]
      simp only [sumTo_eq_sum, List.length_cons]
      rw [Finset.sum_range_succ']
      simp only [List.getD_cons_zero, List.getD_cons_succ, offset, Nat.zero_add, Nat.add_assoc]
      ring

/-- `PanelForcesSurf` undoes the stacking of the surfaces: the block of the surface that `locate` names, at the local index it
names, holds panel `m` -/
theorem c19_panel_forces_surf (sizes : List ℕ) (pf : Pts ℝ) (m : ℕ) (h : m < total sizes) :
    panelForcesSurf sizes pf (locate sizes m).1 (locate sizes m).2 = pf m := by
  unfold panelForcesSurf
  rw [(c19_offset_locate sizes m h).1]

/-- … and conversely every entry of every block is a panel of the stacked array -/
theorem c19_panel_forces_surf' (sizes : List ℕ) (pf : Pts ℝ) (s l : ℕ) :
    panelForcesSurf sizes pf s l = pf (offset sizes s + l) := rfl

/-- **flattened form of `EvalVelocities`**: the induced velocity is the free stream plus the sum over *global* panels of
circulation times influence column – the partition of the panels into surfaces is immaterial -/
theorem c19_eval_velocity_flat (sizes : List ℕ) (V : ℕ → ℕ → ℕ → V3 ℝ) (fs : Pts ℝ) (γ : ℕ → ℝ) (p : ℕ) :
    evalVelocity sizes V fs γ p = fs p + V3.sumTo (total sizes) (fun m => V3.smul (γ m) (V (locate sizes m).1 p (locate sizes m).2)) := by
  unfold evalVelocity
  congr 1
  have key : ∀ (g : ℕ → ℕ → ℝ), sumTo sizes.length (fun s => sumTo (sizes.getD s 0) (fun l => γ (offset sizes s + l) * g s l))
      = sumTo (total sizes) (fun m => γ m * g (locate sizes m).1 (locate sizes m).2) := by
    intro g
    rw [sum_split]
    simp only [sumTo_eq_sum]
    refine Finset.sum_congr rfl (fun s hs => Finset.sum_congr rfl (fun l hl => ?_))
    rw [c19_locate_offset sizes s l (Finset.mem_range.mp hs) (Finset.mem_range.mp hl)]
  ext
  · simpa [V3.sumTo, sumTo_eq_sum] using key (fun s l => (V s p l).x)
  · simpa [V3.sumTo, sumTo_eq_sum] using key (fun s l => (V s p l).y)
  · simpa [V3.sumTo, sumTo_eq_sum] using key (fun s l => (V s p l).z)

/-- **component-level tangency identity**: `mtx · Γ − rhs` at row `i` is the normal component, at collocation point `i`, of the
velocity `EvalVelocities` computes from the same influence blocks -/
theorem c05_residual_is_normal_velocity (sizes : List ℕ) (V : ℕ → ℕ → ℕ → V3 ℝ) (nrm : ℕ → ℕ → V3 ℝ) (fs : Pts ℝ) (γ : ℕ → ℝ)
    (i : ℕ) :
    solveResidual (total sizes) (mtxEntry sizes V nrm) (rhsEntry sizes fs nrm) γ i
      = V3.dot (evalVelocity sizes V fs γ i) (stackedNormal sizes nrm i) := by
  rw [c19_eval_velocity_flat]
  unfold solveResidual mtxEntry rhsEntry
  simp only [V3.dot, V3.add_x, V3.add_y, V3.add_z, V3.sumTo_x, V3.sumTo_y, V3.sumTo_z, V3.smul_x, V3.smul_y, V3.smul_z,
    sumTo_eq_sum, Finset.sum_mul, sub_neg_eq_add]
  have e : ∑ m ∈ range (total sizes), ((V (locate sizes m).1 i (locate sizes m).2).x * (stackedNormal sizes nrm i).x
        + (V (locate sizes m).1 i (locate sizes m).2).y * (stackedNormal sizes nrm i).y
        + (V (locate sizes m).1 i (locate sizes m).2).z * (stackedNormal sizes nrm i).z) * γ m
      = ∑ m ∈ range (total sizes), γ m * (V (locate sizes m).1 i (locate sizes m).2).x * (stackedNormal sizes nrm i).x
        + ∑ m ∈ range (total sizes), γ m * (V (locate sizes m).1 i (locate sizes m).2).y * (stackedNormal sizes nrm i).y
        + ∑ m ∈ range (total sizes), γ m * (V (locate sizes m).1 i (locate sizes m).2).z * (stackedNormal sizes nrm i).z := by
    rw [← Finset.sum_add_distrib, ← Finset.sum_add_distrib]
    exact Finset.sum_congr rfl (fun m _ => by ring)
  rw [e]
  simp only [add_mul, Finset.sum_mul]
  ring

/-- a solved system is a tangent flow at the collocation point, and conversely -/
theorem c05_solved_iff_tangent (sizes : List ℕ) (V : ℕ → ℕ → ℕ → V3 ℝ) (nrm : ℕ → ℕ → V3 ℝ) (fs : Pts ℝ) (γ : ℕ → ℝ) (i : ℕ) :
    solveResidual (total sizes) (mtxEntry sizes V nrm) (rhsEntry sizes fs nrm) γ i = 0
      ↔ V3.dot (evalVelocity sizes V fs γ i) (stackedNormal sizes nrm i) = 0 := by
  rw [c05_residual_is_normal_velocity]

/-- `EvalVelocities` is affine in the circulations: the induced part is additive -/
theorem c05_eval_velocity_add (sizes : List ℕ) (V : ℕ → ℕ → ℕ → V3 ℝ) (fs : Pts ℝ) (γ δ : ℕ → ℝ) (p : ℕ) :
    evalVelocity sizes V fs (fun m => γ m + δ m) p + fs p = evalVelocity sizes V fs γ p + evalVelocity sizes V fs δ p := by
  simp only [c19_eval_velocity_flat]
  ext <;> simp only [V3.add_x, V3.add_y, V3.add_z, V3.sumTo_x, V3.sumTo_y, V3.sumTo_z, V3.smul_x, V3.smul_y, V3.smul_z, add_mul,
    Finset.sum_add_distrib] <;> ring

/-- non-vacuity: two surfaces with 2 and 3 panels, panel 3 is local panel 1 of surface 1 -/
example : locate [2, 3] 3 = (1, 1) ∧ offset [2, 3] 1 + 1 = 3 ∧ total [2, 3] = 5 := by decide

end C05Glue
end OAS
