import OASProofs.Props.C07
import OASProofs.Lemmas.System
import OASProofs.Lemmas.Rotation
import OASProofs.Lemmas.Perm

/-!
# C07 (continued)  The mirror-image configuration has the mirror-image solution

For any list of full-span (non-symmetric, no ground effect) surfaces, any angle of attack, sideslip and rotation
rates: reflect every mesh about the `x–z` plane and reverse its spanwise node order, reverse the sign of sideslip, roll
and yaw rate, reflect the reference point.  Then, with the panels of every surface renumbered spanwise
(`j ↦ ny − 2 − j`), the influence matrix and the right-hand side are the same, the circulations are the same, and every
panel force is the mirror image.
-/
set_option linter.unusedSectionVars false
set_option linter.unusedSimpArgs false
namespace OAS
namespace C07
open VLM Finset

/-- the mirror image of a surface: reflected, spanwise node order reversed -/
noncomputable def mirSurf (s : Surf ℝ) : Surf ℝ := { s with mesh := mirrorLattice (s.ny - 1) s.mesh }

/-- the mirror image of a flow condition -/
noncomputable def mirFlow (f : Flow ℝ) : Flow ℝ :=
  { f with beta := -f.beta, omega := ⟨-f.omega.x, f.omega.y, -f.omega.z⟩, cg := mirrorY f.cg }

@[simp] theorem mirSurf_nx (s : Surf ℝ) : (mirSurf s).nx = s.nx := rfl
@[simp] theorem mirSurf_ny (s : Surf ℝ) : (mirSurf s).ny = s.ny := rfl
@[simp] theorem mirSurf_sym (s : Surf ℝ) : (mirSurf s).sym = s.sym := rfl
@[simp] theorem mirSurf_ground (s : Surf ℝ) : (mirSurf s).ground = s.ground := rfl
@[simp] theorem mirSurf_npanels (s : Surf ℝ) : (mirSurf s).npanels = s.npanels := rfl

/-- spanwise renumbering of the panels of every surface of the list -/
def mirIdx : List (Surf ℝ) → ℕ → ℕ
  | [], m => m
  | s :: rest, m =>
    if m < s.npanels then (m / (s.ny - 1)) * (s.ny - 1) + (s.ny - 2 - m % (s.ny - 1))
    else s.npanels + mirIdx rest (m - s.npanels)

theorem mirIdx_lt (l : List (Surf ℝ)) (m : ℕ) (h : m < totalPanels l) : mirIdx l m < totalPanels l := by
  induction l generalizing m with
  | nil => simp [totalPanels] at h
  | cons s rest ih =>
    simp only [totalPanels, List.map_cons, List.sum_cons] at h ⊢
    simp only [mirIdx]
    split_ifs with h1
    · have hb : 0 < s.ny - 1 := by
        by_contra hc
        have : s.ny - 1 = 0 := by omega
        simp [Surf.npanels, this] at h1
      have hi : m / (s.ny - 1) < s.nx - 1 := by
        apply Nat.div_lt_of_lt_mul; rw [Nat.mul_comm]; exact h1
      have hmod := Nat.mod_lt m hb
      have : m / (s.ny - 1) * (s.ny - 1) + (s.ny - 2 - m % (s.ny - 1)) < s.npanels := by
        unfold Surf.npanels
        calc m / (s.ny - 1) * (s.ny - 1) + (s.ny - 2 - m % (s.ny - 1))
            < m / (s.ny - 1) * (s.ny - 1) + (s.ny - 1) := by omega
          _ = (m / (s.ny - 1) + 1) * (s.ny - 1) := by ring
          _ ≤ (s.nx - 1) * (s.ny - 1) := Nat.mul_le_mul_right _ (by omega)
      omega
    · have := ih (m - s.npanels) (by simp only [totalPanels]; omega)
      simp only [totalPanels] at this
      omega

/-- the renumbering maps panel `(s, i, j)` to panel `(mirror s, i, ny − 2 − j)` -/
theorem locate_mirIdx (l : List (Surf ℝ)) (m : ℕ) :
    locate (l.map mirSurf) (mirIdx l m) = (locate l m).map (fun t => (mirSurf t.1, t.2.1, t.1.ny - 2 - t.2.2)) := by
  induction l generalizing m with
  | nil => rfl
  | cons s rest ih =>
    simp only [List.map_cons, locate, mirIdx, mirSurf_npanels, mirSurf_ny]
    by_cases h1 : m < s.npanels
    · have hb : 0 < s.ny - 1 := by
        by_contra hc
        have : s.ny - 1 = 0 := by omega
        simp [Surf.npanels, this] at h1
      have hmod := Nat.mod_lt m hb
      have hJ : s.ny - 2 - m % (s.ny - 1) < s.ny - 1 := by omega
      obtain ⟨e1, e2⟩ := div_mod_of_lt (m / (s.ny - 1)) (s.ny - 2 - m % (s.ny - 1)) (s.ny - 1) hJ
      have hlt : m / (s.ny - 1) * (s.ny - 1) + (s.ny - 2 - m % (s.ny - 1)) < s.npanels := by
        have hi : m / (s.ny - 1) < s.nx - 1 := by
          apply Nat.div_lt_of_lt_mul; rw [Nat.mul_comm]; exact h1
        unfold Surf.npanels
        calc m / (s.ny - 1) * (s.ny - 1) + (s.ny - 2 - m % (s.ny - 1))
            < m / (s.ny - 1) * (s.ny - 1) + (s.ny - 1) := by omega
          _ = (m / (s.ny - 1) + 1) * (s.ny - 1) := by ring
          _ ≤ (s.nx - 1) * (s.ny - 1) := Nat.mul_le_mul_right _ (by omega)
      simp only [h1, if_true, hlt, e1, e2, Option.map_some]
    · have h2 : ¬ (s.npanels + mirIdx rest (m - s.npanels) < s.npanels) := by omega
      simp only [h1, if_false, h2, Nat.add_sub_cancel_left, ih]

/-- the renumbering is an involution -/
theorem mirIdx_invol (l : List (Surf ℝ)) (m : ℕ) : mirIdx l (mirIdx l m) = m := by
  induction l generalizing m with
  | nil => rfl
  | cons s rest ih =>
    simp only [mirIdx]
    by_cases h1 : m < s.npanels
    · have hb : 0 < s.ny - 1 := by
        by_contra hc
        have : s.ny - 1 = 0 := by omega
        simp [Surf.npanels, this] at h1
      have hmod := Nat.mod_lt m hb
      have hJ : s.ny - 2 - m % (s.ny - 1) < s.ny - 1 := by omega
      obtain ⟨e1, e2⟩ := div_mod_of_lt (m / (s.ny - 1)) (s.ny - 2 - m % (s.ny - 1)) (s.ny - 1) hJ
      have hlt : m / (s.ny - 1) * (s.ny - 1) + (s.ny - 2 - m % (s.ny - 1)) < s.npanels := by
        have hi : m / (s.ny - 1) < s.nx - 1 := by
          apply Nat.div_lt_of_lt_mul; rw [Nat.mul_comm]; exact h1
        unfold Surf.npanels
        calc m / (s.ny - 1) * (s.ny - 1) + (s.ny - 2 - m % (s.ny - 1))
            < m / (s.ny - 1) * (s.ny - 1) + (s.ny - 1) := by omega
          _ = (m / (s.ny - 1) + 1) * (s.ny - 1) := by ring
          _ ≤ (s.nx - 1) * (s.ny - 1) := Nat.mul_le_mul_right _ (by omega)
      simp only [h1, if_true, hlt, e1, e2]
      have e3 : s.ny - 2 - (s.ny - 2 - m % (s.ny - 1)) = m % (s.ny - 1) := by omega
      rw [e3, Nat.mul_comm]; exact Nat.div_add_mod m _
    · have h2 : ¬ (s.npanels + mirIdx rest (m - s.npanels) < s.npanels) := by omega
      simp only [h1, if_false, h2, Nat.add_sub_cancel_left, ih]
      omega

/-! ### geometry of the mirrored surface -/

theorem locate_col_lt (l : List (Surf ℝ)) (m : ℕ) (s : Surf ℝ) (i j : ℕ) (hl : locate l m = some (s, i, j)) :
    j < s.ny - 1 := by
  induction l generalizing m with
  | nil => simp [locate] at hl
  | cons t rest ih =>
    simp only [locate] at hl
    split_ifs at hl with h
    · simp only [Option.some.injEq, Prod.mk.injEq] at hl
      obtain ⟨rfl, rfl, rfl⟩ := hl
      have hb : 0 < t.ny - 1 := by
        by_contra hc
        have : t.ny - 1 = 0 := by omega
        simp [Surf.npanels, this] at h
      exact Nat.mod_lt m hb
    · exact ih _ hl

theorem collPt_mir (s : Surf ℝ) (i j : ℕ) (hj : j < s.ny - 1) :
    collPt (mirSurf s) i (s.ny - 2 - j) = mirrorY (collPt s i j) := by
  have := c07_coll_pt_mirror s (s.ny - 1) i (s.ny - 2 - j) (by omega)
  have e : s.ny - 1 - 1 - (s.ny - 2 - j) = j := by omega
  rw [e] at this; exact this

theorem forcePt_mir (s : Surf ℝ) (i j : ℕ) (hj : j < s.ny - 1) :
    forcePt (mirSurf s) i (s.ny - 2 - j) = mirrorY (forcePt s i j) := by
  have e1 : s.ny - 1 - (s.ny - 2 - j) = j + 1 := by omega
  have e2 : s.ny - 1 - (s.ny - 2 - j + 1) = j := by omega
  ext <;> simp [forcePt, mirSurf, mirrorLattice, e1, e2] <;> ring

theorem boundVec_mir (s : Surf ℝ) (i j : ℕ) (hj : j < s.ny - 1) :
    boundVec (mirSurf s) i (s.ny - 2 - j) = -mirrorY (boundVec s i j) := by
  have e1 : s.ny - 1 - (s.ny - 2 - j) = j + 1 := by omega
  have e2 : s.ny - 1 - (s.ny - 2 - j + 1) = j := by omega
  ext <;> simp [boundVec, mirSurf, mirrorLattice, e1, e2] <;> ring

theorem normal_mir (s : Surf ℝ) (i j : ℕ) (hj : j < s.ny - 1) :
    normal (mirSurf s) i (s.ny - 2 - j) = mirrorY (normal s i j) := by
  have e1 : s.ny - 1 - (s.ny - 2 - j) = j + 1 := by omega
  have e2 : s.ny - 1 - (s.ny - 2 - j + 1) = j := by omega
  simp only [normal, VLMGeometry.normals, VLMGeometry.rawNormal, mirSurf, mirrorLattice, e1, e2]
  have hc : V3.cross (mirrorY (s.mesh i j) - mirrorY (s.mesh (i + 1) (j + 1))) (mirrorY (s.mesh i (j + 1)) - mirrorY (s.mesh (i + 1) j))
      = mirrorY (V3.cross (s.mesh i (j + 1) - s.mesh (i + 1) j) (s.mesh i j - s.mesh (i + 1) (j + 1))) := by
    ext <;> simp <;> ring
  rw [hc, norm_mirrorY]
  ext <;> simp
  ring

theorem vortexMesh_mir (s : Surf ℝ) (hs : s.sym = false) (hg : s.ground = false) (a h : ℝ) :
    vortexMesh (mirSurf s) a h = mirrorLattice (s.ny - 1) (vortexMesh s a h) := by
  have e1 : extMesh (mirSurf s) = mirrorLattice (s.ny - 1) s.mesh := by
    funext i c; simp [extMesh, mirSurf, hs]
  have e2 : extMesh s = s.mesh := by funext i c; simp [extMesh, hs]
  simp only [vortexMesh, mirSurf_ground, hg, Bool.false_eq_true, if_false, mirSurf_nx, e1, e2]
  exact C04.shiftQuarter_mirror s.nx (s.ny - 1) s.mesh

theorem velMtx_mir (s : Surf ℝ) (hs : s.sym = false) (hg : s.ground = false) (al : ℝ) (vm : Mesh ℝ) (p : V3 ℝ) (i j : ℕ)
    (hj : j < s.ny - 1) :
    velMtx (mirSurf s) al (mirrorLattice (s.ny - 1) vm) (mirrorY p) i (s.ny - 2 - j) = mirrorY (velMtx s al vm p i j) := by
  simp only [velMtx, velRaw, mirSurf_sym, mirSurf_ground, mirSurf_nx, hs, hg, Bool.false_eq_true, if_false]
  have := c07_lattice_mirror s.nx (s.ny - 1) al vm p i (s.ny - 2 - j) (by omega)
  have e : s.ny - 1 - 1 - (s.ny - 2 - j) = j := by omega
  rw [e] at this; exact this

/-! ### the assembled systems -/

/-- hypotheses: full-span surfaces without ground effect -/
structure Plain (l : List (Surf ℝ)) : Prop where
  sym : ∀ s ∈ l, s.sym = false
  ground : ∀ s ∈ l, s.ground = false

theorem influence_mir (l : List (Surf ℝ)) (H : Plain l) (f : Flow ℝ) (p : V3 ℝ) (n : ℕ) :
    influence (l.map mirSurf) (mirFlow f) (mirrorY p) (mirIdx l n) = mirrorY (influence l f p n) := by
  unfold influence
  rw [locate_mirIdx]
  cases hl : locate l n with
  | none => exact mirrorY_zero.symm
  | some t =>
    obtain ⟨s, i, j⟩ := t
    have hs := locate_mem l n s i j hl
    have hj := locate_col_lt l n s i j hl
    simp only [Option.map_some]
    rw [vortexMesh_mir s (H.sym s hs) (H.ground s hs)]
    exact velMtx_mir s (H.sym s hs) (H.ground s hs) f.alpha _ p i j hj

/-- **same influence matrix (in the mirrored numbering)** -/
theorem aic_mir (l : List (Surf ℝ)) (H : Plain l) (f : Flow ℝ) (m n : ℕ) :
    aic (l.map mirSurf) (mirFlow f) (mirIdx l m) (mirIdx l n) = aic l f m n := by
  unfold aic
  rw [locate_mirIdx]
  cases hl : locate l m with
  | none => rfl
  | some t =>
    obtain ⟨s, i, j⟩ := t
    have hj := locate_col_lt l m s i j hl
    simp only [Option.map_some]
    rw [collPt_mir s i j hj, influence_mir l H, normal_mir s i j hj, dot_mirrorY]

/-- **same right-hand side** (sideslip, roll and yaw rate reversed, reference point reflected) -/
theorem rhs_mir (l : List (Surf ℝ)) (f : Flow ℝ) (m : ℕ) :
    rhs (l.map mirSurf) (mirFlow f) (mirIdx l m) = rhs l f m := by
  unfold rhs
  rw [locate_mirIdx]
  cases hl : locate l m with
  | none => rfl
  | some t =>
    obtain ⟨s, i, j⟩ := t
    have hj := locate_col_lt l m s i j hl
    simp only [Option.map_some]
    rw [collPt_mir s i j hj, normal_mir s i j hj]
    have := c07_onset_mirror f (collPt s i j)
    simp only [mirFlow]
    rw [this, dot_mirrorY]

theorem totalPanels_mir (l : List (Surf ℝ)) : totalPanels (l.map mirSurf) = totalPanels l :=
  totalPanels_map mirSurf (fun _ => rfl) l

theorem mirIdx_lt_iff (l : List (Surf ℝ)) (m : ℕ) : mirIdx l m < totalPanels l ↔ m < totalPanels l := by
  constructor
  · intro h
    have := mirIdx_lt l _ h
    rwa [mirIdx_invol] at this
  · exact mirIdx_lt l m

theorem sum_mirIdx (l : List (Surf ℝ)) (g : ℕ → ℝ) :
    ∑ n ∈ range (totalPanels l), g (mirIdx l n) = ∑ n ∈ range (totalPanels l), g n := by
  apply Finset.sum_nbij' (mirIdx l) (mirIdx l)
  · intro a ha; simp only [mem_range] at ha ⊢; exact mirIdx_lt l a ha
  · intro a ha; simp only [mem_range] at ha ⊢; exact mirIdx_lt l a ha
  · intro a _; exact mirIdx_invol l a
  · intro a _; exact mirIdx_invol l a
  · intro a _; rfl

/-- the chordwise neighbour is renumbered consistently -/
theorem mirIdx_row (l : List (Surf ℝ)) (m : ℕ) (s : Surf ℝ) (i j : ℕ) (hl : locate l m = some (s, i, j)) (hi : 1 ≤ i) :
    mirIdx l m - (s.ny - 1) = mirIdx l (m - (s.ny - 1)) := by
  induction l generalizing m with
  | nil => simp [locate] at hl
  | cons t rest ih =>
    simp only [locate] at hl
    by_cases h1 : m < t.npanels
    · simp only [h1, if_true, Option.some.injEq, Prod.mk.injEq] at hl
      obtain ⟨rfl, rfl, rfl⟩ := hl
      have hb : 0 < t.ny - 1 := by
        by_contra hc
        have : t.ny - 1 = 0 := by omega
        simp [Surf.npanels, this] at h1
      have hge : t.ny - 1 ≤ m := by
        by_contra hc
        have : m / (t.ny - 1) = 0 := Nat.div_eq_of_lt (by omega)
        omega
      have h2 : m - (t.ny - 1) < t.npanels := by omega
      simp only [mirIdx, h1, h2, if_true]
      have hsplit : m = (m - (t.ny - 1)) + (t.ny - 1) := by omega
      have e1 : (m - (t.ny - 1)) / (t.ny - 1) = m / (t.ny - 1) - 1 := by
        have := Nat.add_div_right (m - (t.ny - 1)) hb
        rw [← hsplit] at this; omega
      have e2 : (m - (t.ny - 1)) % (t.ny - 1) = m % (t.ny - 1) := by
        have := Nat.add_mod_right (m - (t.ny - 1)) (t.ny - 1)
        rw [← hsplit] at this; exact this.symm
      rw [e1, e2]
      obtain ⟨k, hk⟩ : ∃ k, m / (t.ny - 1) = k + 1 := ⟨m / (t.ny - 1) - 1, by omega⟩
      rw [hk]
      simp only [Nat.add_sub_cancel, Nat.succ_mul]
      omega
    · simp only [h1, if_false] at hl
      have hge := locate_row_pos rest _ s i j hl hi
      have h2 : ¬ (m - (s.ny - 1) < t.npanels) := by omega
      simp only [mirIdx, h1, h2, if_false]
      have := ih _ hl
      have e : m - (s.ny - 1) - t.npanels = m - t.npanels - (s.ny - 1) := by omega
      rw [e, ← this]
      have hrow := locate_row_pos (rest.map mirSurf) (mirIdx rest (m - t.npanels)) (mirSurf s) i (s.ny - 2 - j)
        (by rw [locate_mirIdx, hl]; rfl) hi
      simp only [mirSurf_ny] at hrow
      omega

theorem horseshoe_mir (l : List (Surf ℝ)) (gamma : ℕ → ℝ) (m : ℕ) :
    horseshoe (l.map mirSurf) (fun k => gamma (mirIdx l k)) (mirIdx l m) = horseshoe l gamma m := by
  unfold horseshoe
  rw [locate_mirIdx]
  cases hl : locate l m with
  | none => rfl
  | some t =>
    obtain ⟨s, i, j⟩ := t
    simp only [Option.map_some, mirSurf_ny, mirIdx_invol]
    split_ifs with hi
    · rw [mirIdx_row l m s i j hl hi, mirIdx_invol]
    · rfl

/-- **every panel force is the mirror image** (panel `(s, i, j)` of the original ↔ panel `(mirror s, i, ny−2−j)`) -/
theorem panelForce_mir (l : List (Surf ℝ)) (H : Plain l) (f : Flow ℝ) (gamma : ℕ → ℝ) (m : ℕ) :
    panelForce (l.map mirSurf) (mirFlow f) (fun k => gamma (mirIdx l k)) (mirIdx l m) = mirrorY (panelForce l f gamma m) := by
  unfold panelForce
  rw [horseshoe_mir]
  unfold forcePtVelocity
  rw [locate_mirIdx, totalPanels_mir]
  cases hl : locate l m with
  | none => exact mirrorY_zero.symm
  | some t =>
    obtain ⟨s, i, j⟩ := t
    have hj := locate_col_lt l m s i j hl
    simp only [Option.map_some]
    rw [collPt_mir s i j hj, forcePt_mir s i j hj, boundVec_mir s i j hj]
    have hon := c07_onset_mirror f (collPt s i j)
    simp only [mirFlow] at hon ⊢
    rw [hon]
    -- the induced velocity: re-index the sum by the involution
    have hsum : V3.sumTo (totalPanels l) (fun n => V3.smul (gamma (mirIdx l n))
          (influence (l.map mirSurf) (mirFlow f) (mirrorY (forcePt s i j)) n))
        = mirrorY (V3.sumTo (totalPanels l) (fun n => V3.smul (gamma n) (influence l f (forcePt s i j) n))) := by
      rw [V3.sumTo_mirror]
      have : ∀ g : ℕ → V3 ℝ, V3.sumTo (totalPanels l) (fun n => g (mirIdx l n)) = V3.sumTo (totalPanels l) g := by
        intro g
        ext <;> simp only [V3.sumTo_x, V3.sumTo_y, V3.sumTo_z]
        · exact sum_mirIdx l (fun n => (g n).x)
        · exact sum_mirIdx l (fun n => (g n).y)
        · exact sum_mirIdx l (fun n => (g n).z)
      rw [← this (fun n => V3.smul (gamma (mirIdx l n)) (influence (l.map mirSurf) (mirFlow f) (mirrorY (forcePt s i j)) n))]
      apply V3.sumTo_congr
      intro k _
      simp only [mirIdx_invol, influence_mir l H, mirrorY_smul]
    simp only [mirFlow] at hsum
    rw [hsum]
    ext <;> simp only [V3.smul_x, V3.smul_y, V3.smul_z, V3.cross_x, V3.cross_y, V3.cross_z, V3.add_x, V3.add_y, V3.add_z,
      V3.neg_x, V3.neg_y, V3.neg_z, mirrorY_x, mirrorY_y, mirrorY_z] <;> ring

/-- **Mirror-image configurations give mirror-image results**: same matrix, same right-hand side (hence the same
circulations, in the mirrored numbering), mirror-image panel forces. -/
theorem c07_mirror_configuration (l : List (Surf ℝ)) (H : Plain l) (f : Flow ℝ) :
    (∀ m n, aic (l.map mirSurf) (mirFlow f) (mirIdx l m) (mirIdx l n) = aic l f m n) ∧
    (∀ m, rhs (l.map mirSurf) (mirFlow f) (mirIdx l m) = rhs l f m) ∧
    (∀ gamma : ℕ → ℝ, (∀ m, m < totalPanels l → ∑ n ∈ range (totalPanels l), aic l f m n * gamma n = rhs l f m) →
      ∀ m, m < totalPanels l →
        ∑ n ∈ range (totalPanels l), aic (l.map mirSurf) (mirFlow f) m n * gamma (mirIdx l n) = rhs (l.map mirSurf) (mirFlow f) m) ∧
    (∀ (gamma : ℕ → ℝ) m, panelForce (l.map mirSurf) (mirFlow f) (fun k => gamma (mirIdx l k)) (mirIdx l m)
      = mirrorY (panelForce l f gamma m)) := by
  refine ⟨aic_mir l H f, rhs_mir l f, ?_, panelForce_mir l H f⟩
  intro gamma hs m hm
  have hm' := (mirIdx_lt_iff l m).2 hm
  have e := hs (mirIdx l m) hm'
  rw [← rhs_mir l f (mirIdx l m), mirIdx_invol] at e
  rw [← e, ← sum_mirIdx l (fun n => aic (l.map mirSurf) (mirFlow f) m n * gamma (mirIdx l n))]
  apply Finset.sum_congr rfl
  intro n _
  simp only [mirIdx_invol]
  rw [← aic_mir l H f (mirIdx l m) n, mirIdx_invol]

end C07
end OAS
