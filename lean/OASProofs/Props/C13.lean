import OASProofs.Lemmas.Basic
import OASProofs.Lemmas.Real

/-!
# C13  Geometry design variables act as documented; defaults leave the mesh unchanged

Model: `OASModel/Geometry.lean` (`geometry_mesh_transformations.py`, `geometry_mesh.py`).
All theorems are for every mesh size; the hypotheses are explicit predicates on the mesh.
-/
set_option linter.unusedSectionVars false
set_option linter.unusedSimpArgs false
namespace OAS
namespace C13
open Geo

/-! ### predicates -/

/-- every chordwise row has the spanwise coordinate of the reference axis (true for all meshes of
the OAS generators) -/
def ChordwiseConstY {K : Type} [Add K] [Sub K] [Mul K] [One K] (nx : ℕ) (pos : K) (mesh : Mesh K) : Prop :=
  ∀ i j, (mesh i j).y = (refAxis nx pos mesh j).y

section field
variable {K : Type} [Field K]

/-! ### no-op at the default values (algebraic transformations) -/

theorem scaleAbout_one (ref : Pts K) (mesh : Mesh K) : scaleAbout ref (fun _ => 1) mesh = mesh := by
  funext i j; ext <;> simp [scaleAbout]

/-- **chord scale 1 leaves the mesh unchanged** -/
theorem c13_scaleX_default (nx : ℕ) (pos : K) (mesh : Mesh K) : scaleX nx pos mesh (fun _ => 1) = mesh :=
  scaleAbout_one _ _

/-- **zero shear leaves the mesh unchanged**, and a shear translates each section -/
theorem c13_shear_default (mesh : Mesh K) :
    shearX mesh (fun _ => 0) = mesh ∧ shearY mesh (fun _ => 0) = mesh ∧ shearZ mesh (fun _ => 0) = mesh := by
  refine ⟨?_, ?_, ?_⟩ <;> funext i j <;> ext <;> simp [shearX, shearY, shearZ]

theorem c13_shear_translates (mesh : Mesh K) (s : ℕ → K) (i j : ℕ) :
    shearX mesh s i j = mesh i j + ⟨s j, 0, 0⟩ ∧ shearY mesh s i j = mesh i j + ⟨0, s j, 0⟩ ∧
    shearZ mesh s i j = mesh i j + ⟨0, 0, s j⟩ := by
  refine ⟨?_, ?_, ?_⟩ <;> ext <;> simp [shearX, shearY, shearZ]

/-- **Taper and chord scaling act about the reference axis**: the reference axis of the output is the
reference axis of the input. -/
theorem c13_scale_keeps_ref_axis (nx : ℕ) (pos : K) (mesh : Mesh K) (f : ℕ → K) (j : ℕ) :
    refAxis nx pos (scaleAbout (refAxis nx pos mesh) f mesh) j = refAxis nx pos mesh j := by
  ext <;> simp [refAxis, scaleAbout] <;> ring

/-- chord vectors (trailing minus leading edge) are scaled by the factor -/
theorem c13_scale_chord (nx : ℕ) (ref : Pts K) (mesh : Mesh K) (f : ℕ → K) (j : ℕ) :
    scaleAbout ref f mesh (nx - 1) j - scaleAbout ref f mesh 0 j = V3.smul (f j) (mesh (nx - 1) j - mesh 0 j) := by
  ext <;> simp [scaleAbout] <;> ring

/-- **Stretch sets the tip-to-tip extent of the reference axis to `span`** (half of it for a
symmetric surface, whose other half is the mirror image). -/
theorem c13_stretch_extent (nx ny : ℕ) (sym : Bool) (pos : K) (mesh : Mesh K) (span : K)
    (h : (refAxis nx pos mesh (ny - 1)).y - (refAxis nx pos mesh 0).y ≠ 0) (i i' : ℕ) :
    (stretch nx ny sym pos mesh span i (ny - 1)).y - (stretch nx ny sym pos mesh span i' 0).y
      = if sym then span / 2 else span := by
  simp only [stretch]
  cases sym <;> simp <;> field_simp

/-- **Stretch with the current span is a no-op** for meshes whose chordwise rows share the
spanwise coordinate of the reference axis. -/
theorem c13_stretch_default (nx ny : ℕ) (sym : Bool) (pos : K) (mesh : Mesh K)
    (hy : ChordwiseConstY nx pos mesh)
    (h : (refAxis nx pos mesh (ny - 1)).y - (refAxis nx pos mesh 0).y ≠ 0) [CharZero K] :
    stretch nx ny sym pos mesh
      ((if sym then 2 else 1) * ((refAxis nx pos mesh (ny - 1)).y - (refAxis nx pos mesh 0).y)) = mesh := by
  funext i j
  ext
  · simp [stretch]
  · simp only [stretch]
    rw [hy i j]
    cases sym <;> simp <;> field_simp
  · simp [stretch]

/-- known finding F8b: without `ChordwiseConstY` the default span is *not* a no-op — `Stretch`
overwrites the `y` of every chordwise row with that of the reference axis. -/
theorem c13_stretch_overwrites_y (nx ny : ℕ) (sym : Bool) (pos : K) (mesh : Mesh K) (span : K) (i i' j : ℕ) :
    (stretch nx ny sym pos mesh span i j).y = (stretch nx ny sym pos mesh span i' j).y := rfl

end field

section interp
variable {K : Type} [Field K] [LinearOrder K] [IsStrictOrderedRing K]

theorem interp2_const (x x0 x1 c : K) : interp2 x x0 x1 c c = c := by
  unfold interp2; split_ifs <;> simp

theorem interp3_const (x x0 x1 x2 c : K) : interp3 x x0 x1 x2 c c c = c := by
  unfold interp3; split_ifs <;> simp

/-- **taper ratio 1 leaves the mesh unchanged** -/
theorem c13_taper_default (nx ny : ℕ) (sym : Bool) (pos : K) (mesh : Mesh K) : taper nx ny sym pos mesh 1 = mesh := by
  unfold taper
  have : taperDist ny sym (refAxis nx pos mesh) 1 1 = fun _ => 1 := by
    funext j; unfold taperDist; cases sym <;> simp [interp2_const, interp3_const]
  simp only [this]
  exact scaleAbout_one _ _

/-- **Taper scales the chords linearly from 1 at the root to the taper ratio at the tip** (symmetric
left-half surface with the root of the reference axis on `y = 0`). -/
theorem c13_taper_linear (ny : ℕ) (ref : Pts K) (t : K) (j : ℕ)
    (hroot : (ref (ny - 1)).y = 0) (htip : (ref 0).y < 0) (hj0 : (ref 0).y ≤ (ref j).y) (hj1 : (ref j).y ≤ 0) :
    taperDist ny true ref t 1 j = t + (1 - t) * (((ref j).y - (ref 0).y) / (0 - (ref 0).y)) := by
  unfold taperDist interp2
  simp only [if_true, hroot, zero_sub, neg_neg]
  have hy0 : (ref 0).y ≠ 0 := ne_of_lt htip
  split_ifs with h1 h2
  · exact absurd h1 (not_lt.mpr hj0)
  · field_simp
    ring
  · have : (ref j).y = 0 := le_antisymm hj1 (not_lt.mp h2)
    rw [this]
    field_simp
    ring

theorem c13_taper_root_tip (ny : ℕ) (ref : Pts K) (t : K)
    (hroot : (ref (ny - 1)).y = 0) (htip : (ref 0).y < 0) :
    taperDist ny true ref t 1 (ny - 1) = 1 ∧ taperDist ny true ref t 1 0 = t := by
  constructor
  · have := c13_taper_linear ny ref t (ny - 1) hroot htip (by rw [hroot]; exact le_of_lt htip) (by rw [hroot])
    rw [this, hroot]
    have hne : (0 : K) - (ref 0).y ≠ 0 := ne_of_gt (by linarith)
    rw [div_self hne]; ring
  · have := c13_taper_linear ny ref t 0 hroot htip (le_refl _) (le_of_lt htip)
    rw [this]; simp

/-- the derivative reported by the repaired `Taper.compute_partials` is the derivative of `compute`:
the interpolated taper is affine in the taper ratio, `taper(t) = taper(0) + t · dtaper` -/
theorem taperDist_affine (ny : ℕ) (sym : Bool) (ref : Pts K) (t : K) (j : ℕ) :
    taperDist ny sym ref t 1 j = taperDist ny sym ref 0 1 j + t * taperDist ny sym ref 1 0 j := by
  unfold taperDist interp2 interp3
  cases sym <;> simp only [Bool.false_eq_true, if_false, if_true] <;> split_ifs <;> ring

end interp

section real

/-- **zero sweep / zero dihedral leave the mesh unchanged** -/
theorem c13_sweep_default (ny : ℕ) (sym : Bool) (mesh : Mesh ℝ) : sweep ny sym mesh 0 = mesh := by
  funext i j; ext <;> simp [sweep]

theorem c13_dihedral_default (ny : ℕ) (sym : Bool) (mesh : Mesh ℝ) : dihedral ny sym mesh 0 = mesh := by
  funext i j; ext <;> simp [dihedral]

/-- **Sweep displaces `x` by `|y − y_root| · tan θ`, keeps `y` and `z`** (left-half symmetric surface:
the root is the last node and `y ≤ y_root`); positive angles move the tip aft. -/
theorem c13_sweep_effect (ny : ℕ) (mesh : Mesh ℝ) (angle : ℝ) (i j : ℕ) (hy : (mesh 0 j).y ≤ (mesh 0 (ny - 1)).y) :
    sweep ny true mesh angle i j
      = ⟨(mesh i j).x + |(mesh 0 j).y - (mesh 0 (ny - 1)).y| * Real.tan (Real.pi / 180 * angle),
         (mesh i j).y, (mesh i j).z⟩ := by
  have : |(mesh 0 j).y - (mesh 0 (ny - 1)).y| = -((mesh 0 j).y - (mesh 0 (ny - 1)).y) :=
    abs_of_nonpos (by linarith)
  simp [sweep, shearDist, this]

theorem c13_dihedral_effect (ny : ℕ) (mesh : Mesh ℝ) (angle : ℝ) (i j : ℕ) (hy : (mesh 0 j).y ≤ (mesh 0 (ny - 1)).y) :
    dihedral ny true mesh angle i j
      = ⟨(mesh i j).x, (mesh i j).y,
         (mesh i j).z + |(mesh 0 j).y - (mesh 0 (ny - 1)).y| * Real.tan (Real.pi / 180 * angle)⟩ := by
  have : |(mesh 0 j).y - (mesh 0 (ny - 1)).y| = -((mesh 0 j).y - (mesh 0 (ny - 1)).y) :=
    abs_of_nonpos (by linarith)
  simp [dihedral, shearDist, this]

/-- full-span surface: the shift is `|y − y_centre| tan θ` on both sides of the centre node -/
theorem c13_sweep_effect_full (ny : ℕ) (mesh : Mesh ℝ) (angle : ℝ) (i j : ℕ)
    (hl : j < (ny - 1) / 2 → (mesh 0 j).y ≤ (mesh 0 ((ny - 1) / 2)).y)
    (hr : (ny - 1) / 2 ≤ j → (mesh 0 ((ny - 1) / 2)).y ≤ (mesh 0 j).y) :
    (sweep ny false mesh angle i j).x
      = (mesh i j).x + |(mesh 0 j).y - (mesh 0 ((ny - 1) / 2)).y| * Real.tan (Real.pi / 180 * angle) := by
  simp only [sweep, shearDist, Bool.false_eq_true, if_false]
  by_cases h : j < (ny - 1) / 2
  · simp only [h, if_true]
    rw [abs_of_nonpos (by linarith [hl h])]; simp
  · simp only [h, if_false]
    rw [abs_of_nonneg (by linarith [hr (not_lt.mp h)])]; simp

/-- **A spanwise-dependent x-shear (sweep, x-shear) preserves the projected panel areas** when the
chordwise rows share their `y` (the planform area is kept). -/
theorem c13_xshear_preserves_projected_area (mesh : Mesh ℝ) (s : ℕ → ℝ) (i j : ℕ)
    (hy : ∀ i j, (mesh (i + 1) j).y = (mesh i j).y) :
    (VLMGeometry.rawNormal (VLMGeometry.projMesh (shearX mesh s)) i j).z
      = (VLMGeometry.rawNormal (VLMGeometry.projMesh mesh) i j).z := by
  simp only [VLMGeometry.rawNormal, VLMGeometry.projMesh, shearX, V3.cross_z, V3.sub_x, V3.sub_y]
  rw [hy i j, hy i (j + 1)]
  ring

/-! ### twist -/

/-- the rotation matrices of `Rotate` are orthogonal: **twist preserves chord length** -/
theorem c13_rotate_preserves_length (tx ty : ℝ) (v : V3 ℝ) :
    V3.normSq ((rotMat tx ty).mulVec v) = V3.normSq v := by
  simp only [rotMat, M3.mulVec, V3.normSq, elem_cos, elem_sin]
  have h1 := Real.sin_sq_add_cos_sq tx
  have h2 := Real.sin_sq_add_cos_sq ty
  set cx := Real.cos tx; set sx := Real.sin tx; set cy := Real.cos ty; set sy := Real.sin ty
  have e1 : sx ^ 2 = 1 - cx ^ 2 := by linarith
  have e2 : sy ^ 2 = 1 - cy ^ 2 := by linarith
  ring_nf
  rw [e1, e2]
  ring

/-- **twist rotates about the reference axis**: the reference axis is unchanged -/
theorem c13_rotate_keeps_ref_axis (nx ny : ℕ) (sym rx : Bool) (pos : ℝ) (mesh : Mesh ℝ) (tw : ℕ → ℝ) (j : ℕ) :
    refAxis nx pos (rotate nx ny sym rx pos mesh tw) j = refAxis nx pos mesh j := by
  ext <;> simp [refAxis, rotate, M3.mulVec] <;> ring

/-- **zero twist is a no-op** when the reference axis has no dihedral (`thetaX = 0`), or when the
x-rotation is disabled -/
theorem c13_rotate_default (nx ny : ℕ) (sym rx : Bool) (pos : ℝ) (mesh : Mesh ℝ)
    (h : rx = true → ∀ j, thetaX ny sym (refAxis nx pos mesh) j = 0) :
    rotate nx ny sym rx pos mesh (fun _ => 0) = mesh := by
  funext i j
  cases rx
  · ext <;> simp [rotate, rotMat, M3.mulVec, deg2rad]
  · have := h rfl j
    ext <;> simp [rotate, rotMat, M3.mulVec, deg2rad, this]

/-- zero twist is also a no-op, whatever the dihedral, for sections that lie on the reference
axis line in `y` and `z` (flat, uncambered chord along `x`) -/
theorem c13_rotate_default_flat (nx ny : ℕ) (sym rx : Bool) (pos : ℝ) (mesh : Mesh ℝ) (i j : ℕ)
    (hy : (mesh i j).y = (refAxis nx pos mesh j).y) (hz : (mesh i j).z = (refAxis nx pos mesh j).z) :
    rotate nx ny sym rx pos mesh (fun _ => 0) i j = mesh i j := by
  ext <;> simp [rotate, rotMat, M3.mulVec, deg2rad, hy, hz]

/-- known finding F8a: with dihedral of the reference axis (`sin θx ≠ 0`) a cambered / pre-twisted
section (`z` offset from the reference axis) is moved by *zero* twist. -/
theorem c13_rotate_default_counterexample (nx ny : ℕ) (sym : Bool) (pos : ℝ) (mesh : Mesh ℝ) (i j : ℕ)
    (hs : Real.sin (thetaX ny sym (refAxis nx pos mesh) j) ≠ 0)
    (hy : (mesh i j).y = (refAxis nx pos mesh j).y) (hz : (mesh i j).z ≠ (refAxis nx pos mesh j).z) :
    (rotate nx ny sym true pos mesh (fun _ => 0) i j).y ≠ (mesh i j).y := by
  simp only [rotate, rotMat, M3.mulVec, deg2rad, if_true, zero_mul, zero_div, elem_cos, elem_sin, Real.cos_zero,
    Real.sin_zero, V3.add_y, V3.sub_x, V3.sub_y, V3.sub_z, hy, sub_self, mul_zero, mul_one, zero_add, add_zero]
  intro h
  have : Real.sin (thetaX ny sym (refAxis nx pos mesh) j) * ((mesh i j).z - (refAxis nx pos mesh j).z) = 0 := by
    linarith
  rcases mul_eq_zero.mp this with h1 | h1
  · exact hs h1
  · exact hz (by linarith)

end real

end C13
end OAS
