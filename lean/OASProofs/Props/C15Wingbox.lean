import OASProofs.Props.C15
import OASProofs.Lemmas.StressCore

/-!
# C15 (continued)  Wingbox stresses vanish for rigid-body motion of the beam

`VonMisesWingbox` recovers four stresses from the axial strain, the twist rate, the two bending curvature
combinations `6u₀ + 2θ₀L − 6u₁ + 4θ₁L` and the shear combination `−12u₀ − 6θ₀L + 12u₁ − 6θ₁L` in the *element*
frame.  For a (linearised) rigid motion `u_j = t + θ × (P_j − c)`, `r_j = θ` all of them vanish identically – for any
element orientation, any section data, any `θ`, `t`, `c` – because the frame is right-handed orthonormal.
-/
set_option linter.unusedSectionVars false
set_option linter.unusedSimpArgs false
namespace OAS
namespace C15
open C01AD

/-- the algebraic core: a frame with `x·x = 1`, `x·y = 0`, `z = x × y`, element vector `P1 − P0 = L x` -/
theorem wingboxRad_rigid (E G L : ℝ) (s : WingboxSec ℝ) (xl yl : V3 ℝ) (P0 c t theta : V3 ℝ)
    (h1 : V3.dot xl xl = 1) (h2 : V3.dot xl yl = 0) :
    let T : M3 ℝ := ⟨xl, yl, V3.cross xl yl⟩
    let P1 := P0 + V3.smul L xl
    wingboxRad E G L s (T.mulVec (t + V3.cross theta (P0 - c))) (T.mulVec theta)
      (T.mulVec (t + V3.cross theta (P1 - c))) (T.mulVec theta) = (0, 0, 0, 0) := by
  intro T P1
  simp only [V3.dot] at h1 h2
  -- the five strain measures vanish
  have hax : (T.mulVec (t + V3.cross theta (P1 - c))).x - (T.mulVec (t + V3.cross theta (P0 - c))).x = 0 := by
    simp only [T, P1, M3.mulVec, V3.add_x, V3.add_y, V3.add_z, V3.sub_x, V3.sub_y, V3.sub_z, V3.cross_x, V3.cross_y,
      V3.cross_z, V3.smul_x, V3.smul_y, V3.smul_z]
    ring
  have hkz : ((6 : ℕ) : ℝ) * (T.mulVec (t + V3.cross theta (P0 - c))).y + ((2 : ℕ) : ℝ) * (T.mulVec theta).z * L
      - ((6 : ℕ) : ℝ) * (T.mulVec (t + V3.cross theta (P1 - c))).y + ((4 : ℕ) : ℝ) * (T.mulVec theta).z * L = 0 := by
    simp only [T, P1, M3.mulVec, V3.add_x, V3.add_y, V3.add_z, V3.sub_x, V3.sub_y, V3.sub_z, V3.cross_x, V3.cross_y,
      V3.cross_z, V3.smul_x, V3.smul_y, V3.smul_z]
    push_cast; ring
  have hky : -((6 : ℕ) : ℝ) * (T.mulVec (t + V3.cross theta (P0 - c))).z + ((2 : ℕ) : ℝ) * (T.mulVec theta).y * L
      + ((6 : ℕ) : ℝ) * (T.mulVec (t + V3.cross theta (P1 - c))).z + ((4 : ℕ) : ℝ) * (T.mulVec theta).y * L = 0 := by
    simp only [T, P1, M3.mulVec, V3.add_x, V3.add_y, V3.add_z, V3.sub_x, V3.sub_y, V3.sub_z, V3.cross_x, V3.cross_y,
      V3.cross_z, V3.smul_x, V3.smul_y, V3.smul_z]
    push_cast
    linear_combination (6 * L * (theta.x * xl.x + theta.y * xl.y + theta.z * xl.z)) * h2
      - (6 * L * (theta.x * yl.x + theta.y * yl.y + theta.z * yl.z)) * h1
  have hvs : -((12 : ℕ) : ℝ) * (T.mulVec (t + V3.cross theta (P0 - c))).y - ((6 : ℕ) : ℝ) * (T.mulVec theta).z * L
      + ((12 : ℕ) : ℝ) * (T.mulVec (t + V3.cross theta (P1 - c))).y - ((6 : ℕ) : ℝ) * (T.mulVec theta).z * L = 0 := by
    simp only [T, P1, M3.mulVec, V3.add_x, V3.add_y, V3.add_z, V3.sub_x, V3.sub_y, V3.sub_z, V3.cross_x, V3.cross_y,
      V3.cross_z, V3.smul_x, V3.smul_y, V3.smul_z]
    push_cast; ring
  simp only [wingboxRad, hax, hkz, hky, hvs, sub_self, mul_zero, zero_mul, zero_div, add_zero, zero_add, neg_zero,
    Prod.mk.injEq]

theorem normSq_nonneg' (a : V3 ℝ) : 0 ≤ V3.normSq a := by
  simp only [V3.normSq]; nlinarith [mul_self_nonneg a.x, mul_self_nonneg a.y, mul_self_nonneg a.z]

theorem norm_sq' (a : V3 ℝ) : V3.norm a * V3.norm a = V3.normSq a := by
  simp only [V3.norm, elem_sqrt]
  exact Real.mul_self_sqrt (normSq_nonneg' a)

theorem unit_dot_self (a : V3 ℝ) (h : 0 < V3.normSq a) : V3.dot (V3.unit a) (V3.unit a) = 1 := by
  have hn : V3.norm a ≠ 0 := by
    intro h0; have := norm_sq' a; rw [h0] at this; simp at this; linarith
  have h2 := norm_sq' a
  simp only [V3.unit, V3.dot, V3.normSq] at h2 ⊢
  field_simp
  linarith

theorem dot_unit_cross (a b : V3 ℝ) : V3.dot a (V3.unit (V3.cross a b)) = 0 := by
  simp only [V3.unit, V3.dot, V3.cross]
  ring

/-- **the element frame of the stress recovery is right-handed orthonormal** (element of positive length, not parallel
to the global `x` axis): `x·x = 1`, `x·y = 0`, `z = x × y` -/
theorem elemFrame_orthonormal (P0 P1 : V3 ℝ) (hlen : 0 < V3.normSq (P1 - P0))
    (hy : 0 < V3.normSq (V3.cross (V3.unit (P1 - P0)) ⟨1, 0, 0⟩)) :
    V3.dot (elemFrame P0 P1).r0 (elemFrame P0 P1).r0 = 1 ∧ V3.dot (elemFrame P0 P1).r0 (elemFrame P0 P1).r1 = 0 ∧
    (elemFrame P0 P1).r2 = V3.cross (elemFrame P0 P1).r0 (elemFrame P0 P1).r1 := by
  have hx := unit_dot_self (P1 - P0) hlen
  have hxy := dot_unit_cross (V3.unit (P1 - P0)) ⟨1, 0, 0⟩
  have hyy := unit_dot_self _ hy
  refine ⟨hx, hxy, ?_⟩
  show V3.unit (V3.cross (V3.unit (P1 - P0)) (V3.unit (V3.cross (V3.unit (P1 - P0)) ⟨1, 0, 0⟩)))
      = V3.cross (V3.unit (P1 - P0)) (V3.unit (V3.cross (V3.unit (P1 - P0)) ⟨1, 0, 0⟩))
  set xl := V3.unit (P1 - P0)
  set yl := V3.unit (V3.cross xl ⟨1, 0, 0⟩)
  -- Lagrange: |x × y|² = |x|²|y|² − (x·y)² = 1
  have hl : V3.normSq (V3.cross xl yl) = 1 := by
    have : V3.normSq (V3.cross xl yl) = V3.dot xl xl * V3.dot yl yl - V3.dot xl yl * V3.dot xl yl := by
      simp only [V3.normSq, V3.cross, V3.dot]; ring
    rw [this, hx, hyy, hxy]; ring
  have hn : V3.norm (V3.cross xl yl) = 1 := by
    have h2 := norm_sq' (V3.cross xl yl)
    rw [hl] at h2
    have hnn : 0 ≤ V3.norm (V3.cross xl yl) := by simp only [V3.norm, elem_sqrt]; exact Real.sqrt_nonneg _
    nlinarith
  simp only [V3.unit, hn, div_one]

/-- **Rigid-body motion of the beam produces no wingbox stress**, for every element orientation, section and rigid
motion `(t, θ, c)` -/
theorem c15_vm_wingbox_rigid_motion (E G tssf : ℝ) (nodes : Pts ℝ) (sec : ℕ → WingboxSec ℝ) (theta c t : V3 ℝ) (e : ℕ)
    (hlen : 0 < V3.normSq (nodes (e + 1) - nodes e))
    (hy : 0 < V3.normSq (V3.cross (V3.unit (nodes (e + 1) - nodes e)) ⟨1, 0, 0⟩)) :
    vonMisesWingbox E G tssf nodes sec (fun j => ⟨t + V3.cross theta (nodes j - c), theta⟩) e = (0, 0, 0, 0) := by
  obtain ⟨h1, h2, h3⟩ := elemFrame_orthonormal (nodes e) (nodes (e + 1)) hlen hy
  have hL : V3.norm (nodes (e + 1) - nodes e) ≠ 0 := by
    intro h0; have := norm_sq' (nodes (e + 1) - nodes e); rw [h0] at this; simp at this; linarith
  have hP1 : nodes (e + 1) = nodes e + V3.smul (V3.norm (nodes (e + 1) - nodes e)) (elemFrame (nodes e) (nodes (e + 1))).r0 := by
    show nodes (e + 1) = nodes e + V3.smul (V3.norm (nodes (e + 1) - nodes e)) (V3.unit (nodes (e + 1) - nodes e))
    ext <;> simp only [V3.unit, V3.add_x, V3.add_y, V3.add_z, V3.smul_x, V3.smul_y, V3.smul_z, V3.sub_x, V3.sub_y, V3.sub_z] <;>
      field_simp <;> ring
  have hT : elemFrame (nodes e) (nodes (e + 1))
      = ⟨(elemFrame (nodes e) (nodes (e + 1))).r0, (elemFrame (nodes e) (nodes (e + 1))).r1,
         V3.cross (elemFrame (nodes e) (nodes (e + 1))).r0 (elemFrame (nodes e) (nodes (e + 1))).r1⟩ := by
    rw [← h3]
  have key := wingboxRad_rigid E G (V3.norm (nodes (e + 1) - nodes e)) (sec e) (elemFrame (nodes e) (nodes (e + 1))).r0
    (elemFrame (nodes e) (nodes (e + 1))).r1 (nodes e) c t theta h1 h2
  simp only at key
  rw [← hT, ← hP1] at key
  rw [vonMisesWingbox_core]
  simp only [wingboxCore, key, elem_sqrt, Real.sqrt_zero, zero_div]

/-- non-vacuity: an element along the span direction satisfies the two frame conditions -/
example : let P0 : V3 ℝ := ⟨0, 0, 0⟩; let P1 : V3 ℝ := ⟨0, 2, 0⟩
    0 < V3.normSq (P1 - P0) ∧ 0 < V3.normSq (V3.cross (V3.unit (P1 - P0)) ⟨1, 0, 0⟩) := by
  simp only [V3.normSq, V3.unit, V3.norm, V3.cross, V3.sub_x, V3.sub_y, V3.sub_z, elem_sqrt]
  have : Real.sqrt ((0 - 0) * (0 - 0) + (2 - 0) * (2 - 0) + (0 - 0) * (0 - 0)) = 2 := by
    rw [show ((0:ℝ) - 0) * (0 - 0) + (2 - 0) * (2 - 0) + (0 - 0) * (0 - 0) = 2 ^ 2 by norm_num]
    exact Real.sqrt_sq (by norm_num)
  rw [this]; norm_num

end C15
end OAS
