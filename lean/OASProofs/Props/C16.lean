import OASProofs.Lemmas.Basic
import OASProofs.Lemmas.Real

/-!
# C16  Mass, centre of gravity and inertial, fuel and thrust loads are conserved

Model: `OASModel/StructLoads.lean`.  `ny = m + 1` nodes, `m` elements.  The algebraic theorems
hold over every field of characteristic 0 equipped with *any* function in the role of `sqrt`
(no property of the square root is used: the lengths cancel); the statements about the
point-load weightings need an ordered field and are stated over ℝ.
-/
set_option linter.unusedSectionVars false
set_option linter.unusedSimpArgs false
namespace OAS
namespace C16
open Finset

section algebraic
variable {K : Type} [Field K] [CharZero K] [Elem K]

/-- **Structural mass** `= (2 if symmetric) · ρ · wwr · Σ_e A_e L_e`. -/
theorem c16_structural_mass (m : ℕ) (sym : Bool) (mrho wwr : K) (nodes : Pts K) (A : ℕ → K) :
    structuralMass (m + 1) sym mrho wwr nodes A
      = (if sym then 2 else 1) * (mrho * wwr * ∑ e ∈ range m, A e * elemLength nodes e) := by
  unfold structuralMass elementMass
  simp only [Nat.add_sub_cancel, sumTo_eq_sum, Finset.mul_sum]
  cases sym <;> simp only [Bool.false_eq_true, if_false, if_true, one_mul, Finset.sum_mul, Finset.mul_sum]
  · exact Finset.sum_congr rfl (fun e _ => by ring)
  · push_cast
    exact Finset.sum_congr rfl (fun e _ => by ring)

/-- **cg of a full-span surface is the mass-weighted centroid of the element mid-points**
(when fed with the structural mass of `Weight`, i.e. `M = Σ m_e ≠ 0`). -/
theorem c16_cg_full (m : ℕ) (nodes : Pts K) (em : ℕ → K) (M : K) (hM : M = ∑ e ∈ range m, em e) (h0 : M ≠ 0) :
    let cg := structuralCG (m + 1) false nodes M em
    cg.x * (∑ e ∈ range m, em e) = ∑ e ∈ range m, em e * (elemCenter nodes e).x ∧
    cg.y * (∑ e ∈ range m, em e) = ∑ e ∈ range m, em e * (elemCenter nodes e).y ∧
    cg.z * (∑ e ∈ range m, em e) = ∑ e ∈ range m, em e * (elemCenter nodes e).z := by
  simp only [structuralCG, Nat.add_sub_cancel, sumTo_eq_sum, Bool.false_eq_true, if_false, ← hM]
  refine ⟨?_, ?_, ?_⟩ <;>
  · rw [div_mul_cancel₀ _ h0]
    exact Finset.sum_congr rfl (fun e _ => by ring)

/-- **cg of a symmetric surface**: `y = 0`, and `x, z` are the mass-weighted centroid of the
modelled half (`M = 2 Σ m_e` is the mass of both halves). -/
theorem c16_cg_sym (m : ℕ) (nodes : Pts K) (em : ℕ → K) (M : K) (hM : M = 2 * ∑ e ∈ range m, em e)
    (h0 : M ≠ 0) :
    let cg := structuralCG (m + 1) true nodes M em
    cg.x * (∑ e ∈ range m, em e) = ∑ e ∈ range m, em e * (elemCenter nodes e).x ∧
    cg.y = 0 ∧
    cg.z * (∑ e ∈ range m, em e) = ∑ e ∈ range m, em e * (elemCenter nodes e).z := by
  have h2 : (∑ e ∈ range m, em e) = M / 2 := by rw [hM]; ring
  simp only [structuralCG, Nat.add_sub_cancel, sumTo_eq_sum, if_true, h2]
  refine ⟨?_, by simp, ?_⟩ <;>
  · push_cast
    field_simp
    exact Finset.sum_congr rfl (fun e _ => by ring)

/-- total force of an element → node distribution: `Σ_j F_j = (0, 0, −2 Σ_e zf_e)` -/
theorem distributed_force_total (m : ℕ) (zf bm3 bm4 : ℕ → K) :
    V3.sumTo (m + 1) (fun j => (distributedLoads (m + 1) zf bm3 bm4 j).f)
      = ⟨0, 0, -(2 * ∑ e ∈ range m, zf e)⟩ := by
  unfold distributedLoads
  ext
  · simp
  · simp
  · simp only [V3.sumTo_z, Nat.add_sub_cancel, zero_sub, Finset.sum_sub_distrib, Finset.sum_neg_distrib,
      sum_ite_lt_last, sum_ite_one_le]
    ring

/-- total moment about the origin of an element → node distribution: the `±bm` couples cancel and
what remains is the moment of the element forces `(0,0,−2 zf_e)` acting at the element mid-points -/
theorem distributed_moment_total (m : ℕ) (nodes : Pts K) (zf bm3 bm4 : ℕ → K) :
    V3.sumTo (m + 1) (fun j => (distributedLoads (m + 1) zf bm3 bm4 j).m
        + V3.cross (nodes j) (distributedLoads (m + 1) zf bm3 bm4 j).f)
      = V3.sumTo m (fun e => V3.cross (elemCenter nodes e) ⟨0, 0, -(2 * zf e)⟩) := by
  unfold distributedLoads elemCenter
  ext <;>
  · simp only [V3.sumTo_x, V3.sumTo_y, V3.sumTo_z, V3.add_x, V3.add_y, V3.add_z, V3.cross_x, V3.cross_y,
      V3.cross_z, Nat.add_sub_cancel, zero_sub, mul_zero, sub_zero, zero_mul, mul_sub, mul_add, mul_neg, mul_ite,
      Finset.sum_add_distrib, Finset.sum_sub_distrib, Finset.sum_neg_distrib, sum_ite_lt_last, sum_ite_one_le,
      Finset.sum_const_zero, neg_zero, add_zero, zero_add]
    try rw [← sub_eq_zero]
    try simp only [← Finset.sum_add_distrib, ← Finset.sum_sub_distrib, ← Finset.sum_neg_distrib]
    try (refine Finset.sum_eq_zero (fun e _ => ?_); push_cast; ring)

/-- **Structural-weight loads sum to `−(Σ m_e) · g · n` in `z`.** -/
theorem c16_weight_force_total (m : ℕ) (nodes : Pts K) (em : ℕ → K) (lf : K) :
    V3.sumTo (m + 1) (fun j => (structWeightLoads (m + 1) nodes em lf j).f)
      = ⟨0, 0, -((∑ e ∈ range m, em e) * lf * gravConstant)⟩ := by
  unfold structWeightLoads
  rw [distributed_force_total]
  ext <;> simp only [Finset.sum_mul, Finset.mul_sum]
  congr 1
  rw [← Finset.mul_sum]
  push_cast
  rw [Finset.mul_sum]
  exact Finset.sum_congr rfl (fun e _ => by ring)

/-- **… with the correct total moment**: that of the element weights at the element mid-points. -/
theorem c16_weight_moment_total (m : ℕ) (nodes : Pts K) (em : ℕ → K) (lf : K) :
    V3.sumTo (m + 1) (fun j => (structWeightLoads (m + 1) nodes em lf j).m
        + V3.cross (nodes j) (structWeightLoads (m + 1) nodes em lf j).f)
      = V3.sumTo m (fun e => V3.cross (elemCenter nodes e) ⟨0, 0, -(em e * lf * gravConstant)⟩) := by
  unfold structWeightLoads
  rw [distributed_moment_total]
  congr 1
  funext e
  congr 2
  push_cast
  ring

/-- **Fuel-weight loads sum to minus the (half-span share of the) fuel weight, reserve included.** -/
theorem c16_fuel_force_total (m : ℕ) (sym : Bool) (nodes : Pts K) (vols : ℕ → K) (fm rs lf : K)
    (hv : ∑ e ∈ range m, vols e ≠ 0) :
    V3.sumTo (m + 1) (fun j => (fuelLoads (m + 1) sym nodes vols fm rs lf j).f)
      = ⟨0, 0, -(fuelWeight sym fm rs lf)⟩ := by
  unfold fuelLoads
  rw [distributed_force_total]
  simp only [Nat.add_sub_cancel, sumTo_eq_sum]
  ext <;> simp only []
  congr 1
  push_cast
  rw [Finset.mul_sum]
  have : ∀ e, 2 * (vols e * fuelWeight sym fm rs lf / (∑ e ∈ range m, vols e) / 2)
      = vols e * (fuelWeight sym fm rs lf / ∑ e ∈ range m, vols e) := fun e => by ring
  simp only [this, ← Finset.sum_mul]
  field_simp

theorem c16_fuel_moment_total (m : ℕ) (sym : Bool) (nodes : Pts K) (vols : ℕ → K) (fm rs lf : K) :
    V3.sumTo (m + 1) (fun j => (fuelLoads (m + 1) sym nodes vols fm rs lf j).m
        + V3.cross (nodes j) (fuelLoads (m + 1) sym nodes vols fm rs lf j).f)
      = V3.sumTo m (fun e => V3.cross (elemCenter nodes e)
          ⟨0, 0, -(vols e * fuelWeight sym fm rs lf / sumTo m vols)⟩) := by
  unfold fuelLoads
  rw [distributed_moment_total]
  simp only [Nat.add_sub_cancel]
  congr 1
  funext e
  congr 2
  push_cast
  ring

/-- the fuel weight is `(fuel + reserve) · g · n`, halved for a symmetric surface -/
theorem c16_fuel_weight (sym : Bool) (fm rs lf : K) :
    fuelWeight sym fm rs lf = (fm + rs) * gravConstant * lf / (if sym then 2 else 1) := by
  unfold fuelWeight
  cases sym <;> simp

/-- **Fuel-volume margin = enclosed volume − required fuel volume** (half share when symmetric). -/
theorem c16_fuel_vol_delta (m : ℕ) (sym : Bool) (vols : ℕ → K) (fb rs rho : K) :
    fuelVolDelta (m + 1) sym vols fb rs rho
      = (∑ e ∈ range m, vols e) - ((fb + rs) / (if sym then 2 else 1)) / rho := by
  unfold fuelVolDelta
  simp only [Nat.add_sub_cancel, sumTo_eq_sum]
  cases sym <;> simp
  push_cast; ring

/-- total force of point loads: sum over nodes and points of the distributed forces -/
theorem point_force_total (ny np : ℕ) (nodes locs : Pts K) (force : ℕ → ℕ → V3 K) :
    V3.sumTo ny (fun j => (pointLoads ny np nodes locs force j).f)
      = V3.sumTo np (fun p => V3.sumTo ny (fun j => force p j)) := by
  unfold pointLoads
  ext <;> simp only [V3.sumTo_x, V3.sumTo_y, V3.sumTo_z] <;> exact Finset.sum_comm

/-- total moment about the origin of point loads: each point's total force acts at its location -/
theorem point_moment_total (ny np : ℕ) (nodes locs : Pts K) (force : ℕ → ℕ → V3 K) :
    V3.sumTo ny (fun j => (pointLoads ny np nodes locs force j).m
        + V3.cross (nodes j) (pointLoads ny np nodes locs force j).f)
      = V3.sumTo np (fun p => V3.cross (locs p) (V3.sumTo ny (fun j => force p j))) := by
  unfold pointLoads
  ext <;>
  · simp only [V3.sumTo_x, V3.sumTo_y, V3.sumTo_z, V3.add_x, V3.add_y, V3.add_z, V3.cross_x, V3.cross_y,
      V3.cross_z, V3.sub_x, V3.sub_y, V3.sub_z, Finset.mul_sum, ← Finset.sum_add_distrib, ← Finset.sum_sub_distrib]
    rw [Finset.sum_comm]
    refine Finset.sum_congr rfl (fun p _ => ?_)
    refine Finset.sum_congr rfl (fun j _ => ?_)
    ring

/-- **TotalLoads is the sum of the enabled load sources.** -/
theorem c16_total_loads (relief fuel pm : Bool) (loads sw fw pml tl : ℕ → Load K) (j : ℕ) :
    (totalLoads relief fuel pm loads sw fw pml tl j).f
      = (loads j).f + (if relief then (sw j).f else 0) + (if fuel then (fw j).f else 0)
        + (if pm then (pml j).f + (tl j).f else 0) ∧
    (totalLoads relief fuel pm loads sw fw pml tl j).m
      = (loads j).m + (if relief then (sw j).m else 0) + (if fuel then (fw j).m else 0)
        + (if pm then (pml j).m + (tl j).m else 0) := by
  have hf : ∀ a b : Load K, (a + b).f = a.f + b.f := fun _ _ => rfl
  have hm : ∀ a b : Load K, (a + b).m = a.m + b.m := fun _ _ => rfl
  unfold totalLoads
  cases relief <;> cases fuel <;> cases pm <;> simp [hf, hm] <;>
    (constructor <;> ext <;> simp <;> ring)

end algebraic

section weights

/-- `x ** 10 ≥ 0` -/
theorem pow10_nonneg (x : ℝ) : 0 ≤ pow10 x := by
  unfold pow10
  have : 0 ≤ x * x := mul_self_nonneg x
  positivity

theorem invDist10_pos (nodes : Pts ℝ) (loc : V3 ℝ) (j : ℕ) : 0 < invDist10 nodes loc j := by
  unfold invDist10
  have h := pow10_nonneg (loc.y - (nodes j).y)
  have : (0 : ℝ) < dec 1 10000000000 := by simp only [dec_def]; positivity
  positivity

/-- **The nodal weightings of a point mass / thrust sum to one** (any `ny ≥ 1`, any location). -/
theorem c16_weightings_sum_one (n : ℕ) (nodes : Pts ℝ) (loc : V3 ℝ) :
    ∑ j ∈ range (n + 1), nodalWeighting (n + 1) nodes loc j = 1 := by
  unfold nodalWeighting
  rw [← Finset.sum_div, sumTo_eq_sum]
  apply div_self
  apply ne_of_gt
  exact Finset.sum_pos (fun j _ => invDist10_pos nodes loc j) (by simp)

/-- **Point-mass loads sum to `−g · n · Σ_p m_p` in `z`.** -/
theorem c16_point_mass_force_total (n np : ℕ) (nodes locs : Pts ℝ) (masses : ℕ → ℝ) (lf : ℝ) :
    V3.sumTo (n + 1) (fun j => (pointMassLoads (n + 1) np nodes locs masses lf j).f)
      = ⟨0, 0, -(gravConstant * lf * ∑ p ∈ range np, masses p)⟩ := by
  unfold pointMassLoads
  rw [point_force_total]
  ext
  · simp
  · simp
  · simp only [V3.sumTo_z, Finset.mul_sum, ← Finset.sum_neg_distrib]
    refine Finset.sum_congr rfl (fun p _ => ?_)
    have h := c16_weightings_sum_one n nodes (locs p)
    have : ∀ j, nodalWeighting (n + 1) nodes (locs p) j * (-1) * gravConstant * lf * masses p
        = nodalWeighting (n + 1) nodes (locs p) j * (-(gravConstant * lf * masses p)) := fun j => by ring
    simp only [this, ← Finset.sum_mul, h, one_mul]

/-- … with total moment `Σ_p loc_p × (0, 0, −m_p g n)`. -/
theorem c16_point_mass_moment_total (n np : ℕ) (nodes locs : Pts ℝ) (masses : ℕ → ℝ) (lf : ℝ) :
    V3.sumTo (n + 1) (fun j => (pointMassLoads (n + 1) np nodes locs masses lf j).m
        + V3.cross (nodes j) (pointMassLoads (n + 1) np nodes locs masses lf j).f)
      = V3.sumTo np (fun p => V3.cross (locs p) ⟨0, 0, -(gravConstant * lf * masses p)⟩) := by
  unfold pointMassLoads
  rw [point_moment_total]
  congr 1
  funext p
  congr 1
  have h := c16_weightings_sum_one n nodes (locs p)
  ext
  · simp
  · simp
  · have : ∀ j, nodalWeighting (n + 1) nodes (locs p) j * (-1) * gravConstant * lf * masses p
        = nodalWeighting (n + 1) nodes (locs p) j * (-(gravConstant * lf * masses p)) := fun j => by ring
    simp only [V3.sumTo_z, this, ← Finset.sum_mul, h, one_mul]

/-- **Thrust loads sum to the thrust acting forward (−x).** -/
theorem c16_thrust_force_total (n np : ℕ) (nodes locs : Pts ℝ) (thr : ℕ → ℝ) :
    V3.sumTo (n + 1) (fun j => (thrustLoads (n + 1) np nodes locs thr j).f)
      = ⟨-(∑ p ∈ range np, thr p), 0, 0⟩ := by
  unfold thrustLoads
  rw [point_force_total]
  ext
  · simp only [V3.sumTo_x, ← Finset.sum_neg_distrib]
    refine Finset.sum_congr rfl (fun p _ => ?_)
    have h := c16_weightings_sum_one n nodes (locs p)
    have : ∀ j, nodalWeighting (n + 1) nodes (locs p) j * (-1) * thr p
        = nodalWeighting (n + 1) nodes (locs p) j * (-(thr p)) := fun j => by ring
    simp only [this, ← Finset.sum_mul, h, one_mul]
  · simp
  · simp

theorem c16_thrust_moment_total (n np : ℕ) (nodes locs : Pts ℝ) (thr : ℕ → ℝ) :
    V3.sumTo (n + 1) (fun j => (thrustLoads (n + 1) np nodes locs thr j).m
        + V3.cross (nodes j) (thrustLoads (n + 1) np nodes locs thr j).f)
      = V3.sumTo np (fun p => V3.cross (locs p) ⟨-(thr p), 0, 0⟩) := by
  unfold thrustLoads
  rw [point_moment_total]
  congr 1
  funext p
  congr 1
  have h := c16_weightings_sum_one n nodes (locs p)
  ext
  · have : ∀ j, nodalWeighting (n + 1) nodes (locs p) j * (-1) * thr p
        = nodalWeighting (n + 1) nodes (locs p) j * (-(thr p)) := fun j => by ring
    simp only [V3.sumTo_x, this, ← Finset.sum_mul, h, one_mul]
  · simp
  · simp

end weights

end C16
end OAS
