import OASProofs.Lemmas.Kernel

/-!
# C08  Ground effect equals the method of images

Model: `OASModel/VLM.lean` (`groundReflect`, `vortexMesh`, `velRaw`).
-/
set_option linter.unusedSectionVars false
set_option linter.unusedSimpArgs false
namespace OAS
namespace C08
open VLM

/-- unit normal of the ground plane `(sin α, 0, −cos α)` (α in radians) -/
noncomputable def planeNormal (a : ℝ) : V3 ℝ := ⟨Real.sin a, 0, -Real.cos a⟩

theorem planeNormal_unit (a : ℝ) : V3.dot (planeNormal a) (planeNormal a) = 1 := by
  simp [V3.dot, planeNormal]; nlinarith [Real.sin_sq_add_cos_sq a]

/-- reflection across the plane through `q` with normal `n` -/
noncomputable def reflect (n q m : V3 ℝ) : V3 ℝ := m - V3.smul 2 (V3.smul (V3.dot (m - q) n) n)

/-- `VortexMesh`'s ground image is the reflection across the plane through `h·n` with unit normal `n` -/
theorem groundReflect_eq (a h : ℝ) (m : V3 ℝ) :
    groundReflect a h m = reflect (planeNormal a) (V3.smul h (planeNormal a)) m := by
  ext <;> simp [groundReflect, reflect, planeNormal, V3.dot]

theorem reflect_involution (n q m : V3 ℝ) (hn : n.x * n.x + n.y * n.y + n.z * n.z = 1) :
    reflect n q (reflect n q m) = m := by
  ext <;> simp only [reflect, V3.dot, V3.sub_x, V3.sub_y, V3.sub_z, V3.smul_x, V3.smul_y, V3.smul_z]
  · linear_combination (4 * n.x * ((m.x - q.x) * n.x + (m.y - q.y) * n.y + (m.z - q.z) * n.z)) * hn
  · linear_combination (4 * n.y * ((m.x - q.x) * n.x + (m.y - q.y) * n.y + (m.z - q.z) * n.z)) * hn
  · linear_combination (4 * n.z * ((m.x - q.x) * n.x + (m.y - q.y) * n.y + (m.z - q.z) * n.z)) * hn

theorem reflect_isometry (n q a b : V3 ℝ) (hn : n.x * n.x + n.y * n.y + n.z * n.z = 1) :
    V3.normSq (reflect n q a - reflect n q b) = V3.normSq (a - b) := by
  simp only [reflect, V3.normSq, V3.dot, V3.sub_x, V3.sub_y, V3.sub_z, V3.smul_x, V3.smul_y, V3.smul_z]
  linear_combination (4 * ((a.x - b.x) * n.x + (a.y - b.y) * n.y + (a.z - b.z) * n.z) ^ 2) * hn

theorem reflect_distance (n q m : V3 ℝ) (hn : n.x * n.x + n.y * n.y + n.z * n.z = 1) :
    V3.dot (reflect n q m - q) n = -V3.dot (m - q) n := by
  simp only [reflect, V3.dot, V3.sub_x, V3.sub_y, V3.sub_z, V3.smul_x, V3.smul_y, V3.smul_z]
  linear_combination (-2 * ((m.x - q.x) * n.x + (m.y - q.y) * n.y + (m.z - q.z) * n.z)) * hn

theorem planeNormal_unit' (a : ℝ) :
    (planeNormal a).x * (planeNormal a).x + (planeNormal a).y * (planeNormal a).y + (planeNormal a).z * (planeNormal a).z = 1 := by
  have := planeNormal_unit a
  simpa [V3.dot] using this

/-- **the ground image is an involution** -/
theorem c08_reflect_involution (a h : ℝ) (m : V3 ℝ) : groundReflect a h (groundReflect a h m) = m := by
  rw [groundReflect_eq, groundReflect_eq]
  exact reflect_involution _ _ _ (planeNormal_unit' a)

/-- **it is an isometry**: distances between points are preserved -/
theorem c08_reflect_isometry (a h : ℝ) (m1 m2 : V3 ℝ) :
    V3.normSq (groundReflect a h m1 - groundReflect a h m2) = V3.normSq (m1 - m2) := by
  rw [groundReflect_eq, groundReflect_eq]
  exact reflect_isometry _ _ _ _ (planeNormal_unit' a)

/-- **points of the plane through `h·n` with normal `n` are fixed** -/
theorem c08_reflect_fixes_plane (a h : ℝ) (m : V3 ℝ)
    (hm : V3.dot (m - V3.smul h (planeNormal a)) (planeNormal a) = 0) : groundReflect a h m = m := by
  rw [groundReflect_eq]
  unfold reflect
  rw [hm]
  ext <;> simp

/-- the signed distance of the image to the plane is the opposite of the original distance: the image lies
as far below the plane (which is at height `h` below the origin) as the surface lies above it -/
theorem c08_reflect_distance (a h : ℝ) (m : V3 ℝ) :
    V3.dot (groundReflect a h m - V3.smul h (planeNormal a)) (planeNormal a)
      = -V3.dot (m - V3.smul h (planeNormal a)) (planeNormal a) := by
  rw [groundReflect_eq]
  exact reflect_distance _ _ _ (planeNormal_unit' a)

/-- **the plane is parallel to the free stream / wake direction**: `u · n = 0`, so the wake direction is
invariant under the (linear part of the) reflection and the image wake legs are parallel to the real ones -/
theorem c08_plane_parallel_to_wake (alphaDeg : ℝ) :
    V3.dot (wakeDir alphaDeg) (planeNormal (deg2rad alphaDeg)) = 0 := by
  simp [wakeDir, planeNormal, V3.dot]; ring

theorem vortexMesh_ground_rows (s : Surf ℝ) (hg : s.ground = true) (a h : ℝ) (r c : ℕ) :
    (r < s.nx → vortexMesh s a h r c = shiftQuarter s.nx (extMesh s) r c) ∧
    vortexMesh s a h (s.nx + r) c = shiftQuarter s.nx (fun i j => groundReflect a h (extMesh s i j)) r c := by
  constructor
  · intro hr
    simp [vortexMesh, hg, hr]
  · simp [vortexMesh, hg]

/-- **Method of images**: with ground effect the influence of ring `(i, jj)` of a surface is the influence
of its own lattice minus the influence of the image lattice (image rings carry the opposite circulation),
and the image lattice is the ring mesh of the surface reflected across the ground plane. -/
theorem c08_images (s : Surf ℝ) (hg : s.ground = true) (u : V3 ℝ) (a h : ℝ) (p : V3 ℝ) (i jj : ℕ) (hi : i + 1 < s.nx) :
    velRaw s u (vortexMesh s a h) p i jj
      = latticeVel s.nx u (shiftQuarter s.nx (extMesh s)) 0 p i jj
        - latticeVel s.nx u (shiftQuarter s.nx (fun r c => groundReflect a h (extMesh s r c))) 0 p i jj := by
  have hi0 : i < s.nx := by omega
  have r1 := fun c => (vortexMesh_ground_rows s hg a h i c).1 hi0
  have r2 := fun c => (vortexMesh_ground_rows s hg a h (i + 1) c).1 hi
  have g1 := fun c => (vortexMesh_ground_rows s hg a h i c).2
  have g2 := fun c => (vortexMesh_ground_rows s hg a h (i + 1) c).2
  unfold velRaw
  simp only [hg, if_true]
  unfold latticeVel ring trailing
  simp only [Nat.zero_add, r1, r2, g1, g2]

end C08
end OAS
