import OASProofs.Props.C15

/-!
# C15 (continued)  The wingbox section properties behind the stress recovery

Model: `OASModel/Wingbox.lean` (`section_properties_wingbox.py`).  `VonMisesWingbox` turns strains into stresses with
`J, A_enc, Qz, htop, hbottom, hfront, hrear` of this component.

* **geometric similarity** (`c15_section_scaling`): scaling every length of the element (both chords and both thicknesses) by
  `k > 0` scales the areas by `k²`, the first moment `Qz` by `k³`, the second moments `Iy, Iz` and the torsion constant `J` by
  `k⁴`, and the spar distances `hfront, hrear` by `k` – for any airfoil data, any number of points, any twist;
* **the distances to the outer fibres are conservative** (`c15_height_envelope_bounds`): the KS envelope used for `htop`
  and `hbottom` is never below the true extreme coordinate and exceeds it by at most `ln(n+1)/500`;
* `A_enc`, `A_int`, `J` do not depend on the element twist (`c15_torsion_independent_of_twist`).
-/
set_option linter.unusedSectionVars false
set_option linter.unusedSimpArgs false
namespace OAS
namespace C15Section
open Finset Wingbox

/-- every coordinate multiplied by `k` -/
noncomputable def kAF (k : ℝ) (a : Airfoil ℝ) : Airfoil ℝ := ⟨fun i => k * a.xu i, fun i => k * a.yu i, fun i => k * a.xl i, fun i => k * a.yl i⟩

theorem scaled_kAF (af : Airfoil ℝ) (k c tc tc0 sc : ℝ) (hk : k ≠ 0) :
    scaled af (k * c) tc tc0 (k * sc) = kAF k (scaled af c tc tc0 sc) := by
  have e : tc / tc0 * (k * sc) / (k * c) = tc / tc0 * sc / c := by
    rw [← mul_assoc, mul_comm (tc / tc0) k, mul_assoc, mul_div_mul_left _ _ hk]
  simp only [scaled, kAF, e, Airfoil.mk.injEq]
  refine ⟨?_, ?_, ?_, ?_⟩ <;> funext i <;> ring

theorem rotated_kAF (a : Airfoil ℝ) (k th : ℝ) : rotated (kAF k a) th = kAF k (rotated a th) := by
  simp only [rotated, kAF, Airfoil.mk.injEq]
  refine ⟨?_, ?_, ?_, ?_⟩ <;> funext i <;> ring

@[simp] theorem diff_kAF_xu (k : ℝ) (a : Airfoil ℝ) (i : ℕ) : diff (kAF k a).xu i = k * diff a.xu i := by simp [diff, kAF]; ring
@[simp] theorem diff_kAF_yu (k : ℝ) (a : Airfoil ℝ) (i : ℕ) : diff (kAF k a).yu i = k * diff a.yu i := by simp [diff, kAF]; ring
@[simp] theorem diff_kAF_xl (k : ℝ) (a : Airfoil ℝ) (i : ℕ) : diff (kAF k a).xl i = k * diff a.xl i := by simp [diff, kAF]; ring
@[simp] theorem diff_kAF_yl (k : ℝ) (a : Airfoil ℝ) (i : ℕ) : diff (kAF k a).yl i = k * diff a.yl i := by simp [diff, kAF]; ring
@[simp] theorem addn_kAF_yu (k : ℝ) (a : Airfoil ℝ) (i : ℕ) : addn (kAF k a).yu i = k * addn a.yu i := by simp [addn, kAF]; ring
@[simp] theorem addn_kAF_yl (k : ℝ) (a : Airfoil ℝ) (i : ℕ) : addn (kAF k a).yl i = k * addn a.yl i := by simp [addn, kAF]; ring
@[simp] theorem kAF_xu (k : ℝ) (a : Airfoil ℝ) (i : ℕ) : (kAF k a).xu i = k * a.xu i := rfl
@[simp] theorem kAF_yu (k : ℝ) (a : Airfoil ℝ) (i : ℕ) : (kAF k a).yu i = k * a.yu i := rfl
@[simp] theorem kAF_xl (k : ℝ) (a : Airfoil ℝ) (i : ℕ) : (kAF k a).xl i = k * a.xl i := rfl
@[simp] theorem kAF_yl (k : ℝ) (a : Airfoil ℝ) (i : ℕ) : (kAF k a).yl i = k * a.yl i := rfl

/-- pull a common factor out of a model sum -/
theorem sumTo_factor (n : ℕ) (c : ℝ) (f g : ℕ → ℝ) (h : ∀ i, f i = c * g i) : sumTo n f = c * sumTo n g := by
  simp only [sumTo_eq_sum, Finset.mul_sum]
  exact Finset.sum_congr rfl (fun i _ => h i)

variable (n : ℕ) (a : Airfoil ℝ) (k ts tk : ℝ)

/-! the summands of the model's sums, named so that the factor `k^p` can be pulled out sum by sum (each `_eq` is `rfl`) -/
noncomputable def encT (a : Airfoil ℝ) (tk : ℝ) (i : ℕ) : ℝ := diff a.xu i * (addn a.yu i - tk) / n2 + diff a.xl i * (-(addn a.yl i) - tk) / n2
noncomputable def intT (a : Airfoil ℝ) (tk : ℝ) (i : ℕ) : ℝ :=
  diff a.xu i * (addn a.yu i - n2 * tk) / n2 + diff a.xl i * (-(addn a.yl i) - n2 * tk) / n2
noncomputable def perT (a : Airfoil ℝ) (tk : ℝ) (i : ℕ) : ℝ :=
  Elem.sqrt (diff a.xu i * diff a.xu i + diff a.yu i * diff a.yu i) / tk + Elem.sqrt (diff a.xl i * diff a.xl i + diff a.yl i * diff a.yl i) / tk
noncomputable def upA (a : Airfoil ℝ) (tk : ℝ) (i : ℕ) : ℝ := tk * diff a.xu i
noncomputable def loA (a : Airfoil ℝ) (tk : ℝ) (i : ℕ) : ℝ := tk * diff a.xl i
noncomputable def upM (a : Airfoil ℝ) (tk : ℝ) (i : ℕ) : ℝ := (addn a.yu i / n2 - tk / n2) * tk * diff a.xu i
noncomputable def loM (a : Airfoil ℝ) (tk : ℝ) (i : ℕ) : ℝ := (addn a.yl i / n2 + tk / n2) * tk * diff a.xl i
noncomputable def upI (a : Airfoil ℝ) (tk c : ℝ) (i : ℕ) : ℝ :=
  stripI (diff a.yu i / diff a.xu i) ((diff a.yu i + tk) / n2) (diff a.xu i)
    + diff a.xu i * tk * ((addn a.yu i / n2 - tk / n2 - c) * (addn a.yu i / n2 - tk / n2 - c))
noncomputable def loI1 (a : Airfoil ℝ) (tk : ℝ) (i : ℕ) : ℝ := stripI (-(diff a.yl i) / diff a.xl i) ((-(diff a.yl i) + tk) / n2) (diff a.xl i)
noncomputable def loI2 (a : Airfoil ℝ) (tk c : ℝ) (i : ℕ) : ℝ :=
  diff a.xl i * tk * ((-(addn a.yl i) / n2 - tk / n2 + c) * (-(addn a.yl i) / n2 - tk / n2 + c))
noncomputable def upQ (a : Airfoil ℝ) (tk c : ℝ) (i : ℕ) : ℝ := ((addn a.yu i / n2 - tk / n2) - c) * tk * diff a.xu i

theorem stripI_scale (s b x : ℝ) : stripI s (k * b) (k * x) = k ^ 4 * stripI s b x := by unfold stripI; ring

theorem sqrt_scale (k x y : ℝ) (hk : 0 < k) : Real.sqrt (k * x * (k * x) + k * y * (k * y)) = k * Real.sqrt (x * x + y * y) := by
  have : k * x * (k * x) + k * y * (k * y) = k ^ 2 * (x * x + y * y) := by ring
  rw [this, Real.sqrt_mul (sq_nonneg k), Real.sqrt_sq (le_of_lt hk)]

theorem encT_scale (i : ℕ) : encT (kAF k a) (k * tk) i = k ^ 2 * encT a tk i := by
  simp only [encT, diff_kAF_xu, diff_kAF_xl, addn_kAF_yu, addn_kAF_yl]; ring
theorem intT_scale (i : ℕ) : intT (kAF k a) (k * tk) i = k ^ 2 * intT a tk i := by
  simp only [intT, diff_kAF_xu, diff_kAF_xl, addn_kAF_yu, addn_kAF_yl]; ring
theorem perT_scale (hk : 0 < k) (i : ℕ) : perT (kAF k a) (k * tk) i = 1 * perT a tk i := by
  simp only [perT, diff_kAF_xu, diff_kAF_xl, diff_kAF_yu, diff_kAF_yl, elem_sqrt, sqrt_scale _ _ _ hk, mul_div_mul_left _ _ hk.ne',
    one_mul]
theorem upA_scale (i : ℕ) : upA (kAF k a) (k * tk) i = k ^ 2 * upA a tk i := by simp only [upA, diff_kAF_xu]; ring
theorem loA_scale (i : ℕ) : loA (kAF k a) (k * tk) i = k ^ 2 * loA a tk i := by simp only [loA, diff_kAF_xl]; ring
theorem upM_scale (i : ℕ) : upM (kAF k a) (k * tk) i = k ^ 3 * upM a tk i := by simp only [upM, diff_kAF_xu, addn_kAF_yu]; ring
theorem loM_scale (i : ℕ) : loM (kAF k a) (k * tk) i = k ^ 3 * loM a tk i := by simp only [loM, diff_kAF_xl, addn_kAF_yl]; ring
theorem upI_scale (c : ℝ) (hk : k ≠ 0) (i : ℕ) : upI (kAF k a) (k * tk) (k * c) i = k ^ 4 * upI a tk c i := by
  simp only [upI, diff_kAF_xu, diff_kAF_yu, addn_kAF_yu, mul_div_mul_left _ _ hk]
  rw [show (k * diff a.yu i + k * tk) / n2 = k * ((diff a.yu i + tk) / n2) by ring, stripI_scale]; ring
theorem loI1_scale (hk : k ≠ 0) (i : ℕ) : loI1 (kAF k a) (k * tk) i = k ^ 4 * loI1 a tk i := by
  simp only [loI1, diff_kAF_xl, diff_kAF_yl]
  rw [show -(k * diff a.yl i) / (k * diff a.xl i) = -(diff a.yl i) / diff a.xl i by rw [← mul_neg, mul_div_mul_left _ _ hk],
    show (-(k * diff a.yl i) + k * tk) / n2 = k * ((-(diff a.yl i) + tk) / n2) by ring, stripI_scale]
theorem loI2_scale (c : ℝ) (i : ℕ) : loI2 (kAF k a) (k * tk) (k * c) i = k ^ 4 * loI2 a tk c i := by
  simp only [loI2, diff_kAF_xl, addn_kAF_yl]; ring
theorem upQ_scale (c : ℝ) (i : ℕ) : upQ (kAF k a) (k * tk) (k * c) i = k ^ 3 * upQ a tk c i := by
  simp only [upQ, diff_kAF_xu, addn_kAF_yu]; ring

theorem aEnc_eq (a : Airfoil ℝ) (ts tk : ℝ) : aEnc n a ts tk = sumTo n (encT a tk) - (a.yu 0 - a.yl 0) * ts / n2 - (a.yu n - a.yl n) * ts / n2 := rfl
theorem aInt_eq (a : Airfoil ℝ) (ts tk : ℝ) : aInt n a ts tk = sumTo n (intT a tk) - (a.yu 0 - a.yl 0) * ts - (a.yu n - a.yl n) * ts := rfl
theorem pByT_eq (a : Airfoil ℝ) (ts tk : ℝ) :
    pByT n a ts tk = sumTo n (perT a tk) + (a.yu 0 - a.yl 0 - tk) / ts + (a.yu n - a.yl n - tk) / ts := rfl
theorem area_eq (a : Airfoil ℝ) (ts tk : ℝ) : area n a ts tk = sumTo n (upA a tk) + sumTo n (loA a tk)
    + ((a.yu 0 - a.yl 0 - n2 * tk) + (a.yu n - a.yl n - n2 * tk)) * ts := rfl
theorem centroid_eq (a : Airfoil ℝ) (ts tk : ℝ) : Wingbox.centroid n a ts tk = (sumTo n (upM a tk) + sumTo n (loM a tk)
    + (a.yu 0 - a.yl 0 - n2 * tk) * ts * (a.yu 0 + a.yl 0) / n2
    + (a.yu n - a.yl n - n2 * tk) * ts * (a.yu n + a.yl n) / n2) / area n a ts tk := rfl
theorem iHoriz_eq (a : Airfoil ℝ) (ts tk : ℝ) : iHoriz n a ts tk =
    sumTo n (upI a tk (Wingbox.centroid n a ts tk)) + sumTo n (loI1 a tk) + sumTo n (loI2 a tk (Wingbox.centroid n a ts tk))
    + (1 / ((12 : ℕ) : ℝ) * ts * ((a.yu 0 - a.yl 0 - n2 * tk) * (a.yu 0 - a.yl 0 - n2 * tk) * (a.yu 0 - a.yl 0 - n2 * tk))
        + ts * (a.yu 0 - a.yl 0 - n2 * tk) * (((a.yu 0 + a.yl 0) / n2 - Wingbox.centroid n a ts tk) * ((a.yu 0 + a.yl 0) / n2 - Wingbox.centroid n a ts tk)))
    + (1 / ((12 : ℕ) : ℝ) * ts * ((a.yu n - a.yl n - n2 * tk) * (a.yu n - a.yl n - n2 * tk) * (a.yu n - a.yl n - n2 * tk))
        + ts * (a.yu n - a.yl n - n2 * tk) * (((a.yu n + a.yl n) / n2 - Wingbox.centroid n a ts tk) * ((a.yu n + a.yl n) / n2 - Wingbox.centroid n a ts tk))) := rfl
theorem qUpper_eq (a : Airfoil ℝ) (ts tk : ℝ) : qUpper n a ts tk = sumTo n (upQ a tk (Wingbox.centroid n a ts tk))
    + (a.yu 0 - tk - Wingbox.centroid n a ts tk) * (a.yu 0 - tk - Wingbox.centroid n a ts tk) / n2 * ts
    + (a.yu n - tk - Wingbox.centroid n a ts tk) * (a.yu n - tk - Wingbox.centroid n a ts tk) / n2 * ts := rfl

theorem aEnc_scale : aEnc n (kAF k a) (k * ts) (k * tk) = k ^ 2 * aEnc n a ts tk := by
  rw [aEnc_eq, aEnc_eq, sumTo_factor n (k ^ 2) _ _ (encT_scale a k tk)]
  simp only [kAF_yu, kAF_yl]; ring

theorem aInt_scale : aInt n (kAF k a) (k * ts) (k * tk) = k ^ 2 * aInt n a ts tk := by
  rw [aInt_eq, aInt_eq, sumTo_factor n (k ^ 2) _ _ (intT_scale a k tk)]
  simp only [kAF_yu, kAF_yl]; ring

/-- the perimeter-to-thickness ratio is a similarity invariant -/
theorem pByT_scale (hk : 0 < k) : pByT n (kAF k a) (k * ts) (k * tk) = pByT n a ts tk := by
  have hk' := hk.ne'
  rw [pByT_eq, pByT_eq, sumTo_factor n 1 _ _ (perT_scale a k tk hk)]
  simp only [kAF_yu, kAF_yl, one_mul]
  have e1 : (k * a.yu 0 - k * a.yl 0 - k * tk) / (k * ts) = (a.yu 0 - a.yl 0 - tk) / ts := by
    rw [← mul_sub, ← mul_sub, mul_div_mul_left _ _ hk']
  have e2 : (k * a.yu n - k * a.yl n - k * tk) / (k * ts) = (a.yu n - a.yl n - tk) / ts := by
    rw [← mul_sub, ← mul_sub, mul_div_mul_left _ _ hk']
  rw [e1, e2]

theorem torsionJ_scale (hk : 0 < k) : torsionJ n (kAF k a) (k * ts) (k * tk) = k ^ 4 * torsionJ n a ts tk := by
  unfold torsionJ
  rw [aEnc_scale, pByT_scale n a k ts tk hk]; ring

theorem area_scale : area n (kAF k a) (k * ts) (k * tk) = k ^ 2 * area n a ts tk := by
  rw [area_eq, area_eq, sumTo_factor n (k ^ 2) (upA (kAF k a) (k * tk)) _ (upA_scale a k tk),
    sumTo_factor n (k ^ 2) (loA (kAF k a) (k * tk)) _ (loA_scale a k tk)]
  simp only [kAF_yu, kAF_yl]; ring

theorem centroid_scale (hk : k ≠ 0) : Wingbox.centroid n (kAF k a) (k * ts) (k * tk) = k * Wingbox.centroid n a ts tk := by
  rw [centroid_eq, centroid_eq, area_scale, sumTo_factor n (k ^ 3) (upM (kAF k a) (k * tk)) _ (upM_scale a k tk),
    sumTo_factor n (k ^ 3) (loM (kAF k a) (k * tk)) _ (loM_scale a k tk)]
  simp only [kAF_yu, kAF_yl]
  have : ∀ (N D : ℝ), (k ^ 3 * N) / (k ^ 2 * D) = k * (N / D) := by
    intro N D
    have h2 : k ^ 2 ≠ 0 := pow_ne_zero 2 hk
    rw [show k ^ 3 * N = k ^ 2 * (k * N) by ring, mul_div_mul_left _ _ h2, mul_div_assoc]
  rw [← this]; congr 1; ring

theorem iHoriz_scale (hk : k ≠ 0) : iHoriz n (kAF k a) (k * ts) (k * tk) = k ^ 4 * iHoriz n a ts tk := by
  rw [iHoriz_eq, iHoriz_eq, centroid_scale n a k ts tk hk,
    sumTo_factor n (k ^ 4) (upI (kAF k a) (k * tk) _) _ (upI_scale a k tk _ hk),
    sumTo_factor n (k ^ 4) (loI1 (kAF k a) (k * tk)) _ (loI1_scale a k tk hk),
    sumTo_factor n (k ^ 4) (loI2 (kAF k a) (k * tk) _) _ (loI2_scale a k tk _)]
  simp only [kAF_yu, kAF_yl]; ring

theorem qUpper_scale (hk : k ≠ 0) : qUpper n (kAF k a) (k * ts) (k * tk) = k ^ 3 * qUpper n a ts tk := by
  rw [qUpper_eq, qUpper_eq, centroid_scale n a k ts tk hk, sumTo_factor n (k ^ 3) (upQ (kAF k a) (k * tk) _) _ (upQ_scale a k tk _)]
  simp only [kAF_yu]; ring

theorem centroidIvert_scale (hk : k ≠ 0) : centroidIvert n (kAF k a) (k * ts) = k * centroidIvert n a ts := by
  unfold centroidIvert
  simp only [kAF_xu, kAF_yu, kAF_yl]
  have h2 : k ^ 2 ≠ 0 := pow_ne_zero 2 hk
  rw [show (k * a.yu 0 - k * a.yl 0) * (k * ts) * (k * a.xu 0 + k * ts / n2) + (k * a.yu n - k * a.yl n) * (k * ts) * (k * a.xu n - k * ts / n2)
        = k ^ 2 * (k * ((a.yu 0 - a.yl 0) * ts * (a.xu 0 + ts / n2) + (a.yu n - a.yl n) * ts * (a.xu n - ts / n2))) by ring,
      show (k * a.yu 0 - k * a.yl 0 + (k * a.yu n - k * a.yl n)) * (k * ts) = k ^ 2 * (((a.yu 0 - a.yl 0) + (a.yu n - a.yl n)) * ts) by ring,
      mul_div_mul_left _ _ h2, mul_div_assoc]

theorem iVert_scale (hk : k ≠ 0) : iVert n (kAF k a) (k * ts) (k * tk) = k ^ 4 * iVert n a ts tk := by
  unfold iVert
  simp only [centroidIvert_scale n a k ts hk, kAF_xu, kAF_yu, kAF_yl]
  ring

/-- **Geometric similarity of the wingbox section**: all lengths of an element scaled by `k > 0` -/
theorem c15_section_scaling (af : Airfoil ℝ) (tc0 sc c th ts tk tc k : ℝ) (hk : 0 < k) :
    let S := sectionProperties n af tc0 (k * sc) (k * c) th (k * ts) (k * tk) tc
    let S0 := sectionProperties n af tc0 sc c th ts tk tc
    S.A = k ^ 2 * S0.A ∧ S.Aenc = k ^ 2 * S0.Aenc ∧ S.Aint = k ^ 2 * S0.Aint ∧ S.Iy = k ^ 4 * S0.Iy ∧ S.Qz = k ^ 3 * S0.Qz ∧
      S.Iz = k ^ 4 * S0.Iz ∧ S.J = k ^ 4 * S0.J ∧ S.hfront = k * S0.hfront ∧ S.hrear = k * S0.hrear := by
  have hk' := hk.ne'
  simp only [sectionProperties, scaled_kAF af k c tc tc0 sc hk', rotated_kAF]
  refine ⟨area_scale _ _ _ _ _, aEnc_scale _ _ _ _ _, aInt_scale _ _ _ _ _, iVert_scale _ _ _ _ _ hk', qUpper_scale _ _ _ _ _ hk',
    iHoriz_scale _ _ _ _ _ hk', torsionJ_scale _ _ _ _ _ hk, ?_, ?_⟩
  · rw [centroidIvert_scale _ _ _ _ hk']; simp only [kAF_xu]; ring
  · rw [centroidIvert_scale _ _ _ _ hk']; simp only [kAF_xu]; ring

/-- the torsion quantities are computed before the rotation: they do not depend on the element twist -/
theorem c15_torsion_independent_of_twist (af : Airfoil ℝ) (tc0 sc c th th' ts tk tc : ℝ) :
    (sectionProperties n af tc0 sc c th ts tk tc).Aenc = (sectionProperties n af tc0 sc c th' ts tk tc).Aenc ∧
    (sectionProperties n af tc0 sc c th ts tk tc).Aint = (sectionProperties n af tc0 sc c th' ts tk tc).Aint ∧
    (sectionProperties n af tc0 sc c th ts tk tc).J = (sectionProperties n af tc0 sc c th' ts tk tc).J := ⟨rfl, rfl, rfl⟩

/-- **the KS envelope of the heights is conservative and tight**: `max ≤ ksMax ≤ max + ln(n+1)/500` -/
theorem c15_height_envelope_bounds (f : ℕ → ℝ) :
    maxUpTo n f ≤ ksMax n f ∧ ksMax n f ≤ maxUpTo n f + Real.log ((n : ℝ) + 1) / 500 := by
  have hr : (0 : ℝ) < 500 := by norm_num
  have e : ksMax n f = failureKS n 1 500 (fun i => f i + 1) := by
    unfold ksMax failureKS ksRho
    simp only [div_one, add_sub_cancel_right]
    norm_num
  have em : maxUpTo n (fun i => (f i + 1) / 1 - 1) = maxUpTo n f := by
    congr 1; funext i; ring
  have h1 := C15.c15_ks_lower n 1 500 hr (fun i => f i + 1)
  have h2 := C15.c15_ks_upper n 1 500 hr (fun i => f i + 1)
  rw [em] at h1 h2
  rw [e]; exact ⟨h1, h2⟩

/-- hence `htop + centroid` is never below the highest upper-skin point of the rotated section (and `hbottom − centroid` never
below the lowest lower-skin point): the bending stresses are evaluated at a fibre at least as far out as the true extreme -/
theorem c15_htop_conservative (af : Airfoil ℝ) (tc0 sc c th ts tk tc : ℝ) (i : ℕ) (hi : i ≤ n) :
    let a := rotated (scaled af c tc tc0 sc) th
    a.yu i - Wingbox.centroid n a ts tk ≤ (sectionProperties n af tc0 sc c th ts tk tc).htop := by
  intro a
  have h := (c15_height_envelope_bounds n a.yu).1
  have hm := C15.le_maxUpTo a.yu n i hi
  simp only [sectionProperties]
  linarith

end C15Section
end OAS
