import OASProofs.Lemmas.Basic
import OASProofs.Lemmas.Real

/-!
# C17  Performance and flight-condition functionals satisfy their defining identities

Model: `OASModel/Functionals.lean`, `OASModel/AeroFunc.lean` (`coeff`).  Any number of surfaces `ns`.
-/
set_option linter.unusedSectionVars false
set_option linter.unusedSimpArgs false
namespace OAS
namespace C17
open Finset

section field
variable {K : Type} [Field K] [CharZero K]

/-- dynamic pressure `½ ρ v²` -/
def q (rho v : K) : K := 1 / 2 * rho * v ^ 2

theorem dec_half : (dec 1 2 : K) = 1 / 2 := by simp only [dec_def]; push_cast; norm_num

/-- **Aircraft CL, CD are the reference-area-weighted sums of the surface coefficients and
`L = q S CL`, `D = q S CD`.** -/
theorem c17_total_lift_drag (ns : ℕ) (CL CD S : ℕ → K) (rho v Stot : K) (hS : Stot ≠ 0) :
    (totalLiftDrag ns CL CD S rho v Stot).2.2.1 = (∑ s ∈ range ns, CL s * S s) / Stot ∧
    (totalLiftDrag ns CL CD S rho v Stot).2.2.2 = (∑ s ∈ range ns, CD s * S s) / Stot ∧
    (totalLiftDrag ns CL CD S rho v Stot).1 = q rho v * Stot * (totalLiftDrag ns CL CD S rho v Stot).2.2.1 ∧
    (totalLiftDrag ns CL CD S rho v Stot).2.1 = q rho v * Stot * (totalLiftDrag ns CL CD S rho v Stot).2.2.2 := by
  refine ⟨?_, ?_, ?_, ?_⟩ <;> simp only [totalLiftDrag, sumTo_eq_sum, dec_half, q] <;> field_simp

/-- `S_ref_total` is the sum of the surface areas -/
theorem c17_sum_areas (ns : ℕ) (S : ℕ → K) : sumAreas ns S = ∑ s ∈ range ns, S s := by
  simp [sumAreas, sumTo_eq_sum]

/-- **Lift-equals-weight residual is `1 − L/W`** with `L = q S CL` and
`W = (Σ structural mass + fuel + W0) · g · load factor`. -/
theorem c17_equilibrium (ns : ℕ) (sm : ℕ → K) (fb W0 lf CL Stot v rho : K) :
    (equilibrium ns sm fb W0 lf CL Stot v rho).2 = ((∑ s ∈ range ns, sm s) + fb + W0) * (gravConstant * lf) ∧
    (equilibrium ns sm fb W0 lf CL Stot v rho).1
      = 1 - (q rho v * Stot * CL) / (equilibrium ns sm fb W0 lf CL Stot v rho).2 := by
  refine ⟨?_, ?_⟩ <;> simp only [equilibrium, sumTo_eq_sum, dec_half, q] <;> ring

/-- the residual vanishes exactly when lift equals weight -/
theorem c17_equilibrium_zero_iff (ns : ℕ) (sm : ℕ → K) (fb W0 lf CL Stot v rho : K)
    (hW : (equilibrium ns sm fb W0 lf CL Stot v rho).2 ≠ 0) :
    (equilibrium ns sm fb W0 lf CL Stot v rho).1 = 0 ↔
      q rho v * Stot * CL = (equilibrium ns sm fb W0 lf CL Stot v rho).2 := by
  obtain ⟨_, h1⟩ := c17_equilibrium ns sm fb W0 lf CL Stot v rho
  rw [h1, sub_eq_zero, eq_comm, div_eq_one_iff_eq hW]

/-- **Aircraft cg is the mass-weighted mean** of the empty-weight cg and the surfaces' structural
cgs, when `total_weight` is the output of `Equilibrium` (fuel is assumed to sit at the cg). -/
theorem c17_center_of_gravity (ns : ℕ) (sm : ℕ → K) (cgs : ℕ → V3 K) (fb W0 lf : K) (ecg : V3 K)
    (hg : gravConstant * lf ≠ (0 : K)) (hm : W0 + ∑ s ∈ range ns, sm s ≠ 0) :
    (centerOfGravity ns sm cgs (((∑ s ∈ range ns, sm s) + fb + W0) * (gravConstant * lf)) fb W0 lf ecg).x
        * (W0 + ∑ s ∈ range ns, sm s) = W0 * ecg.x + ∑ s ∈ range ns, sm s * (cgs s).x ∧
    (centerOfGravity ns sm cgs (((∑ s ∈ range ns, sm s) + fb + W0) * (gravConstant * lf)) fb W0 lf ecg).y
        * (W0 + ∑ s ∈ range ns, sm s) = W0 * ecg.y + ∑ s ∈ range ns, sm s * (cgs s).y ∧
    (centerOfGravity ns sm cgs (((∑ s ∈ range ns, sm s) + fb + W0) * (gravConstant * lf)) fb W0 lf ecg).z
        * (W0 + ∑ s ∈ range ns, sm s) = W0 * ecg.z + ∑ s ∈ range ns, sm s * (cgs s).z := by
  have hden : ((∑ s ∈ range ns, sm s) + fb + W0) * (gravConstant * lf) / (gravConstant * lf) - fb
      = W0 + ∑ s ∈ range ns, sm s := by
    rw [mul_div_assoc, div_self hg]; ring
  simp only [centerOfGravity, V3.add_x, V3.add_y, V3.add_z, V3.smul_x, V3.smul_y, V3.smul_z, V3.sumTo_x,
    V3.sumTo_y, V3.sumTo_z, hden]
  refine ⟨?_, ?_, ?_⟩ <;> rw [div_mul_cancel₀ _ hm]

/-- `re = ρ v / μ` -/
theorem c17_reynolds (rho v mu : K) : reynolds rho v mu = rho * v / mu := rfl

/-- `CL1 = L / (q S)`, hence `L = q S CL1` -/
theorem c17_coeff (X rho v S : K) (h : q rho v * S ≠ 0) : coeff X rho v S * (q rho v * S) = X := by
  have : (dec 1 2 : K) * rho * (v * v) * S = q rho v * S := by rw [dec_half, q]; ring
  rw [coeff, this, div_mul_cancel₀ _ h]

/-- **CM is the summed moment divided by `q · S_ref · MAC` of the first surface.** -/
theorem c17_cm (s : MomentCoefficient.Surf K) (rest : List (MomentCoefficient.Surf K)) (cg : V3 K) (rho v Stot : K)
    (h : q rho v * Stot * MomentCoefficient.mac s ≠ 0) :
    (MomentCoefficient.cm (s :: rest) cg rho v Stot).x * (q rho v * Stot * MomentCoefficient.mac s)
      = (MomentCoefficient.moment (s :: rest) cg).x ∧
    (MomentCoefficient.cm (s :: rest) cg rho v Stot).y * (q rho v * Stot * MomentCoefficient.mac s)
      = (MomentCoefficient.moment (s :: rest) cg).y ∧
    (MomentCoefficient.cm (s :: rest) cg rho v Stot).z * (q rho v * Stot * MomentCoefficient.mac s)
      = (MomentCoefficient.moment (s :: rest) cg).z := by
  have e : (dec 1 2 : K) * rho * (v * v) * Stot * MomentCoefficient.mac s
      = q rho v * Stot * MomentCoefficient.mac s := by rw [dec_half, q]; ring
  simp only [MomentCoefficient.cm, e]
  refine ⟨?_, ?_, ?_⟩ <;> rw [div_mul_cancel₀ _ h]

/-- the total moment is the sum of the surfaces' moments (the left fold of the Python loop) -/
theorem moment_cons (s : MomentCoefficient.Surf K) (rest : List (MomentCoefficient.Surf K)) (cg : V3 K) :
    MomentCoefficient.moment (s :: rest) cg
      = MomentCoefficient.surfMoment s cg + MomentCoefficient.moment rest cg := by
  have hadd : ∀ a b c : V3 K, a + b + c = a + (b + c) := fun a b c => by ext <;> simp [add_assoc]
  have h0 : ∀ a : V3 K, 0 + a = a := fun a => by ext <;> simp
  have gen : ∀ (l : List (MomentCoefficient.Surf K)) (a : V3 K),
      l.foldl (fun acc s => acc + MomentCoefficient.surfMoment s cg) a
        = a + l.foldl (fun acc s => acc + MomentCoefficient.surfMoment s cg) 0 := by
    intro l
    induction l with
    | nil => intro a; ext <;> simp
    | cons t l ih => intro a; simp only [List.foldl_cons]; rw [ih (a + _), ih (0 + _), h0, hadd]
  unfold MomentCoefficient.moment
  simp only [List.foldl_cons]
  rw [gen, h0]

end field

section real
/-- **Fuel burn follows the Breguet range equation**
`fuelburn = (W0 + Ws) (exp(R·CT/(a·M) · CD/CL) − 1)` and vanishes iff the exponent does. -/
theorem c17_breguet (ns : ℕ) (sm : ℕ → ℝ) (CT CL CD a R M W0 : ℝ) :
    breguetFuelburn ns sm CT CL CD a R M W0
      = (W0 + ∑ s ∈ range ns, sm s) * (Real.exp (R * CT / a / M * CD / CL) - 1) := by
  simp [breguetFuelburn, sumTo_eq_sum]

theorem c17_breguet_zero_iff (ns : ℕ) (sm : ℕ → ℝ) (CT CL CD a R M W0 : ℝ) (hW : W0 + ∑ s ∈ range ns, sm s ≠ 0) :
    breguetFuelburn ns sm CT CL CD a R M W0 = 0 ↔ R * CT / a / M * CD / CL = 0 := by
  rw [c17_breguet, mul_eq_zero, or_iff_right hW, sub_eq_zero, Real.exp_eq_one_iff]

/-- fuel burn is positive for positive weights and a positive exponent -/
theorem c17_breguet_pos (ns : ℕ) (sm : ℕ → ℝ) (CT CL CD a R M W0 : ℝ) (hW : 0 < W0 + ∑ s ∈ range ns, sm s)
    (hx : 0 < R * CT / a / M * CD / CL) : 0 < breguetFuelburn ns sm CT CL CD a R M W0 := by
  rw [c17_breguet]
  have : 1 < Real.exp (R * CT / a / M * CD / CL) := Real.one_lt_exp_iff.mpr hx
  exact mul_pos hW (by linarith)
end real

end C17
end OAS
