import OASProofs.Props.C12
import Mathlib.Topology.MetricSpace.Contracting
import Mathlib.Analysis.Normed.Module.Basic
import Mathlib.Analysis.SpecificLimits.Basic

/-!
# C12 (continued)  Convergence, path independence and the rigid limit of the block Gauss–Seidel iteration

The coupled loop `displacements ↦ struct (aero displacements)` is treated as a map `G` on a complete metric space of states.
*Hypothesis* (the meaning of "a convergent coupling" in the property's quantifier): `G` is a contraction.  Then

* the iteration converges from **every** initial guess – in particular from the state left behind by a previously analysed
  design point – to the **same** state, which is the unique consistent state (`c12_gs_converges_path_independent`);
* a relaxed sweep with any factor `θ ∈ (0, 1]` (Aitken chooses such factors adaptively) is again a contraction with the same
  fixed point when the space is normed (`c12_relaxed_sweep_contracts`);
* for a loop whose loads depend affinely on the displacements, `G u = S (f₀ + A u)`, stiffening the structure by a factor `s`
  (`S ↦ S / s`, cf. `c12_stiffness_scaling`) shrinks the converged displacement at least like `‖S f₀‖ / (s − q)`: it tends to the
  rigid analysis (`c12_rigid_limit`).
-/
set_option linter.unusedSectionVars false
namespace OAS
namespace C12
open Filter Topology

section contraction
variable {X : Type} [MetricSpace X] [CompleteSpace X] [Nonempty X]

/-- **Convergence and path independence**: a contracting Gauss–Seidel sweep has exactly one fixed point (= consistent state,
`c12_bgs_fixed_point_iff_consistent`), and the iterates from any two starting states converge to it -/
theorem c12_gs_converges_path_independent (G : X → X) (K : NNReal) (hG : ContractingWith K G) :
    ∃ x : X, G x = x ∧ (∀ y, G y = y → y = x) ∧ ∀ x0 : X, Tendsto (fun n => G^[n] x0) atTop (𝓝 x) := by
  refine ⟨ContractingWith.fixedPoint G hG, hG.fixedPoint_isFixedPt, ?_, fun x0 => hG.tendsto_iterate_fixedPoint x0⟩
  intro y hy
  exact hG.fixedPoint_unique hy

/-- a priori error bound after `n` sweeps, from the first update alone -/
theorem c12_gs_error_bound (G : X → X) (K : NNReal) (hG : ContractingWith K G) (x0 : X) (n : ℕ) :
    dist (G^[n] x0) (ContractingWith.fixedPoint G hG) ≤ dist x0 (G x0) * (K : ℝ) ^ n / (1 - K) :=
  hG.apriori_dist_iterate_fixedPoint_le x0 n
end contraction

section normed
variable {E : Type} [NormedAddCommGroup E] [NormedSpace ℝ E]

/-- **Relaxation keeps the contraction**: for `θ ∈ (0, 1]` the relaxed sweep `x ↦ x + θ (G x − x)` contracts with constant
`1 − θ (1 − K) < 1` (and has the same fixed points, `c12_relaxation_same_fixed_points`) -/
theorem c12_relaxed_sweep_contracts (G : E → E) (K : NNReal) (hG : ContractingWith K G) (θ : ℝ) (h0 : 0 < θ) (h1 : θ ≤ 1) (x y : E) :
    dist (x + θ • (G x - x)) (y + θ • (G y - y)) ≤ (1 - θ * (1 - K)) * dist x y := by
  have e : (x + θ • (G x - x)) - (y + θ • (G y - y)) = (1 - θ) • (x - y) + θ • (G x - G y) := by
    simp only [smul_sub, sub_smul, one_smul]; abel
  rw [dist_eq_norm, e]
  calc ‖(1 - θ) • (x - y) + θ • (G x - G y)‖ ≤ ‖(1 - θ) • (x - y)‖ + ‖θ • (G x - G y)‖ := norm_add_le _ _
    _ = (1 - θ) * ‖x - y‖ + θ * ‖G x - G y‖ := by
        rw [norm_smul, norm_smul, Real.norm_of_nonneg (by linarith), Real.norm_of_nonneg h0.le]
    _ ≤ (1 - θ) * ‖x - y‖ + θ * (K * ‖x - y‖) := by
        have := hG.dist_le_mul x y
        rw [dist_eq_norm, dist_eq_norm] at this
        gcongr
    _ = (1 - θ * (1 - K)) * dist x y := by rw [dist_eq_norm]; ring

/-- the relaxed constant is below one -/
theorem c12_relaxed_constant_lt_one (K : NNReal) (hK : K < 1) (θ : ℝ) (h0 : 0 < θ) : 1 - θ * (1 - (K : ℝ)) < 1 := by
  have : (0 : ℝ) < 1 - K := by
    have : (K : ℝ) < 1 := by exact_mod_cast hK
    linarith
  nlinarith

/-- **Rigid limit**: if the converged displacement satisfies `u = (1/s) (c + L u)` with `‖L u‖ ≤ q ‖u‖` (loads affine in the
displacements, structure stiffened by `s > q`), then `‖u‖ ≤ ‖c‖ / (s − q)` – it vanishes as `s → ∞` -/
theorem c12_rigid_limit (c u : E) (L : E → E) (q s : ℝ) (hq : 0 ≤ q) (hs : q < s) (hL : ‖L u‖ ≤ q * ‖u‖)
    (hfix : u = (1 / s) • (c + L u)) : ‖u‖ ≤ ‖c‖ / (s - q) := by
  have hs0 : 0 < s := lt_of_le_of_lt hq hs
  have h1 : ‖u‖ ≤ (1 / s) * (‖c‖ + q * ‖u‖) := by
    calc ‖u‖ = ‖(1 / s) • (c + L u)‖ := by rw [← hfix]
      _ = (1 / s) * ‖c + L u‖ := by rw [norm_smul, Real.norm_of_nonneg (by positivity)]
      _ ≤ (1 / s) * (‖c‖ + q * ‖u‖) := by
          gcongr
          exact (norm_add_le _ _).trans (by linarith)
  have h2 : s * ‖u‖ ≤ ‖c‖ + q * ‖u‖ := by
    have := mul_le_mul_of_nonneg_left h1 hs0.le
    rwa [← mul_assoc, mul_one_div_cancel hs0.ne', one_mul] at this
  rw [le_div_iff₀ (by linarith)]
  nlinarith

/-- … and the bound tends to zero as the stiffness factor grows -/
theorem c12_rigid_limit_tendsto (c : E) (q : ℝ) : Tendsto (fun s : ℝ => ‖c‖ / (s - q)) atTop (𝓝 0) := by
  have h : Tendsto (fun s : ℝ => s - q) atTop atTop := tendsto_atTop_add_const_right _ _ tendsto_id
  exact h.const_div_atTop ‖c‖
end normed

/-- non-vacuity: `x ↦ x / 2 + 1` on ℝ is a contraction (constant `1/2`) whose unique fixed point is `2` -/
example : ContractingWith (1 / 2 : NNReal) (fun x : ℝ => x / 2 + 1) ∧ (fun x : ℝ => x / 2 + 1) 2 = 2 := by
  refine ⟨⟨by norm_num, ?_⟩, by norm_num⟩
  apply LipschitzWith.of_dist_le_mul
  intro x y
  simp only [Real.dist_eq, NNReal.coe_div, NNReal.coe_one, NNReal.coe_ofNat]
  rw [show x / 2 + 1 - (y / 2 + 1) = (x - y) / 2 by ring, abs_div]
  norm_num
  linarith [abs_nonneg (x - y)]

end C12
end OAS
