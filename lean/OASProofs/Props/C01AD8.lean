import OASProofs.Props.C01AD5
import OASProofs.Props.C01AD6

/-!
# C01 (continued)  Exactness of the derivative oracle: the whole `MomentCoefficient.compute`

`C01AD5` proves exactness for the mean aerodynamic chord and the moment of one surface.  Here the loop over the surface list
(`moment`, a left fold) and the normalisation `CM = M / (½ ρ v² S_ref_total · MAC_wing)` are composed: the dual-number evaluation of
the model of the whole component is the derivative of its real-number instantiation w.r.t. every input of every surface, `cg`, `rho`,
`v` and `S_ref_total`, for any number of surfaces.
-/
set_option linter.unusedSectionVars false
set_option linter.unusedSimpArgs false
set_option linter.unusedTactic false
set_option linter.unreachableTactic false
namespace OAS
namespace C01AD
open AD MomentCoefficient

variable {t : ℝ}

theorem TracksV.add' {a b : V3 (Dual ℝ)} {f g : ℝ → V3 ℝ} (ha : TracksV a f t) (hb : TracksV b g t) :
    TracksV (a + b) (fun s => f s + g s) t :=
  ⟨ha.x.add hb.x, ha.y.add hb.y, ha.z.add hb.z⟩

/-- the left fold over the surface list, from any tracked accumulator -/
theorem momentFold_exact {cg : V3 (Dual ℝ)} {fcg : ℝ → V3 ℝ} (hcg : TracksV cg fcg t) :
    ∀ (as : List (Surf (Dual ℝ))) (fs : List (ℝ → Surf ℝ)), List.Forall₂ (fun a f => TracksMC a f t) as fs →
    ∀ (acc : V3 (Dual ℝ)) (facc : ℝ → V3 ℝ), TracksV acc facc t →
      TracksV (as.foldl (fun acc s => acc + surfMoment s cg) acc)
        (fun s => (fs.map (fun f => f s)).foldl (fun acc x => acc + surfMoment x (fcg s)) (facc s)) t
  | [], [], _, acc, facc, h => h
  | a :: as, f :: fs, hl, acc, facc, h => by
    cases hl with
    | cons haf hrest =>
      simp only [List.foldl_cons, List.map_cons]
      exact momentFold_exact hcg as fs hrest (acc + surfMoment a cg) (fun s => facc s + surfMoment (f s) (fcg s))
        (TracksV.add' h (surfMoment_exact haf hcg))

/-- `M`, the total moment about the reference point, for any list of surfaces -/
theorem moment_exact {cg : V3 (Dual ℝ)} {fcg : ℝ → V3 ℝ} (hcg : TracksV cg fcg t) (as : List (Surf (Dual ℝ)))
    (fs : List (ℝ → Surf ℝ)) (hl : List.Forall₂ (fun a f => TracksMC a f t) as fs) :
    TracksV (moment as cg) (fun s => moment (fs.map (fun f => f s)) (fcg s)) t := by
  unfold moment
  exact momentFold_exact hcg as fs hl 0 (fun _ => 0) ⟨Tracks.zero, Tracks.zero, Tracks.zero⟩

/-- **`MomentCoefficient.compute`**: `CM` w.r.t. everything, at least one surface, non-zero dynamic pressure, reference area and
mean aerodynamic chord -/
theorem cm_exact {cg : V3 (Dual ℝ)} {fcg : ℝ → V3 ℝ} (hcg : TracksV cg fcg t) (a : Surf (Dual ℝ)) (f : ℝ → Surf ℝ)
    (as : List (Surf (Dual ℝ))) (fs : List (ℝ → Surf ℝ)) (ha : TracksMC a f t)
    (hl : List.Forall₂ (fun a f => TracksMC a f t) as fs) {rho v S : Dual ℝ} {fr fv fS : ℝ → ℝ}
    (hr : Tracks rho fr t) (hv : Tracks v fv t) (hS : Tracks S fS t) (hS0 : (f t).sRef ≠ 0)
    (hq : dec 1 2 * fr t * (fv t * fv t) * fS t * mac (f t) ≠ 0) :
    TracksV (cm (a :: as) cg rho v S) (fun s => cm ((f :: fs).map (fun g => g s)) (fcg s) (fr s) (fv s) (fS s)) t := by
  have hM := moment_exact hcg (a :: as) (f :: fs) (List.Forall₂.cons ha hl)
  have hmac := mac_exact ha hS0
  have hq' : Tracks (dec 1 2 * rho * (v * v) * S * mac a) (fun s => dec 1 2 * fr s * (fv s * fv s) * fS s * mac (f s)) t := by
    track
  simp only [cm, List.map_cons]
  exact ⟨hM.x.div hq' hq, hM.y.div hq' hq, hM.z.div hq' hq⟩

end C01AD
end OAS

/-! ### the whole `EvalVelMtx` entry: ground images, symmetric fold, right-wing flip, wake direction from `alpha` -/
namespace OAS
namespace C01AD
open AD VLM

variable {t : ℝ}

/-- all kernel branches of ring `(i, j)` of the lattice starting at row `r0` are on their regular side -/
structure RingOK (u : V3 ℝ) (vm : Mesh ℝ) (r0 : ℕ) (p : V3 ℝ) (i j : ℕ) : Prop where
  hAB : SegOK (p - vm (r0 + i) (j + 1)) (p - vm (r0 + i) j)
  hBC : SegOK (p - vm (r0 + i) j) (p - vm (r0 + (i + 1)) j)
  hCD : SegOK (p - vm (r0 + (i + 1)) j) (p - vm (r0 + (i + 1)) (j + 1))
  hDA : SegOK (p - vm (r0 + (i + 1)) (j + 1)) (p - vm (r0 + i) (j + 1))
  hDC : SegOK (p - vm (r0 + (i + 1)) (j + 1)) (p - vm (r0 + (i + 1)) j)
  hD : LegOK u (p - vm (r0 + (i + 1)) (j + 1))
  hC : LegOK u (p - vm (r0 + (i + 1)) j)

theorem latticeVel_exact' (nx : ℕ) {u : V3 (Dual ℝ)} {fu : ℝ → V3 ℝ} {vm : Mesh (Dual ℝ)} {fvm : ℝ → Mesh ℝ} (r0 : ℕ)
    {p : V3 (Dual ℝ)} {fp : ℝ → V3 ℝ} (hu : TracksV u fu t) (hvm : ∀ i j, TracksV (vm i j) (fun s => fvm s i j) t)
    (hp : TracksV p fp t) (i j : ℕ) (h : RingOK (fu t) (fvm t) r0 (fp t) i j) :
    TracksV (latticeVel nx u vm r0 p i j) (fun s => latticeVel nx (fu s) (fvm s) r0 (fp s) i j) t :=
  latticeVel_exact nx r0 hu hvm hp i j h.hAB h.hBC h.hCD h.hDA h.hDC h.hD h.hC

/-- wake direction w.r.t. the angle of attack -/
theorem wakeDir_exact {a : Dual ℝ} {fa : ℝ → ℝ} (ha : Tracks a fa t) : TracksV (wakeDir a) (fun s => wakeDir (fa s)) t := by
  have h180 : ((180 : ℕ) : ℝ) ≠ 0 := by norm_num
  refine ⟨?_, ?_, ?_⟩ <;> simp only [wakeDir, deg2rad] <;> track

section
variable (nx ny : ℕ) (sym left ground : Bool) (m : Mesh (Dual ℝ)) (fm : ℝ → Mesh ℝ)
variable {u : V3 (Dual ℝ)} {fu : ℝ → V3 ℝ} {vm : Mesh (Dual ℝ)} {fvm : ℝ → Mesh ℝ} {p : V3 (Dual ℝ)} {fp : ℝ → V3 ℝ}

/-- ring minus its ground image (the image lattice occupies rows `nx …` of the vortex mesh) -/
theorem velRaw_exact (hu : TracksV u fu t) (hvm : ∀ i j, TracksV (vm i j) (fun s => fvm s i j) t) (hp : TracksV p fp t) (i j : ℕ)
    (h0 : RingOK (fu t) (fvm t) 0 (fp t) i j) (h1 : ground = true → RingOK (fu t) (fvm t) nx (fp t) i j) :
    TracksV (velRaw ⟨nx, ny, sym, left, ground, m⟩ u vm p i j)
      (fun s => velRaw ⟨nx, ny, sym, left, ground, fm s⟩ (fu s) (fvm s) (fp s) i j) t := by
  have hA := latticeVel_exact' nx 0 hu hvm hp i j h0
  cases ground
  · simpa only [velRaw, Bool.false_eq_true, if_false] using hA
  · have hB := latticeVel_exact' nx nx hu hvm hp i j (h1 rfl)
    simpa only [velRaw, if_true] using tvSub hA hB

/-- **one entry `vel_mtx[p, i, j, :]` of `EvalVelMtx.compute`** w.r.t. `alpha`, the evaluation point and the whole vortex mesh:
ground images, the symmetric fold `res[:ny−1] + res[ny−1:][::−1]` and the right-wing flip included, for every surface size -/
theorem velMtx_exact {a : Dual ℝ} {fa : ℝ → ℝ} (ha : Tracks a fa t) (hvm : ∀ i j, TracksV (vm i j) (fun s => fvm s i j) t)
    (hp : TracksV p fp t) (i j : ℕ)
    (hok : ∀ r0 jj, RingOK (wakeDir (fa t)) (fvm t) r0 (fp t) i jj) :
    TracksV (velMtx ⟨nx, ny, sym, left, ground, m⟩ a vm p i j)
      (fun s => velMtx ⟨nx, ny, sym, left, ground, fm s⟩ (fa s) (fvm s) (fp s) i j) t := by
  have hu := wakeDir_exact ha
  have hR : ∀ jj, TracksV (velRaw ⟨nx, ny, sym, left, ground, m⟩ (wakeDir a) vm p i jj)
      (fun s => velRaw ⟨nx, ny, sym, left, ground, fm s⟩ (wakeDir (fa s)) (fvm s) (fp s) i jj) t :=
    fun jj => velRaw_exact nx ny sym left ground m fm hu hvm hp i jj (hok 0 jj) (fun _ => hok nx jj)
  cases sym
  · simpa only [velMtx, Bool.false_eq_true, if_false] using hR j
  · simp only [velMtx, if_true]
    exact tvAdd (hR _) (hR _)
end

end C01AD
end OAS
