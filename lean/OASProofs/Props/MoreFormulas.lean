import OASProofs.Lemmas.Basic
import OASProofs.Lemmas.Real
import OASProofs.Generated.Formulas

/-!
# Translated formulas = model: LiftDrag, Reynolds number, centre of gravity, structural-weight loads, `g`

Continuation of `C15Formulas` … `C11Formulas` for statements of `lift_drag.py` (the summands of the two `np.sum`), `reynolds_comp.py`,
`center_of_gravity.py`, `wing_weight_loads.py` and the module-level constant `grav_constant` of `utils/constants.py`.
-/
set_option linter.unusedSectionVars false
set_option linter.unusedSimpArgs false
namespace OAS
namespace Formulas
open Generated

theorem dec_eq'' (a b : ℕ) : (dec a b : ℝ) = (a : ℝ) / (b : ℝ) := rfl

/-- the acceleration of gravity of the code is the one of the model (C16) -/
theorem c16_grav_constant : (F.const_grav : ℝ) = gravConstant := rfl

/-- **`LiftDrag.compute`** (C06, C04): lift and drag are the sums of the code's two summands over all panels, at the code's `alpha`,
`beta` in radians, doubled for a symmetric surface -/
theorem c06_lift_drag (n : ℕ) (sym : Bool) (alpha beta : ℝ) (Fp : ℕ → V3 ℝ) :
    liftDrag n sym alpha beta Fp =
      let a := F.ld_alpha alpha; let b := F.ld_alpha beta
      let L := sumTo n (fun k => F.ld_L_term (Fp k).x (Real.sin a) (Fp k).z (Real.cos a))
      let D := sumTo n (fun k => F.ld_D_term (Fp k).x (Real.cos a) (Real.cos b) (Fp k).y (Real.sin b) (Fp k).z (Real.sin a))
      if sym then (L * ((2 : ℕ) : ℝ), D * ((2 : ℕ) : ℝ)) else (L, D) := by
  have ha : ∀ x : ℝ, deg2rad x = F.ld_alpha x := by
    intro x; simp only [deg2rad, F.ld_alpha, dec_eq'', elem_pi]; norm_num
  simp only [liftDrag, ha, F.ld_L_term, F.ld_D_term, elem_sin, elem_cos]

/-- `ReynoldsComp.compute` (C17) -/
theorem c17_reynolds (rho v mu : ℝ) : reynolds rho v mu = F.re_re rho v mu := rfl

/-- `CenterOfGravity.compute` (C17): each component of the centre of gravity is the code's quotient with the code's `g` -/
theorem c17_center_of_gravity (ns : ℕ) (sm : ℕ → ℝ) (cgs : ℕ → V3 ℝ) (tw fb W0 lf : ℝ) (ecg : V3 ℝ) :
    let g := F.cg_g (F.const_grav : ℝ) lf
    let spar := V3.sumTo ns (fun s => V3.smul (sm s) (cgs s))
    (centerOfGravity ns sm cgs tw fb W0 lf ecg).x = F.cg_cg (W0 * ecg.x) spar.x tw g fb ∧
    (centerOfGravity ns sm cgs tw fb W0 lf ecg).y = F.cg_cg (W0 * ecg.y) spar.y tw g fb ∧
    (centerOfGravity ns sm cgs tw fb W0 lf ecg).z = F.cg_cg (W0 * ecg.z) spar.z tw g fb := by
  simp only [centerOfGravity, F.cg_cg, F.cg_g, c16_grav_constant, V3.add_x, V3.add_y, V3.add_z, V3.smul_x, V3.smul_y, V3.smul_z]
  exact ⟨trivial, trivial, trivial⟩

theorem sqrt_eq_rpow_half' (x : ℝ) : Real.sqrt x = x ^ (dec 5 10 : ℝ) := by
  rw [Real.sqrt_eq_rpow]; congr 1; simp only [dec_eq'']; norm_num

/-- **`StructureWeightLoads.compute`** (C16): the element weights, the nodal half weights and the two consistent end moments of the
model are the code's `struct_weights`, `z_forces_for_each`, `z_moments_for_each`, `bm3`, `bm4` -/
theorem c16_struct_weight_loads (ny : ℕ) (nodes : Pts ℝ) (em : ℕ → ℝ) (lf : ℝ) :
    structWeightLoads ny nodes em lf =
      let W := fun e => F.swl_weights (em e) lf (F.const_grav : ℝ)
      let zm := fun e => F.swl_zm (W e) (elemDelta nodes e).x (elemDelta nodes e).y
      distributedLoads ny (fun e => F.swl_zf (W e))
        (fun e => F.swl_bm3 (zm e) (elemDelta nodes e).y (elemLength nodes e))
        (fun e => F.swl_bm4 (zm e) (elemDelta nodes e).x (elemLength nodes e)) := by
  have h2 : (dec 20 10 : ℝ) = ((2 : ℕ) : ℝ) := by simp only [dec_eq'']; norm_num
  have h12 : (dec 120 10 : ℝ) = ((12 : ℕ) : ℝ) := by simp only [dec_eq'']; norm_num
  simp only [structWeightLoads, F.swl_weights, F.swl_zm, F.swl_zf, F.swl_bm3, F.swl_bm4, c16_grav_constant, h2, h12, elem_sqrt, elem_rpow,
    sqrt_eq_rpow_half']

end Formulas
end OAS
