import OASProofs.Props.C04System
import OASProofs.Props.C07
import OASProofs.Props.C07System

/-!
# C04 (continued)  The right-half model solves the same full-span problem

A symmetric wing may be described by its left half (tip first, root last) or by its right half (root first).  The
right-half description `rightOf s` of the wing whose left half is `s` has the same extended lattice; its panel `j` is
the mirror image of panel `ny − 2 − j` of the left-half model.  Hence: circulations solve the right-half system iff the
spanwise-reversed circulations solve the left-half system, and therefore (by `c04_half_solution_solves_full`) their
symmetric extension solves the full-span system.
-/
set_option linter.unusedSectionVars false
set_option linter.unusedSimpArgs false
namespace OAS
namespace C04
open VLM Finset C07

/-- spanwise reversal of the panel index of a single surface with `ny` nodes -/
def flipIdx (ny m : ℕ) : ℕ := (m / (ny - 1)) * (ny - 1) + (ny - 2 - m % (ny - 1))

theorem flipIdx_at (ny i j : ℕ) (hj : j < ny - 1) : flipIdx ny (i * (ny - 1) + j) = i * (ny - 1) + (ny - 2 - j) := by
  obtain ⟨h1, h2⟩ := div_mod_of_lt i j (ny - 1) hj
  simp only [flipIdx, h1, h2]

theorem velRaw_congr (s : Surf ℝ) (hg : s.ground = false) (u : V3 ℝ) (vm vm' : Mesh ℝ) (p : V3 ℝ) (i jj : ℕ)
    (h : ∀ r c, (r = i ∨ r = i + 1) → (c = jj ∨ c = jj + 1) → vm r c = vm' r c) :
    velRaw s u vm p i jj = velRaw s u vm' p i jj := by
  simp only [velRaw, hg, Bool.false_eq_true, if_false, latticeVel, ring, trailing, Nat.zero_add]
  rw [h i (jj + 1) (Or.inl rfl) (Or.inr rfl), h i jj (Or.inl rfl) (Or.inl rfl), h (i + 1) jj (Or.inr rfl) (Or.inl rfl),
    h (i + 1) (jj + 1) (Or.inr rfl) (Or.inr rfl)]

/-- the ring meshes of the two descriptions coincide (on the `2 ny − 1` columns that exist) -/
theorem vortexMesh_right (s : Surf ℝ) (h : Half s) (a hh : ℝ) (r c : ℕ) (hc : c ≤ 2 * s.ny - 2) :
    vortexMesh (rightOf s) a hh r c = vortexMesh s a hh r c := by
  have hg : (rightOf s).ground = false := h.ground
  have key : ∀ r c, c ≤ 2 * s.ny - 2 → extMesh (rightOf s) r c = extMesh s r c :=
    fun r c hc => c07_ext_left_right s h.sym h.left (by have := h.ny; omega) h.root r c hc
  simp only [vortexMesh, hg, h.ground, Bool.false_eq_true, if_false]
  have e : (rightOf s).nx = s.nx := rfl
  simp only [shiftQuarter, e]
  split_ifs
  · rw [key r c hc, key (r + 1) c hc]
  · exact key r c hc

/-- **the influence of panel `j'` of the right-half model at the mirror image of a point is the mirror image of the
influence of panel `ny − 2 − j'` of the left-half model at the point** -/
theorem velMtx_right_mirror (s : Surf ℝ) (h : Half s) (f : Flow ℝ) (p : V3 ℝ) (i j : ℕ) (hj : j < s.ny - 1) :
    velMtx (rightOf s) f.alpha (vortexMesh (rightOf s) (deg2rad f.alpha) f.h) (mirrorY p) i j
      = mirrorY (velMtx s f.alpha (vortexMesh s (deg2rad f.alpha) f.h) p i (s.ny - 2 - j)) := by
  have hny := h.ny
  rw [c07_left_right_aero s h.sym h.left hny f.alpha _ (mirrorY p) i j (by omega)]
  rw [c04_fold s h.sym, c04_fold s h.sym]
  simp only [h.left, if_true]
  -- replace the right model's ring mesh by the left model's, ring by ring
  have hcg : ∀ jj, jj + 1 ≤ 2 * s.ny - 2 →
      velRaw s (wakeDir f.alpha) (vortexMesh (rightOf s) (deg2rad f.alpha) f.h) (mirrorY p) i jj
        = velRaw s (wakeDir f.alpha) (vortexMesh s (deg2rad f.alpha) f.h) (mirrorY p) i jj := by
    intro jj hjj
    apply velRaw_congr s h.ground
    intro r c _ hc
    exact vortexMesh_right s h _ _ r c (by rcases hc with rfl | rfl <;> omega)
  rw [hcg _ (by omega), hcg _ (by omega)]
  rw [c04_mirror_rows s h.sym h.ground hny h.root f.alpha _ _ p i _ (by omega),
    c04_mirror_rows s h.sym h.ground hny h.root f.alpha _ _ p i _ (by omega), ← mirrorY_add]
  have e1 : 2 * s.ny - 3 - (s.ny - 2 - j) = s.ny - 1 + j := by omega
  have e2 : 2 * s.ny - 3 - (2 * s.ny - 3 - (s.ny - 2 - j)) = s.ny - 2 - j := by omega
  rw [e2, V3.add_comm']

theorem collPt_right (s : Surf ℝ) (i j : ℕ) (hj : j < s.ny - 1) :
    collPt (rightOf s) i j = mirrorY (collPt s i (s.ny - 2 - j)) := by
  have := c07_coll_pt_mirror s (s.ny - 1) i j (by omega)
  have e : s.ny - 1 - 1 - j = s.ny - 2 - j := by omega
  rw [e] at this; exact this

theorem normal_right (s : Surf ℝ) (i j : ℕ) (hj : j < s.ny - 1) :
    normal (rightOf s) i j = mirrorY (normal s i (s.ny - 2 - j)) := by
  have h1 : normal (rightOf s) i (s.ny - 2 - (s.ny - 2 - j)) = mirrorY (normal s i (s.ny - 2 - j)) :=
    normal_mir s i (s.ny - 2 - j) (by omega)
  have e : s.ny - 2 - (s.ny - 2 - j) = j := by omega
  rw [e] at h1
  exact h1

theorem locate_right (s : Surf ℝ) (i j : ℕ) (hi : i < s.nx - 1) (hj : j < s.ny - 1) :
    locate [rightOf s] (i * (s.ny - 1) + j) = some (rightOf s, i, j) :=
  locate_single (rightOf s) i j hi hj

/-- **Circulations that solve the right-half system, reversed spanwise, solve the left-half system** (zero sideslip, no
rotation rates) -/
theorem c04_right_solves_left (s : Surf ℝ) (h : Half s) (f : Flow ℝ) (hb : f.beta = 0) (hr : f.rotational = false)
    (gamma : ℕ → ℝ) (hs : Solves [rightOf s] f gamma) :
    Solves [s] f (fun m => gamma (flipIdx s.ny m)) := by
  have hny := h.ny
  intro m hm
  rw [totalPanels_single] at hm
  have hb0 : 0 < s.ny - 1 := by omega
  set i := m / (s.ny - 1) with hi_def
  set j := m % (s.ny - 1) with hj_def
  have hmeq : m = i * (s.ny - 1) + j := by rw [hi_def, hj_def, Nat.mul_comm]; exact (Nat.div_add_mod m _).symm
  have hj : j < s.ny - 1 := Nat.mod_lt _ hb0
  have hi : i < s.nx - 1 := by rw [hi_def]; exact Nat.div_lt_of_lt_mul (by rw [Nat.mul_comm]; exact hm)
  have hjf : s.ny - 2 - j < s.ny - 1 := by omega
  have hlocL := locate_single s i j hi hj
  rw [← hmeq] at hlocL
  -- the corresponding row of the right-half system
  have hlocR := locate_right s i (s.ny - 2 - j) hi hjf
  have hrow := hs (i * (s.ny - 1) + (s.ny - 2 - j)) (by
    have := (locate_isSome_iff [rightOf s] (i * (s.ny - 1) + (s.ny - 2 - j))).1 (by rw [hlocR]; rfl); exact this)
  rw [row_eq [rightOf s] f gamma _ (rightOf s) i _ hlocR] at hrow
  simp only [rhs, hlocR] at hrow
  rw [row_eq [s] f _ m s i j hlocL]
  simp only [rhs, hlocL]
  have e : s.ny - 2 - (s.ny - 2 - j) = j := by omega
  rw [collPt_right s i _ hjf, normal_right s i _ hjf, e] at hrow
  -- induced velocities: right model at the mirrored point = mirror of the left model with reversed circulations
  have hind : indVel [rightOf s] f gamma (mirrorY (collPt s i j))
      = mirrorY (indVel [s] f (fun m => gamma (flipIdx s.ny m)) (collPt s i j)) := by
    rw [indVel_single, indVel_single, V3.sumTo_mirror]
    have enx : (rightOf s).nx = s.nx := rfl
    have eny : (rightOf s).ny = s.ny := rfl
    simp only [enx, eny]
    apply V3.sumTo_congr
    intro i' _
    rw [V3.sumTo_mirror, ← V3.sumTo_reflect (s.ny - 1) (fun k => mirrorY _)]
    apply V3.sumTo_congr
    intro j' hj'
    have hj2 : s.ny - 1 - 1 - j' < s.ny - 1 := by omega
    have e3 : s.ny - 1 - 1 - j' = s.ny - 2 - j' := by omega
    have e4 : s.ny - 2 - (s.ny - 2 - j') = j' := by omega
    rw [velMtx_right_mirror s h f _ i' j' hj', mirrorY_smul, flipIdx_at s.ny i' _ hj2, e3, e4]
  rw [hind, dot_mirrorY] at hrow
  rw [hrow]
  simp only [onset, hr, Bool.false_eq_true, if_false]
  rw [← freestream_mirror f hb, dot_mirrorY, freestream_mirror f hb]

/-- **… hence their symmetric extension solves the full-span system**: the right-half description of a symmetric wing
is equivalent to the full-span model as well. -/
theorem c04_right_half_solution_solves_full (s : Surf ℝ) (h : Half s) (f : Flow ℝ) (hb : f.beta = 0)
    (hr : f.rotational = false) (gamma : ℕ → ℝ) (hs : Solves [rightOf s] f gamma) :
    Solves [fullOf s] f (gammaExt s (fun m => gamma (flipIdx s.ny m))) :=
  c04_half_solution_solves_full s h f hb hr _ (c04_right_solves_left s h f hb hr gamma hs)

end C04
end OAS
