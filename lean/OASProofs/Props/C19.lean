import OASProofs.Lemmas.Kernel
import OASProofs.Lemmas.Perm

/-!
# C19  Composition of surfaces and wrappers does not change the physics

Model: `OASModel/PG.lean` (`Mux`: `mphys/utils.py`, `demux_surface_mesh.py`, `mux_surface_forces.py`) and
`OASModel/VLM.lean` (global panel numbering of a surface list).
-/
set_option linter.unusedSectionVars false
set_option linter.unusedSimpArgs false
namespace OAS
namespace C19
open Finset

/-! ### (de)multiplexers are exact inverse permutations -/

/-- size of surface `s` (0 beyond the list) -/
def sizeOf (sz : List ℕ) (s : ℕ) : ℕ := sz.getD s 0

theorem locate_offset : ∀ (sz : List ℕ) (s k : ℕ), s < sz.length → k < sizeOf sz s →
    Mux.locate sz (Mux.offset sz s + k) = some (s, k)
  | [], s, k, hs, _ => by simp at hs
  | n :: rest, 0, k, _, hk => by
      simp [sizeOf] at hk
      simp [Mux.locate, Mux.offset, hk]
  | n :: rest, s + 1, k, hs, hk => by
      have hs' : s < rest.length := by simpa using hs
      have hk' : k < sizeOf rest s := by simpa [sizeOf] using hk
      have ih := locate_offset rest s k hs' hk'
      have h1 : ¬ (n + Mux.offset rest s + k < n) := by omega
      have h2 : n + Mux.offset rest s + k - n = Mux.offset rest s + k := by omega
      simp [Mux.locate, Mux.offset, h1, h2, ih]

theorem locate_some : ∀ (sz : List ℕ) (g : ℕ), g < Mux.total sz →
    ∃ s k, Mux.locate sz g = some (s, k) ∧ s < sz.length ∧ k < sizeOf sz s ∧ Mux.offset sz s + k = g
  | [], g, hg => by simp [Mux.total] at hg
  | n :: rest, g, hg => by
      by_cases h : g < n
      · exact ⟨0, g, by simp [Mux.locate, h], by simp, by simpa [sizeOf] using h, by simp [Mux.offset]⟩
      · have hg' : g - n < Mux.total rest := by
          simp [Mux.total] at hg ⊢; omega
        obtain ⟨s, k, h1, h2, h3, h4⟩ := locate_some rest (g - n) hg'
        refine ⟨s + 1, k, by simp [Mux.locate, h, h1], by simpa using h2, by simpa [sizeOf] using h3, ?_⟩
        simp [Mux.offset]; omega

/-- **demux ∘ mux = id**: every surface gets back exactly its own array -/
theorem c19_demux_mux (sz : List ℕ) (parts : ℕ → ℕ → ℝ) (s k : ℕ) (hs : s < sz.length) (hk : k < sizeOf sz s) :
    Mux.demux sz (Mux.mux sz parts) s k = parts s k := by
  simp [Mux.demux, Mux.mux, locate_offset sz s k hs hk]

/-- **mux ∘ demux = id** on the flat array -/
theorem c19_mux_demux (sz : List ℕ) (flat : ℕ → ℝ) (g : ℕ) (hg : g < Mux.total sz) :
    Mux.mux sz (Mux.demux sz flat) g = flat g := by
  obtain ⟨s, k, h1, _, _, h4⟩ := locate_some sz g hg
  simp [Mux.mux, Mux.demux, h1, h4]

/-- the index map `(s, k) ↦ offset s + k` is injective: no two entries share a slot of the flat array -/
theorem c19_indices_injective (sz : List ℕ) (s k s' k' : ℕ) (hs : s < sz.length) (hk : k < sizeOf sz s)
    (hs' : s' < sz.length) (hk' : k' < sizeOf sz s') (h : Mux.offset sz s + k = Mux.offset sz s' + k') :
    s = s' ∧ k = k' := by
  have h1 := locate_offset sz s k hs hk
  have h2 := locate_offset sz s' k' hs' hk'
  rw [h] at h1
  rw [h1] at h2
  simpa using h2

/-- **adjoint consistency of the matrix-free products** (`compute_jacvec_product` fwd / rev):
`⟨demux v, w⟩ = ⟨v, mux w⟩`, the reverse-mode product of the demultiplexer is the multiplexer and vice
versa (single surface block; the general case is the sum over the surfaces) -/
theorem c19_adjoint_block (n off : ℕ) (v : ℕ → ℝ) (w : ℕ → ℝ) :
    ∑ k ∈ range n, v (off + k) * w k = ∑ g ∈ Finset.Ico off (off + n), v g * w (g - off) := by
  rw [Finset.sum_Ico_eq_sum_range]
  simp

/-! ### global panel numbering of a surface list -/
open VLM

/-- the first surface occupies the first `npanels` unknowns, the remaining ones follow with the same
numbering they would have on their own: blocks of the assembled system are attached to surfaces, not to
positions in the list -/
theorem c19_locate_head (s : Surf ℝ) (rest : List (Surf ℝ)) (m : ℕ) (h : m < s.npanels) :
    locate (s :: rest) m = some (s, m / (s.ny - 1), m % (s.ny - 1)) := by
  simp [locate, h]

theorem c19_locate_tail (s : Surf ℝ) (rest : List (Surf ℝ)) (m : ℕ) :
    locate (s :: rest) (s.npanels + m) = locate rest m := by
  simp [locate]

/-- total number of unknowns is independent of the order of the surfaces -/
theorem c19_total_perm (l l' : List (Surf ℝ)) (h : l.Perm l') : totalPanels l = totalPanels l' := by
  unfold totalPanels
  exact (h.map _).sum_eq

/-- **Splitting a lattice at a spanwise column yields the same rings**: ring `(i, j)` of the part that
starts at column `c0` is ring `(i, c0 + j)` of the whole lattice (same corner points, same induced velocity). -/
theorem c19_split_ring (vm : Mesh ℝ) (c0 : ℕ) (p : V3 ℝ) (i j : ℕ) :
    ring (fun a b => vm a (c0 + b)) p i j = ring vm p i (c0 + j) := by
  simp [ring, Nat.add_assoc]

theorem c19_split_lattice (nx : ℕ) (u : V3 ℝ) (vm : Mesh ℝ) (c0 : ℕ) (p : V3 ℝ) (i j : ℕ) :
    latticeVel nx u (fun a b => vm a (c0 + b)) 0 p i j = latticeVel nx u vm 0 p i (c0 + j) := by
  simp [latticeVel, ring, trailing, Nat.add_assoc]

/-! ### the order of the surfaces is a re-numbering of the unknowns, nothing else -/

/-- the linear system of the surface list `l` (any number and sizes of surfaces): `Σₙ mtx[m,n] Γₙ = rhs[m]` -/
def Solves (l : List (Surf ℝ)) (f : Flow ℝ) (gamma : ℕ → ℝ) : Prop :=
  ∀ m, m < totalPanels l → ∑ n ∈ range (totalPanels l), aic l f m n * gamma n = rhs l f m

/-- **Results do not depend on the order in which the surfaces are listed.**  For every permutation `l'` of the
surface list `l` there is a bijection `σ` (inverse `τ`) of the global panel indices such that panel `σ m` of `l'`
is the same panel `(surface, i, j)` as panel `m` of `l`, and, in that numbering: the influence matrices and the
right-hand sides agree entry by entry; circulations solve one system iff the re-numbered circulations solve the
other; and every panel of every surface receives the same force (ground effect, symmetry flags, rotation rates
and sideslip all allowed). -/
theorem c19_order_independent {l l' : List (Surf ℝ)} (hp : l.Perm l') (f : Flow ℝ) :
    ∃ σ τ : ℕ → ℕ, (∀ m, τ (σ m) = m) ∧ (∀ m, σ (τ m) = m) ∧
      (∀ m, locate l' (σ m) = locate l m) ∧
      (∀ m n, aic l' f (σ m) (σ n) = aic l f m n) ∧
      (∀ m, rhs l' f (σ m) = rhs l f m) ∧
      (∀ gamma, Solves l f gamma → Solves l' f (fun k => gamma (τ k))) ∧
      (∀ gamma m, panelForce l' f (fun k => gamma (τ k)) (σ m) = panelForce l f gamma m) := by
  obtain ⟨σ, τ, h⟩ := renum_of_perm hp
  refine ⟨σ, τ, h.left, h.right, h.loc, h.aic_eq f, h.rhs_eq f, ?_, h.panelForce_eq f⟩
  intro gamma hs m' hm'
  rw [h.total] at hm' ⊢
  have hm : τ m' < totalPanels l := by
    have := h.lt_iff (τ m'); rw [h.right] at this; exact this.1 hm'
  have e := hs (τ m') hm
  rw [← h.rhs_eq f, h.right] at e
  rw [← e, ← h.sum_eq (fun n => aic l' f m' n * gamma (τ n))]
  apply Finset.sum_congr rfl
  intro n _
  simp only [h.left]
  rw [← h.aic_eq f (τ m') n, h.right]

/-- instance: exchanging two surfaces -/
theorem c19_swap_two (a b : Surf ℝ) (f : Flow ℝ) (gamma : ℕ → ℝ) (hs : Solves [a, b] f gamma) :
    ∃ σ τ : ℕ → ℕ, Solves [b, a] f (fun k => gamma (τ k)) ∧
      ∀ m, panelForce [b, a] f (fun k => gamma (τ k)) (σ m) = panelForce [a, b] f gamma m := by
  obtain ⟨σ, τ, _, _, _, _, _, h6, h7⟩ := c19_order_independent (List.Perm.swap b a []) f
  exact ⟨σ, τ, h6 gamma hs, h7 gamma⟩

end C19
end OAS
