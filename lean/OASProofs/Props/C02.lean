import OASProofs.Props.C10
import OASProofs.Props.C19
import Mathlib.LinearAlgebra.Matrix.NonsingularInverse

/-!
# C02  Coupled total derivatives: forward = reverse, independent of the (exact) linear solver

What is proved here is the linear-algebra content the code relies on; the assembly of totals by OpenMDAO
is outside the model and is tied by the oracle of every run (fwd vs rev vs finite differences, three
linear solvers, live problems whose stiffness changes between linearisations).
-/
set_option linter.unusedSectionVars false
namespace OAS
namespace C02
open FEM Finset Matrix

theorem permInv_lt : (List.range 12).all (fun j => decide (permInv j < 12)) = true := by decide

theorem permInv_lt' (j : ℕ) (hj : j < 12) : permInv j < 12 := by
  have := permInv_lt
  rw [List.all_eq_true] at this
  simpa using this j (List.mem_range.mpr hj)

/-- the element matrix that enters the global stiffness (`Tᵀ (Pᵀ K_loc P) T`) is symmetric -/
theorem c02_element_chain_symmetric (E G : ℝ) (nodes : Pts ℝ) (A Iy Iz J : ℕ → ℝ) (e a b : ℕ) (ha : a < 12) (hb : b < 12) :
    elementK E G nodes A Iy Iz J e a b = elementK E G nodes A Iy Iz J e b a := by
  unfold elementK
  apply C10.transformed_symmetric
  intro l m hl hm
  exact C10.permuted_symmetric _ (fun r c hr hc => C10.c10_element_symmetric _ _ _ _ _ _ _ r c hr hc) l m
    (permInv_lt' l hl) (permInv_lt' m hm)

/-- **The matrix factorised by `FEM.solve_nonlinear` is symmetric for every number of nodes** (element
scatter plus the `1e9` clamp rows and columns), so the reverse-mode solve of `FEM.solve_linear`, which
re-uses the *untransposed* factorisation, solves the transposed system. -/
theorem c02_fem_K_symmetric (ny idx : ℕ) (E G : ℝ) (nodes : Pts ℝ) (A Iy Iz J : ℕ → ℝ) (r c : ℕ) :
    assembleK ny idx (elementK E G nodes A Iy Iz J) r c = assembleK ny idx (elementK E G nodes A Iy Iz J) c r :=
  C10.c10_assembled_symmetric ny idx _ (fun e a b ha hb => c02_element_chain_symmetric E G nodes A Iy Iz J e a b ha hb) r c

variable {n : Type} [Fintype n] [DecidableEq n]

/-- for a symmetric invertible matrix the inverse is symmetric: solving with `K` *is* solving with `Kᵀ` -/
theorem c02_symmetric_inverse (K : Matrix n n ℝ) (hs : Kᵀ = K) : (K⁻¹)ᵀ = K⁻¹ := by
  rw [Matrix.transpose_nonsing_inv, hs]

/-- **Forward and reverse accumulation give the same total derivative**: with state Jacobian `A`,
`gᵀ (A⁻¹ b) = ((Aᵀ)⁻¹ g)ᵀ b` — one forward solve per input or one adjoint solve per output. -/
theorem c02_ude_fwd_eq_rev (A : Matrix n n ℝ) (g b : n → ℝ) :
    g ⬝ᵥ (A⁻¹ *ᵥ b) = ((Aᵀ)⁻¹ *ᵥ g) ⬝ᵥ b := by
  rw [← Matrix.transpose_nonsing_inv, Matrix.dotProduct_mulVec, Matrix.mulVec_transpose]

/-- the `trans = 0 / 1` solves of `SolveMatrix` form such a forward/adjoint pair -/
theorem c02_solveMatrix_adjoint (A : Matrix n n ℝ) (g b : n → ℝ) :
    g ⬝ᵥ (A⁻¹ *ᵥ b) = b ⬝ᵥ ((A⁻¹)ᵀ *ᵥ g) := by
  rw [Matrix.dotProduct_mulVec, Matrix.mulVec_transpose, dotProduct_comm]

/-- **Independence of the linear solver**: an invertible system has exactly one solution, so every exact
solver (direct, block Gauss–Seidel or Krylov at convergence) returns the same derivative -/
theorem c02_solver_independent (A : Matrix n n ℝ) (hA : IsUnit A.det) (x y b : n → ℝ)
    (hx : A *ᵥ x = b) (hy : A *ᵥ y = b) : x = y := by
  have h : A *ᵥ x = A *ᵥ y := by rw [hx, hy]
  have := congrArg (fun v => A⁻¹ *ᵥ v) h
  simpa [Matrix.mulVec_mulVec, Matrix.nonsing_inv_mul A hA] using this

end C02
end OAS
