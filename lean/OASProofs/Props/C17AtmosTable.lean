import OASProofs.Props.C17Akima
import OASProofs.Props.C17Atmos
namespace OAS.C17AtmosTable
open OAS OAS.Akima OAS.Generated OAS.C17Atmos OAS.C17Akima

/-- altitude of a generated row as a real number (the table stores `altitude + 1000 ft` as a decimal fraction) -/
noncomputable def altOf (r : AtmosRow) : ℝ := (r.altM : ℝ) / (10 : ℝ) ^ r.altE - 1000

/-- the altitude column of the regenerated table as the abscissae of the interpolant -/
noncomputable def altColumn (k : ℕ) : ℝ := altOf (atmosTable.getD k ⟨0, 0, 0, 0, 0, 0, 0, 0, 0, 0⟩)

theorem decLt_real {xm xe ym ye : ℕ} (h : decLt xm xe ym ye = true) : (xm : ℝ) / (10 : ℝ) ^ xe < (ym : ℝ) / (10 : ℝ) ^ ye := by
  have h' : xm * 10 ^ ye < ym * 10 ^ xe := by simpa [decLt] using h
  have hr : (xm : ℝ) * (10 : ℝ) ^ ye < (ym : ℝ) * (10 : ℝ) ^ xe := by exact_mod_cast h'
  rw [div_lt_div_iff₀ (by positivity) (by positivity)]
  exact hr

theorem chain_adjacent (d : AtmosRow) : ∀ (l : List AtmosRow), chainOK l = true → ∀ k, k + 1 < l.length →
    altOf (l.getD k d) < altOf (l.getD (k + 1) d)
  | [], _, k, hk => by simp at hk
  | [_], _, k, hk => by simp at hk
  | a :: b :: rest, h, k, hk => by
    have h' : orderedPair a b = true ∧ chainOK (b :: rest) = true := by simpa [chainOK] using h
    cases k with
    | zero =>
      have : decLt a.altM a.altE b.altM b.altE = true := by
        have := h'.1; simp only [orderedPair, Bool.and_eq_true] at this; exact this.1.1
      simpa [altOf] using decLt_real this
    | succ k =>
      have := chain_adjacent d (b :: rest) h'.2 k (by simpa using hk)
      simpa using this

/-- **C17** the altitude column of the table regenerated from the source is strictly increasing: the hypothesis of the
interpolation, continuity and derivative theorems holds for the table the code interpolates -/
theorem c17_alt_column_increasing : Increasing atmosTable.length altColumn := by
  have adj : ∀ k, k + 1 < atmosTable.length → altColumn k < altColumn (k + 1) :=
    fun k hk => chain_adjacent _ atmosTable c17_atmos_ordered k hk
  intro a b hab hb
  induction b with
  | zero => omega
  | succ b ih =>
    rcases Nat.lt_or_ge a b with h | h
    · exact lt_trans (ih h (by omega)) (adj b hb)
    · have : a = b := by omega
      subst this; exact adj a hb

end OAS.C17AtmosTable
