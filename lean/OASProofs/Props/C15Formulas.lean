import OASProofs.Lemmas.Basic
import OASProofs.Lemmas.Real
import OASProofs.Generated.Formulas

/-!
# Translated formulas = model

`OASProofs/Generated/Formulas.lean` is produced on every run by the expression translator of `harness/generate.py`
from the *current* source of the `compute()` methods (one definition per assignment statement).  The theorems below
show that the model definitions the property theorems are about are built from exactly those expressions – so a
change of any of these formulas in the code breaks a proof obligation here, independently of the sampled
correspondence.  Proved over ℝ by ring normalisation: a harmless re-association or re-ordering in the source keeps
them true.
-/
set_option linter.unusedSectionVars false
set_option linter.unusedSimpArgs false
namespace OAS
namespace Formulas
open Generated

theorem dec_eq (a b : ℕ) : (dec a b : ℝ) = (a : ℝ) / (b : ℝ) := rfl

/-! ### C15: exact failure -/

theorem failureExact_eq (vm sigma : ℝ) : F.failureExact vm sigma = failureExact sigma vm := by
  simp only [F.failureExact, failureExact]; norm_num

end Formulas
end OAS
