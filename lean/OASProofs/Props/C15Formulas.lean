import OASProofs.Lemmas.Basic
import OASProofs.Lemmas.Real
import OASProofs.Generated.Formulas
import OASProofs.Lemmas.StressCore

/-!
# Translated formulas = model

`OASProofs/Generated/Formulas.lean` is produced on every run by the expression translator of `harness/generate.py`
from the *current* source of the `compute()` methods (one definition per assignment statement).  The theorems below
show that the model definitions the property theorems are about are built from exactly those expressions – so a
change of any of these formulas in the code breaks a proof obligation here, independently of the sampled
correspondence.  Proved over ℝ by ring normalisation: a harmless re-association or re-ordering in the source keeps
them true.
-/
set_option linter.unusedSectionVars false
set_option linter.unusedSimpArgs false
namespace OAS
namespace Formulas
open Generated

theorem dec_eq (a b : ℕ) : (dec a b : ℝ) = (a : ℝ) / (b : ℝ) := rfl

/-! ### C15: exact failure -/

theorem failureExact_eq (vm sigma : ℝ) : F.failureExact vm sigma = failureExact sigma vm := by
  simp only [F.failureExact, failureExact]; norm_num

/-- `SectionPropertiesTube`: the four section properties are the code's four lines applied to the code's `r1`, `r2` -/
theorem tube_section (r th : ℝ) :
    sectionPropertiesTube r th
      = (F.tube_A Real.pi r (F.tube_r1 r th), F.tube_Iy Real.pi r (F.tube_r1 r th), F.tube_Iz Real.pi r (F.tube_r1 r th),
         F.tube_J Real.pi r (F.tube_r1 r th)) := by
  simp only [sectionPropertiesTube, F.tube_A, F.tube_Iy, F.tube_Iz, F.tube_J, F.tube_r1, dec_eq, elem_pi, Prod.mk.injEq]
  refine ⟨?_, ?_, ?_, ?_⟩ <;> first | rfl | (norm_num; ring) | ring | norm_num

theorem nonIntersecting (th r : ℝ) : F.nit th r = nonIntersectingThickness th r := rfl

/-- **`VonMisesTube`**: the scalar tail of the stress recovery (what `vonMisesTube` applies to the displacements transformed
by the element frame, `vonMisesTube_core`) is the code's `tmp`, `sxx0`, `sxx1`, `sxt` and the two `vonmises` lines -/
theorem tube_stress_lines (E G L rad : ℝ) (u0 r0 u1 r1 : V3 ℝ) :
    C01AD.tubeCore E G L rad u0 r0 u1 r1
      = (F.vmt_vm0 (F.vmt_sxx0 E u1.x u0.x L rad (F.vmt_tmp r1.y r0.y r1.z r0.z)) (F.vmt_sxt G rad r1.x r0.x L),
         F.vmt_vm1 (F.vmt_sxx1 E u0.x u1.x L rad (F.vmt_tmp r1.y r0.y r1.z r0.z)) (F.vmt_sxt G rad r1.x r0.x L)) := by
  simp only [C01AD.tubeCore, F.vmt_vm0, F.vmt_vm1, F.vmt_sxx0, F.vmt_sxx1, F.vmt_sxt, F.vmt_tmp]

/-- **`VonMisesWingbox`**: the four stresses are the code's four `vonmises` lines applied to its axial, torsion, four bending
and vertical-shear lines -/
theorem wingbox_stress_lines (E G tssf L : ℝ) (s : WingboxSec ℝ) (u0 r0 u1 r1 : V3 ℝ) :
    C01AD.wingboxCore E G tssf L s u0 r0 u1 r1
      = (F.vmw_vm0 (F.vmw_top E L u0.y r0.z u1.y r1.z s.htop) (F.vmw_rear E L u0.z r0.y u1.z r1.y s.hrear) (F.vmw_axial E u1.x u0.x L)
            (F.vmw_torsion G s.J L r1.x r0.x s.tspar s.Aenc) tssf,
         F.vmw_vm1 (F.vmw_bottom E L u0.y r0.z u1.y r1.z s.hbottom) (F.vmw_front E L u0.z r0.y u1.z r1.y s.hfront) (F.vmw_axial E u1.x u0.x L)
            (F.vmw_torsion G s.J L r1.x r0.x s.tspar s.Aenc),
         F.vmw_vm2 (F.vmw_front E L u0.z r0.y u1.z r1.y s.hfront) (F.vmw_axial E u1.x u0.x L) (F.vmw_torsion G s.J L r1.x r0.x s.tspar s.Aenc)
            (F.vmw_vshear E L u0.y r0.z u1.y r1.z s.Qz s.tspar),
         F.vmw_vm3 (F.vmw_rear E L u0.z r0.y u1.z r1.y s.hrear) (F.vmw_axial E u1.x u0.x L) (F.vmw_torsion G s.J L r1.x r0.x s.tspar s.Aenc)
            (F.vmw_vshear E L u0.y r0.z u1.y r1.z s.Qz s.tspar) tssf) := by
  simp only [C01AD.wingboxCore, C01AD.wingboxRad, F.vmw_vm0, F.vmw_vm1, F.vmw_vm2, F.vmw_vm3, F.vmw_top, F.vmw_bottom, F.vmw_front,
    F.vmw_rear, F.vmw_axial, F.vmw_torsion, F.vmw_vshear]

end Formulas
end OAS
