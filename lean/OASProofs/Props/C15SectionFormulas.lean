import OASProofs.Props.C15Section
import OASProofs.Props.C15Formulas
import Mathlib.Analysis.Calculus.Deriv.Mul

/-!
# Translated formulas = model, wingbox section (continuation of `C15Formulas`)

Every assignment statement of `SectionPropertiesWingbox.compute` that is straight-line arithmetic (47 statements, including the
augmented ones `A_enc += …`, `I_vert += …`) is translated on every run into `Generated/Formulas.lean` (`wb_*`); array reductions
(`np.sum(…, axis=0)`, `np.max`) are parameters of the translated expressions.  The theorems show that the model of
`OASModel/Wingbox.lean` is exactly those expressions, composed, with the model's sums in the place of the reductions.  Also
`WingboxGeometry` (`wbg_*`), `WingboxFuelVol`, `SparWithinWing`, and the two hand-derived partials of `RadiusComp`.
-/
set_option linter.unusedSectionVars false
set_option linter.unusedSimpArgs false
namespace OAS
namespace Formulas
open Generated Wingbox C15Section

variable (n : ℕ) (a : Airfoil ℝ) (ts tk : ℝ)

theorem h1012 : (dec 10 10 : ℝ) / dec 120 10 = 1 / ((12 : ℕ) : ℝ) := by simp only [dec_eq]; norm_num
theorem h103 : (dec 10 10 : ℝ) / dec 30 10 = 1 / ((3 : ℕ) : ℝ) := by simp only [dec_eq]; norm_num
theorem h102 : (dec 10 10 : ℝ) / dec 20 10 = 1 / ((2 : ℕ) : ℝ) := by simp only [dec_eq]; norm_num

/-- chord and `t/c` scaling of the airfoil ordinates -/
theorem wb_scaled (af : Airfoil ℝ) (c tc tc0 sc : ℝ) (i : ℕ) :
    (scaled af c tc tc0 sc).yu i = af.yu i * c * F.wb_scale_y tc tc0 sc c ∧
    (scaled af c tc tc0 sc).yl i = af.yl i * c * F.wb_scale_y tc tc0 sc c := ⟨rfl, rfl⟩

/-- rotation by the element twist (`rot_mat = [[cos, sin], [−sin, cos]]`) -/
theorem wb_rotated (th : ℝ) (i : ℕ) :
    (rotated a th).xu i = F.wb_rot_x (Real.cos th) (a.xu i) (Real.sin th) (a.yu i) ∧
    (rotated a th).yu i = F.wb_rot_y (-Real.sin th) (a.xu i) (Real.cos th) (a.yu i) ∧
    (rotated a th).xl i = F.wb_rot_x (Real.cos th) (a.xl i) (Real.sin th) (a.yl i) ∧
    (rotated a th).yl i = F.wb_rot_y (-Real.sin th) (a.xl i) (Real.cos th) (a.yl i) := ⟨rfl, rfl, rfl, rfl⟩

/-- enclosed area -/
theorem wb_aEnc : aEnc n a ts tk =
    sumTo n (fun i => F.wb_A_enc_up (diff a.xu i) (addn a.yu i) tk + F.wb_A_enc_low (diff a.xl i) (addn a.yl i) tk)
      - F.wb_A_enc_spar0 (a.yu 0) (a.yl 0) ts - F.wb_A_enc_spar1 (a.yu n) (a.yl n) ts := rfl

/-- internal (fuel) area -/
theorem wb_aInt : aInt n a ts tk =
    sumTo n (fun i => F.wb_A_int_up (diff a.xu i) (addn a.yu i) tk + F.wb_A_int_low (diff a.xl i) (addn a.yl i) tk)
      - F.wb_A_int_spar0 (a.yu 0) (a.yl 0) ts - F.wb_A_int_spar1 (a.yu n) (a.yl n) ts := rfl

theorem sqrt_eq_rpow_half (x : ℝ) : Real.sqrt x = x ^ (dec 5 10 : ℝ) := by
  rw [Real.sqrt_eq_rpow]; congr 1; simp only [dec_eq]; norm_num

/-- perimeter over thickness (`(…) ** 0.5` of the code is the model's square root) -/
theorem wb_pByT : pByT n a ts tk =
    sumTo n (fun i => F.wb_p_by_t_1 (diff a.xu i) (diff a.yu i) tk + F.wb_p_by_t_2 (diff a.xl i) (diff a.yl i) tk)
      + F.wb_p_by_t_spar0 (a.yu 0) (a.yl 0) tk ts + F.wb_p_by_t_spar1 (a.yu n) (a.yl n) tk ts := by
  simp only [pByT, F.wb_p_by_t_1, F.wb_p_by_t_2, F.wb_p_by_t_spar0, F.wb_p_by_t_spar1, elem_sqrt, elem_rpow, sqrt_eq_rpow_half]

/-- torsion constant -/
theorem wb_torsionJ : torsionJ n a ts tk = F.wb_J (aEnc n a ts tk) (pByT n a ts tk) := rfl

/-- material area -/
theorem wb_area' : area n a ts tk =
    F.wb_area (sumTo n (fun i => F.wb_upper_area tk (diff a.xu i))) (sumTo n (fun i => F.wb_lower_area tk (diff a.xl i)))
      (F.wb_area_spars (a.yu 0) (a.yl 0) tk (a.yu n) (a.yl n) ts) := rfl

/-- centroid -/
theorem wb_centroid' : Wingbox.centroid n a ts tk =
    F.wb_centroid (sumTo n (fun i => F.wb_fma_upper (addn a.yu i) tk (diff a.xu i)))
      (sumTo n (fun i => F.wb_fma_lower (addn a.yl i) tk (diff a.xl i)))
      (F.wb_fma_front_spar (a.yu 0) (a.yl 0) tk ts) (F.wb_fma_rear_spar (a.yu n) (a.yl n) tk ts) (area n a ts tk) := rfl

/-- the strip formula (`1.0 / 12.0` etc. of the code are the model's `1/12`, `1/3`, `1/2`) -/
theorem wb_stripI (s b x : ℝ) : stripI s b x = F.wb_I_horiz_1 s x b := by
  simp only [stripI, F.wb_I_horiz_1, h1012, h103, h102, n2]

/-- second moment of area for upward bending: upper skin, lower skin, both spars -/
theorem wb_iHoriz : iHoriz n a ts tk =
    sumTo n (fun i => F.wb_I_horiz_1 (F.wb_a_up (diff a.yu i) (diff a.xu i)) (diff a.xu i) (F.wb_b_up (diff a.yu i) tk)
        + F.wb_I_horiz_2 (diff a.xu i) tk (addn a.yu i) (Wingbox.centroid n a ts tk))
      + sumTo n (fun i => F.wb_I_horiz_1 (F.wb_a_low (diff a.yl i) (diff a.xl i)) (diff a.xl i) (F.wb_b_low (diff a.yl i) tk))
      + sumTo n (fun i => loI2 a tk (Wingbox.centroid n a ts tk) i)
      + F.wb_I_horiz_front ts (a.yu 0) (a.yl 0) tk (Wingbox.centroid n a ts tk)
      + F.wb_I_horiz_rear ts (a.yu n) (a.yl n) tk (Wingbox.centroid n a ts tk) := by
  simp only [iHoriz, wb_stripI, F.wb_a_up, F.wb_b_up, F.wb_a_low, F.wb_b_low, F.wb_I_horiz_2, F.wb_I_horiz_front, F.wb_I_horiz_rear,
    h1012, n2, loI2]

/-- the spar contributions to `Qz` -/
theorem wb_qUpper : qUpper n a ts tk = sumTo n (upQ a tk (Wingbox.centroid n a ts tk))
    + F.wb_Q_spar0 (a.yu 0) tk (Wingbox.centroid n a ts tk) ts + F.wb_Q_spar1 (a.yu n) tk (Wingbox.centroid n a ts tk) ts := rfl

/-- chordwise centroid of the spars -/
theorem wb_centroidIvert : centroidIvert n a ts =
    F.wb_centroid_Ivert (F.wb_fma_front (a.yu 0) (a.yl 0) ts (a.xu 0)) (F.wb_fma_rear (a.yu n) (a.yl n) ts (a.xu n))
      (a.yu 0) (a.yl 0) (a.yu n) (a.yl n) ts := rfl

/-- second moment of area for backward bending: `I_vert = 0`, then the three `+=` -/
theorem wb_iVert : iVert n a ts tk =
    0 + F.wb_I_vert_front (a.yu 0) (a.yl 0) ts (centroidIvert n a ts) (a.xu 0)
      + F.wb_I_vert_rear (a.yu n) (a.yl n) ts (a.xu n) (centroidIvert n a ts)
      + F.wb_I_vert_skins tk (a.xu n) (a.xu 0) ts (centroidIvert n a ts) := by
  simp only [iVert, F.wb_I_vert_front, F.wb_I_vert_rear, F.wb_I_vert_skins, h1012, n2]

/-- the four distances to the outer fibres -/
theorem wb_heights (af : Airfoil ℝ) (tc0 sc c th tc : ℝ) :
    let r := rotated (scaled af c tc tc0 sc) th
    let S := sectionProperties n af tc0 sc c th ts tk tc
    S.htop = F.wb_htop (maxUpTo n r.yu) ksRho (sumTo (n + 1) (fun i => Real.exp (ksRho * (r.yu i - maxUpTo n r.yu)))) (Wingbox.centroid n r ts tk) ∧
    S.hbottom = F.wb_hbottom (maxUpTo n (fun i => -r.yl i)) ksRho
        (sumTo (n + 1) (fun i => Real.exp (ksRho * (-r.yl i - maxUpTo n (fun i => -r.yl i))))) (Wingbox.centroid n r ts tk) ∧
    S.hfront = F.wb_hfront (centroidIvert n r ts) (r.xu 0) ∧ S.hrear = F.wb_hrear (r.xu n) (centroidIvert n r ts) := by
  simp only [sectionProperties, ksMax, F.wb_htop, F.wb_hbottom, F.wb_hfront, F.wb_hrear, elem_log, elem_exp, Nat.cast_one]
  exact ⟨trivial, trivial, trivial, trivial⟩

/-! ### WingboxGeometry, fuel volume, spar-within-wing, radii -/

theorem wbg_shearCentre (af : Airfoil ℝ) : shearCentre n af = F.wbg_w (af.xu 0) (af.yu 0) (af.yl 0) (af.xu n) (af.yu n) (af.yl n) := rfl

theorem wbg_streamwiseChord (nx : ℕ) (m : Mesh ℝ) (j : ℕ) :
    streamwiseChord nx m j = F.wbg_streamwise (chordLen nx m j) (chordLen nx m (j + 1)) := rfl

theorem wbg_femTwist (nx : ℕ) (af : Airfoil ℝ) (m : Mesh ℝ) (e : ℕ) :
    femTwist nx n af m e = F.wbg_fem_twist (twistAngle (m (nx - 1) e - m 0 e)) (twistAngle (m (nx - 1) (e + 1) - m 0 (e + 1)))
      (streamwiseChord nx m e) (femChord nx n af m e) := rfl

theorem wb_fuelVol (nodes : Pts ℝ) (A : ℕ → ℝ) (e : ℕ) :
    fuelVol nodes A e = F.fuelvol_vols (V3.norm (nodes (e + 1) - nodes e)) (A e) := rfl

theorem wb_sparWithinWing (nx : ℕ) (m : Mesh ℝ) (r tc : ℕ → ℝ) (j : ℕ) :
    sparWithinWing nx m r tc j = F.spar_within (r j) (radii nx m tc j) := rfl

/-- **`RadiusComp.compute_partials`, `∂radius/∂t_over_c`**: the hand-derived `dr_dtoc = 0.25 (c_j + c_{j+1})` of the code is the
derivative of the model radius w.r.t. its own `t/c` -/
theorem c01_radius_dtoc (nx : ℕ) (m : Mesh ℝ) (tc : ℕ → ℝ) (j : ℕ) :
    HasDerivAt (fun x => radii nx m (Function.update tc j x) j) (F.rad_dr_dtoc (chordLen nx m j) (chordLen nx m (j + 1))) (tc j) := by
  have e : (fun x => radii nx m (Function.update tc j x) j) = fun x => x * (streamwiseChord nx m j * dec 5 10) := by
    funext x; simp only [radii, Function.update_self]; ring
  rw [e]
  have h := (hasDerivAt_id (tc j)).mul_const (streamwiseChord nx m j * dec 5 10)
  refine h.congr_deriv ?_
  simp only [streamwiseChord, F.rad_dr_dtoc, dec_eq]; ring

/-- … and `dr_dchords = 0.25 t_c` is the derivative w.r.t. either of the two chord lengths -/
theorem c01_radius_dchord (tc c0 c1 : ℝ) :
    HasDerivAt (fun x => tc * (dec 5 10 * x + dec 5 10 * c1) * dec 5 10) (F.rad_dr_dchords tc) c0 ∧
    HasDerivAt (fun x => tc * (dec 5 10 * c0 + dec 5 10 * x) * dec 5 10) (F.rad_dr_dchords tc) c1 := by
  constructor
  · have h := ((((hasDerivAt_id c0).const_mul (dec 5 10 : ℝ)).add_const (dec 5 10 * c1)).const_mul tc).mul_const (dec 5 10 : ℝ)
    refine h.congr_deriv ?_
    simp only [F.rad_dr_dchords, dec_eq]; ring
  · have h := ((((hasDerivAt_id c1).const_mul (dec 5 10 : ℝ)).const_add (dec 5 10 * c0)).const_mul tc).mul_const (dec 5 10 : ℝ)
    refine h.congr_deriv ?_
    simp only [F.rad_dr_dchords, dec_eq]; ring

end Formulas
end OAS
