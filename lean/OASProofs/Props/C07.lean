import OASProofs.Lemmas.Kernel
import OASProofs.Props.C04
import OASProofs.Props.C13

/-!
# C07  Mirror-image configurations give mirror-image results

Model: `OASModel/VLM.lean`, `OASModel/Geometry.lean`.
-/
set_option linter.unusedSectionVars false
set_option linter.unusedSimpArgs false
namespace OAS
namespace C07
open VLM Geo

/-- **Full-span mirror equivariance of the aerodynamic influence**: for the mirrored configuration
(meshes reflected about `y = 0` with reversed spanwise node order) the velocity induced at the mirrored
point by ring `j` is the mirror image of what ring `C−1−j` of the original lattice induces at the original
point — rings, trailing-edge segment and wake legs included. -/
theorem c07_lattice_mirror (nx C : ℕ) (alpha : ℝ) (vm : Mesh ℝ) (p : V3 ℝ) (i j : ℕ) (hj : j + 1 ≤ C) :
    latticeVel nx (wakeDir alpha) (mirrorLattice C vm) 0 (mirrorY p) i j
      = mirrorY (latticeVel nx (wakeDir alpha) vm 0 p i (C - 1 - j)) :=
  latticeVel_mirror nx C (wakeDir alpha) rfl vm p i j hj

/-- the quarter-chord shift (ring mesh construction) commutes with mirroring -/
theorem c07_vortex_mesh_mirror (nx C : ℕ) (m : Mesh ℝ) :
    shiftQuarter nx (mirrorLattice C m) = mirrorLattice C (shiftQuarter nx m) :=
  C04.shiftQuarter_mirror nx C m

/-- collocation points of the mirrored mesh are the mirror images of the collocation points of the
mirror-image panels -/
theorem c07_coll_pt_mirror (s : Surf ℝ) (C i j : ℕ) (hj : j + 1 ≤ C) :
    collPt { s with mesh := mirrorLattice C s.mesh } i j = mirrorY (collPt s i (C - 1 - j)) := by
  have e1 : C - (j + 1) = C - 1 - j := by omega
  have e2 : C - j = C - 1 - j + 1 := by omega
  ext <;> simp [collPt, mirrorLattice, e1, e2] <;> ring

/-- the onset flow of the mirrored flow condition (`β, p, r, cg_y` with opposite signs) at the mirrored
point is the mirror image of the original onset flow -/
theorem c07_onset_mirror (f : Flow ℝ) (c : V3 ℝ) :
    onset { f with beta := -f.beta, omega := ⟨-f.omega.x, f.omega.y, -f.omega.z⟩, cg := mirrorY f.cg } (mirrorY c)
      = mirrorY (onset f c) := by
  unfold onset freestreamDir
  cases f.rotational <;> ext <;> simp [deg2rad, neg_mul, neg_div, Real.sin_neg, Real.cos_neg, V3.cross] <;> ring

/-! ### left-half vs right-half symmetric models -/

/-- the right-half description of a wing: the left half mirrored, root first -/
noncomputable def rightOf (s : Surf ℝ) : Surf ℝ :=
  { s with left := false, mesh := mirrorLattice (s.ny - 1) s.mesh }

/-- **The extended (ghost + real) lattices of the left-half and of the right-half model of the same wing
coincide column by column**, so the two models solve the same full-span problem (the `right_wing` flip in
`EvalVelMtx` only renumbers the unknowns). -/
theorem c07_ext_left_right (s : Surf ℝ) (hs : s.sym = true) (hl : s.left = true) (hny : 1 ≤ s.ny)
    (hroot : C04.RootOnPlane s) (i c : ℕ) (hc : c ≤ 2 * s.ny - 2) :
    extMesh (rightOf s) i c = extMesh s i c := by
  have hm := C04.c04_ghost_is_mirror s hs hny hroot i c hc
  rw [hm]
  unfold rightOf extMesh mirrorLattice
  simp only [hs, hl, if_true, Bool.false_eq_true, if_false]
  rcases Nat.lt_trichotomy c (s.ny - 1) with h | h | h
  · have h2 : ¬ (2 * s.ny - 2 - c < s.ny) := by omega
    have e : s.ny - 1 - (s.ny - 1 - c) = c := by omega
    have e2 : 2 * s.ny - 2 - (2 * s.ny - 2 - c) = c := by omega
    simp only [h, h2, if_true, if_false, e, e2, mirrorY_mirrorY]
  · have h1 : ¬ (c < s.ny - 1) := by omega
    have h2 : 2 * s.ny - 2 - c < s.ny := by omega
    have e : s.ny - 1 - (c - (s.ny - 1)) = 2 * s.ny - 2 - c := by omega
    simp only [h1, h2, if_true, if_false, e]
  · have h1 : ¬ (c < s.ny - 1) := by omega
    have h2 : 2 * s.ny - 2 - c < s.ny := by omega
    have e : s.ny - 1 - (c - (s.ny - 1)) = 2 * s.ny - 2 - c := by omega
    simp only [h1, h2, if_true, if_false, e]

/-- consequently the influence coefficients of the two models agree after the documented renumbering:
panel `j` of the right-half model is panel `ny − 2 − j` of the left-half model -/
theorem c07_left_right_aero (s : Surf ℝ) (hs : s.sym = true) (hl : s.left = true) (hny : 2 ≤ s.ny)
    (alpha : ℝ) (vm : Mesh ℝ) (p : V3 ℝ) (i j : ℕ) (hj : j ≤ s.ny - 2) :
    velMtx (rightOf s) alpha vm p i j = velMtx s alpha vm p i (s.ny - 2 - j) := by
  have hs' : (rightOf s).sym = true := hs
  rw [C04.c04_fold (rightOf s) hs', C04.c04_fold s hs]
  have e1 : (rightOf s).left = false := rfl
  have e2 : (rightOf s).ny = s.ny := rfl
  simp only [e1, e2, hl, if_true, Bool.false_eq_true, if_false]
  have hv : ∀ jj, velRaw (rightOf s) (wakeDir alpha) vm p i jj = velRaw s (wakeDir alpha) vm p i jj := fun jj => rfl
  simp only [hv]

/-! ### geometry design variables: known finding F6 -/

/-- known finding F6 (taper): on a right-half mesh (all `y ≥ 0`, root first) `Taper` is the identity for
every taper ratio, because the interpolation table `xp = [−span, 0]` assumes a left half. -/
theorem c07_taper_right_half_identity (nx ny : ℕ) (pos t : ℝ) (mesh : Mesh ℝ)
    (hy : ∀ j, 0 ≤ (refAxis nx pos mesh j).y)
    (hspan : 0 < (refAxis nx pos mesh (ny - 1)).y - (refAxis nx pos mesh 0).y) :
    taper nx ny true pos mesh t = mesh := by
  unfold taper
  have : taperDist ny true (refAxis nx pos mesh) t 1 = fun _ => 1 := by
    funext j
    simp only [taperDist, interp2, if_true]
    have h1 : ¬ ((refAxis nx pos mesh j).y < -((refAxis nx pos mesh (ny - 1)).y - (refAxis nx pos mesh 0).y)) := by
      have := hy j; linarith
    have h2 : ¬ ((refAxis nx pos mesh j).y < 0) := not_lt.mpr (hy j)
    simp only [h1, h2, if_false]
  simp only [this]
  exact C13.scaleAbout_one _ _

/-- known finding F6 (sweep, dihedral): on a right-half mesh the *root* (first node) is displaced, by the
full semi-span times `tan`, because the shear distance is measured from the last node. -/
theorem c07_sweep_right_half_moves_root (ny : ℕ) (mesh : Mesh ℝ) (angle : ℝ) (i : ℕ) :
    (sweep ny true mesh angle i 0).x
      = (mesh i 0).x + ((mesh 0 (ny - 1)).y - (mesh 0 0).y) * Real.tan (Real.pi / 180 * angle) := by
  simp [sweep, shearDist]

end C07
end OAS
