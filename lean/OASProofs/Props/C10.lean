import OASProofs.Lemmas.Basic
import OASProofs.Lemmas.Real
import OASProofs.Generated.StiffConsts

/-!
# C10  Structural displacements satisfy beam equilibrium with a clamped root

Model: `OASModel/FEM.lean`.  `OASProofs/Generated/StiffConsts.lean` is regenerated from
`local_stiff.py` / `local_stiff_permuted.py` on every run.
-/
set_option linter.unusedSectionVars false
set_option linter.unusedSimpArgs false
namespace OAS
namespace C10
open FEM Finset

/-! ### the constants of the code are the constants of the model -/

theorem c10_consts_match :
    Generated.coeffs2 = FEM.coeffs2 ∧ Generated.coeffsY = FEM.coeffsY ∧ Generated.coeffsZ = FEM.coeffsZ ∧
    Generated.stiffPerm = FEM.perm := by decide

/-- the permutation is a bijection of the twelve element degrees of freedom -/
theorem c10_perm_bijective : (List.range 12).all (fun j => permOf (permInv j) == j && permInv (permOf j) == j) = true := by
  decide

/-- the coefficient tables are symmetric -/
theorem tables_symmetric :
    (List.range 2).all (fun i => (List.range 2).all (fun j => tab FEM.coeffs2 i j == tab FEM.coeffs2 j i)) = true ∧
    (List.range 4).all (fun i => (List.range 4).all (fun j => tab FEM.coeffsY i j == tab FEM.coeffsY j i)) = true ∧
    (List.range 4).all (fun i => (List.range 4).all (fun j => tab FEM.coeffsZ i j == tab FEM.coeffsZ j i)) = true := by
  decide

section field
variable {K : Type} [Field K] [CharZero K]

/-- **The element matrix is the textbook Euler–Bernoulli beam element** (axial `EA/L`, torsion `GJ/L`,
bending `12EI/L³, 6EI/L², 4EI/L, 2EI/L`), in the component's DOF order
`(u₁ u₂ | θx₁ θx₂ | w₁ θ₁ w₂ θ₂ (I_y) | v₁ θ₁ v₂ θ₂ (I_z))`. -/
theorem c10_element_is_euler_bernoulli (E G A Iy Iz J L : K) (hL : L ≠ 0) :
    localStiff E G A Iy Iz J L 0 0 = E * A / L ∧ localStiff E G A Iy Iz J L 0 1 = -(E * A / L) ∧
    localStiff E G A Iy Iz J L 2 2 = G * J / L ∧ localStiff E G A Iy Iz J L 2 3 = -(G * J / L) ∧
    localStiff E G A Iy Iz J L 4 4 = 12 * E * Iy / L ^ 3 ∧ localStiff E G A Iy Iz J L 4 5 = -(6 * E * Iy / L ^ 2) ∧
    localStiff E G A Iy Iz J L 4 6 = -(12 * E * Iy / L ^ 3) ∧ localStiff E G A Iy Iz J L 5 5 = 4 * E * Iy / L ∧
    localStiff E G A Iy Iz J L 5 7 = 2 * E * Iy / L ∧ localStiff E G A Iy Iz J L 6 7 = 6 * E * Iy / L ^ 2 ∧
    localStiff E G A Iy Iz J L 8 8 = 12 * E * Iz / L ^ 3 ∧ localStiff E G A Iy Iz J L 8 9 = 6 * E * Iz / L ^ 2 ∧
    localStiff E G A Iy Iz J L 9 9 = 4 * E * Iz / L ∧ localStiff E G A Iy Iz J L 9 11 = 2 * E * Iz / L ∧
    localStiff E G A Iy Iz J L 10 11 = -(6 * E * Iz / L ^ 2) ∧ localStiff E G A Iy Iz J L 0 4 = 0 := by
  refine ⟨?_, ?_, ?_, ?_, ?_, ?_, ?_, ?_, ?_, ?_, ?_, ?_, ?_, ?_, ?_, ?_⟩ <;>
    simp [localStiff, tab, FEM.coeffs2, FEM.coeffsY, FEM.coeffsZ, ofInt] <;> field_simp <;> ring

/-- **Closed-form cantilever solutions of one element** (node 1 clamped, loads on node 2): the element matrix
reproduces the textbook tip displacements `PL/EA` (axial), `TL/GJ` (torsion), `PL³/3EI` with rotation `PL²/2EI`
(transverse force) and `ML²/2EI`, `ML/EI` (end moment) – i.e. the finite element is exact at the nodes for these
load cases -/
theorem c10_single_element_cantilever (E G A Iy Iz J L P : K) (hL : L ≠ 0) (hE : E ≠ 0) (hG : G ≠ 0) (hA : A ≠ 0)
    (hIy : Iy ≠ 0) (hJ : J ≠ 0) :
    -- axial force P on u₂
    localStiff E G A Iy Iz J L 1 1 * (P * L / (E * A)) = P ∧
    -- torque P on θx₂
    localStiff E G A Iy Iz J L 3 3 * (P * L / (G * J)) = P ∧
    -- transverse force P on w₂: deflection PL³/3EI, rotation −PL²/2EI (sign convention of the component)
    (localStiff E G A Iy Iz J L 6 6 * (P * L ^ 3 / (3 * E * Iy)) + localStiff E G A Iy Iz J L 6 7 * (-(P * L ^ 2 / (2 * E * Iy))) = P ∧
     localStiff E G A Iy Iz J L 7 6 * (P * L ^ 3 / (3 * E * Iy)) + localStiff E G A Iy Iz J L 7 7 * (-(P * L ^ 2 / (2 * E * Iy))) = 0) ∧
    -- end moment P on θ₂: rotation PL/EI, deflection −PL²/2EI
    (localStiff E G A Iy Iz J L 6 6 * (-(P * L ^ 2 / (2 * E * Iy))) + localStiff E G A Iy Iz J L 6 7 * (P * L / (E * Iy)) = 0 ∧
     localStiff E G A Iy Iz J L 7 6 * (-(P * L ^ 2 / (2 * E * Iy))) + localStiff E G A Iy Iz J L 7 7 * (P * L / (E * Iy)) = P) := by
  refine ⟨?_, ?_, ⟨?_, ?_⟩, ⟨?_, ?_⟩⟩ <;>
    simp [localStiff, tab, FEM.coeffs2, FEM.coeffsY, FEM.coeffsZ, ofInt] <;> field_simp <;> ring

/-- **the element matrix is symmetric** -/
theorem c10_element_symmetric (E G A Iy Iz J L : K) (r c : ℕ) (hr : r < 12) (hc : c < 12) :
    localStiff E G A Iy Iz J L r c = localStiff E G A Iy Iz J L c r := by
  interval_cases r <;> interval_cases c <;>
    simp [localStiff, tab, FEM.coeffs2, FEM.coeffsY, FEM.coeffsZ, ofInt] <;> ring

/-- permuting rows and columns with the same permutation keeps symmetry -/
theorem permuted_symmetric (Kl : ℕ → ℕ → K) (h : ∀ r c, r < 12 → c < 12 → Kl r c = Kl c r) (j k : ℕ)
    (hj : permInv j < 12) (hk : permInv k < 12) : permuted Kl j k = permuted Kl k j := by
  unfold permuted; exact h _ _ hj hk

/-- `Tᵀ K T` is symmetric when `K` is -/
theorem transformed_symmetric (T Kp : ℕ → ℕ → K) (h : ∀ l m, l < 12 → m < 12 → Kp l m = Kp m l) (j k : ℕ) :
    transformed T Kp j k = transformed T Kp k j := by
  unfold transformed
  simp only [sumTo_eq_sum]
  rw [Finset.sum_comm]
  refine Finset.sum_congr rfl (fun m hm => Finset.sum_congr rfl (fun l hl => ?_))
  rw [h l m (Finset.mem_range.mp hl) (Finset.mem_range.mp hm)]
  ring

/-- **The assembled augmented stiffness matrix (element scatter plus the `1e9` clamp rows/columns) is
symmetric for every number of nodes**, when the element matrices are. -/
theorem c10_assembled_symmetric (ny idx : ℕ) (kloc : ℕ → ℕ → ℕ → K)
    (h : ∀ e a b, a < 12 → b < 12 → kloc e a b = kloc e b a) (r c : ℕ) :
    assembleK ny idx kloc r c = assembleK ny idx kloc c r := by
  unfold assembleK
  simp only [sumTo_eq_sum]
  congr 1
  · refine Finset.sum_congr rfl (fun e _ => ?_)
    by_cases h1 : 6 * e ≤ r ∧ r < 6 * e + 12 ∧ 6 * e ≤ c ∧ c < 6 * e + 12 ∧ r < 6 * ny ∧ c < 6 * ny
    · have h2 : 6 * e ≤ c ∧ c < 6 * e + 12 ∧ 6 * e ≤ r ∧ r < 6 * e + 12 ∧ c < 6 * ny ∧ r < 6 * ny := by tauto
      rw [if_pos h1, if_pos h2]
      exact h e _ _ (by omega) (by omega)
    · have h2 : ¬ (6 * e ≤ c ∧ c < 6 * e + 12 ∧ 6 * e ≤ r ∧ r < 6 * e + 12 ∧ c < 6 * ny ∧ r < 6 * ny) := by tauto
      rw [if_neg h1, if_neg h2]
  · by_cases h1 : (6 * ny ≤ c ∧ c < 6 * ny + 6 ∧ r = 6 * idx + (c - 6 * ny)) ∨ (6 * ny ≤ r ∧ r < 6 * ny + 6 ∧ c = 6 * idx + (r - 6 * ny))
    · have h2 : (6 * ny ≤ r ∧ r < 6 * ny + 6 ∧ c = 6 * idx + (r - 6 * ny)) ∨ (6 * ny ≤ c ∧ c < 6 * ny + 6 ∧ r = 6 * idx + (c - 6 * ny)) := by tauto
      rw [if_pos h1, if_pos h2]
    · have h2 : ¬ ((6 * ny ≤ r ∧ r < 6 * ny + 6 ∧ c = 6 * idx + (r - 6 * ny)) ∨ (6 * ny ≤ c ∧ c < 6 * ny + 6 ∧ r = 6 * idx + (c - 6 * ny))) := by tauto
      rw [if_neg h1, if_neg h2]

/-- **Clamped root**: in every solution of the augmented system whose right-hand side vanishes on the six
constraint rows (as `CreateRHS` guarantees), the six degrees of freedom of the root node are exactly zero. -/
theorem c10_clamped (ny idx : ℕ) (hidx : idx < ny) (kloc : ℕ → ℕ → ℕ → K) (u f : ℕ → K) (a : ℕ) (ha : a < 6)
    (hf : f (6 * ny + a) = 0)
    (hsol : FEM.residual (6 * ny + 6) (assembleK ny idx kloc) u f (6 * ny + a) = 0) :
    u (6 * idx + a) = 0 := by
  unfold FEM.residual at hsol
  rw [hf, sub_zero, sumTo_eq_sum] at hsol
  -- the constraint row has a single non-zero entry, `1e9`, in column `6 idx + a`
  have hrow : ∀ c, c < 6 * ny + 6 → assembleK ny idx kloc (6 * ny + a) c = if c = 6 * idx + a then ((1000000000 : ℕ) : K) else 0 := by
    intro c hc
    unfold assembleK
    simp only [sumTo_eq_sum]
    have hbody : ∑ e ∈ range (ny - 1), (if 6 * e ≤ 6 * ny + a ∧ 6 * ny + a < 6 * e + 12 ∧ 6 * e ≤ c ∧ c < 6 * e + 12 ∧ 6 * ny + a < 6 * ny ∧ c < 6 * ny
        then kloc e (6 * ny + a - 6 * e) (c - 6 * e) else 0) = 0 := by
      apply Finset.sum_eq_zero
      intro e _
      have : ¬ (6 * e ≤ 6 * ny + a ∧ 6 * ny + a < 6 * e + 12 ∧ 6 * e ≤ c ∧ c < 6 * e + 12 ∧ 6 * ny + a < 6 * ny ∧ c < 6 * ny) := by omega
      rw [if_neg this]
    rw [hbody, zero_add]
    by_cases hce : c = 6 * idx + a
    · have : (6 * ny ≤ c ∧ c < 6 * ny + 6 ∧ 6 * ny + a = 6 * idx + (c - 6 * ny)) ∨ (6 * ny ≤ 6 * ny + a ∧ 6 * ny + a < 6 * ny + 6 ∧ c = 6 * idx + (6 * ny + a - 6 * ny)) := by
        right; omega
      rw [if_pos this, if_pos hce]
    · have : ¬ ((6 * ny ≤ c ∧ c < 6 * ny + 6 ∧ 6 * ny + a = 6 * idx + (c - 6 * ny)) ∨ (6 * ny ≤ 6 * ny + a ∧ 6 * ny + a < 6 * ny + 6 ∧ c = 6 * idx + (6 * ny + a - 6 * ny))) := by
        omega
      rw [if_neg this, if_neg hce]
  have hsum : ∑ c ∈ range (6 * ny + 6), assembleK ny idx kloc (6 * ny + a) c * u c = ((1000000000 : ℕ) : K) * u (6 * idx + a) := by
    rw [Finset.sum_eq_single (6 * idx + a)]
    · rw [hrow _ (by omega), if_pos rfl]
    · intro c hc hne
      rw [hrow c (Finset.mem_range.mp hc), if_neg hne, zero_mul]
    · intro hnot
      exact absurd (Finset.mem_range.mpr (by omega)) hnot
  rw [hsum] at hsol
  have hbig : ((1000000000 : ℕ) : K) ≠ 0 := by exact_mod_cast (by norm_num : (1000000000 : ℕ) ≠ 0)
  exact (mul_eq_zero.mp hsol).resolve_left hbig

/-- **Linearity**: the residual is linear, so linear combinations of solutions solve the combined loads -/
theorem c10_linear (n : ℕ) (Km : ℕ → ℕ → K) (u1 u2 f1 f2 : ℕ → K) (a b : K) (r : ℕ)
    (h1 : FEM.residual n Km u1 f1 r = 0) (h2 : FEM.residual n Km u2 f2 r = 0) :
    FEM.residual n Km (fun c => a * u1 c + b * u2 c) (fun c => a * f1 c + b * f2 c) r = 0 := by
  unfold FEM.residual at *
  simp only [sumTo_eq_sum] at *
  have : ∑ c ∈ range n, Km r c * (a * u1 c + b * u2 c) = a * ∑ c ∈ range n, Km r c * u1 c + b * ∑ c ∈ range n, Km r c * u2 c := by
    rw [Finset.mul_sum, Finset.mul_sum, ← Finset.sum_add_distrib]
    exact Finset.sum_congr rfl (fun c _ => by ring)
  rw [this]
  linear_combination a * h1 + b * h2

/-- **Maxwell–Betti reciprocity** for a symmetric matrix: `f₁·u₂ = f₂·u₁` for two solutions -/
theorem c10_reciprocity (n : ℕ) (Km : ℕ → ℕ → K) (hsym : ∀ r c, Km r c = Km c r) (u1 u2 f1 f2 : ℕ → K)
    (h1 : ∀ r, r < n → FEM.residual n Km u1 f1 r = 0) (h2 : ∀ r, r < n → FEM.residual n Km u2 f2 r = 0) :
    ∑ r ∈ range n, f1 r * u2 r = ∑ r ∈ range n, f2 r * u1 r := by
  have e1 : ∀ r ∈ range n, f1 r = ∑ c ∈ range n, Km r c * u1 c := by
    intro r hr
    have := h1 r (Finset.mem_range.mp hr)
    simp only [FEM.residual, sumTo_eq_sum] at this
    exact (sub_eq_zero.mp this).symm
  have e2 : ∀ r ∈ range n, f2 r = ∑ c ∈ range n, Km r c * u2 c := by
    intro r hr
    have := h2 r (Finset.mem_range.mp hr)
    simp only [FEM.residual, sumTo_eq_sum] at this
    exact (sub_eq_zero.mp this).symm
  have l1 : ∑ r ∈ range n, f1 r * u2 r = ∑ r ∈ range n, (∑ c ∈ range n, Km r c * u1 c) * u2 r :=
    Finset.sum_congr rfl (fun r hr => by rw [e1 r hr])
  have l2 : ∑ r ∈ range n, f2 r * u1 r = ∑ r ∈ range n, (∑ c ∈ range n, Km r c * u2 c) * u1 r :=
    Finset.sum_congr rfl (fun r hr => by rw [e2 r hr])
  rw [l1, l2]
  simp only [Finset.sum_mul]
  rw [Finset.sum_comm]
  refine Finset.sum_congr rfl (fun c _ => Finset.sum_congr rfl (fun r _ => ?_))
  rw [hsym r c]; ring

end field

/-! ### local element triad -/

theorem norm_mul_self' (v : V3 ℝ) : V3.norm v * V3.norm v = v.x * v.x + v.y * v.y + v.z * v.z := by
  simp only [V3.norm, elem_sqrt]
  exact Real.mul_self_sqrt (by nlinarith [mul_self_nonneg v.x, mul_self_nonneg v.y, mul_self_nonneg v.z])

theorem unit_dot_self (v : V3 ℝ) (h : V3.norm v ≠ 0) :
    V3.dot ⟨v.x / V3.norm v, v.y / V3.norm v, v.z / V3.norm v⟩ ⟨v.x / V3.norm v, v.y / V3.norm v, v.z / V3.norm v⟩ = 1 := by
  have := norm_mul_self' v
  simp only [V3.dot]
  field_simp
  nlinarith [this]

/-- **The local triad is orthonormal** for every element that is not aligned with the global `x` axis:
unit axial vector, unit lateral vector perpendicular to it and to global `x`, third axis their cross product. -/
theorem c10_triad_orthonormal (P0 P1 : V3 ℝ) (hlen : V3.norm (P1 - P0) ≠ 0)
    (hx : V3.norm (V3.cross (V3.unit (P1 - P0)) ⟨1, 0, 0⟩) ≠ 0) :
    V3.dot (triad P0 P1).r0 (triad P0 P1).r0 = 1 ∧ V3.dot (triad P0 P1).r1 (triad P0 P1).r1 = 1 ∧
    V3.dot (triad P0 P1).r0 (triad P0 P1).r1 = 0 ∧ (triad P0 P1).r1.x = 0 ∧
    (triad P0 P1).r2 = V3.cross (triad P0 P1).r0 (triad P0 P1).r1 := by
  refine ⟨?_, ?_, ?_, ?_, rfl⟩
  · exact unit_dot_self (P1 - P0) hlen
  · exact unit_dot_self _ hx
  · simp only [triad, V3.dot, V3.cross_x, V3.cross_y, V3.cross_z]
    ring
  · simp [triad, V3.cross]

end C10
end OAS
