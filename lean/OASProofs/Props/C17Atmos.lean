import OASProofs.Generated.Atmos

/-!
# C17 (atmosphere): the tabulated 1976 standard atmosphere is internally consistent

`OASProofs/Generated/Atmos.lean` is regenerated from `openaerostruct/common/atmos_comp.py` on every
run; the theorems below are therefore re-checked against the table the code contains *now*.
All arithmetic is exact natural-number arithmetic on the decimal literals of the source
(`v = m / 10^e`), decided by the kernel over the whole table.

* ideal gas:       `|144·P − ρ·R·T| ≤ 2·10⁻⁴ · 144·P`,  `R = 1716.49 ft·lbf/(slug·°R)`
* speed of sound:  `|a² − 1.4·R·T| ≤ 2·10⁻⁴ · a²`
* ordering:        altitudes strictly increase, pressure and density strictly decrease

Between the table nodes the code uses `scipy`'s Akima interpolation, which is outside the model.
-/
namespace OAS.C17Atmos
open OAS.Generated

def absDiff (a b : Nat) : Nat := if a ≤ b then b - a else a - b

/-- `|144 P − ρ R T| · 10⁴ ≤ 2 · 144 P` after clearing the decimal exponents -/
def gasOK (r : AtmosRow) : Bool :=
  let lhs := 144 * r.pM * 10 ^ (r.rhoE + r.tE + 2)
  let rhs := r.rhoM * r.tM * 171649 * 10 ^ r.pE
  decide (absDiff lhs rhs * 10000 ≤ 2 * lhs)

/-- `|a² − 1.4 R T| · 10⁴ ≤ 2 a²` -/
def soundOK (r : AtmosRow) : Bool :=
  let lhs := r.aM * r.aM * 10 ^ (r.tE + 3)
  let rhs := 14 * 171649 * r.tM * 10 ^ (2 * r.aE)
  decide (absDiff lhs rhs * 10000 ≤ 2 * lhs)

/-- `x/10^e < y/10^f` on naturals -/
def decLt (xm xe ym ye : Nat) : Bool := decide (xm * 10 ^ ye < ym * 10 ^ xe)

def orderedPair (r s : AtmosRow) : Bool :=
  decLt r.altM r.altE s.altM s.altE && decLt s.pM s.pE r.pM r.pE && decLt s.rhoM s.rhoE r.rhoM r.rhoE

def chainOK : List AtmosRow → Bool
  | [] => true
  | [_] => true
  | r :: s :: rest => orderedPair r s && chainOK (s :: rest)

/-- **every row of the table satisfies the ideal-gas law within the table's resolution** -/
theorem c17_atmos_ideal_gas : atmosTable.all gasOK = true := by decide +kernel

/-- **every row satisfies `a² = γ R T` within the table's resolution** -/
theorem c17_atmos_speed_of_sound : atmosTable.all soundOK = true := by decide +kernel

/-- **altitude strictly increases, pressure and density strictly decrease along the table** -/
theorem c17_atmos_ordered : chainOK atmosTable = true := by decide +kernel

/-- the table is not trivial -/
theorem c17_atmos_size : 100 ≤ atmosTable.length := by decide +kernel

end OAS.C17Atmos
