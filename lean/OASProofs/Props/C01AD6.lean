import OASProofs.Props.C01AD2
import OASProofs.Props.C01AD3

/-!
# C01 (continued)  Exactness of the derivative oracle: vortex rings, trailing legs, lattices (`EvalVelMtx.compute`)
-/
set_option linter.unusedSectionVars false
set_option linter.unusedSimpArgs false
set_option linter.unusedTactic false
set_option linter.unreachableTactic false
namespace OAS
namespace C01AD
open AD VLM

variable {t : ℝ}

/-- a vortex segment seen from the evaluation point is regular: both end points are off the evaluation point and the
`|r1||r2| + r1·r2 > 1e-10` branch of the kernel is taken (the evaluation point is not on the extension of the segment) -/
structure SegOK (r1 r2 : V3 ℝ) : Prop where
  n1 : 0 < r1.x * r1.x + r1.y * r1.y + r1.z * r1.z
  n2 : 0 < r2.x * r2.x + r2.y * r2.y + r2.z * r2.z
  den : (VLM.tol : ℝ) < V3.norm r1 * V3.norm r2 + V3.dot r1 r2

/-- a trailing leg is regular: the evaluation point is off its origin and not on the leg -/
structure LegOK (u r : V3 ℝ) : Prop where
  n : 0 < r.x * r.x + r.y * r.y + r.z * r.z
  den : Real.sqrt (r.x * r.x + r.y * r.y + r.z * r.z) * (Real.sqrt (r.x * r.x + r.y * r.y + r.z * r.z) - V3.dot u r) ≠ 0

theorem tvAdd {a b : V3 (Dual ℝ)} {f g : ℝ → V3 ℝ} (ha : TracksV a f t) (hb : TracksV b g t) :
    TracksV (a + b) (fun s => f s + g s) t := ⟨ha.x.add hb.x, ha.y.add hb.y, ha.z.add hb.z⟩

theorem tvZero : TracksV (0 : V3 (Dual ℝ)) (fun _ => (0 : V3 ℝ)) t := ⟨Tracks.zero, Tracks.zero, Tracks.zero⟩

/-- a vortex ring: the four segments, w.r.t. the evaluation point and the four corners -/
theorem ring_exact {vm : Mesh (Dual ℝ)} {fvm : ℝ → Mesh ℝ} {p : V3 (Dual ℝ)} {fp : ℝ → V3 ℝ}
    (hvm : ∀ i j, TracksV (vm i j) (fun s => fvm s i j) t) (hp : TracksV p fp t) (i j : ℕ)
    (hAB : SegOK (fp t - fvm t i (j + 1)) (fp t - fvm t i j)) (hBC : SegOK (fp t - fvm t i j) (fp t - fvm t (i + 1) j))
    (hCD : SegOK (fp t - fvm t (i + 1) j) (fp t - fvm t (i + 1) (j + 1)))
    (hDA : SegOK (fp t - fvm t (i + 1) (j + 1)) (fp t - fvm t i (j + 1))) :
    TracksV (ring vm p i j) (fun s => ring (fvm s) (fp s) i j) t := by
  have hA := tvSub hp (hvm i (j + 1)); have hB := tvSub hp (hvm i j)
  have hC := tvSub hp (hvm (i + 1) j); have hD := tvSub hp (hvm (i + 1) (j + 1))
  simp only [ring]
  exact tvAdd (tvAdd (tvAdd (finiteVortex_exact hA hB hAB.n1 hAB.n2 hAB.den) (finiteVortex_exact hB hC hBC.n1 hBC.n2 hBC.den))
    (finiteVortex_exact hC hD hCD.n1 hCD.n2 hCD.den)) (finiteVortex_exact hD hA hDA.n1 hDA.n2 hDA.den)

/-- the trailing-edge segment and the two semi-infinite wake legs, w.r.t. the wake direction too -/
theorem trailing_exact {u : V3 (Dual ℝ)} {fu : ℝ → V3 ℝ} {vm : Mesh (Dual ℝ)} {fvm : ℝ → Mesh ℝ} {p : V3 (Dual ℝ)} {fp : ℝ → V3 ℝ}
    (hu : TracksV u fu t) (hvm : ∀ i j, TracksV (vm i j) (fun s => fvm s i j) t) (hp : TracksV p fp t) (i j : ℕ)
    (hDC : SegOK (fp t - fvm t (i + 1) (j + 1)) (fp t - fvm t (i + 1) j))
    (hD : LegOK (fu t) (fp t - fvm t (i + 1) (j + 1))) (hC : LegOK (fu t) (fp t - fvm t (i + 1) j)) :
    TracksV (trailing u vm p i j) (fun s => trailing (fu s) (fvm s) (fp s) i j) t := by
  have hCt := tvSub hp (hvm (i + 1) j); have hDt := tvSub hp (hvm (i + 1) (j + 1))
  simp only [trailing]
  exact tvAdd (tvSub (finiteVortex_exact hDt hCt hDC.n1 hDC.n2 hDC.den) (semiInfVortex_exact hu hDt hD.n hD.den))
    (semiInfVortex_exact hu hCt hC.n hC.den)

/-- **one ring of a lattice with its trailing system** (`EvalVelMtx.compute`, one `(point, panel)` pair), w.r.t. the
evaluation point, the vortex mesh and the wake direction, on the regular side of every kernel branch -/
theorem latticeVel_exact (nx : ℕ) {u : V3 (Dual ℝ)} {fu : ℝ → V3 ℝ} {vm : Mesh (Dual ℝ)} {fvm : ℝ → Mesh ℝ} (r0 : ℕ)
    {p : V3 (Dual ℝ)} {fp : ℝ → V3 ℝ} (hu : TracksV u fu t) (hvm : ∀ i j, TracksV (vm i j) (fun s => fvm s i j) t)
    (hp : TracksV p fp t) (i j : ℕ)
    (hAB : SegOK (fp t - fvm t (r0 + i) (j + 1)) (fp t - fvm t (r0 + i) j))
    (hBC : SegOK (fp t - fvm t (r0 + i) j) (fp t - fvm t (r0 + (i + 1)) j))
    (hCD : SegOK (fp t - fvm t (r0 + (i + 1)) j) (fp t - fvm t (r0 + (i + 1)) (j + 1)))
    (hDA : SegOK (fp t - fvm t (r0 + (i + 1)) (j + 1)) (fp t - fvm t (r0 + i) (j + 1)))
    (hDC : SegOK (fp t - fvm t (r0 + (i + 1)) (j + 1)) (fp t - fvm t (r0 + (i + 1)) j))
    (hD : LegOK (fu t) (fp t - fvm t (r0 + (i + 1)) (j + 1))) (hC : LegOK (fu t) (fp t - fvm t (r0 + (i + 1)) j)) :
    TracksV (latticeVel nx u vm r0 p i j) (fun s => latticeVel nx (fu s) (fvm s) r0 (fp s) i j) t := by
  have hm : ∀ a b, TracksV ((fun a b => vm (r0 + a) b) a b) (fun s => (fun a b => fvm s (r0 + a) b) a b) t :=
    fun a b => hvm (r0 + a) b
  have hr := ring_exact (vm := fun a b => vm (r0 + a) b) (fvm := fun s a b => fvm s (r0 + a) b) hm hp i j hAB hBC hCD hDA
  have htr := trailing_exact (vm := fun a b => vm (r0 + a) b) (fvm := fun s a b => fvm s (r0 + a) b) hu hm hp i j hDC hD hC
  simp only [latticeVel]
  by_cases h : i + 2 = nx
  · simp only [h, if_true]; exact tvAdd hr htr
  · simp only [h, if_false]; exact tvAdd hr tvZero

end C01AD
end OAS
