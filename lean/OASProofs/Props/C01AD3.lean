import OASProofs.Props.C01AD
import OASProofs.Lemmas.StressCore

/-!
# C01 (continued)  Exactness of the derivative oracle: structural loads and stress recovery
-/
set_option linter.unusedSectionVars false
set_option linter.unusedSimpArgs false
set_option linter.unusedTactic false
set_option linter.unreachableTactic false
namespace OAS
namespace C01AD
open AD

variable {t : ℝ}

/-- tracking of a nodal load (force and moment) -/
def TracksL (a : Load (Dual ℝ)) (f : ℝ → Load ℝ) (t : ℝ) : Prop :=
  TracksV a.f (fun s => (f s).f) t ∧ TracksV a.m (fun s => (f s).m) t

/-- `StructureWeightLoads`: distributed weight forces and the end moments of every element, accumulated on the nodes,
w.r.t. nodes, element masses and load factor -/
theorem structWeightLoads_exact (ny : ℕ) {n : Pts (Dual ℝ)} {fn : ℝ → Pts ℝ} {em : ℕ → Dual ℝ} {fem : ℕ → ℝ → ℝ}
    {lf : Dual ℝ} {flf : ℝ → ℝ} (hn : ∀ j, TracksV (n j) (fun s => fn s j) t) (hem : ∀ e, Tracks (em e) (fem e) t)
    (hlf : Tracks lf flf t)
    (hxy : ∀ e, 0 < (elemDelta (fn t) e).x * (elemDelta (fn t) e).x + (elemDelta (fn t) e).y * (elemDelta (fn t) e).y)
    (hL : ∀ e, 0 < V3.normSq (elemDelta (fn t) e)) (j : ℕ) :
    TracksL (structWeightLoads ny n em lf j) (fun s => structWeightLoads ny (fn s) (fun k => fem k s) (flf s) j) t := by
  obtain ⟨hnx, hny, hnz⟩ := TracksV.fam1 hn
  have h2 : ((2 : ℕ) : ℝ) ≠ 0 := by norm_num
  have h12 : ((12 : ℕ) : ℝ) ≠ 0 := by norm_num
  have hLn : ∀ e, Real.sqrt ((elemDelta (fn t) e).x * (elemDelta (fn t) e).x + (elemDelta (fn t) e).y * (elemDelta (fn t) e).y
      + (elemDelta (fn t) e).z * (elemDelta (fn t) e).z) ≠ 0 := fun e => (Real.sqrt_pos.mpr (hL e)).ne'
  refine ⟨⟨?_, ?_, ?_⟩, ⟨?_, ?_, ?_⟩⟩ <;>
    simp only [structWeightLoads, distributedLoads, elemLength, elemDelta, gravConstant] at hxy hL hLn ⊢ <;> v3norm <;> track
  all_goals first | exact hxy _ | exact hL _ | exact hLn _

theorem pointLoads_exact (ny np : ℕ) {n l : Pts (Dual ℝ)} {fn fl : ℝ → Pts ℝ} {F : ℕ → ℕ → V3 (Dual ℝ)}
    {fF : ℝ → ℕ → ℕ → V3 ℝ} (hn : ∀ j, TracksV (n j) (fun s => fn s j) t) (hl : ∀ p, TracksV (l p) (fun s => fl s p) t)
    (hF : ∀ p j, TracksV (F p j) (fun s => fF s p j) t) (j : ℕ) :
    TracksL (pointLoads ny np n l F j) (fun s => pointLoads ny np (fn s) (fl s) (fF s) j) t := by
  obtain ⟨hnx, hny, hnz⟩ := TracksV.fam1 hn
  obtain ⟨hlx, hly, hlz⟩ := TracksV.fam1 hl
  obtain ⟨hFx, hFy, hFz⟩ := TracksV.fam2 hF
  refine ⟨⟨?_, ?_, ?_⟩, ⟨?_, ?_, ?_⟩⟩ <;> simp only [pointLoads] <;> v3norm <;> track

/-- the inverse-distance nodal weighting of point masses and engines (`1/(Δy¹⁰ + 1e-10)`, normalised) -/
theorem nodalWeighting_exact (ny : ℕ) {n : Pts (Dual ℝ)} {fn : ℝ → Pts ℝ} {loc : V3 (Dual ℝ)} {floc : ℝ → V3 ℝ}
    (hn : ∀ j, TracksV (n j) (fun s => fn s j) t) (hloc : TracksV loc floc t) (j : ℕ)
    (hd : ∀ k, pow10 ((floc t).y - (fn t k).y) + dec 1 10000000000 ≠ 0)
    (hs : sumTo ny (invDist10 (fn t) (floc t)) ≠ 0) :
    Tracks (nodalWeighting ny n loc j) (fun s => nodalWeighting ny (fn s) (floc s) j) t := by
  obtain ⟨hnx, hny, hnz⟩ := TracksV.fam1 hn
  have hly := hloc.y
  simp only [nodalWeighting, invDist10, pow10] at hd hs ⊢
  track
  all_goals first | exact hd _ | assumption

theorem totalLoads_exact (relief fuel pm : Bool) {a b c d e : ℕ → Load (Dual ℝ)} {fa fb fc fd fe : ℝ → ℕ → Load ℝ}
    (ha : ∀ j, TracksL (a j) (fun s => fa s j) t) (hb : ∀ j, TracksL (b j) (fun s => fb s j) t)
    (hc : ∀ j, TracksL (c j) (fun s => fc s j) t) (hd : ∀ j, TracksL (d j) (fun s => fd s j) t)
    (he : ∀ j, TracksL (e j) (fun s => fe s j) t) (j : ℕ) :
    TracksL (totalLoads relief fuel pm a b c d e j) (fun s => totalLoads relief fuel pm (fa s) (fb s) (fc s) (fd s) (fe s) j) t := by
  have e1 : ∀ (x y : Load (Dual ℝ)), (x + y).f = x.f + y.f := fun _ _ => rfl
  have e2 : ∀ (x y : Load (Dual ℝ)), (x + y).m = x.m + y.m := fun _ _ => rfl
  have e3 : ∀ (x y : Load ℝ), (x + y).f = x.f + y.f := fun _ _ => rfl
  have e4 : ∀ (x y : Load ℝ), (x + y).m = x.m + y.m := fun _ _ => rfl
  have hafx := fun j => (ha j).1.x; have hafy := fun j => (ha j).1.y; have hafz := fun j => (ha j).1.z
  have hamx := fun j => (ha j).2.x; have hamy := fun j => (ha j).2.y; have hamz := fun j => (ha j).2.z
  have hbfx := fun j => (hb j).1.x; have hbfy := fun j => (hb j).1.y; have hbfz := fun j => (hb j).1.z
  have hbmx := fun j => (hb j).2.x; have hbmy := fun j => (hb j).2.y; have hbmz := fun j => (hb j).2.z
  have hcfx := fun j => (hc j).1.x; have hcfy := fun j => (hc j).1.y; have hcfz := fun j => (hc j).1.z
  have hcmx := fun j => (hc j).2.x; have hcmy := fun j => (hc j).2.y; have hcmz := fun j => (hc j).2.z
  have hdfx := fun j => (hd j).1.x; have hdfy := fun j => (hd j).1.y; have hdfz := fun j => (hd j).1.z
  have hdmx := fun j => (hd j).2.x; have hdmy := fun j => (hd j).2.y; have hdmz := fun j => (hd j).2.z
  have hefx := fun j => (he j).1.x; have hefy := fun j => (he j).1.y; have hefz := fun j => (he j).1.z
  have hemx := fun j => (he j).2.x; have hemy := fun j => (he j).2.y; have hemz := fun j => (he j).2.z
  cases relief <;> cases fuel <;> cases pm <;> refine ⟨⟨?_, ?_, ?_⟩, ⟨?_, ?_, ?_⟩⟩ <;>
    simp only [totalLoads, Bool.false_eq_true, if_false, if_true, e1, e2, e3, e4] <;> v3norm <;> track

end C01AD
end OAS

/-! ### stress recovery: element frame, von Mises stresses of the tube and of the wingbox -/
namespace OAS
namespace C01AD
open AD
variable {t : ℝ}

theorem tvSub {a b : V3 (Dual ℝ)} {f g : ℝ → V3 ℝ} (ha : TracksV a f t) (hb : TracksV b g t) :
    TracksV (a - b) (fun s => f s - g s) t := ⟨ha.x.sub hb.x, ha.y.sub hb.y, ha.z.sub hb.z⟩

theorem tvCross {a b : V3 (Dual ℝ)} {f g : ℝ → V3 ℝ} (ha : TracksV a f t) (hb : TracksV b g t) :
    TracksV (V3.cross a b) (fun s => V3.cross (f s) (g s)) t :=
  ⟨(ha.y.mul hb.z).sub (ha.z.mul hb.y), (ha.z.mul hb.x).sub (ha.x.mul hb.z), (ha.x.mul hb.y).sub (ha.y.mul hb.x)⟩

theorem norm_exact {a : V3 (Dual ℝ)} {f : ℝ → V3 ℝ} (ha : TracksV a f t) (h0 : 0 < V3.normSq (f t)) :
    Tracks (V3.norm a) (fun s => V3.norm (f s)) t := by
  have hx := ha.x; have hy := ha.y; have hz := ha.z
  simp only [V3.norm]; track

theorem unit_exact {a : V3 (Dual ℝ)} {f : ℝ → V3 ℝ} (ha : TracksV a f t) (h0 : 0 < V3.normSq (f t)) :
    TracksV (V3.unit a) (fun s => V3.unit (f s)) t := by
  have hn := norm_exact ha h0
  have hne : V3.norm (f t) ≠ 0 := (Real.sqrt_pos.mpr h0).ne'
  exact ⟨ha.x.div hn hne, ha.y.div hn hne, ha.z.div hn hne⟩

theorem mulVec_exact {M : M3 (Dual ℝ)} {fM : ℝ → M3 ℝ} {v : V3 (Dual ℝ)} {fv : ℝ → V3 ℝ}
    (h0 : TracksV M.r0 (fun s => (fM s).r0) t) (h1 : TracksV M.r1 (fun s => (fM s).r1) t)
    (h2 : TracksV M.r2 (fun s => (fM s).r2) t) (hv : TracksV v fv t) :
    TracksV (M.mulVec v) (fun s => (fM s).mulVec (fv s)) t :=
  ⟨((h0.x.mul hv.x).add (h0.y.mul hv.y)).add (h0.z.mul hv.z), ((h1.x.mul hv.x).add (h1.y.mul hv.y)).add (h1.z.mul hv.z),
   ((h2.x.mul hv.x).add (h2.y.mul hv.y)).add (h2.z.mul hv.z)⟩

theorem e1_tracks : TracksV (⟨1, 0, 0⟩ : V3 (Dual ℝ)) (fun _ => (⟨1, 0, 0⟩ : V3 ℝ)) t :=
  ⟨Tracks.one, Tracks.zero, Tracks.zero⟩

/-- side conditions under which the element triad of the stress recovery is differentiable: the element has positive
length and is not parallel to the global `x` axis -/
structure FrameOK (P0 P1 : V3 ℝ) : Prop where
  len : 0 < V3.normSq (P1 - P0)
  y : 0 < V3.normSq (V3.cross (V3.unit (P1 - P0)) ⟨1, 0, 0⟩)
  z : 0 < V3.normSq (V3.cross (V3.unit (P1 - P0)) (V3.unit (V3.cross (V3.unit (P1 - P0)) ⟨1, 0, 0⟩)))

theorem elemFrame_exact {P0 P1 : V3 (Dual ℝ)} {f0 f1 : ℝ → V3 ℝ} (h0 : TracksV P0 f0 t) (h1 : TracksV P1 f1 t)
    (ok : FrameOK (f0 t) (f1 t)) :
    TracksV (elemFrame P0 P1).r0 (fun s => (elemFrame (f0 s) (f1 s)).r0) t ∧
    TracksV (elemFrame P0 P1).r1 (fun s => (elemFrame (f0 s) (f1 s)).r1) t ∧
    TracksV (elemFrame P0 P1).r2 (fun s => (elemFrame (f0 s) (f1 s)).r2) t := by
  have hx := unit_exact (tvSub h1 h0) ok.len
  have hy := unit_exact (tvCross hx e1_tracks) ok.y
  have hz := unit_exact (tvCross hx hy) ok.z
  exact ⟨hx, hy, hz⟩


theorem tubeCore_exact (E G : ℝ) {L rad : Dual ℝ} {fL fr : ℝ → ℝ} {u0 r0 u1 r1 : V3 (Dual ℝ)} {fu0 fr0 fu1 fr1 : ℝ → V3 ℝ}
    (hL : Tracks L fL t) (hr : Tracks rad fr t) (h1 : TracksV u0 fu0 t) (h2 : TracksV r0 fr0 t) (h3 : TracksV u1 fu1 t)
    (h4 : TracksV r1 fr1 t) (hL0 : fL t ≠ 0)
    (hb : 0 < ((fr1 t).y - (fr0 t).y) * ((fr1 t).y - (fr0 t).y) + ((fr1 t).z - (fr0 t).z) * ((fr1 t).z - (fr0 t).z))
    (hv0 : 0 < (tubeCore E G (fL t) (fr t) (fu0 t) (fr0 t) (fu1 t) (fr1 t)).1 * (tubeCore E G (fL t) (fr t) (fu0 t) (fr0 t) (fu1 t) (fr1 t)).1)
    (hv1 : 0 < (tubeCore E G (fL t) (fr t) (fu0 t) (fr0 t) (fu1 t) (fr1 t)).2 * (tubeCore E G (fL t) (fr t) (fu0 t) (fr0 t) (fu1 t) (fr1 t)).2) :
    Tracks (tubeCore (⟨E, 0⟩ : Dual ℝ) (⟨G, 0⟩ : Dual ℝ) L rad u0 r0 u1 r1).1
      (fun s => (tubeCore E G (fL s) (fr s) (fu0 s) (fr0 s) (fu1 s) (fr1 s)).1) t ∧
    Tracks (tubeCore (⟨E, 0⟩ : Dual ℝ) (⟨G, 0⟩ : Dual ℝ) L rad u0 r0 u1 r1).2
      (fun s => (tubeCore E G (fL s) (fr s) (fu0 s) (fr0 s) (fu1 s) (fr1 s)).2) t := by
  have a1 := h1.x; have a2 := h2.x; have a3 := h2.y; have a4 := h2.z; have a5 := h3.x; have a6 := h4.x
  have a7 := h4.y; have a8 := h4.z
  -- positivity of the arguments of the outer square roots follows from the positivity of the stresses
  have p0 : 0 < (tubeCore E G (fL t) (fr t) (fu0 t) (fr0 t) (fu1 t) (fr1 t)).1 := by
    by_contra hc
    have : (tubeCore E G (fL t) (fr t) (fu0 t) (fr0 t) (fu1 t) (fr1 t)).1 = 0 := by
      have h := Real.sqrt_nonneg ((E * ((fu1 t).x - (fu0 t).x) / fL t + E * fr t / fL t * Real.sqrt (((fr1 t).y - (fr0 t).y) * ((fr1 t).y - (fr0 t).y) + ((fr1 t).z - (fr0 t).z) * ((fr1 t).z - (fr0 t).z))) * (E * ((fu1 t).x - (fu0 t).x) / fL t + E * fr t / fL t * Real.sqrt (((fr1 t).y - (fr0 t).y) * ((fr1 t).y - (fr0 t).y) + ((fr1 t).z - (fr0 t).z) * ((fr1 t).z - (fr0 t).z))) + ((3 : ℕ) : ℝ) * (G * fr t * ((fr1 t).x - (fr0 t).x) / fL t * (G * fr t * ((fr1 t).x - (fr0 t).x) / fL t)))
      exact le_antisymm (not_lt.mp hc) h
    rw [this] at hv0; simp at hv0
  have p1 : 0 < (tubeCore E G (fL t) (fr t) (fu0 t) (fr0 t) (fu1 t) (fr1 t)).2 := by
    by_contra hc
    have : (tubeCore E G (fL t) (fr t) (fu0 t) (fr0 t) (fu1 t) (fr1 t)).2 = 0 := by
      have h := Real.sqrt_nonneg ((E * ((fu0 t).x - (fu1 t).x) / fL t + E * fr t / fL t * Real.sqrt (((fr1 t).y - (fr0 t).y) * ((fr1 t).y - (fr0 t).y) + ((fr1 t).z - (fr0 t).z) * ((fr1 t).z - (fr0 t).z))) * (E * ((fu0 t).x - (fu1 t).x) / fL t + E * fr t / fL t * Real.sqrt (((fr1 t).y - (fr0 t).y) * ((fr1 t).y - (fr0 t).y) + ((fr1 t).z - (fr0 t).z) * ((fr1 t).z - (fr0 t).z))) + ((3 : ℕ) : ℝ) * (G * fr t * ((fr1 t).x - (fr0 t).x) / fL t * (G * fr t * ((fr1 t).x - (fr0 t).x) / fL t)))
      exact le_antisymm (not_lt.mp hc) h
    rw [this] at hv1; simp at hv1
  have q0 := Real.sqrt_pos.mp p0
  have q1 := Real.sqrt_pos.mp p1
  refine ⟨?_, ?_⟩ <;> simp only [tubeCore] <;> track

/-- **`VonMisesTube`**: both von Mises stresses of every element, w.r.t. nodes, radius and the displacement field
(the hand-derived reverse-mode chain of `vonmises_tube.py`) -/
theorem vonMisesTube_exact (E G : ℝ) {n : Pts (Dual ℝ)} {fn : ℝ → Pts ℝ} {rad : ℕ → Dual ℝ} {frad : ℕ → ℝ → ℝ}
    {d : ℕ → Disp (Dual ℝ)} {fd : ℝ → ℕ → Disp ℝ} (hn : ∀ j, TracksV (n j) (fun s => fn s j) t)
    (hrad : ∀ e, Tracks (rad e) (frad e) t) (hdu : ∀ j, TracksV (d j).u (fun s => (fd s j).u) t)
    (hdr : ∀ j, TracksV (d j).r (fun s => (fd s j).r) t) (e : ℕ) (ok : FrameOK (fn t e) (fn t (e + 1)))
    (hb : 0 < (((elemFrame (fn t e) (fn t (e + 1))).mulVec (fd t (e + 1)).r).y - ((elemFrame (fn t e) (fn t (e + 1))).mulVec (fd t e).r).y)
            * (((elemFrame (fn t e) (fn t (e + 1))).mulVec (fd t (e + 1)).r).y - ((elemFrame (fn t e) (fn t (e + 1))).mulVec (fd t e).r).y)
          + (((elemFrame (fn t e) (fn t (e + 1))).mulVec (fd t (e + 1)).r).z - ((elemFrame (fn t e) (fn t (e + 1))).mulVec (fd t e).r).z)
            * (((elemFrame (fn t e) (fn t (e + 1))).mulVec (fd t (e + 1)).r).z - ((elemFrame (fn t e) (fn t (e + 1))).mulVec (fd t e).r).z))
    (hv0 : 0 < (vonMisesTube E G (fn t) (fun k => frad k t) (fd t) e).1 * (vonMisesTube E G (fn t) (fun k => frad k t) (fd t) e).1)
    (hv1 : 0 < (vonMisesTube E G (fn t) (fun k => frad k t) (fd t) e).2 * (vonMisesTube E G (fn t) (fun k => frad k t) (fd t) e).2) :
    Tracks (vonMisesTube (⟨E, 0⟩ : Dual ℝ) (⟨G, 0⟩ : Dual ℝ) n rad d e).1
      (fun s => (vonMisesTube E G (fn s) (fun k => frad k s) (fd s) e).1) t ∧
    Tracks (vonMisesTube (⟨E, 0⟩ : Dual ℝ) (⟨G, 0⟩ : Dual ℝ) n rad d e).2
      (fun s => (vonMisesTube E G (fn s) (fun k => frad k s) (fd s) e).2) t := by
  obtain ⟨f0, f1, f2⟩ := elemFrame_exact (hn e) (hn (e + 1)) ok
  have hL := norm_exact (tvSub (hn (e + 1)) (hn e)) ok.len
  have hL0 : V3.norm (fn t (e + 1) - fn t e) ≠ 0 := (Real.sqrt_pos.mpr ok.len).ne'
  simp only [vonMisesTube_core] at hv0 hv1 ⊢
  exact tubeCore_exact E G hL (hrad e) (mulVec_exact f0 f1 f2 (hdu e)) (mulVec_exact f0 f1 f2 (hdr e))
    (mulVec_exact f0 f1 f2 (hdu (e + 1))) (mulVec_exact f0 f1 f2 (hdr (e + 1))) hL0 hb hv0 hv1


/-- tracking of the wingbox section data of one element -/
structure TracksSec (a : WingboxSec (Dual ℝ)) (f : ℝ → WingboxSec ℝ) (t : ℝ) : Prop where
  Qz : Tracks a.Qz (fun s => (f s).Qz) t
  J : Tracks a.J (fun s => (f s).J) t
  Aenc : Tracks a.Aenc (fun s => (f s).Aenc) t
  tspar : Tracks a.tspar (fun s => (f s).tspar) t
  htop : Tracks a.htop (fun s => (f s).htop) t
  hbottom : Tracks a.hbottom (fun s => (f s).hbottom) t
  hfront : Tracks a.hfront (fun s => (f s).hfront) t
  hrear : Tracks a.hrear (fun s => (f s).hrear) t

set_option maxHeartbeats 1000000 in
theorem wingboxCore_exact (E G tssf : ℝ) {L : Dual ℝ} {fL : ℝ → ℝ} {sc : WingboxSec (Dual ℝ)} {fs : ℝ → WingboxSec ℝ}
    {u0 r0 u1 r1 : V3 (Dual ℝ)} {fu0 fr0 fu1 fr1 : ℝ → V3 ℝ}
    (hL : Tracks L fL t) (hs : TracksSec sc fs t) (h1 : TracksV u0 fu0 t) (h2 : TracksV r0 fr0 t) (h3 : TracksV u1 fu1 t)
    (h4 : TracksV r1 fr1 t) (hL0 : fL t ≠ 0) (ht : (fs t).tspar ≠ 0) (hA : (fs t).Aenc ≠ 0) (hk : tssf ≠ 0)
    (p1 : 0 < (wingboxRad E G (fL t) (fs t) (fu0 t) (fr0 t) (fu1 t) (fr1 t)).1)
    (p2 : 0 < (wingboxRad E G (fL t) (fs t) (fu0 t) (fr0 t) (fu1 t) (fr1 t)).2.1)
    (p3 : 0 < (wingboxRad E G (fL t) (fs t) (fu0 t) (fr0 t) (fu1 t) (fr1 t)).2.2.1)
    (p4 : 0 < (wingboxRad E G (fL t) (fs t) (fu0 t) (fr0 t) (fu1 t) (fr1 t)).2.2.2) :
    Tracks (wingboxCore (⟨E, 0⟩ : Dual ℝ) (⟨G, 0⟩ : Dual ℝ) (⟨tssf, 0⟩ : Dual ℝ) L sc u0 r0 u1 r1).1
      (fun s => (wingboxCore E G tssf (fL s) (fs s) (fu0 s) (fr0 s) (fu1 s) (fr1 s)).1) t ∧
    Tracks (wingboxCore (⟨E, 0⟩ : Dual ℝ) (⟨G, 0⟩ : Dual ℝ) (⟨tssf, 0⟩ : Dual ℝ) L sc u0 r0 u1 r1).2.1
      (fun s => (wingboxCore E G tssf (fL s) (fs s) (fu0 s) (fr0 s) (fu1 s) (fr1 s)).2.1) t ∧
    Tracks (wingboxCore (⟨E, 0⟩ : Dual ℝ) (⟨G, 0⟩ : Dual ℝ) (⟨tssf, 0⟩ : Dual ℝ) L sc u0 r0 u1 r1).2.2.1
      (fun s => (wingboxCore E G tssf (fL s) (fs s) (fu0 s) (fr0 s) (fu1 s) (fr1 s)).2.2.1) t ∧
    Tracks (wingboxCore (⟨E, 0⟩ : Dual ℝ) (⟨G, 0⟩ : Dual ℝ) (⟨tssf, 0⟩ : Dual ℝ) L sc u0 r0 u1 r1).2.2.2
      (fun s => (wingboxCore E G tssf (fL s) (fs s) (fu0 s) (fr0 s) (fu1 s) (fr1 s)).2.2.2) t := by
  have a1 := h1.x; have a2 := h1.y; have a3 := h1.z; have b1 := h2.x; have b2 := h2.y; have b3 := h2.z
  have c1 := h3.x; have c2 := h3.y; have c3 := h3.z; have d1 := h4.x; have d2 := h4.y; have d3 := h4.z
  have s1 := hs.Qz; have s2 := hs.J; have s3 := hs.Aenc; have s4 := hs.tspar; have s5 := hs.htop; have s6 := hs.hbottom
  have s7 := hs.hfront; have s8 := hs.hrear
  have n2 : ((2 : ℕ) : ℝ) ≠ 0 := by norm_num
  have hLL := mul_ne_zero hL0 hL0
  have hLLL := mul_ne_zero hLL hL0
  have h2t := mul_ne_zero n2 ht
  refine ⟨?_, ?_, ?_, ?_⟩ <;> simp only [wingboxCore, wingboxRad] at p1 p2 p3 p4 ⊢ <;> track

/-- **`VonMisesWingbox`**: the four von Mises stresses of every element, w.r.t. nodes, section data and the
displacement field -/
theorem vonMisesWingbox_exact (E G tssf : ℝ) {n : Pts (Dual ℝ)} {fn : ℝ → Pts ℝ} {sc : ℕ → WingboxSec (Dual ℝ)}
    {fs : ℝ → ℕ → WingboxSec ℝ} {d : ℕ → Disp (Dual ℝ)} {fd : ℝ → ℕ → Disp ℝ}
    (hn : ∀ j, TracksV (n j) (fun s => fn s j) t) (hs : ∀ e, TracksSec (sc e) (fun s => fs s e) t)
    (hdu : ∀ j, TracksV (d j).u (fun s => (fd s j).u) t) (hdr : ∀ j, TracksV (d j).r (fun s => (fd s j).r) t) (e : ℕ)
    (ok : FrameOK (fn t e) (fn t (e + 1))) (ht : (fs t e).tspar ≠ 0) (hA : (fs t e).Aenc ≠ 0) (hk : tssf ≠ 0)
    (hpos : ∀ q, q = wingboxRad E G (V3.norm (fn t (e + 1) - fn t e)) (fs t e)
        ((elemFrame (fn t e) (fn t (e + 1))).mulVec (fd t e).u) ((elemFrame (fn t e) (fn t (e + 1))).mulVec (fd t e).r)
        ((elemFrame (fn t e) (fn t (e + 1))).mulVec (fd t (e + 1)).u) ((elemFrame (fn t e) (fn t (e + 1))).mulVec (fd t (e + 1)).r) →
      0 < q.1 ∧ 0 < q.2.1 ∧ 0 < q.2.2.1 ∧ 0 < q.2.2.2) :
    Tracks (vonMisesWingbox (⟨E, 0⟩ : Dual ℝ) (⟨G, 0⟩ : Dual ℝ) (⟨tssf, 0⟩ : Dual ℝ) n sc d e).1
      (fun s => (vonMisesWingbox E G tssf (fn s) (fs s) (fd s) e).1) t ∧
    Tracks (vonMisesWingbox (⟨E, 0⟩ : Dual ℝ) (⟨G, 0⟩ : Dual ℝ) (⟨tssf, 0⟩ : Dual ℝ) n sc d e).2.1
      (fun s => (vonMisesWingbox E G tssf (fn s) (fs s) (fd s) e).2.1) t ∧
    Tracks (vonMisesWingbox (⟨E, 0⟩ : Dual ℝ) (⟨G, 0⟩ : Dual ℝ) (⟨tssf, 0⟩ : Dual ℝ) n sc d e).2.2.1
      (fun s => (vonMisesWingbox E G tssf (fn s) (fs s) (fd s) e).2.2.1) t ∧
    Tracks (vonMisesWingbox (⟨E, 0⟩ : Dual ℝ) (⟨G, 0⟩ : Dual ℝ) (⟨tssf, 0⟩ : Dual ℝ) n sc d e).2.2.2
      (fun s => (vonMisesWingbox E G tssf (fn s) (fs s) (fd s) e).2.2.2) t := by
  obtain ⟨f0, f1, f2⟩ := elemFrame_exact (hn e) (hn (e + 1)) ok
  have hL := norm_exact (tvSub (hn (e + 1)) (hn e)) ok.len
  have hL0 : V3.norm (fn t (e + 1) - fn t e) ≠ 0 := (Real.sqrt_pos.mpr ok.len).ne'
  obtain ⟨p1, p2, p3, p4⟩ := hpos _ rfl
  simp only [vonMisesWingbox_core]
  exact wingboxCore_exact E G tssf hL (hs e) (mulVec_exact f0 f1 f2 (hdu e)) (mulVec_exact f0 f1 f2 (hdr e))
    (mulVec_exact f0 f1 f2 (hdu (e + 1))) (mulVec_exact f0 f1 f2 (hdr (e + 1))) hL0 ht hA hk p1 p2 p3 p4

end C01AD
end OAS
