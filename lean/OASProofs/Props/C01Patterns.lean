import OASProofs.Lemmas.Basic
import OASProofs.Lemmas.Real

/-!
# C01 (continued)  Declared sparsity patterns are the Jacobian of the model, for every size

`MonotonicConstraint.setup` declares constant partials through hand-built `rows`, `cols`, `sparse_val` arrays whose sign flip
starts at an index that depends on the parity of `ny`.  `Glue.monoRow/monoCol/monoVal` transliterate those arrays (compared
**exactly** with the arrays the real component declares on every run); the theorem shows that, for every `ny` and both settings of
the symmetry flag, expanding the pattern gives the model output – which is linear in the input – i.e. the declared pattern *is*
the Jacobian of `MonotonicConstraint.compute`: no missing, misplaced or wrong-signed entry for any size or parity.
-/
set_option linter.unusedSectionVars false
set_option linter.unusedSimpArgs false
namespace OAS
namespace C01Patterns
open Finset Glue VLM

/-- a sum over `2m` consecutive entries taken in pairs -/
theorem sum_pairs (m : ℕ) (f : ℕ → ℝ) : ∑ k ∈ range (2 * m), f k = ∑ r ∈ range m, (f (2 * r) + f (2 * r + 1)) := by
  induction m with
  | zero => simp
  | succ m ih =>
    rw [show 2 * (m + 1) = 2 * m + 1 + 1 by ring, Finset.sum_range_succ, Finset.sum_range_succ, ih, Finset.sum_range_succ]
    ring

theorem flip_even (ny r : ℕ) : monoFlipFrom ny ≤ 2 * r ↔ (ny - 1) / 2 ≤ r := by
  unfold monoFlipFrom; split <;> omega

theorem flip_odd (ny r : ℕ) : monoFlipFrom ny ≤ 2 * r + 1 ↔ (ny - 1) / 2 ≤ r := by
  unfold monoFlipFrom; split <;> omega

/-- **the declared pattern of `MonotonicConstraint` expands to its output** (hence is its Jacobian, the output being linear):
row `i` of `Σ_k [rows k = i] · val k · v (cols k)` is `monotonic ny sym v i`, for every `ny`, both symmetry settings -/
theorem c01_monotonic_pattern (ny : ℕ) (sym : Bool) (v : ℕ → ℝ) (i : ℕ) (hi : i < ny - 1) :
    monotonic ny sym v i = ∑ k ∈ range (2 * (ny - 1)), if monoRow k = i then monoVal ny sym k * v (monoCol k) else 0 := by
  rw [sum_pairs]
  have hrow0 : ∀ r, monoRow (2 * r) = r := fun r => by unfold monoRow; omega
  have hrow1 : ∀ r, monoRow (2 * r + 1) = r := fun r => by unfold monoRow; omega
  have hcol0 : ∀ r, monoCol (2 * r) = r := fun r => by unfold monoCol; omega
  have hcol1 : ∀ r, monoCol (2 * r + 1) = r + 1 := fun r => by unfold monoCol; omega
  have hpair : ∀ r, ((if monoRow (2 * r) = i then monoVal ny sym (2 * r) * v (monoCol (2 * r)) else 0)
      + (if monoRow (2 * r + 1) = i then monoVal ny sym (2 * r + 1) * v (monoCol (2 * r + 1)) else 0))
      = if r = i then monotonic ny sym v r else 0 := by
    intro r
    rw [hrow0, hrow1, hcol0, hcol1]
    by_cases h : r = i
    · simp only [h, if_true]
      have e0 : (2 * i) % 2 = 0 := by omega
      have e1 : ¬ ((2 * i + 1) % 2 = 0) := by omega
      unfold monoVal monotonic
      simp only [e0, e1, if_true, if_false, flip_even, flip_odd]
      cases sym
      · by_cases hh : i < (ny - 1) / 2
        · have : ¬ ((ny - 1) / 2 ≤ i) := by omega
          simp [hh, this]; ring
        · have : (ny - 1) / 2 ≤ i := by omega
          simp [hh, this]; ring
      · simp; ring
    · simp [h]
  rw [Finset.sum_congr rfl (fun r _ => hpair r), Finset.sum_ite_eq' (range (ny - 1)) i]
  simp [Finset.mem_range.mpr hi]

/-- every declared entry lies inside the `[ny − 1, ny]` Jacobian -/
theorem c01_monotonic_pattern_in_range (ny k : ℕ) (hk : k < 2 * (ny - 1)) : monoRow k < ny - 1 ∧ monoCol k < ny := by
  unfold monoRow monoCol; omega

/-- no entry is declared twice -/
theorem c01_monotonic_pattern_injective (k k' : ℕ) (h : monoRow k = monoRow k') (h' : monoCol k = monoCol k') : k = k' := by
  unfold monoRow monoCol at *; omega

/-! ### RadiusComp: the declared columns of `d radius / d mesh` are exactly the nodes the radius depends on -/
open Wingbox in
/-- **locality**: the radius of element `j` depends only on the leading- and trailing-edge nodes of stations `j` and `j + 1` -/
theorem c01_radius_local (nx : ℕ) (m m' : Mesh ℝ) (tc : ℕ → ℝ) (j : ℕ)
    (h1 : m 0 j = m' 0 j) (h2 : m 0 (j + 1) = m' 0 (j + 1)) (h3 : m (nx - 1) j = m' (nx - 1) j)
    (h4 : m (nx - 1) (j + 1) = m' (nx - 1) (j + 1)) : radii nx m tc j = radii nx m' tc j := by
  unfold radii streamwiseChord chordLen
  rw [h1, h2, h3, h4]

/-- flattened index of `mesh[i, j, d]` in an `[nx, ny, 3]` array -/
def flat (ny i j d : ℕ) : ℕ := 3 * (i * ny + j) + d

/-- **the declared pattern names exactly those nodes**: entry `k` of row `j` (`k = 6 j + q`, `q < 6`) in the first half is coordinate
`q % 3` of the leading-edge node `j + q / 3`, the same entry in the second half is that coordinate of the trailing-edge node -/
theorem c01_radius_pattern (nx ny j q : ℕ) (hj : j < ny - 1) (hq : q < 6) :
    radRow ny (6 * j + q) = j ∧ radCol nx ny (6 * j + q) = flat ny 0 (j + q / 3) (q % 3) ∧
    radRow ny (6 * (ny - 1) + (6 * j + q)) = j ∧
    radCol nx ny (6 * (ny - 1) + (6 * j + q)) = flat ny (nx - 1) (j + q / 3) (q % 3) := by
  have hlt : 6 * j + q < 6 * (ny - 1) := by omega
  have hm1 : (6 * j + q) % (6 * (ny - 1)) = 6 * j + q := Nat.mod_eq_of_lt hlt
  have hm2 : (6 * (ny - 1) + (6 * j + q)) % (6 * (ny - 1)) = 6 * j + q := by
    rw [Nat.add_mod_left, hm1]
  have hd : (6 * j + q) / 6 = j := by omega
  have hr : (6 * j + q) % 6 = q := by omega
  have hge : ¬ (6 * (ny - 1) + (6 * j + q) < 6 * (ny - 1)) := by omega
  refine ⟨?_, ?_, ?_, ?_⟩
  · simp only [radRow, hm1, hd]
  · simp only [radCol, hm1, hd, hr, hlt, if_true, flat]; omega
  · simp only [radRow, hm2, hd]
  · simp only [radCol, hm2, hd, hr, hge, if_false, flat]
    have : (nx - 1) * 3 * ny = 3 * ((nx - 1) * ny) := by ring
    omega

/-- every declared entry is inside the `[ny − 1, 3 nx ny]` Jacobian (for `nx ≥ 1`) -/
theorem c01_radius_pattern_in_range (nx ny j q : ℕ) (hnx : 1 ≤ nx) (hj : j < ny - 1) (hq : q < 6) :
    flat ny 0 (j + q / 3) (q % 3) < 3 * (nx * ny) ∧ flat ny (nx - 1) (j + q / 3) (q % 3) < 3 * (nx * ny) := by
  unfold flat
  obtain ⟨n, rfl⟩ : ∃ n, nx = n + 1 := ⟨nx - 1, by omega⟩
  have h1 : j + q / 3 < ny := by omega
  have h2 : q % 3 < 3 := Nat.mod_lt _ (by norm_num)
  constructor
  · have : 3 * ((n + 1) * ny) = 3 * (n * ny) + 3 * ny := by ring
    nlinarith
  · have : 3 * ((n + 1) * ny) = 3 * (n * ny) + 3 * ny := by ring
    simp only [Nat.add_sub_cancel]
    nlinarith


/-! ### ComputeNodes: the declared constant partials are the Jacobian of the model, for every mesh size -/

/-- C-order flattening of an `[nx, ny, 3]` mesh and of an `[ny, 3]` array -/
def meshFlat (ny : ℕ) (m : Mesh ℝ) (idx : ℕ) : ℝ := (m (idx / 3 / ny) (idx / 3 % ny)).get (idx % 3)
def ptsFlat (p : Pts ℝ) (r : ℕ) : ℝ := (p (r / 3)).get (r % 3)

theorem get_add_smul (a b : ℝ) (u v : V3 ℝ) (c : ℕ) : (V3.smul a u + V3.smul b v).get c = a * u.get c + b * v.get c := by
  show (V3.add (V3.smul a u) (V3.smul b v)).get c = _
  unfold V3.get V3.add V3.smul
  split_ifs <;> rfl

/-- **the declared `rows/cols/val` of `ComputeNodes` expand to its output** (hence are its Jacobian, the output being linear in the
mesh): for every `nx`, `ny`, spar location `w` and flattened output index `r` -/
theorem c01_compute_nodes_pattern (nx ny : ℕ) (w : ℝ) (m : Mesh ℝ) (r : ℕ) (hr : r < 3 * ny) :
    ptsFlat (computeNodes nx w m) r =
      ∑ k ∈ range (2 * (3 * ny)), if nodesRow ny k = r then nodesVal ny w k * meshFlat ny m (nodesCol nx ny k) else 0 := by
  have hny : 0 < ny := by omega
  have hq : r / 3 < ny := by omega
  rw [two_mul, Finset.sum_range_add]
  have h1 : ∀ k ∈ range (3 * ny), (if nodesRow ny k = r then nodesVal ny w k * meshFlat ny m (nodesCol nx ny k) else 0)
      = if k = r then (1 - w) * meshFlat ny m k else 0 := by
    intro k hk
    have hk' : k < 3 * ny := Finset.mem_range.mp hk
    simp only [nodesRow, nodesVal, nodesCol, Nat.mod_eq_of_lt hk', hk', if_true]
  have h2 : ∀ k ∈ range (3 * ny), (if nodesRow ny (3 * ny + k) = r then nodesVal ny w (3 * ny + k) * meshFlat ny m (nodesCol nx ny (3 * ny + k)) else 0)
      = if k = r then w * meshFlat ny m (k + (nx - 1) * (3 * ny)) else 0 := by
    intro k hk
    have hk' : k < 3 * ny := Finset.mem_range.mp hk
    have hn : ¬ (3 * ny + k < 3 * ny) := by omega
    have hm : (3 * ny + k) % (3 * ny) = k := by rw [Nat.add_mod_left, Nat.mod_eq_of_lt hk']
    have hs : 3 * ny + k - 3 * ny = k := by omega
    simp only [nodesRow, nodesVal, nodesCol, hn, hm, hs, if_false]
  rw [Finset.sum_congr rfl h1, Finset.sum_congr rfl h2, Finset.sum_ite_eq' (range (3 * ny)) r, Finset.sum_ite_eq' (range (3 * ny)) r]
  simp only [Finset.mem_range.mpr hr, if_true]
  -- the two flattened mesh entries are the leading- and trailing-edge nodes of station r / 3
  have e0 : meshFlat ny m r = (m 0 (r / 3)).get (r % 3) := by
    unfold meshFlat
    rw [Nat.div_eq_of_lt hq, Nat.mod_eq_of_lt hq]
  have e1 : meshFlat ny m (r + (nx - 1) * (3 * ny)) = (m (nx - 1) (r / 3)).get (r % 3) := by
    unfold meshFlat
    have a1 : (r + (nx - 1) * (3 * ny)) / 3 = r / 3 + (nx - 1) * ny := by
      have : (nx - 1) * (3 * ny) = 3 * ((nx - 1) * ny) := by ring
      rw [this]; omega
    have a2 : (r + (nx - 1) * (3 * ny)) % 3 = r % 3 := by
      have : (nx - 1) * (3 * ny) = 3 * ((nx - 1) * ny) := by ring
      rw [this]; omega
    rw [a1, a2, Nat.add_mul_div_right _ _ hny, Nat.add_mul_mod_self_right, Nat.div_eq_of_lt hq, Nat.mod_eq_of_lt hq, Nat.zero_add]
  rw [e0, e1]
  unfold ptsFlat computeNodes
  exact get_add_smul _ _ _ _ _

/-- every declared entry lies inside the `[3 ny, 3 nx ny]` Jacobian -/
theorem c01_compute_nodes_pattern_in_range (nx ny k : ℕ) (hx : 1 ≤ nx) (hk : k < 2 * (3 * ny)) :
    nodesRow ny k < 3 * ny ∧ nodesCol nx ny k < nx * (3 * ny) := by
  have hny : 0 < 3 * ny := by omega
  refine ⟨Nat.mod_lt _ hny, ?_⟩
  unfold nodesCol
  obtain ⟨p, rfl⟩ : ∃ p, nx = p + 1 := ⟨nx - 1, by omega⟩
  simp only [Nat.add_sub_cancel, Nat.add_mul, Nat.one_mul]
  split <;> omega


/-! ### CollocationPoints: the declared constant partials are the Jacobian of the model, for every mesh size and row offset -/

theorem get_add4 (a b c d : ℝ) (u v w x : V3 ℝ) (k : ℕ) :
    (V3.smul a u + V3.smul b v + V3.smul c w + V3.smul d x).get k = a * u.get k + b * v.get k + c * w.get k + d * x.get k := by
  show (V3.add (V3.add (V3.add (V3.smul a u) (V3.smul b v)) (V3.smul c w)) (V3.smul d x)).get k = _
  unfold V3.get V3.add V3.smul
  split_ifs <;> rfl

/-- flattened mesh entry of node `(i, j)`, component `c`, `j < ny` -/
theorem meshFlat_node (ny : ℕ) (m : Mesh ℝ) (i j c : ℕ) (hj : j < ny) (hc : c < 3) :
    meshFlat ny m ((i * ny + j) * 3 + c) = (m i j).get c := by
  unfold meshFlat
  have a1 : ((i * ny + j) * 3 + c) / 3 = i * ny + j := by omega
  have a2 : ((i * ny + j) * 3 + c) % 3 = c := by omega
  have hny : 0 < ny := by omega
  rw [a1, a2, Nat.add_comm (i * ny) j, Nat.add_mul_div_right _ _ hny, Nat.add_mul_mod_self_right, Nat.div_eq_of_lt hj,
    Nat.mod_eq_of_lt hj, Nat.zero_add]

/-- panel `(i, j)`, component `c` ↦ flattened local index, and back -/
theorem panel_index (ny1 i j c : ℕ) (hj : j < ny1) (hc : c < 3) :
    ((i * ny1 + j) * 3 + c) / 3 / ny1 = i ∧ ((i * ny1 + j) * 3 + c) / 3 % ny1 = j ∧ ((i * ny1 + j) * 3 + c) % 3 = c := by
  have a1 : ((i * ny1 + j) * 3 + c) / 3 = i * ny1 + j := by omega
  have hny : 0 < ny1 := by omega
  refine ⟨?_, ?_, by omega⟩
  · rw [a1, Nat.add_comm, Nat.add_mul_div_right _ _ hny, Nat.div_eq_of_lt hj, Nat.zero_add]
  · rw [a1, Nat.add_comm, Nat.add_mul_mod_self_right, Nat.mod_eq_of_lt hj]

/-- one block of the pattern: entries `b·m … b·m + m − 1` -/
theorem block_sum (m b r : ℕ) (hr : r < m) (g : ℕ → ℕ → ℝ) :
    (∑ x ∈ range m, if x = r then g b x else 0) = g b r := by
  rw [Finset.sum_ite_eq' (range m) r]; simp [Finset.mem_range.mpr hr]

theorem div_mod_block (m b x : ℕ) (hx : x < m) : (b * m + x) / m = b ∧ (b * m + x) % m = x := by
  have hm : 0 < m := by omega
  constructor
  · rw [Nat.add_comm, Nat.add_mul_div_right _ _ hm, Nat.div_eq_of_lt hx, Nat.zero_add]
  · rw [Nat.add_comm, Nat.add_mul_mod_self_right, Nat.mod_eq_of_lt hx]

/-- the pattern sum, block by block -/
theorem sum_four_blocks (m : ℕ) (f : ℕ → ℝ) :
    ∑ k ∈ range (4 * m), f k = ∑ x ∈ range m, (f (0 * m + x) + f (1 * m + x) + f (2 * m + x) + f (3 * m + x)) := by
  have e : 4 * m = m + m + m + m := by ring
  rw [e, Finset.sum_range_add, Finset.sum_range_add, Finset.sum_range_add, ← Finset.sum_add_distrib, ← Finset.sum_add_distrib,
    ← Finset.sum_add_distrib]
  refine Finset.sum_congr rfl fun x _ => ?_
  have e1 : 1 * m + x = m + x := by ring
  have e2 : 2 * m + x = m + m + x := by ring
  have e3 : 3 * m + x = m + m + m + x := by ring
  rw [e1, e2, e3]; simp

/-- **the declared `rows/cols/val` of `CollocationPoints` expand to its three outputs** (hence are their Jacobians, the outputs being
linear in the mesh): for every `nx, ny`, every row offset `off`, every panel `(i, j)` and component `c` -/
theorem c01_collocation_pattern (which : ℕ) (s : Surf ℝ) (off i j c : ℕ) (hi : i < s.nx - 1) (hj : j < s.ny - 1) (hc : c < 3) :
    (if which = 0 then collPt s i j else if which = 1 then forcePt s i j else boundVec s i j).get c =
      ∑ k ∈ range (4 * (3 * ((s.nx - 1) * (s.ny - 1)))),
        if collRow s.nx s.ny off k = off + ((i * (s.ny - 1) + j) * 3 + c) then
          collVal which s.nx s.ny k * meshFlat s.ny s.mesh (collCol s.nx s.ny k) else 0 := by
  set ny1 := s.ny - 1 with hny1
  set m := 3 * ((s.nx - 1) * ny1) with hm
  set r := (i * ny1 + j) * 3 + c with hr
  have hrm : r < m := by
    have : i * ny1 + j < (s.nx - 1) * ny1 := by
      calc i * ny1 + j < i * ny1 + ny1 := by omega
        _ = (i + 1) * ny1 := by ring
        _ ≤ (s.nx - 1) * ny1 := Nat.mul_le_mul_right _ (by omega)
    omega
  obtain ⟨p1, p2, p3⟩ : r / 3 / ny1 = i ∧ r / 3 % ny1 = j ∧ r % 3 = c := panel_index ny1 i j c hj hc
  have hjy : j < s.ny := by omega
  have hjy1 : j + 1 < s.ny := by omega
  rw [sum_four_blocks]
  have key : ∀ x ∈ range m, ∀ b, b < 4 →
      (if collRow s.nx s.ny off (b * m + x) = off + r then
          collVal which s.nx s.ny (b * m + x) * meshFlat s.ny s.mesh (collCol s.nx s.ny (b * m + x)) else 0)
      = if x = r then collVal which s.nx s.ny (b * m + r) * meshFlat s.ny s.mesh (collCol s.nx s.ny (b * m + r)) else 0 := by
    intro x hx b _
    have hx' : x < m := Finset.mem_range.mp hx
    have hrow : collRow s.nx s.ny off (b * m + x) = off + x := by
      unfold collRow; rw [← hny1, ← hm, (div_mod_block m b x hx').2]
    rw [hrow]
    by_cases h : x = r
    · subst h; simp
    · have : ¬ (off + x = off + r) := by omega
      simp [h, this]
  rw [Finset.sum_congr rfl (fun x hx => by rw [key x hx 0 (by omega), key x hx 1 (by omega), key x hx 2 (by omega), key x hx 3 (by omega)])]
  simp only [← Finset.sum_add_distrib.symm, Finset.sum_add_distrib, Finset.sum_ite_eq' (range m) r, Finset.mem_range.mpr hrm, if_true]
  -- the four columns are the four corner nodes of panel (i, j)
  have col : ∀ b, b < 4 → collCol s.nx s.ny (b * m + r)
      = ((i + (if b % 2 = 1 then 1 else 0)) * s.ny + (j + (if 2 ≤ b then 1 else 0))) * 3 + c := by
    intro b _
    unfold collCol
    simp only [← hny1, ← hm, (div_mod_block m b r hrm).1, (div_mod_block m b r hrm).2, p1, p2, p3]
  have val : ∀ b, collVal which s.nx s.ny (b * m + r) = collVal which s.nx s.ny (b * m + r) := fun _ => rfl
  have bdiv : ∀ b, (b * m + r) / (3 * ((s.nx - 1) * (s.ny - 1))) = b := fun b => by rw [← hny1, ← hm]; exact (div_mod_block m b r hrm).1
  rw [col 0 (by omega), col 1 (by omega), col 2 (by omega), col 3 (by omega)]
  simp only [show (0 : ℕ) % 2 = 1 ↔ False by decide, show (1 : ℕ) % 2 = 1 ↔ True by decide, show (2 : ℕ) % 2 = 1 ↔ False by decide,
    show (3 : ℕ) % 2 = 1 ↔ True by decide, show (2 : ℕ) ≤ 0 ↔ False by decide, show (2 : ℕ) ≤ 1 ↔ False by decide,
    show (2 : ℕ) ≤ 2 ↔ True by decide, show (2 : ℕ) ≤ 3 ↔ True by decide, if_true, if_false, Nat.add_zero]
  rw [meshFlat_node s.ny s.mesh i j c hjy hc, meshFlat_node s.ny s.mesh (i + 1) j c hjy hc,
    meshFlat_node s.ny s.mesh i (j + 1) c hjy1 hc, meshFlat_node s.ny s.mesh (i + 1) (j + 1) c hjy1 hc]
  unfold collVal
  simp only [bdiv]
  rcases Nat.lt_or_ge which 1 with h0 | h0
  · have : which = 0 := by omega
    subst this
    show (collPt s i j).get c = _
    unfold collPt; rw [get_add4]
    norm_num
  · rcases Nat.lt_or_ge which 2 with h1 | h1
    · have : which = 1 := by omega
      subst this
      show (forcePt s i j).get c = _
      unfold forcePt; rw [get_add4]
      norm_num
    · have w0 : ¬ which = 0 := by omega
      have w1 : ¬ which = 1 := by omega
      simp only [w0, w1, if_false]
      unfold boundVec; rw [get_add4]
      norm_num

end C01Patterns
end OAS
