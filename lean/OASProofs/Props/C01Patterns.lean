import OASProofs.Lemmas.Basic
import OASProofs.Lemmas.Real

/-!
# C01 (continued)  Declared sparsity patterns are the Jacobian of the model, for every size

`MonotonicConstraint.setup` declares constant partials through hand-built `rows`, `cols`, `sparse_val` arrays whose sign flip
starts at an index that depends on the parity of `ny`.  `Glue.monoRow/monoCol/monoVal` transliterate those arrays (compared
**exactly** with the arrays the real component declares on every run); the theorem shows that, for every `ny` and both settings of
the symmetry flag, expanding the pattern gives the model output – which is linear in the input – i.e. the declared pattern *is*
the Jacobian of `MonotonicConstraint.compute`: no missing, misplaced or wrong-signed entry for any size or parity.
-/
set_option linter.unusedSectionVars false
set_option linter.unusedSimpArgs false
namespace OAS
namespace C01Patterns
open Finset Glue

/-- a sum over `2m` consecutive entries taken in pairs -/
theorem sum_pairs (m : ℕ) (f : ℕ → ℝ) : ∑ k ∈ range (2 * m), f k = ∑ r ∈ range m, (f (2 * r) + f (2 * r + 1)) := by
  induction m with
  | zero => simp
  | succ m ih =>
    rw [show 2 * (m + 1) = 2 * m + 1 + 1 by ring, Finset.sum_range_succ, Finset.sum_range_succ, ih, Finset.sum_range_succ]
    ring

theorem flip_even (ny r : ℕ) : monoFlipFrom ny ≤ 2 * r ↔ (ny - 1) / 2 ≤ r := by
  unfold monoFlipFrom; split <;> omega

theorem flip_odd (ny r : ℕ) : monoFlipFrom ny ≤ 2 * r + 1 ↔ (ny - 1) / 2 ≤ r := by
  unfold monoFlipFrom; split <;> omega

/-- **the declared pattern of `MonotonicConstraint` expands to its output** (hence is its Jacobian, the output being linear):
row `i` of `Σ_k [rows k = i] · val k · v (cols k)` is `monotonic ny sym v i`, for every `ny`, both symmetry settings -/
theorem c01_monotonic_pattern (ny : ℕ) (sym : Bool) (v : ℕ → ℝ) (i : ℕ) (hi : i < ny - 1) :
    monotonic ny sym v i = ∑ k ∈ range (2 * (ny - 1)), if monoRow k = i then monoVal ny sym k * v (monoCol k) else 0 := by
  rw [sum_pairs]
  have hrow0 : ∀ r, monoRow (2 * r) = r := fun r => by unfold monoRow; omega
  have hrow1 : ∀ r, monoRow (2 * r + 1) = r := fun r => by unfold monoRow; omega
  have hcol0 : ∀ r, monoCol (2 * r) = r := fun r => by unfold monoCol; omega
  have hcol1 : ∀ r, monoCol (2 * r + 1) = r + 1 := fun r => by unfold monoCol; omega
  have hpair : ∀ r, ((if monoRow (2 * r) = i then monoVal ny sym (2 * r) * v (monoCol (2 * r)) else 0)
      + (if monoRow (2 * r + 1) = i then monoVal ny sym (2 * r + 1) * v (monoCol (2 * r + 1)) else 0))
      = if r = i then monotonic ny sym v r else 0 := by
    intro r
    rw [hrow0, hrow1, hcol0, hcol1]
    by_cases h : r = i
    · simp only [h, if_true]
      have e0 : (2 * i) % 2 = 0 := by omega
      have e1 : ¬ ((2 * i + 1) % 2 = 0) := by omega
      unfold monoVal monotonic
      simp only [e0, e1, if_true, if_false, flip_even, flip_odd]
      cases sym
      · by_cases hh : i < (ny - 1) / 2
        · have : ¬ ((ny - 1) / 2 ≤ i) := by omega
          simp [hh, this]; ring
        · have : (ny - 1) / 2 ≤ i := by omega
          simp [hh, this]; ring
      · simp; ring
    · simp [h]
  rw [Finset.sum_congr rfl (fun r _ => hpair r), Finset.sum_ite_eq' (range (ny - 1)) i]
  simp [Finset.mem_range.mpr hi]

/-- every declared entry lies inside the `[ny − 1, ny]` Jacobian -/
theorem c01_monotonic_pattern_in_range (ny k : ℕ) (hk : k < 2 * (ny - 1)) : monoRow k < ny - 1 ∧ monoCol k < ny := by
  unfold monoRow monoCol; omega

/-- no entry is declared twice -/
theorem c01_monotonic_pattern_injective (k k' : ℕ) (h : monoRow k = monoRow k') (h' : monoCol k = monoCol k') : k = k' := by
  unfold monoRow monoCol at *; omega

end C01Patterns
end OAS
