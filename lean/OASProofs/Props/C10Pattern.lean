import OASProofs.Props.C10

/-!
# C10 (continued)  The sparse assembly of the stiffness matrix

`FEM.setup` builds the coordinate lists `k_rows`, `k_cols` of the global matrix from seven hand-written blocks of
`tile/repeat/arange` arithmetic, and `assemble_CSC_K` fills the matching data blocks from slices of the element matrices; scipy
sums duplicates.  `coo` is the transliteration of that coordinate list (block by block, compared **exactly** – rows, columns and
data – with `k_rows/k_cols/k_data` of the real component on every run); the theorem shows that summing the list entry by entry gives
the dense matrix `FEM.assembleK` that every other C10 / C02 theorem is about (symmetry, clamped root, equilibrium), for every
number of nodes.
-/
set_option linter.unusedSectionVars false
set_option linter.unusedSimpArgs false
namespace OAS
namespace C10Pattern
open Finset FEM

/-- indicator of one coordinate -/
noncomputable def at_ (r c r' c' : ℕ) (v : ℝ) : ℝ := if r' = r ∧ c' = c then v else 0

/-- a 6×6 block of coordinates starting at `(r0, c0)` with values `v a b` -/
noncomputable def blk (r c r0 c0 : ℕ) (v : ℕ → ℕ → ℝ) : ℝ := ∑ a ∈ range 6, ∑ b ∈ range 6, at_ r c (r0 + a) (c0 + b) (v a b)

/-- the dense matrix obtained by summing the coordinate list of `FEM.setup` / `assemble_CSC_K`
(blocks 1–5 and the two `1e9` constraint blocks) -/
noncomputable def coo (ny idx : ℕ) (kloc : ℕ → ℕ → ℕ → ℝ) (r c : ℕ) : ℝ :=
  (∑ e ∈ range (ny - 1), blk r c (6 * e) (6 * e + 6) (fun a b => kloc e a (6 + b)))          -- data1 = k_loc[:, :6, 6:]
  + (∑ e ∈ range (ny - 1), blk r c (6 * e + 6) (6 * e) (fun a b => kloc e (6 + a) b))        -- data2 = k_loc[:, 6:, :6]
  + blk r c 0 0 (fun a b => kloc 0 a b)                                                       -- data3 = k_loc[0, :6, :6]
  + blk r c (6 * (ny - 1)) (6 * (ny - 1)) (fun a b => kloc (ny - 2) (6 + a) (6 + b))         -- data4 = k_loc[-1, 6:, 6:]
  + (∑ e ∈ range (ny - 2), blk r c (6 * e + 6) (6 * e + 6) (fun a b => kloc e (6 + a) (6 + b) + kloc (e + 1) a b))  -- data5
  + (∑ a ∈ range 6, at_ r c (6 * idx + a) (6 * ny + a) 1000000000)                            -- rows6, cols6
  + (∑ a ∈ range 6, at_ r c (6 * ny + a) (6 * idx + a) 1000000000)                            -- cols6, rows6

/-- one element's 12×12 window as four 6×6 blocks -/
theorem window_split (kl : ℕ → ℕ → ℝ) (e r c : ℕ) :
    (if 6 * e ≤ r ∧ r < 6 * e + 12 ∧ 6 * e ≤ c ∧ c < 6 * e + 12 then kl (r - 6 * e) (c - 6 * e) else 0)
      = blk r c (6 * e) (6 * e) (fun a b => kl a b) + blk r c (6 * e) (6 * e + 6) (fun a b => kl a (6 + b))
        + blk r c (6 * e + 6) (6 * e) (fun a b => kl (6 + a) b) + blk r c (6 * e + 6) (6 * e + 6) (fun a b => kl (6 + a) (6 + b)) := by
  have key : ∀ (r0 c0 : ℕ) (v : ℕ → ℕ → ℝ),
      blk r c r0 c0 v = if r0 ≤ r ∧ r < r0 + 6 ∧ c0 ≤ c ∧ c < c0 + 6 then v (r - r0) (c - c0) else 0 := by
    intro r0 c0 v
    unfold blk at_
    by_cases h : r0 ≤ r ∧ r < r0 + 6 ∧ c0 ≤ c ∧ c < c0 + 6
    · obtain ⟨h1, h2, h3, h4⟩ := h
      rw [if_pos ⟨h1, h2, h3, h4⟩]
      rw [Finset.sum_eq_single (r - r0)]
      · rw [Finset.sum_eq_single (c - c0)]
        · have e1 : r0 + (r - r0) = r := by omega
          have e2 : c0 + (c - c0) = c := by omega
          simp [e1, e2]
        · intro b _ hb
          have : ¬ (c0 + b = c) := by omega
          simp [this]
        · intro hb; exact absurd (Finset.mem_range.mpr (by omega)) hb
      · intro a _ ha
        have : ¬ (r0 + a = r) := by omega
        simp [this]
      · intro ha; exact absurd (Finset.mem_range.mpr (by omega)) ha
    · rw [if_neg h]
      apply Finset.sum_eq_zero; intro a ha
      apply Finset.sum_eq_zero; intro b hb
      have ha' := Finset.mem_range.mp ha; have hb' := Finset.mem_range.mp hb
      have : ¬ (r0 + a = r ∧ c0 + b = c) := by
        rintro ⟨h1, h2⟩; exact h ⟨by omega, by omega, by omega, by omega⟩
      simp [this]
  rw [key, key, key, key]
  split_ifs <;> first
    | (exfalso; omega)
    | (simp only [add_zero, zero_add]; congr 1 <;> omega)
    | simp

theorem blk_add (r c r0 c0 : ℕ) (v w : ℕ → ℕ → ℝ) :
    blk r c r0 c0 (fun a b => v a b + w a b) = blk r c r0 c0 v + blk r c r0 c0 w := by
  unfold blk at_
  rw [← Finset.sum_add_distrib]
  refine Finset.sum_congr rfl (fun a _ => ?_)
  rw [← Finset.sum_add_distrib]
  refine Finset.sum_congr rfl (fun b _ => ?_)
  split_ifs <;> simp

/-- the two constraint blocks: one coordinate pair per clamped degree of freedom, each way round -/
theorem constraint_eq (ny idx r c : ℕ) (hidx : idx < ny) :
    (∑ a ∈ range 6, at_ r c (6 * idx + a) (6 * ny + a) 1000000000) + (∑ a ∈ range 6, at_ r c (6 * ny + a) (6 * idx + a) 1000000000)
      = if (6 * ny ≤ c ∧ c < 6 * ny + 6 ∧ r = 6 * idx + (c - 6 * ny)) ∨ (6 * ny ≤ r ∧ r < 6 * ny + 6 ∧ c = 6 * idx + (r - 6 * ny))
        then ((1000000000 : ℕ) : ℝ) else 0 := by
  have h1 : (∑ a ∈ range 6, at_ r c (6 * idx + a) (6 * ny + a) 1000000000)
      = if 6 * ny ≤ c ∧ c < 6 * ny + 6 ∧ r = 6 * idx + (c - 6 * ny) then (1000000000 : ℝ) else 0 := by
    unfold at_
    by_cases h : 6 * ny ≤ c ∧ c < 6 * ny + 6 ∧ r = 6 * idx + (c - 6 * ny)
    · rw [if_pos h, Finset.sum_eq_single (c - 6 * ny)]
      · have : 6 * idx + (c - 6 * ny) = r ∧ 6 * ny + (c - 6 * ny) = c := by omega
        simp [this]
      · intro a _ ha
        have : ¬ (6 * idx + a = r ∧ 6 * ny + a = c) := by omega
        simp [this]
      · intro ha; exact absurd (Finset.mem_range.mpr (by omega)) ha
    · rw [if_neg h]
      apply Finset.sum_eq_zero; intro a ha
      have ha' := Finset.mem_range.mp ha
      have : ¬ (6 * idx + a = r ∧ 6 * ny + a = c) := by
        rintro ⟨e1, e2⟩; exact h ⟨by omega, by omega, by omega⟩
      simp [this]
  have h2 : (∑ a ∈ range 6, at_ r c (6 * ny + a) (6 * idx + a) 1000000000)
      = if 6 * ny ≤ r ∧ r < 6 * ny + 6 ∧ c = 6 * idx + (r - 6 * ny) then (1000000000 : ℝ) else 0 := by
    unfold at_
    by_cases h : 6 * ny ≤ r ∧ r < 6 * ny + 6 ∧ c = 6 * idx + (r - 6 * ny)
    · rw [if_pos h, Finset.sum_eq_single (r - 6 * ny)]
      · have : 6 * ny + (r - 6 * ny) = r ∧ 6 * idx + (r - 6 * ny) = c := by omega
        simp [this]
      · intro a _ ha
        have : ¬ (6 * ny + a = r ∧ 6 * idx + a = c) := by omega
        simp [this]
      · intro ha; exact absurd (Finset.mem_range.mpr (by omega)) ha
    · rw [if_neg h]
      apply Finset.sum_eq_zero; intro a ha
      have ha' := Finset.mem_range.mp ha
      have : ¬ (6 * ny + a = r ∧ 6 * idx + a = c) := by
        rintro ⟨e1, e2⟩; exact h ⟨by omega, by omega, by omega⟩
      simp [this]
  rw [h1, h2]
  by_cases ha : 6 * ny ≤ c ∧ c < 6 * ny + 6 ∧ r = 6 * idx + (c - 6 * ny) <;>
    by_cases hb : 6 * ny ≤ r ∧ r < 6 * ny + 6 ∧ c = 6 * idx + (r - 6 * ny)
  · exfalso; omega
  · rw [if_pos ha, if_neg hb, if_pos (Or.inl ha)]; norm_num
  · rw [if_neg ha, if_pos hb, if_pos (Or.inr hb)]; norm_num
  · rw [if_neg ha, if_neg hb, if_neg (not_or.mpr ⟨ha, hb⟩)]; norm_num

/-- **The coordinate list of `FEM.setup` / `assemble_CSC_K`, summed entry by entry, is the dense stiffness matrix `assembleK`**,
for every number of nodes `ny ≥ 2`, every clamped node `idx < ny` and every row and column (constraint rows included) -/
theorem c10_coo_eq_assembleK (ny idx : ℕ) (hny : 2 ≤ ny) (hidx : idx < ny) (kloc : ℕ → ℕ → ℕ → ℝ) (r c : ℕ) :
    coo ny idx kloc r c = assembleK ny idx kloc r c := by
  unfold coo assembleK
  rw [add_assoc, constraint_eq ny idx r c hidx]
  congr 1
  rw [sumTo_eq_sum]
  -- every element window lies inside the first 6 ny rows and columns
  have hwin : ∀ e ∈ range (ny - 1),
      (if 6 * e ≤ r ∧ r < 6 * e + 12 ∧ 6 * e ≤ c ∧ c < 6 * e + 12 ∧ r < 6 * ny ∧ c < 6 * ny then kloc e (r - 6 * e) (c - 6 * e) else 0)
      = blk r c (6 * e) (6 * e) (fun a b => kloc e a b) + blk r c (6 * e) (6 * e + 6) (fun a b => kloc e a (6 + b))
        + blk r c (6 * e + 6) (6 * e) (fun a b => kloc e (6 + a) b) + blk r c (6 * e + 6) (6 * e + 6) (fun a b => kloc e (6 + a) (6 + b)) := by
    intro e he
    have he' := Finset.mem_range.mp he
    rw [← window_split (kloc e) e r c]
    by_cases hw : 6 * e ≤ r ∧ r < 6 * e + 12 ∧ 6 * e ≤ c ∧ c < 6 * e + 12
    · have : 6 * e ≤ r ∧ r < 6 * e + 12 ∧ 6 * e ≤ c ∧ c < 6 * e + 12 ∧ r < 6 * ny ∧ c < 6 * ny := by omega
      rw [if_pos this, if_pos hw]
    · have : ¬ (6 * e ≤ r ∧ r < 6 * e + 12 ∧ 6 * e ≤ c ∧ c < 6 * e + 12 ∧ r < 6 * ny ∧ c < 6 * ny) := by
        rintro ⟨a1, a2, a3, a4, _, _⟩; exact hw ⟨a1, a2, a3, a4⟩
      rw [if_neg this, if_neg hw]
  rw [Finset.sum_congr rfl hwin]
  simp only [Finset.sum_add_distrib]
  -- the diagonal blocks: first element's upper-left block, last element's lower-right block, and the sums of the overlaps
  obtain ⟨m, rfl⟩ : ∃ m, ny = m + 2 := ⟨ny - 2, by omega⟩
  have e1 : m + 2 - 1 = m + 1 := by omega
  have e2 : m + 2 - 2 = m := by omega
  rw [e1, e2]
  have hLL : ∑ e ∈ range (m + 1), blk r c (6 * e) (6 * e) (fun a b => kloc e a b)
      = blk r c 0 0 (fun a b => kloc 0 a b) + ∑ e ∈ range m, blk r c (6 * e + 6) (6 * e + 6) (fun a b => kloc (e + 1) a b) := by
    rw [Finset.sum_range_succ', add_comm]
    simp only [Nat.mul_zero, Nat.mul_succ]
  have hHH : ∑ e ∈ range (m + 1), blk r c (6 * e + 6) (6 * e + 6) (fun a b => kloc e (6 + a) (6 + b))
      = ∑ e ∈ range m, blk r c (6 * e + 6) (6 * e + 6) (fun a b => kloc e (6 + a) (6 + b))
        + blk r c (6 * (m + 1)) (6 * (m + 1)) (fun a b => kloc m (6 + a) (6 + b)) := by
    rw [Finset.sum_range_succ]
    simp only [Nat.mul_succ]
  have h5 : ∑ e ∈ range m, blk r c (6 * e + 6) (6 * e + 6) (fun a b => kloc e (6 + a) (6 + b) + kloc (e + 1) a b)
      = ∑ e ∈ range m, blk r c (6 * e + 6) (6 * e + 6) (fun a b => kloc e (6 + a) (6 + b))
        + ∑ e ∈ range m, blk r c (6 * e + 6) (6 * e + 6) (fun a b => kloc (e + 1) a b) := by
    rw [← Finset.sum_add_distrib]
    exact Finset.sum_congr rfl (fun e _ => blk_add _ _ _ _ _ _)
  rw [hLL, hHH, h5]
  ring

/-! ### the executable coordinate list (`FEM.cooEntries`, compared exactly with `k_rows/k_cols/k_data`) sums to `coo` -/

theorem denseOf_append (l l' : List (ℕ × ℕ × ℝ)) (r c : ℕ) : denseOf (l ++ l') r c = denseOf l r c + denseOf l' r c := by
  simp [denseOf, List.map_append, List.sum_append]

theorem denseOf_flatMap_range (n : ℕ) (f : ℕ → List (ℕ × ℕ × ℝ)) (r c : ℕ) :
    denseOf ((List.range n).flatMap f) r c = ∑ e ∈ range n, denseOf (f e) r c := by
  induction n with
  | zero => simp [denseOf]
  | succ n ih =>
    rw [List.range_succ, List.flatMap_append, denseOf_append, ih, Finset.sum_range_succ]
    simp [List.flatMap_cons, denseOf]

theorem denseOf_map_range (n : ℕ) (g : ℕ → ℕ × ℕ × ℝ) (r c : ℕ) :
    denseOf ((List.range n).map g) r c = ∑ a ∈ range n, at_ r c (g a).1 (g a).2.1 (g a).2.2 := by
  induction n with
  | zero => simp [denseOf]
  | succ n ih =>
    rw [List.range_succ, List.map_append, denseOf_append, ih, Finset.sum_range_succ]
    simp [denseOf, at_]

theorem denseOf_cooBlock (r0 c0 : ℕ) (v : ℕ → ℕ → ℝ) (r c : ℕ) : denseOf (cooBlock r0 c0 v) r c = blk r c r0 c0 v := by
  unfold cooBlock blk
  rw [denseOf_flatMap_range]
  exact Finset.sum_congr rfl (fun a _ => by rw [denseOf_map_range])

/-- **the transliterated coordinate list stands for `coo`** -/
theorem c10_entries_dense (ny idx : ℕ) (kloc : ℕ → ℕ → ℕ → ℝ) (r c : ℕ) :
    denseOf (cooEntries ny idx kloc) r c = coo ny idx kloc r c := by
  unfold cooEntries coo
  simp only [denseOf_append, denseOf_flatMap_range, denseOf_cooBlock, denseOf_map_range]
  norm_num

/-- hence: **the sparse matrix the code assembles is the dense matrix of the model**, for every size -/
theorem c10_sparse_assembly (ny idx : ℕ) (hny : 2 ≤ ny) (hidx : idx < ny) (kloc : ℕ → ℕ → ℕ → ℝ) (r c : ℕ) :
    denseOf (cooEntries ny idx kloc) r c = assembleK ny idx kloc r c := by
  rw [c10_entries_dense, c10_coo_eq_assembleK ny idx hny hidx]

/-- the clamped node of the code is a node of the beam -/
theorem clampIndex_lt (ny : ℕ) (sym : Bool) (hny : 2 ≤ ny) : clampIndex ny sym < ny := by
  unfold clampIndex; split <;> omega

/-- the list has `36 (4 ny − 5) + 12` entries (the length of `k_rows`) -/
theorem c10_entries_length (ny idx : ℕ) (hny : 2 ≤ ny) (kloc : ℕ → ℕ → ℕ → ℝ) :
    (cooEntries ny idx kloc).length = 36 * (ny - 1) + 36 * (ny - 1) + 36 + 36 + 36 * (ny - 2) + 6 + 6 := by
  have hb : ∀ r0 c0 (v : ℕ → ℕ → ℝ), (cooBlock r0 c0 v).length = 36 := by
    intro r0 c0 v; simp [cooBlock, List.length_flatMap]
  simp [cooEntries, List.length_flatMap, hb]
  ring

end C10Pattern
end OAS
