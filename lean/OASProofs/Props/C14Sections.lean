import OASProofs.Lemmas.Basic
import OASProofs.Lemmas.Real

/-!
# C14 (continued)  The multi-section mesh generator joins its sections edge to edge

Model: `OASModel/Sections.lean` (`geometry_mesh_gen.py: generate_section_geometry`, after the repair F16).  Every section is built
from the chord, trailing-edge position and spanwise station of the outboard edge of its inboard neighbour.  Theorems: a section
starts exactly on that data (inboard edge), ends on the tapered, swept edge one span further out (outboard edge), and therefore
**consecutive sections share their edge node for node** – for any number of sections on either side of the root section, any
numbers of spanwise and chordwise points, any taper ≥ 0, span ≠ 0 and sweep.
-/
set_option linter.unusedSectionVars false
set_option linter.unusedSimpArgs false
namespace OAS
namespace C14Sections
open Sections MeshGen

theorem linspace_first (a b : ℝ) (n : ℕ) (hn : 2 ≤ n) : linspace a b n 0 = a := by
  unfold linspace
  have : ¬ (0 + 1 = n) := by omega
  simp [this]

theorem linspace_last (a b : ℝ) (n : ℕ) (hn : 1 ≤ n) : linspace a b n (n - 1) = b := by
  unfold linspace
  have : n - 1 + 1 = n := by omega
  simp [this]

variable (nx : ℕ) (s : Spec ℝ) (c te y0 : ℝ)

/-- a left-wing section starts on the data it is given: its inboard edge (last column) -/
theorem left_inboard (hny : 1 ≤ s.ny) (i : ℕ) :
    (leftSection nx s c te y0).x i (s.ny - 1) = linspace (c + te) te nx i ∧ (leftSection nx s c te y0).y (s.ny - 1) = y0 := by
  simp only [leftSection, linspace_last _ _ s.ny hny]
  constructor
  · ring
  · trivial

/-- … and ends one span further out on the tapered, swept chord: its outboard edge (column 0) -/
theorem left_outboard (hny : 2 ≤ s.ny) (hb : s.span ≠ 0) (i : ℕ) :
    (leftSection nx s c te y0).x i 0
        = linspace (c + te - s.span * Real.tan s.sweep) (c + te - s.span * Real.tan s.sweep - c * s.taper) nx i ∧
      (leftSection nx s c te y0).y 0 = y0 - s.span := by
  simp only [leftSection, linspace_first _ _ s.ny hny, elem_tan]
  constructor
  · field_simp; ring
  · trivial

/-- chord and trailing edge of the outboard edge: the taper is honoured -/
theorem left_outboard_chord (hnx : 2 ≤ nx) (hny : 2 ≤ s.ny) (hb : s.span ≠ 0) (hc : 0 ≤ c * s.taper) :
    chordOf (leftSection nx s c te y0) nx 0 = c * s.taper ∧
      (leftSection nx s c te y0).x (nx - 1) 0 = c + te - s.span * Real.tan s.sweep - c * s.taper := by
  have h0 := (left_outboard nx s c te y0 hny hb 0).1
  have h1 := (left_outboard nx s c te y0 hny hb (nx - 1)).1
  rw [linspace_first _ _ nx hnx] at h0
  rw [linspace_last _ _ nx (by omega)] at h1
  refine ⟨?_, h1⟩
  unfold chordOf
  rw [h0, h1, elem_abs, show c + te - s.span * Real.tan s.sweep - (c + te - s.span * Real.tan s.sweep - c * s.taper) = c * s.taper by ring,
    abs_of_nonneg hc]

/-- **consecutive left-wing sections share their edge node for node**: the section built next starts exactly where this one ends -/
theorem c14_left_sections_join (hnx : 2 ≤ nx) (hny : 2 ≤ s.ny) (hb : s.span ≠ 0) (hc : 0 ≤ c * s.taper) (s' : Spec ℝ) (hny' : 1 ≤ s'.ny)
    (i : ℕ) :
    let g := leftSection nx s c te y0
    let g' := leftSection nx s' (chordOf g nx 0) (g.x (nx - 1) 0) (g.y 0)
    g'.x i (s'.ny - 1) = g.x i 0 ∧ g'.y (s'.ny - 1) = g.y 0 := by
  intro g g'
  obtain ⟨hch, hte⟩ := left_outboard_chord nx s c te y0 hnx hny hb hc
  obtain ⟨hx, hy⟩ := left_outboard nx s c te y0 hny hb i
  obtain ⟨hx', hy'⟩ := left_inboard nx s' (chordOf g nx 0) (g.x (nx - 1) 0) (g.y 0) hny' i
  refine ⟨?_, hy'⟩
  rw [hx', hx, hch, hte]
  congr 1; ring

/-- the whole left wing: every pair of neighbours in the generated list joins (induction over the section list) -/
theorem c14_left_wing_joins (hnx : 2 ≤ nx) : ∀ (l : List (Spec ℝ)) (c te y0 : ℝ), 0 ≤ c →
    (∀ t ∈ l, 2 ≤ t.ny ∧ t.span ≠ 0 ∧ 0 ≤ t.taper) →
    ∀ k (hk : k + 1 < (leftWing nx l c te y0).length) (i : ℕ),
      ((leftWing nx l c te y0)[k + 1]).x i (((leftWing nx l c te y0)[k + 1]).ny - 1) = ((leftWing nx l c te y0)[k]).x i 0 ∧
      ((leftWing nx l c te y0)[k + 1]).y (((leftWing nx l c te y0)[k + 1]).ny - 1) = ((leftWing nx l c te y0)[k]).y 0
  | [], _, _, _, _, _, k, hk, _ => by simp [leftWing] at hk
  | [s], _, _, _, _, _, k, hk, _ => by simp [leftWing] at hk
  | s :: s' :: rest, c, te, y0, hc, hl, k, hk, i => by
    obtain ⟨hny, hb, ht⟩ := hl s (by simp)
    obtain ⟨hny', hb', ht'⟩ := hl s' (by simp)
    have hct : 0 ≤ c * s.taper := mul_nonneg hc ht
    cases k with
    | zero =>
      have := c14_left_sections_join nx s c te y0 hnx hny hb hct s' (by omega) i
      simpa [leftWing, leftSection] using this
    | succ k =>
      have hch := (left_outboard_chord nx s c te y0 hnx hny hb hct).1
      have ih := c14_left_wing_joins hnx (s' :: rest) (chordOf (leftSection nx s c te y0) nx 0) ((leftSection nx s c te y0).x (nx - 1) 0)
        ((leftSection nx s c te y0).y 0) (by rw [hch]; exact hct) (fun t ht => hl t (by simp [ht])) k
        (by simpa [leftWing] using hk) i
      simpa [leftWing] using ih

/-! the right wing of a full-span surface (after the repair) -/

theorem right_inboard (hny : 2 ≤ s.ny) (i : ℕ) :
    (rightSection nx s c te y0).x i 0 = linspace (c + te) te nx i ∧ (rightSection nx s c te y0).y 0 = y0 := by
  simp only [rightSection, linspace_first _ _ s.ny hny]
  constructor
  · ring
  · trivial

theorem right_outboard (hny : 1 ≤ s.ny) (hb : s.span ≠ 0) (i : ℕ) :
    (rightSection nx s c te y0).x i (s.ny - 1)
        = linspace (c + te + s.span * Real.tan s.sweep) (c + te + s.span * Real.tan s.sweep - c * s.taper) nx i ∧
      (rightSection nx s c te y0).y (s.ny - 1) = y0 + s.span := by
  simp only [rightSection, linspace_last _ _ s.ny hny, elem_tan]
  constructor
  · field_simp; ring
  · trivial

/-- **consecutive right-wing sections share their edge node for node** -/
theorem c14_right_sections_join (hnx : 2 ≤ nx) (hny : 1 ≤ s.ny) (hb : s.span ≠ 0) (hc : 0 ≤ c * s.taper) (s' : Spec ℝ) (hny' : 2 ≤ s'.ny)
    (i : ℕ) :
    let g := rightSection nx s c te y0
    let g' := rightSection nx s' (chordOf g nx (s.ny - 1)) (g.x (nx - 1) (s.ny - 1)) (g.y (s.ny - 1))
    g'.x i 0 = g.x i (s.ny - 1) ∧ g'.y 0 = g.y (s.ny - 1) := by
  intro g g'
  have h0 := (right_outboard nx s c te y0 hny hb 0).1
  have h1 := (right_outboard nx s c te y0 hny hb (nx - 1)).1
  rw [linspace_first _ _ nx hnx] at h0
  rw [linspace_last _ _ nx (by omega)] at h1
  have hch : chordOf g nx (s.ny - 1) = c * s.taper := by
    show Elem.abs (g.x 0 (s.ny - 1) - g.x (nx - 1) (s.ny - 1)) = _
    rw [h0, h1, elem_abs, show c + te + s.span * Real.tan s.sweep - (c + te + s.span * Real.tan s.sweep - c * s.taper) = c * s.taper by ring,
      abs_of_nonneg hc]
  obtain ⟨hx, hy⟩ := right_outboard nx s c te y0 hny hb i
  obtain ⟨hx', hy'⟩ := right_inboard nx s' (chordOf g nx (s.ny - 1)) (g.x (nx - 1) (s.ny - 1)) (g.y (s.ny - 1)) hny' i
  refine ⟨?_, hy'⟩
  rw [hx', hx, hch, h1]
  congr 1; ring

/-- the defect repaired by F16, second commit: taking the neighbour's trailing edge at its *inboard* edge (column 0) instead of its
outboard edge moves the next section by the neighbour's own sweep and taper offset – the two coincide only for an unswept,
untapered neighbour -/
theorem c14_right_old_reference (hnx : 2 ≤ nx) (hny : 2 ≤ s.ny) (hb : s.span ≠ 0) :
    (rightSection nx s c te y0).x (nx - 1) (s.ny - 1) - (rightSection nx s c te y0).x (nx - 1) 0
      = s.span * Real.tan s.sweep + c * (1 - s.taper) := by
  have h1 := (right_outboard nx s c te y0 (by omega) hb (nx - 1)).1
  have h0 := (right_inboard nx s c te y0 hny (nx - 1)).1
  rw [linspace_last _ _ nx (by omega)] at h1 h0
  rw [h1, h0]; ring

end C14Sections
end OAS
