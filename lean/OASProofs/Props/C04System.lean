import OASProofs.Props.C04
import OASProofs.Lemmas.System

/-!
# C04 (continued)  The half-span solution *is* the full-span solution

For one symmetric surface (left half modelled, root edge on the symmetry plane, no ground effect), zero sideslip and
no rotation rates: the full-span surface is `fullOf s` (mesh = the half mesh extended by its mirror image,
`symmetry = False`).  If the circulations `Γ` solve the half model's linear system then their symmetric extension
solves the full model's system, and every panel of the modelled half receives the same force in both models.
-/
set_option linter.unusedSectionVars false
set_option linter.unusedSimpArgs false
namespace OAS
namespace C04
open VLM Finset

/-- the full-span surface of a symmetric half surface -/
noncomputable def fullOf (s : Surf ℝ) : Surf ℝ :=
  { nx := s.nx, ny := 2 * s.ny - 1, sym := false, left := s.left, ground := false, mesh := extMesh s }

/-- spanwise fold of the full-span panel column `J` onto the modelled (left) half -/
def foldCol (ny J : ℕ) : ℕ := if J < ny - 1 then J else 2 * ny - 3 - J

/-- symmetric extension of the half model's circulations to the full-span numbering -/
def gammaExt (s : Surf ℝ) (gamma : ℕ → ℝ) : ℕ → ℝ := fun M =>
  gamma ((M / (2 * s.ny - 2)) * (s.ny - 1) + foldCol s.ny (M % (2 * s.ny - 2)))

/-- standing hypotheses -/
structure Half (s : Surf ℝ) : Prop where
  sym : s.sym = true
  left : s.left = true
  ground : s.ground = false
  ny : 2 ≤ s.ny
  root : RootOnPlane s

theorem gammaExt_at (s : Surf ℝ) (gamma : ℕ → ℝ) (i J : ℕ) (hJ : J < 2 * s.ny - 2) :
    gammaExt s gamma (i * (2 * s.ny - 2) + J) = gamma (i * (s.ny - 1) + foldCol s.ny J) := by
  obtain ⟨h1, h2⟩ := div_mod_of_lt i J (2 * s.ny - 2) hJ
  simp only [gammaExt, h1, h2]

theorem full_ny (s : Surf ℝ) (h : Half s) : (fullOf s).ny - 1 = 2 * s.ny - 2 := by
  have := h.ny; simp only [fullOf]; omega

theorem vortexMesh_full (s : Surf ℝ) (h : Half s) (a hh : ℝ) : vortexMesh (fullOf s) a hh = vortexMesh s a hh := by
  unfold vortexMesh
  have e : extMesh (fullOf s) = extMesh s := by
    funext i c; simp [extMesh, fullOf]
  simp only [e, h.ground]
  simp [fullOf]

theorem velMtx_full (s : Surf ℝ) (h : Half s) (alpha : ℝ) (vm : Mesh ℝ) (p : V3 ℝ) (i J : ℕ) :
    velMtx (fullOf s) alpha vm p i J = velRaw s (wakeDir alpha) vm p i J := by
  simp [velMtx, velRaw, fullOf, h.ground]

/-- the full model's induction as a double sum over the full lattice of the half surface -/
theorem indVel_full (s : Surf ℝ) (h : Half s) (f : Flow ℝ) (g : ℕ → ℝ) (p : V3 ℝ) :
    indVel [fullOf s] f g p = V3.sumTo (s.nx - 1) (fun i => V3.sumTo (2 * s.ny - 2) (fun J =>
      V3.smul (g (i * (2 * s.ny - 2) + J))
        (velRaw s (wakeDir f.alpha) (vortexMesh s (deg2rad f.alpha) f.h) p i J))) := by
  rw [indVel_single, full_ny s h]
  simp only [vortexMesh_full s h, velMtx_full s h]
  rfl

/-- **K3: the full model with symmetrically extended circulations induces, at every point, what the half model
induces** -/
theorem indVel_full_eq_half (s : Surf ℝ) (h : Half s) (f : Flow ℝ) (gamma : ℕ → ℝ) (p : V3 ℝ) :
    indVel [fullOf s] f (gammaExt s gamma) p = indVel [s] f gamma p := by
  rw [indVel_full s h, indVel_single]
  apply V3.sumTo_congr
  intro i _
  have e2 : 2 * s.ny - 2 = 2 * (s.ny - 1) := by omega
  rw [c04_half_induction_eq_full s h.sym h.left (by have := h.ny; omega) f.alpha _ p i (fun j => gamma (i * (s.ny - 1) + j)), ← e2]
  apply V3.sumTo_congr
  intro J hJ
  rw [gammaExt_at s gamma i J hJ]
  simp only [foldCol]
  split_ifs <;> rfl

theorem foldCol_reflect (ny J : ℕ) (hny : 2 ≤ ny) (hJ : J < 2 * ny - 2) :
    foldCol ny (2 * ny - 2 - 1 - J) = foldCol ny J := by
  simp only [foldCol]; split_ifs <;> omega

/-- **K4: with symmetric circulations the full lattice induces mirror-symmetric velocities** -/
theorem indVel_full_mirror (s : Surf ℝ) (h : Half s) (f : Flow ℝ) (gamma : ℕ → ℝ) (p : V3 ℝ) :
    indVel [fullOf s] f (gammaExt s gamma) (mirrorY p) = mirrorY (indVel [fullOf s] f (gammaExt s gamma) p) := by
  have hny := h.ny
  rw [indVel_full s h, indVel_full s h, V3.sumTo_mirror]
  apply V3.sumTo_congr
  intro i _
  rw [V3.sumTo_mirror]
  set G : ℕ → V3 ℝ := fun J => mirrorY (V3.smul (gammaExt s gamma (i * (2 * s.ny - 2) + J))
      (velRaw s (wakeDir f.alpha) (vortexMesh s (deg2rad f.alpha) f.h) p i J)) with hG
  rw [← V3.sumTo_reflect (2 * s.ny - 2) G]
  apply V3.sumTo_congr
  intro J hJ
  have e : 2 * s.ny - 2 - 1 - J = 2 * s.ny - 3 - J := by omega
  simp only [hG]
  rw [c04_mirror_rows s h.sym h.ground hny h.root f.alpha (deg2rad f.alpha) f.h p i J (by omega), mirrorY_smul,
    gammaExt_at s gamma i J hJ, gammaExt_at s gamma i _ (by omega), foldCol_reflect s.ny J hny hJ, e]

/-! ### geometry of the full-span surface on the two halves -/

theorem ext_left (s : Surf ℝ) (h : Half s) (i c : ℕ) (hc : c < s.ny) : extMesh s i c = s.mesh i c := by
  simp [extMesh, h.sym, h.left, hc]

theorem ext_right (s : Surf ℝ) (h : Half s) (i c : ℕ) (hc : c ≤ 2 * s.ny - 2) :
    extMesh s i c = mirrorY (extMesh s i (2 * s.ny - 2 - c)) := by
  have := c04_ghost_is_mirror s h.sym (by have := h.ny; omega) h.root i c hc
  simpa [mirrorLattice] using this

theorem collPt_full_left (s : Surf ℝ) (h : Half s) (i J : ℕ) (hJ : J < s.ny - 1) :
    collPt (fullOf s) i J = collPt s i J := by
  simp only [collPt, fullOf, ext_left s h _ J (by omega), ext_left s h _ (J + 1) (by omega)]

theorem forcePt_full_left (s : Surf ℝ) (h : Half s) (i J : ℕ) (hJ : J < s.ny - 1) :
    forcePt (fullOf s) i J = forcePt s i J := by
  simp only [forcePt, fullOf, ext_left s h _ J (by omega), ext_left s h _ (J + 1) (by omega)]

theorem boundVec_full_left (s : Surf ℝ) (h : Half s) (i J : ℕ) (hJ : J < s.ny - 1) :
    boundVec (fullOf s) i J = boundVec s i J := by
  simp only [boundVec, fullOf, ext_left s h _ J (by omega), ext_left s h _ (J + 1) (by omega)]

theorem normal_full_left (s : Surf ℝ) (h : Half s) (i J : ℕ) (hJ : J < s.ny - 1) :
    normal (fullOf s) i J = normal s i J := by
  simp only [normal, VLMGeometry.normals, VLMGeometry.rawNormal, fullOf, ext_left s h _ J (by omega),
    ext_left s h _ (J + 1) (by omega)]

/-- collocation points of the mirror half are the mirror images of those of the modelled half -/
theorem collPt_full_right (s : Surf ℝ) (h : Half s) (i J : ℕ) (h1 : s.ny - 1 ≤ J) (h2 : J < 2 * s.ny - 2) :
    collPt (fullOf s) i J = mirrorY (collPt s i (2 * s.ny - 3 - J)) := by
  have hny := h.ny
  have e1 : 2 * s.ny - 2 - J = 2 * s.ny - 3 - J + 1 := by omega
  have e2 : 2 * s.ny - 2 - (J + 1) = 2 * s.ny - 3 - J := by omega
  simp only [collPt, fullOf]
  rw [ext_right s h i J (by omega), ext_right s h (i + 1) J (by omega), ext_right s h i (J + 1) (by omega),
    ext_right s h (i + 1) (J + 1) (by omega), e1, e2,
    ext_left s h i (2 * s.ny - 3 - J) (by omega), ext_left s h i (2 * s.ny - 3 - J + 1) (by omega),
    ext_left s h (i + 1) (2 * s.ny - 3 - J) (by omega), ext_left s h (i + 1) (2 * s.ny - 3 - J + 1) (by omega)]
  ext <;> simp <;> ring

/-- … and so are the panel normals (reflection and column reversal together keep the orientation) -/
theorem normal_full_right (s : Surf ℝ) (h : Half s) (i J : ℕ) (h1 : s.ny - 1 ≤ J) (h2 : J < 2 * s.ny - 2) :
    normal (fullOf s) i J = mirrorY (normal s i (2 * s.ny - 3 - J)) := by
  have hny := h.ny
  have e1 : 2 * s.ny - 2 - J = 2 * s.ny - 3 - J + 1 := by omega
  have e2 : 2 * s.ny - 2 - (J + 1) = 2 * s.ny - 3 - J := by omega
  simp only [normal, VLMGeometry.normals, VLMGeometry.rawNormal, fullOf]
  rw [ext_right s h i J (by omega), ext_right s h (i + 1) J (by omega), ext_right s h i (J + 1) (by omega),
    ext_right s h (i + 1) (J + 1) (by omega), e1, e2,
    ext_left s h i (2 * s.ny - 3 - J) (by omega), ext_left s h i (2 * s.ny - 3 - J + 1) (by omega),
    ext_left s h (i + 1) (2 * s.ny - 3 - J) (by omega), ext_left s h (i + 1) (2 * s.ny - 3 - J + 1) (by omega)]
  set j := 2 * s.ny - 3 - J
  have hc : V3.cross (mirrorY (s.mesh i j) - mirrorY (s.mesh (i + 1) (j + 1))) (mirrorY (s.mesh i (j + 1)) - mirrorY (s.mesh (i + 1) j))
      = mirrorY (V3.cross (s.mesh i (j + 1) - s.mesh (i + 1) j) (s.mesh i j - s.mesh (i + 1) (j + 1))) := by
    ext <;> simp <;> ring
  rw [hc, norm_mirrorY]
  ext <;> simp
  ring

/-! ### the two linear systems -/

/-- the linear system of a surface list: `Σₙ mtx[m,n] Γₙ = rhs[m]` for every panel `m` -/
def Solves (l : List (Surf ℝ)) (f : Flow ℝ) (gamma : ℕ → ℝ) : Prop :=
  ∀ m, m < totalPanels l → ∑ n ∈ range (totalPanels l), aic l f m n * gamma n = rhs l f m

theorem freestream_mirror (f : Flow ℝ) (hb : f.beta = 0) : mirrorY (freestreamDir f) = freestreamDir f := by
  ext <;> simp [freestreamDir, hb, deg2rad]

theorem locate_full (s : Surf ℝ) (h : Half s) (i J : ℕ) (hi : i < s.nx - 1) (hJ : J < 2 * s.ny - 2) :
    locate [fullOf s] (i * (2 * s.ny - 2) + J) = some (fullOf s, i, J) := by
  have := locate_single (fullOf s) i J (by simpa [fullOf] using hi) (by rw [full_ny s h]; exact hJ)
  rw [full_ny s h] at this
  exact this

/-- **The half-span solution is the full-span solution.**  If `Γ` solves the linear system of the symmetric (half)
model then its symmetric extension solves the linear system of the full-span model – for any numbers of chordwise and
spanwise panels, any (root-on-plane) geometry, any angle of attack. -/
theorem c04_half_solution_solves_full (s : Surf ℝ) (h : Half s) (f : Flow ℝ) (hb : f.beta = 0)
    (hr : f.rotational = false) (gamma : ℕ → ℝ) (hs : Solves [s] f gamma) :
    Solves [fullOf s] f (gammaExt s gamma) := by
  have hny := h.ny
  intro M hM
  rw [totalPanels_single] at hM
  have hfn : (fullOf s).nx - 1 = s.nx - 1 := rfl
  rw [hfn, full_ny s h] at hM
  have hb0 : 0 < 2 * s.ny - 2 := by omega
  set i := M / (2 * s.ny - 2) with hi_def
  set J := M % (2 * s.ny - 2) with hJ_def
  have hMeq : M = i * (2 * s.ny - 2) + J := by
    rw [hi_def, hJ_def, Nat.mul_comm]; exact (Nat.div_add_mod M _).symm
  have hJ : J < 2 * s.ny - 2 := Nat.mod_lt _ hb0
  have hi : i < s.nx - 1 := by
    rw [hi_def]; exact Nat.div_lt_of_lt_mul (by rw [Nat.mul_comm]; exact hM)
  have hloc := locate_full s h i J hi hJ
  rw [← hMeq] at hloc
  rw [row_eq [fullOf s] f _ M (fullOf s) i J hloc]
  simp only [rhs, hloc]
  by_cases hJl : J < s.ny - 1
  · -- a panel of the modelled half
    have hm := locate_single s i J hi hJl
    have hrow := hs (i * (s.ny - 1) + J) (by
      have := (locate_isSome_iff [s] (i * (s.ny - 1) + J)).1 (by rw [hm]; rfl); exact this)
    rw [row_eq [s] f gamma _ s i J hm] at hrow
    simp only [rhs, hm] at hrow
    rw [collPt_full_left s h i J hJl, normal_full_left s h i J hJl, indVel_full_eq_half s h]
    exact hrow
  · -- a panel of the mirror half
    have hj : 2 * s.ny - 3 - J < s.ny - 1 := by omega
    have hm := locate_single s i (2 * s.ny - 3 - J) hi hj
    have hrow := hs (i * (s.ny - 1) + (2 * s.ny - 3 - J)) (by
      have := (locate_isSome_iff [s] (i * (s.ny - 1) + (2 * s.ny - 3 - J))).1 (by rw [hm]; rfl); exact this)
    rw [row_eq [s] f gamma _ s i _ hm] at hrow
    simp only [rhs, hm] at hrow
    rw [collPt_full_right s h i J (by omega) hJ, normal_full_right s h i J (by omega) hJ,
      indVel_full_mirror s h, dot_mirrorY, indVel_full_eq_half s h, hrow]
    simp only [onset, hr, Bool.false_eq_true, if_false]
    rw [← freestream_mirror f hb, dot_mirrorY, freestream_mirror f hb]

/-- **… and every panel of the modelled half receives the same force in the two models.** -/
theorem c04_half_forces_eq_full (s : Surf ℝ) (h : Half s) (f : Flow ℝ) (gamma : ℕ → ℝ) (i J : ℕ)
    (hi : i < s.nx - 1) (hJ : J < s.ny - 1) :
    panelForce [fullOf s] f (gammaExt s gamma) (i * (2 * s.ny - 2) + J) = panelForce [s] f gamma (i * (s.ny - 1) + J) := by
  have hny := h.ny
  have hJ2 : J < 2 * s.ny - 2 := by omega
  have hloc := locate_full s h i J hi hJ2
  have hm := locate_single s i J hi hJ
  have hfold : foldCol s.ny J = J := by simp [foldCol, hJ]
  simp only [panelForce, hloc, hm, forcePtVelocity_eq _ f _ _ _ i J hloc, forcePtVelocity_eq _ f _ _ _ i J hm,
    collPt_full_left s h i J hJ, forcePt_full_left s h i J hJ, boundVec_full_left s h i J hJ, indVel_full_eq_half s h]
  congr 2
  simp only [horseshoe, hloc, hm, full_ny s h, gammaExt_at s gamma i J hJ2, hfold]
  split_ifs with h1
  · have e : i * (2 * s.ny - 2) + J - (2 * s.ny - 2) = (i - 1) * (2 * s.ny - 2) + J := by
      obtain ⟨k, rfl⟩ : ∃ k, i = k + 1 := ⟨i - 1, by omega⟩
      simp [Nat.succ_mul]; omega
    have e' : i * (s.ny - 1) + J - (s.ny - 1) = (i - 1) * (s.ny - 1) + J := by
      obtain ⟨k, rfl⟩ : ∃ k, i = k + 1 := ⟨i - 1, by omega⟩
      simp [Nat.succ_mul]; omega
    rw [e, e', gammaExt_at s gamma (i - 1) J hJ2, hfold]
  · rfl

/-- non-vacuity: a flat rectangular left half wing with its root on the plane satisfies `Half` -/
example : Half ⟨2, 3, true, true, false, fun i j => ⟨(i : ℝ), (j : ℝ) - 2, 0⟩⟩ := by
  refine ⟨rfl, rfl, rfl, by simp, ?_⟩
  intro i; simp

end C04
end OAS
