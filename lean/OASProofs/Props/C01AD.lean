import OASProofs.Lemmas.AD

/-!
# C01 (continued)  The derivative oracle of the correspondence check is exact

The correspondence check of every run compares the Jacobian each OpenAeroStruct component reports with the
derivative of the *model* of that component, computed by instantiating the model at dual numbers
(`OASModel/Dual.lean`).  The theorems below show, for the model definitions listed, that this dual-number
evaluation is the exact derivative of the real-number instantiation along **any** differentiable curve through the
input space (`Tracks a f t`: `a` carries the value and the derivative of `f` at `t`) – i.e. every partial derivative
and every directional derivative, at every point where the formula is differentiable (the stated side conditions:
non-zero denominators, positive arguments of `sqrt`, `log`, real powers).  They are derived syntax-directed from the
soundness of each primitive (`OASProofs/Lemmas/AD.lean`), so they hold for the definitions as they are, not for a
re-statement of them.
-/
set_option linter.unusedSectionVars false
set_option linter.unusedSimpArgs false
set_option linter.unusedTactic false
set_option linter.unreachableTactic false
namespace OAS
namespace C01AD
open AD

variable {t : ℝ}

/-! ### Coeffs, Reynolds, totals -/

theorem coeff_exact {X rho v S : Dual ℝ} {fX fr fv fS : ℝ → ℝ}
    (hX : Tracks X fX t) (hr : Tracks rho fr t) (hv : Tracks v fv t) (hS : Tracks S fS t)
    (h0 : dec 1 2 * fr t * (fv t * fv t) * fS t ≠ 0) :
    Tracks (coeff X rho v S) (fun x => coeff (fX x) (fr x) (fv x) (fS x)) t := by
  unfold coeff; track

theorem reynolds_exact {rho v mu : Dual ℝ} {fr fv fm : ℝ → ℝ}
    (hr : Tracks rho fr t) (hv : Tracks v fv t) (hm : Tracks mu fm t) (h0 : fm t ≠ 0) :
    Tracks (reynolds rho v mu) (fun x => reynolds (fr x) (fv x) (fm x)) t := by
  unfold reynolds; track

theorem totalDrag_exact {a b c d : Dual ℝ} {fa fb fc fd : ℝ → ℝ}
    (ha : Tracks a fa t) (hb : Tracks b fb t) (hc : Tracks c fc t) (hd : Tracks d fd t) :
    Tracks (totalDrag a b c d) (fun x => totalDrag (fa x) (fb x) (fc x) (fd x)) t := by
  unfold totalDrag; track

theorem breguet_exact (ns : ℕ) {sm : ℕ → Dual ℝ} {fsm : ℕ → ℝ → ℝ} {CT CL CD a R M W0 : Dual ℝ}
    {fCT fCL fCD fa fR fM fW0 : ℝ → ℝ} (hsm : ∀ k, Tracks (sm k) (fsm k) t)
    (h1 : Tracks CT fCT t) (h2 : Tracks CL fCL t) (h3 : Tracks CD fCD t) (h4 : Tracks a fa t) (h5 : Tracks R fR t)
    (h6 : Tracks M fM t) (h7 : Tracks W0 fW0 t) (ha : fa t ≠ 0) (hM : fM t ≠ 0) (hCL : fCL t ≠ 0) :
    Tracks (breguetFuelburn ns sm CT CL CD a R M W0)
      (fun x => breguetFuelburn ns (fun k => fsm k x) (fCT x) (fCL x) (fCD x) (fa x) (fR x) (fM x) (fW0 x)) t := by
  unfold breguetFuelburn
  apply Tracks.mul
  · apply Tracks.add h7
    exact Tracks.sumTo ns sm fsm (fun k _ => hsm k)
  · track

/-! ### ViscousDrag: skin friction, form factor, the three `k_lam` branches, the spanwise sum -/

theorem log10_pos' {x : ℝ} (h : 1 < x) : 0 < Real.log x / Real.log ((10 : ℕ) : ℝ) :=
  div_pos (Real.log_pos h) (Real.log_pos (by norm_num))

theorem cfLam_exact {Re : Dual ℝ} {fRe : ℝ → ℝ} (h : Tracks Re fRe t) (h0 : 0 < fRe t) :
    Tracks (ViscousDrag.cfLam Re) (fun x => ViscousDrag.cfLam (fRe x)) t := by
  unfold ViscousDrag.cfLam; track
  exact (Real.sqrt_pos.mpr h0).ne'

theorem compress_pos (m : ℝ) : (0 : ℝ) < 1 + dec 144 1000 * (m * m) := by
  have : (0 : ℝ) ≤ dec 144 1000 * (m * m) := mul_nonneg (by simp [dec_def]; norm_num) (mul_self_nonneg _)
  linarith

theorem cfTurb_exact {Re M : Dual ℝ} {fRe fM : ℝ → ℝ} (h : Tracks Re fRe t) (hM : Tracks M fM t) (h0 : 1 < fRe t) :
    Tracks (ViscousDrag.cfTurb Re M) (fun x => ViscousDrag.cfTurb (fRe x) (fM x)) t := by
  have hp := compress_pos (fM t)
  unfold ViscousDrag.cfTurb ViscousDrag.log10; track
  · exact (lt_trans zero_lt_one h0).ne'
  · norm_num
  · exact (Real.log_pos (by norm_num)).ne'
  · exact log10_pos' h0
  · exact (Real.rpow_pos_of_pos (log10_pos' h0) _).ne'
  · exact (Real.rpow_pos_of_pos hp _).ne'

theorem formFactor_exact (cmaxt : ℝ) {M toc cs : Dual ℝ} {fM ft fc : ℝ → ℝ} (hM : Tracks M fM t) (ht : Tracks toc ft t)
    (hc : Tracks cs fc t) (h1 : 0 < fM t) (h2 : 0 < fc t) (h3 : cmaxt ≠ 0) :
    Tracks (ViscousDrag.formFactor (⟨cmaxt, 0⟩ : Dual ℝ) M toc cs)
      (fun x => ViscousDrag.formFactor cmaxt (fM x) (ft x) (fc x)) t := by
  unfold ViscousDrag.formFactor; track

/-- the section skin-friction coefficient in all three branches of the laminar fraction `k_lam` (an option, hence a
constant): fully turbulent, transition, fully laminar (the branch whose `∂/∂re` the code had as zero, F3) -/
theorem cd_exact (klam : ℝ) {Rec M : Dual ℝ} {fR fM : ℝ → ℝ} (hR : Tracks Rec fR t) (hM : Tracks M fM t)
    (h1 : 1 < fR t) (h2 : klam ≠ 0 → 1 < fR t * klam) :
    Tracks (ViscousDrag.cd (⟨klam, 0⟩ : Dual ℝ) Rec M) (fun x => ViscousDrag.cd klam (fR x) (fM x)) t := by
  have hk : Tracks (⟨klam, 0⟩ : Dual ℝ) (fun _ => klam) t := Tracks.const klam
  unfold ViscousDrag.cd
  simp only [Dual.lt_iff, Dual.zero_v, Dual.one_v, Dual.mk_v]
  by_cases hz : klam < 0 ∨ 0 < klam
  · have hne : klam ≠ 0 := by rcases hz with h | h <;> [exact ne_of_lt h; exact ne_of_gt h]
    have hRk : Tracks (Rec * ⟨klam, 0⟩) (fun x => fR x * klam) t := hR.mul hk
    have h2' := h2 hne
    simp only [hz, if_true]
    by_cases h1k : klam < 1
    · simp only [h1k, if_true]
      exact ((((cfLam_exact hRk (by linarith)).sub (cfTurb_exact hRk hM h2')).mul hk).add (cfTurb_exact hR hM h1))
    · simp only [h1k, if_false]
      exact ((((cfLam_exact hRk (by linarith)).sub Tracks.zero).mul hk).add Tracks.zero)
  · simp only [hz, if_false]
    exact (((Tracks.zero.sub Tracks.zero).mul hk).add (cfTurb_exact hR hM h1))

/-- **`ViscousDrag.compute`**: the whole spanwise sum, every input tracked (`re`, `Mach_number`, `S_ref`, `widths`,
`lengths_spanwise`, `lengths`, `t_over_c`), any number of spanwise sections -/
theorem cdv_exact (ny : ℕ) (sym : Bool) (klam cmaxt : ℝ) {re M S : Dual ℝ} {w lsp len toc : ℕ → Dual ℝ}
    {fre fM fS : ℝ → ℝ} {fw flsp flen ftoc : ℕ → ℝ → ℝ}
    (hre : Tracks re fre t) (hM : Tracks M fM t) (hS : Tracks S fS t)
    (hw : ∀ j, Tracks (w j) (fw j) t) (hl : ∀ j, Tracks (lsp j) (flsp j) t) (hlen : ∀ j, Tracks (len j) (flen j) t)
    (htoc : ∀ j, Tracks (toc j) (ftoc j) t)
    (hS0 : fS t ≠ 0) (hM0 : 0 < fM t) (hc : cmaxt ≠ 0)
    (hRe : ∀ j, j < ny - 1 → 1 < fre t * ((flen (j + 1) t + flen j t) / ((2 : ℕ) : ℝ)))
    (hRek : ∀ j, j < ny - 1 → klam ≠ 0 → 1 < fre t * ((flen (j + 1) t + flen j t) / ((2 : ℕ) : ℝ)) * klam)
    (hlsp : ∀ j, j < ny - 1 → flsp j t ≠ 0) (hcos : ∀ j, j < ny - 1 → 0 < fw j t / flsp j t) :
    Tracks (ViscousDrag.cdv ny true sym (⟨klam, 0⟩ : Dual ℝ) (⟨cmaxt, 0⟩ : Dual ℝ) re M S w lsp len toc)
      (fun x => ViscousDrag.cdv ny true sym klam cmaxt (fre x) (fM x) (fS x) (fun j => fw j x) (fun j => flsp j x)
        (fun j => flen j x) (fun j => ftoc j x)) t := by
  have hsum : Tracks
      (sumTo (ny - 1) (fun j => ((2 : ℕ) : Dual ℝ) * ViscousDrag.cd (⟨klam, 0⟩ : Dual ℝ) (re * ((len (j + 1) + len j) / ((2 : ℕ) : Dual ℝ))) M
          * ((len (j + 1) + len j) / ((2 : ℕ) : Dual ℝ)) * w j
          * ViscousDrag.formFactor (⟨cmaxt, 0⟩ : Dual ℝ) M (toc j) (w j / lsp j)))
      (fun x => sumTo (ny - 1) (fun j => ((2 : ℕ) : ℝ) * ViscousDrag.cd klam (fre x * ((flen (j + 1) x + flen j x) / ((2 : ℕ) : ℝ))) (fM x)
          * ((flen (j + 1) x + flen j x) / ((2 : ℕ) : ℝ)) * fw j x
          * ViscousDrag.formFactor cmaxt (fM x) (ftoc j x) (fw j x / flsp j x))) t := by
    refine Tracks.sumTo _ _ _ ?_
    intro j hj
    have h2 : ((2 : ℕ) : ℝ) ≠ 0 := by norm_num
    have hch : Tracks ((len (j + 1) + len j) / ((2 : ℕ) : Dual ℝ)) (fun x => (flen (j + 1) x + flen j x) / ((2 : ℕ) : ℝ)) t :=
      ((hlen (j + 1)).add (hlen j)).div (Tracks.natCast 2) h2
    have hcd := cd_exact klam (hre.mul hch) hM (hRe j hj) (hRek j hj)
    have hff := formFactor_exact cmaxt hM (htoc j) ((hw j).div (hl j) (hlsp j hj)) hM0 (hcos j hj) hc
    exact ((((Tracks.natCast 2).mul hcd).mul hch).mul (hw j)).mul hff
  unfold ViscousDrag.cdv
  simp only [if_true]
  cases sym
  · simp only [Bool.false_eq_true, if_false]
    exact hsum.div hS hS0
  · simp only [if_true]
    exact (hsum.div hS hS0).mul (Tracks.natCast 2)

/-! ### transfer components -/

theorem computeNodes_exact (nx : ℕ) {w : Dual ℝ} {fw : ℝ → ℝ} {m : Mesh (Dual ℝ)} {fm : ℝ → Mesh ℝ}
    (hw : Tracks w fw t) (hm : ∀ i j, TracksV (m i j) (fun s => fm s i j) t) (j : ℕ) :
    TracksV (computeNodes nx w m j) (fun s => computeNodes nx (fw s) (fm s) j) t := by
  obtain ⟨hmx, hmy, hmz⟩ := TracksV.fam2 hm
  refine ⟨?_, ?_, ?_⟩ <;> simp only [computeNodes] <;> v3norm <;> track

/-- `LoadTransfer`: nodal forces, w.r.t. the sectional forces -/
theorem loadForce_exact (nx ny : ℕ) {F : ℕ → ℕ → V3 (Dual ℝ)} {fF : ℝ → ℕ → ℕ → V3 ℝ}
    (hF : ∀ i j, TracksV (F i j) (fun s => fF s i j) t) (j : ℕ) :
    TracksV (LoadTransfer.force nx ny F j) (fun s => LoadTransfer.force nx ny (fF s) j) t := by
  obtain ⟨hFx, hFy, hFz⟩ := TracksV.fam2 hF
  refine ⟨?_, ?_, ?_⟩ <;> simp only [LoadTransfer.force, LoadTransfer.secSum] <;> v3norm <;> track

/-- `LoadTransfer`: nodal moments, w.r.t. the deformed mesh and the sectional forces (the hand-derived cross-product
partials of `load_transfer.py`) -/
theorem loadMoment_exact (nx ny : ℕ) (w1 w2 : ℝ) {m : Mesh (Dual ℝ)} {fm : ℝ → Mesh ℝ} {F : ℕ → ℕ → V3 (Dual ℝ)}
    {fF : ℝ → ℕ → ℕ → V3 ℝ} (hm : ∀ i j, TracksV (m i j) (fun s => fm s i j) t)
    (hF : ∀ i j, TracksV (F i j) (fun s => fF s i j) t) (j : ℕ) :
    TracksV (LoadTransfer.moment nx ny (⟨w1, 0⟩ : Dual ℝ) (⟨w2, 0⟩ : Dual ℝ) m F j)
      (fun s => LoadTransfer.moment nx ny w1 w2 (fm s) (fF s) j) t := by
  obtain ⟨hmx, hmy, hmz⟩ := TracksV.fam2 hm
  obtain ⟨hFx, hFy, hFz⟩ := TracksV.fam2 hF
  refine ⟨?_, ?_, ?_⟩ <;>
    simp only [LoadTransfer.moment, LoadTransfer.momentIn, LoadTransfer.momentOut, LoadTransfer.aPt, LoadTransfer.sPt] <;>
    v3norm <;> track

/-- `ComputeTransformationMatrix`, every entry -/
theorem transformationMatrix_exact {r : V3 (Dual ℝ)} {fr : ℝ → V3 ℝ} (hr : TracksV r fr t) :
    TracksV (transformationMatrix r).r0 (fun s => (transformationMatrix (fr s)).r0) t ∧
    TracksV (transformationMatrix r).r1 (fun s => (transformationMatrix (fr s)).r1) t ∧
    TracksV (transformationMatrix r).r2 (fun s => (transformationMatrix (fr s)).r2) t := by
  have hx := hr.x; have hy := hr.y; have hz := hr.z
  refine ⟨⟨?_, ?_, ?_⟩, ⟨?_, ?_, ?_⟩, ⟨?_, ?_, ?_⟩⟩ <;> simp only [transformationMatrix] <;> track

/-- `DisplacementTransfer`, w.r.t. mesh, nodes, translations and the transformation matrices -/
theorem displacementTransfer_exact {m : Mesh (Dual ℝ)} {fm : ℝ → Mesh ℝ} {n d : Pts (Dual ℝ)} {fn fd : ℝ → Pts ℝ}
    {T : ℕ → M3 (Dual ℝ)} {fT : ℝ → ℕ → M3 ℝ}
    (hm : ∀ i j, TracksV (m i j) (fun s => fm s i j) t) (hn : ∀ j, TracksV (n j) (fun s => fn s j) t)
    (hd : ∀ j, TracksV (d j) (fun s => fd s j) t)
    (h0 : ∀ j, TracksV (T j).r0 (fun s => (fT s j).r0) t) (h1 : ∀ j, TracksV (T j).r1 (fun s => (fT s j).r1) t)
    (h2 : ∀ j, TracksV (T j).r2 (fun s => (fT s j).r2) t) (i j : ℕ) :
    TracksV (displacementTransfer m n d T i j) (fun s => displacementTransfer (fm s) (fn s) (fd s) (fT s) i j) t := by
  obtain ⟨hmx, hmy, hmz⟩ := TracksV.fam2 hm
  obtain ⟨hnx, hny, hnz⟩ := TracksV.fam1 hn
  obtain ⟨hdx, hdy, hdz⟩ := TracksV.fam1 hd
  obtain ⟨h0x, h0y, h0z⟩ := TracksV.fam1 h0
  obtain ⟨h1x, h1y, h1z⟩ := TracksV.fam1 h1
  obtain ⟨h2x, h2y, h2z⟩ := TracksV.fam1 h2
  refine ⟨?_, ?_, ?_⟩ <;> simp only [displacementTransfer] <;> v3norm <;> track

theorem meshPointForces_exact (nx ny : ℕ) (le te : ℝ) {F : ℕ → ℕ → V3 (Dual ℝ)} {fF : ℝ → ℕ → ℕ → V3 ℝ}
    (hF : ∀ i j, TracksV (F i j) (fun s => fF s i j) t) (i j : ℕ) :
    TracksV (meshPointForces nx ny (⟨le, 0⟩ : Dual ℝ) (⟨te, 0⟩ : Dual ℝ) F i j)
      (fun s => meshPointForces nx ny le te (fF s) i j) t := by
  obtain ⟨hFx, hFy, hFz⟩ := TracksV.fam2 hF
  refine ⟨?_, ?_, ?_⟩ <;> simp only [meshPointForces] <;> v3norm <;> track

/-! ### structural mass, centre of gravity, distributed and point loads -/

theorem elemLength_exact {n : Pts (Dual ℝ)} {fn : ℝ → Pts ℝ} (hn : ∀ j, TracksV (n j) (fun s => fn s j) t) (e : ℕ)
    (h0 : 0 < V3.normSq (elemDelta (fn t) e)) :
    Tracks (elemLength n e) (fun s => elemLength (fn s) e) t := by
  obtain ⟨hnx, hny, hnz⟩ := TracksV.fam1 hn
  simp only [elemLength, elemDelta]; v3norm; track

theorem elementMass_exact (mrho wwr : ℝ) {n : Pts (Dual ℝ)} {fn : ℝ → Pts ℝ} {A : ℕ → Dual ℝ} {fA : ℕ → ℝ → ℝ}
    (hn : ∀ j, TracksV (n j) (fun s => fn s j) t) (hA : ∀ e, Tracks (A e) (fA e) t) (e : ℕ)
    (h0 : 0 < V3.normSq (elemDelta (fn t) e)) :
    Tracks (elementMass (⟨mrho, 0⟩ : Dual ℝ) (⟨wwr, 0⟩ : Dual ℝ) n A e)
      (fun s => elementMass mrho wwr (fn s) (fun k => fA k s) e) t := by
  simp only [elementMass]
  exact (((elemLength_exact hn e h0).mul (hA e)).mul (Tracks.const _)).mul (Tracks.const _)

/-- `Weight`: structural mass, any number of elements -/
theorem structuralMass_exact (ny : ℕ) (sym : Bool) (mrho wwr : ℝ) {n : Pts (Dual ℝ)} {fn : ℝ → Pts ℝ} {A : ℕ → Dual ℝ}
    {fA : ℕ → ℝ → ℝ} (hn : ∀ j, TracksV (n j) (fun s => fn s j) t) (hA : ∀ e, Tracks (A e) (fA e) t)
    (h0 : ∀ e, e < ny - 1 → 0 < V3.normSq (elemDelta (fn t) e)) :
    Tracks (structuralMass ny sym (⟨mrho, 0⟩ : Dual ℝ) (⟨wwr, 0⟩ : Dual ℝ) n A)
      (fun s => structuralMass ny sym mrho wwr (fn s) (fun k => fA k s)) t := by
  have hs := Tracks.sumTo (ny - 1) (elementMass (⟨mrho, 0⟩ : Dual ℝ) (⟨wwr, 0⟩ : Dual ℝ) n A)
    (fun e s => elementMass mrho wwr (fn s) (fun k => fA k s) e) (fun e he => elementMass_exact mrho wwr hn hA e (h0 e he))
  simp only [structuralMass]
  cases sym
  · exact hs
  · exact hs.mul (Tracks.natCast 2)

/-- `StructuralCG`, w.r.t. nodes, total mass and element masses -/
theorem structuralCG_exact (ny : ℕ) (sym : Bool) {n : Pts (Dual ℝ)} {fn : ℝ → Pts ℝ} {M : Dual ℝ} {fM : ℝ → ℝ}
    {em : ℕ → Dual ℝ} {fem : ℕ → ℝ → ℝ} (hn : ∀ j, TracksV (n j) (fun s => fn s j) t) (hM : Tracks M fM t)
    (hem : ∀ e, Tracks (em e) (fem e) t) (h0 : fM t ≠ 0) :
    TracksV (structuralCG ny sym n M em) (fun s => structuralCG ny sym (fn s) (fM s) (fun k => fem k s)) t := by
  obtain ⟨hnx, hny, hnz⟩ := TracksV.fam1 hn
  have h2 : ((2 : ℕ) : ℝ) ≠ 0 := by norm_num
  cases sym <;> refine ⟨?_, ?_, ?_⟩ <;> simp only [structuralCG, elemCenter, Bool.false_eq_true, if_false, if_true] <;>
    v3norm <;> track

theorem fuelVolDelta_exact (ny : ℕ) (sym : Bool) {v : ℕ → Dual ℝ} {fv : ℕ → ℝ → ℝ} {fb rs rho : Dual ℝ}
    {ffb frs frho : ℝ → ℝ} (hv : ∀ e, Tracks (v e) (fv e) t) (h1 : Tracks fb ffb t) (h2 : Tracks rs frs t)
    (h3 : Tracks rho frho t) (h0 : frho t ≠ 0) :
    Tracks (fuelVolDelta ny sym v fb rs rho) (fun s => fuelVolDelta ny sym (fun k => fv k s) (ffb s) (frs s) (frho s)) t := by
  have h2' : ((2 : ℕ) : ℝ) ≠ 0 := by norm_num
  cases sym <;> simp only [fuelVolDelta, Bool.false_eq_true, if_false, if_true] <;> track

/-! ### VLMGeometry: widths, lengths, chords, normals, reference area -/

theorem widths_exact (nx : ℕ) {m : Mesh (Dual ℝ)} {fm : ℝ → Mesh ℝ} (hm : ∀ i j, TracksV (m i j) (fun s => fm s i j) t)
    (j : ℕ)
    (h0 : 0 < (VLMGeometry.quarterChord nx (fm t) (j + 1) - VLMGeometry.quarterChord nx (fm t) j).y
              * (VLMGeometry.quarterChord nx (fm t) (j + 1) - VLMGeometry.quarterChord nx (fm t) j).y
            + (VLMGeometry.quarterChord nx (fm t) (j + 1) - VLMGeometry.quarterChord nx (fm t) j).z
              * (VLMGeometry.quarterChord nx (fm t) (j + 1) - VLMGeometry.quarterChord nx (fm t) j).z) :
    Tracks (VLMGeometry.widths nx m j) (fun s => VLMGeometry.widths nx (fm s) j) t := by
  obtain ⟨hmx, hmy, hmz⟩ := TracksV.fam2 hm
  simp only [VLMGeometry.widths, VLMGeometry.quarterChord]
  v3norm; track

theorem lengthsSpanwise_exact (nx : ℕ) {m : Mesh (Dual ℝ)} {fm : ℝ → Mesh ℝ}
    (hm : ∀ i j, TracksV (m i j) (fun s => fm s i j) t) (j : ℕ)
    (h0 : 0 < V3.normSq (VLMGeometry.quarterChord nx (fm t) (j + 1) - VLMGeometry.quarterChord nx (fm t) j)) :
    Tracks (VLMGeometry.lengthsSpanwise nx m j) (fun s => VLMGeometry.lengthsSpanwise nx (fm s) j) t := by
  obtain ⟨hmx, hmy, hmz⟩ := TracksV.fam2 hm
  simp only [VLMGeometry.lengthsSpanwise, VLMGeometry.quarterChord]
  v3norm; track

theorem lengths_exact (nx : ℕ) {m : Mesh (Dual ℝ)} {fm : ℝ → Mesh ℝ} (hm : ∀ i j, TracksV (m i j) (fun s => fm s i j) t)
    (j : ℕ) (h0 : ∀ i, i < nx - 1 → 0 < V3.normSq (fm t (i + 1) j - fm t i j)) :
    Tracks (VLMGeometry.lengths nx m j) (fun s => VLMGeometry.lengths nx (fm s) j) t := by
  obtain ⟨hmx, hmy, hmz⟩ := TracksV.fam2 hm
  simp only [VLMGeometry.lengths]
  refine Tracks.sumTo _ _ _ ?_
  intro i hi
  have := h0 i hi
  v3norm; track

theorem chords_exact (nx : ℕ) {m : Mesh (Dual ℝ)} {fm : ℝ → Mesh ℝ} (hm : ∀ i j, TracksV (m i j) (fun s => fm s i j) t)
    (j : ℕ) (h0 : 0 < V3.normSq (fm t 0 j - fm t (nx - 1) j)) :
    Tracks (VLMGeometry.chords nx m j) (fun s => VLMGeometry.chords nx (fm s) j) t := by
  obtain ⟨hmx, hmy, hmz⟩ := TracksV.fam2 hm
  simp only [VLMGeometry.chords]
  v3norm; track

/-- unit panel normals (cross product of the diagonals, normalised) -/
theorem normals_exact {m : Mesh (Dual ℝ)} {fm : ℝ → Mesh ℝ} (hm : ∀ i j, TracksV (m i j) (fun s => fm s i j) t)
    (i j : ℕ) (h0 : 0 < V3.normSq (VLMGeometry.rawNormal (fm t) i j)) :
    TracksV (VLMGeometry.normals m i j) (fun s => VLMGeometry.normals (fm s) i j) t := by
  obtain ⟨hmx, hmy, hmz⟩ := TracksV.fam2 hm
  have hne : Real.sqrt ((VLMGeometry.rawNormal (fm t) i j).x * (VLMGeometry.rawNormal (fm t) i j).x + (VLMGeometry.rawNormal (fm t) i j).y * (VLMGeometry.rawNormal (fm t) i j).y + (VLMGeometry.rawNormal (fm t) i j).z * (VLMGeometry.rawNormal (fm t) i j).z) ≠ 0 := (Real.sqrt_pos.mpr h0).ne'
  refine ⟨?_, ?_, ?_⟩ <;> simp only [VLMGeometry.normals, VLMGeometry.rawNormal] <;> v3norm <;> track

/-- wetted reference area (`S_ref_type = 'wetted'`), any `nx`, `ny` -/
theorem sRef_wetted_exact (nx ny : ℕ) (sym : Bool) {m : Mesh (Dual ℝ)} {fm : ℝ → Mesh ℝ}
    (hm : ∀ i j, TracksV (m i j) (fun s => fm s i j) t)
    (h0 : ∀ i j, i < nx - 1 → j < ny - 1 → 0 < V3.normSq (VLMGeometry.rawNormal (fm t) i j)) :
    Tracks (VLMGeometry.sRef nx ny sym false m) (fun s => VLMGeometry.sRef nx ny sym false (fm s)) t := by
  obtain ⟨hmx, hmy, hmz⟩ := TracksV.fam2 hm
  have hs : Tracks (dec 1 2 * sumTo (nx - 1) (fun i => sumTo (ny - 1) (fun j => V3.norm (VLMGeometry.rawNormal m i j))))
      (fun s => dec 1 2 * sumTo (nx - 1) (fun i => sumTo (ny - 1) (fun j => V3.norm (VLMGeometry.rawNormal (fm s) i j)))) t := by
    apply Tracks.mul (Tracks.dec 1 2)
    refine Tracks.sumTo _ _ _ ?_
    intro i hi
    refine Tracks.sumTo _ _ _ ?_
    intro j hj
    have := h0 i j hi hj
    simp only [VLMGeometry.rawNormal]
    v3norm; track
  simp only [VLMGeometry.sRef, Bool.false_eq_true, if_false]
  cases sym
  · exact hs
  · exact hs.mul (Tracks.natCast 2)

/-! ### LiftDrag, LiftCoeff2D -/

theorem liftDrag_exact (np : ℕ) (sym : Bool) {al be : Dual ℝ} {fa fb : ℝ → ℝ} {F : ℕ → V3 (Dual ℝ)} {fF : ℝ → ℕ → V3 ℝ}
    (ha : Tracks al fa t) (hb : Tracks be fb t) (hF : ∀ k, TracksV (F k) (fun s => fF s k) t) :
    Tracks (liftDrag np sym al be F).1 (fun s => (liftDrag np sym (fa s) (fb s) (fF s)).1) t ∧
    Tracks (liftDrag np sym al be F).2 (fun s => (liftDrag np sym (fa s) (fb s) (fF s)).2) t := by
  obtain ⟨hFx, hFy, hFz⟩ := TracksV.fam1 hF
  have h180 : ((180 : ℕ) : ℝ) ≠ 0 := by norm_num
  cases sym <;> refine ⟨?_, ?_⟩ <;> simp only [liftDrag, deg2rad, Bool.false_eq_true, if_false, if_true] <;> track

theorem liftCoeff2D_exact (nx : ℕ) {al rho v : Dual ℝ} {fa fr fv : ℝ → ℝ} {F : ℕ → ℕ → V3 (Dual ℝ)}
    {fF : ℝ → ℕ → ℕ → V3 ℝ} {w c : ℕ → Dual ℝ} {fw fc : ℕ → ℝ → ℝ}
    (ha : Tracks al fa t) (hr : Tracks rho fr t) (hv : Tracks v fv t) (hF : ∀ i j, TracksV (F i j) (fun s => fF s i j) t)
    (hw : ∀ j, Tracks (w j) (fw j) t) (hc : ∀ j, Tracks (c j) (fc j) t) (j : ℕ) (h1 : fw j t ≠ 0)
    (h2 : dec 1 2 * fr t * (fv t * fv t) * (dec 1 2 * (fc (j + 1) t + fc j t)) ≠ 0) :
    Tracks (liftCoeff2D nx al rho v F w c j)
      (fun s => liftCoeff2D nx (fa s) (fr s) (fv s) (fF s) (fun k => fw k s) (fun k => fc k s) j) t := by
  obtain ⟨hFx, hFy, hFz⟩ := TracksV.fam2 hF
  have h180 : ((180 : ℕ) : ℝ) ≠ 0 := by norm_num
  simp only [liftCoeff2D, deg2rad]; v3norm; track

/-! ### WaveDrag: crest-critical Mach number and the two sides of the drag-divergence branch -/

theorem mcrit_exact (ny : ℕ) (ka : ℝ) {CL : Dual ℝ} {fCL : ℝ → ℝ} {toc w l c : ℕ → Dual ℝ} {ft fw fl fc : ℕ → ℝ → ℝ}
    (hCL : Tracks CL fCL t) (ht : ∀ j, Tracks (toc j) (ft j) t) (hw : ∀ j, Tracks (w j) (fw j) t)
    (hl : ∀ j, Tracks (l j) (fl j) t) (hc : ∀ j, Tracks (c j) (fc j) t)
    (hl0 : ∀ j, j < ny - 1 → fl j t ≠ 0)
    (hA : sumTo (ny - 1) (WaveDrag.panelArea (fun k => fc k t) (fun k => fw k t)) ≠ 0)
    (hcos : sumTo (ny - 1) (fun j => fw j t / fl j t * WaveDrag.panelArea (fun k => fc k t) (fun k => fw k t) j)
              / sumTo (ny - 1) (WaveDrag.panelArea (fun k => fc k t) (fun k => fw k t)) ≠ 0) :
    Tracks (WaveDrag.mcrit ny (⟨ka, 0⟩ : Dual ℝ) CL toc w l c)
      (fun s => WaveDrag.mcrit ny ka (fCL s) (fun k => ft k s) (fun k => fw k s) (fun k => fl k s) (fun k => fc k s)) t := by
  have h2 : ((2 : ℕ) : ℝ) ≠ 0 := by norm_num
  have h3 : ((3 : ℕ) : ℝ) ≠ 0 := by norm_num
  have h10 : ((10 : ℕ) : ℝ) ≠ 0 := by norm_num
  have h80 : ((80 : ℕ) : ℝ) ≠ 0 := by norm_num
  have hp : (0 : ℝ) < dec 1 10 / ((80 : ℕ) : ℝ) := by simp [dec_def]
  simp only [WaveDrag.mcrit, WaveDrag.panelArea] at hA hcos ⊢
  have hcos2 := mul_ne_zero hcos hcos
  have hcos3 := mul_ne_zero hcos2 hcos
  have hcos10 := mul_ne_zero h10 hcos3
  track
  all_goals first | exact hl0 _ ‹_› | assumption

/-- wave drag above the crest-critical Mach number (`M > Mcrit`: the `20 (M − Mcrit)⁴` branch) … -/
theorem cdw_above_exact (ny : ℕ) (sym : Bool) (ka : ℝ) {M CL : Dual ℝ} {fM fCL : ℝ → ℝ} {toc w l c : ℕ → Dual ℝ}
    {ft fw fl fc : ℕ → ℝ → ℝ} (hM : Tracks M fM t)
    (hmc : Tracks (WaveDrag.mcrit ny (⟨ka, 0⟩ : Dual ℝ) CL toc w l c)
      (fun s => WaveDrag.mcrit ny ka (fCL s) (fun k => ft k s) (fun k => fw k s) (fun k => fl k s) (fun k => fc k s)) t)
    (habove : WaveDrag.mcrit ny ka (fCL t) (fun k => ft k t) (fun k => fw k t) (fun k => fl k t) (fun k => fc k t) < fM t) :
    Tracks (WaveDrag.cdw ny true sym (⟨ka, 0⟩ : Dual ℝ) M CL toc w l c)
      (fun s => WaveDrag.cdw ny true sym ka (fM s) (fCL s) (fun k => ft k s) (fun k => fw k s) (fun k => fl k s) (fun k => fc k s)) t := by
  have hd := hM.sub hmc
  have hbr := Tracks.ite_lt_pos (d := (0 : Dual ℝ)) (G := fun _ => (0 : ℝ)) hmc hM habove
    ((Tracks.natCast 20).mul (((hd.mul hd).mul hd).mul hd))
  cases sym
  · simpa only [WaveDrag.cdw, if_true, Bool.false_eq_true, if_false] using hbr
  · simpa only [WaveDrag.cdw, if_true] using hbr.mul (Tracks.natCast 2)

/-- … and below it (`M < Mcrit`: identically zero, with zero derivative – the partials the code must *reset*, C03) -/
theorem cdw_below_exact (ny : ℕ) (sym : Bool) (ka : ℝ) {M CL : Dual ℝ} {fM fCL : ℝ → ℝ} {toc w l c : ℕ → Dual ℝ}
    {ft fw fl fc : ℕ → ℝ → ℝ} (hM : Tracks M fM t)
    (hmc : Tracks (WaveDrag.mcrit ny (⟨ka, 0⟩ : Dual ℝ) CL toc w l c)
      (fun s => WaveDrag.mcrit ny ka (fCL s) (fun k => ft k s) (fun k => fw k s) (fun k => fl k s) (fun k => fc k s)) t)
    (hbelow : fM t < WaveDrag.mcrit ny ka (fCL t) (fun k => ft k t) (fun k => fw k t) (fun k => fl k t) (fun k => fc k t)) :
    Tracks (WaveDrag.cdw ny true sym (⟨ka, 0⟩ : Dual ℝ) M CL toc w l c)
      (fun s => WaveDrag.cdw ny true sym ka (fM s) (fCL s) (fun k => ft k s) (fun k => fw k s) (fun k => fl k s) (fun k => fc k s)) t := by
  have hbr := Tracks.ite_lt_neg
    (c := ((20 : ℕ) : Dual ℝ) * ((M - WaveDrag.mcrit ny (⟨ka, 0⟩ : Dual ℝ) CL toc w l c) * (M - WaveDrag.mcrit ny (⟨ka, 0⟩ : Dual ℝ) CL toc w l c)
        * (M - WaveDrag.mcrit ny (⟨ka, 0⟩ : Dual ℝ) CL toc w l c) * (M - WaveDrag.mcrit ny (⟨ka, 0⟩ : Dual ℝ) CL toc w l c)))
    (F := fun s => ((20 : ℕ) : ℝ) * ((fM s - WaveDrag.mcrit ny ka (fCL s) (fun k => ft k s) (fun k => fw k s) (fun k => fl k s) (fun k => fc k s))
        * (fM s - WaveDrag.mcrit ny ka (fCL s) (fun k => ft k s) (fun k => fw k s) (fun k => fl k s) (fun k => fc k s))
        * (fM s - WaveDrag.mcrit ny ka (fCL s) (fun k => ft k s) (fun k => fw k s) (fun k => fl k s) (fun k => fc k s))
        * (fM s - WaveDrag.mcrit ny ka (fCL s) (fun k => ft k s) (fun k => fw k s) (fun k => fl k s) (fun k => fc k s))))
    hmc hM hbelow (Tracks.zero)
  cases sym
  · simpa only [WaveDrag.cdw, if_true, Bool.false_eq_true, if_false] using hbr
  · simpa only [WaveDrag.cdw, if_true] using hbr.mul (Tracks.natCast 2)

/-! ### functionals -/

theorem totalLiftDrag_exact (ns : ℕ) {CL CD S : ℕ → Dual ℝ} {fCL fCD fS : ℕ → ℝ → ℝ} {rho v St : Dual ℝ} {fr fv fSt : ℝ → ℝ}
    (h1 : ∀ k, Tracks (CL k) (fCL k) t) (h2 : ∀ k, Tracks (CD k) (fCD k) t) (h3 : ∀ k, Tracks (S k) (fS k) t)
    (hr : Tracks rho fr t) (hv : Tracks v fv t) (hS : Tracks St fSt t) (h0 : fSt t ≠ 0) :
    Tracks (totalLiftDrag ns CL CD S rho v St).1 (fun s => (totalLiftDrag ns (fun k => fCL k s) (fun k => fCD k s) (fun k => fS k s) (fr s) (fv s) (fSt s)).1) t ∧
    Tracks (totalLiftDrag ns CL CD S rho v St).2.1 (fun s => (totalLiftDrag ns (fun k => fCL k s) (fun k => fCD k s) (fun k => fS k s) (fr s) (fv s) (fSt s)).2.1) t ∧
    Tracks (totalLiftDrag ns CL CD S rho v St).2.2.1 (fun s => (totalLiftDrag ns (fun k => fCL k s) (fun k => fCD k s) (fun k => fS k s) (fr s) (fv s) (fSt s)).2.2.1) t ∧
    Tracks (totalLiftDrag ns CL CD S rho v St).2.2.2 (fun s => (totalLiftDrag ns (fun k => fCL k s) (fun k => fCD k s) (fun k => fS k s) (fr s) (fv s) (fSt s)).2.2.2) t := by
  refine ⟨?_, ?_, ?_, ?_⟩ <;> simp only [totalLiftDrag] <;> track

theorem equilibrium_exact (ns : ℕ) {sm : ℕ → Dual ℝ} {fsm : ℕ → ℝ → ℝ} {fb W0 lf CL St v rho : Dual ℝ}
    {ffb fW0 flf fCL fSt fv fr : ℝ → ℝ} (hsm : ∀ k, Tracks (sm k) (fsm k) t) (h1 : Tracks fb ffb t) (h2 : Tracks W0 fW0 t)
    (h3 : Tracks lf flf t) (h4 : Tracks CL fCL t) (h5 : Tracks St fSt t) (h6 : Tracks v fv t) (h7 : Tracks rho fr t)
    (h0 : (sumTo ns (fun k => fsm k t) + ffb t + fW0 t) * (gravConstant * flf t) ≠ 0) :
    Tracks (equilibrium ns sm fb W0 lf CL St v rho).1
      (fun s => (equilibrium ns (fun k => fsm k s) (ffb s) (fW0 s) (flf s) (fCL s) (fSt s) (fv s) (fr s)).1) t ∧
    Tracks (equilibrium ns sm fb W0 lf CL St v rho).2
      (fun s => (equilibrium ns (fun k => fsm k s) (ffb s) (fW0 s) (flf s) (fCL s) (fSt s) (fv s) (fr s)).2) t := by
  refine ⟨?_, ?_⟩ <;> simp only [equilibrium, gravConstant] <;> track

theorem centerOfGravity_exact (ns : ℕ) {sm : ℕ → Dual ℝ} {fsm : ℕ → ℝ → ℝ} {cg : ℕ → V3 (Dual ℝ)} {fcg : ℝ → ℕ → V3 ℝ}
    {tw fb W0 lf : Dual ℝ} {ftw ffb fW0 flf : ℝ → ℝ} {ec : V3 (Dual ℝ)} {fec : ℝ → V3 ℝ}
    (hsm : ∀ k, Tracks (sm k) (fsm k) t) (hcg : ∀ k, TracksV (cg k) (fun s => fcg s k) t)
    (h1 : Tracks tw ftw t) (h2 : Tracks fb ffb t) (h3 : Tracks W0 fW0 t) (h4 : Tracks lf flf t) (hec : TracksV ec fec t)
    (hg : gravConstant * flf t ≠ 0) (hd : ftw t / (gravConstant * flf t) - ffb t ≠ 0) :
    TracksV (centerOfGravity ns sm cg tw fb W0 lf ec)
      (fun s => centerOfGravity ns (fun k => fsm k s) (fcg s) (ftw s) (ffb s) (fW0 s) (flf s) (fec s)) t := by
  obtain ⟨hcx, hcy, hcz⟩ := TracksV.fam1 hcg
  have hex := hec.x; have hey := hec.y; have hez := hec.z
  refine ⟨?_, ?_, ?_⟩ <;> simp only [centerOfGravity, gravConstant] at hg hd ⊢ <;> v3norm <;> track

/-! ### stress post-processing, section properties, energy -/

theorem failureExact_exact (sigma : ℝ) {vm : Dual ℝ} {fvm : ℝ → ℝ} (h : Tracks vm fvm t) (h0 : sigma ≠ 0) :
    Tracks (failureExact (⟨sigma, 0⟩ : Dual ℝ) vm) (fun s => failureExact sigma (fvm s)) t := by
  simp only [failureExact]; track

theorem energy_exact (n : ℕ) {d l : ℕ → Dual ℝ} {fd fl : ℕ → ℝ → ℝ} (hd : ∀ k, Tracks (d k) (fd k) t)
    (hl : ∀ k, Tracks (l k) (fl k) t) :
    Tracks (energy n d l) (fun s => energy n (fun k => fd k s) (fun k => fl k s)) t := by
  simp only [energy]; track

theorem sectionPropertiesTube_exact {r th : Dual ℝ} {fr fth : ℝ → ℝ} (hr : Tracks r fr t) (hth : Tracks th fth t) :
    Tracks (sectionPropertiesTube r th).1 (fun s => (sectionPropertiesTube (fr s) (fth s)).1) t ∧
    Tracks (sectionPropertiesTube r th).2.1 (fun s => (sectionPropertiesTube (fr s) (fth s)).2.1) t ∧
    Tracks (sectionPropertiesTube r th).2.2.1 (fun s => (sectionPropertiesTube (fr s) (fth s)).2.2.1) t ∧
    Tracks (sectionPropertiesTube r th).2.2.2 (fun s => (sectionPropertiesTube (fr s) (fth s)).2.2.2) t := by
  have h2 : ((2 : ℕ) : ℝ) ≠ 0 := by norm_num
  have h4 : ((4 : ℕ) : ℝ) ≠ 0 := by norm_num
  refine ⟨?_, ?_, ?_, ?_⟩ <;> simp only [sectionPropertiesTube] <;> track

/-! ### Prandtl–Glauert rotations and scalings -/

theorem toWind_exact {a b : Dual ℝ} {fa fb : ℝ → ℝ} {v : V3 (Dual ℝ)} {fv : ℝ → V3 ℝ} (ha : Tracks a fa t)
    (hb : Tracks b fb t) (hv : TracksV v fv t) :
    TracksV (PG.toWind a b v) (fun s => PG.toWind (fa s) (fb s) (fv s)) t := by
  have hx := hv.x; have hy := hv.y; have hz := hv.z
  refine ⟨?_, ?_, ?_⟩ <;> simp only [PG.toWind, PG.tw, M3.mulVec] <;> track

theorem fromWind_exact {a b : Dual ℝ} {fa fb : ℝ → ℝ} {v : V3 (Dual ℝ)} {fv : ℝ → V3 ℝ} (ha : Tracks a fa t)
    (hb : Tracks b fb t) (hv : TracksV v fv t) :
    TracksV (PG.fromWind a b v) (fun s => PG.fromWind (fa s) (fb s) (fv s)) t := by
  have hx := hv.x; have hy := hv.y; have hz := hv.z
  refine ⟨?_, ?_, ?_⟩ <;> simp only [PG.fromWind, PG.transpose, PG.tw, M3.mulVec] <;> track

theorem betaPG_exact {M : Dual ℝ} {fM : ℝ → ℝ} (hM : Tracks M fM t) (h0 : 0 < 1 - fM t * fM t) :
    Tracks (PG.betaPG M) (fun s => PG.betaPG (fM s)) t := by
  simp only [PG.betaPG]; track

theorem unscaleForce_exact {B : Dual ℝ} {fB : ℝ → ℝ} {v : V3 (Dual ℝ)} {fv : ℝ → V3 ℝ} (hB : Tracks B fB t)
    (hv : TracksV v fv t) (h0 : fB t ≠ 0) :
    TracksV (PG.unscaleForce B v) (fun s => PG.unscaleForce (fB s) (fv s)) t := by
  have hx := hv.x; have hy := hv.y; have hz := hv.z
  have h3 := mul_ne_zero (mul_ne_zero h0 h0) h0
  have h4 := mul_ne_zero h3 h0
  refine ⟨?_, ?_, ?_⟩ <;> simp only [PG.unscaleForce] <;> track

end C01AD
end OAS
