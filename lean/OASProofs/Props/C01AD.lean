import OASProofs.Lemmas.AD

/-!
# C01 (continued)  The derivative oracle of the correspondence check is exact

The correspondence check of every run compares the Jacobian each OpenAeroStruct component reports with the
derivative of the *model* of that component, computed by instantiating the model at dual numbers
(`OASModel/Dual.lean`).  The theorems below show, for the model definitions listed, that this dual-number
evaluation is the exact derivative of the real-number instantiation along **any** differentiable curve through the
input space (`Tracks a f t`: `a` carries the value and the derivative of `f` at `t`) – i.e. every partial derivative
and every directional derivative, at every point where the formula is differentiable (the stated side conditions:
non-zero denominators, positive arguments of `sqrt`, `log`, real powers).  They are derived syntax-directed from the
soundness of each primitive (`OASProofs/Lemmas/AD.lean`), so they hold for the definitions as they are, not for a
re-statement of them.
-/
set_option linter.unusedSectionVars false
set_option linter.unusedSimpArgs false
namespace OAS
namespace C01AD
open AD

variable {t : ℝ}

/-! ### Coeffs, Reynolds, totals -/

theorem coeff_exact {X rho v S : Dual ℝ} {fX fr fv fS : ℝ → ℝ}
    (hX : Tracks X fX t) (hr : Tracks rho fr t) (hv : Tracks v fv t) (hS : Tracks S fS t)
    (h0 : dec 1 2 * fr t * (fv t * fv t) * fS t ≠ 0) :
    Tracks (coeff X rho v S) (fun x => coeff (fX x) (fr x) (fv x) (fS x)) t := by
  unfold coeff; track

theorem reynolds_exact {rho v mu : Dual ℝ} {fr fv fm : ℝ → ℝ}
    (hr : Tracks rho fr t) (hv : Tracks v fv t) (hm : Tracks mu fm t) (h0 : fm t ≠ 0) :
    Tracks (reynolds rho v mu) (fun x => reynolds (fr x) (fv x) (fm x)) t := by
  unfold reynolds; track

theorem totalDrag_exact {a b c d : Dual ℝ} {fa fb fc fd : ℝ → ℝ}
    (ha : Tracks a fa t) (hb : Tracks b fb t) (hc : Tracks c fc t) (hd : Tracks d fd t) :
    Tracks (totalDrag a b c d) (fun x => totalDrag (fa x) (fb x) (fc x) (fd x)) t := by
  unfold totalDrag; track

theorem breguet_exact (ns : ℕ) {sm : ℕ → Dual ℝ} {fsm : ℕ → ℝ → ℝ} {CT CL CD a R M W0 : Dual ℝ}
    {fCT fCL fCD fa fR fM fW0 : ℝ → ℝ} (hsm : ∀ k, Tracks (sm k) (fsm k) t)
    (h1 : Tracks CT fCT t) (h2 : Tracks CL fCL t) (h3 : Tracks CD fCD t) (h4 : Tracks a fa t) (h5 : Tracks R fR t)
    (h6 : Tracks M fM t) (h7 : Tracks W0 fW0 t) (ha : fa t ≠ 0) (hM : fM t ≠ 0) (hCL : fCL t ≠ 0) :
    Tracks (breguetFuelburn ns sm CT CL CD a R M W0)
      (fun x => breguetFuelburn ns (fun k => fsm k x) (fCT x) (fCL x) (fCD x) (fa x) (fR x) (fM x) (fW0 x)) t := by
  unfold breguetFuelburn
  apply Tracks.mul
  · apply Tracks.add h7
    exact Tracks.sumTo ns sm fsm (fun k _ => hsm k)
  · track

/-! ### ViscousDrag: skin friction, form factor, the three `k_lam` branches, the spanwise sum -/

theorem log10_pos' {x : ℝ} (h : 1 < x) : 0 < Real.log x / Real.log ((10 : ℕ) : ℝ) :=
  div_pos (Real.log_pos h) (Real.log_pos (by norm_num))

theorem cfLam_exact {Re : Dual ℝ} {fRe : ℝ → ℝ} (h : Tracks Re fRe t) (h0 : 0 < fRe t) :
    Tracks (ViscousDrag.cfLam Re) (fun x => ViscousDrag.cfLam (fRe x)) t := by
  unfold ViscousDrag.cfLam; track
  exact (Real.sqrt_pos.mpr h0).ne'

theorem compress_pos (m : ℝ) : (0 : ℝ) < 1 + dec 144 1000 * (m * m) := by
  have : (0 : ℝ) ≤ dec 144 1000 * (m * m) := mul_nonneg (by simp [dec_def]; norm_num) (mul_self_nonneg _)
  linarith

theorem cfTurb_exact {Re M : Dual ℝ} {fRe fM : ℝ → ℝ} (h : Tracks Re fRe t) (hM : Tracks M fM t) (h0 : 1 < fRe t) :
    Tracks (ViscousDrag.cfTurb Re M) (fun x => ViscousDrag.cfTurb (fRe x) (fM x)) t := by
  have hp := compress_pos (fM t)
  unfold ViscousDrag.cfTurb ViscousDrag.log10; track
  · exact (lt_trans zero_lt_one h0).ne'
  · norm_num
  · exact (Real.log_pos (by norm_num)).ne'
  · exact log10_pos' h0
  · exact (Real.rpow_pos_of_pos (log10_pos' h0) _).ne'
  · exact (Real.rpow_pos_of_pos hp _).ne'

theorem formFactor_exact (cmaxt : ℝ) {M toc cs : Dual ℝ} {fM ft fc : ℝ → ℝ} (hM : Tracks M fM t) (ht : Tracks toc ft t)
    (hc : Tracks cs fc t) (h1 : 0 < fM t) (h2 : 0 < fc t) (h3 : cmaxt ≠ 0) :
    Tracks (ViscousDrag.formFactor (⟨cmaxt, 0⟩ : Dual ℝ) M toc cs)
      (fun x => ViscousDrag.formFactor cmaxt (fM x) (ft x) (fc x)) t := by
  unfold ViscousDrag.formFactor; track

/-- the section skin-friction coefficient in all three branches of the laminar fraction `k_lam` (an option, hence a
constant): fully turbulent, transition, fully laminar (the branch whose `∂/∂re` the code had as zero, F3) -/
theorem cd_exact (klam : ℝ) {Rec M : Dual ℝ} {fR fM : ℝ → ℝ} (hR : Tracks Rec fR t) (hM : Tracks M fM t)
    (h1 : 1 < fR t) (h2 : klam ≠ 0 → 1 < fR t * klam) :
    Tracks (ViscousDrag.cd (⟨klam, 0⟩ : Dual ℝ) Rec M) (fun x => ViscousDrag.cd klam (fR x) (fM x)) t := by
  have hk : Tracks (⟨klam, 0⟩ : Dual ℝ) (fun _ => klam) t := Tracks.const klam
  unfold ViscousDrag.cd
  simp only [Dual.lt_iff, Dual.zero_v, Dual.one_v, Dual.mk_v]
  by_cases hz : klam < 0 ∨ 0 < klam
  · have hne : klam ≠ 0 := by rcases hz with h | h <;> [exact ne_of_lt h; exact ne_of_gt h]
    have hRk : Tracks (Rec * ⟨klam, 0⟩) (fun x => fR x * klam) t := hR.mul hk
    have h2' := h2 hne
    simp only [hz, if_true]
    by_cases h1k : klam < 1
    · simp only [h1k, if_true]
      exact ((((cfLam_exact hRk (by linarith)).sub (cfTurb_exact hRk hM h2')).mul hk).add (cfTurb_exact hR hM h1))
    · simp only [h1k, if_false]
      exact ((((cfLam_exact hRk (by linarith)).sub Tracks.zero).mul hk).add Tracks.zero)
  · simp only [hz, if_false]
    exact (((Tracks.zero.sub Tracks.zero).mul hk).add (cfTurb_exact hR hM h1))

/-- **`ViscousDrag.compute`**: the whole spanwise sum, every input tracked (`re`, `Mach_number`, `S_ref`, `widths`,
`lengths_spanwise`, `lengths`, `t_over_c`), any number of spanwise sections -/
theorem cdv_exact (ny : ℕ) (sym : Bool) (klam cmaxt : ℝ) {re M S : Dual ℝ} {w lsp len toc : ℕ → Dual ℝ}
    {fre fM fS : ℝ → ℝ} {fw flsp flen ftoc : ℕ → ℝ → ℝ}
    (hre : Tracks re fre t) (hM : Tracks M fM t) (hS : Tracks S fS t)
    (hw : ∀ j, Tracks (w j) (fw j) t) (hl : ∀ j, Tracks (lsp j) (flsp j) t) (hlen : ∀ j, Tracks (len j) (flen j) t)
    (htoc : ∀ j, Tracks (toc j) (ftoc j) t)
    (hS0 : fS t ≠ 0) (hM0 : 0 < fM t) (hc : cmaxt ≠ 0)
    (hRe : ∀ j, j < ny - 1 → 1 < fre t * ((flen (j + 1) t + flen j t) / ((2 : ℕ) : ℝ)))
    (hRek : ∀ j, j < ny - 1 → klam ≠ 0 → 1 < fre t * ((flen (j + 1) t + flen j t) / ((2 : ℕ) : ℝ)) * klam)
    (hlsp : ∀ j, j < ny - 1 → flsp j t ≠ 0) (hcos : ∀ j, j < ny - 1 → 0 < fw j t / flsp j t) :
    Tracks (ViscousDrag.cdv ny true sym (⟨klam, 0⟩ : Dual ℝ) (⟨cmaxt, 0⟩ : Dual ℝ) re M S w lsp len toc)
      (fun x => ViscousDrag.cdv ny true sym klam cmaxt (fre x) (fM x) (fS x) (fun j => fw j x) (fun j => flsp j x)
        (fun j => flen j x) (fun j => ftoc j x)) t := by
  have hsum : Tracks
      (sumTo (ny - 1) (fun j => ((2 : ℕ) : Dual ℝ) * ViscousDrag.cd (⟨klam, 0⟩ : Dual ℝ) (re * ((len (j + 1) + len j) / ((2 : ℕ) : Dual ℝ))) M
          * ((len (j + 1) + len j) / ((2 : ℕ) : Dual ℝ)) * w j
          * ViscousDrag.formFactor (⟨cmaxt, 0⟩ : Dual ℝ) M (toc j) (w j / lsp j)))
      (fun x => sumTo (ny - 1) (fun j => ((2 : ℕ) : ℝ) * ViscousDrag.cd klam (fre x * ((flen (j + 1) x + flen j x) / ((2 : ℕ) : ℝ))) (fM x)
          * ((flen (j + 1) x + flen j x) / ((2 : ℕ) : ℝ)) * fw j x
          * ViscousDrag.formFactor cmaxt (fM x) (ftoc j x) (fw j x / flsp j x))) t := by
    refine Tracks.sumTo _ _ _ ?_
    intro j hj
    have h2 : ((2 : ℕ) : ℝ) ≠ 0 := by norm_num
    have hch : Tracks ((len (j + 1) + len j) / ((2 : ℕ) : Dual ℝ)) (fun x => (flen (j + 1) x + flen j x) / ((2 : ℕ) : ℝ)) t :=
      ((hlen (j + 1)).add (hlen j)).div (Tracks.natCast 2) h2
    have hcd := cd_exact klam (hre.mul hch) hM (hRe j hj) (hRek j hj)
    have hff := formFactor_exact cmaxt hM (htoc j) ((hw j).div (hl j) (hlsp j hj)) hM0 (hcos j hj) hc
    exact ((((Tracks.natCast 2).mul hcd).mul hch).mul (hw j)).mul hff
  unfold ViscousDrag.cdv
  simp only [if_true]
  cases sym
  · simp only [Bool.false_eq_true, if_false]
    exact hsum.div hS hS0
  · simp only [if_true]
    exact (hsum.div hS hS0).mul (Tracks.natCast 2)

/-! ### transfer components -/

theorem computeNodes_exact (nx : ℕ) {w : Dual ℝ} {fw : ℝ → ℝ} {m : Mesh (Dual ℝ)} {fm : ℝ → Mesh ℝ}
    (hw : Tracks w fw t) (hm : ∀ i j, TracksV (m i j) (fun s => fm s i j) t) (j : ℕ) :
    TracksV (computeNodes nx w m j) (fun s => computeNodes nx (fw s) (fm s) j) t := by
  obtain ⟨hmx, hmy, hmz⟩ := TracksV.fam2 hm
  refine ⟨?_, ?_, ?_⟩ <;> simp only [computeNodes] <;> v3norm <;> track

/-- `LoadTransfer`: nodal forces, w.r.t. the sectional forces -/
theorem loadForce_exact (nx ny : ℕ) {F : ℕ → ℕ → V3 (Dual ℝ)} {fF : ℝ → ℕ → ℕ → V3 ℝ}
    (hF : ∀ i j, TracksV (F i j) (fun s => fF s i j) t) (j : ℕ) :
    TracksV (LoadTransfer.force nx ny F j) (fun s => LoadTransfer.force nx ny (fF s) j) t := by
  obtain ⟨hFx, hFy, hFz⟩ := TracksV.fam2 hF
  refine ⟨?_, ?_, ?_⟩ <;> simp only [LoadTransfer.force, LoadTransfer.secSum] <;> v3norm <;> track

/-- `LoadTransfer`: nodal moments, w.r.t. the deformed mesh and the sectional forces (the hand-derived cross-product
partials of `load_transfer.py`) -/
theorem loadMoment_exact (nx ny : ℕ) (w1 w2 : ℝ) {m : Mesh (Dual ℝ)} {fm : ℝ → Mesh ℝ} {F : ℕ → ℕ → V3 (Dual ℝ)}
    {fF : ℝ → ℕ → ℕ → V3 ℝ} (hm : ∀ i j, TracksV (m i j) (fun s => fm s i j) t)
    (hF : ∀ i j, TracksV (F i j) (fun s => fF s i j) t) (j : ℕ) :
    TracksV (LoadTransfer.moment nx ny (⟨w1, 0⟩ : Dual ℝ) (⟨w2, 0⟩ : Dual ℝ) m F j)
      (fun s => LoadTransfer.moment nx ny w1 w2 (fm s) (fF s) j) t := by
  obtain ⟨hmx, hmy, hmz⟩ := TracksV.fam2 hm
  obtain ⟨hFx, hFy, hFz⟩ := TracksV.fam2 hF
  refine ⟨?_, ?_, ?_⟩ <;>
    simp only [LoadTransfer.moment, LoadTransfer.momentIn, LoadTransfer.momentOut, LoadTransfer.aPt, LoadTransfer.sPt] <;>
    v3norm <;> track

/-- `ComputeTransformationMatrix`, every entry -/
theorem transformationMatrix_exact {r : V3 (Dual ℝ)} {fr : ℝ → V3 ℝ} (hr : TracksV r fr t) :
    TracksV (transformationMatrix r).r0 (fun s => (transformationMatrix (fr s)).r0) t ∧
    TracksV (transformationMatrix r).r1 (fun s => (transformationMatrix (fr s)).r1) t ∧
    TracksV (transformationMatrix r).r2 (fun s => (transformationMatrix (fr s)).r2) t := by
  have hx := hr.x; have hy := hr.y; have hz := hr.z
  refine ⟨⟨?_, ?_, ?_⟩, ⟨?_, ?_, ?_⟩, ⟨?_, ?_, ?_⟩⟩ <;> simp only [transformationMatrix] <;> track

/-- `DisplacementTransfer`, w.r.t. mesh, nodes, translations and the transformation matrices -/
theorem displacementTransfer_exact {m : Mesh (Dual ℝ)} {fm : ℝ → Mesh ℝ} {n d : Pts (Dual ℝ)} {fn fd : ℝ → Pts ℝ}
    {T : ℕ → M3 (Dual ℝ)} {fT : ℝ → ℕ → M3 ℝ}
    (hm : ∀ i j, TracksV (m i j) (fun s => fm s i j) t) (hn : ∀ j, TracksV (n j) (fun s => fn s j) t)
    (hd : ∀ j, TracksV (d j) (fun s => fd s j) t)
    (h0 : ∀ j, TracksV (T j).r0 (fun s => (fT s j).r0) t) (h1 : ∀ j, TracksV (T j).r1 (fun s => (fT s j).r1) t)
    (h2 : ∀ j, TracksV (T j).r2 (fun s => (fT s j).r2) t) (i j : ℕ) :
    TracksV (displacementTransfer m n d T i j) (fun s => displacementTransfer (fm s) (fn s) (fd s) (fT s) i j) t := by
  obtain ⟨hmx, hmy, hmz⟩ := TracksV.fam2 hm
  obtain ⟨hnx, hny, hnz⟩ := TracksV.fam1 hn
  obtain ⟨hdx, hdy, hdz⟩ := TracksV.fam1 hd
  obtain ⟨h0x, h0y, h0z⟩ := TracksV.fam1 h0
  obtain ⟨h1x, h1y, h1z⟩ := TracksV.fam1 h1
  obtain ⟨h2x, h2y, h2z⟩ := TracksV.fam1 h2
  refine ⟨?_, ?_, ?_⟩ <;> simp only [displacementTransfer] <;> v3norm <;> track

theorem meshPointForces_exact (nx ny : ℕ) (le te : ℝ) {F : ℕ → ℕ → V3 (Dual ℝ)} {fF : ℝ → ℕ → ℕ → V3 ℝ}
    (hF : ∀ i j, TracksV (F i j) (fun s => fF s i j) t) (i j : ℕ) :
    TracksV (meshPointForces nx ny (⟨le, 0⟩ : Dual ℝ) (⟨te, 0⟩ : Dual ℝ) F i j)
      (fun s => meshPointForces nx ny le te (fF s) i j) t := by
  obtain ⟨hFx, hFy, hFz⟩ := TracksV.fam2 hF
  refine ⟨?_, ?_, ?_⟩ <;> simp only [meshPointForces] <;> v3norm <;> track

/-! ### structural mass, centre of gravity, distributed and point loads -/

theorem elemLength_exact {n : Pts (Dual ℝ)} {fn : ℝ → Pts ℝ} (hn : ∀ j, TracksV (n j) (fun s => fn s j) t) (e : ℕ)
    (h0 : 0 < V3.normSq (elemDelta (fn t) e)) :
    Tracks (elemLength n e) (fun s => elemLength (fn s) e) t := by
  obtain ⟨hnx, hny, hnz⟩ := TracksV.fam1 hn
  simp only [elemLength, elemDelta]; v3norm; track

theorem elementMass_exact (mrho wwr : ℝ) {n : Pts (Dual ℝ)} {fn : ℝ → Pts ℝ} {A : ℕ → Dual ℝ} {fA : ℕ → ℝ → ℝ}
    (hn : ∀ j, TracksV (n j) (fun s => fn s j) t) (hA : ∀ e, Tracks (A e) (fA e) t) (e : ℕ)
    (h0 : 0 < V3.normSq (elemDelta (fn t) e)) :
    Tracks (elementMass (⟨mrho, 0⟩ : Dual ℝ) (⟨wwr, 0⟩ : Dual ℝ) n A e)
      (fun s => elementMass mrho wwr (fn s) (fun k => fA k s) e) t := by
  simp only [elementMass]
  exact (((elemLength_exact hn e h0).mul (hA e)).mul (Tracks.const _)).mul (Tracks.const _)

/-- `Weight`: structural mass, any number of elements -/
theorem structuralMass_exact (ny : ℕ) (sym : Bool) (mrho wwr : ℝ) {n : Pts (Dual ℝ)} {fn : ℝ → Pts ℝ} {A : ℕ → Dual ℝ}
    {fA : ℕ → ℝ → ℝ} (hn : ∀ j, TracksV (n j) (fun s => fn s j) t) (hA : ∀ e, Tracks (A e) (fA e) t)
    (h0 : ∀ e, e < ny - 1 → 0 < V3.normSq (elemDelta (fn t) e)) :
    Tracks (structuralMass ny sym (⟨mrho, 0⟩ : Dual ℝ) (⟨wwr, 0⟩ : Dual ℝ) n A)
      (fun s => structuralMass ny sym mrho wwr (fn s) (fun k => fA k s)) t := by
  have hs := Tracks.sumTo (ny - 1) (elementMass (⟨mrho, 0⟩ : Dual ℝ) (⟨wwr, 0⟩ : Dual ℝ) n A)
    (fun e s => elementMass mrho wwr (fn s) (fun k => fA k s) e) (fun e he => elementMass_exact mrho wwr hn hA e (h0 e he))
  simp only [structuralMass]
  cases sym
  · exact hs
  · exact hs.mul (Tracks.natCast 2)

/-- `StructuralCG`, w.r.t. nodes, total mass and element masses -/
theorem structuralCG_exact (ny : ℕ) (sym : Bool) {n : Pts (Dual ℝ)} {fn : ℝ → Pts ℝ} {M : Dual ℝ} {fM : ℝ → ℝ}
    {em : ℕ → Dual ℝ} {fem : ℕ → ℝ → ℝ} (hn : ∀ j, TracksV (n j) (fun s => fn s j) t) (hM : Tracks M fM t)
    (hem : ∀ e, Tracks (em e) (fem e) t) (h0 : fM t ≠ 0) :
    TracksV (structuralCG ny sym n M em) (fun s => structuralCG ny sym (fn s) (fM s) (fun k => fem k s)) t := by
  obtain ⟨hnx, hny, hnz⟩ := TracksV.fam1 hn
  have h2 : ((2 : ℕ) : ℝ) ≠ 0 := by norm_num
  cases sym <;> refine ⟨?_, ?_, ?_⟩ <;> simp only [structuralCG, elemCenter, Bool.false_eq_true, if_false, if_true] <;>
    v3norm <;> track

theorem fuelVolDelta_exact (ny : ℕ) (sym : Bool) {v : ℕ → Dual ℝ} {fv : ℕ → ℝ → ℝ} {fb rs rho : Dual ℝ}
    {ffb frs frho : ℝ → ℝ} (hv : ∀ e, Tracks (v e) (fv e) t) (h1 : Tracks fb ffb t) (h2 : Tracks rs frs t)
    (h3 : Tracks rho frho t) (h0 : frho t ≠ 0) :
    Tracks (fuelVolDelta ny sym v fb rs rho) (fun s => fuelVolDelta ny sym (fun k => fv k s) (ffb s) (frs s) (frho s)) t := by
  have h2' : ((2 : ℕ) : ℝ) ≠ 0 := by norm_num
  cases sym <;> simp only [fuelVolDelta, Bool.false_eq_true, if_false, if_true] <;> track

end C01AD
end OAS
