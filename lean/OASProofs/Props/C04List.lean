import OASProofs.Props.C04System
import OASProofs.Lemmas.Perm

/-!
# C04 (continued)  Lists of several symmetric surfaces

`c04_half_solution_solves_full` is about one surface.  Here the whole list of surfaces is symmetric (each one a left half with
its root edge on the symmetry plane, no ground effect): the full-span model is `l.map fullOf` – the same surfaces, in the same
order, each described full span.  The unknowns of surface `k` start at `Σ_{t<k} npanels t` in the half model and at twice that in
the full model; `halfIdx` is the map from a full-model unknown to the half-model unknown that carries its value (the code's
running offsets together with the spanwise fold of each surface).  If `Γ` solves the half model's system then `Γ ∘ halfIdx` solves
the full model's system, for any number of surfaces of any sizes.
-/
set_option linter.unusedSectionVars false
set_option linter.unusedSimpArgs false
namespace OAS
namespace C04
open VLM Finset

theorem npanels_full (s : Surf ℝ) (h : Half s) : (fullOf s).npanels = 2 * s.npanels := by
  have := h.ny
  unfold Surf.npanels
  rw [full_ny s h]
  have e : 2 * s.ny - 2 = 2 * (s.ny - 1) := by omega
  rw [e]; simp only [fullOf]; ring

theorem influence_cons_lt (s : Surf ℝ) (rest : List (Surf ℝ)) (f : Flow ℝ) (p : V3 ℝ) (n : ℕ) (hn : n < s.npanels) :
    influence (s :: rest) f p n = influence [s] f p n := by
  simp [influence, locate, hn]

theorem influence_cons_ge (s : Surf ℝ) (rest : List (Surf ℝ)) (f : Flow ℝ) (p : V3 ℝ) (n : ℕ) :
    influence (s :: rest) f p (s.npanels + n) = influence rest f p n := by
  have h : ¬ (s.npanels + n < s.npanels) := by omega
  simp [influence, locate, h]

theorem totalPanels_cons (s : Surf ℝ) (rest : List (Surf ℝ)) : totalPanels (s :: rest) = s.npanels + totalPanels rest := by
  simp [totalPanels]

/-- the induction of a list is that of its first surface plus that of the rest with the unknowns shifted by the first surface's
panel count (the running offset `ind_1`) -/
theorem indVel_cons (s : Surf ℝ) (rest : List (Surf ℝ)) (f : Flow ℝ) (γ : ℕ → ℝ) (p : V3 ℝ) :
    indVel (s :: rest) f γ p = indVel [s] f γ p + indVel rest f (fun n => γ (s.npanels + n)) p := by
  have h1 : totalPanels [s] = s.npanels := by simp [totalPanels]
  ext <;>
  · simp only [indVel, totalPanels_cons, h1, V3.add_x, V3.add_y, V3.add_z, V3.sumTo_x, V3.sumTo_y, V3.sumTo_z, V3.smul_x, V3.smul_y,
      V3.smul_z]
    rw [Finset.sum_range_add]
    congr 1
    · exact Finset.sum_congr rfl (fun n hn => by rw [influence_cons_lt s rest f p n (Finset.mem_range.mp hn)])
    · exact Finset.sum_congr rfl (fun n _ => by rw [influence_cons_ge])

theorem indVel_congr (l : List (Surf ℝ)) (f : Flow ℝ) (g g' : ℕ → ℝ) (p : V3 ℝ) (h : ∀ n, n < totalPanels l → g n = g' n) :
    indVel l f g p = indVel l f g' p := by
  unfold indVel
  exact V3.sumTo_congr _ _ _ (fun n hn => by rw [h n hn])

/-- full-model unknown ↦ half-model unknown carrying its value -/
def halfIdx : List (Surf ℝ) → ℕ → ℕ
  | [], M => M
  | s :: rest, M =>
    if M < 2 * s.npanels then (M / (2 * s.ny - 2)) * (s.ny - 1) + foldCol s.ny (M % (2 * s.ny - 2))
    else s.npanels + halfIdx rest (M - 2 * s.npanels)

theorem gammaExt_eq (s : Surf ℝ) (γ : ℕ → ℝ) (M : ℕ) :
    gammaExt s γ M = γ ((M / (2 * s.ny - 2)) * (s.ny - 1) + foldCol s.ny (M % (2 * s.ny - 2))) := rfl

theorem mirrorY_add (a b : V3 ℝ) : mirrorY (a + b) = mirrorY a + mirrorY b := by ext <;> simp [mirrorY]; ring

/-- **the full-span list with the extended circulations induces what the half-span list induces** -/
theorem indVel_fullList : ∀ (l : List (Surf ℝ)), (∀ s ∈ l, Half s) → ∀ (f : Flow ℝ) (γ : ℕ → ℝ) (p : V3 ℝ),
    indVel (l.map fullOf) f (fun M => γ (halfIdx l M)) p = indVel l f γ p
  | [], _, f, γ, p => rfl
  | s :: rest, hl, f, γ, p => by
    have hs : Half s := hl s (by simp)
    have hr : ∀ t ∈ rest, Half t := fun t ht => hl t (by simp [ht])
    rw [List.map_cons, indVel_cons (fullOf s) (rest.map fullOf), indVel_cons s rest]
    congr 1
    · rw [← indVel_full_eq_half s hs]
      apply indVel_congr
      intro n hn
      have : n < 2 * s.npanels := by simpa [totalPanels, npanels_full s hs] using hn
      simp only [halfIdx, this, if_true, gammaExt_eq]
    · rw [← indVel_fullList rest hr f (fun n => γ (s.npanels + n)) p]
      apply indVel_congr
      intro n _
      have h : ¬ ((fullOf s).npanels + n < 2 * s.npanels) := by rw [npanels_full s hs]; omega
      have e : (fullOf s).npanels + n - 2 * s.npanels = n := by rw [npanels_full s hs]; omega
      simp only [halfIdx, h, if_false, e]

/-- **… and its induced velocity field is mirror symmetric** -/
theorem indVel_fullList_mirror : ∀ (l : List (Surf ℝ)), (∀ s ∈ l, Half s) → ∀ (f : Flow ℝ) (γ : ℕ → ℝ) (p : V3 ℝ),
    indVel (l.map fullOf) f (fun M => γ (halfIdx l M)) (mirrorY p) = mirrorY (indVel (l.map fullOf) f (fun M => γ (halfIdx l M)) p)
  | [], _, f, γ, p => by ext <;> simp [indVel, totalPanels, mirrorY]
  | s :: rest, hl, f, γ, p => by
    have hs : Half s := hl s (by simp)
    have hr : ∀ t ∈ rest, Half t := fun t ht => hl t (by simp [ht])
    rw [List.map_cons, indVel_cons (fullOf s) (rest.map fullOf), indVel_cons (fullOf s) (rest.map fullOf), mirrorY_add]
    have e1 : ∀ q, indVel [fullOf s] f (fun M => γ (halfIdx (s :: rest) M)) q = indVel [fullOf s] f (gammaExt s γ) q := by
      intro q
      apply indVel_congr
      intro n hn
      have : n < 2 * s.npanels := by simpa [totalPanels, npanels_full s hs] using hn
      simp only [halfIdx, this, if_true, gammaExt_eq]
    have e2 : ∀ q, indVel (rest.map fullOf) f (fun n => γ (halfIdx (s :: rest) ((fullOf s).npanels + n))) q
        = indVel (rest.map fullOf) f (fun M => (fun n => γ (s.npanels + n)) (halfIdx rest M)) q := by
      intro q
      apply indVel_congr
      intro n _
      have h : ¬ ((fullOf s).npanels + n < 2 * s.npanels) := by rw [npanels_full s hs]; omega
      have e : (fullOf s).npanels + n - 2 * s.npanels = n := by rw [npanels_full s hs]; omega
      simp only [halfIdx, h, if_false, e]
    rw [e1, e1, e2, e2, indVel_full_mirror s hs, indVel_fullList_mirror rest hr f (fun n => γ (s.npanels + n)) p]

/-- where a full-model unknown lives, and where the half-model unknown that carries its value lives -/
theorem locate_fullList : ∀ (l : List (Surf ℝ)), (∀ s ∈ l, Half s) → ∀ M, M < totalPanels (l.map fullOf) →
    ∃ s i J, s ∈ l ∧ i < s.nx - 1 ∧ J < 2 * s.ny - 2 ∧ locate (l.map fullOf) M = some (fullOf s, i, J) ∧
      locate l (halfIdx l M) = some (s, i, foldCol s.ny J) ∧
      (1 ≤ i → halfIdx l (M - (2 * s.ny - 2)) = halfIdx l M - (s.ny - 1))
  | [], _, M, hM => by simp [totalPanels] at hM
  | s :: rest, hl, M, hM => by
    have hs : Half s := hl s (by simp)
    have hr : ∀ t ∈ rest, Half t := fun t ht => hl t (by simp [ht])
    have hny := hs.ny
    have hb0 : 0 < 2 * s.ny - 2 := by omega
    by_cases h1 : M < 2 * s.npanels
    · refine ⟨s, M / (2 * s.ny - 2), M % (2 * s.ny - 2), by simp, ?_, Nat.mod_lt _ hb0, ?_, ?_, ?_⟩
      · have : M < (s.nx - 1) * (2 * s.ny - 2) := by
          have e : 2 * s.ny - 2 = 2 * (s.ny - 1) := by omega
          rw [e]; unfold Surf.npanels at h1; nlinarith
        exact Nat.div_lt_of_lt_mul (by rw [Nat.mul_comm]; exact this)
      · have hlt : M < (fullOf s).npanels := by rw [npanels_full s hs]; exact h1
        simp only [List.map_cons, locate, hlt, if_true, full_ny s hs]
      · have hf : foldCol s.ny (M % (2 * s.ny - 2)) < s.ny - 1 := by
          have := Nat.mod_lt M hb0
          simp only [foldCol]; split_ifs <;> omega
        obtain ⟨d1, d2⟩ := div_mod_of_lt (M / (2 * s.ny - 2)) (foldCol s.ny (M % (2 * s.ny - 2))) (s.ny - 1) hf
        have hi : M / (2 * s.ny - 2) < s.nx - 1 := by
          have : M < (s.nx - 1) * (2 * s.ny - 2) := by
            have e : 2 * s.ny - 2 = 2 * (s.ny - 1) := by omega
            rw [e]; unfold Surf.npanels at h1; nlinarith
          exact Nat.div_lt_of_lt_mul (by rw [Nat.mul_comm]; exact this)
        have hlt : M / (2 * s.ny - 2) * (s.ny - 1) + foldCol s.ny (M % (2 * s.ny - 2)) < s.npanels := by
          unfold Surf.npanels
          calc M / (2 * s.ny - 2) * (s.ny - 1) + foldCol s.ny (M % (2 * s.ny - 2))
              < M / (2 * s.ny - 2) * (s.ny - 1) + (s.ny - 1) := by omega
            _ = (M / (2 * s.ny - 2) + 1) * (s.ny - 1) := by ring
            _ ≤ (s.nx - 1) * (s.ny - 1) := Nat.mul_le_mul_right _ (by omega)
        simp only [halfIdx, h1, if_true, locate, hlt, d1, d2]
      · intro hi1
        have hJ := Nat.mod_lt M hb0
        obtain ⟨k, hk⟩ : ∃ k, M / (2 * s.ny - 2) = k + 1 := ⟨M / (2 * s.ny - 2) - 1, by omega⟩
        have hM0 : M = (k + 1) * (2 * s.ny - 2) + M % (2 * s.ny - 2) := by
          have := (Nat.div_add_mod M (2 * s.ny - 2)).symm
          rw [hk, Nat.mul_comm] at this; exact this
        have hM1 : M - (2 * s.ny - 2) = k * (2 * s.ny - 2) + M % (2 * s.ny - 2) := by
          rw [Nat.succ_mul] at hM0; omega
        obtain ⟨e1, e2⟩ := div_mod_of_lt k (M % (2 * s.ny - 2)) (2 * s.ny - 2) hJ
        have hlt' : M - (2 * s.ny - 2) < 2 * s.npanels := by omega
        have lhs : halfIdx (s :: rest) (M - (2 * s.ny - 2)) = k * (s.ny - 1) + foldCol s.ny (M % (2 * s.ny - 2)) := by
          simp only [halfIdx, hlt', if_true]; rw [hM1, e1, e2]
        have rhs : halfIdx (s :: rest) M = (k + 1) * (s.ny - 1) + foldCol s.ny (M % (2 * s.ny - 2)) := by
          simp only [halfIdx, h1, if_true, hk]
        have hsm : (k + 1) * (s.ny - 1) = k * (s.ny - 1) + (s.ny - 1) := Nat.succ_mul _ _
        rw [lhs, rhs, hsm]; omega
    · have hM' : M - 2 * s.npanels < totalPanels (rest.map fullOf) := by
        simp only [List.map_cons, totalPanels_cons, npanels_full s hs] at hM; omega
      obtain ⟨t, i, J, ht, hi, hJ, hF, hH, hR⟩ := locate_fullList rest hr (M - 2 * s.npanels) hM'
      refine ⟨t, i, J, by simp [ht], hi, hJ, ?_, ?_, ?_⟩
      · have hlt : ¬ (M < (fullOf s).npanels) := by rw [npanels_full s hs]; exact h1
        simp only [List.map_cons, locate, hlt, if_false, npanels_full s hs, h1]
        exact hF
      · have h2 : ¬ (s.npanels + halfIdx rest (M - 2 * s.npanels) < s.npanels) := by omega
        simp only [halfIdx, h1, if_false, locate, h2, Nat.add_sub_cancel_left]
        exact hH
      · intro hi1
        have hth : Half t := hr t ht
        have hge : 2 * t.ny - 2 ≤ M - 2 * s.npanels := by
          have := locate_row_pos _ _ _ _ _ hF hi1
          rwa [full_ny t hth] at this
        have hge2 : t.ny - 1 ≤ halfIdx rest (M - 2 * s.npanels) := locate_row_pos _ _ _ _ _ hH hi1
        have h3 : ¬ (M - (2 * t.ny - 2) < 2 * s.npanels) := by omega
        have e : M - (2 * t.ny - 2) - 2 * s.npanels = M - 2 * s.npanels - (2 * t.ny - 2) := by omega
        simp only [halfIdx, h1, h3, if_false, e, hR hi1]
        omega

/-- **The half-span solution of a list of symmetric surfaces is the full-span solution**: if `Γ` solves the system of the list of
half models then `Γ ∘ halfIdx` solves the system of the list of full-span models – any number of surfaces, any sizes, any
(root-on-plane) geometries, any angle of attack; zero sideslip, no rotation rates -/
theorem c04_half_list_solves_full (l : List (Surf ℝ)) (hl : ∀ s ∈ l, Half s) (f : Flow ℝ) (hb : f.beta = 0)
    (hr : f.rotational = false) (γ : ℕ → ℝ) (hs : Solves l f γ) :
    Solves (l.map fullOf) f (fun M => γ (halfIdx l M)) := by
  intro M hM
  obtain ⟨s, i, J, hsl, hi, hJ, hF, hH, _⟩ := locate_fullList l hl M hM
  have h : Half s := hl s hsl
  have hny := h.ny
  have hmlt : halfIdx l M < totalPanels l := (locate_isSome_iff l _).1 (by rw [hH]; rfl)
  have hrow := hs (halfIdx l M) hmlt
  rw [row_eq l f γ _ s i _ hH] at hrow
  simp only [rhs, hH] at hrow
  rw [row_eq (l.map fullOf) f _ M (fullOf s) i J hF]
  simp only [rhs, hF]
  by_cases hJl : J < s.ny - 1
  · have hfold : foldCol s.ny J = J := by simp [foldCol, hJl]
    rw [hfold] at hrow
    rw [collPt_full_left s h i J hJl, normal_full_left s h i J hJl, indVel_fullList l hl]
    exact hrow
  · have hfold : foldCol s.ny J = 2 * s.ny - 3 - J := by simp [foldCol, hJl]
    rw [hfold] at hrow
    rw [collPt_full_right s h i J (by omega) hJ, normal_full_right s h i J (by omega) hJ,
      indVel_fullList_mirror l hl, dot_mirrorY, indVel_fullList l hl, hrow]
    simp only [onset, hr, Bool.false_eq_true, if_false]
    rw [← freestream_mirror f hb, dot_mirrorY, freestream_mirror f hb]


/-- **… and every panel of the modelled halves receives the same force in the two models** -/
theorem c04_half_list_forces_eq_full (l : List (Surf ℝ)) (hl : ∀ s ∈ l, Half s) (f : Flow ℝ) (γ : ℕ → ℝ) (M : ℕ)
    (hM : M < totalPanels (l.map fullOf)) :
    ∀ s i J, locate (l.map fullOf) M = some (fullOf s, i, J) → s ∈ l → J < s.ny - 1 →
      panelForce (l.map fullOf) f (fun M => γ (halfIdx l M)) M = panelForce l f γ (halfIdx l M) := by
  obtain ⟨s, i, J, hsl, hi, hJ, hF, hH, hR⟩ := locate_fullList l hl M hM
  intro s' i' J' hF' hs' hJ'
  rw [hF] at hF'
  simp only [Option.some.injEq, Prod.mk.injEq] at hF'
  obtain ⟨hss, rfl, rfl⟩ := hF'
  have h : Half s := hl s hsl
  have hny_eq : s'.ny = s.ny := by
    have : (fullOf s).ny = (fullOf s').ny := by rw [hss]
    simp only [fullOf] at this; have := (hl s' hs').ny; have := h.ny; omega
  have hJl : J < s.ny - 1 := by rw [← hny_eq]; exact hJ'
  have hfold : foldCol s.ny J = J := by simp [foldCol, hJl]
  rw [hfold] at hH
  simp only [panelForce, hF, hH, forcePtVelocity_eq _ f _ _ _ i J hF, forcePtVelocity_eq _ f _ _ _ i J hH,
    collPt_full_left s h i J hJl, forcePt_full_left s h i J hJl, boundVec_full_left s h i J hJl, indVel_fullList l hl]
  congr 2
  simp only [horseshoe, hF, hH, full_ny s h]
  split_ifs with h1
  · rw [hR h1]
  · rfl

/-- the single-surface theorem is the one-element instance -/
example (s : Surf ℝ) (M : ℕ) (hM : M < 2 * s.npanels) (γ : ℕ → ℝ) : γ (halfIdx [s] M) = gammaExt s γ M := by
  simp [halfIdx, hM, gammaExt]

end C04
end OAS
