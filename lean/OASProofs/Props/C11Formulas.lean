import OASProofs.Lemmas.Basic
import OASProofs.Lemmas.Real
import OASProofs.Generated.Formulas

/-!
# Translated formulas = model, transfer components (C11)

`ComputeTransformationMatrix.compute` fills its output slot by slot (`X = 0.0`, `X[:, i, i] -= 2.0`, `X[:, 1, 1] += cos(rx)` …).
The accumulation translator (`harness/accum.py`) executes that method symbolically on every run – `=` replaces a slot's
expression, `+=`/`-=` extend it in program order, `for i in range(3)` is unrolled – and emits one definition per slot
(`Generated.F.tm_a_r_c`).  The theorem shows that the model's transformation matrix is exactly those nine slots.  Likewise the
aerodynamic centres and spar points of `LoadTransfer` and the nodes of `ComputeNodes`.
-/
set_option linter.unusedSectionVars false
set_option linter.unusedSimpArgs false
namespace OAS
namespace Formulas
open Generated

theorem dec_eq' (a b : ℕ) : (dec a b : ℝ) = (a : ℝ) / (b : ℝ) := rfl

/-- **`ComputeTransformationMatrix.compute`**: all nine entries, as accumulated by the code -/
theorem c11_transformation_matrix (r : V3 ℝ) :
    transformationMatrix r =
      ⟨⟨F.tm_a_0_0 r.y r.z, F.tm_a_0_1 r.z, F.tm_a_0_2 r.y⟩,
       ⟨F.tm_a_1_0 r.z, F.tm_a_1_1 r.x r.z, F.tm_a_1_2 r.x⟩,
       ⟨F.tm_a_2_0 r.y, F.tm_a_2_1 r.x, F.tm_a_2_2 r.x r.y⟩⟩ := by
  simp only [transformationMatrix, F.tm_a_0_0, F.tm_a_0_1, F.tm_a_0_2, F.tm_a_1_0, F.tm_a_1_1, F.tm_a_1_2, F.tm_a_2_0, F.tm_a_2_1,
    F.tm_a_2_2, dec_eq', elem_cos, elem_sin, M3.mk.injEq, V3.mk.injEq]
  norm_num

/-- `LoadTransfer.compute`: aerodynamic centre of a panel and structural node of a station, component by component -/
theorem c11_load_transfer_points (nx : ℕ) (w1 w2 : ℝ) (mesh : Mesh ℝ) (i j : ℕ) :
    (LoadTransfer.aPt w1 mesh i j).x = F.lt_a_pts w1 (mesh i j).x (mesh (i + 1) j).x (mesh i (j + 1)).x (mesh (i + 1) (j + 1)).x ∧
    (LoadTransfer.aPt w1 mesh i j).y = F.lt_a_pts w1 (mesh i j).y (mesh (i + 1) j).y (mesh i (j + 1)).y (mesh (i + 1) (j + 1)).y ∧
    (LoadTransfer.aPt w1 mesh i j).z = F.lt_a_pts w1 (mesh i j).z (mesh (i + 1) j).z (mesh i (j + 1)).z (mesh (i + 1) (j + 1)).z ∧
    (LoadTransfer.sPt nx w2 mesh j).x = F.lt_s_pts w2 (mesh 0 j).x (mesh (nx - 1) j).x ∧
    (LoadTransfer.sPt nx w2 mesh j).y = F.lt_s_pts w2 (mesh 0 j).y (mesh (nx - 1) j).y ∧
    (LoadTransfer.sPt nx w2 mesh j).z = F.lt_s_pts w2 (mesh 0 j).z (mesh (nx - 1) j).z := by
  simp only [LoadTransfer.aPt, LoadTransfer.sPt, F.lt_a_pts, F.lt_s_pts, V3.add_x, V3.add_y, V3.add_z, V3.smul_x, V3.smul_y, V3.smul_z,
    dec_eq']
  refine ⟨?_, ?_, ?_, ?_, ?_, ?_⟩ <;> norm_num

/-- `ComputeNodes.compute` -/
theorem c11_compute_nodes (nx : ℕ) (w : ℝ) (mesh : Mesh ℝ) (j : ℕ) :
    (computeNodes nx w mesh j).x = F.cn_nodes w (mesh 0 j).x (mesh (nx - 1) j).x ∧
    (computeNodes nx w mesh j).y = F.cn_nodes w (mesh 0 j).y (mesh (nx - 1) j).y ∧
    (computeNodes nx w mesh j).z = F.cn_nodes w (mesh 0 j).z (mesh (nx - 1) j).z := by
  simp only [computeNodes, F.cn_nodes, V3.add_x, V3.add_y, V3.add_z, V3.smul_x, V3.smul_y, V3.smul_z]
  refine ⟨?_, ?_, ?_⟩ <;> norm_num

end Formulas
end OAS
