import OASProofs.Lemmas.Kernel
import OASProofs.Lemmas.Translation

/-!
# C06  Aerodynamic results obey dynamic-pressure, scaling and translation laws

Model: `OASModel/VLM.lean`, `OASModel/AeroFunc.lean`.
-/
set_option linter.unusedSectionVars false
set_option linter.unusedSimpArgs false
namespace OAS
namespace C06
open VLM Finset

/-! ### density and speed -/

/-- the assembled system does not contain the density: circulations are independent of `ρ` -/
theorem c06_system_independent_of_rho (surfs : List (Surf ℝ)) (f : Flow ℝ) (k : ℝ) (m n : ℕ) :
    aic surfs { f with rho := k * f.rho } m n = aic surfs f m n ∧ rhs surfs { f with rho := k * f.rho } m = rhs surfs f m := by
  constructor <;> rfl

/-- **panel forces are linear in the density** (for the same circulations) -/
theorem c06_density (surfs : List (Surf ℝ)) (f : Flow ℝ) (k : ℝ) (gamma : ℕ → ℝ) (m : ℕ) :
    panelForce surfs { f with rho := k * f.rho } gamma m = V3.smul k (panelForce surfs f gamma m) := by
  unfold panelForce
  cases h : locate surfs m with
  | none => ext <;> simp
  | some t =>
    obtain ⟨s, i, j⟩ := t
    have : forcePtVelocity surfs { f with rho := k * f.rho } gamma m = forcePtVelocity surfs f gamma m := rfl
    simp only [this]
    ext <;> simp <;> ring

/-- free-stream direction scales with the speed -/
theorem freestream_speed (f : Flow ℝ) (k : ℝ) :
    freestreamDir { f with v := k * f.v } = V3.smul k (freestreamDir f) := by
  ext <;> simp [freestreamDir] <;> ring

theorem onset_speed (f : Flow ℝ) (hrot : f.rotational = false) (k : ℝ) (c : V3 ℝ) :
    onset { f with v := k * f.v } c = V3.smul k (onset f c) := by
  have h1 : onset { f with v := k * f.v } c = freestreamDir { f with v := k * f.v } := by
    simp [onset, hrot]
  have h2 : onset f c = freestreamDir f := by simp [onset, hrot]
  rw [h1, h2, freestream_speed]

/-- **speed**: without rotation rates the right-hand side is linear in `v` and the matrix does not
depend on it, so `k·Γ` solves the system at speed `k·v` -/
theorem c06_speed_solution (surfs : List (Surf ℝ)) (f : Flow ℝ) (hrot : f.rotational = false) (k : ℝ)
    (gamma : ℕ → ℝ) (m : ℕ)
    (hsolve : ∑ n ∈ range (totalPanels surfs), aic surfs f m n * gamma n = rhs surfs f m) :
    ∑ n ∈ range (totalPanels surfs), aic surfs { f with v := k * f.v } m n * (k * gamma n)
      = rhs surfs { f with v := k * f.v } m := by
  have ha : ∀ n, aic surfs { f with v := k * f.v } m n = aic surfs f m n := fun n => rfl
  have hr : rhs surfs { f with v := k * f.v } m = k * rhs surfs f m := by
    unfold rhs
    cases h : locate surfs m with
    | none => simp
    | some t =>
      obtain ⟨s, i, j⟩ := t
      simp only [onset_speed f hrot]
      simp [V3.dot]; ring
  simp only [ha, hr, ← hsolve, Finset.mul_sum]
  exact Finset.sum_congr rfl (fun n _ => by ring)

/-! ### length scaling of the kernel (degree −1) -/

theorem norm_smul_pos (k : ℝ) (hk : 0 < k) (a : V3 ℝ) : V3.norm (V3.smul k a) = k * V3.norm a := by
  simp only [V3.norm, V3.smul_x, V3.smul_y, V3.smul_z, elem_sqrt]
  have : k * a.x * (k * a.x) + k * a.y * (k * a.y) + k * a.z * (k * a.z) = k ^ 2 * (a.x * a.x + a.y * a.y + a.z * a.z) := by ring
  rw [this, Real.sqrt_mul (sq_nonneg k), Real.sqrt_sq (le_of_lt hk)]

/-- **the finite-vortex kernel is homogeneous of degree −1**, provided the `tol` branch agrees in the
two configurations (the code uses an absolute tolerance `1e-10` on a quantity of dimension length²) -/
theorem c06_kernel_scale (k : ℝ) (hk : 0 < k) (r1 r2 : V3 ℝ) (hn1 : V3.norm r1 ≠ 0) (hn2 : V3.norm r2 ≠ 0)
    (h1 : tol < |fvDen r1 r2|) (h2 : tol < |fvDen (V3.smul k r1) (V3.smul k r2)|) :
    finiteVortex (V3.smul k r1) (V3.smul k r2) = V3.smul (1 / k) (finiteVortex r1 r2) := by
  have hk0 : k ≠ 0 := ne_of_gt hk
  unfold fvDen at h1 h2
  unfold finiteVortex
  simp only [elem_abs, if_pos h1, if_pos h2]
  simp only [norm_smul_pos k hk]
  have hd : V3.dot (V3.smul k r1) (V3.smul k r2) = k * k * V3.dot r1 r2 := by simp [V3.dot]; ring
  rw [hd]
  have hden : V3.norm r1 * V3.norm r2 + V3.dot r1 r2 ≠ 0 := by
    intro h; rw [h, abs_zero] at h1
    have : (0 : ℝ) < tol := by simp only [tol, dec_def]; positivity
    linarith
  have hpi := Real.pi_ne_zero
  ext <;> simp only [V3.smul_x, V3.smul_y, V3.smul_z, V3.cross_x, V3.cross_y, V3.cross_z, elem_pi] <;>
    push_cast <;> field_simp <;> ring

/-- known finding F9: the tolerance is absolute, so for a small enough scale factor the kernel of a
perfectly regular configuration is zeroed and the scaling law fails. -/
theorem c06_tol_counterexample :
    ∃ (k : ℝ) (r1 r2 : V3 ℝ), 0 < k ∧ finiteVortex r1 r2 ≠ 0 ∧ finiteVortex (V3.smul k r1) (V3.smul k r2) = 0 := by
  refine ⟨1 / 1000000, ⟨1, 0, 0⟩, ⟨0, 1, 0⟩, by norm_num, ?_, ?_⟩
  · intro h
    have hz := congrArg V3.z h
    simp [finiteVortex, V3.norm, V3.cross, V3.dot, tol, dec_def] at hz
    have hlt : ¬ ((1 : ℝ) ≤ 10000000000⁻¹) := by norm_num
    exact hlt hz
  · have hn : ∀ a : ℝ, Real.sqrt (a * a + 0 * 0 + 0 * 0) = |a| := by
      intro a; simp [Real.sqrt_mul_self_eq_abs]
    unfold finiteVortex
    have hle : ¬ (tol < Elem.abs (V3.norm (V3.smul (1 / 1000000 : ℝ) ⟨1, 0, 0⟩) * V3.norm (V3.smul (1 / 1000000 : ℝ) ⟨0, 1, 0⟩)
        + V3.dot (V3.smul (1 / 1000000 : ℝ) ⟨1, 0, 0⟩) (V3.smul (1 / 1000000 : ℝ) ⟨0, 1, 0⟩))) := by
      simp only [V3.norm, V3.dot, V3.smul_x, V3.smul_y, V3.smul_z, elem_sqrt, elem_abs, tol, dec_def, mul_zero, mul_one,
        add_zero, zero_add, zero_mul]
      have e1 : Real.sqrt ((1 / 1000000 : ℝ) * (1 / 1000000)) = 1 / 1000000 := by
        rw [Real.sqrt_mul_self]; norm_num
      rw [e1]
      push_cast
      rw [abs_of_pos (by norm_num)]
      norm_num
    simp only [hle, if_false]

/-! ### translation -/

/-- **translating a lattice and the evaluation point together changes nothing** -/
theorem c06_translate (nx : ℕ) (u : V3 ℝ) (vm : Mesh ℝ) (r0 : ℕ) (p t : V3 ℝ) (i j : ℕ) :
    latticeVel nx u (fun a b => vm a b + t) r0 (p + t) i j = latticeVel nx u vm r0 p i j :=
  latticeVel_translate nx u vm r0 p t i j

/-! ### wind axes -/

/-- **drag is the component of the summed panel forces along the free stream, lift the component along
`(−sin α, 0, cos α)`, which is orthogonal to the free stream and to `y`** -/
theorem c06_wind_axes (np : ℕ) (alpha beta : ℝ) (F : ℕ → V3 ℝ) :
    let a := deg2rad alpha; let b := deg2rad beta
    let u : V3 ℝ := ⟨Real.cos a * Real.cos b, -Real.sin b, Real.sin a * Real.cos b⟩
    let l : V3 ℝ := ⟨-Real.sin a, 0, Real.cos a⟩
    (liftDrag np false alpha beta F).2 = V3.dot (V3.sumTo np F) u ∧
    (liftDrag np false alpha beta F).1 = V3.dot (V3.sumTo np F) l ∧
    V3.dot l u = 0 ∧ V3.dot u u = 1 ∧ V3.dot l ⟨0, 1, 0⟩ = 0 := by
  intro a b u l
  have ha := Real.sin_sq_add_cos_sq a
  have hb := Real.sin_sq_add_cos_sq b
  refine ⟨?_, ?_, ?_, ?_, ?_⟩
  · simp only [liftDrag, Bool.false_eq_true, if_false, sumTo_eq_sum, V3.dot, V3.sumTo_x, V3.sumTo_y, V3.sumTo_z,
      Finset.sum_mul, ← Finset.sum_add_distrib, elem_cos, elem_sin, u, a, b]
    exact Finset.sum_congr rfl (fun k _ => by ring)
  · simp only [liftDrag, Bool.false_eq_true, if_false, sumTo_eq_sum, V3.dot, V3.sumTo_x, V3.sumTo_y, V3.sumTo_z,
      Finset.sum_mul, ← Finset.sum_add_distrib, elem_cos, elem_sin, l, a]
    exact Finset.sum_congr rfl (fun k _ => by ring)
  · simp [V3.dot, u, l]; ring
  · simp only [V3.dot, u]; nlinarith [ha, hb]
  · simp [V3.dot, l]

/-! ### translation of the whole configuration -/

/-- **Translating every surface and the centre of gravity by the same vector changes nothing**: the influence matrix,
the right-hand side (with rotation rates about the translated cg) and every panel force are identical, for any list
of surfaces without ground effect; if a surface is modelled with symmetry the translation must stay in the symmetry
plane (`d.y = 0`). -/
theorem c06_translation_invariant (d : V3 ℝ) (surfs : List (Surf ℝ)) (f : Flow ℝ)
    (hg : ∀ s ∈ surfs, s.ground = false) (hp : ∀ s ∈ surfs, s.sym = true → d.y = 0) :
    let f' : Flow ℝ := { f with cg := f.cg + d }
    let surfs' := surfs.map (mapSurf (shiftBy d))
    (∀ m n, aic surfs' f' m n = aic surfs f m n) ∧ (∀ m, rhs surfs' f' m = rhs surfs f m) ∧
    (∀ gamma m, panelForce surfs' f' gamma m = panelForce surfs f gamma m) := by
  intro f' surfs'
  have H : ShiftHyp d surfs f f' := ⟨hg, hp, rfl, rfl, rfl, rfl, rfl, rfl, rfl⟩
  exact ⟨aic_shift surfs f f' H, rhs_shift surfs f f' H, panelForce_shift surfs f f' H⟩

end C06
end OAS
