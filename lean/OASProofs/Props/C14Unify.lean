import OASProofs.Lemmas.Basic
import OASProofs.Lemmas.Real

/-!
# C14 (continued)  Unifying C0-continuous sections reproduces the contiguous surface node for node

Model: `OASModel/Unify.lean` (`geometry_unification.py: unify_mesh`, `compute_uni_mesh_dims`).
-/
set_option linter.unusedSectionVars false
set_option linter.unusedSimpArgs false
namespace OAS
namespace C14Unify
open Unify

/-- consecutive sections share their edge: the last column of a section is the first column of the next -/
def C0 : List (Sec ℝ) → Prop
  | [] => True
  | [_] => True
  | s :: s' :: rest => (∀ i, s.mesh i (s.ny - 1) = s'.mesh i 0) ∧ C0 (s' :: rest)

theorem v3_sub_add_cancel (a b : V3 ℝ) : a - b + b = a := by ext <;> simp

/-- the loop of `unify_mesh` appends, to the `n` columns assembled so far, the contiguous surface of the remaining
sections – without the shift for any sections, with the shift when the edges are shared (the shift vector is zero) -/
theorem unifyAux_eq (shift : Bool) (rest : List (Sec ℝ)) : ∀ (acc : Mesh ℝ) (n : ℕ) (prev s : Sec ℝ),
    (shift = true → C0 (prev :: s :: rest)) →
    (unifyAux shift acc n prev (s :: rest)).1 = fun i c => if c < n then acc i c else contig (s :: rest) i (c - n) := by
  induction rest with
  | nil => intro acc n prev s _; rfl
  | cons s' rest ih =>
    intro acc n prev s h
    have hacc : (if shift = true then fun i c => acc i c - prev.mesh 0 (prev.ny - 1) + s.mesh 0 0 else acc) = acc := by
      by_cases hs : shift = true
      · have h0 := (h hs).1 0
        simp only [hs, if_true]
        funext i c
        rw [h0]; exact v3_sub_add_cancel _ _
      · simp [hs]
    have hC : shift = true → C0 (s :: s' :: rest) := fun hs => (h hs).2
    show (unifyAux shift (fun i c => if c < n then (if shift = true then fun i c => acc i c - prev.mesh 0 (prev.ny - 1) + s.mesh 0 0 else acc) i c
        else s.mesh i (c - n)) (n + (s.ny - 1)) s (s' :: rest)).1 = _
    rw [hacc, ih _ _ s s' hC]
    funext i c
    simp only [contig]
    by_cases h1 : c < n
    · have : c < n + (s.ny - 1) := by omega
      simp [h1, this]
    · by_cases h2 : c < n + (s.ny - 1)
      · have : c - n < s.ny - 1 := by omega
        simp [h1, h2, this]
      · have : ¬ (c - n < s.ny - 1) := by omega
        have e : c - (n + (s.ny - 1)) = c - n - (s.ny - 1) := by omega
        simp [h1, h2, this, e]

/-- **Without the shift `unify_mesh` is the plain concatenation** (every section but the last loses its last column) -/
theorem c14_unify_noshift (secs : List (Sec ℝ)) : (unify false secs).1 = contig secs := by
  match secs with
  | [] => rfl
  | [s] => rfl
  | s :: s' :: rest =>
    show (unifyAux false s.mesh (s.ny - 1) s (s' :: rest)).1 = _
    rw [unifyAux_eq false rest s.mesh (s.ny - 1) s s' (by simp)]
    rfl

/-- **With the shift option, C0-continuous sections are unified into the same contiguous surface** (the shift vectors
vanish) -/
theorem c14_unify_shift (secs : List (Sec ℝ)) (h : C0 secs) : (unify true secs).1 = contig secs := by
  match secs, h with
  | [], _ => rfl
  | [s], _ => rfl
  | s :: s' :: rest, h =>
    show (unifyAux true s.mesh (s.ny - 1) s (s' :: rest)).1 = _
    rw [unifyAux_eq true rest s.mesh (s.ny - 1) s s' (fun _ => h)]
    rfl

/-- column offset of section `k` in the unified mesh -/
def offset : List (Sec ℝ) → ℕ → ℕ
  | [], _ => 0
  | _ :: _, 0 => 0
  | s :: rest, k + 1 => (s.ny - 1) + offset rest k

/-- **Node for node**: in the contiguous surface of C0-continuous sections (each with at least one spanwise node),
column `c` of section `k` sits at column `offset k + c` – *including* the shared edge columns, which therefore
coincide with both neighbours -/
theorem c14_contig_node_for_node : ∀ (secs : List (Sec ℝ)), C0 secs → (∀ s ∈ secs, 1 ≤ s.ny) →
    ∀ (k : ℕ) (hk : k < secs.length) (c : ℕ), c < (secs[k]).ny → ∀ i, contig secs i (offset secs k + c) = (secs[k]).mesh i c
  | [], _, _, k, hk, _, _, _ => by simp at hk
  | [s], _, _, k, hk, c, hc, i => by
      have : k = 0 := by simpa using hk
      subst this; simp [contig, offset]
  | s :: s' :: rest, h, hny, k, hk, c, hc, i => by
      have ih := c14_contig_node_for_node (s' :: rest) h.2 (fun t ht => hny t (List.mem_cons_of_mem _ ht))
      cases k with
      | zero =>
        simp only [List.getElem_cons_zero] at hc ⊢
        simp only [contig, offset, Nat.zero_add]
        by_cases h1 : c < s.ny - 1
        · simp [h1]
        · -- the shared edge: last column of `s` = first column of `s'`
          have hce : c = s.ny - 1 := by omega
          have h0 := ih 0 (by simp) 0 (by have := hny s' (by simp); simp only [List.getElem_cons_zero]; omega) i
          simp only [offset, Nat.zero_add, List.getElem_cons_zero] at h0
          subst hce
          simp only [lt_irrefl, if_false, Nat.sub_self, h0]
          exact (h.1 i).symm
      | succ k =>
        have hk' : k < (s' :: rest).length := by simpa using hk
        simp only [List.getElem_cons_succ] at hc ⊢
        have := ih k hk' c hc i
        simp only [contig, offset]
        have h1 : ¬ (s.ny - 1 + offset (s' :: rest) k + c < s.ny - 1) := by omega
        have e : s.ny - 1 + offset (s' :: rest) k + c - (s.ny - 1) = offset (s' :: rest) k + c := by omega
        simp only [h1, if_false, e, this]

/-- number of spanwise nodes of the unified mesh (`compute_uni_mesh_dims`) -/
theorem c14_unify_ny (shift : Bool) : ∀ (secs : List (Sec ℝ)), (unify shift secs).2 = totalNy secs := by
  have aux : ∀ (rest : List (Sec ℝ)) (acc : Mesh ℝ) (n : ℕ) (prev s : Sec ℝ),
      (unifyAux shift acc n prev (s :: rest)).2 = n + totalNy (s :: rest) := by
    intro rest
    induction rest with
    | nil => intro acc n prev s; rfl
    | cons s' rest ih =>
      intro acc n prev s
      show (unifyAux shift _ (n + (s.ny - 1)) s (s' :: rest)).2 = _
      rw [ih]; simp only [totalNy]; omega
  intro secs
  match secs with
  | [] => rfl
  | [s] => rfl
  | s :: s' :: rest =>
    show (unifyAux shift s.mesh (s.ny - 1) s (s' :: rest)).2 = _
    rw [aux]; rfl

/-- non-vacuity: two flat sections cut from one surface are C0-continuous -/
example : C0 [⟨3, fun i j => ⟨(i : ℝ), (j : ℝ), 0⟩⟩, ⟨2, fun i j => ⟨(i : ℝ), (j : ℝ) + 2, 0⟩⟩] := by
  refine ⟨fun i => ?_, trivial⟩
  ext <;> simp

end C14Unify
end OAS
