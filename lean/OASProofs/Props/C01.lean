import OASProofs.Lemmas.Basic
import OASProofs.Lemmas.Real
import OASProofs.Props.C13
import OASProofs.Props.C18
import Mathlib.Analysis.Calculus.Deriv.Mul
import Mathlib.Analysis.Calculus.Deriv.Add
import Mathlib.Analysis.Calculus.Deriv.Inv
import Mathlib.Analysis.Calculus.Deriv.Pow
import Mathlib.Analysis.SpecialFunctions.Sqrt
import Mathlib.Analysis.SpecialFunctions.ExpDeriv

/-!
# C01  Analytic component derivatives equal the true derivatives

For every modelled component the correspondence check of each run compares the Jacobian the real
component reports with the forward-mode derivative of the Lean model (all declared and undeclared
entries) and, independently, with finite differences of the real `compute`.  The theorems below prove,
for a set of components, that a closed-form partial *is* the derivative of the model function
(`HasDerivAt`), and that the two repaired defects were defects (and are repaired).
-/
set_option linter.unusedSectionVars false
set_option linter.unusedSimpArgs false
namespace OAS
namespace C01
open Geo

/-! ### Coeffs, Reynolds, totals -/

theorem dec_half : (dec 1 2 : ℝ) = 1 / 2 := by simp only [dec_def]; push_cast; norm_num

/-- `∂CL1/∂L = 1/(½ρv²S)` -/
theorem c01_coeff_X (X rho v S : ℝ) : HasDerivAt (fun t => coeff t rho v S) (1 / (dec 1 2 * rho * (v * v) * S)) X := by
  simpa [coeff, div_eq_mul_inv] using (hasDerivAt_id X).mul_const ((dec 1 2 * rho * (v * v) * S)⁻¹)

/-- `∂CL1/∂S = −L/(½ρv²S²)` -/
theorem c01_coeff_S (X rho v S : ℝ) (h : dec 1 2 * rho * (v * v) * S ≠ 0) :
    HasDerivAt (fun s => coeff X rho v s) (-(X * (dec 1 2 * rho * (v * v))) / (dec 1 2 * rho * (v * v) * S) ^ 2) S := by
  have hd : HasDerivAt (fun s : ℝ => dec 1 2 * rho * (v * v) * s) (dec 1 2 * rho * (v * v)) S := by
    simpa using (hasDerivAt_id S).const_mul (dec 1 2 * rho * (v * v))
  have := (hasDerivAt_const S X).div hd h
  show HasDerivAt (fun s => X / (dec 1 2 * rho * (v * v) * s)) _ S
  exact this.congr_deriv (by ring)

/-- `∂CL1/∂v = −2L/(½ρv³S)` -/
theorem c01_coeff_v (X rho v S : ℝ) (h : dec 1 2 * rho * (v * v) * S ≠ 0) :
    HasDerivAt (fun w => coeff X rho w S) (-(X * (dec 1 2 * rho * (2 * v) * S)) / (dec 1 2 * rho * (v * v) * S) ^ 2) v := by
  have hv : HasDerivAt (fun w : ℝ => w * w) (2 * v) v := by
    have := (hasDerivAt_id v).mul (hasDerivAt_id v)
    show HasDerivAt (fun w : ℝ => id w * id w) (2 * v) v
    exact this.congr_deriv (by simp; ring)
  have hd : HasDerivAt (fun w : ℝ => dec 1 2 * rho * (w * w) * S) (dec 1 2 * rho * (2 * v) * S) v :=
    (hv.const_mul (dec 1 2 * rho)).mul_const S
  have := (hasDerivAt_const v X).div hd h
  show HasDerivAt (fun w => X / (dec 1 2 * rho * (w * w) * S)) _ v
  exact this.congr_deriv (by ring)

/-- `re = ρ v / μ`: the three partials -/
theorem c01_reynolds (rho v mu : ℝ) (hmu : mu ≠ 0) :
    HasDerivAt (fun r => reynolds r v mu) (v / mu) rho ∧ HasDerivAt (fun w => reynolds rho w mu) (rho / mu) v ∧
    HasDerivAt (fun m => reynolds rho v m) (-(rho * v) / mu ^ 2) mu := by
  refine ⟨?_, ?_, ?_⟩
  · simpa [reynolds, div_eq_mul_inv, mul_assoc] using ((hasDerivAt_id rho).mul_const v).mul_const mu⁻¹
  · have := ((hasDerivAt_id v).const_mul rho).mul_const mu⁻¹
    simpa [reynolds, div_eq_mul_inv] using this
  · have := (hasDerivAt_const mu (rho * v)).div (hasDerivAt_id mu) hmu
    show HasDerivAt (fun m => rho * v / id m) _ mu
    exact this.congr_deriv (by simp)

/-- total lift / total drag are sums with unit partials -/
theorem c01_total_drag (CDi CDv CDw CD0 : ℝ) :
    HasDerivAt (fun x => totalDrag x CDv CDw CD0) 1 CDi ∧ HasDerivAt (fun x => totalDrag CDi x CDw CD0) 1 CDv ∧
    HasDerivAt (fun x => totalDrag CDi CDv x CD0) 1 CDw := by
  refine ⟨?_, ?_, ?_⟩
  · simpa [totalDrag, add_assoc] using (hasDerivAt_id CDi).add_const (CDv + (CDw + CD0))
  · have := ((hasDerivAt_id CDv).const_add CDi).add_const (CDw + CD0)
    simpa [totalDrag, add_assoc] using this
  · have := ((hasDerivAt_id CDw).const_add (CDi + CDv)).add_const CD0
    simpa [totalDrag, add_assoc] using this

/-! ### Breguet -/

/-- `∂fuelburn/∂CD = (W0+Ws) · exp(x) · R·CT/(a·M·CL)` -/
theorem c01_breguet_CD (ns : ℕ) (sm : ℕ → ℝ) (CT CL CD a R M W0 : ℝ) :
    HasDerivAt (fun cd => breguetFuelburn ns sm CT CL cd a R M W0)
      ((W0 + sumTo ns sm) * (Real.exp (R * CT / a / M * CD / CL) * (R * CT / a / M / CL))) CD := by
  have hx : HasDerivAt (fun cd : ℝ => R * CT / a / M * cd / CL) (R * CT / a / M / CL) CD := by
    have := ((hasDerivAt_id CD).const_mul (R * CT / a / M)).div_const CL
    simpa using this
  have := ((hx.exp).sub_const 1).const_mul (W0 + sumTo ns sm)
  simpa [breguetFuelburn] using this

/-! ### wave drag (away from onset) -/

/-- above the crest-critical Mach number `∂CDw/∂M = 80 (M − Mcrit)³` (×2 for a symmetric surface) -/
theorem c01_wave_drag_M_above (d0 M : ℝ) :
    HasDerivAt (fun m : ℝ => 20 * (m - d0) ^ 4) (80 * (M - d0) ^ 3) M := by
  have := (((hasDerivAt_id M).sub_const d0).pow 4).const_mul 20
  have e : (20 : ℝ) * (↑(4 : ℕ) * (id M - d0) ^ (4 - 1) * 1) = 80 * (M - d0) ^ 3 := by simp; ring
  simpa [e] using this.congr_deriv e

/-- below it the wave drag is identically zero on a neighbourhood, so is its derivative -/
theorem c01_wave_drag_M_below (d0 M : ℝ) (h : M < d0) : HasDerivAt (fun m : ℝ => C18.lock (m - d0)) 0 M := by
  have hev : (fun m : ℝ => C18.lock (m - d0)) =ᶠ[nhds M] fun _ => (0 : ℝ) := by
    have : ∀ᶠ m in nhds M, m < d0 := Iio_mem_nhds h
    filter_upwards [this] with m hm
    simp [C18.lock, not_lt.mpr (by linarith : m - d0 ≤ 0)]
  exact (hasDerivAt_const M (0 : ℝ)).congr_of_eventuallyEq hev

/-! ### Taper (finding F1, repaired) -/

/-- the output of `Taper` is affine in the taper ratio with slope `taperPartial`: the partial reported by
the repaired `compute_partials` is the derivative, **for every taper ratio including 1** -/
theorem c01_taper (nx ny : ℕ) (sym : Bool) (pos t : ℝ) (mesh : Mesh ℝ) (i j : ℕ) :
    HasDerivAt (fun s => (taper nx ny sym pos mesh s i j).x) (taperPartial nx ny sym pos mesh i j).x t ∧
    HasDerivAt (fun s => (taper nx ny sym pos mesh s i j).y) (taperPartial nx ny sym pos mesh i j).y t ∧
    HasDerivAt (fun s => (taper nx ny sym pos mesh s i j).z) (taperPartial nx ny sym pos mesh i j).z t := by
  have key : ∀ (proj : V3 ℝ → ℝ) (hp : ∀ (c : ℝ) (a b : V3 ℝ), proj (V3.smul c a + b) = c * proj a + proj b),
      HasDerivAt (fun s => proj (taper nx ny sym pos mesh s i j)) (proj (taperPartial nx ny sym pos mesh i j)) t := by
    intro proj hp
    have hfun : (fun s => proj (taper nx ny sym pos mesh s i j))
        = fun s => (taperDist ny sym (refAxis nx pos mesh) 0 1 j + s * taperDist ny sym (refAxis nx pos mesh) 1 0 j)
            * proj (mesh i j - refAxis nx pos mesh j) + proj (refAxis nx pos mesh j) := by
      funext s
      simp only [taper, scaleAbout, hp, C13.taperDist_affine ny sym (refAxis nx pos mesh) s j]
    rw [hfun]
    have h1 : HasDerivAt (fun s : ℝ => taperDist ny sym (refAxis nx pos mesh) 0 1 j + s * taperDist ny sym (refAxis nx pos mesh) 1 0 j)
        (taperDist ny sym (refAxis nx pos mesh) 1 0 j) t := by
      simpa using ((hasDerivAt_id t).mul_const (taperDist ny sym (refAxis nx pos mesh) 1 0 j)).const_add
        (taperDist ny sym (refAxis nx pos mesh) 0 1 j)
    have h2 := (h1.mul_const (proj (mesh i j - refAxis nx pos mesh j))).add_const (proj (refAxis nx pos mesh j))
    have e : proj (taperPartial nx ny sym pos mesh i j)
        = taperDist ny sym (refAxis nx pos mesh) 1 0 j * proj (mesh i j - refAxis nx pos mesh j) := by
      have := hp (taperDist ny sym (refAxis nx pos mesh) 1 0 j) (mesh i j - refAxis nx pos mesh j) 0
      simp only [taperPartial]
      have hz : ∀ a : V3 ℝ, a + 0 = a := fun a => by ext <;> simp
      rw [hz] at this
      have h0 : proj (0 : V3 ℝ) = 0 := by
        have := hp 1 (0 : V3 ℝ) 0
        have hz0 : V3.smul (1 : ℝ) (0 : V3 ℝ) + 0 = 0 := by ext <;> simp
        rw [hz0] at this; linarith
      rw [this, h0, add_zero]
    rw [e]; exact h2
  exact ⟨key V3.x (fun c a b => by simp), key V3.y (fun c a b => by simp), key V3.z (fun c a b => by simp)⟩

/-- finding F1: the former special case returned 0 at `taper = 1`; wherever the section is offset from the
reference axis and is not at the root this is not the derivative -/
theorem c01_taper_counterexample (nx ny : ℕ) (sym : Bool) (pos : ℝ) (mesh : Mesh ℝ) (i j : ℕ)
    (h : (taperPartial nx ny sym pos mesh i j).x ≠ 0) :
    ¬ HasDerivAt (fun s => (taper nx ny sym pos mesh s i j).x) 0 1 := by
  intro h0
  exact h ((c01_taper nx ny sym pos 1 mesh i j).1.unique h0)

/-! ### laminar skin friction (finding F3, repaired) -/

/-- `d/dRe (1.328/√Re) = −0.664 Re^{−3/2}` -/
theorem c01_cfLam (Re : ℝ) (h : 0 < Re) :
    HasDerivAt (fun r => ViscousDrag.cfLam r) (-(dec 1328 1000) * (1 / (2 * Real.sqrt Re)) / (Real.sqrt Re) ^ 2) Re := by
  have hs := Real.hasDerivAt_sqrt (ne_of_gt h)
  have hne : Real.sqrt Re ≠ 0 := ne_of_gt (Real.sqrt_pos.mpr h)
  have := (hasDerivAt_const Re (dec 1328 1000 : ℝ)).div hs hne
  show HasDerivAt (fun r => (dec 1328 1000 : ℝ) / Real.sqrt r) _ Re
  exact this.congr_deriv (by simp)

/-- finding F3: the derivative of the laminar skin friction is strictly negative, so the value `0` that
`compute_partials` used to report for `k_lam ≥ 1` was not the derivative -/
theorem c01_cfLam_deriv_neg (Re : ℝ) (h : 0 < Re) :
    -(dec 1328 1000 : ℝ) * (1 / (2 * Real.sqrt Re)) / (Real.sqrt Re) ^ 2 < 0 := by
  have hs : 0 < Real.sqrt Re := Real.sqrt_pos.mpr h
  have hc : (0 : ℝ) < dec 1328 1000 := by simp only [dec_def]; positivity
  have hp : 0 < (dec 1328 1000 : ℝ) * (1 / (2 * Real.sqrt Re)) / (Real.sqrt Re) ^ 2 := by positivity
  have e : -(dec 1328 1000 : ℝ) * (1 / (2 * Real.sqrt Re)) / (Real.sqrt Re) ^ 2
      = -((dec 1328 1000 : ℝ) * (1 / (2 * Real.sqrt Re)) / (Real.sqrt Re) ^ 2) := by ring
  rw [e]; linarith

/-! ### linear components have constant Jacobians -/

/-- `ScaleX`/`Taper` are linear in the per-section factor: `d mesh[i,j] / d chord[j] = mesh[i,j] − ref[j]` -/
theorem c01_scaleX_chord (nx : ℕ) (pos : ℝ) (mesh : Mesh ℝ) (chord : ℕ → ℝ) (i j : ℕ) (c : ℝ) :
    HasDerivAt (fun t => (scaleX nx pos mesh (Function.update chord j t) i j).x) ((mesh i j - refAxis nx pos mesh j).x) c := by
  have : (fun t => (scaleX nx pos mesh (Function.update chord j t) i j).x)
      = fun t => t * (mesh i j - refAxis nx pos mesh j).x + (refAxis nx pos mesh j).x := by
    funext t; simp [scaleX, scaleAbout]
  rw [this]
  simpa using ((hasDerivAt_id c).mul_const ((mesh i j - refAxis nx pos mesh j).x)).add_const ((refAxis nx pos mesh j).x)

/-- … and the entries `(i, j) ← chord[j']`, `j' ≠ j` are zero: the declared pattern of `ScaleX` has no missing entries -/
theorem c01_scaleX_chord_offdiag (nx : ℕ) (pos : ℝ) (mesh : Mesh ℝ) (chord : ℕ → ℝ) (i j j' : ℕ) (h : j' ≠ j) (c : ℝ) :
    HasDerivAt (fun t => (scaleX nx pos mesh (Function.update chord j' t) i j).x) 0 c := by
  have : (fun t => (scaleX nx pos mesh (Function.update chord j' t) i j).x)
      = fun _ => (scaleX nx pos mesh chord i j).x := by
    funext t; simp [scaleX, scaleAbout, Function.update, h.symm]
  rw [this]; exact hasDerivAt_const c _

end C01
end OAS
