import OASModel
import OASProofs.Generated.Keys

/-!
# C20  Invalid set-ups are rejected loudly (decision logic)

Model: `OASModel/Validate.lean`; `OASProofs/Generated/Keys.lean` is regenerated from
`check_surface_dict.py` on every run.  Finiteness, run-to-run repeatability and non-mutation of the
user's mesh arrays are runtime / aliasing behaviour: they are monitored on the real code by the oracle of
every run, not proved.
-/
namespace OAS
namespace C20
open Validate

/-- **an even number of spanwise nodes is rejected (ValueError)**, whatever the wing type -/
theorem c20_even_num_y (numY : Nat) (r c : Bool) (h : numY % 2 = 0) : generateMesh numY r c = .valueError := by
  simp [generateMesh, h]

/-- **an unknown wing type is rejected (NameError)**; `rect` and every `CRM…` type are accepted for odd `num_y` -/
theorem c20_wing_type (numY : Nat) (h : numY % 2 = 1) :
    generateMesh numY false false = .nameError ∧ generateMesh numY true false = .ok ∧ generateMesh numY false true = .ok := by
  have h2 : ¬ numY % 2 = 0 := by omega
  simp [generateMesh, h2]

/-- **ground effect without symmetry is rejected (ValueError)** and only then -/
theorem c20_ground_effect (ground sym : Bool) : groundEffect ground sym = .valueError ↔ (ground = true ∧ sym = false) := by
  cases ground <;> cases sym <;> simp [groundEffect]

/-- **unknown structural model types are rejected (NameError)** -/
theorem c20_fem_model_type (fem : Nat) (a b : Bool) (h0 : fem ≠ 0) (h1 : fem ≠ 1) : structModel fem a b = .nameError := by
  simp [structModel, h0, h1]

/-- **exactly one of the two wingbox thickness distributions is rejected (NameError)**; both or none are accepted -/
theorem c20_wingbox_thickness (skin spar : Bool) :
    structModel 1 skin spar = (if skin = spar then Outcome.ok else Outcome.nameError) := by
  cases skin <;> cases spar <;> simp [structModel]

/-- the tube model never depends on the wingbox keys -/
theorem c20_tube (a b : Bool) : structModel 0 a b = .ok := by simp [structModel]

/-- **multi-section lists of the wrong length are rejected (ValueError)**, and consistent ones accepted: with
generated meshes every list the generator reads, with user-provided meshes the meshes and every per-section
parameter list (the list `ny` is then not read at all) -/
theorem c20_sections (num : Nat) (gen : Bool) (lny lt ls lsw lm ln : Nat) :
    sections num gen lny lt ls lsw lm ln = .ok ↔
      (if gen then lny = num ∧ lt = num ∧ ls = num ∧ lsw = num ∧ ln = num
       else lm = num ∧ ln = num ∧ lt = num ∧ ls = num ∧ lsw = num) := by
  cases gen <;> simp only [sections, Bool.false_eq_true, if_false, if_true]
  · by_cases h1 : lm = num <;> by_cases h2 : ln = num <;> by_cases h3 : lt = num <;> by_cases h4 : ls = num <;>
      by_cases h5 : lsw = num <;> simp [h1, h2, h3, h4, h5]
  · by_cases h1 : lny = num <;> by_cases h2 : lt = num <;> by_cases h3 : ls = num <;> by_cases h4 : lsw = num <;>
      by_cases h5 : ln = num <;> simp [h1, h2, h3, h4, h5]

/-- anything but acceptance is an error: a wrong-length list never produces numbers -/
theorem c20_sections_rejects (num : Nat) (gen : Bool) (lny lt ls lsw lm ln : Nat)
    (h : sections num gen lny lt ls lsw lm ln ≠ .ok) : sections num gen lny lt ls lsw lm ln = .valueError := by
  revert h
  cases gen <;> simp only [sections, Bool.false_eq_true, if_false, if_true] <;> (repeat' split) <;> simp_all

/-- the keys of the documented surface dictionary (the ones the examples and this framework's generators use) -/
def documentedKeys : List String := [
  "name", "symmetry", "S_ref_type", "mesh", "span", "taper", "sweep", "dihedral", "twist_cp", "chord_cp", "xshear_cp",
  "yshear_cp", "zshear_cp", "ref_axis_pos", "CL0", "CD0", "with_viscous", "with_wave", "groundplane", "k_lam",
  "t_over_c_cp", "c_max_t", "fem_model_type", "E", "G", "yield", "mrho", "fem_origin", "wing_weight_ratio",
  "exact_failure_constraint", "struct_weight_relief", "distributed_fuel_weight", "fuel_density", "Wf_reserve",
  "n_point_masses", "thickness_cp", "radius_cp", "spar_thickness_cp", "skin_thickness_cp",
  "original_wingbox_airfoil_t_over_c", "strength_factor_for_upper_skin", "data_x_upper", "data_y_upper",
  "data_x_lower", "data_y_lower"]

/-- **no documented key produces a warning** with the key list of the current source … -/
theorem c20_documented_keys_accepted : documentedKeys.all (fun k => !warns Generated.keysImplemented k) = true := by
  decide +kernel

/-- … **and an unknown key does** -/
theorem c20_unknown_key_warns : warns Generated.keysImplemented "twist_cpp" = true ∧ warns Generated.keysImplemented "Symmetry" = true := by
  decide +kernel

end C20
end OAS
