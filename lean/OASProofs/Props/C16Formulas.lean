import OASProofs.Lemmas.Basic
import OASProofs.Lemmas.Real
import OASProofs.Generated.Formulas

/-!
# Translated formulas = model

`OASProofs/Generated/Formulas.lean` is produced on every run by the expression translator of `harness/generate.py`
from the *current* source of the `compute()` methods (one definition per assignment statement).  The theorems below
show that the model definitions the property theorems are about are built from exactly those expressions – so a
change of any of these formulas in the code breaks a proof obligation here, independently of the sampled
correspondence.  Proved over ℝ by ring normalisation: a harmless re-association or re-ordering in the source keeps
them true.
-/
set_option linter.unusedSectionVars false
set_option linter.unusedSimpArgs false
namespace OAS
namespace Formulas
open Generated

theorem dec_eq (a b : ℕ) : (dec a b : ℝ) = (a : ℝ) / (b : ℝ) := rfl

/-! ### C16: element mass -/

theorem element_mass_eq (mrho wwr : ℝ) (nodes : Pts ℝ) (A : ℕ → ℝ) (e : ℕ) :
    F.weight_element_mass (elemLength nodes e * A e) mrho wwr = elementMass mrho wwr nodes A e := by
  simp only [F.weight_element_mass, elementMass]

/-- `WingboxFuelVolDelta`: the margin is the code's line applied to the (halved, for a symmetric surface) fuel and reserves -/
theorem fuelVolDelta_eq (ny : ℕ) (sym : Bool) (vols : ℕ → ℝ) (fb rs rho : ℝ) :
    fuelVolDelta ny sym vols fb rs rho
      = F.fvd_delta (sumTo (ny - 1) vols) (if sym then fb / ((2 : ℕ) : ℝ) else fb) (if sym then rs / ((2 : ℕ) : ℝ) else rs) rho := by
  simp only [fuelVolDelta, F.fvd_delta]

end Formulas
end OAS
