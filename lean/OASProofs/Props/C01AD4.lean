import OASProofs.Props.C01AD

/-!
# C01 (continued)  Exactness of the derivative oracle: geometry transformations
-/
set_option linter.unusedSectionVars false
set_option linter.unusedSimpArgs false
set_option linter.unusedTactic false
set_option linter.unreachableTactic false
namespace OAS
namespace C01AD
open AD

variable {t : ℝ}

/-- `ScaleX`: w.r.t. the chord distribution and the mesh -/
theorem scaleX_exact (nx : ℕ) (pos : ℝ) {m : Mesh (Dual ℝ)} {fm : ℝ → Mesh ℝ} {c : ℕ → Dual ℝ} {fc : ℕ → ℝ → ℝ}
    (hm : ∀ i j, TracksV (m i j) (fun s => fm s i j) t) (hc : ∀ j, Tracks (c j) (fc j) t) (i j : ℕ) :
    TracksV (Geo.scaleX nx (⟨pos, 0⟩ : Dual ℝ) m c i j) (fun s => Geo.scaleX nx pos (fm s) (fun k => fc k s) i j) t := by
  obtain ⟨hmx, hmy, hmz⟩ := TracksV.fam2 hm
  refine ⟨?_, ?_, ?_⟩ <;> simp only [Geo.scaleX, Geo.scaleAbout, Geo.refAxis] <;> v3norm <;> track

/-- `Sweep`: w.r.t. the sweep angle and the mesh (`cos ≠ 0`: |angle| < 90°) -/
theorem sweep_exact (ny : ℕ) (sym : Bool) {m : Mesh (Dual ℝ)} {fm : ℝ → Mesh ℝ} {a : Dual ℝ} {fa : ℝ → ℝ}
    (hm : ∀ i j, TracksV (m i j) (fun s => fm s i j) t) (ha : Tracks a fa t)
    (h0 : Real.cos (Real.pi / ((180 : ℕ) : ℝ) * fa t) ≠ 0) (i j : ℕ) :
    TracksV (Geo.sweep ny sym m a i j) (fun s => Geo.sweep ny sym (fm s) (fa s) i j) t := by
  obtain ⟨hmx, hmy, hmz⟩ := TracksV.fam2 hm
  have h180 : ((180 : ℕ) : ℝ) ≠ 0 := by norm_num
  cases sym <;> refine ⟨?_, ?_, ?_⟩ <;> simp only [Geo.sweep, Geo.shearDist, Bool.false_eq_true, if_false, if_true] <;> track

/-- `Dihedral`: w.r.t. the dihedral angle and the mesh -/
theorem dihedral_exact (ny : ℕ) (sym : Bool) {m : Mesh (Dual ℝ)} {fm : ℝ → Mesh ℝ} {a : Dual ℝ} {fa : ℝ → ℝ}
    (hm : ∀ i j, TracksV (m i j) (fun s => fm s i j) t) (ha : Tracks a fa t)
    (h0 : Real.cos (Real.pi / ((180 : ℕ) : ℝ) * fa t) ≠ 0) (i j : ℕ) :
    TracksV (Geo.dihedral ny sym m a i j) (fun s => Geo.dihedral ny sym (fm s) (fa s) i j) t := by
  obtain ⟨hmx, hmy, hmz⟩ := TracksV.fam2 hm
  have h180 : ((180 : ℕ) : ℝ) ≠ 0 := by norm_num
  cases sym <;> refine ⟨?_, ?_, ?_⟩ <;> simp only [Geo.dihedral, Geo.shearDist, Bool.false_eq_true, if_false, if_true] <;> track

theorem shear_exact {m : Mesh (Dual ℝ)} {fm : ℝ → Mesh ℝ} {sh : ℕ → Dual ℝ} {fs : ℕ → ℝ → ℝ}
    (hm : ∀ i j, TracksV (m i j) (fun s => fm s i j) t) (hs : ∀ j, Tracks (sh j) (fs j) t) (i j : ℕ) :
    TracksV (Geo.shearX m sh i j) (fun s => Geo.shearX (fm s) (fun k => fs k s) i j) t ∧
    TracksV (Geo.shearY m sh i j) (fun s => Geo.shearY (fm s) (fun k => fs k s) i j) t ∧
    TracksV (Geo.shearZ m sh i j) (fun s => Geo.shearZ (fm s) (fun k => fs k s) i j) t := by
  obtain ⟨hmx, hmy, hmz⟩ := TracksV.fam2 hm
  refine ⟨⟨?_, ?_, ?_⟩, ⟨?_, ?_, ?_⟩, ⟨?_, ?_, ?_⟩⟩ <;> simp only [Geo.shearX, Geo.shearY, Geo.shearZ] <;> track

/-- `Stretch`: w.r.t. the span and the mesh -/
theorem stretch_exact (nx ny : ℕ) (sym : Bool) (pos : ℝ) {m : Mesh (Dual ℝ)} {fm : ℝ → Mesh ℝ} {sp : Dual ℝ} {fsp : ℝ → ℝ}
    (hm : ∀ i j, TracksV (m i j) (fun s => fm s i j) t) (hsp : Tracks sp fsp t)
    (h0 : (Geo.refAxis nx pos (fm t) (ny - 1)).y - (Geo.refAxis nx pos (fm t) 0).y ≠ 0) (i j : ℕ) :
    TracksV (Geo.stretch nx ny sym (⟨pos, 0⟩ : Dual ℝ) m sp i j) (fun s => Geo.stretch nx ny sym pos (fm s) (fsp s) i j) t := by
  obtain ⟨hmx, hmy, hmz⟩ := TracksV.fam2 hm
  have h2 : ((2 : ℕ) : ℝ) ≠ 0 := by norm_num
  cases sym <;> refine ⟨?_, ?_, ?_⟩ <;>
    simp only [Geo.stretch, Geo.refAxis, Bool.false_eq_true, if_false, if_true] at h0 ⊢ <;> v3norm <;> track

/-- `Rotate` without the dihedral pre-rotation (`rotate_x = False`): w.r.t. the twist distribution and the mesh – the
component whose missing leading/trailing-edge coupling entries were finding F11 -/
theorem rotate_noX_exact (nx ny : ℕ) (sym : Bool) (pos : ℝ) {m : Mesh (Dual ℝ)} {fm : ℝ → Mesh ℝ} {tw : ℕ → Dual ℝ}
    {ftw : ℕ → ℝ → ℝ} (hm : ∀ i j, TracksV (m i j) (fun s => fm s i j) t) (htw : ∀ j, Tracks (tw j) (ftw j) t) (i j : ℕ) :
    TracksV (Geo.rotate nx ny sym false (⟨pos, 0⟩ : Dual ℝ) m tw i j)
      (fun s => Geo.rotate nx ny sym false pos (fm s) (fun k => ftw k s) i j) t := by
  obtain ⟨hmx, hmy, hmz⟩ := TracksV.fam2 hm
  have h180 : ((180 : ℕ) : ℝ) ≠ 0 := by norm_num
  refine ⟨?_, ?_, ?_⟩ <;>
    simp only [Geo.rotate, Geo.rotMat, Geo.refAxis, deg2rad, Bool.false_eq_true, if_false] <;> v3norm <;> track

/-- `Rotate` with the dihedral pre-rotation on a symmetric surface: also through `arctan` of the reference-axis slope -/
theorem rotate_X_sym_exact (nx ny : ℕ) (pos : ℝ) {m : Mesh (Dual ℝ)} {fm : ℝ → Mesh ℝ} {tw : ℕ → Dual ℝ}
    {ftw : ℕ → ℝ → ℝ} (hm : ∀ i j, TracksV (m i j) (fun s => fm s i j) t) (htw : ∀ j, Tracks (tw j) (ftw j) t) (i j : ℕ)
    (h0 : (Geo.refAxis nx pos (fm t) j).y - (Geo.refAxis nx pos (fm t) (j + 1)).y ≠ 0) :
    TracksV (Geo.rotate nx ny true true (⟨pos, 0⟩ : Dual ℝ) m tw i j)
      (fun s => Geo.rotate nx ny true true pos (fm s) (fun k => ftw k s) i j) t := by
  obtain ⟨hmx, hmy, hmz⟩ := TracksV.fam2 hm
  have h180 : ((180 : ℕ) : ℝ) ≠ 0 := by norm_num
  refine ⟨?_, ?_, ?_⟩ <;>
    simp only [Geo.rotate, Geo.rotMat, Geo.thetaX, Geo.refAxis, deg2rad, if_true] at h0 ⊢ <;> v3norm <;> track

/-- a constant vector as dual numbers -/
def constV (v : V3 ℝ) : V3 (Dual ℝ) := ⟨⟨v.x, 0⟩, ⟨v.y, 0⟩, ⟨v.z, 0⟩⟩

/-- **`Taper` w.r.t. the taper ratio**, at every ratio (including the default `1.0`, where the code returned a zero
Jacobian before fix F1), symmetric and full-span, any mesh: the interpolation branches are decided by the mesh alone -/
theorem taper_exact (nx ny : ℕ) (sym : Bool) (pos : ℝ) (mesh : Mesh ℝ) {tr : Dual ℝ} {ft : ℝ → ℝ} (h : Tracks tr ft t) (i j : ℕ)
    (hs : (Geo.refAxis nx pos mesh (ny - 1)).y - (Geo.refAxis nx pos mesh 0).y ≠ 0) :
    TracksV (Geo.taper nx ny sym (⟨pos, 0⟩ : Dual ℝ) (fun a b => constV (mesh a b)) tr i j)
      (fun s => Geo.taper nx ny sym pos mesh (ft s) i j) t := by
  have hcx : ∀ a b, Tracks (constV (mesh a b)).x (fun _ => (mesh a b).x) t := fun a b => Tracks.const _
  have hcy : ∀ a b, Tracks (constV (mesh a b)).y (fun _ => (mesh a b).y) t := fun a b => Tracks.const _
  have hcz : ∀ a b, Tracks (constV (mesh a b)).z (fun _ => (mesh a b).z) t := fun a b => Tracks.const _
  have h2 : ((2 : ℕ) : ℝ) ≠ 0 := by norm_num
  simp only [Geo.refAxis, V3.add_y, V3.smul_y] at hs
  cases sym <;> refine ⟨?_, ?_, ?_⟩ <;>
    simp only [Geo.taper, Geo.scaleAbout, Geo.taperDist, Geo.interp2, Geo.interp3, Geo.refAxis, Bool.false_eq_true, if_false,
      if_true] <;> v3norm <;> track
  all_goals (intro hh; apply hs; push_cast at hh; linarith)

end C01AD
end OAS
