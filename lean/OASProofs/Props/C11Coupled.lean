import OASProofs.Props.C11
/-
  C11 in the coupled model: the structural nodes are `ComputeNodes` of the undeformed mesh (spar location `w`), the aerodynamic
  mesh is `DisplacementTransfer` of that mesh about those nodes, and `LoadTransfer` takes its moment arms from the spar points of
  the *deformed* mesh.  The two agree: the spar point of the deformed mesh is the displaced structural node, whatever the
  rotations, provided both use the same `w` — which is why the nodal loads applied at the displaced structural nodes carry the
  total moment of the panel forces on the deformed mesh.
-/
namespace OAS
namespace C11
open LoadTransfer

/-- **The spar line commutes with the displacement transfer**: the spar point (location `w`) of the deformed mesh is the
structural node (same `w`) moved by its translational displacement, for arbitrary transformation matrices. -/
theorem c11_spar_point_of_deformed_mesh (nx : ℕ) (w : ℝ) (mesh : Mesh ℝ) (dispT : Pts ℝ) (T : ℕ → M3 ℝ) (j : ℕ) :
    sPt nx w (displacementTransfer mesh (computeNodes nx w mesh) dispT T) j = computeNodes nx w mesh j + dispT j := by
  unfold sPt displacementTransfer computeNodes
  ext <;> simp only [V3.add_x, V3.add_y, V3.add_z, V3.smul_x, V3.smul_y, V3.smul_z, V3.sub_x, V3.sub_y, V3.sub_z,
    M3.mulVec] <;> ring

/-- **Coupled moment conservation**: with the nodal loads placed at the displaced structural nodes `nodes + disp`, their total
moment about the origin equals that of the panel forces at the aerodynamic centres of the deformed mesh. -/
theorem c11_coupled_moment_total (n m : ℕ) (w1 w : ℝ) (mesh : Mesh ℝ) (dispT : Pts ℝ) (T : ℕ → M3 ℝ) (F : ℕ → ℕ → V3 ℝ) :
    let nodes := computeNodes (n + 1) w mesh
    let dm := displacementTransfer mesh nodes dispT T
    V3.sumTo (m + 1) (fun j => LoadTransfer.moment (n + 1) (m + 1) w1 w dm F j
        + V3.cross (nodes j + dispT j) (LoadTransfer.force (n + 1) (m + 1) F j))
      = panelMomentTotal n m w1 dm F := by
  intro nodes dm
  rw [← c11_moment_total n m w1 w dm F]
  unfold nodalMomentTotal
  congr 1
  funext j
  rw [c11_spar_point_of_deformed_mesh]

/-- the agreement needs the *same* spar location on both sides: with locations `w` (nodes) and `w'` (load transfer) the spar
point of the undeformed mesh is off the node by `(w' − w) · chord vector` -/
theorem c11_spar_point_mismatch (nx : ℕ) (w w' : ℝ) (mesh : Mesh ℝ) (j : ℕ) :
    sPt nx w' mesh j - computeNodes nx w mesh j = V3.smul (w' - w) (mesh (nx - 1) j - mesh 0 j) := by
  unfold sPt computeNodes
  ext <;> simp only [V3.add_x, V3.add_y, V3.add_z, V3.smul_x, V3.smul_y, V3.smul_z, V3.sub_x, V3.sub_y, V3.sub_z] <;> ring

end C11
end OAS
