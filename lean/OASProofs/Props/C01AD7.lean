import OASProofs.Props.C01AD5

/-!
# C01 (continued)  Exactness of the derivative oracle: glue components, wingbox section properties and geometry

`OASModel/Glue.lean` (`mtx_rhs.py`, `solve_matrix.py` residual, `eval_velocities.py`, `get_vectors.py`,
`monotonic_constraint.py`, `multipoint_comps.py`) and `OASModel/Wingbox.lean` (`section_properties_wingbox.py`,
`wingbox_geometry.py`, `radius_comp.py`, `spar_within_wing.py`, `fuel_vol.py`).
-/
set_option linter.unusedSectionVars false
set_option linter.unusedSimpArgs false
set_option linter.unusedTactic false
set_option linter.unreachableTactic false
set_option linter.unusedVariables false
namespace OAS
namespace C01AD
open AD

variable {t : ℝ}

/-! ### glue components -/

/-- `SolveMatrix.apply_nonlinear`, w.r.t. matrix, right-hand side and circulations (the three blocks of `linearize`) -/
theorem solveResidual_exact (n : ℕ) {A : ℕ → ℕ → Dual ℝ} {fA : ℝ → ℕ → ℕ → ℝ} {b g : ℕ → Dual ℝ} {fb fg : ℝ → ℕ → ℝ}
    (hA : ∀ i j, Tracks (A i j) (fun s => fA s i j) t) (hb : ∀ i, Tracks (b i) (fun s => fb s i) t)
    (hg : ∀ i, Tracks (g i) (fun s => fg s i) t) (i : ℕ) :
    Tracks (Glue.solveResidual n A b g i) (fun s => Glue.solveResidual n (fA s) (fb s) (fg s) i) t := by
  unfold Glue.solveResidual; track

/-- `VLMMtxRHSComp`: one matrix entry, w.r.t. the influence blocks and the normals of every surface -/
theorem mtxEntry_exact (sizes : List ℕ) {V : ℕ → ℕ → ℕ → V3 (Dual ℝ)} {fV : ℝ → ℕ → ℕ → ℕ → V3 ℝ}
    {N : ℕ → ℕ → V3 (Dual ℝ)} {fN : ℝ → ℕ → ℕ → V3 ℝ}
    (hV : ∀ s p l, TracksV (V s p l) (fun x => fV x s p l) t) (hN : ∀ s l, TracksV (N s l) (fun x => fN x s l) t) (i j : ℕ) :
    Tracks (Glue.mtxEntry sizes V N i j) (fun x => Glue.mtxEntry sizes (fV x) (fN x) i j) t := by
  have h1 := hV (Glue.locate sizes j).1 i (Glue.locate sizes j).2
  have h2 := hN (Glue.locate sizes i).1 (Glue.locate sizes i).2
  unfold Glue.mtxEntry Glue.stackedNormal
  simp only [V3.dot]
  exact ((h1.1.mul h2.1).add (h1.2.1.mul h2.2.1)).add (h1.2.2.mul h2.2.2)

/-- `VLMMtxRHSComp`: one right-hand-side entry -/
theorem rhsEntry_exact (sizes : List ℕ) {F : Pts (Dual ℝ)} {fF : ℝ → Pts ℝ} {N : ℕ → ℕ → V3 (Dual ℝ)} {fN : ℝ → ℕ → ℕ → V3 ℝ}
    (hF : ∀ i, TracksV (F i) (fun x => fF x i) t) (hN : ∀ s l, TracksV (N s l) (fun x => fN x s l) t) (i : ℕ) :
    Tracks (Glue.rhsEntry sizes F N i) (fun x => Glue.rhsEntry sizes (fF x) (fN x) i) t := by
  have h1 := hF i
  have h2 := hN (Glue.locate sizes i).1 (Glue.locate sizes i).2
  unfold Glue.rhsEntry Glue.stackedNormal
  simp only [V3.dot]
  exact (((h1.1.mul h2.1).add (h1.2.1.mul h2.2.1)).add (h1.2.2.mul h2.2.2)).neg

/-- `EvalVelocities`, w.r.t. free stream, circulations and the influence blocks of every surface -/
theorem evalVelocity_exact (sizes : List ℕ) {V : ℕ → ℕ → ℕ → V3 (Dual ℝ)} {fV : ℝ → ℕ → ℕ → ℕ → V3 ℝ}
    {F : Pts (Dual ℝ)} {fF : ℝ → Pts ℝ} {g : ℕ → Dual ℝ} {fg : ℝ → ℕ → ℝ}
    (hV : ∀ s p l, TracksV (V s p l) (fun x => fV x s p l) t) (hF : ∀ i, TracksV (F i) (fun x => fF x i) t)
    (hg : ∀ i, Tracks (g i) (fun s => fg s i) t) (p : ℕ) :
    TracksV (Glue.evalVelocity sizes V F g p) (fun x => Glue.evalVelocity sizes (fV x) (fF x) (fg x) p) t := by
  have hVx : ∀ s p l, Tracks (V s p l).x (fun x => (fV x s p l).x) t := fun s p l => (hV s p l).1
  have hVy : ∀ s p l, Tracks (V s p l).y (fun x => (fV x s p l).y) t := fun s p l => (hV s p l).2.1
  have hVz : ∀ s p l, Tracks (V s p l).z (fun x => (fV x s p l).z) t := fun s p l => (hV s p l).2.2
  obtain ⟨hFx, hFy, hFz⟩ := TracksV.fam1 hF
  unfold Glue.evalVelocity
  refine ⟨?_, ?_, ?_⟩ <;> v3norm <;> track

/-- `GetVectors` -/
theorem getVector_exact {E : Pts (Dual ℝ)} {fE : ℝ → Pts ℝ} {M : Mesh (Dual ℝ)} {fM : ℝ → Mesh ℝ}
    (hE : ∀ p, TracksV (E p) (fun x => fE x p) t) (hM : ∀ i j, TracksV (M i j) (fun x => fM x i j) t) (p i j : ℕ) :
    TracksV (Glue.getVector E M p i j) (fun x => Glue.getVector (fE x) (fM x) p i j) t := by
  obtain ⟨hEx, hEy, hEz⟩ := TracksV.fam1 hE
  obtain ⟨hMx, hMy, hMz⟩ := TracksV.fam2 hM
  unfold Glue.getVector
  refine ⟨?_, ?_, ?_⟩ <;> v3norm <;> track

/-- `MonotonicConstraint` (the branch is decided by indices and the symmetry option) -/
theorem monotonic_exact (ny : ℕ) (sym : Bool) {v : ℕ → Dual ℝ} {fv : ℝ → ℕ → ℝ} (hv : ∀ i, Tracks (v i) (fun s => fv s i) t) (i : ℕ) :
    Tracks (Glue.monotonic ny sym v i) (fun s => Glue.monotonic ny sym (fv s) i) t := by
  unfold Glue.monotonic
  split <;> track

/-- `MultiCD` -/
theorem multiCD_exact (n : ℕ) {c : ℕ → Dual ℝ} {fc : ℝ → ℕ → ℝ} (hc : ∀ i, Tracks (c i) (fun s => fc s i) t) :
    Tracks (Glue.multiCD n c) (fun s => Glue.multiCD n (fc s)) t := by
  unfold Glue.multiCD; track

/-- `Disp` is a re-indexing -/
theorem disp_exact {d : ℕ → Dual ℝ} {fd : ℝ → ℕ → ℝ} (hd : ∀ i, Tracks (d i) (fun s => fd s i) t) (j k : ℕ) :
    Tracks (Glue.disp d j k) (fun s => Glue.disp (fd s) j k) t := hd _

/-! ### wingbox cross-section -/
open Wingbox

/-- an airfoil whose four coordinate arrays are tracked -/
def TracksAF (a : Airfoil (Dual ℝ)) (f : ℝ → Airfoil ℝ) (t : ℝ) : Prop :=
  (∀ i, Tracks (a.xu i) (fun s => (f s).xu i) t) ∧ (∀ i, Tracks (a.yu i) (fun s => (f s).yu i) t) ∧
  (∀ i, Tracks (a.xl i) (fun s => (f s).xl i) t) ∧ (∀ i, Tracks (a.yl i) (fun s => (f s).yl i) t)

/-- constant airfoil data of the surface dictionary -/
def constAF (af : Airfoil ℝ) : Airfoil (Dual ℝ) :=
  ⟨fun i => ⟨af.xu i, 0⟩, fun i => ⟨af.yu i, 0⟩, fun i => ⟨af.xl i, 0⟩, fun i => ⟨af.yl i, 0⟩⟩

theorem constAF_tracks (af : Airfoil ℝ) : TracksAF (constAF af) (fun _ => af) t :=
  ⟨fun _ => Tracks.const _, fun _ => Tracks.const _, fun _ => Tracks.const _, fun _ => Tracks.const _⟩

/-- chord and `t/c` scaling of the airfoil data, w.r.t. `fem_chords`, `t_over_c`, `streamwise_chords` -/
theorem scaled_exact {a : Airfoil (Dual ℝ)} {fa : ℝ → Airfoil ℝ} (ha : TracksAF a fa t) (tc0 : ℝ) {c tc sc : Dual ℝ}
    {fc ftc fsc : ℝ → ℝ} (hc : Tracks c fc t) (htc : Tracks tc ftc t) (hsc : Tracks sc fsc t) (h0 : tc0 ≠ 0) (hc0 : fc t ≠ 0) :
    TracksAF (scaled a c tc (⟨tc0, 0⟩ : Dual ℝ) sc) (fun s => scaled (fa s) (fc s) (ftc s) tc0 (fsc s)) t := by
  obtain ⟨h1, h2, h3, h4⟩ := ha
  refine ⟨fun i => ?_, fun i => ?_, fun i => ?_, fun i => ?_⟩ <;> simp only [scaled] <;> track

/-- rotation by the element twist -/
theorem rotated_exact {a : Airfoil (Dual ℝ)} {fa : ℝ → Airfoil ℝ} (ha : TracksAF a fa t) {th : Dual ℝ} {fth : ℝ → ℝ}
    (hth : Tracks th fth t) : TracksAF (rotated a th) (fun s => rotated (fa s) (fth s)) t := by
  obtain ⟨h1, h2, h3, h4⟩ := ha
  refine ⟨fun i => ?_, fun i => ?_, fun i => ?_, fun i => ?_⟩ <;> simp only [rotated] <;> track

section
variable {a : Airfoil (Dual ℝ)} {fa : ℝ → Airfoil ℝ} {ts tk : Dual ℝ} {fts ftk : ℝ → ℝ}

theorem n2_ne : (n2 : ℝ) ≠ 0 := by unfold n2; norm_num

theorem aEnc_exact (n : ℕ) (ha : TracksAF a fa t) (hts : Tracks ts fts t) (htk : Tracks tk ftk t) :
    Tracks (aEnc n a ts tk) (fun s => aEnc n (fa s) (fts s) (ftk s)) t := by
  obtain ⟨h1, h2, h3, h4⟩ := ha
  have := n2_ne
  unfold aEnc diff addn n2 at *; track

theorem aInt_exact (n : ℕ) (ha : TracksAF a fa t) (hts : Tracks ts fts t) (htk : Tracks tk ftk t) :
    Tracks (aInt n a ts tk) (fun s => aInt n (fa s) (fts s) (ftk s)) t := by
  obtain ⟨h1, h2, h3, h4⟩ := ha
  have := n2_ne
  unfold aInt diff addn n2 at *; track

/-- perimeter over thickness: the skin segments must have positive length, the thicknesses be non-zero -/
theorem pByT_exact (n : ℕ) (ha : TracksAF a fa t) (hts : Tracks ts fts t) (htk : Tracks tk ftk t)
    (hu : ∀ i, i < n → 0 < diff (fa t).xu i * diff (fa t).xu i + diff (fa t).yu i * diff (fa t).yu i)
    (hl : ∀ i, i < n → 0 < diff (fa t).xl i * diff (fa t).xl i + diff (fa t).yl i * diff (fa t).yl i)
    (hs0 : fts t ≠ 0) (hk0 : ftk t ≠ 0) :
    Tracks (pByT n a ts tk) (fun s => pByT n (fa s) (fts s) (ftk s)) t := by
  obtain ⟨h1, h2, h3, h4⟩ := ha
  unfold pByT diff at *; track
  · exact hu _ ‹_›
  · exact hl _ ‹_›

theorem torsionJ_exact (n : ℕ) (ha : TracksAF a fa t) (hts : Tracks ts fts t) (htk : Tracks tk ftk t)
    (hu : ∀ i, i < n → 0 < diff (fa t).xu i * diff (fa t).xu i + diff (fa t).yu i * diff (fa t).yu i)
    (hl : ∀ i, i < n → 0 < diff (fa t).xl i * diff (fa t).xl i + diff (fa t).yl i * diff (fa t).yl i)
    (hs0 : fts t ≠ 0) (hk0 : ftk t ≠ 0) (hp : pByT n (fa t) (fts t) (ftk t) ≠ 0) :
    Tracks (torsionJ n a ts tk) (fun s => torsionJ n (fa s) (fts s) (ftk s)) t := by
  have hA := aEnc_exact n ha hts htk
  have hP := pByT_exact n ha hts htk hu hl hs0 hk0
  unfold torsionJ
  exact (((Tracks.natCast 4).mul (hA.mul hA)).div hP hp)

theorem area_exact (n : ℕ) (ha : TracksAF a fa t) (hts : Tracks ts fts t) (htk : Tracks tk ftk t) :
    Tracks (area n a ts tk) (fun s => area n (fa s) (fts s) (ftk s)) t := by
  obtain ⟨h1, h2, h3, h4⟩ := ha
  unfold area diff n2 at *; track

theorem centroid_exact (n : ℕ) (ha : TracksAF a fa t) (hts : Tracks ts fts t) (htk : Tracks tk ftk t)
    (hA : area n (fa t) (fts t) (ftk t) ≠ 0) :
    Tracks (centroid n a ts tk) (fun s => centroid n (fa s) (fts s) (ftk s)) t := by
  have hAr := area_exact n ha hts htk
  obtain ⟨h1, h2, h3, h4⟩ := ha
  have := n2_ne
  unfold centroid
  refine Tracks.div ?_ hAr hA
  unfold diff addn n2 at *; track

theorem stripI_exact {x y z : Dual ℝ} {fx fy fz : ℝ → ℝ} (hx : Tracks x fx t) (hy : Tracks y fy t) (hz : Tracks z fz t) :
    Tracks (stripI x y z) (fun s => stripI (fx s) (fy s) (fz s)) t := by
  have := n2_ne
  have h12 : ((12 : ℕ) : ℝ) ≠ 0 := by norm_num
  have h3 : ((3 : ℕ) : ℝ) ≠ 0 := by norm_num
  unfold stripI n2 at *; track

/-- `Iz` (upward bending): the skin segments must not be vertical (`Δx ≠ 0`) -/
theorem iHoriz_exact (n : ℕ) (ha : TracksAF a fa t) (hts : Tracks ts fts t) (htk : Tracks tk ftk t)
    (hA : area n (fa t) (fts t) (ftk t) ≠ 0)
    (hxu : ∀ i, i < n → diff (fa t).xu i ≠ 0) (hxl : ∀ i, i < n → diff (fa t).xl i ≠ 0) :
    Tracks (iHoriz n a ts tk) (fun s => iHoriz n (fa s) (fts s) (ftk s)) t := by
  have hc := centroid_exact n ha hts htk hA
  obtain ⟨h1, h2, h3, h4⟩ := ha
  have := n2_ne
  have h12 : ((12 : ℕ) : ℝ) ≠ 0 := by norm_num
  have hd : ∀ (g : ℕ → Dual ℝ) (fg : ℝ → ℕ → ℝ), (∀ i, Tracks (g i) (fun s => fg s i) t) →
      ∀ i, Tracks (diff g i) (fun s => diff (fg s) i) t := fun g fg h i => (h (i + 1)).sub (h i)
  have hdxu := hd a.xu (fun s => (fa s).xu) h1
  have hdyu := hd a.yu (fun s => (fa s).yu) h2
  have hdxl := hd a.xl (fun s => (fa s).xl) h3
  have hdyl := hd a.yl (fun s => (fa s).yl) h4
  have hadd : ∀ (g : ℕ → Dual ℝ) (fg : ℝ → ℕ → ℝ), (∀ i, Tracks (g i) (fun s => fg s i) t) →
      ∀ i, Tracks (addn g i) (fun s => addn (fg s) i) t := fun g fg h i => (h (i + 1)).add (h i)
  have hayu := hadd a.yu (fun s => (fa s).yu) h2
  have hayl := hadd a.yl (fun s => (fa s).yl) h4
  have hn2 : Tracks (n2 : Dual ℝ) (fun _ => (n2 : ℝ)) t := Tracks.natCast 2
  unfold iHoriz
  simp only []
  refine Tracks.add (Tracks.add (Tracks.add (Tracks.add ?_ ?_) ?_) ?_) ?_
  · refine Tracks.sumTo _ _ _ (fun i hi => ?_)
    refine Tracks.add (stripI_exact ((hdyu i).div (hdxu i) (hxu i hi)) (((hdyu i).add htk).div hn2 n2_ne) (hdxu i)) ?_
    track
  · refine Tracks.sumTo _ _ _ (fun i hi => ?_)
    exact stripI_exact (((hdyl i).neg).div (hdxl i) (hxl i hi)) ((((hdyl i).neg).add htk).div hn2 n2_ne) (hdxl i)
  · refine Tracks.sumTo _ _ _ (fun i hi => ?_)
    track
  · track
  · track

theorem qUpper_exact (n : ℕ) (ha : TracksAF a fa t) (hts : Tracks ts fts t) (htk : Tracks tk ftk t)
    (hA : area n (fa t) (fts t) (ftk t) ≠ 0) :
    Tracks (qUpper n a ts tk) (fun s => qUpper n (fa s) (fts s) (ftk s)) t := by
  have hc := centroid_exact n ha hts htk hA
  obtain ⟨h1, h2, h3, h4⟩ := ha
  have := n2_ne
  unfold qUpper
  simp only []
  unfold diff addn at *; track

theorem centroidIvert_exact (n : ℕ) (ha : TracksAF a fa t) (hts : Tracks ts fts t)
    (h0 : (((fa t).yu 0 - (fa t).yl 0) + ((fa t).yu n - (fa t).yl n)) * fts t ≠ 0) :
    Tracks (centroidIvert n a ts) (fun s => centroidIvert n (fa s) (fts s)) t := by
  obtain ⟨h1, h2, h3, h4⟩ := ha
  have := n2_ne
  unfold centroidIvert; track

theorem iVert_exact (n : ℕ) (ha : TracksAF a fa t) (hts : Tracks ts fts t) (htk : Tracks tk ftk t)
    (h0 : (((fa t).yu 0 - (fa t).yl 0) + ((fa t).yu n - (fa t).yl n)) * fts t ≠ 0) :
    Tracks (iVert n a ts tk) (fun s => iVert n (fa s) (fts s) (ftk s)) t := by
  have hc := centroidIvert_exact n ha hts h0
  obtain ⟨h1, h2, h3, h4⟩ := ha
  have := n2_ne
  have h12 : ((12 : ℕ) : ℝ) ≠ 0 := by norm_num
  unfold iVert
  simp only []
  track
end

/-- KS envelope of the heights (hard-coded `ρ = 500`), away from ties in the running maximum -/
theorem ksMax_exact (n : ℕ) {g : ℕ → Dual ℝ} {fg : ℕ → ℝ → ℝ} (hg : ∀ k, Tracks (g k) (fg k) t)
    (hne : ∀ k, k < n → maxUpTo k (fun i => fg i t) ≠ fg (k + 1) t) :
    Tracks (ksMax n g) (fun s => ksMax n (fun i => fg i s)) t := by
  have hmax := maxUpTo_exact n hg hne
  have hr : Tracks (ksRho : Dual ℝ) (fun _ => (ksRho : ℝ)) t := Tracks.natCast 500
  have hr0 : (ksRho : ℝ) ≠ 0 := by unfold ksRho; norm_num
  have hsum : Tracks (sumTo (n + 1) (fun i => Elem.exp ((ksRho : Dual ℝ) * (g i - maxUpTo n g))))
      (fun s => sumTo (n + 1) (fun i => Real.exp ((ksRho : ℝ) * (fg i s - maxUpTo n (fun i => fg i s))))) t := by
    refine Tracks.sumTo _ _ _ ?_
    intro i _
    exact ((hr.mul ((hg i).sub hmax))).exp
  have hpos : (0 : ℝ) < sumTo (n + 1) (fun i => Real.exp ((ksRho : ℝ) * (fg i t - maxUpTo n (fun i => fg i t)))) := by
    rw [sumTo_eq_sum]
    apply Finset.sum_pos
    · intro i _; exact Real.exp_pos _
    · exact ⟨0, by simp⟩
  simp only [ksMax]
  exact hmax.add (((Tracks.one.div hr hr0)).mul (hsum.log hpos.ne'))

/-- **`SectionPropertiesWingbox.compute`**, all eleven outputs of one element w.r.t. all six inputs (`streamwise_chords`,
`fem_chords`, `fem_twists`, `spar_thickness`, `skin_thickness`, `t_over_c`).  Side conditions: non-zero chord, thicknesses,
material area, spar heights and `p/t`; skin segments of positive length that are not vertical after the rotation; no tie in the
running maxima of the two height envelopes. -/
theorem sectionProperties_exact (n : ℕ) (af : Airfoil ℝ) (tc0 : ℝ) {sc c th ts tk tc : Dual ℝ} {fsc fc fth fts ftk ftc : ℝ → ℝ}
    (hsc : Tracks sc fsc t) (hc : Tracks c fc t) (hth : Tracks th fth t) (hts : Tracks ts fts t) (htk : Tracks tk ftk t)
    (htc : Tracks tc ftc t) (h0 : tc0 ≠ 0) (hc0 : fc t ≠ 0) (hs0 : fts t ≠ 0) (hk0 : ftk t ≠ 0) :
    let a0 := fun s => scaled af (fc s) (ftc s) tc0 (fsc s)
    let a1 := fun s => rotated (a0 s) (fth s)
    (∀ i, i < n → 0 < diff (a0 t).xu i * diff (a0 t).xu i + diff (a0 t).yu i * diff (a0 t).yu i) →
    (∀ i, i < n → 0 < diff (a0 t).xl i * diff (a0 t).xl i + diff (a0 t).yl i * diff (a0 t).yl i) →
    pByT n (a0 t) (fts t) (ftk t) ≠ 0 →
    area n (a1 t) (fts t) (ftk t) ≠ 0 →
    (∀ i, i < n → diff (a1 t).xu i ≠ 0) → (∀ i, i < n → diff (a1 t).xl i ≠ 0) →
    ((((a1 t).yu 0 - (a1 t).yl 0) + ((a1 t).yu n - (a1 t).yl n)) * fts t ≠ 0) →
    (∀ k, k < n → maxUpTo k (fun i => (a1 t).yu i) ≠ (a1 t).yu (k + 1)) →
    (∀ k, k < n → maxUpTo k (fun i => -(a1 t).yl i) ≠ -(a1 t).yl (k + 1)) →
    let S := sectionProperties n (constAF af) (⟨tc0, 0⟩ : Dual ℝ) sc c th ts tk tc
    let fS := fun s => sectionProperties n af tc0 (fsc s) (fc s) (fth s) (fts s) (ftk s) (ftc s)
    Tracks S.A (fun s => (fS s).A) t ∧ Tracks S.Aenc (fun s => (fS s).Aenc) t ∧ Tracks S.Aint (fun s => (fS s).Aint) t ∧
    Tracks S.Iy (fun s => (fS s).Iy) t ∧ Tracks S.Qz (fun s => (fS s).Qz) t ∧ Tracks S.Iz (fun s => (fS s).Iz) t ∧
    Tracks S.J (fun s => (fS s).J) t ∧ Tracks S.htop (fun s => (fS s).htop) t ∧ Tracks S.hbottom (fun s => (fS s).hbottom) t ∧
    Tracks S.hfront (fun s => (fS s).hfront) t ∧ Tracks S.hrear (fun s => (fS s).hrear) t := by
  intro a0 a1 hu hl hp hA hxu hxl hsp hmu hml S fS
  have ha0 : TracksAF (scaled (constAF af) c tc (⟨tc0, 0⟩ : Dual ℝ) sc) a0 t :=
    scaled_exact (constAF_tracks af) tc0 hc htc hsc h0 hc0
  have ha1 : TracksAF (rotated (scaled (constAF af) c tc (⟨tc0, 0⟩ : Dual ℝ) sc) th) a1 t := rotated_exact ha0 hth
  have hcen := centroid_exact n ha1 hts htk hA
  have hcv := centroidIvert_exact n ha1 hts hsp
  refine ⟨area_exact n ha1 hts htk, aEnc_exact n ha0 hts htk, aInt_exact n ha0 hts htk, iVert_exact n ha1 hts htk hsp,
    qUpper_exact n ha1 hts htk hA, iHoriz_exact n ha1 hts htk hA hxu hxl, torsionJ_exact n ha0 hts htk hu hl hs0 hk0 hp,
    ?_, ?_, ?_, ?_⟩
  · exact (ksMax_exact n ha1.2.1 hmu).sub hcen
  · exact (ksMax_exact n (fun k => (ha1.2.2.2 k).neg) hml).add hcen
  · exact hcv.sub (ha1.1 0)
  · exact (ha1.1 n).sub hcv

/-! ### wingbox geometry, radii, fuel volumes -/

section
variable {M : Mesh (Dual ℝ)} {fM : ℝ → Mesh ℝ}

theorem chordLen_exact (nx : ℕ) (hM : ∀ i j, TracksV (M i j) (fun x => fM x i j) t) (j : ℕ)
    (h0 : 0 < V3.normSq (fM t (nx - 1) j - fM t 0 j)) :
    Tracks (chordLen nx M j) (fun s => chordLen nx (fM s) j) t := by
  obtain ⟨hx, hy, hz⟩ := TracksV.fam2 hM
  unfold chordLen
  simp only [V3.normSq] at h0
  v3norm; track

theorem streamwiseChord_exact (nx : ℕ) (hM : ∀ i j, TracksV (M i j) (fun x => fM x i j) t) (j : ℕ)
    (h0 : ∀ k, 0 < V3.normSq (fM t (nx - 1) k - fM t 0 k)) :
    Tracks (streamwiseChord nx M j) (fun s => streamwiseChord nx (fM s) j) t := by
  have h1 := chordLen_exact nx hM j (h0 j)
  have h2 := chordLen_exact nx hM (j + 1) (h0 (j + 1))
  unfold streamwiseChord; track

/-- `RadiusComp` / `radii`, w.r.t. mesh and `t_over_c` -/
theorem radii_exact (nx : ℕ) (hM : ∀ i j, TracksV (M i j) (fun x => fM x i j) t) {tc : ℕ → Dual ℝ} {ftc : ℝ → ℕ → ℝ}
    (htc : ∀ j, Tracks (tc j) (fun s => ftc s j) t) (j : ℕ) (h0 : ∀ k, 0 < V3.normSq (fM t (nx - 1) k - fM t 0 k)) :
    Tracks (radii nx M tc j) (fun s => radii nx (fM s) (ftc s) j) t := by
  have h1 := streamwiseChord_exact nx hM j h0
  unfold radii; track

/-- `SparWithinWing` -/
theorem sparWithinWing_exact (nx : ℕ) (hM : ∀ i j, TracksV (M i j) (fun x => fM x i j) t) {r tc : ℕ → Dual ℝ} {fr ftc : ℝ → ℕ → ℝ}
    (hr : ∀ j, Tracks (r j) (fun s => fr s j) t) (htc : ∀ j, Tracks (tc j) (fun s => ftc s j) t) (j : ℕ)
    (h0 : ∀ k, 0 < V3.normSq (fM t (nx - 1) k - fM t 0 k)) :
    Tracks (sparWithinWing nx M r tc j) (fun s => sparWithinWing nx (fM s) (fr s) (ftc s) j) t := by
  have h1 := radii_exact nx hM htc j h0
  unfold sparWithinWing; track
end

/-- `WingboxFuelVol` -/
theorem fuelVol_exact {N : Pts (Dual ℝ)} {fN : ℝ → Pts ℝ} {A : ℕ → Dual ℝ} {fA : ℝ → ℕ → ℝ}
    (hN : ∀ j, TracksV (N j) (fun s => fN s j) t) (hA : ∀ e, Tracks (A e) (fun s => fA s e) t) (e : ℕ)
    (h0 : 0 < V3.normSq (fN t (e + 1) - fN t e)) :
    Tracks (fuelVol N A e) (fun s => fuelVol (fN s) (fA s) e) t := by
  obtain ⟨hx, hy, hz⟩ := TracksV.fam1 hN
  unfold fuelVol
  simp only [V3.normSq] at h0
  v3norm; track

/-! ### WingboxGeometry (the component declares finite-difference partials; the oracle derivative of its model is exact) -/

/-- the twist angle of a chord vector that is neither vertical nor in the `z = 0` plane (strictly inside the domain of
`arccos`, on the `else` side of the guard) -/
theorem twistAngle_exact {v : V3 (Dual ℝ)} {fv : ℝ → V3 ℝ} (hv : TracksV v fv t)
    (hxy : 0 < (fv t).x * (fv t).x + (fv t).y * (fv t).y) (hz : (fv t).z ≠ 0) :
    Tracks (twistAngle v) (fun s => twistAngle (fv s)) t := by
  have hn : 0 < V3.normSq (fv t) := by
    unfold V3.normSq; have := mul_self_nonneg (fv t).z; linarith
  have hN := norm_exact hv hn
  have hP : Tracks (V3.norm (⟨v.x, v.y, 0⟩ : V3 (Dual ℝ))) (fun s => V3.norm (⟨(fv s).x, (fv s).y, 0⟩ : V3 ℝ)) t := by
    have hq : TracksV (⟨v.x, v.y, 0⟩ : V3 (Dual ℝ)) (fun s => (⟨(fv s).x, (fv s).y, 0⟩ : V3 ℝ)) t := ⟨hv.1, hv.2.1, Tracks.zero⟩
    exact norm_exact hq (by simpa [V3.normSq] using hxy)
  have hNpos : 0 < V3.norm (fv t) := by
    unfold V3.norm; exact Real.sqrt_pos.mpr hn
  have hc := hP.div hN hNpos.ne'
  have hlt : V3.norm (⟨(fv t).x, (fv t).y, 0⟩ : V3 ℝ) < V3.norm (fv t) := by
    unfold V3.norm
    apply Real.sqrt_lt_sqrt
    · nlinarith [mul_self_nonneg (fv t).x, mul_self_nonneg (fv t).y]
    · have : 0 < (fv t).z * (fv t).z := mul_self_pos.mpr hz
      nlinarith
  have hc1 : V3.norm (⟨(fv t).x, (fv t).y, 0⟩ : V3 ℝ) / V3.norm (fv t) < 1 := (div_lt_one hNpos).mpr hlt
  have hc0 : 0 < V3.norm (⟨(fv t).x, (fv t).y, 0⟩ : V3 ℝ) / V3.norm (fv t) := by
    apply div_pos _ hNpos
    unfold V3.norm; exact Real.sqrt_pos.mpr (by simpa using hxy)
  unfold twistAngle
  simp only []
  exact Tracks.ite_lt_neg Tracks.one hc hc1 (hc.acos (by linarith) hc1)

end C01AD
end OAS
