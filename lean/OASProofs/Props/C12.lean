import OASProofs.Props.C10

/-!
# C12  The coupled aerostructural state is a consistent, path-independent fixed point

The coupled group is modelled abstractly: `aero : Disp → Loads` is "deform the mesh, solve the flow,
transfer the forces", `struct : Loads → Disp` is "solve the beam".  Whether and how fast OpenMDAO's solvers
converge is runtime behaviour outside the model (checked on the real code by the oracle).
-/
set_option linter.unusedSectionVars false
namespace OAS
namespace C12
open FEM Finset

section fixedpoint
variable {D L : Type}

/-- one block Gauss–Seidel sweep: loads from the current displacements, then displacements from those loads -/
def bgs (aero : D → L) (struct : L → D) (x : L × D) : L × D := (aero x.2, struct (aero x.2))

/-- **A state is a fixed point of the block Gauss–Seidel sweep iff it is consistent**: the loads are those
produced by the flow about the mesh deformed by the displacements, and the displacements are those produced
by these loads. -/
theorem c12_bgs_fixed_point_iff_consistent (aero : D → L) (struct : L → D) (l : L) (d : D) :
    bgs aero struct (l, d) = (l, d) ↔ (l = aero d ∧ d = struct l) := by
  unfold bgs
  constructor
  · intro h
    have h1 : aero d = l := congrArg Prod.fst h
    have h2 : struct (aero d) = d := congrArg Prod.snd h
    exact ⟨h1.symm, by rw [← h1]; exact h2.symm⟩
  · rintro ⟨h1, h2⟩
    rw [← h1, ← h2]
end fixedpoint

section relax
variable {V : Type} [AddCommGroup V] [Module ℝ V]

/-- **Relaxation (Aitken or any factor `θ ≠ 0`) has the same fixed points as the plain sweep** -/
theorem c12_relaxation_same_fixed_points (G : V → V) (theta : ℝ) (h : theta ≠ 0) (x : V) :
    x + theta • (G x - x) = x ↔ G x = x := by
  constructor
  · intro hx
    have h0 : theta • (G x - x) = 0 := by simpa using hx
    rcases smul_eq_zero.mp h0 with h1 | h1
    · exact absurd h1 h
    · exact sub_eq_zero.mp h1
  · intro hx; simp [hx]

/-- **A Newton step with an invertible Jacobian is stationary iff the residual vanishes** -/
theorem c12_newton_fixed_point (Jinv : V →ₗ[ℝ] V) (hinj : Function.Injective Jinv) (R : V → V) (x : V) :
    x - Jinv (R x) = x ↔ R x = 0 := by
  constructor
  · intro h
    have : Jinv (R x) = 0 := by simpa using h
    exact hinj (by rw [this, map_zero])
  · intro h; simp [h]
end relax

/-- uniqueness of the consistent state implies path independence: whatever solver, initial guess or
previously analysed point, any two converged states coincide -/
theorem c12_path_independent {S : Type} (consistent : S → Prop) (huniq : ∀ a b, consistent a → consistent b → a = b)
    (s1 s2 : S) (h1 : consistent s1) (h2 : consistent s2) : s1 = s2 := huniq s1 s2 h1 h2

/-- flight points of a multipoint model are separate copies of the point analysis: the outputs of point `i`
are a function of the inputs of point `i` only -/
theorem c12_multipoint_independent {X Y : Type} (point : X → Y) (xs xs' : ℕ → X) (i : ℕ) (h : xs i = xs' i) :
    (fun j => point (xs j)) i = (fun j => point (xs' j)) i := by simp [h]

/-! ### stiffness scaling and the rigid limit -/

/-- the element matrix is linear in the moduli: `(kE, kG) ↦ k · K_e` -/
theorem localStiff_scale (k E G A Iy Iz J L : ℝ) (r c : ℕ) (hr : r < 12) (hc : c < 12) :
    localStiff (k * E) (k * G) A Iy Iz J L r c = k * localStiff E G A Iy Iz J L r c := by
  interval_cases r <;> interval_cases c <;>
    simp [localStiff, tab, FEM.coeffs2, FEM.coeffsY, FEM.coeffsZ, ofInt] <;> ring

/-- **Scaling the stiffness matrix by `k` divides the displacements by `k`** for the same loads, so for
bounded loads the displacements vanish as the structure is made stiffer (rigid limit) -/
theorem c12_stiffness_scaling (n : ℕ) (Km : ℕ → ℕ → ℝ) (u f : ℕ → ℝ) (k : ℝ) (hk : k ≠ 0) (r : ℕ)
    (h : FEM.residual n Km u f r = 0) :
    FEM.residual n (fun a b => k * Km a b) (fun c => u c / k) f r = 0 := by
  unfold FEM.residual at *
  simp only [sumTo_eq_sum] at *
  have : ∑ c ∈ range n, k * Km r c * (u c / k) = ∑ c ∈ range n, Km r c * u c :=
    Finset.sum_congr rfl (fun c _ => by field_simp)
  rw [this]; exact h

end C12
end OAS
