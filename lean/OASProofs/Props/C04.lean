import OASProofs.Lemmas.Kernel

/-!
# C04  A half-span symmetric model is equivalent to the full-span model (aerodynamic core)

Model: `OASModel/VLM.lean`, `OASModel/AeroFunc.lean`.  All mesh sizes; left and right halves.
-/
set_option linter.unusedSectionVars false
set_option linter.unusedSimpArgs false
namespace OAS
namespace C04
open VLM Finset

/-- the half mesh has its root edge on the symmetry plane -/
def RootOnPlane (s : Surf ℝ) : Prop :=
  ∀ i, (s.mesh i (if s.left then s.ny - 1 else 0)).y = 0

/-- **The ghost half built by `VortexMesh` is the mirror image of the modelled half**: the extended
mesh (`2 ny − 1` columns) is invariant under "reflect about `y = 0` and reverse the column order",
for left and for right halves, provided the root edge lies on the plane. -/
theorem c04_ghost_is_mirror (s : Surf ℝ) (hs : s.sym = true) (hny : 1 ≤ s.ny) (hroot : RootOnPlane s)
    (i c : ℕ) (hc : c ≤ 2 * s.ny - 2) :
    extMesh s i c = mirrorLattice (2 * s.ny - 2) (extMesh s) i c := by
  unfold mirrorLattice extMesh RootOnPlane at *
  simp only [hs, if_true]
  by_cases hl : s.left = true
  · simp only [hl, if_true] at hroot ⊢
    rcases Nat.lt_trichotomy c (s.ny - 1) with h | h | h
    · have h1 : c < s.ny := by omega
      have h2 : ¬ (2 * s.ny - 2 - c < s.ny) := by omega
      have e : 2 * s.ny - 2 - (2 * s.ny - 2 - c) = c := by omega
      simp only [h1, h2, if_true, if_false, e, mirrorY_mirrorY]
    · have h1 : c < s.ny := by omega
      have e : 2 * s.ny - 2 - c = c := by omega
      simp only [e, h1, if_true]
      have hr := hroot i
      rw [← h] at hr
      ext <;> simp [hr]
    · have h1 : ¬ (c < s.ny) := by omega
      have h2 : 2 * s.ny - 2 - c < s.ny := by omega
      simp only [h1, h2, if_true, if_false]
  · have hl' : s.left = false := by simpa using hl
    simp only [hl', Bool.false_eq_true, if_false] at hroot ⊢
    rcases Nat.lt_trichotomy c (s.ny - 1) with h | h | h
    · have h2 : ¬ (2 * s.ny - 2 - c < s.ny - 1) := by omega
      have e : 2 * s.ny - 2 - c - (s.ny - 1) = s.ny - 1 - c := by omega
      simp only [h, h2, if_true, if_false, e]
    · have h1 : ¬ (c < s.ny - 1) := by omega
      have e : 2 * s.ny - 2 - c = c := by omega
      have e0 : c - (s.ny - 1) = 0 := by omega
      simp only [e, h1, if_false, e0]
      have hr := hroot i
      ext <;> simp [hr]
    · have h1 : ¬ (c < s.ny - 1) := by omega
      have h2 : 2 * s.ny - 2 - c < s.ny - 1 := by omega
      have e : s.ny - 1 - (2 * s.ny - 2 - c) = c - (s.ny - 1) := by omega
      simp only [h1, h2, if_true, if_false, e, mirrorY_mirrorY]

/-- known finding F5: without `RootOnPlane` the extended mesh is *not* mirror symmetric — its two
centre columns `ny−2`, `ny` straddle a root column that is not its own mirror image, so the ghost
lattice contains a panel bridging the gap between the two halves. -/
theorem c04_ghost_offplane_counterexample :
    ∃ s : Surf ℝ, s.sym = true ∧ s.left = true ∧ s.ny = 2 ∧
      extMesh s 0 1 ≠ mirrorLattice 2 (extMesh s) 0 1 := by
  refine ⟨{ nx := 2, ny := 2, sym := true, left := true, ground := false,
            mesh := fun _ j => ⟨0, if j = 0 then -3 else -1, 0⟩ }, rfl, rfl, rfl, ?_⟩
  intro h
  have := congrArg V3.y h
  simp [extMesh, mirrorLattice] at this
  norm_num at this

/-- the quarter-chord shift commutes with the mirror/reversal -/
theorem shiftQuarter_mirror (nx C : ℕ) (m : Mesh ℝ) :
    shiftQuarter nx (mirrorLattice C m) = mirrorLattice C (shiftQuarter nx m) := by
  funext i c
  simp only [shiftQuarter, mirrorLattice]
  by_cases h : i + 1 < nx
  · simp only [h, if_true]; ext <;> (simp; try ring)
  · simp only [h, if_false]

/-- hence the vortex (ring) mesh of a symmetric surface is mirror symmetric -/
theorem vortexMesh_symmetric (s : Surf ℝ) (hs : s.sym = true) (hg : s.ground = false) (hny : 1 ≤ s.ny)
    (hroot : RootOnPlane s) (a h : ℝ) (i c : ℕ) (hc : c ≤ 2 * s.ny - 2) :
    vortexMesh s a h i c = mirrorLattice (2 * s.ny - 2) (vortexMesh s a h) i c := by
  have key : ∀ i c, c ≤ 2 * s.ny - 2 → extMesh s i c = mirrorLattice (2 * s.ny - 2) (extMesh s) i c :=
    fun i c hc => c04_ghost_is_mirror s hs hny hroot i c hc
  simp only [vortexMesh, hg, Bool.false_eq_true, if_false]
  have e : mirrorLattice (2 * s.ny - 2) (shiftQuarter s.nx (extMesh s)) i c
      = shiftQuarter s.nx (mirrorLattice (2 * s.ny - 2) (extMesh s)) i c := by
    rw [shiftQuarter_mirror]
  rw [e]
  simp only [shiftQuarter]
  by_cases h1 : i + 1 < s.nx
  · simp only [h1, if_true, ← key i c hc, ← key (i + 1) c hc]
  · simp only [h1, if_false, ← key i c hc]

/-- **The symmetric fold**: the influence coefficient of the half model is the sum of the influences of
the panel and of its mirror-image panel in the full lattice (`res[:ny-1] + res[ny-1:][::-1]`, with the
`right_wing` flip). -/
theorem c04_fold (s : Surf ℝ) (hs : s.sym = true) (alpha : ℝ) (vm : Mesh ℝ) (p : V3 ℝ) (i j : ℕ) :
    velMtx s alpha vm p i j
      = velRaw s (wakeDir alpha) vm p i (if s.left then j else s.ny - 2 - j)
        + velRaw s (wakeDir alpha) vm p i (2 * s.ny - 3 - (if s.left then j else s.ny - 2 - j)) := by
  simp [velMtx, hs]

/-- wake direction lies in the symmetry plane -/
theorem wakeDir_y (alpha : ℝ) : (wakeDir alpha).y = 0 := rfl

/-- **Mirror rows**: in the full lattice of a symmetric surface (no ground plane), the velocity induced
at the mirror image of a point by ring `jj` is the mirror image of the velocity induced at the point by
the mirror-image ring `2ny − 3 − jj`. -/
theorem c04_mirror_rows (s : Surf ℝ) (hs : s.sym = true) (hg : s.ground = false) (hny : 2 ≤ s.ny)
    (hroot : RootOnPlane s) (alpha a h : ℝ) (p : V3 ℝ) (i jj : ℕ) (hjj : jj + 1 ≤ 2 * s.ny - 2) :
    velRaw s (wakeDir alpha) (vortexMesh s a h) (mirrorY p) i jj
      = mirrorY (velRaw s (wakeDir alpha) (vortexMesh s a h) p i (2 * s.ny - 3 - jj)) := by
  simp only [velRaw, hg, Bool.false_eq_true, if_false]
  have hsym : ∀ i c, c ≤ 2 * s.ny - 2 → vortexMesh s a h i c = mirrorLattice (2 * s.ny - 2) (vortexMesh s a h) i c :=
    fun i c hc => vortexMesh_symmetric s hs hg (by omega) hroot a h i c hc
  -- replace the lattice by its mirrored copy on the four/two corners that are used
  have hL : latticeVel s.nx (wakeDir alpha) (vortexMesh s a h) 0 (mirrorY p) i jj
      = latticeVel s.nx (wakeDir alpha) (mirrorLattice (2 * s.ny - 2) (vortexMesh s a h)) 0 (mirrorY p) i jj := by
    unfold latticeVel ring trailing
    simp only [Nat.zero_add]
    rw [hsym i (jj + 1) (by omega), hsym i jj (by omega), hsym (i + 1) jj (by omega), hsym (i + 1) (jj + 1) (by omega)]
  rw [hL, latticeVel_mirror s.nx (2 * s.ny - 2) (wakeDir alpha) (wakeDir_y alpha) _ p i jj hjj]
  have e : 2 * s.ny - 2 - 1 - jj = 2 * s.ny - 3 - jj := by omega
  rw [e]

/-- **The induction of the half model equals the induction of the full model under the symmetric
extension of the circulations** (left half): for every point `p`,
`Σ_{j<ny-1} Γ_j · velMtx(p,i,j) = Σ_{jj<2ny-2} Γ^{ext}_{jj} · (full-lattice ring jj at p)`
with `Γ^{ext}_{jj} = Γ_{jj}` for `jj < ny−1` and `Γ_{2ny−3−jj}` otherwise. -/
theorem c04_half_induction_eq_full (s : Surf ℝ) (hs : s.sym = true) (hl : s.left = true) (hny : 1 ≤ s.ny)
    (alpha : ℝ) (vm : Mesh ℝ) (p : V3 ℝ) (i : ℕ) (gamma : ℕ → ℝ) :
    V3.sumTo (s.ny - 1) (fun j => V3.smul (gamma j) (velMtx s alpha vm p i j))
      = V3.sumTo (2 * (s.ny - 1)) (fun jj =>
          V3.smul (if jj < s.ny - 1 then gamma jj else gamma (2 * s.ny - 3 - jj))
            (velRaw s (wakeDir alpha) vm p i jj)) := by
  have hfold : ∀ j, velMtx s alpha vm p i j
      = velRaw s (wakeDir alpha) vm p i j + velRaw s (wakeDir alpha) vm p i (2 * s.ny - 3 - j) := by
    intro j; rw [c04_fold s hs]; simp [hl]
  set n := s.ny - 1 with hn
  have h2 : 2 * s.ny - 3 = 2 * n - 1 := by omega
  ext <;>
  · simp only [V3.sumTo_x, V3.sumTo_y, V3.sumTo_z, V3.smul_x, V3.smul_y, V3.smul_z, hfold, V3.add_x, V3.add_y, V3.add_z]
    conv_rhs => rw [show 2 * n = n + n from two_mul n, Finset.sum_range_add]
    simp only [mul_add, Finset.sum_add_distrib]
    congr 1
    · exact Finset.sum_congr rfl (fun j hj => by simp [Finset.mem_range.mp hj])
    · rw [← Finset.sum_range_reflect]
      refine Finset.sum_congr rfl (fun j hj => ?_)
      have hj' := Finset.mem_range.mp hj
      have e1 : ¬ (n + j < n) := by omega
      have e2 : 2 * s.ny - 3 - (n - 1 - j) = n + j := by omega
      have e3 : 2 * s.ny - 3 - (n + j) = n - 1 - j := by omega
      simp only [e1, if_false, e2, e3]

/-! ### post-processing conventions: what a symmetric surface reports already accounts for both halves -/

/-- lift and drag of a symmetric surface are twice the sums over the modelled half -/
theorem c04_lift_drag_doubles (np : ℕ) (alpha beta : ℝ) (F : ℕ → V3 ℝ) :
    liftDrag np true alpha beta F = (2 * (liftDrag np false alpha beta F).1, 2 * (liftDrag np false alpha beta F).2) := by
  simp [liftDrag]; constructor <;> ring

/-- the reference area of a symmetric surface is twice the area of the modelled half -/
theorem c04_sref_doubles (nx ny : ℕ) (proj : Bool) (mesh : Mesh ℝ) :
    VLMGeometry.sRef nx ny true proj mesh = 2 * VLMGeometry.sRef nx ny false proj mesh := by
  simp [VLMGeometry.sRef]; ring

/-- viscous drag coefficient: the doubled drag area over the doubled reference area -/
theorem c04_viscous_consistent (ny : ℕ) (klam cmaxt re M S : ℝ) (w l len toc : ℕ → ℝ) (hS : S ≠ 0) :
    ViscousDrag.cdv ny true true klam cmaxt re M (2 * S) w l len toc
      = ViscousDrag.cdv ny true false klam cmaxt re M S w l len toc := by
  simp only [ViscousDrag.cdv, if_true, Bool.false_eq_true, if_false]
  push_cast
  field_simp

/-- known finding F4: **the wave-drag *coefficient* of a symmetric surface is doubled.**  Its inputs are
area-weighted averages (identical for the half and for the full wing), so the half model reports twice
the full-span value whenever `M > Mcrit`. -/
theorem c04_wave_drag_doubles (ny : ℕ) (ka M CL : ℝ) (toc w l c : ℕ → ℝ) :
    WaveDrag.cdw ny true true ka M CL toc w l c = 2 * WaveDrag.cdw ny true false ka M CL toc w l c := by
  simp only [WaveDrag.cdw, if_true, Bool.false_eq_true, if_false]
  push_cast; ring

end C04
end OAS
