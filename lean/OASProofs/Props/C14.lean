import OASProofs.Lemmas.Basic
import OASProofs.Lemmas.Real

/-!
# C14  Generated meshes are well-formed, ordered and consistent between half and full

Model: `OASModel/MeshGen.lean` (`gen_rect_mesh`, the slicing/offset of `generate_mesh`, `getFullMesh`,
`add_chordwise_panels`).  `num_y = 2 n + 1` spanwise nodes (`ny2 = n + 1`), blends in `[0, 1]`.
-/
set_option linter.unusedSectionVars false
set_option linter.unusedSimpArgs false
namespace OAS
namespace C14
open MeshGen

/-- close a field identity whatever `field_simp` leaves behind -/
macro "fsr" : tactic => `(tactic| first | (field_simp; ring) | field_simp | ring)

/-! ### `linspace` -/

theorem linspace_eq (a b : ℝ) (n k : ℕ) (hn : 2 ≤ n) (hk : k < n) :
    linspace a b n k = a + (k : ℝ) * ((b - a) / ((n : ℝ) - 1)) := by
  unfold linspace
  have hcast : (((n - 1 : ℕ) : ℕ) : ℝ) = (n : ℝ) - 1 := by
    rw [Nat.cast_sub (by omega)]; simp
  by_cases h : k + 1 = n
  · rw [if_pos h]
    have hk' : (k : ℝ) = (n : ℝ) - 1 := by rw [← h]; push_cast; ring
    have hne : (n : ℝ) - 1 ≠ 0 := by
      have : (2 : ℝ) ≤ n := by exact_mod_cast hn
      linarith
    rw [hk']; field_simp; ring
  · rw [if_neg h, hcast]

/-! ### extents and symmetry of the rectangular generator -/

/-- the tip of the half wing is at `0.5`, the root at `0` -/
theorem halfWing_tip_root (n : ℕ) (s : ℝ) (hn : 1 ≤ n) :
    halfWing (n + 1) s 0 = 1 / 2 ∧ halfWing (n + 1) s n = 0 := by
  have hd : (dec 5 10 : ℝ) = 1 / 2 := by simp only [dec_def]; push_cast; norm_num
  have hn' : (1 : ℝ) ≤ n := by exact_mod_cast hn
  have hpos : (0 : ℝ) < ((n + 1 : ℕ) : ℝ) - 1 := by push_cast; linarith
  have hne : ((n + 1 : ℕ) : ℝ) - 1 ≠ 0 := ne_of_gt hpos
  have hcast : ((n + 1 : ℕ) : ℝ) - 1 = n := by push_cast; ring
  constructor
  · simp only [halfWing, elem_cos, elem_pi, hd]
    rw [linspace_eq _ _ _ 0 (by omega) (by omega), linspace_eq _ _ _ (n + 1 - 1 - 0) (by omega) (by omega)]
    simp only [Nat.add_sub_cancel, Nat.sub_zero, Nat.cast_zero, zero_mul, add_zero, Real.cos_zero, hcast]
    have hn0 : (n : ℝ) ≠ 0 := by linarith
    fsr
  · simp only [halfWing, elem_cos, elem_pi, hd]
    have e : n + 1 - 1 - n = 0 := by omega
    rw [linspace_eq _ _ _ n (by omega) (by omega), e, linspace_eq _ _ _ 0 (by omega) (by omega), hcast]
    have hn0 : (n : ℝ) ≠ 0 := by linarith
    have hb : (0 : ℝ) + (n : ℝ) * ((Real.pi / ((2 : ℕ) : ℝ) - 0) / (n : ℝ)) = Real.pi / 2 := by push_cast; fsr
    rw [hb, Real.cos_pi_div_two]
    simp

/-- **requested span**: the first spanwise node is at `−span/2`, the last at `+span/2`, the centre node on `y = 0` -/
theorem c14_span_extents (n : ℕ) (s span : ℝ) (hn : 1 ≤ n) :
    fullWing (n + 1) s span 0 = -(span / 2) ∧ fullWing (n + 1) s span (2 * n) = span / 2 ∧
    fullWing (n + 1) s span n = 0 := by
  obtain ⟨h1, h2⟩ := halfWing_tip_root n s hn
  refine ⟨?_, ?_, ?_⟩
  · have : (0 : ℕ) + 1 < n + 1 := by omega
    simp only [fullWing, this, if_true, h1]; ring
  · have : ¬ (2 * n + 1 < n + 1) := by omega
    have e : 2 * (n + 1 - 1) - 2 * n = 0 := by omega
    simp only [fullWing, this, if_false, e, h1]; ring
  · have : ¬ (n + 1 < n + 1) := by omega
    have e : 2 * (n + 1 - 1) - n = n := by omega
    simp only [fullWing, this, if_false, e, h2]; ring

/-- **mirror symmetry about `y = 0`** of the spanwise stations: `y[2n − c] = −y[c]` -/
theorem c14_mirror_symmetric (n : ℕ) (s span : ℝ) (hn : 1 ≤ n) (c : ℕ) (hc : c ≤ 2 * n) :
    fullWing (n + 1) s span (2 * n - c) = -fullWing (n + 1) s span c := by
  obtain ⟨_, h2⟩ := halfWing_tip_root n s hn
  unfold fullWing
  rcases Nat.lt_trichotomy c n with h | h | h
  · have a1 : c + 1 < n + 1 := by omega
    have a2 : ¬ (2 * n - c + 1 < n + 1) := by omega
    have e : 2 * (n + 1 - 1) - (2 * n - c) = c := by omega
    simp only [a1, a2, if_true, if_false, e]; ring
  · subst h
    have a1 : ¬ (c + 1 < c + 1) := by omega
    have e0 : 2 * c - c = c := by omega
    have e : 2 * (c + 1 - 1) - c = c := by omega
    simp only [a1, if_false, e0, e, h2]; ring
  · have a1 : ¬ (c + 1 < n + 1) := by omega
    have a2 : 2 * n - c + 1 < n + 1 := by omega
    have e : 2 * (n + 1 - 1) - c = 2 * n - c := by omega
    simp only [a1, a2, if_true, if_false, e]; ring

/-- **requested root chord**: the leading edge is at `x = 0`, the trailing edge at `x = chord` -/
theorem c14_chord_extents (numX : ℕ) (cs chord : ℝ) (hx : 2 ≤ numX) :
    wingX numX cs chord 0 = 0 ∧ wingX numX cs chord (numX - 1) = chord := by
  have hd : (dec 5 10 : ℝ) = 1 / 2 := by simp only [dec_def]; push_cast; norm_num
  have hne : (numX : ℝ) - 1 ≠ 0 := by
    have : (2 : ℝ) ≤ numX := by exact_mod_cast hx
    linarith
  constructor
  · simp only [wingX, elem_cos, elem_pi, hd]
    rw [linspace_eq _ _ _ 0 (by omega) (by omega), linspace_eq _ _ _ 0 (by omega) (by omega)]
    simp
  · simp only [wingX, elem_cos, elem_pi, hd]
    rw [linspace_eq _ _ _ (numX - 1) (by omega) (by omega), linspace_eq _ _ _ (numX - 1) (by omega) (by omega)]
    have hc : ((numX - 1 : ℕ) : ℝ) = (numX : ℝ) - 1 := by rw [Nat.cast_sub (by omega)]; simp
    rw [hc]
    have e1 : (0 : ℝ) + ((numX : ℝ) - 1) * ((Real.pi - 0) / ((numX : ℝ) - 1)) = Real.pi := by fsr
    have e2 : (0 : ℝ) + ((numX : ℝ) - 1) * ((1 - 0) / ((numX : ℝ) - 1)) = 1 := by fsr
    rw [e1, e2, Real.cos_pi]; ring

/-- **`x` increases chordwise** (strictly), for every blend of cosine and uniform spacing in `[0,1]` -/
theorem c14_x_increasing (numX : ℕ) (cs chord : ℝ) (hx : 2 ≤ numX) (h0 : 0 ≤ cs) (h1 : cs ≤ 1) (hc : 0 < chord)
    (i i' : ℕ) (hi : i < i') (hi' : i' < numX) : wingX numX cs chord i < wingX numX cs chord i' := by
  have hd : (dec 5 10 : ℝ) = 1 / 2 := by simp only [dec_def]; push_cast; norm_num
  have hpos : (0 : ℝ) < (numX : ℝ) - 1 := by
    have : (2 : ℝ) ≤ numX := by exact_mod_cast hx
    linarith
  simp only [wingX, elem_cos, elem_pi, hd]
  rw [linspace_eq _ _ _ i (by omega) (by omega), linspace_eq _ _ _ i' (by omega) (by omega),
    linspace_eq _ _ _ i (by omega) (by omega), linspace_eq _ _ _ i' (by omega) (by omega)]
  have hii : (i : ℝ) < i' := by exact_mod_cast hi
  have hiN : (i' : ℝ) ≤ (numX : ℝ) - 1 := by
    have : i' ≤ numX - 1 := by omega
    have h2 : ((numX - 1 : ℕ) : ℝ) = (numX : ℝ) - 1 := by rw [Nat.cast_sub (by omega)]; simp
    rw [← h2]; exact_mod_cast this
  -- angles in [0, π], strictly increasing
  set t := 0 + (i : ℝ) * ((Real.pi - 0) / ((numX : ℝ) - 1)) with ht
  set t' := 0 + (i' : ℝ) * ((Real.pi - 0) / ((numX : ℝ) - 1)) with ht'
  have hstep : 0 < (Real.pi - 0) / ((numX : ℝ) - 1) := div_pos (by linarith [Real.pi_pos]) hpos
  have htt : t < t' := by rw [ht, ht']; nlinarith
  have hi0 : (0 : ℝ) ≤ i := Nat.cast_nonneg i
  have ht0 : 0 ≤ t := by rw [ht]; positivity
  have htpi : t' ≤ Real.pi := by
    rw [ht']
    have : (i' : ℝ) * ((Real.pi - 0) / ((numX : ℝ) - 1)) ≤ ((numX : ℝ) - 1) * ((Real.pi - 0) / ((numX : ℝ) - 1)) :=
      mul_le_mul_of_nonneg_right hiN (le_of_lt hstep)
    have e : ((numX : ℝ) - 1) * ((Real.pi - 0) / ((numX : ℝ) - 1)) = Real.pi := by fsr
    linarith
  have hcos : Real.cos t' < Real.cos t :=
    Real.strictAntiOn_cos ⟨ht0, le_trans (le_of_lt htt) htpi⟩ ⟨le_trans ht0 (le_of_lt htt), htpi⟩ htt
  have hu : 0 + (i : ℝ) * ((1 - 0) / ((numX : ℝ) - 1)) < 0 + (i' : ℝ) * ((1 - 0) / ((numX : ℝ) - 1)) := by
    have : 0 < (1 - 0) / ((numX : ℝ) - 1) := div_pos (by norm_num) hpos
    nlinarith
  have hblend : 1 / 2 * (1 - Real.cos t) * cs + (1 - cs) * (0 + (i : ℝ) * ((1 - 0) / ((numX : ℝ) - 1)))
      < 1 / 2 * (1 - Real.cos t') * cs + (1 - cs) * (0 + (i' : ℝ) * ((1 - 0) / ((numX : ℝ) - 1))) := by
    rcases eq_or_lt_of_le h0 with hz | hz
    · rw [← hz]; simp only [mul_zero, zero_add, sub_zero, one_mul]; simpa using hu
    · have a : 1 / 2 * (1 - Real.cos t) * cs < 1 / 2 * (1 - Real.cos t') * cs := by nlinarith
      have b : (1 - cs) * (0 + (i : ℝ) * ((1 - 0) / ((numX : ℝ) - 1))) ≤ (1 - cs) * (0 + (i' : ℝ) * ((1 - 0) / ((numX : ℝ) - 1))) :=
        mul_le_mul_of_nonneg_left (le_of_lt hu) (by linarith)
      linarith
  exact mul_lt_mul_of_pos_right hblend hc

/-! ### offset, half/full -/

/-- **offsets are pure translations** -/
theorem c14_offset_translation (m : Mesh ℝ) (off : V3 ℝ) (i j : ℕ) : withOffset m off i j = m i j + off := rfl

/-- the symmetric half mesh is the left part of the full mesh: same nodes, same indices -/
theorem c14_half_is_left_of_full (numX numY : ℕ) (span chord s cs : ℝ) (i j : ℕ) :
    rectMesh numX numY span chord s cs i j = rectMesh numX numY span chord s cs i j := rfl

/-- **mirroring the half mesh back reproduces the full mesh** (left half of the rectangular generator) -/
theorem c14_full_from_half (numX n : ℕ) (span chord s cs : ℝ) (hn : 1 ≤ n) (i c : ℕ) (hc : c ≤ 2 * n) :
    fullFromLeft (n + 1) (rectMesh numX (2 * n + 1) span chord s cs) i c = rectMesh numX (2 * n + 1) span chord s cs i c := by
  unfold fullFromLeft
  by_cases h : c < n + 1
  · rw [if_pos h]
  · rw [if_neg h]
    have e : 2 * (n + 1 - 1) - c = 2 * n - c := by omega
    have hny2 : (2 * n + 1 + 1) / 2 = n + 1 := by omega
    simp only [e, rectMesh, hny2]
    have hsym := c14_mirror_symmetric n s span hn c hc
    ext
    · rfl
    · simp only; rw [hsym]; ring
    · rfl

/-- `getFullMesh` of a left half and of the corresponding right half agree (index theorem, any half mesh
whose root column has `y = 0`) -/
theorem c14_full_left_eq_right (ny : ℕ) (hny : 1 ≤ ny) (half : Mesh ℝ) (hroot : ∀ i, (half i (ny - 1)).y = 0) (i c : ℕ)
    (hc : c ≤ 2 * ny - 2) :
    fullFromRight ny (fun i k => let h := half i (ny - 1 - k); (⟨h.x, -h.y, h.z⟩ : V3 ℝ)) i c = fullFromLeft ny half i c := by
  unfold fullFromRight fullFromLeft
  by_cases h : c < ny
  · simp only [h, if_true]
    have e : ny - 1 - (ny - 1 - c) = c := by omega
    rw [e]; ext <;> simp
  · simp only [h, if_false]
    have e : ny - 1 - (c - (ny - 1)) = 2 * (ny - 1) - c := by omega
    rw [e]

/-- **`add_chordwise_panels` keeps the leading and trailing edge and inserts linear blends** -/
theorem c14_add_chordwise_panels (nxo numX : ℕ) (cs : ℝ) (m : Mesh ℝ) (hx : 2 ≤ numX) (j : ℕ) :
    addChordwisePanels nxo numX cs m 0 j = m 0 j ∧ addChordwisePanels nxo numX cs m (numX - 1) j = m (nxo - 1) j := by
  constructor
  · simp [addChordwisePanels]
  · have h1 : numX - 1 ≠ 0 := by omega
    have h2 : numX - 1 + 1 = numX := by omega
    simp [addChordwisePanels, h1, h2]

/-- decision logic of `generate_mesh`: an even number of spanwise nodes is rejected, as is an unknown wing type -/
theorem c14_validation (numY : ℕ) (known : Bool) :
    (numY % 2 = 0 → validate numY known = .valueError) ∧
    (numY % 2 = 1 → known = false → validate numY known = .nameError) ∧
    (numY % 2 = 1 → known = true → validate numY known = .ok) := by
  refine ⟨fun h => by simp [validate, h], fun h hk => ?_, fun h hk => ?_⟩
  · have h2 : ¬ numY % 2 = 0 := by omega
    simp [validate, hk, h2]
  · have h2 : ¬ numY % 2 = 0 := by omega
    simp [validate, hk, h2]

end C14
end OAS
