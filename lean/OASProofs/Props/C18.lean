import OASProofs.Lemmas.Basic
import OASProofs.Lemmas.Real

/-!
# C18  Viscous and wave drag estimates are well-behaved and discretisation-consistent

Model: `OASModel/AeroFunc.lean` (`WaveDrag`, `ViscousDrag`).  Statements over ℝ.
-/
set_option linter.unusedSectionVars false
set_option linter.unusedSimpArgs false
namespace OAS
namespace C18
open Finset

/-! ### switched off ⇒ exactly zero -/

theorem c18_wave_off (ny : ℕ) (sym : Bool) (ka M CL : ℝ) (toc w l c : ℕ → ℝ) :
    WaveDrag.cdw ny false sym ka M CL toc w l c = 0 := by simp [WaveDrag.cdw]

theorem c18_viscous_off (ny : ℕ) (sym : Bool) (klam cmaxt re M S : ℝ) (w l len toc : ℕ → ℝ) :
    ViscousDrag.cdv ny false sym klam cmaxt re M S w l len toc = 0 := by simp [ViscousDrag.cdv]

/-! ### wave drag -/

/-- the Korn/Lock shape as a function of the Mach margin `d = M − Mcrit` -/
noncomputable def lock (d : ℝ) : ℝ := if 0 < d then 20 * d ^ 4 else 0

theorem lock_mono {d1 d2 : ℝ} (h : d1 ≤ d2) : lock d1 ≤ lock d2 := by
  unfold lock
  split_ifs with h1 h2 h2
  · have : d1 ^ 4 ≤ d2 ^ 4 := pow_le_pow_left₀ (le_of_lt h1) h 4
    linarith
  · exact absurd (lt_of_lt_of_le h1 h) h2
  · positivity
  · exact le_refl _

theorem lock_nonneg (d : ℝ) : 0 ≤ lock d := by unfold lock; split_ifs with h <;> positivity

/-- **Wave drag as a function of the margin**: `CDw = (2 if symmetric) · lock(M − Mcrit)`, i.e. zero up
to the crest-critical Mach number and `20 (M − Mcrit)^4` beyond. -/
theorem c18_wave_form (ny : ℕ) (sym : Bool) (ka M CL : ℝ) (toc w l c : ℕ → ℝ) :
    WaveDrag.cdw ny true sym ka M CL toc w l c
      = (if sym then 2 else 1) * lock (M - WaveDrag.mcrit ny ka CL toc w l c) := by
  unfold WaveDrag.cdw lock
  simp only [if_true, sub_pos]
  have e : ∀ d : ℝ, d * d * d * d = d ^ 4 := fun d => by ring
  cases sym <;> split_ifs <;> simp [e] <;> push_cast <;> ring

theorem c18_wave_zero_below (ny : ℕ) (sym : Bool) (ka M CL : ℝ) (toc w l c : ℕ → ℝ)
    (h : M ≤ WaveDrag.mcrit ny ka CL toc w l c) : WaveDrag.cdw ny true sym ka M CL toc w l c = 0 := by
  rw [c18_wave_form]
  have : ¬ (0 < M - WaveDrag.mcrit ny ka CL toc w l c) := by linarith
  simp [lock, this]

/-- **Wave drag grows monotonically with Mach number.** -/
theorem c18_wave_mono_M (ny : ℕ) (sym : Bool) (ka M1 M2 CL : ℝ) (toc w l c : ℕ → ℝ) (h : M1 ≤ M2) :
    WaveDrag.cdw ny true sym ka M1 CL toc w l c ≤ WaveDrag.cdw ny true sym ka M2 CL toc w l c := by
  rw [c18_wave_form, c18_wave_form]
  have := lock_mono (d1 := M1 - WaveDrag.mcrit ny ka CL toc w l c) (d2 := M2 - WaveDrag.mcrit ny ka CL toc w l c)
    (by linarith)
  cases sym <;> simp <;> linarith

/-- area-weighted average cosine of the quarter-chord sweep used by `WaveDrag` -/
noncomputable def avgCos (ny : ℕ) (w l c : ℕ → ℝ) : ℝ :=
  sumTo (ny - 1) (fun j => w j / l j * WaveDrag.panelArea c w j) / sumTo (ny - 1) (WaveDrag.panelArea c w)

/-- the crest-critical Mach number decreases with lift (for positive average sweep cosine) -/
theorem mcrit_anti_CL (ny : ℕ) (ka CL1 CL2 : ℝ) (toc w l c : ℕ → ℝ) (hc : 0 < avgCos ny w l c) (h : CL1 ≤ CL2) :
    WaveDrag.mcrit ny ka CL2 toc w l c ≤ WaveDrag.mcrit ny ka CL1 toc w l c := by
  unfold WaveDrag.mcrit
  simp only
  have hc' : 0 < sumTo (ny - 1) (fun j => w j / l j * WaveDrag.panelArea c w j) / sumTo (ny - 1) (WaveDrag.panelArea c w) := hc
  set ac := sumTo (ny - 1) (fun j => w j / l j * WaveDrag.panelArea c w j) / sumTo (ny - 1) (WaveDrag.panelArea c w)
  have hden : 0 < ((10 : ℕ) : ℝ) * (ac * ac * ac) := by positivity
  have : CL1 / (((10 : ℕ) : ℝ) * (ac * ac * ac)) ≤ CL2 / (((10 : ℕ) : ℝ) * (ac * ac * ac)) :=
    div_le_div_of_nonneg_right h (le_of_lt hden)
  linarith

/-- **Wave drag grows monotonically with lift.** -/
theorem c18_wave_mono_CL (ny : ℕ) (sym : Bool) (ka M CL1 CL2 : ℝ) (toc w l c : ℕ → ℝ)
    (hc : 0 < avgCos ny w l c) (h : CL1 ≤ CL2) :
    WaveDrag.cdw ny true sym ka M CL1 toc w l c ≤ WaveDrag.cdw ny true sym ka M CL2 toc w l c := by
  rw [c18_wave_form, c18_wave_form]
  have hm := mcrit_anti_CL ny ka CL1 CL2 toc w l c hc h
  have := lock_mono (d1 := M - WaveDrag.mcrit ny ka CL1 toc w l c) (d2 := M - WaveDrag.mcrit ny ka CL2 toc w l c)
    (by linarith)
  cases sym <;> simp <;> linarith

/-- **Partition independence of the wave drag**: for constant sweep cosine `r` and constant `t/c`
the area-weighted averages are `r` and `t`, so `Mcrit` (hence `CDw`) does not depend on how the
span is divided into panels, nor on the chords. -/
theorem c18_wave_partition (ny : ℕ) (ka CL r t : ℝ) (toc w l c : ℕ → ℝ)
    (hr : ∀ j, w j / l j = r) (ht : ∀ j, toc j = t) (hA : sumTo (ny - 1) (WaveDrag.panelArea c w) ≠ 0) :
    WaveDrag.mcrit ny ka CL toc w l c
      = ka / r - t / (r * r) - CL / (((10 : ℕ) : ℝ) * (r * r * r))
        - Elem.rpow (dec 1 10 / ((80 : ℕ) : ℝ)) (1 / ((3 : ℕ) : ℝ)) := by
  unfold WaveDrag.mcrit
  simp only [hr, ht, sumTo_eq_sum, ← Finset.mul_sum]
  rw [mul_div_assoc, mul_div_assoc, div_self (by simpa [sumTo_eq_sum] using hA), mul_one, mul_one]

/-! ### viscous drag -/

theorem log10_pos {x : ℝ} (h : 1 < x) : 0 < ViscousDrag.log10 x := by
  unfold ViscousDrag.log10
  simp only [elem_log]
  have h10 : (0 : ℝ) < Real.log ((10 : ℕ) : ℝ) := Real.log_pos (by norm_num)
  exact div_pos (Real.log_pos h) h10

theorem log10_mono {x y : ℝ} (hx : 0 < x) (h : x ≤ y) : ViscousDrag.log10 x ≤ ViscousDrag.log10 y := by
  unfold ViscousDrag.log10
  simp only [elem_log]
  have h10 : (0 : ℝ) < Real.log ((10 : ℕ) : ℝ) := Real.log_pos (by norm_num)
  exact div_le_div_of_nonneg_right (Real.log_le_log hx h) (le_of_lt h10)

theorem machFactor_pos (M : ℝ) : 0 < Elem.rpow (1 + dec 144 1000 * (M * M)) (dec 65 100 : ℝ) := by
  simp only [elem_rpow]
  have : (0 : ℝ) < 1 + dec 144 1000 * (M * M) := by
    have : (0 : ℝ) ≤ dec 144 1000 := by simp only [dec_def]; positivity
    nlinarith [mul_self_nonneg M]
  exact Real.rpow_pos_of_pos this _

/-- **Turbulent skin friction is positive** for chord Reynolds numbers above 1. -/
theorem cfTurb_pos {Re : ℝ} (M : ℝ) (h : 1 < Re) : 0 < ViscousDrag.cfTurb Re M := by
  unfold ViscousDrag.cfTurb
  have h1 : (0 : ℝ) < dec 455 1000 := by simp only [dec_def]; positivity
  have h2 : 0 < Elem.rpow (ViscousDrag.log10 Re) (dec 258 100 : ℝ) := by
    simp only [elem_rpow]; exact Real.rpow_pos_of_pos (log10_pos h) _
  exact div_pos (div_pos h1 h2) (machFactor_pos M)

/-- **… and decreases with Reynolds number.** -/
theorem cfTurb_anti {Re1 Re2 : ℝ} (M : ℝ) (h1 : 1 < Re1) (h : Re1 ≤ Re2) :
    ViscousDrag.cfTurb Re2 M ≤ ViscousDrag.cfTurb Re1 M := by
  unfold ViscousDrag.cfTurb
  have hc : (0 : ℝ) ≤ dec 455 1000 := by simp only [dec_def]; positivity
  have he : (0 : ℝ) ≤ dec 258 100 := by simp only [dec_def]; positivity
  have hl := log10_mono (lt_trans one_pos h1) h
  have hp1 : 0 < Elem.rpow (ViscousDrag.log10 Re1) (dec 258 100 : ℝ) := by
    simp only [elem_rpow]; exact Real.rpow_pos_of_pos (log10_pos h1) _
  have hpow : Elem.rpow (ViscousDrag.log10 Re1) (dec 258 100 : ℝ) ≤ Elem.rpow (ViscousDrag.log10 Re2) (dec 258 100 : ℝ) := by
    simp only [elem_rpow]
    exact Real.rpow_le_rpow (le_of_lt (log10_pos h1)) hl he
  have : dec 455 1000 / Elem.rpow (ViscousDrag.log10 Re2) (dec 258 100 : ℝ)
      ≤ dec 455 1000 / Elem.rpow (ViscousDrag.log10 Re1) (dec 258 100 : ℝ) :=
    div_le_div_of_nonneg_left hc hp1 hpow
  exact div_le_div_of_nonneg_right this (le_of_lt (machFactor_pos M))

/-- **Laminar skin friction is positive and decreases with Reynolds number.** -/
theorem cfLam_pos {Re : ℝ} (h : 0 < Re) : 0 < ViscousDrag.cfLam Re := by
  unfold ViscousDrag.cfLam
  simp only [elem_sqrt]
  have : (0 : ℝ) < dec 1328 1000 := by simp only [dec_def]; positivity
  exact div_pos this (Real.sqrt_pos.mpr h)

theorem cfLam_anti {Re1 Re2 : ℝ} (h1 : 0 < Re1) (h : Re1 ≤ Re2) : ViscousDrag.cfLam Re2 ≤ ViscousDrag.cfLam Re1 := by
  unfold ViscousDrag.cfLam
  simp only [elem_sqrt]
  have hc : (0 : ℝ) ≤ dec 1328 1000 := by simp only [dec_def]; positivity
  exact div_le_div_of_nonneg_left hc (Real.sqrt_pos.mpr h1) (Real.sqrt_le_sqrt h)

/-- fully turbulent section coefficient (`k_lam = 0`) -/
theorem cd_turbulent (Rec M : ℝ) : ViscousDrag.cd 0 Rec M = ViscousDrag.cfTurb Rec M := by
  simp [ViscousDrag.cd]

/-- fully laminar section coefficient (`k_lam = 1`) -/
theorem cd_laminar (Rec M : ℝ) : ViscousDrag.cd 1 Rec M = ViscousDrag.cfLam Rec := by
  simp [ViscousDrag.cd]

/-- the form factor is positive and increases with thickness ratio -/
theorem formFactor_pos {cmaxt M toc cs : ℝ} (hc : 0 < cmaxt) (hM : 0 < M) (ht : 0 ≤ toc) (hs : 0 < cs) :
    0 < ViscousDrag.formFactor cmaxt M toc cs := by
  unfold ViscousDrag.formFactor
  simp only [elem_rpow]
  have h1 : (0 : ℝ) < dec 134 100 := by simp only [dec_def]; positivity
  have h2 : (0 : ℝ) ≤ dec 6 10 := by simp only [dec_def]; positivity
  have h3 : 0 < M ^ (dec 18 100 : ℝ) := Real.rpow_pos_of_pos hM _
  have h4 : 0 < cs ^ (dec 28 100 : ℝ) := Real.rpow_pos_of_pos hs _
  have h5 : 0 < 1 + dec 6 10 * toc / cmaxt + ((100 : ℕ) : ℝ) * (toc * toc * toc * toc) := by
    have ha : 0 ≤ dec 6 10 * toc / cmaxt := div_nonneg (mul_nonneg h2 ht) (le_of_lt hc)
    have hb : 0 ≤ ((100 : ℕ) : ℝ) * (toc * toc * toc * toc) := by positivity
    exact add_pos_of_pos_of_nonneg (add_pos_of_pos_of_nonneg one_pos ha) hb
  positivity

theorem formFactor_mono {cmaxt M t1 t2 cs : ℝ} (hc : 0 < cmaxt) (hM : 0 < M) (ht : 0 ≤ t1) (h : t1 ≤ t2) (hs : 0 < cs) :
    ViscousDrag.formFactor cmaxt M t1 cs ≤ ViscousDrag.formFactor cmaxt M t2 cs := by
  unfold ViscousDrag.formFactor
  simp only [elem_rpow]
  have h1 : (0 : ℝ) < dec 134 100 := by simp only [dec_def]; positivity
  have h2 : (0 : ℝ) ≤ dec 6 10 := by simp only [dec_def]; positivity
  have h3 : 0 < M ^ (dec 18 100 : ℝ) := Real.rpow_pos_of_pos hM _
  have h4 : 0 < cs ^ (dec 28 100 : ℝ) := Real.rpow_pos_of_pos hs _
  have ht2 : 0 ≤ t2 := le_trans ht h
  have hq : t1 * t1 * t1 * t1 ≤ t2 * t2 * t2 * t2 := by
    have := pow_le_pow_left₀ ht h 4
    calc t1 * t1 * t1 * t1 = t1 ^ 4 := by ring
      _ ≤ t2 ^ 4 := this
      _ = t2 * t2 * t2 * t2 := by ring
  have hlin : dec 6 10 * t1 / cmaxt ≤ dec 6 10 * t2 / cmaxt :=
    div_le_div_of_nonneg_right (mul_le_mul_of_nonneg_left h h2) (le_of_lt hc)
  have hin : 1 + dec 6 10 * t1 / cmaxt + ((100 : ℕ) : ℝ) * (t1 * t1 * t1 * t1)
      ≤ 1 + dec 6 10 * t2 / cmaxt + ((100 : ℕ) : ℝ) * (t2 * t2 * t2 * t2) := by
    have : ((100 : ℕ) : ℝ) * (t1 * t1 * t1 * t1) ≤ ((100 : ℕ) : ℝ) * (t2 * t2 * t2 * t2) :=
      mul_le_mul_of_nonneg_left hq (by positivity)
    linarith
  have hA : 0 ≤ dec 134 100 * M ^ (dec 18 100 : ℝ) := le_of_lt (mul_pos h1 h3)
  exact mul_le_mul_of_nonneg_right (mul_le_mul_of_nonneg_left hin hA) (le_of_lt h4)

/-- **Partition independence of the viscous drag**: for equal edge lengths `c` (constant chord),
constant sweep cosine `r` and constant `t/c = t`, `CDv` depends on the panel widths only through
their sum (the span), hence not on the number or distribution of spanwise panels. -/
theorem c18_viscous_partition (ny : ℕ) (sym : Bool) (klam cmaxt re M S c r t : ℝ) (w l len toc : ℕ → ℝ)
    (hl : ∀ j, len j = c) (hr : ∀ j, w j / l j = r) (ht : ∀ j, toc j = t) :
    ViscousDrag.cdv ny true sym klam cmaxt re M S w l len toc
      = (if sym then 2 else 1)
        * (2 * ViscousDrag.cd klam (re * c) M * c * ViscousDrag.formFactor cmaxt M t r)
        * (∑ j ∈ range (ny - 1), w j) / S := by
  unfold ViscousDrag.cdv
  have hc : ∀ j, (len (j + 1) + len j) / ((2 : ℕ) : ℝ) = c := fun j => by rw [hl, hl]; push_cast; ring
  simp only [if_true, hc, hr, ht, sumTo_eq_sum]
  have : ∀ j, ((2 : ℕ) : ℝ) * ViscousDrag.cd klam (re * c) M * c * w j * ViscousDrag.formFactor cmaxt M t r
      = (2 * ViscousDrag.cd klam (re * c) M * c * ViscousDrag.formFactor cmaxt M t r) * w j := fun j => by
    push_cast; ring
  simp only [this, ← Finset.mul_sum]
  cases sym <;> simp <;> push_cast <;> ring

/-- **Viscous drag is positive** for a fully turbulent surface (`k_lam = 0`) with chord Reynolds
numbers above 1, positive widths, reference area, Mach number and sweep cosines. -/
theorem c18_viscous_pos_turbulent (n : ℕ) (sym : Bool) (cmaxt re M S : ℝ) (w l len toc : ℕ → ℝ)
    (hc : 0 < cmaxt) (hM : 0 < M) (hS : 0 < S)
    (hRe : ∀ j, 1 < re * ((len (j + 1) + len j) / ((2 : ℕ) : ℝ))) (hch : ∀ j, 0 < (len (j + 1) + len j) / ((2 : ℕ) : ℝ))
    (hw : ∀ j, 0 < w j) (hl : ∀ j, 0 < l j) (ht : ∀ j, 0 ≤ toc j) :
    0 < ViscousDrag.cdv (n + 2) true sym 0 cmaxt re M S w l len toc := by
  unfold ViscousDrag.cdv
  simp only [if_true, sumTo_eq_sum, cd_turbulent]
  have hsum : 0 < ∑ j ∈ range (n + 2 - 1),
      ((2 : ℕ) : ℝ) * ViscousDrag.cfTurb (re * ((len (j + 1) + len j) / ((2 : ℕ) : ℝ))) M
        * ((len (j + 1) + len j) / ((2 : ℕ) : ℝ)) * w j
        * ViscousDrag.formFactor cmaxt M (toc j) (w j / l j) := by
    apply Finset.sum_pos
    · intro j _
      have h1 := cfTurb_pos M (hRe j)
      have h2 := formFactor_pos hc hM (ht j) (div_pos (hw j) (hl j))
      have h3 := hch j
      have h4 := hw j
      positivity
    · simp
  have := div_pos hsum hS
  cases sym <;> simp <;> positivity

end C18
end OAS
