import OASProofs.Lemmas.Basic
import OASProofs.Lemmas.Real
import OASProofs.Generated.Formulas

/-!
# Translated formulas = model

`OASProofs/Generated/Formulas.lean` is produced on every run by the expression translator of `harness/generate.py`
from the *current* source of the `compute()` methods (one definition per assignment statement).  The theorems below
show that the model definitions the property theorems are about are built from exactly those expressions – so a
change of any of these formulas in the code breaks a proof obligation here, independently of the sampled
correspondence.  Proved over ℝ by ring normalisation: a harmless re-association or re-ordering in the source keeps
them true.
-/
set_option linter.unusedSectionVars false
set_option linter.unusedSimpArgs false
namespace OAS
namespace Formulas
open Generated

theorem dec_eq (a b : ℕ) : (dec a b : ℝ) = (a : ℝ) / (b : ℝ) := rfl

/-! ### C18: skin friction, form factor, wave drag -/

theorem visc_cfTurb (Re M : ℝ) : F.visc_cdturb_total Re M = ViscousDrag.cfTurb Re M := by
  simp only [F.visc_cdturb_total, ViscousDrag.cfTurb, ViscousDrag.log10, dec_eq]; norm_num

theorem visc_cfLam (Rec k : ℝ) : F.visc_cdlam_tr Rec k = ViscousDrag.cfLam (Rec * k) := by
  simp only [F.visc_cdlam_tr, ViscousDrag.cfLam]

theorem visc_cfTurb_tr (Rec k M : ℝ) : F.visc_cdturb_tr Rec k M = ViscousDrag.cfTurb (Rec * k) M := by
  simp only [F.visc_cdturb_tr, ViscousDrag.cfTurb, ViscousDrag.log10, dec_eq]; norm_num

/-- the transition branch (`0 < k_lam < 1`) of the section skin-friction coefficient is the code's `cd` line applied
to the code's three skin-friction lines -/
theorem visc_cd_transition (k Rec M : ℝ) (h0 : 0 < k) (h1 : k < 1) :
    F.visc_cd (F.visc_cdlam_tr Rec k) (F.visc_cdturb_tr Rec k M) k (F.visc_cdturb_total Rec M) = ViscousDrag.cd k Rec M := by
  rw [visc_cfLam, visc_cfTurb_tr, visc_cfTurb]
  simp only [F.visc_cd, ViscousDrag.cd, h0, h1, or_true, if_true]

theorem visc_formFactor (cmaxt M toc cs : ℝ) :
    F.visc_FF (F.visc_k_FF M toc cmaxt) cs = ViscousDrag.formFactor cmaxt M toc cs := by
  simp only [F.visc_FF, F.visc_k_FF, ViscousDrag.formFactor, dec_eq]; norm_num

/-- the summand of the spanwise drag sum: `d_over_q * widths * FF` with the code's `chords`, `Re_c` lines -/
theorem visc_summand (k cmaxt re M w lsp l0 l1 toc : ℝ) :
    F.visc_d_over_q (ViscousDrag.cd k (F.visc_Re_c re (F.visc_chords l1 l0)) M) (F.visc_chords l1 l0) * w
        * ViscousDrag.formFactor cmaxt M toc (w / lsp)
      = ((2 : ℕ) : ℝ) * ViscousDrag.cd k (re * ((l1 + l0) / ((2 : ℕ) : ℝ))) M * ((l1 + l0) / ((2 : ℕ) : ℝ)) * w
          * ViscousDrag.formFactor cmaxt M toc (w / lsp) := by
  have : F.visc_chords l1 l0 = (l1 + l0) / ((2 : ℕ) : ℝ) := by simp only [F.visc_chords, dec_eq]; norm_num
  simp only [F.visc_d_over_q, F.visc_Re_c, this]

theorem wave_panelArea (c w : ℕ → ℝ) (j : ℕ) :
    F.wave_panel_areas (F.wave_panel_mid_chords (c j) (c (j + 1))) (w j) = WaveDrag.panelArea c w j := by
  simp only [F.wave_panel_areas, F.wave_panel_mid_chords, WaveDrag.panelArea, dec_eq]; norm_num

theorem wave_mcrit (ny : ℕ) (ka CL : ℝ) (toc w l c : ℕ → ℝ) :
    F.wave_Mcrit (F.wave_MDD ka
        (sumTo (ny - 1) (fun j => w j / l j * WaveDrag.panelArea c w j) / sumTo (ny - 1) (WaveDrag.panelArea c w))
        (sumTo (ny - 1) (fun j => toc j * WaveDrag.panelArea c w j) / sumTo (ny - 1) (WaveDrag.panelArea c w)) CL)
      = WaveDrag.mcrit ny ka CL toc w l c := by
  simp only [F.wave_Mcrit, F.wave_MDD, WaveDrag.mcrit, dec_eq]; norm_num

theorem wave_cdw_above (ny : ℕ) (ka M CL : ℝ) (toc w l c : ℕ → ℝ) (h : WaveDrag.mcrit ny ka CL toc w l c < M) :
    F.wave_CDw M (WaveDrag.mcrit ny ka CL toc w l c) = WaveDrag.cdw ny true false ka M CL toc w l c := by
  simp only [F.wave_CDw, WaveDrag.cdw, h, if_true, Bool.false_eq_true, if_false]

end Formulas
end OAS
