import OASProofs.Lemmas.Basic
import Mathlib.Data.Real.Basic
import OASProofs.Generated.AccumSites

/-!
# C03  Outputs and derivatives depend only on the current point, not on history

Model: `OASModel/History.lean` plus `OASProofs/Generated/AccumSites.lean`, which is regenerated from
`/repo` on every run: the list of *every* accumulating statement on framework storage or component state
in the code as it is now.
-/
set_option linter.unusedSectionVars false
namespace OAS
namespace C03
open History

/-! ### storage cells -/

/-- **A statement list that starts with a plain assignment produces a result independent of what the
storage held on entry** — this is why `x[...] = a; x[...] += b; x[...] *= c` patterns are history-free. -/
theorem c03_exec_assign_first {K : Type} [Add K] [Mul K] (s s' v : K) (rest : List (Stmt K)) :
    exec s (Stmt.assign v :: rest) = exec s' (Stmt.assign v :: rest) := by
  simp [exec, step]

/-- conversely a list of pure accumulations remembers the incoming value -/
theorem c03_exec_accum_depends (s v : ℝ) : exec s [Stmt.accum v] = s + v := by
  simp [exec, step]

/-! ### the `M` blocks of MomentCoefficient (finding F2, repaired by a fix: commit) -/

/-- repaired variant: after any number `≥ 1` of linearisations the storage holds the Jacobian of the last
one, whatever it held before -/
theorem c03_moment_fixed (s : ℝ) (js : List ℝ) (j : ℝ) : jacCellFixed s (js ++ [j]) = j := by
  simp [jacCellFixed, List.foldl_append]

/-- defective variant: `n` linearisations at the same point leave `n · J` in the storage of a fresh problem -/
theorem c03_moment_defective (j : ℝ) (n : ℕ) : jacCellDefective 0 (List.replicate n j) = n * j := by
  induction n with
  | zero => simp [jacCellDefective]
  | succ n ih =>
    rw [List.replicate_succ', jacCellDefective, List.foldl_append]
    unfold jacCellDefective at ih
    rw [ih]; simp; ring

/-- so the defective variant violates the property as soon as a problem is linearised twice -/
theorem c03_moment_M_counterexample : jacCellDefective (0 : ℝ) [1, 1] ≠ jacCellFixed (0 : ℝ) [1, 1] := by
  simp [jacCellDefective, jacCellFixed]

/-! ### cached components -/

variable {X C O J : Type} [DecidableEq X]

/-- invariant: the cache is the cache of the last computed point -/
def Inv (c : Cached X C O J) (s : St X C) : Prop :=
  match s.last with
  | none => s.cache = none
  | some x => s.cache = some (c.cacheOf x)

theorem inv_init (c : Cached X C O J) : Inv c (init : St X C) := rfl

theorem inv_step (c : Cached X C O J) (s : St X C) (op : Op X) (h : Inv c s) : Inv c (stepOp c s op).1 := by
  cases op with
  | compute x => simp [stepOp, Inv]
  | linearize x =>
    unfold stepOp
    cases hc : s.cache <;> simpa [hc] using h

/-- **Under the framework protocol every linearisation emits the Jacobian of a fresh problem evaluated once
at that point**, for every history (induction over the operation list). -/
theorem c03_linearize_history_free (c : Cached X C O J) :
    ∀ (h : List (Op X)) (s : St X C) (x : X), Inv c s → Protocol s.last (h ++ [Op.linearize x]) →
      (run c s (h ++ [Op.linearize x])).2 = Emit.jac (c.jac x (c.cacheOf x))
  | [], s, x, hinv, hp => by
      simp only [List.nil_append, Protocol] at hp
      unfold Inv at hinv
      rw [hp.1] at hinv
      simp [run, stepOp, hinv]
  | op :: rest, s, x, hinv, hp => by
      have hne : rest ++ [Op.linearize x] ≠ [] := by simp
      have hrun : run c s (op :: (rest ++ [Op.linearize x])) = run c (stepOp c s op).1 (rest ++ [Op.linearize x]) := by
        cases hr : rest ++ [Op.linearize x] with
        | nil => exact absurd hr hne
        | cons a t => simp [run, hr]
      have hgoal : (op :: rest) ++ [Op.linearize x] = op :: (rest ++ [Op.linearize x]) := rfl
      rw [hgoal, hrun]
      apply c03_linearize_history_free c rest _ x (inv_step c s op hinv)
      cases op with
      | compute y => rw [hgoal] at hp; simpa [stepOp, Protocol] using hp
      | linearize y =>
        have hp' : s.last = some y ∧ Protocol s.last (rest ++ [Op.linearize x]) := by rw [hgoal] at hp; simpa [Protocol] using hp
        have : (stepOp c s (Op.linearize y)).1 = s := by
          unfold stepOp; cases s.cache <;> rfl
        rw [this]; exact hp'.2

/-- every compute emits the output of the current point, whatever happened before -/
theorem c03_compute_history_free (c : Cached X C O J) (s : St X C) (x : X) :
    (stepOp c s (Op.compute x)).2 = Emit.out (c.out x) := rfl

/-! ### the accumulation sites of the code as it is now -/
open OAS.Generated

/-- accumulations that are not preceded by an assignment in the same function, with the reason why they
do not make results history dependent -/
def allowed : List (String × String × String) := [
  -- the first surface (`j == 0`) assigns these blocks (`name == base_name`); later surfaces accumulate
  ("MomentCoefficient", "compute_partials", "('CM', base_name + '_S_ref')"),
  ("MomentCoefficient", "compute_partials", "('CM', base_name + '_chords')"),
  ("MomentCoefficient", "compute_partials", "('CM', base_name + '_widths')"),
  -- matrix-free products: OpenMDAO's API requires accumulation into vectors it zeroes itself
  ("DemuxSurfaceMesh", "compute_jacvec_product", "MPhysVariables.Aerodynamics.Surface.COORDINATES"),
  ("DemuxSurfaceMesh", "compute_jacvec_product", "surf_name + '_def_mesh'"),
  ("MuxSurfaceForces", "compute_jacvec_product", "surf_name + '_mesh_point_forces'"),
  ("MuxSurfaceForces", "compute_jacvec_product", "MPhysVariables.Aerodynamics.Surface.LOADS"),
  -- a file-name counter of the plotting helper, not an analysis quantity
  ("SurfaceContour", "compute", "solution_counter")
]

/-- known finding F10: the only accumulation on (a view of) an *input* vector -/
def knownDefects : List (String × String × String) := [
  ("WingboxFuelVolDelta", "compute", "'fuelburn'")
]

def siteOK (s : AccumSite) : Bool :=
  s.covered || allowed.contains (s.cls, s.func, s.key) || knownDefects.contains (s.cls, s.func, s.key)

/-- **Every accumulating statement of the current source is preceded by an assignment to the same storage
in the same call** (or is one of the listed, justified exceptions): no component carries Jacobian or output
storage over from one evaluation to the next.  Re-checked against `/repo` on every run. -/
theorem c03_all_accumulations_covered : accumSites.all siteOK = true := by decide +kernel

/-- the scan is not vacuous -/
theorem c03_sites_nonempty : 40 ≤ accumSites.length := by decide +kernel

end C03
end OAS
