import OASProofs.Props.C01AD3

/-!
# C01 (continued)  Exactness of the derivative oracle: fuel / point-mass / thrust loads, moment coefficient, KS
-/
set_option linter.unusedSectionVars false
set_option linter.unusedSimpArgs false
set_option linter.unusedTactic false
set_option linter.unreachableTactic false
namespace OAS
namespace C01AD
open AD

variable {t : ℝ}

/-- `FuelLoads`: distributed fuel weight and end moments, w.r.t. nodes, fuel volumes, fuel mass and load factor -/
theorem fuelLoads_exact (ny : ℕ) (sym : Bool) (reserve : ℝ) {n : Pts (Dual ℝ)} {fn : ℝ → Pts ℝ} {vols : ℕ → Dual ℝ}
    {fv : ℕ → ℝ → ℝ} {fm lf : Dual ℝ} {ffm flf : ℝ → ℝ} (hn : ∀ j, TracksV (n j) (fun s => fn s j) t)
    (hv : ∀ e, Tracks (vols e) (fv e) t) (hfm : Tracks fm ffm t) (hlf : Tracks lf flf t)
    (hxy : ∀ e, 0 < (elemDelta (fn t) e).x * (elemDelta (fn t) e).x + (elemDelta (fn t) e).y * (elemDelta (fn t) e).y)
    (hL : ∀ e, 0 < V3.normSq (elemDelta (fn t) e)) (hs : sumTo (ny - 1) (fun e => fv e t) ≠ 0) (j : ℕ) :
    TracksL (fuelLoads ny sym n vols fm (⟨reserve, 0⟩ : Dual ℝ) lf j)
      (fun s => fuelLoads ny sym (fn s) (fun k => fv k s) (ffm s) reserve (flf s) j) t := by
  obtain ⟨hnx, hny, hnz⟩ := TracksV.fam1 hn
  have h2 : ((2 : ℕ) : ℝ) ≠ 0 := by norm_num
  have h12 : ((12 : ℕ) : ℝ) ≠ 0 := by norm_num
  have hLn : ∀ e, Real.sqrt ((elemDelta (fn t) e).x * (elemDelta (fn t) e).x + (elemDelta (fn t) e).y * (elemDelta (fn t) e).y
      + (elemDelta (fn t) e).z * (elemDelta (fn t) e).z) ≠ 0 := fun e => (Real.sqrt_pos.mpr (hL e)).ne'
  cases sym <;> refine ⟨⟨?_, ?_, ?_⟩, ⟨?_, ?_, ?_⟩⟩ <;>
    simp only [fuelLoads, fuelWeight, distributedLoads, elemLength, elemDelta, gravConstant, Bool.false_eq_true, if_false,
      if_true] at hxy hL hLn ⊢ <;> v3norm <;> track
  all_goals first | exact hxy _ | exact hL _ | exact hLn _ | assumption

/-- `ComputePointMassLoads`, w.r.t. nodes, point-mass locations, masses and load factor -/
theorem pointMassLoads_exact (ny np : ℕ) {n l : Pts (Dual ℝ)} {fn fl : ℝ → Pts ℝ} {ms : ℕ → Dual ℝ} {fms : ℕ → ℝ → ℝ}
    {lf : Dual ℝ} {flf : ℝ → ℝ} (hn : ∀ j, TracksV (n j) (fun s => fn s j) t) (hl : ∀ p, TracksV (l p) (fun s => fl s p) t)
    (hms : ∀ p, Tracks (ms p) (fms p) t) (hlf : Tracks lf flf t)
    (hd : ∀ p k, pow10 ((fl t p).y - (fn t k).y) + dec 1 10000000000 ≠ 0)
    (hs : ∀ p, sumTo ny (invDist10 (fn t) (fl t p)) ≠ 0) (j : ℕ) :
    TracksL (pointMassLoads ny np n l ms lf j) (fun s => pointMassLoads ny np (fn s) (fl s) (fun p => fms p s) (flf s) j) t := by
  have hw : ∀ p k, Tracks (nodalWeighting ny n (l p) k) (fun s => nodalWeighting ny (fn s) (fl s p) k) t :=
    fun p k => nodalWeighting_exact ny hn (hl p) k (hd p) (hs p)
  have hF : ∀ p k, TracksV
      (⟨nodalWeighting ny n (l p) k * 0 * gravConstant * lf * ms p, nodalWeighting ny n (l p) k * 0 * gravConstant * lf * ms p,
        nodalWeighting ny n (l p) k * (-1) * gravConstant * lf * ms p⟩ : V3 (Dual ℝ))
      (fun s => (⟨nodalWeighting ny (fn s) (fl s p) k * 0 * gravConstant * flf s * fms p s,
        nodalWeighting ny (fn s) (fl s p) k * 0 * gravConstant * flf s * fms p s,
        nodalWeighting ny (fn s) (fl s p) k * (-1) * gravConstant * flf s * fms p s⟩ : V3 ℝ)) t := by
    intro p k
    have hwpk := hw p k
    have hmp := hms p
    refine ⟨?_, ?_, ?_⟩ <;> simp only [gravConstant] <;> track
  exact pointLoads_exact ny np hn hl hF j

/-- `ComputeThrustLoads`, w.r.t. nodes, engine locations and thrusts -/
theorem thrustLoads_exact (ny np : ℕ) {n l : Pts (Dual ℝ)} {fn fl : ℝ → Pts ℝ} {th : ℕ → Dual ℝ} {fth : ℕ → ℝ → ℝ}
    (hn : ∀ j, TracksV (n j) (fun s => fn s j) t) (hl : ∀ p, TracksV (l p) (fun s => fl s p) t)
    (hth : ∀ p, Tracks (th p) (fth p) t)
    (hd : ∀ p k, pow10 ((fl t p).y - (fn t k).y) + dec 1 10000000000 ≠ 0)
    (hs : ∀ p, sumTo ny (invDist10 (fn t) (fl t p)) ≠ 0) (j : ℕ) :
    TracksL (thrustLoads ny np n l th j) (fun s => thrustLoads ny np (fn s) (fl s) (fun p => fth p s) j) t := by
  have hw : ∀ p k, Tracks (nodalWeighting ny n (l p) k) (fun s => nodalWeighting ny (fn s) (fl s p) k) t :=
    fun p k => nodalWeighting_exact ny hn (hl p) k (hd p) (hs p)
  have hF : ∀ p k, TracksV
      (⟨nodalWeighting ny n (l p) k * (-1) * th p, nodalWeighting ny n (l p) k * 0 * th p, nodalWeighting ny n (l p) k * 0 * th p⟩ : V3 (Dual ℝ))
      (fun s => (⟨nodalWeighting ny (fn s) (fl s p) k * (-1) * fth p s, nodalWeighting ny (fn s) (fl s p) k * 0 * fth p s,
        nodalWeighting ny (fn s) (fl s p) k * 0 * fth p s⟩ : V3 ℝ)) t := by
    intro p k
    have hwpk := hw p k
    have htp := hth p
    refine ⟨?_, ?_, ?_⟩ <;> track
  exact pointLoads_exact ny np hn hl hF j

/-- the maximum of `n+1` tracked values, when it is attained strictly at every comparison of the recursion (the generic
situation: no ties) -/
theorem maxUpTo_exact : ∀ (n : ℕ) {A : ℕ → Dual ℝ} {F : ℕ → ℝ → ℝ}, (∀ k, Tracks (A k) (F k) t) →
    (∀ k, k < n → maxUpTo k (fun i => F i t) ≠ F (k + 1) t) →
    Tracks (maxUpTo n A) (fun s => maxUpTo n (fun i => F i s)) t
  | 0, _, _, hA, _ => hA 0
  | n + 1, A, F, hA, hne => by
    have ih := maxUpTo_exact n hA (fun k hk => hne k (by omega))
    have hn := hne n (by omega)
    simp only [maxUpTo]
    rcases lt_or_gt_of_ne hn with hlt | hgt
    · exact Tracks.ite_lt_pos ih (hA (n + 1)) hlt (hA (n + 1))
    · exact Tracks.ite_lt_neg ih (hA (n + 1)) hgt ih

/-- `FailureKS`: the aggregated failure, w.r.t. every von Mises stress, when the largest stress ratio is attained without
ties in the running maximum -/
theorem failureKS_exact (n : ℕ) (sigma rho : ℝ) {vm : ℕ → Dual ℝ} {fvm : ℕ → ℝ → ℝ} (hvm : ∀ k, Tracks (vm k) (fvm k) t)
    (hs : sigma ≠ 0) (hr : rho ≠ 0)
    (hne : ∀ k, k < n → maxUpTo k (fun i => fvm i t / sigma - 1) ≠ fvm (k + 1) t / sigma - 1) :
    Tracks (failureKS n (⟨sigma, 0⟩ : Dual ℝ) (⟨rho, 0⟩ : Dual ℝ) vm) (fun s => failureKS n sigma rho (fun k => fvm k s)) t := by
  have hg : ∀ k, Tracks (vm k / (⟨sigma, 0⟩ : Dual ℝ) - 1) (fun s => fvm k s / sigma - 1) t :=
    fun k => ((hvm k).div (Tracks.const sigma) hs).sub Tracks.one
  have hmax := maxUpTo_exact n hg hne
  have hsum : Tracks (sumTo (n + 1) (fun i => Elem.exp ((⟨rho, 0⟩ : Dual ℝ) * (vm i / (⟨sigma, 0⟩ : Dual ℝ) - 1 - maxUpTo n (fun i => vm i / (⟨sigma, 0⟩ : Dual ℝ) - 1)))))
      (fun s => sumTo (n + 1) (fun i => Real.exp (rho * (fvm i s / sigma - 1 - maxUpTo n (fun i => fvm i s / sigma - 1))))) t := by
    refine Tracks.sumTo _ _ _ ?_
    intro i _
    exact (((Tracks.const rho).mul ((hg i).sub hmax))).exp
  have hpos : (0 : ℝ) < sumTo (n + 1) (fun i => Real.exp (rho * (fvm i t / sigma - 1 - maxUpTo n (fun i => fvm i t / sigma - 1)))) := by
    rw [sumTo_eq_sum]
    apply Finset.sum_pos
    · intro i _; exact Real.exp_pos _
    · exact ⟨0, by simp⟩
  simp only [failureKS]
  exact hmax.add (((Tracks.one.div (Tracks.const rho) hr)).mul (hsum.log hpos.ne'))

/-! ### MomentCoefficient -/

open MomentCoefficient in
/-- tracking of one surface's inputs to `MomentCoefficient` -/
structure TracksMC (a : MomentCoefficient.Surf (Dual ℝ)) (f : ℝ → MomentCoefficient.Surf ℝ) (t : ℝ) : Prop where
  nx : ∀ s, (f s).nx = a.nx
  ny : ∀ s, (f s).ny = a.ny
  sym : ∀ s, (f s).sym = a.sym
  bPts : ∀ i j, TracksV (a.bPts i j) (fun s => (f s).bPts i j) t
  widths : ∀ j, Tracks (a.widths j) (fun s => (f s).widths j) t
  chords : ∀ j, Tracks (a.chords j) (fun s => (f s).chords j) t
  sRef : Tracks a.sRef (fun s => (f s).sRef) t
  F : ∀ i j, TracksV (a.F i j) (fun s => (f s).F i j) t

open MomentCoefficient in
/-- mean aerodynamic chord -/
theorem mac_exact {a : MomentCoefficient.Surf (Dual ℝ)} {f : ℝ → MomentCoefficient.Surf ℝ} (h : TracksMC a f t)
    (h0 : (f t).sRef ≠ 0) : Tracks (mac a) (fun s => mac (f s)) t := by
  have hw := h.widths; have hc := h.chords; have hS := h.sRef
  simp only [mac, h.ny, h.sym]
  cases a.sym <;> simp only [Bool.false_eq_true, if_false, if_true] <;> track

open MomentCoefficient in
/-- spanwise moment distribution of one surface about the reference point -/
theorem momentDist_exact {a : MomentCoefficient.Surf (Dual ℝ)} {f : ℝ → MomentCoefficient.Surf ℝ} (h : TracksMC a f t)
    {cg : V3 (Dual ℝ)} {fcg : ℝ → V3 ℝ} (hcg : TracksV cg fcg t) (j : ℕ) :
    TracksV (momentDist a cg j) (fun s => momentDist (f s) (fcg s) j) t := by
  obtain ⟨hbx, hby, hbz⟩ := TracksV.fam2 h.bPts
  obtain ⟨hFx, hFy, hFz⟩ := TracksV.fam2 h.F
  have hx := hcg.x; have hy := hcg.y; have hz := hcg.z
  refine ⟨?_, ?_, ?_⟩ <;> simp only [momentDist, h.nx, h.sym] <;>
    cases a.sym <;> (try simp only [Bool.false_eq_true, if_false, if_true]) <;> v3norm <;> track

open MomentCoefficient in
/-- moment of one surface about the reference point (sum over the span) -/
theorem surfMoment_exact {a : MomentCoefficient.Surf (Dual ℝ)} {f : ℝ → MomentCoefficient.Surf ℝ} (h : TracksMC a f t)
    {cg : V3 (Dual ℝ)} {fcg : ℝ → V3 ℝ} (hcg : TracksV cg fcg t) :
    TracksV (surfMoment a cg) (fun s => surfMoment (f s) (fcg s)) t := by
  have hm := fun j => momentDist_exact h hcg j
  refine ⟨?_, ?_, ?_⟩ <;> simp only [surfMoment, h.ny, V3.sumTo_x', V3.sumTo_y', V3.sumTo_z']
  · exact Tracks.sumTo _ _ _ (fun j _ => (hm j).x)
  · exact Tracks.sumTo _ _ _ (fun j _ => (hm j).y)
  · exact Tracks.sumTo _ _ _ (fun j _ => (hm j).z)

end C01AD
end OAS
