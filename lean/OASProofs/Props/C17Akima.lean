import OASProofs.Lemmas.AD
import Mathlib.Tactic.FieldSimp
import Mathlib.Tactic.Ring
import Mathlib.Tactic.Linarith
import Mathlib.Topology.Order.LeftRight
import Mathlib.Analysis.Calculus.MeanValue

/-!
  **C17 / C16 / C01 — the atmosphere interpolation (`OASModel/Akima.lean`, `common/atmos_comp.py`).**

  For every table (any number of knots, any strictly increasing abscissae, any values) and every query point:
  * the interpolant reproduces the table at every knot (`c17_akima_interpolates`),
  * on `[x i, x (i+1))` it is the cubic Hermite segment `i` (`eval_segment`), whose value and slope at both ends are the table
    values and the knot slopes of the two knots (`hermite_left/right`, `hermiteDeriv_left/right`): the pieces join with a continuous
    first derivative, whatever the knot slopes are,
  * inside a segment the derivative of the interpolant is `hermiteDeriv` (`c01_akima_hasDerivAt`) and the forward-mode dual number
    of the model carries exactly that derivative (`hermite_exact`) — it is what the correspondence check compares
    `AtmosComp.compute_partials` (scipy's derivative spline) with,
  * where four consecutive secants vanish (the isothermal layer of the table) the knot slope is zero and a segment between two such
    knots is constant (`knotSlope_flat`, `hermite_flat`): temperature and speed of sound do not vary there,
  * the interpolant is continuous at every altitude strictly inside the table, knots included (`c17_akima_continuousAt`),
  * within a segment it changes by at most `125 ·` (largest secant slope) per unit altitude (`c17_akima_lipschitz_on_segment`, from
    `mExt_bound`, `knotSlope_bound`, `hermiteDeriv_bound` and the mean value theorem),
  * `v = speed_of_sound · Mach_number` (`c17_atmos_velocity`).
-/
namespace OAS.C17Akima
open OAS OAS.Akima OAS.AD Filter Topology

/-- derivative of the Hermite segment with respect to the query point -/
noncomputable def hermiteDeriv (x0 x1 y0 y1 t0 t1 q : ℝ) : ℝ :=
  let dx := x1 - x0
  let slope := (y1 - y0) / dx
  let t := (t0 + t1 - 2 * slope) / dx
  3 * (t / dx) * (q - x0) ^ 2 + 2 * ((slope - t0) / dx - t) * (q - x0) + t0

theorem hermite_left (x0 x1 y0 y1 t0 t1 : ℝ) : hermite x0 x1 y0 y1 t0 t1 x0 = y0 := by
  simp [hermite]

theorem hermite_right (x0 x1 y0 y1 t0 t1 : ℝ) (h : x1 ≠ x0) : hermite x0 x1 y0 y1 t0 t1 x1 = y1 := by
  have hd : x1 - x0 ≠ 0 := sub_ne_zero.mpr h
  simp only [hermite]
  field_simp
  push_cast
  ring

theorem hermiteDeriv_left (x0 x1 y0 y1 t0 t1 : ℝ) : hermiteDeriv x0 x1 y0 y1 t0 t1 x0 = t0 := by
  simp [hermiteDeriv]

theorem hermiteDeriv_right (x0 x1 y0 y1 t0 t1 : ℝ) (h : x1 ≠ x0) : hermiteDeriv x0 x1 y0 y1 t0 t1 x1 = t1 := by
  have hd : x1 - x0 ≠ 0 := sub_ne_zero.mpr h
  simp only [hermiteDeriv]
  field_simp
  ring

theorem hermite_hasDerivAt (x0 x1 y0 y1 t0 t1 q : ℝ) :
    HasDerivAt (hermite x0 x1 y0 y1 t0 t1) (hermiteDeriv x0 x1 y0 y1 t0 t1 q) q := by
  have hs : HasDerivAt (fun q : ℝ => q - x0) 1 q := (hasDerivAt_id q).sub_const x0
  have h := ((((hs.mul hs).mul hs).const_mul ((t0 + t1 - ((2 : ℕ) : ℝ) * ((y1 - y0) / (x1 - x0))) / (x1 - x0) / (x1 - x0))).add
    ((hs.mul hs).const_mul (((y1 - y0) / (x1 - x0) - t0) / (x1 - x0) - (t0 + t1 - ((2 : ℕ) : ℝ) * ((y1 - y0) / (x1 - x0))) / (x1 - x0)))).add
    (hs.const_mul t0) |>.add_const y0
  refine (h.congr_deriv ?_).congr_of_eventuallyEq (Filter.Eventually.of_forall fun z => ?_)
  · simp only [hermiteDeriv, Pi.mul_apply]; push_cast; ring
  · simp only [hermite, Pi.mul_apply, Pi.add_apply]; push_cast; ring

/-- forward-mode exactness: the dual-number evaluation of a segment carries the derivative of the real segment -/
theorem hermite_exact {t : ℝ} {X0 X1 Y0 Y1 T0 T1 Q : Dual ℝ} {x0 x1 y0 y1 t0 t1 : ℝ} {fq : ℝ → ℝ}
    (hx0 : Tracks X0 (fun _ => x0) t) (hx1 : Tracks X1 (fun _ => x1) t) (hy0 : Tracks Y0 (fun _ => y0) t)
    (hy1 : Tracks Y1 (fun _ => y1) t) (ht0 : Tracks T0 (fun _ => t0) t) (ht1 : Tracks T1 (fun _ => t1) t)
    (hq : Tracks Q fq t) (h : x1 - x0 ≠ 0) :
    Tracks (hermite X0 X1 Y0 Y1 T0 T1 Q) (fun z => hermite x0 x1 y0 y1 t0 t1 (fq z)) t := by
  unfold hermite; track

/-! ### the segment search -/

/-- the first `n` abscissae are strictly increasing (entries past the table are never read) -/
def Increasing (n : ℕ) (x : ℕ → ℝ) : Prop := ∀ a b, a < b → b < n → x a < x b

theorem locate_le (x : ℕ → ℝ) (q : ℝ) (k : ℕ) : locate x q k ≤ k := by
  induction k with
  | zero => simp [locate]
  | succ k ih => simp only [locate]; split <;> omega

/-- if `x i ≤ q < x (i+1)` for a strictly increasing table then the search returns `i` -/
theorem locate_eq (n : ℕ) (x : ℕ → ℝ) (hx : Increasing n x) (q : ℝ) (i k : ℕ) (hik : i ≤ k) (hk : k + 1 < n) (h0 : x i ≤ q)
    (h1 : q < x (i + 1)) : locate x q k = i := by
  induction k with
  | zero => have : i = 0 := by omega
            simp [locate, this]
  | succ k ih =>
    simp only [locate]
    rcases Nat.lt_or_ge i (k + 1) with hlt | hge
    · have hle : x (i + 1) ≤ x (k + 1) := by
        rcases Nat.lt_or_ge (i + 1) (k + 1) with h | h
        · exact (hx _ _ h (by omega)).le
        · have : i + 1 = k + 1 := by omega
          rw [this]
      have : q < x (k + 1) := lt_of_lt_of_le h1 hle
      rw [if_pos this]; exact ih (by omega) (by omega)
    · have hi : i = k + 1 := by omega
      subst hi
      rw [if_neg (not_lt.mpr h0)]

/-- at or beyond the last interior knot the search returns the last segment -/
theorem locate_last (x : ℕ → ℝ) (q : ℝ) (k : ℕ) (h : x k ≤ q) : locate x q k = k := by
  cases k with
  | zero => simp [locate]
  | succ k => simp only [locate]; rw [if_neg (not_lt.mpr h)]

/-- on `[x i, x (i+1))` the interpolant is the Hermite segment `i` -/
theorem eval_segment (n : ℕ) (x y : ℕ → ℝ) (hx : Increasing n x) (q : ℝ) (i : ℕ) (hi : i + 2 ≤ n) (h0 : x i ≤ q) (h1 : q < x (i + 1)) :
    eval n x y q =
      hermite (x i) (x (i + 1)) (y i) (y (i + 1)) (knotSlope n x y (maxTo (n - 1) (f12 n x y)) i)
        (knotSlope n x y (maxTo (n - 1) (f12 n x y)) (i + 1)) q := by
  simp only [eval]
  rw [locate_eq n x hx q i (n - 2) (by omega) (by omega) h0 h1]

/-- **C17** the interpolant reproduces every row of the table -/
theorem c17_akima_interpolates (n : ℕ) (x y : ℕ → ℝ) (hx : Increasing n x) (i : ℕ) (hn : 2 ≤ n) (hi : i < n) :
    eval n x y (x i) = y i := by
  rcases Nat.lt_or_ge (i + 1) n with h | h
  · rw [eval_segment n x y hx (x i) i (by omega) le_rfl (hx _ _ (Nat.lt_succ_self i) h)]
    exact hermite_left ..
  · have hi' : i = (n - 2) + 1 := by omega
    simp only [eval]
    have hlt : x (n - 2) < x (n - 2 + 1) := hx _ _ (Nat.lt_succ_self _) (by omega)
    rw [hi', locate_last x _ (n - 2) hlt.le]
    exact hermite_right _ _ _ _ _ _ hlt.ne'

/-- **C01** inside a segment the derivative of the interpolant is the derivative of its Hermite segment -/
theorem c01_akima_hasDerivAt (n : ℕ) (x y : ℕ → ℝ) (hx : Increasing n x) (q : ℝ) (i : ℕ) (hi : i + 2 ≤ n) (h0 : x i < q) (h1 : q < x (i + 1)) :
    HasDerivAt (eval n x y)
      (hermiteDeriv (x i) (x (i + 1)) (y i) (y (i + 1)) (knotSlope n x y (maxTo (n - 1) (f12 n x y)) i)
        (knotSlope n x y (maxTo (n - 1) (f12 n x y)) (i + 1)) q) q := by
  refine (hermite_hasDerivAt ..).congr_of_eventuallyEq ?_
  filter_upwards [Ioo_mem_nhds h0 h1] with z hz
  exact eval_segment n x y hx z i hi hz.1.le hz.2

/-! ### the isothermal layer -/

/-- a segment between two knots of equal value and zero slope is constant -/
theorem hermite_flat (x0 x1 y q : ℝ) : hermite x0 x1 y y 0 0 q = y := by
  simp [hermite]

/-- where the four secants around a knot vanish, the knot slope is zero -/
theorem knotSlope_flat (n : ℕ) (x y : ℕ → ℝ) (mmax : ℝ) (i : ℕ)
    (h0 : mExt n x y i = 0) (h1 : mExt n x y (i + 1) = 0) (h2 : mExt n x y (i + 2) = 0) (h3 : mExt n x y (i + 3) = 0) :
    knotSlope n x y mmax i = 0 := by
  simp only [knotSlope, f12, h0, h1, h2, h3]
  split <;> simp

/-- **C17** in the interior of the table `mExt` is the secant slope, so a run of equal table values gives zero knot slopes and a
constant interpolant there (temperature and speed of sound in the isothermal layer) -/
theorem mExt_interior (n : ℕ) (x y : ℕ → ℝ) (k : ℕ) (h2 : 2 ≤ k) (hk : k ≤ n) : mExt n x y k = secant x y (k - 2) := by
  have a : k ≠ 0 := by omega
  have b : k ≠ 1 := by omega
  simp [mExt, a, b, hk]

theorem c17_isothermal (n : ℕ) (x y : ℕ → ℝ) (hx : Increasing n x) (i : ℕ) (q : ℝ) (hi2 : 2 ≤ i) (hin : i + 4 ≤ n)
    (hy : ∀ j, i - 2 ≤ j → j ≤ i + 3 → y j = y i) (h0 : x i ≤ q) (h1 : q < x (i + 1)) :
    eval n x y q = y i := by
  have sec : ∀ j, i - 2 ≤ j → j ≤ i + 2 → secant x y j = 0 := by
    intro j hj1 hj2
    simp [secant, hy j hj1 (by omega), hy (j + 1) (by omega) (by omega)]
  have m0 : ∀ k, i ≤ k → k ≤ i + 4 → mExt n x y k = 0 := by
    intro k hk1 hk2
    rw [mExt_interior n x y k (by omega) (by omega)]
    exact sec (k - 2) (by omega) (by omega)
  rw [eval_segment n x y hx q i (by omega) h0 h1,
    knotSlope_flat n x y _ i (m0 i le_rfl (by omega)) (m0 _ (by omega) (by omega)) (m0 _ (by omega) (by omega)) (m0 _ (by omega) (by omega)),
    knotSlope_flat n x y _ (i + 1) (m0 _ (by omega) (by omega)) (m0 _ (by omega) (by omega)) (m0 _ (by omega) (by omega)) (m0 _ (by omega) (by omega)),
    hy (i + 1) (by omega) (by omega)]
  exact hermite_flat ..

/-- **C17** the flight speed is the interpolated speed of sound times the Mach number, and the other five outputs are the
interpolants of their own columns over the same altitude column -/
theorem c17_atmos_velocity (n : ℕ) (alt tT tP tRho tA tMu : ℕ → ℝ) (h M : ℝ) :
    (atmos n alt tT tP tRho tA tMu h M).2.2.2.2.2 = (atmos n alt tT tP tRho tA tMu h M).2.2.2.1 * M ∧
    (atmos n alt tT tP tRho tA tMu h M).1 = eval n alt tT h ∧
    (atmos n alt tT tP tRho tA tMu h M).2.2.2.1 = eval n alt tA h := by
  simp [atmos]

/-! ### continuity in altitude -/

/-- every point of `[x 0, x (n−1))` lies in a segment -/
theorem exists_segment (x : ℕ → ℝ) (q : ℝ) (m : ℕ) (h0 : x 0 ≤ q) (h1 : q < x (m + 1)) :
    ∃ i, i ≤ m ∧ x i ≤ q ∧ q < x (i + 1) := by
  induction m with
  | zero => exact ⟨0, le_rfl, h0, h1⟩
  | succ m ih =>
    rcases lt_or_ge q (x (m + 1)) with h | h
    · obtain ⟨i, hi, a, b⟩ := ih h
      exact ⟨i, by omega, a, b⟩
    · exact ⟨m + 1, le_rfl, h, h1⟩

theorem hermite_continuous (x0 x1 y0 y1 t0 t1 : ℝ) : Continuous (hermite x0 x1 y0 y1 t0 t1) :=
  continuous_iff_continuousAt.mpr fun q => (hermite_hasDerivAt x0 x1 y0 y1 t0 t1 q).continuousAt

/-- **C17** the interpolated atmosphere is continuous in altitude: at every point strictly inside the table (knots included) -/
theorem c17_akima_continuousAt (n : ℕ) (x y : ℕ → ℝ) (hx : Increasing n x) (q : ℝ) (hn : 2 ≤ n) (h0 : x 0 < q) (h1 : q < x (n - 1)) :
    ContinuousAt (eval n x y) q := by
  obtain ⟨i, hi, a, b⟩ := exists_segment x q (n - 2) h0.le (by rwa [show n - 2 + 1 = n - 1 by omega])
  rcases a.lt_or_eq with a | a
  · exact (c01_akima_hasDerivAt n x y hx q i (by omega) a b).continuousAt
  · -- a knot: the segment on the left ends at the table value, the segment on the right starts there
    subst a
    have hi0 : i ≠ 0 := by rintro rfl; exact lt_irrefl _ h0
    obtain ⟨j, rfl⟩ : ∃ j, i = j + 1 := ⟨i - 1, by omega⟩
    have hv : eval n x y (x (j + 1)) = y (j + 1) := c17_akima_interpolates n x y hx (j + 1) hn (by omega)
    rw [continuousAt_iff_continuous_left_right]
    constructor
    · -- from the left: segment j on (x j, x (j+1))
      have hc := (hermite_continuous (x j) (x (j + 1)) (y j) (y (j + 1)) (knotSlope n x y (maxTo (n - 1) (f12 n x y)) j)
        (knotSlope n x y (maxTo (n - 1) (f12 n x y)) (j + 1))).continuousAt (x := x (j + 1)) |>.continuousWithinAt (s := Set.Iic (x (j + 1)))
      refine hc.congr_of_eventuallyEq ?_ ?_
      · have : Set.Ioc (x j) (x (j + 1)) ∈ 𝓝[≤] (x (j + 1)) := Ioc_mem_nhdsLE (hx _ _ (Nat.lt_succ_self j) (by omega))
        filter_upwards [this] with z hz
        rcases hz.2.lt_or_eq with hlt | heq
        · exact eval_segment n x y hx z j (by omega) hz.1.le hlt
        · rw [heq, hv, hermite_right _ _ _ _ _ _ (hx _ _ (Nat.lt_succ_self j) (by omega)).ne']
      · rw [hv, hermite_right _ _ _ _ _ _ (hx _ _ (Nat.lt_succ_self j) (by omega)).ne']
    · -- from the right: segment j+1 on [x (j+1), x (j+2))
      have hc := (hermite_continuous (x (j + 1)) (x (j + 2)) (y (j + 1)) (y (j + 2)) (knotSlope n x y (maxTo (n - 1) (f12 n x y)) (j + 1))
        (knotSlope n x y (maxTo (n - 1) (f12 n x y)) (j + 2))).continuousAt (x := x (j + 1)) |>.continuousWithinAt (s := Set.Ici (x (j + 1)))
      refine hc.congr_of_eventuallyEq ?_ ?_
      · have : Set.Ico (x (j + 1)) (x (j + 2)) ∈ 𝓝[≥] (x (j + 1)) := Ico_mem_nhdsGE (hx _ _ (Nat.lt_succ_self (j + 1)) (by omega))
        filter_upwards [this] with z hz
        exact eval_segment n x y hx z (j + 1) (by omega) hz.1 hz.2
      · exact eval_segment n x y hx _ (j + 1) (by omega) le_rfl b


/-- non-vacuity: a strictly increasing table exists and the theorems apply to it -/
example : eval 4 (fun i => (i : ℝ)) (fun i => (i : ℝ) * 2) ((1 : ℕ) : ℝ) = ((1 : ℕ) : ℝ) * 2 :=
  c17_akima_interpolates 4 _ _ (fun a b h _ => by exact_mod_cast h) 1 (by norm_num) (by norm_num)

/-! ### how fast the interpolant can change (the bound used by the discontinuity search of the harness) -/

/-- the derivative of a Hermite segment in the normalised coordinate `u = (q − x0)/(x1 − x0)` -/
theorem hermiteDeriv_normalised (x0 x1 y0 y1 t0 t1 q : ℝ) (h : x1 ≠ x0) :
    hermiteDeriv x0 x1 y0 y1 t0 t1 q =
      3 * (t0 + t1 - 2 * ((y1 - y0) / (x1 - x0))) * ((q - x0) / (x1 - x0)) ^ 2
        + 2 * (3 * ((y1 - y0) / (x1 - x0)) - 2 * t0 - t1) * ((q - x0) / (x1 - x0)) + t0 := by
  have hd : x1 - x0 ≠ 0 := sub_ne_zero.mpr h
  simp only [hermiteDeriv]
  field_simp
  ring

/-- **slope bound of a segment**: if both knot slopes and the secant are bounded by `S`, the derivative of the segment is bounded by
`25 S` on the whole segment (a crude bound; `2.5 S` holds) -/
theorem hermiteDeriv_bound (x0 x1 y0 y1 t0 t1 q S : ℝ) (h : x0 < x1) (hq0 : x0 ≤ q) (hq1 : q ≤ x1)
    (h0 : |t0| ≤ S) (h1 : |t1| ≤ S) (hm : |(y1 - y0) / (x1 - x0)| ≤ S) :
    |hermiteDeriv x0 x1 y0 y1 t0 t1 q| ≤ 25 * S := by
  rw [hermiteDeriv_normalised _ _ _ _ _ _ _ h.ne']
  set m := (y1 - y0) / (x1 - x0)
  set u := (q - x0) / (x1 - x0)
  have hd : 0 < x1 - x0 := sub_pos.mpr h
  have hu0 : 0 ≤ u := div_nonneg (sub_nonneg.mpr hq0) hd.le
  have hu1 : u ≤ 1 := by
    rw [div_le_one hd]; linarith
  have hS : 0 ≤ S := le_trans (abs_nonneg _) h0
  have hu2 : u ^ 2 ≤ 1 := by nlinarith
  have hu2' : 0 ≤ u ^ 2 := by positivity
  have a1 : |t0 + t1 - 2 * m| ≤ 4 * S := by
    have := abs_le.mp h0; have := abs_le.mp h1; have := abs_le.mp hm
    rw [abs_le]; constructor <;> linarith
  have a2 : |3 * m - 2 * t0 - t1| ≤ 6 * S := by
    have := abs_le.mp h0; have := abs_le.mp h1; have := abs_le.mp hm
    rw [abs_le]; constructor <;> linarith
  have b1 : |3 * (t0 + t1 - 2 * m) * u ^ 2| ≤ 12 * S := by
    rw [abs_mul, abs_mul, abs_of_nonneg hu2', abs_of_pos (by norm_num : (0:ℝ) < 3)]
    nlinarith [abs_nonneg (t0 + t1 - 2 * m)]
  have b2 : |2 * (3 * m - 2 * t0 - t1) * u| ≤ 12 * S := by
    rw [abs_mul, abs_mul, abs_of_nonneg hu0, abs_of_pos (by norm_num : (0:ℝ) < 2)]
    nlinarith [abs_nonneg (3 * m - 2 * t0 - t1)]
  calc |3 * (t0 + t1 - 2 * m) * u ^ 2 + 2 * (3 * m - 2 * t0 - t1) * u + t0|
      ≤ |3 * (t0 + t1 - 2 * m) * u ^ 2 + 2 * (3 * m - 2 * t0 - t1) * u| + |t0| := abs_add_le _ _
    _ ≤ |3 * (t0 + t1 - 2 * m) * u ^ 2| + |2 * (3 * m - 2 * t0 - t1) * u| + |t0| := by
        have := abs_add_le (3 * (t0 + t1 - 2 * m) * u ^ 2) (2 * (3 * m - 2 * t0 - t1) * u); linarith
    _ ≤ 25 * S := by linarith

theorem knotSlope_bound_aux (m0 m1 m2 m3 thr S : ℝ) (h0 : |m0| ≤ S) (h1 : |m1| ≤ S) (h2 : |m2| ≤ S) (h3 : |m3| ≤ S) :
    |if thr < |m3 - m2| + |m1 - m0| then m1 + |m1 - m0| / (|m3 - m2| + |m1 - m0|) * (m2 - m1) else (dec 1 2 : ℝ) * (m3 + m0)| ≤ S := by
  have e0 := abs_le.mp h0; have e1 := abs_le.mp h1; have e2 := abs_le.mp h2; have e3 := abs_le.mp h3
  split_ifs with hpos
  · -- a convex combination of m1 and m2 (weight 0 when the denominator vanishes)
    have hw : 0 ≤ |m1 - m0| / (|m3 - m2| + |m1 - m0|) ∧ |m1 - m0| / (|m3 - m2| + |m1 - m0|) ≤ 1 := by
      rcases (add_nonneg (abs_nonneg (m3 - m2)) (abs_nonneg (m1 - m0))).eq_or_lt with hz | hp
      · rw [← hz]; simp
      · exact ⟨div_nonneg (abs_nonneg _) hp.le, by rw [div_le_one hp]; linarith [abs_nonneg (m3 - m2)]⟩
    generalize |m1 - m0| / (|m3 - m2| + |m1 - m0|) = w at hw
    have : m1 + w * (m2 - m1) = (1 - w) * m1 + w * m2 := by ring
    rw [this, abs_le]
    constructor <;> nlinarith [hw.1, hw.2]
  · rw [abs_le]
    have : (dec 1 2 : ℝ) = 1 / 2 := by simp [dec]
    rw [this]
    constructor <;> linarith

/-- **knot slopes stay between the neighbouring (extended) secants**: `|t i| ≤` any bound of the four extended secants around the knot -/
theorem knotSlope_bound (n : ℕ) (x y : ℕ → ℝ) (mmax S : ℝ) (i : ℕ)
    (h0 : |mExt n x y i| ≤ S) (h1 : |mExt n x y (i + 1)| ≤ S) (h2 : |mExt n x y (i + 2)| ≤ S) (h3 : |mExt n x y (i + 3)| ≤ S) :
    |knotSlope n x y mmax i| ≤ S := by
  simp only [knotSlope, f12, elem_abs]
  exact knotSlope_bound_aux _ _ _ _ _ _ h0 h1 h2 h3

/-- **a segment is Lipschitz with constant `25 S`** (mean value theorem on the segment): what the continuity search of the harness
relies on — no interpolant of the table can change faster than this between two altitudes of one segment -/
theorem hermite_lipschitz (x0 x1 y0 y1 t0 t1 S a b : ℝ) (h : x0 < x1) (ha : a ∈ Set.Icc x0 x1) (hb : b ∈ Set.Icc x0 x1)
    (h0 : |t0| ≤ S) (h1 : |t1| ≤ S) (hm : |(y1 - y0) / (x1 - x0)| ≤ S) :
    |hermite x0 x1 y0 y1 t0 t1 b - hermite x0 x1 y0 y1 t0 t1 a| ≤ 25 * S * |b - a| := by
  have := Convex.norm_image_sub_le_of_norm_hasDerivWithin_le (f := hermite x0 x1 y0 y1 t0 t1)
    (f' := hermiteDeriv x0 x1 y0 y1 t0 t1) (s := Set.Icc x0 x1) (C := 25 * S)
    (fun q _ => (hermite_hasDerivAt x0 x1 y0 y1 t0 t1 q).hasDerivWithinAt)
    (fun q hq => by rw [Real.norm_eq_abs]; exact hermiteDeriv_bound x0 x1 y0 y1 t0 t1 q S h hq.1 hq.2 h0 h1 hm)
    (convex_Icc x0 x1) ha hb
  simpa [Real.norm_eq_abs] using this

/-- the extended secants (two extrapolated on each side) are bounded by five times the largest secant of the table -/
theorem mExt_bound (n : ℕ) (x y : ℕ → ℝ) (S : ℝ) (hn : 3 ≤ n) (hs : ∀ j, j + 1 < n → |secant x y j| ≤ S) (k : ℕ) :
    |mExt n x y k| ≤ 5 * S := by
  have hS : 0 ≤ S := le_trans (abs_nonneg _) (hs 0 (by omega))
  have b0 := abs_le.mp (hs 0 (by omega)); have b1 := abs_le.mp (hs 1 (by omega))
  have bn2 := abs_le.mp (hs (n - 2) (by omega)); have bn3 := abs_le.mp (hs (n - 3) (by omega))
  simp only [mExt]
  have two : (((2 : ℕ) : ℝ)) = 2 := by norm_num
  rw [two]
  split_ifs with c0 c1 c2 c3
  · rw [abs_le]; constructor <;> linarith
  · rw [abs_le]; constructor <;> linarith
  · have := abs_le.mp (hs (k - 2) (by omega))
    rw [abs_le]; constructor <;> linarith
  · rw [abs_le]; constructor <;> linarith
  · rw [abs_le]; constructor <;> linarith

/-- **C17** within a segment the interpolant cannot change faster than `125 ·` (largest secant slope of the column) per unit of
altitude: the bound the discontinuity search of the harness demands of the real component -/
theorem c17_akima_lipschitz_on_segment (n : ℕ) (x y : ℕ → ℝ) (hx : Increasing n x) (S : ℝ) (hn : 3 ≤ n)
    (hs : ∀ j, j + 1 < n → |secant x y j| ≤ S) (i : ℕ) (hi : i + 2 ≤ n) (a b : ℝ)
    (ha : x i ≤ a ∧ a < x (i + 1)) (hb : x i ≤ b ∧ b < x (i + 1)) :
    |eval n x y b - eval n x y a| ≤ 125 * S * |b - a| := by
  have hS : 0 ≤ S := le_trans (abs_nonneg _) (hs 0 (by omega))
  have hlt : x i < x (i + 1) := hx _ _ (Nat.lt_succ_self i) (by omega)
  rw [eval_segment n x y hx a i hi ha.1 ha.2, eval_segment n x y hx b i hi hb.1 hb.2]
  have hm : |(y (i + 1) - y i) / (x (i + 1) - x i)| ≤ 5 * S := by
    have := hs i (by omega)
    unfold secant at this
    linarith
  have := hermite_lipschitz (x i) (x (i + 1)) (y i) (y (i + 1)) (knotSlope n x y (maxTo (n - 1) (f12 n x y)) i)
    (knotSlope n x y (maxTo (n - 1) (f12 n x y)) (i + 1)) (5 * S) a b hlt ⟨ha.1, ha.2.le⟩ ⟨hb.1, hb.2.le⟩
    (knotSlope_bound n x y _ _ i (mExt_bound n x y S hn hs _) (mExt_bound n x y S hn hs _) (mExt_bound n x y S hn hs _)
      (mExt_bound n x y S hn hs _))
    (knotSlope_bound n x y _ _ (i + 1) (mExt_bound n x y S hn hs _) (mExt_bound n x y S hn hs _) (mExt_bound n x y S hn hs _)
      (mExt_bound n x y S hn hs _)) hm
  calc _ ≤ 25 * (5 * S) * |b - a| := this
    _ = 125 * S * |b - a| := by ring

end OAS.C17Akima
