import OASProofs.Lemmas.Basic
import OASProofs.Lemmas.Real
import OASProofs.Generated.Formulas

/-!
# Translated formulas = model (C09)

The Prandtl–Glauert factor `betaPG = np.sqrt(1 - M**2)` of both scaling components of `pg_scale.py`, re-derived from the
source on every run, is the model's `PG.betaPG`.
-/
set_option linter.unusedSectionVars false
namespace OAS
namespace Formulas
open Generated

theorem pg_beta (M : ℝ) : F.pg_beta_to M = PG.betaPG M ∧ F.pg_beta_from M = PG.betaPG M := by
  constructor <;> simp only [F.pg_beta_to, F.pg_beta_from, PG.betaPG] <;> norm_num

end Formulas
end OAS
