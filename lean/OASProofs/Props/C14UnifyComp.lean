import OASProofs.Props.C14Unify

/-!
# C14 (continued)  The run-time component `GeomMultiUnification.compute`

Model: `Unify.unifyComp` (`geometry_unification.py: GeomMultiUnification.compute`).  The component re-implements the loop of
`unify_mesh`; unlike the function it applies the leading-edge shift before the *last* section as well.  For C0-continuous
sections (and always without the shift) it produces the same contiguous surface, node for node; for detached sections the two
differ (`c14_comp_differs_when_detached`), which is outside the property (it quantifies over C0-continuous sections).
-/
set_option linter.unusedSectionVars false
set_option linter.unusedSimpArgs false
namespace OAS
namespace C14Unify
open Unify

theorem unifyCompAux_eq (shift : Bool) (rest : List (Sec ℝ)) : ∀ (acc : Mesh ℝ) (n : ℕ) (prev s : Sec ℝ),
    (shift = true → C0 (prev :: s :: rest)) →
    (unifyCompAux shift acc n prev (s :: rest)).1 = fun i c => if c < n then acc i c else contig (s :: rest) i (c - n) := by
  induction rest with
  | nil =>
    intro acc n prev s h
    have hacc : (if shift = true then fun i c => acc i c - prev.mesh 0 (prev.ny - 1) + s.mesh 0 0 else acc) = acc := by
      by_cases hs : shift = true
      · have h0 := (h hs).1 0
        simp only [hs, if_true]
        funext i c
        rw [h0]; exact v3_sub_add_cancel _ _
      · simp [hs]
    show (fun i c => if c < n then (if shift = true then fun i c => acc i c - prev.mesh 0 (prev.ny - 1) + s.mesh 0 0 else acc) i c
        else s.mesh i (c - n)) = _
    rw [hacc]; rfl
  | cons s' rest ih =>
    intro acc n prev s h
    have hacc : (if shift = true then fun i c => acc i c - prev.mesh 0 (prev.ny - 1) + s.mesh 0 0 else acc) = acc := by
      by_cases hs : shift = true
      · have h0 := (h hs).1 0
        simp only [hs, if_true]
        funext i c
        rw [h0]; exact v3_sub_add_cancel _ _
      · simp [hs]
    have hC : shift = true → C0 (s :: s' :: rest) := fun hs => (h hs).2
    show (unifyCompAux shift (fun i c => if c < n then (if shift = true then fun i c => acc i c - prev.mesh 0 (prev.ny - 1) + s.mesh 0 0 else acc) i c
        else s.mesh i (c - n)) (n + (s.ny - 1)) s (s' :: rest)).1 = _
    rw [hacc, ih _ _ s s' hC]
    funext i c
    simp only [contig]
    by_cases h1 : c < n
    · have : c < n + (s.ny - 1) := by omega
      simp [h1, this]
    · by_cases h2 : c < n + (s.ny - 1)
      · have : c - n < s.ny - 1 := by omega
        simp [h1, h2, this]
      · have : ¬ (c - n < s.ny - 1) := by omega
        have e : c - (n + (s.ny - 1)) = c - n - (s.ny - 1) := by omega
        simp [h1, h2, this, e]

/-- **the component without the shift is the plain concatenation** (two or more sections) -/
theorem c14_unify_comp_noshift (s s' : Sec ℝ) (rest : List (Sec ℝ)) :
    (unifyComp false (s :: s' :: rest)).1 = contig (s :: s' :: rest) := by
  show (unifyCompAux false s.mesh (s.ny - 1) s (s' :: rest)).1 = _
  rw [unifyCompAux_eq false rest s.mesh (s.ny - 1) s s' (by simp)]
  rfl

/-- **the component with the shift unifies C0-continuous sections into the same contiguous surface, node for node** -/
theorem c14_unify_comp_shift (s s' : Sec ℝ) (rest : List (Sec ℝ)) (h : C0 (s :: s' :: rest)) :
    (unifyComp true (s :: s' :: rest)).1 = contig (s :: s' :: rest) := by
  show (unifyCompAux true s.mesh (s.ny - 1) s (s' :: rest)).1 = _
  rw [unifyCompAux_eq true rest s.mesh (s.ny - 1) s s' (fun _ => h)]
  rfl

/-- hence component and function agree on C0-continuous sections, with either setting of the shift option -/
theorem c14_unify_comp_eq_function (shift : Bool) (s s' : Sec ℝ) (rest : List (Sec ℝ)) (h : C0 (s :: s' :: rest)) :
    (unifyComp shift (s :: s' :: rest)).1 = (unify shift (s :: s' :: rest)).1 := by
  cases shift
  · rw [c14_unify_comp_noshift, c14_unify_noshift]
  · rw [c14_unify_comp_shift _ _ _ h, c14_unify_shift _ h]

/-- remark (outside the property): for *detached* sections the component shifts the outboard section of a two-section wing
onto the inboard one, the function `unify_mesh` (used for the dictionary mesh at set-up) does not -/
theorem c14_comp_differs_when_detached :
    ∃ (s s' : Sec ℝ), (unifyComp true [s, s']).1 0 0 ≠ (unify true [s, s']).1 0 0 := by
  refine ⟨⟨2, fun _ _ => ⟨0, 0, 0⟩⟩, ⟨2, fun _ _ => ⟨1, 0, 0⟩⟩, ?_⟩
  simp only [unifyComp, unifyCompAux, unify, unifyAux]
  intro h
  have := congrArg V3.x h
  norm_num at this

/-- number of spanwise nodes written by the component (two or more sections): `uni_ny` -/
theorem c14_unify_comp_ny (shift : Bool) (s s' : Sec ℝ) (rest : List (Sec ℝ)) :
    (unifyComp shift (s :: s' :: rest)).2 = totalNy (s :: s' :: rest) := by
  have aux : ∀ (rest : List (Sec ℝ)) (acc : Mesh ℝ) (n : ℕ) (prev s : Sec ℝ),
      (unifyCompAux shift acc n prev (s :: rest)).2 = n + totalNy (s :: rest) := by
    intro rest
    induction rest with
    | nil => intro acc n prev s; rfl
    | cons s' rest ih =>
      intro acc n prev s
      show (unifyCompAux shift _ (n + (s.ny - 1)) s (s' :: rest)).2 = _
      rw [ih]; simp only [totalNy]; omega
  show (unifyCompAux shift s.mesh (s.ny - 1) s (s' :: rest)).2 = _
  rw [aux]; rfl

/-- `GeomMultiJoin`: the separation of a shared edge vanishes exactly when the two corner points coincide, and for
C0-continuous sections every separation vanishes -/
theorem c14_join_zero_of_C0 (nx : ℕ) : ∀ (secs : List (Sec ℝ)), C0 secs → ∀ k, k + 1 < secs.length → ∀ te,
    joinSeparation nx secs k te = 0
  | [], _, k, hk, _ => by simp at hk
  | [_], _, k, hk, _ => by simp at hk
  | s :: s' :: rest, h, 0, _, te => by
      simp only [joinSeparation, List.getD_cons_zero, List.getD_cons_succ]
      rw [h.1]; ext <;> simp
  | s :: s' :: rest, h, k + 1, hk, te => by
      have := c14_join_zero_of_C0 nx (s' :: rest) h.2 k (by simpa using hk) te
      simpa [joinSeparation] using this

end C14Unify
end OAS
