import OASProofs.Props.C01AD

/-!
# C01 (continued)  Exactness of the derivative oracle: beam finite elements and the vortex-lattice kernel
-/
set_option linter.unusedSectionVars false
set_option linter.unusedSimpArgs false
set_option linter.unusedTactic false
set_option linter.unreachableTactic false
namespace OAS
namespace C01AD
open AD

variable {t : ℝ}

/-! ### beam finite elements -/

theorem ofInt_tracks (z : ℤ) : Tracks (FEM.ofInt z : Dual ℝ) (fun _ => (FEM.ofInt z : ℝ)) t := by
  simp only [FEM.ofInt]; track

set_option maxHeartbeats 400000 in
/-- `LocalStiff`: every one of the 144 entries, w.r.t. `A, Iy, Iz, J, L` (E, G options) -/
theorem localStiff_exact (E G : ℝ) {A Iy Iz J L : Dual ℝ} {fA fIy fIz fJ fL : ℝ → ℝ} (hA : Tracks A fA t)
    (hIy : Tracks Iy fIy t) (hIz : Tracks Iz fIz t) (hJ : Tracks J fJ t) (hL : Tracks L fL t) (h0 : fL t ≠ 0) (r c : ℕ) :
    Tracks (FEM.localStiff (⟨E, 0⟩ : Dual ℝ) (⟨G, 0⟩ : Dual ℝ) A Iy Iz J L r c)
      (fun s => FEM.localStiff E G (fA s) (fIy s) (fIz s) (fJ s) (fL s) r c) t := by
  have h3 := mul_ne_zero (mul_ne_zero h0 h0) h0
  have hz : ∀ z : ℤ, Tracks (FEM.ofInt z : Dual ℝ) (fun _ => (FEM.ofInt z : ℝ)) t := fun z => ofInt_tracks z
  simp only [FEM.localStiff]; track

/-- `LocalStiffTransformed`: `Tᵀ K T`, every entry, w.r.t. the transform and the permuted element matrix -/
theorem transformed_exact {T Kp : ℕ → ℕ → Dual ℝ} {fT fK : ℝ → ℕ → ℕ → ℝ} (hT : ∀ a b, Tracks (T a b) (fun s => fT s a b) t)
    (hK : ∀ a b, Tracks (Kp a b) (fun s => fK s a b) t) (j k : ℕ) :
    Tracks (FEM.transformed T Kp j k) (fun s => FEM.transformed (fT s) (fK s) j k) t := by
  simp only [FEM.transformed]; track

theorem permuted_exact {Kl : ℕ → ℕ → Dual ℝ} {fK : ℝ → ℕ → ℕ → ℝ} (hK : ∀ a b, Tracks (Kl a b) (fun s => fK s a b) t) (j k : ℕ) :
    Tracks (FEM.permuted Kl j k) (fun s => FEM.permuted (fK s) j k) t := by
  simp only [FEM.permuted]; track

set_option maxHeartbeats 1600000 in
/-- `Transform`: the direction-cosine triad of an element, w.r.t. its two nodes -/
theorem triad_exact {P0 P1 : V3 (Dual ℝ)} {f0 f1 : ℝ → V3 ℝ} (h0 : TracksV P0 f0 t) (h1 : TracksV P1 f1 t)
    (hn : 0 < (f1 t - f0 t).x * (f1 t - f0 t).x + (f1 t - f0 t).y * (f1 t - f0 t).y + (f1 t - f0 t).z * (f1 t - f0 t).z)
    (hc : 0 < (V3.cross (FEM.triad (f0 t) (f1 t)).r0 ⟨1, 0, 0⟩).x * (V3.cross (FEM.triad (f0 t) (f1 t)).r0 ⟨1, 0, 0⟩).x
            + (V3.cross (FEM.triad (f0 t) (f1 t)).r0 ⟨1, 0, 0⟩).y * (V3.cross (FEM.triad (f0 t) (f1 t)).r0 ⟨1, 0, 0⟩).y
            + (V3.cross (FEM.triad (f0 t) (f1 t)).r0 ⟨1, 0, 0⟩).z * (V3.cross (FEM.triad (f0 t) (f1 t)).r0 ⟨1, 0, 0⟩).z) :
    TracksV (FEM.triad P0 P1).r0 (fun s => (FEM.triad (f0 s) (f1 s)).r0) t ∧
    TracksV (FEM.triad P0 P1).r1 (fun s => (FEM.triad (f0 s) (f1 s)).r1) t ∧
    TracksV (FEM.triad P0 P1).r2 (fun s => (FEM.triad (f0 s) (f1 s)).r2) t := by
  have h0x := h0.x; have h0y := h0.y; have h0z := h0.z; have h1x := h1.x; have h1y := h1.y; have h1z := h1.z
  have hn' := (Real.sqrt_pos.mpr hn).ne'
  have hc' := (Real.sqrt_pos.mpr hc).ne'
  simp only [FEM.triad] at hc hc'
  refine ⟨⟨?_, ?_, ?_⟩, ⟨?_, ?_, ?_⟩, ⟨?_, ?_, ?_⟩⟩ <;> simp only [FEM.triad] <;> v3norm <;> track

/-- `FEM.apply_nonlinear`: the residual `K u − f`, w.r.t. the matrix, the state and the right-hand side -/
theorem residual_exact (n : ℕ) {Km : ℕ → ℕ → Dual ℝ} {fK : ℝ → ℕ → ℕ → ℝ} {u f : ℕ → Dual ℝ} {fu ff : ℕ → ℝ → ℝ}
    (hK : ∀ a b, Tracks (Km a b) (fun s => fK s a b) t) (hu : ∀ k, Tracks (u k) (fu k) t) (hf : ∀ k, Tracks (f k) (ff k) t)
    (r : ℕ) :
    Tracks (FEM.residual n Km u f r) (fun s => FEM.residual n (fK s) (fun k => fu k s) (fun k => ff k s) r) t := by
  simp only [FEM.residual]; track

/-- the assembled stiffness matrix (scatter of element matrices and constraint rows), every entry -/
theorem assembleK_exact (ny idx : ℕ) {kl : ℕ → ℕ → ℕ → Dual ℝ} {fk : ℝ → ℕ → ℕ → ℕ → ℝ}
    (hk : ∀ e a b, Tracks (kl e a b) (fun s => fk s e a b) t) (r c : ℕ) :
    Tracks (FEM.assembleK ny idx kl r c) (fun s => FEM.assembleK ny idx (fk s) r c) t := by
  simp only [FEM.assembleK]; track

/-! ### vortex-lattice geometry and kernel -/

theorem collPt_exact (s0 : VLM.Surf (Dual ℝ)) (fs : ℝ → VLM.Surf ℝ)
    (hm : ∀ i j, TracksV (s0.mesh i j) (fun s => (fs s).mesh i j) t) (i j : ℕ) :
    TracksV (VLM.collPt s0 i j) (fun s => VLM.collPt (fs s) i j) t ∧
    TracksV (VLM.forcePt s0 i j) (fun s => VLM.forcePt (fs s) i j) t ∧
    TracksV (VLM.boundVec s0 i j) (fun s => VLM.boundVec (fs s) i j) t := by
  obtain ⟨hmx, hmy, hmz⟩ := TracksV.fam2 hm
  refine ⟨⟨?_, ?_, ?_⟩, ⟨?_, ?_, ?_⟩, ⟨?_, ?_, ?_⟩⟩ <;> simp only [VLM.collPt, VLM.forcePt, VLM.boundVec] <;> v3norm <;> track

/-- the semi-infinite trailing vortex, w.r.t. the wake direction and the relative position -/
theorem semiInfVortex_exact {u r : V3 (Dual ℝ)} {fu fr : ℝ → V3 ℝ} (hu : TracksV u fu t) (hr : TracksV r fr t)
    (hn : 0 < (fr t).x * (fr t).x + (fr t).y * (fr t).y + (fr t).z * (fr t).z)
    (hd : Real.sqrt ((fr t).x * (fr t).x + (fr t).y * (fr t).y + (fr t).z * (fr t).z)
        * (Real.sqrt ((fr t).x * (fr t).x + (fr t).y * (fr t).y + (fr t).z * (fr t).z) - V3.dot (fu t) (fr t)) ≠ 0) :
    TracksV (VLM.semiInfVortex u r) (fun s => VLM.semiInfVortex (fu s) (fr s)) t := by
  have hux := hu.x; have huy := hu.y; have huz := hu.z; have hrx := hr.x; have hry := hr.y; have hrz := hr.z
  have h4 : ((4 : ℕ) : ℝ) ≠ 0 := by norm_num
  have hpi : Real.pi ≠ 0 := Real.pi_ne_zero
  refine ⟨?_, ?_, ?_⟩ <;> simp only [VLM.semiInfVortex] <;> v3norm <;> track

/-- the finite vortex segment on the regular side of the `|den| > 1e-10` test (the side every collocation/force
point of a non-degenerate configuration is on) -/
theorem finiteVortex_exact {r1 r2 : V3 (Dual ℝ)} {f1 f2 : ℝ → V3 ℝ} (h1 : TracksV r1 f1 t) (h2 : TracksV r2 f2 t)
    (hn1 : 0 < (f1 t).x * (f1 t).x + (f1 t).y * (f1 t).y + (f1 t).z * (f1 t).z)
    (hn2 : 0 < (f2 t).x * (f2 t).x + (f2 t).y * (f2 t).y + (f2 t).z * (f2 t).z)
    (hden : (VLM.tol : ℝ) < V3.norm (f1 t) * V3.norm (f2 t) + V3.dot (f1 t) (f2 t)) :
    TracksV (VLM.finiteVortex r1 r2) (fun s => VLM.finiteVortex (f1 s) (f2 s)) t := by
  have h1x := h1.x; have h1y := h1.y; have h1z := h1.z; have h2x := h2.x; have h2y := h2.y; have h2z := h2.z
  have h4 : ((4 : ℕ) : ℝ) ≠ 0 := by norm_num
  have hpi : Real.pi ≠ 0 := Real.pi_ne_zero
  have hs1 := (Real.sqrt_pos.mpr hn1).ne'
  have hs2 := (Real.sqrt_pos.mpr hn2).ne'
  have htol : (0 : ℝ) < VLM.tol := by simp [VLM.tol, dec_def]
  have hdpos : (0 : ℝ) < V3.norm (f1 t) * V3.norm (f2 t) + V3.dot (f1 t) (f2 t) := lt_trans htol hden
  have hq : (V3.norm (f1 t) * V3.norm (f2 t) + V3.dot (f1 t) (f2 t)) * ((4 : ℕ) : ℝ) * Real.pi ≠ 0 :=
    mul_ne_zero (mul_ne_zero hdpos.ne' h4) hpi
  -- the denominator, tracked
  have hD : Tracks (V3.norm r1 * V3.norm r2 + V3.dot r1 r2) (fun s => V3.norm (f1 s) * V3.norm (f2 s) + V3.dot (f1 s) (f2 s)) t := by
    v3norm; track
  have hAbs : Tracks (Elem.abs (V3.norm r1 * V3.norm r2 + V3.dot r1 r2))
      (fun s => |V3.norm (f1 s) * V3.norm (f2 s) + V3.dot (f1 s) (f2 s)|) t := hD.abs hdpos.ne'
  have hlt : (VLM.tol : ℝ) < |V3.norm (f1 t) * V3.norm (f2 t) + V3.dot (f1 t) (f2 t)| := by
    rw [abs_of_pos hdpos]; exact hden
  have htolT : Tracks (VLM.tol : Dual ℝ) (fun _ => (VLM.tol : ℝ)) t := by
    simp only [VLM.tol]; exact Tracks.dec _ _
  simp only [V3.norm, V3.dot] at hq hdpos
  refine ⟨?_, ?_, ?_⟩
  · have := Tracks.ite_lt_pos (c := (VLM.finiteVortex r1 r2).x) (d := (0 : Dual ℝ)) (G := fun _ => (0 : ℝ))
      (F := fun s => ((1 / V3.norm (f1 s) + 1 / V3.norm (f2 s)) * (V3.cross (f1 s) (f2 s)).x
        / ((V3.norm (f1 s) * V3.norm (f2 s) + V3.dot (f1 s) (f2 s)) * ((4 : ℕ) : ℝ) * Real.pi))) htolT hAbs hlt
      (by
        have hv : (VLM.tol : Dual ℝ) < Elem.abs (V3.norm r1 * V3.norm r2 + V3.dot r1 r2) := by
          rw [Dual.lt_iff, htolT.1, hAbs.1]; exact hlt
        simp only [VLM.finiteVortex, hv, if_true]
        v3norm; track)
    refine Tracks.congr ?_ (fun s => ?_) (f := fun s => if (VLM.tol : ℝ) < |V3.norm (f1 s) * V3.norm (f2 s) + V3.dot (f1 s) (f2 s)| then
        ((1 / V3.norm (f1 s) + 1 / V3.norm (f2 s)) * (V3.cross (f1 s) (f2 s)).x
        / ((V3.norm (f1 s) * V3.norm (f2 s) + V3.dot (f1 s) (f2 s)) * ((4 : ℕ) : ℝ) * Real.pi)) else 0)
    · have hv : (VLM.tol : Dual ℝ) < Elem.abs (V3.norm r1 * V3.norm r2 + V3.dot r1 r2) := by
        rw [Dual.lt_iff, htolT.1, hAbs.1]; exact hlt
      rw [if_pos hv] at this; exact this
    · simp only [VLM.finiteVortex, elem_abs, elem_pi]; split_ifs <;> rfl
  · have := Tracks.ite_lt_pos (c := (VLM.finiteVortex r1 r2).y) (d := (0 : Dual ℝ)) (G := fun _ => (0 : ℝ))
      (F := fun s => ((1 / V3.norm (f1 s) + 1 / V3.norm (f2 s)) * (V3.cross (f1 s) (f2 s)).y
        / ((V3.norm (f1 s) * V3.norm (f2 s) + V3.dot (f1 s) (f2 s)) * ((4 : ℕ) : ℝ) * Real.pi))) htolT hAbs hlt
      (by
        have hv : (VLM.tol : Dual ℝ) < Elem.abs (V3.norm r1 * V3.norm r2 + V3.dot r1 r2) := by
          rw [Dual.lt_iff, htolT.1, hAbs.1]; exact hlt
        simp only [VLM.finiteVortex, hv, if_true]
        v3norm; track)
    refine Tracks.congr ?_ (fun s => ?_) (f := fun s => if (VLM.tol : ℝ) < |V3.norm (f1 s) * V3.norm (f2 s) + V3.dot (f1 s) (f2 s)| then
        ((1 / V3.norm (f1 s) + 1 / V3.norm (f2 s)) * (V3.cross (f1 s) (f2 s)).y
        / ((V3.norm (f1 s) * V3.norm (f2 s) + V3.dot (f1 s) (f2 s)) * ((4 : ℕ) : ℝ) * Real.pi)) else 0)
    · have hv : (VLM.tol : Dual ℝ) < Elem.abs (V3.norm r1 * V3.norm r2 + V3.dot r1 r2) := by
        rw [Dual.lt_iff, htolT.1, hAbs.1]; exact hlt
      rw [if_pos hv] at this; exact this
    · simp only [VLM.finiteVortex, elem_abs, elem_pi]; split_ifs <;> rfl
  · have := Tracks.ite_lt_pos (c := (VLM.finiteVortex r1 r2).z) (d := (0 : Dual ℝ)) (G := fun _ => (0 : ℝ))
      (F := fun s => ((1 / V3.norm (f1 s) + 1 / V3.norm (f2 s)) * (V3.cross (f1 s) (f2 s)).z
        / ((V3.norm (f1 s) * V3.norm (f2 s) + V3.dot (f1 s) (f2 s)) * ((4 : ℕ) : ℝ) * Real.pi))) htolT hAbs hlt
      (by
        have hv : (VLM.tol : Dual ℝ) < Elem.abs (V3.norm r1 * V3.norm r2 + V3.dot r1 r2) := by
          rw [Dual.lt_iff, htolT.1, hAbs.1]; exact hlt
        simp only [VLM.finiteVortex, hv, if_true]
        v3norm; track)
    refine Tracks.congr ?_ (fun s => ?_) (f := fun s => if (VLM.tol : ℝ) < |V3.norm (f1 s) * V3.norm (f2 s) + V3.dot (f1 s) (f2 s)| then
        ((1 / V3.norm (f1 s) + 1 / V3.norm (f2 s)) * (V3.cross (f1 s) (f2 s)).z
        / ((V3.norm (f1 s) * V3.norm (f2 s) + V3.dot (f1 s) (f2 s)) * ((4 : ℕ) : ℝ) * Real.pi)) else 0)
    · have hv : (VLM.tol : Dual ℝ) < Elem.abs (V3.norm r1 * V3.norm r2 + V3.dot r1 r2) := by
        rw [Dual.lt_iff, htolT.1, hAbs.1]; exact hlt
      rw [if_pos hv] at this; exact this
    · simp only [VLM.finiteVortex, elem_abs, elem_pi]; split_ifs <;> rfl

end C01AD
end OAS
