import OASProofs.Lemmas.Basic
import OASProofs.Lemmas.Real
import OASProofs.Generated.Formulas

/-!
# Translated formulas = model

`OASProofs/Generated/Formulas.lean` is produced on every run by the expression translator of `harness/generate.py`
from the *current* source of the `compute()` methods (one definition per assignment statement).  The theorems below
show that the model definitions the property theorems are about are built from exactly those expressions – so a
change of any of these formulas in the code breaks a proof obligation here, independently of the sampled
correspondence.  Proved over ℝ by ring normalisation: a harmless re-association or re-ordering in the source keeps
them true.
-/
set_option linter.unusedSectionVars false
set_option linter.unusedSimpArgs false
namespace OAS
namespace Formulas
open Generated

theorem dec_eq (a b : ℕ) : (dec a b : ℝ) = (a : ℝ) / (b : ℝ) := rfl

/-! ### C17: coefficients, totals, Breguet, equilibrium -/

theorem coeffs_CL1 (L rho v S : ℝ) : F.coeffs_CL1 L rho v S = coeff L rho v S := by
  simp only [F.coeffs_CL1, coeff, dec_eq]; norm_num

theorem coeffs_CDi (D rho v S : ℝ) : F.coeffs_CDi D rho v S = coeff D rho v S := by
  simp only [F.coeffs_CDi, coeff, dec_eq]; norm_num

theorem totalLift_CL (a b : ℝ) : F.totalLift_CL a b = totalLift a b := rfl

theorem totalDrag_CD (a b c d : ℝ) : F.totalDrag_CD a b c d = totalDrag a b c d := rfl

theorem breguet (ns : ℕ) (sm : ℕ → ℝ) (CT CL CD a R M W0 : ℝ) :
    F.breguet_fuelburn W0 (sumTo ns sm) R CT a M CD CL = breguetFuelburn ns sm CT CL CD a R M W0 := by
  simp only [F.breguet_fuelburn, breguetFuelburn]; norm_num

theorem equilibrium_weight (ns : ℕ) (sm : ℕ → ℝ) (fb W0 lf CL St v rho : ℝ) :
    F.equilibrium_totWeight (sumTo ns sm) fb W0 (gravConstant * lf) = (equilibrium ns sm fb W0 lf CL St v rho).2 := by
  simp only [F.equilibrium_totWeight, equilibrium]

theorem equilibrium_LW (ns : ℕ) (sm : ℕ → ℝ) (fb W0 lf CL St v rho : ℝ) :
    F.equilibrium_LW rho v St CL (F.equilibrium_totWeight (sumTo ns sm) fb W0 (gravConstant * lf))
      = (equilibrium ns sm fb W0 lf CL St v rho).1 := by
  simp only [F.equilibrium_LW, F.equilibrium_totWeight, equilibrium, dec_eq]; norm_num

/-- `TotalLiftDrag`: the four outputs are the code's four lines applied to the area-weighted sums -/
theorem totalLiftDrag_eq (ns : ℕ) (CL CD S : ℕ → ℝ) (rho v St : ℝ) :
    totalLiftDrag ns CL CD S rho v St
      = (F.tld_L (sumTo ns (fun s => CL s * S s)) rho v, F.tld_D (sumTo ns (fun s => CD s * S s)) rho v,
         F.tld_CL (sumTo ns (fun s => CL s * S s)) St, F.tld_CD (sumTo ns (fun s => CD s * S s)) St) := by
  simp only [totalLiftDrag, F.tld_L, F.tld_D, F.tld_CL, F.tld_CD, dec_eq]
  norm_num

theorem deg2rad_eq (a : ℝ) : F.cv_alpha a = deg2rad a := by
  simp only [F.cv_alpha, deg2rad, dec_eq]; norm_num

/-- `LiftCoeff2D`: the sectional lift coefficient is the code's `Cl` line applied to its `lift_dist`, `chord`, `alpha` lines -/
theorem liftCoeff2D_eq (nx : ℕ) (al rho v : ℝ) (Fc : ℕ → ℕ → V3 ℝ) (w c : ℕ → ℝ) (j : ℕ) :
    liftCoeff2D nx al rho v Fc w c j
      = F.lc2d_Cl (F.lc2d_lift_dist (V3.sumTo (nx - 1) (fun i => Fc i j)).x (Real.sin (F.lc2d_alpha al))
          (V3.sumTo (nx - 1) (fun i => Fc i j)).z (Real.cos (F.lc2d_alpha al)) (w j)) rho v (F.lc2d_chord (c (j + 1)) (c j)) := by
  have ha : F.lc2d_alpha al = deg2rad al := by simp only [F.lc2d_alpha, deg2rad, dec_eq]; norm_num
  rw [ha]
  simp only [liftCoeff2D, F.lc2d_Cl, F.lc2d_lift_dist, F.lc2d_chord, dec_eq, elem_sin, elem_cos]
  norm_num

end Formulas
end OAS
