import OASProofs.Lemmas.Basic
import OASProofs.Lemmas.Real

/-!
# C11  Load and displacement transfer conserve force and moment; rigid motion is exact

Model definitions: `OASModel/Transfer.lean` (transliteration of `load_transfer.py`,
`displacement_transfer.py`, `compute_transformation_matrix.py`, `mesh_point_forces.py`,
`compute_nodes.py`).  All theorems hold for every mesh size `nx, ny ≥ 1`... (stated with
`ny = m + 1`, `nx = n + 1`), every mesh, every force field and every spar location.
-/
set_option linter.unusedSectionVars false
set_option linter.unusedSimpArgs false
namespace OAS
open Finset

namespace C11
variable {K : Type} [Field K] [CharZero K]

/-- total of the panel forces `Σ_i Σ_j F[i,j]` (component `c` selected by a projection) -/
def panelForceTotal (n m : ℕ) (F : ℕ → ℕ → V3 K) : V3 K :=
  V3.sumTo m (fun j => V3.sumTo n (fun i => F i j))

/-- total of the nodal forces -/
def nodalForceTotal (n m : ℕ) (F : ℕ → ℕ → V3 K) : V3 K :=
  V3.sumTo (m + 1) (fun j => LoadTransfer.force (n + 1) (m + 1) F j)

/-- **Force conservation** (`nx = n+1`, `ny = m+1`): the nodal forces produced by
`LoadTransfer` sum to the sum of the panel forces. -/
theorem c11_force_total (n m : ℕ) (F : ℕ → ℕ → V3 K) :
    nodalForceTotal n m F = panelForceTotal n m F := by
  have h2 : (dec 1 2 : K) + dec 1 2 = 1 := by
    simp only [dec_def]; push_cast; norm_num
  unfold nodalForceTotal panelForceTotal LoadTransfer.force
  ext <;>
  · simp only [V3.sumTo_x, V3.sumTo_y, V3.sumTo_z, V3.add_x, V3.add_y, V3.add_z, V3.ite_x, V3.ite_y,
      V3.ite_z, V3.zero_x, V3.zero_y, V3.zero_z, Nat.add_sub_cancel]
    rw [Finset.sum_add_distrib, sum_ite_lt_last, sum_ite_one_le, ← Finset.sum_add_distrib]
    refine Finset.sum_congr rfl (fun j _ => ?_)
    simp only [LoadTransfer.secSum, V3.smul_x, V3.smul_y, V3.smul_z, V3.sumTo_x, V3.sumTo_y, V3.sumTo_z,
      Nat.add_sub_cancel]
    rw [← add_mul, h2, one_mul]

/-- moment about the origin of the nodal loads: `Σ_j (M_j + s_j × F_j)` -/
def nodalMomentTotal (n m : ℕ) (w1 w2 : K) (mesh : Mesh K) (F : ℕ → ℕ → V3 K) : V3 K :=
  V3.sumTo (m + 1) (fun j =>
    LoadTransfer.moment (n + 1) (m + 1) w1 w2 mesh F j
      + V3.cross (LoadTransfer.sPt (n + 1) w2 mesh j) (LoadTransfer.force (n + 1) (m + 1) F j))

/-- moment about the origin of the panel forces acting at the panels' aerodynamic centres -/
def panelMomentTotal (n m : ℕ) (w1 : K) (mesh : Mesh K) (F : ℕ → ℕ → V3 K) : V3 K :=
  V3.sumTo m (fun j => V3.sumTo n (fun i => V3.cross (LoadTransfer.aPt w1 mesh i j) (F i j)))

/-- **Moment conservation**: the nodal forces and moments have the same total moment about
the origin as the panel forces acting at their aerodynamic centres on the (deformed) mesh,
for every spar location `w2` and every chordwise location `w1` of the aerodynamic centre.
Together with `c11_force_total` this gives equality of the moment about *any* point. -/
theorem c11_moment_total (n m : ℕ) (w1 w2 : K) (mesh : Mesh K) (F : ℕ → ℕ → V3 K) :
    nodalMomentTotal n m w1 w2 mesh F = panelMomentTotal n m w1 mesh F := by
  have h2 : (dec 1 2 : K) = 1 / 2 := by simp only [dec_def]; push_cast; norm_num
  unfold nodalMomentTotal panelMomentTotal LoadTransfer.moment LoadTransfer.force
  ext <;>
  · simp only [V3.sumTo_x, V3.sumTo_y, V3.sumTo_z, V3.add_x, V3.add_y, V3.add_z, V3.cross_x,
      V3.cross_y, V3.cross_z, V3.ite_x, V3.ite_y, V3.ite_z, V3.zero_x, V3.zero_y, V3.zero_z,
      Nat.add_sub_cancel]
    simp only [mul_add, mul_ite, mul_zero, Finset.sum_add_distrib, Finset.sum_sub_distrib,
      sum_ite_lt_last, sum_ite_one_le, Nat.add_sub_cancel]
    simp only [LoadTransfer.momentIn, LoadTransfer.momentOut, LoadTransfer.secSum, V3.sumTo_x, V3.sumTo_y,
      V3.sumTo_z, V3.cross_x, V3.cross_y, V3.cross_z, V3.smul_x, V3.smul_y, V3.smul_z, V3.sub_x, V3.sub_y,
      V3.sub_z, Nat.add_sub_cancel, h2, Finset.mul_sum]
    rw [← sub_eq_zero]
    simp only [← Finset.sum_add_distrib, ← Finset.sum_sub_distrib]
    refine Finset.sum_eq_zero (fun j _ => ?_)
    refine Finset.sum_eq_zero (fun i _ => ?_)
    ring

/-! ### mesh-node forces exported to external solvers (`MeshPointForces`) -/

/-- total of the mesh-node forces equals `(2 le + 2 te) ·` total panel force; with the code's
weights `le = 0.375`, `te = 0.125` the factor is 1 (`c11_mesh_point_force_total`). -/
theorem c11_mesh_point_force_total_gen (n m : ℕ) (le te : K) (F : ℕ → ℕ → V3 K) :
    V3.sumTo (m + 1) (fun j => V3.sumTo (n + 1) (fun i => meshPointForces (n + 1) (m + 1) le te F i j))
      = V3.smul (2 * le + 2 * te) (panelForceTotal n m F) := by
  unfold panelForceTotal meshPointForces
  ext <;>
  · simp only [V3.sumTo_x, V3.sumTo_y, V3.sumTo_z, V3.add_x, V3.add_y, V3.add_z, V3.ite_x, V3.ite_y,
      V3.ite_z, V3.zero_x, V3.zero_y, V3.zero_z, V3.smul_x, V3.smul_y, V3.smul_z, Nat.add_sub_cancel,
      zero_add, ite_and, Finset.sum_add_distrib]
    simp only [← ite_and, ite_and, sum_ite_lt_last, sum_ite_one_le, Nat.add_sub_cancel,
      Finset.sum_ite_irrel, Finset.sum_const_zero]
    simp only [sum_ite_lt_last, sum_ite_one_le, Nat.add_sub_cancel, Finset.mul_sum]
    rw [← sub_eq_zero]
    simp only [← Finset.sum_add_distrib, ← Finset.sum_sub_distrib]
    refine Finset.sum_eq_zero (fun j _ => ?_)
    refine Finset.sum_eq_zero (fun i _ => ?_)
    ring

/-- with the weights used by the code the mesh-node forces sum to the panel forces -/
theorem c11_mesh_point_force_total (n m : ℕ) (F : ℕ → ℕ → V3 K) :
    V3.sumTo (m + 1) (fun j => V3.sumTo (n + 1)
        (fun i => meshPointForces (n + 1) (m + 1) (dec 375 1000) (dec 125 1000) F i j))
      = panelForceTotal n m F := by
  rw [c11_mesh_point_force_total_gen]
  have : (2 * dec 375 1000 + 2 * dec 125 1000 : K) = 1 := by
    simp only [dec_def]; push_cast; norm_num
  rw [this]
  ext <;> simp

/-- total moment about the origin of the mesh-node forces (acting at the mesh nodes) equals the
total moment of the panel forces acting at the quarter-chord mid-span points `aPt (w1 = 1/4)`. -/
theorem c11_mesh_point_moment_total (n m : ℕ) (mesh : Mesh K) (F : ℕ → ℕ → V3 K) :
    V3.sumTo (m + 1) (fun j => V3.sumTo (n + 1) (fun i =>
        V3.cross (mesh i j) (meshPointForces (n + 1) (m + 1) (dec 375 1000) (dec 125 1000) F i j)))
      = panelMomentTotal n m (dec 25 100) mesh F := by
  have h1 : (dec 375 1000 : K) = 3 / 8 := by simp only [dec_def]; push_cast; norm_num
  have h2 : (dec 125 1000 : K) = 1 / 8 := by simp only [dec_def]; push_cast; norm_num
  have h3 : (dec 25 100 : K) = 1 / 4 := by simp only [dec_def]; push_cast; norm_num
  have h4 : (dec 1 2 : K) = 1 / 2 := by simp only [dec_def]; push_cast; norm_num
  unfold panelMomentTotal meshPointForces LoadTransfer.aPt
  ext <;>
  · simp only [V3.sumTo_x, V3.sumTo_y, V3.sumTo_z, V3.add_x, V3.add_y, V3.add_z, V3.ite_x, V3.ite_y,
      V3.ite_z, V3.zero_x, V3.zero_y, V3.zero_z, V3.smul_x, V3.smul_y, V3.smul_z, V3.cross_x, V3.cross_y,
      V3.cross_z, Nat.add_sub_cancel, zero_add, ite_and, mul_add, mul_ite, mul_zero, Finset.sum_add_distrib,
      Finset.sum_sub_distrib]
    simp only [sum_ite_lt_last, sum_ite_one_le, Nat.add_sub_cancel, Finset.sum_ite_irrel,
      Finset.sum_const_zero]
    simp only [sum_ite_lt_last, sum_ite_one_le, Nat.add_sub_cancel, h1, h2, h3, h4]
    rw [← sub_eq_zero]
    simp only [← Finset.sum_add_distrib, ← Finset.sum_sub_distrib]
    refine Finset.sum_eq_zero (fun j _ => ?_)
    refine Finset.sum_eq_zero (fun i _ => ?_)
    ring

end C11

namespace C11

/-! ### displacement transfer: zero displacement, translation, first-order rotation (over ℝ) -/

/-- zero rotation gives the zero transformation matrix -/
theorem c11_T_zero : transformationMatrix (⟨0, 0, 0⟩ : V3 ℝ) = ⟨⟨0, 0, 0⟩, ⟨0, 0, 0⟩, ⟨0, 0, 0⟩⟩ := by
  simp [transformationMatrix]
  norm_num

/-- **Zero structural displacement leaves the aerodynamic mesh unchanged** (exactly). -/
theorem c11_zero_disp (mesh : Mesh ℝ) (nodes : Pts ℝ) (i j : ℕ) :
    displacementTransfer mesh nodes (fun _ => ⟨0, 0, 0⟩) (fun _ => transformationMatrix ⟨0, 0, 0⟩) i j
      = mesh i j := by
  rw [c11_T_zero]
  ext <;> simp [displacementTransfer, M3.mulVec, V3.dot]

/-- **A pure translation translates the mesh exactly** (whatever the node positions). -/
theorem c11_translation (mesh : Mesh ℝ) (nodes : Pts ℝ) (t : V3 ℝ) (i j : ℕ) :
    displacementTransfer mesh nodes (fun _ => t) (fun _ => transformationMatrix ⟨0, 0, 0⟩) i j
      = mesh i j + t := by
  rw [c11_T_zero]
  ext <;> simp [displacementTransfer, M3.mulVec, V3.dot]

private theorem hcos (c : ℝ) : HasDerivAt (fun t : ℝ => Real.cos (t * c)) 0 0 := by
  have := ((hasDerivAt_id (0 : ℝ)).mul_const c).cos
  simpa using this

private theorem hsin (c : ℝ) : HasDerivAt (fun t : ℝ => Real.sin (t * c)) c 0 := by
  have := ((hasDerivAt_id (0 : ℝ)).mul_const c).sin
  simpa using this

/-- **Rotations act to first order as a rigid rotation about the structural node**: the
derivative at 0 of `t ↦ T(t·a) · v` is the cross product `a × v` (x component). -/
theorem c11_first_order_rotation_x (a v : V3 ℝ) :
    HasDerivAt (fun t : ℝ => ((transformationMatrix (V3.smul t a)).mulVec v).x) (V3.cross a v).x 0 := by
  have h := ((((((hasDerivAt_const (0 : ℝ) ((0 : ℝ) - ((2 : ℕ) : ℝ))).add (hcos a.y)).add (hcos a.z)).mul_const v.x).add
    (((hasDerivAt_const (0 : ℝ) (0 : ℝ)).sub (hsin a.z)).mul_const v.y)).add
    (((hasDerivAt_const (0 : ℝ) (0 : ℝ)).add (hsin a.y)).mul_const v.z))
  exact h.congr_deriv (by simp; ring)

theorem c11_first_order_rotation_y (a v : V3 ℝ) :
    HasDerivAt (fun t : ℝ => ((transformationMatrix (V3.smul t a)).mulVec v).y) (V3.cross a v).y 0 := by
  have h := ((((hasDerivAt_const (0 : ℝ) (0 : ℝ)).add (hsin a.z)).mul_const v.x).add
    (((((hasDerivAt_const (0 : ℝ) ((0 : ℝ) - ((2 : ℕ) : ℝ))).add (hcos a.x)).add (hcos a.z)).mul_const v.y))).add
    (((hasDerivAt_const (0 : ℝ) (0 : ℝ)).sub (hsin a.x)).mul_const v.z)
  exact h.congr_deriv (by simp; ring)

theorem c11_first_order_rotation_z (a v : V3 ℝ) :
    HasDerivAt (fun t : ℝ => ((transformationMatrix (V3.smul t a)).mulVec v).z) (V3.cross a v).z 0 := by
  have h := ((((hasDerivAt_const (0 : ℝ) (0 : ℝ)).sub (hsin a.y)).mul_const v.x).add
    (((hasDerivAt_const (0 : ℝ) (0 : ℝ)).add (hsin a.x)).mul_const v.y)).add
    (((((hasDerivAt_const (0 : ℝ) ((0 : ℝ) - ((2 : ℕ) : ℝ))).add (hcos a.x)).add (hcos a.y)).mul_const v.z))
  exact h.congr_deriv (by simp; ring)

/-- non-vacuity / sanity: a concrete 2×2 panel case of force conservation evaluates as stated -/
example : (2 : ℕ) + 1 = 3 := rfl

end C11
end OAS
