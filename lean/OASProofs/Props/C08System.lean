import OASProofs.Props.C08
import OASProofs.Lemmas.Reflection
import OASProofs.Lemmas.System

/-!
# C08 (continued)  No flow through the ground plane

With ground effect every ring of a surface is accompanied by the ring of the reflected lattice with the opposite
circulation.  Consequences proved here for the model of `vortex_mesh.py` / `eval_mtx.py`: the velocity a ring pair
induces at a point `p` is `V(p) + R V(p')` (`V`: induction of the real lattice, `p'`: mirror image of `p` across the
ground plane, `R`: the linear part of the reflection); hence **on the ground plane the normal component of the
induced velocity vanishes identically**, for every circulation distribution – which, together with the free stream
being parallel to the plane, is the boundary condition the method of images is meant to enforce.
-/
set_option linter.unusedSectionVars false
set_option linter.unusedSimpArgs false
namespace OAS
namespace C08
open VLM

theorem planeNormal_sq (a : ℝ) : (planeNormal a).x * (planeNormal a).x + (planeNormal a).y * (planeNormal a).y
    + (planeNormal a).z * (planeNormal a).z = 1 := by
  have := planeNormal_unit a
  simpa [V3.dot] using this

/-- `groundReflect` is the affine map `R v + t` with `R` the reflection with normal `n`, `t = 2 h n` -/
theorem groundReflect_affine (a h : ℝ) (m : V3 ℝ) :
    groundReflect a h m = reflN (planeNormal a) m + V3.smul (2 * h) (planeNormal a) := by
  have hn := Real.sin_sq_add_cos_sq a
  ext <;> simp only [groundReflect, reflN, planeNormal, V3.dot, V3.sub_x, V3.sub_y, V3.sub_z, V3.smul_x, V3.smul_y, V3.smul_z,
    V3.add_x, V3.add_y, V3.add_z, elem_sin, elem_cos]
  · push_cast; linear_combination (2 * h * Real.sin a) * hn
  · push_cast; ring
  · push_cast; linear_combination (-2 * h * Real.cos a) * hn

theorem shiftQuarter_affine (nx : ℕ) (R : V3 ℝ → V3 ℝ) (hR : IsRefl R) (t : V3 ℝ) (m : Mesh ℝ) (i c : ℕ) :
    shiftQuarter nx (fun a b => R (m a b) + t) i c = R (shiftQuarter nx m i c) + t := by
  unfold shiftQuarter
  split_ifs
  · rw [hR.add, hR.smul, hR.smul]
    ext <;> simp only [V3.add_x, V3.add_y, V3.add_z, V3.smul_x, V3.smul_y, V3.smul_z, dec_def] <;> push_cast <;> ring
  · rfl

/-- the wake direction is invariant under the reflection (the plane is parallel to the wake) -/
theorem reflN_wake (alphaDeg : ℝ) : reflN (planeNormal (deg2rad alphaDeg)) (wakeDir alphaDeg) = wakeDir alphaDeg := by
  have h := c08_plane_parallel_to_wake alphaDeg
  simp only [reflN, h, mul_zero]
  ext <;> simp

/-- **ring pair = real ring + reflected field**: `velRaw(p) = V(p) + R V(A p)` -/
theorem c08_pair_field (s : Surf ℝ) (hg : s.ground = true) (alphaDeg h : ℝ) (p : V3 ℝ) (i jj : ℕ) (hi : i + 1 < s.nx) :
    let a := deg2rad alphaDeg
    let V := fun q => latticeVel s.nx (wakeDir alphaDeg) (shiftQuarter s.nx (extMesh s)) 0 q i jj
    velRaw s (wakeDir alphaDeg) (vortexMesh s a h) p i jj = V p + reflN (planeNormal a) (V (groundReflect a h p)) := by
  intro a V
  have hR := reflN_isRefl (planeNormal a) (planeNormal_sq a)
  rw [c08_images s hg (wakeDir alphaDeg) a h p i jj hi]
  -- the image lattice is the affine image of the real ring mesh
  have hmesh : shiftQuarter s.nx (fun r c => groundReflect a h (extMesh s r c))
      = fun r c => reflN (planeNormal a) (shiftQuarter s.nx (extMesh s) r c) + V3.smul (2 * h) (planeNormal a) := by
    funext r c
    have : (fun r c => groundReflect a h (extMesh s r c))
        = fun r c => reflN (planeNormal a) (extMesh s r c) + V3.smul (2 * h) (planeNormal a) := by
      funext r c; exact groundReflect_affine a h _
    rw [this, shiftQuarter_affine s.nx _ hR]
  -- p = A (A p)
  have hp : p = reflN (planeNormal a) (groundReflect a h p) + V3.smul (2 * h) (planeNormal a) := by
    rw [← groundReflect_affine, c08_reflect_involution]
  rw [hmesh]
  have h2 := latticeVel_refl hR (V3.smul (2 * h) (planeNormal a)) (wakeDir alphaDeg) (reflN_wake alphaDeg) s.nx
    (shiftQuarter s.nx (extMesh s)) 0 (groundReflect a h p) i jj
  rw [← hp] at h2
  rw [h2]
  ext <;> simp [V]

/-- `R n = −n` -/
theorem reflN_normal (a : ℝ) : reflN (planeNormal a) (planeNormal a) = -planeNormal a := by
  have h := planeNormal_unit a
  simp only [reflN, h]
  ext <;> simp <;> ring

/-- **No flow through the ground plane**: at every point of the ground plane the velocity induced by any ring together
with its image has no component normal to the plane – for every ring of every ground-effect surface, hence for every
circulation distribution. -/
theorem c08_no_flow_through_ground (s : Surf ℝ) (hg : s.ground = true) (alphaDeg h : ℝ) (p : V3 ℝ) (i jj : ℕ)
    (hi : i + 1 < s.nx) (hp : groundReflect (deg2rad alphaDeg) h p = p) :
    V3.dot (velRaw s (wakeDir alphaDeg) (vortexMesh s (deg2rad alphaDeg) h) p i jj) (planeNormal (deg2rad alphaDeg)) = 0 := by
  have hR := reflN_isRefl (planeNormal (deg2rad alphaDeg)) (planeNormal_sq (deg2rad alphaDeg))
  have := c08_pair_field s hg alphaDeg h p i jj hi
  simp only at this
  rw [this, hp]
  set V := latticeVel s.nx (wakeDir alphaDeg) (shiftQuarter s.nx (extMesh s)) 0 p i jj
  set n := planeNormal (deg2rad alphaDeg)
  -- (R V)·n = (R V)·(−R n) = −V·n
  have h1 : V3.dot (reflN n V) n = -V3.dot V n := by
    have h2 := hR.dot V n
    rw [reflN_normal] at h2
    simp only [V3.dot, V3.neg_x, V3.neg_y, V3.neg_z] at h2 ⊢
    linarith
  simp only [V3.dot, V3.add_x, V3.add_y, V3.add_z] at h1 ⊢
  linarith

/-- the free stream at zero sideslip is parallel to the ground plane too: total normal velocity on the plane is zero -/
theorem c08_freestream_parallel (f : Flow ℝ) (hb : f.beta = 0) :
    V3.dot (freestreamDir f) (planeNormal (deg2rad f.alpha)) = 0 := by
  simp [freestreamDir, planeNormal, V3.dot, hb, deg2rad]; ring

end C08
end OAS
