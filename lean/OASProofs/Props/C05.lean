import OASProofs.Lemmas.Kernel

/-!
# C05  The VLM solution satisfies flow tangency; panel forces follow Kutta–Joukowski;
# the kernel is the Biot–Savart law

Model: `OASModel/VLM.lean`.  Any list of surfaces, any mesh sizes.
-/
set_option linter.unusedSectionVars false
set_option linter.unusedSimpArgs false
namespace OAS
namespace C05
open VLM Finset

/-- `dot` is linear in its first argument over finite sums -/
theorem dot_sumTo (n : ℕ) (f : ℕ → V3 ℝ) (w : V3 ℝ) :
    V3.dot (V3.sumTo n f) w = ∑ k ∈ range n, V3.dot (f k) w := by
  simp only [V3.dot, V3.sumTo_x, V3.sumTo_y, V3.sumTo_z, Finset.sum_mul, ← Finset.sum_add_distrib]

/-- **Flow tangency.**  If the circulations `Γ` satisfy row `m` of the assembled system
`Σ_n mtx[m,n] Γ_n = rhs[m]` (which is what the linear solver returns), then at the collocation point
of panel `m` the normal component of
`free stream + rigid rotation + Σ_n Γ_n · (induction of ring n, with its trailing legs)` vanishes. -/
theorem c05_tangency (surfs : List (Surf ℝ)) (f : Flow ℝ) (gamma : ℕ → ℝ) (m : ℕ) (s : Surf ℝ) (i j : ℕ)
    (hloc : locate surfs m = some (s, i, j))
    (hsolve : ∑ n ∈ range (totalPanels surfs), aic surfs f m n * gamma n = rhs surfs f m) :
    V3.dot (onset f (collPt s i j)
        + V3.sumTo (totalPanels surfs) (fun n => V3.smul (gamma n) (influence surfs f (collPt s i j) n)))
      (normal s i j) = 0 := by
  have hd : ∀ a b w : V3 ℝ, V3.dot (a + b) w = V3.dot a w + V3.dot b w := by
    intro a b w; simp [V3.dot]; ring
  have hs : ∀ (c : ℝ) (a w : V3 ℝ), V3.dot (V3.smul c a) w = V3.dot a w * c := by
    intro c a w; simp [V3.dot]; ring
  rw [hd, dot_sumTo]
  simp only [hs]
  simp only [aic, rhs, hloc] at hsolve
  rw [hsolve]
  ring

/-- **Collocation points are the ¾-chord mid-span points, force points the ¼-chord mid-span points**
of each panel, and the bound vector is the bound segment of the quarter-chord-shifted ring mesh. -/
theorem c05_points (s : Surf ℝ) (i j : ℕ) :
    collPt s i j = V3.smul (1 / 4) (V3.smul (1 / 2) (s.mesh i j + s.mesh i (j + 1)))
        + V3.smul (3 / 4) (V3.smul (1 / 2) (s.mesh (i + 1) j + s.mesh (i + 1) (j + 1))) ∧
    forcePt s i j = V3.smul (3 / 4) (V3.smul (1 / 2) (s.mesh i j + s.mesh i (j + 1)))
        + V3.smul (1 / 4) (V3.smul (1 / 2) (s.mesh (i + 1) j + s.mesh (i + 1) (j + 1))) ∧
    boundVec s i j = (V3.smul (3 / 4) (s.mesh i j) + V3.smul (1 / 4) (s.mesh (i + 1) j))
        - (V3.smul (3 / 4) (s.mesh i (j + 1)) + V3.smul (1 / 4) (s.mesh (i + 1) (j + 1))) := by
  refine ⟨?_, ?_, ?_⟩ <;> ext <;> simp [collPt, forcePt, boundVec, dec_def] <;> push_cast <;> ring

/-- the force point lies on the bound segment of the ring mesh (its mid-point) -/
theorem c05_force_pt_on_bound_segment (s : Surf ℝ) (i j : ℕ) (h : i + 1 < s.nx) :
    forcePt s i j = V3.smul (1 / 2) (shiftQuarter s.nx s.mesh i j + shiftQuarter s.nx s.mesh i (j + 1)) := by
  ext <;> simp [forcePt, shiftQuarter, h, dec_def] <;> push_cast <;> ring

/-- **Horseshoe circulation = chordwise difference of the ring strengths** (first row: the ring itself) -/
theorem c05_horseshoe (surfs : List (Surf ℝ)) (gamma : ℕ → ℝ) (m : ℕ) (s : Surf ℝ) (i j : ℕ)
    (hloc : locate surfs m = some (s, i, j)) :
    horseshoe surfs gamma m = if 1 ≤ i then gamma m - gamma (m - (s.ny - 1)) else gamma m := by
  simp [horseshoe, hloc]

/-- **Kutta–Joukowski**: the panel force is `ρ Γ_hs (V × l)` with `V` the onset velocity plus the
induction of every ring at the quarter-chord force point, `l` the bound vector. -/
theorem c05_force (surfs : List (Surf ℝ)) (f : Flow ℝ) (gamma : ℕ → ℝ) (m : ℕ) (s : Surf ℝ) (i j : ℕ)
    (hloc : locate surfs m = some (s, i, j)) :
    panelForce surfs f gamma m
      = V3.smul (f.rho * horseshoe surfs gamma m)
          (V3.cross (onset f (collPt s i j)
              + V3.sumTo (totalPanels surfs) (fun n => V3.smul (gamma n) (influence surfs f (forcePt s i j) n)))
            (boundVec s i j)) := by
  simp [panelForce, forcePtVelocity, hloc]

/-! ### the finite-vortex kernel is the Biot–Savart law of a straight filament -/

theorem norm_mul_self (a : V3 ℝ) : V3.norm a * V3.norm a = V3.normSq a := by
  simp only [V3.norm, V3.normSq, elem_sqrt]
  exact Real.mul_self_sqrt (by nlinarith [mul_self_nonneg a.x, mul_self_nonneg a.y, mul_self_nonneg a.z])

/-- Lagrange identity -/
theorem lagrange (a b : V3 ℝ) :
    V3.normSq (V3.cross a b) = V3.normSq a * V3.normSq b - V3.dot a b * V3.dot a b := by
  simp [V3.normSq, V3.cross, V3.dot]; ring

/-- **The closed form used by the code equals the classical Biot–Savart expression**
`(r1 × r2)/|r1 × r2|² · (r0 · (r1/|r1| − r2/|r2|)) / 4π`, `r0 = r1 − r2`, wherever both are defined
(the point is off the line of the filament and the `tol` branch is taken). -/
theorem kernel_eq_biotSavart (r1 r2 : V3 ℝ) (h1 : V3.norm r1 ≠ 0) (h2 : V3.norm r2 ≠ 0)
    (hoff : V3.norm r1 * V3.norm r2 - V3.dot r1 r2 ≠ 0)
    (htol : tol < |V3.norm r1 * V3.norm r2 + V3.dot r1 r2|) :
    finiteVortex r1 r2
      = V3.smul (V3.dot (r1 - r2) (V3.smul (1 / V3.norm r1) r1 - V3.smul (1 / V3.norm r2) r2)
            / V3.normSq (V3.cross r1 r2) / (4 * Real.pi)) (V3.cross r1 r2) := by
  have hden : V3.norm r1 * V3.norm r2 + V3.dot r1 r2 ≠ 0 := by
    intro h; rw [h, abs_zero] at htol
    have : (0 : ℝ) < tol := by simp only [tol, dec_def]; positivity
    linarith
  unfold finiteVortex
  simp only [elem_abs, elem_pi]
  rw [if_pos htol]
  have hL := lagrange r1 r2
  rw [← norm_mul_self r1, ← norm_mul_self r2] at hL
  set n1 := V3.norm r1; set n2 := V3.norm r2; set d := V3.dot r1 r2
  have hfac : V3.normSq (V3.cross r1 r2) = (n1 * n2 - d) * (n1 * n2 + d) := by rw [hL]; ring
  have hnum : V3.dot (r1 - r2) (V3.smul (1 / n1) r1 - V3.smul (1 / n2) r2) = (1 / n1 + 1 / n2) * (n1 * n2 - d) := by
    have e1 : r1.x * r1.x + r1.y * r1.y + r1.z * r1.z = n1 * n1 := by
      rw [norm_mul_self]; simp [V3.normSq]
    have e2 : r2.x * r2.x + r2.y * r2.y + r2.z * r2.z = n2 * n2 := by
      rw [norm_mul_self]; simp [V3.normSq]
    have ed : d = r1.x * r2.x + r1.y * r2.y + r1.z * r2.z := rfl
    simp only [V3.dot, V3.sub_x, V3.sub_y, V3.sub_z, V3.smul_x, V3.smul_y, V3.smul_z]
    field_simp
    rw [ed]
    linear_combination n2 * e1 + n1 * e2
  have hpi : Real.pi ≠ 0 := Real.pi_ne_zero
  rw [hnum, hfac]
  ext <;> simp only [V3.smul_x, V3.smul_y, V3.smul_z] <;> push_cast <;> field_simp

/-- the Kutta–Joukowski force is perpendicular both to the local velocity (the panel does no work on the flow: all
drag of the method is induced drag from the tilt of the local velocity) and to the bound vortex -/
theorem c05_force_perpendicular (surfs : List (Surf ℝ)) (f : Flow ℝ) (gamma : ℕ → ℝ) (m : ℕ) (s : Surf ℝ) (i j : ℕ)
    (hloc : locate surfs m = some (s, i, j)) :
    V3.dot (panelForce surfs f gamma m) (forcePtVelocity surfs f gamma m) = 0 ∧
    V3.dot (panelForce surfs f gamma m) (boundVec s i j) = 0 := by
  simp only [panelForce, hloc]
  constructor <;> simp only [V3.dot, V3.smul_x, V3.smul_y, V3.smul_z, V3.cross_x, V3.cross_y, V3.cross_z] <;> ring

/-- **whole-system tangency**: if `Γ` solves the assembled system then at *every* collocation point of *every*
surface the onset velocity plus the velocity induced by all rings of all surfaces is tangent to the panel -/
theorem c05_tangency_everywhere (surfs : List (Surf ℝ)) (f : Flow ℝ) (gamma : ℕ → ℝ)
    (hs : ∀ m, m < totalPanels surfs → ∑ n ∈ range (totalPanels surfs), aic surfs f m n * gamma n = rhs surfs f m)
    (m : ℕ) (s : Surf ℝ) (i j : ℕ) (hloc : locate surfs m = some (s, i, j)) :
    V3.dot (onset f (collPt s i j)
      + V3.sumTo (totalPanels surfs) (fun n => V3.smul (gamma n) (influence surfs f (collPt s i j) n))) (normal s i j) = 0 := by
  have hm : m < totalPanels surfs := by
    by_contra hc
    have : ∀ (l : List (Surf ℝ)) (k : ℕ), ¬ k < totalPanels l → locate l k = none := by
      intro l
      induction l with
      | nil => intro k _; rfl
      | cons t rest ih =>
        intro k hk
        simp only [totalPanels, List.map_cons, List.sum_cons] at hk
        have h1 : ¬ k < t.npanels := by omega
        simp only [locate, h1, if_false]
        exact ih _ (by simp only [totalPanels]; omega)
    rw [this surfs m hc] at hloc; simp at hloc
  exact c05_tangency surfs f gamma m s i j hloc (hs m hm)

end C05
end OAS
