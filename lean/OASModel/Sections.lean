import OASModel.MeshGen
/-
  OASModel.Sections — transliteration of geometry/geometry_mesh_gen.py: generate_section_geometry (left wing from the root section
  outwards, right wing for full-span surfaces), output_oas_mesh.  Generator coordinates: `x` of a section is `[nx, ny]`, `y` is `[ny]`;
  `output_oas_mesh` reverses the chordwise order.
-/
namespace OAS
namespace Sections
section
variable {K : Type} [Add K] [Sub K] [Mul K] [Div K] [Neg K] [Zero K] [One K] [NatCast K] [Elem K]

/-- the data the user gives per section -/
structure Spec (K : Type) where
  ny : Nat
  taper : K
  span : K
  sweep : K

/-- one generated section: `x[i, j]` and `y[j]` -/
structure Geo (K : Type) where
  ny : Nat
  x : Nat → Nat → K
  y : Nat → K

/-- absolute value as the code's `np.abs` -/
def chordOf (g : Geo K) (nx j : Nat) : K := Elem.abs (g.x 0 j - g.x (nx - 1) j)

/-- a left-wing section (also the root section) from the chord, trailing-edge `x` and `y` of its inboard edge -/
def leftSection (nx : Nat) (s : Spec K) (rootC rootTe rootY : K) : Geo K :=
  let tipC := rootC * s.taper
  let rootLe := rootC + rootTe
  let tipLe := rootLe - s.span * Elem.tan s.sweep
  let tipTe := tipLe - tipC
  let rootX := MeshGen.linspace rootLe rootTe nx
  let tipX := MeshGen.linspace tipLe tipTe nx
  let y := MeshGen.linspace (rootY - s.span) rootY s.ny
  ⟨s.ny, fun i j => rootX i - ((tipX i - rootX i) / s.span) * (y j - rootY), y⟩

/-- a right-wing section of a full-span surface (after the repair F16) from the data of its inboard edge -/
def rightSection (nx : Nat) (s : Spec K) (rootC rootTe rootY : K) : Geo K :=
  let tipC := rootC * s.taper
  let rootLe := rootC + rootTe
  let tipLe := rootLe + s.span * Elem.tan s.sweep
  let tipTe := tipLe - tipC
  let rootX := MeshGen.linspace rootLe rootTe nx
  let tipX := MeshGen.linspace tipLe tipTe nx
  let y := MeshGen.linspace rootY (rootY + s.span) s.ny
  ⟨s.ny, fun i j => rootX i + ((tipX i - rootX i) / s.span) * (y j - rootY), y⟩

/-- the left wing: sections listed from the root section outwards; each starts at the outboard edge (column 0) of the previous one -/
def leftWing (nx : Nat) : List (Spec K) → K → K → K → List (Geo K)
  | [], _, _, _ => []
  | s :: rest, rootC, rootTe, rootY =>
    let g := leftSection nx s rootC rootTe rootY
    g :: leftWing nx rest (chordOf g nx 0) (g.x (nx - 1) 0) (g.y 0)

/-- the right wing: sections listed from the root outwards; each starts at the outboard edge (last column) of the previous one -/
def rightWing (nx : Nat) : List (Spec K) → K → K → K → List (Geo K)
  | [], _, _, _ => []
  | s :: rest, rootC, rootTe, rootY =>
    let g := rightSection nx s rootC rootTe rootY
    g :: rightWing nx rest (chordOf g nx (s.ny - 1)) (g.x (nx - 1) (s.ny - 1)) (g.y (s.ny - 1))

/-- `output_oas_mesh`: chordwise order reversed, `z = 0` -/
def oasMesh (nx : Nat) (g : Geo K) : Mesh K := fun i j => ⟨g.x (nx - 1 - i) j, g.y j, 0⟩

/-- `generate_section_geometry`: all sections in the order of the user's lists (`root` = index of the root section; for a symmetric
surface the root section is the last one and there is no right wing) -/
def generate (nx : Nat) (sym : Bool) (root : Nat) (specs : List (Spec K)) (rootChord : K) : List (Geo K) :=
  let left := leftWing nx ((specs.take (root + 1)).reverse) rootChord 0 0
  match left with
  | [] => []
  | g0 :: _ =>
    if sym then left.reverse
    else left.reverse ++ rightWing nx (specs.drop (root + 1)) (chordOf g0 nx (g0.ny - 1)) (g0.x (nx - 1) (g0.ny - 1)) (g0.y (g0.ny - 1))

end
end Sections
end OAS
