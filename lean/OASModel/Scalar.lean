/-
  OASModel.Scalar — the scalar vocabulary of the executable model.

  Every model definition is polymorphic in the scalar type `K` and only uses the core
  arithmetic classes plus `Elem` (elementary functions).  The same term is instantiated at
  `Float` (driver / correspondence), at `Dual Float` (forward-mode derivative oracle) and at
  `ℝ` or an arbitrary field (theorems, in OASProofs).  No Mathlib import here.
-/
namespace OAS

/-- Elementary functions used by OpenAeroStruct (numpy names in comments). -/
class Elem (K : Type) where
  sqrt : K → K        -- np.sqrt
  sin  : K → K        -- np.sin
  cos  : K → K        -- np.cos
  tan  : K → K        -- np.tan
  exp  : K → K        -- np.exp
  log  : K → K        -- np.log (natural)
  rpow : K → K → K    -- x ** y with real exponent
  abs  : K → K        -- np.abs
  atan : K → K        -- np.arctan
  acos : K → K        -- np.arccos
  pi   : K            -- np.pi

instance : NatCast Float := ⟨Float.ofNat⟩

instance : Elem Float where
  sqrt := Float.sqrt
  sin := Float.sin
  cos := Float.cos
  tan := Float.tan
  exp := Float.exp
  log := Float.log
  rpow := Float.pow
  abs := Float.abs
  atan := Float.atan
  acos := Float.acos
  pi := 3.141592653589793

section
variable {K : Type} [Div K] [NatCast K]

/-- decimal literal `num/den`, e.g. `dec 1328 1000` for `1.328`.  At `Float` the correctly
rounded quotient of two exactly representable integers equals the literal. -/
def dec (num den : Nat) : K := (num : K) / (den : K)

end

section
variable {K : Type} [Zero K] [Add K]

/-- `sumTo n f = f 0 + … + f (n-1)` (left to right). -/
def sumTo : Nat → (Nat → K) → K
  | 0, _ => 0
  | n + 1, f => sumTo n f + f n

end

section
variable {K : Type} [Mul K]
def sq (a : K) : K := a * a
end

end OAS
