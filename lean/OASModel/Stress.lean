import OASModel.Vec3
import OASModel.StructLoads
/-
  OASModel.Stress — transliteration of
    structures/vonmises_tube.py, vonmises_wingbox.py, failure_ks.py, failure_exact.py,
    section_properties_tube.py, non_intersecting_thickness.py, energy.py
-/
namespace OAS
section
variable {K : Type} [Add K] [Sub K] [Mul K] [Div K] [Neg K] [Zero K] [One K] [NatCast K]

section frame
variable [Elem K]
/-- `unit(v) = v / norm(v)` -/
def V3.unit (v : V3 K) : V3 K := let n := V3.norm v; ⟨v.x / n, v.y / n, v.z / n⟩

/-- local element triad used by the stress recovery (`x_gl = (1,0,0)`):
`x_loc = unit(P1-P0)`, `y_loc = unit(x_loc × x_gl)`, `z_loc = unit(x_loc × y_loc)` -/
def elemFrame (P0 P1 : V3 K) : M3 K :=
  let xl := V3.unit (P1 - P0)
  let yl := V3.unit (V3.cross xl ⟨1, 0, 0⟩)
  let zl := V3.unit (V3.cross xl yl)
  ⟨xl, yl, zl⟩
end frame

/-- nodal displacement: translation `u` and rotation `r` (one row of `disp[ny,6]`) -/
structure Disp (K : Type) where
  u : V3 K
  r : V3 K

/-- `VonMisesTube.compute` for element `e`: the two von Mises stresses -/
def vonMisesTube [Elem K] (E G : K) (nodes : Pts K) (radius : Nat → K) (disp : Nat → Disp K) (e : Nat) : K × K :=
  let P0 := nodes e; let P1 := nodes (e + 1)
  let L := V3.norm (P1 - P0)
  let T := elemFrame P0 P1
  let u0 := T.mulVec (disp e).u; let r0 := T.mulVec (disp e).r
  let u1 := T.mulVec (disp (e + 1)).u; let r1 := T.mulVec (disp (e + 1)).r
  let tmp := Elem.sqrt ((r1.y - r0.y) * (r1.y - r0.y) + (r1.z - r0.z) * (r1.z - r0.z))
  let sxx0 := E * (u1.x - u0.x) / L + E * radius e / L * tmp
  let sxx1 := E * (u0.x - u1.x) / L + E * radius e / L * tmp
  let sxt := G * radius e * (r1.x - r0.x) / L
  (Elem.sqrt (sxx0 * sxx0 + ((3 : Nat) : K) * (sxt * sxt)), Elem.sqrt (sxx1 * sxx1 + ((3 : Nat) : K) * (sxt * sxt)))

/-- per-element wingbox section data -/
structure WingboxSec (K : Type) where
  Qz : K
  J : K
  Aenc : K
  tspar : K
  htop : K
  hbottom : K
  hfront : K
  hrear : K

/-- `VonMisesWingbox.compute` for element `e`: the four von Mises stresses -/
def vonMisesWingbox [Elem K] (E G tssf : K) (nodes : Pts K) (sec : Nat → WingboxSec K) (disp : Nat → Disp K) (e : Nat) :
    K × K × K × K :=
  let P0 := nodes e; let P1 := nodes (e + 1)
  let L := V3.norm (P1 - P0)
  let T := elemFrame P0 P1
  let u0 := T.mulVec (disp e).u; let r0 := T.mulVec (disp e).r
  let u1 := T.mulVec (disp (e + 1)).u; let r1 := T.mulVec (disp (e + 1)).r
  let s := sec e
  let n2 : K := ((2 : Nat) : K); let n4 : K := ((4 : Nat) : K); let n6 : K := ((6 : Nat) : K); let n12 : K := ((12 : Nat) : K)
  let axial := E * (u1.x - u0.x) / L
  let torsion := G * s.J / L * (r1.x - r0.x) / n2 / s.tspar / s.Aenc
  let kz := n6 * u0.y + n2 * r0.z * L - n6 * u1.y + n4 * r1.z * L
  let ky := -n6 * u0.z + n2 * r0.y * L + n6 * u1.z + n4 * r1.y * L
  let top := E / (L * L) * kz * s.htop
  let bottom := -E / (L * L) * kz * s.hbottom
  let front := -E / (L * L) * ky * s.hfront
  let rear := E / (L * L) * ky * s.hrear
  let vshear := E / (L * L * L) * (-n12 * u0.y - n6 * r0.z * L + n12 * u1.y - n6 * r1.z * L) * s.Qz / (n2 * s.tspar)
  let n3 : K := ((3 : Nat) : K)
  ( Elem.sqrt ((top + rear + axial) * (top + rear + axial) + n3 * (torsion * torsion)) / tssf,
    Elem.sqrt ((bottom + front + axial) * (bottom + front + axial) + n3 * (torsion * torsion)),
    Elem.sqrt ((front + axial) * (front + axial) + n3 * ((torsion - vshear) * (torsion - vshear))),
    Elem.sqrt ((rear + axial) * (rear + axial) + n3 * ((torsion + vshear) * (torsion + vshear))) / tssf )

/-- `FailureExact.compute` -/
def failureExact (sigma : K) (vm : K) : K := vm / sigma - 1

section ks
variable [LT K] [DecidableLT K]
/-- maximum of `f 0 … f n` (`n+1` entries) -/
def maxUpTo : Nat → (Nat → K) → K
  | 0, f => f 0
  | n + 1, f => if maxUpTo n f < f (n + 1) then f (n + 1) else maxUpTo n f

/-- `FailureKS.compute` on `n+1` stresses: `fmax + 1/rho * log(Σ exp(rho * (vm/σ − 1 − fmax)))` -/
def failureKS [Elem K] (n : Nat) (sigma rho : K) (vm : Nat → K) : K :=
  let fmax := maxUpTo n (fun i => vm i / sigma - 1)
  fmax + 1 / rho * Elem.log (sumTo (n + 1) (fun i => Elem.exp (rho * (vm i / sigma - 1 - fmax))))
end ks

/-- `SectionPropertiesTube.compute`: `(A, Iy, Iz, J)` -/
def sectionPropertiesTube [Elem K] (radius thickness : K) : K × K × K × K :=
  let r1 := radius - thickness; let r2 := radius
  let p4 := fun (x : K) => x * x * (x * x)
  (Elem.pi * (r2 * r2 - r1 * r1), Elem.pi * (p4 r2 - p4 r1) / ((4 : Nat) : K),
   Elem.pi * (p4 r2 - p4 r1) / ((4 : Nat) : K), Elem.pi * (p4 r2 - p4 r1) / ((2 : Nat) : K))

def nonIntersectingThickness (thickness radius : K) : K := thickness - radius

/-- `Energy.compute`: `Σ disp * loads` over the flattened `[ny,6]` arrays -/
def energy (n : Nat) (disp loads : Nat → K) : K := sumTo n (fun i => disp i * loads i)

end
end OAS
