/-
  OASModel.Validate — decision logic of the set-up checks (C20):
    geometry/utils.py: generate_mesh                     (even num_y, unknown wing type)
    aerodynamics/vortex_mesh.py: VortexMesh.setup        (ground effect without symmetry)
    structures/struct_groups.py, integration/aerostruct_groups.py (fem_model_type, wingbox thickness pair)
    geometry/geometry_group.py: build_sections           (per-section list lengths)
    utils/check_surface_dict.py                          (unknown keys → warning)
-/
namespace OAS
namespace Validate

inductive Outcome where
  | ok
  | valueError
  | nameError
deriving DecidableEq, Repr

def Outcome.code : Outcome → Nat
  | .ok => 0
  | .valueError => 1
  | .nameError => 2

/-- `generate_mesh`: `num_y` must be odd (checked first), the wing type must be `rect` or contain `CRM` -/
def generateMesh (numY : Nat) (isRect hasCRM : Bool) : Outcome :=
  if numY % 2 = 0 then .valueError else if isRect || hasCRM then .ok else .nameError

/-- `VortexMesh.setup`: ground effect requires symmetry -/
def groundEffect (ground sym : Bool) : Outcome := if ground && !sym then .valueError else .ok

/-- `fem_model_type`: 0 = tube, 1 = wingbox, anything else unknown; wingbox needs both or none of the two
thickness distributions -/
def structModel (fem : Nat) (hasSkin hasSpar : Bool) : Outcome :=
  if fem = 0 then .ok
  else if fem = 1 then (if hasSkin && hasSpar then .ok else if hasSkin || hasSpar then .nameError else .ok)
  else .nameError

/-- `build_sections`: every per-section list must have `num_sections` entries.  With generated meshes `ny`, `taper`,
`span`, `sweep` are checked before the meshes are generated; with user-provided meshes the list of meshes is; then the
section names; then every list-valued per-section key of the dictionary (`taper`, `span`, `sweep` here; `ny` is only
read by the mesh generator). -/
def sections (num : Nat) (genMeshes : Bool) (lenNy lenTaper lenSpan lenSweep lenMeshes lenNames : Nat) : Outcome :=
  if genMeshes then
    if lenNy ≠ num then .valueError else if lenTaper ≠ num then .valueError else if lenSpan ≠ num then .valueError
    else if lenSweep ≠ num then .valueError else if lenNames ≠ num then .valueError else .ok
  else
    if lenMeshes ≠ num then .valueError else if lenNames ≠ num then .valueError
    else if lenTaper ≠ num then .valueError else if lenSpan ≠ num then .valueError
    else if lenSweep ≠ num then .valueError else .ok

/-- `check_surface_dict_keys`: a key that is not in the implemented list produces a warning -/
def warns (implemented : List String) (key : String) : Bool := !implemented.contains key

end Validate
end OAS
