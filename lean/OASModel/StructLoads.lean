import OASModel.Vec3
/-
  OASModel.StructLoads — transliteration of
    structures/weight.py, structural_cg.py, wing_weight_loads.py, fuel_loads.py,
    wingbox_fuel_vol_delta.py, compute_point_mass_loads.py, compute_thrust_loads.py,
    total_loads.py, utils/constants.py
  `nodes : Pts K` has `ny` nodes; element `e` joins node `e` and node `e+1`.
-/
namespace OAS

/-- a nodal load: force (N) and moment (N·m), one row of a `[ny, 6]` array -/
structure Load (K : Type) where
  f : V3 K
  m : V3 K

section
variable {K : Type} [Add K] [Sub K] [Mul K] [Div K] [Neg K] [Zero K] [One K] [NatCast K]

instance : Add (Load K) := ⟨fun a b => ⟨a.f + b.f, a.m + b.m⟩⟩
instance : Zero (Load K) := ⟨⟨0, 0⟩⟩

/-- `utils/constants.py: grav_constant = 9.80665` -/
def gravConstant : K := dec 980665 100000

/-- element vector `nodes[e+1] - nodes[e]` -/
def elemDelta (nodes : Pts K) (e : Nat) : V3 K := nodes (e + 1) - nodes e

/-- element mid-point `(nodes[e+1] + nodes[e]) / 2` -/
def elemCenter (nodes : Pts K) (e : Nat) : V3 K :=
  let s := nodes (e + 1) + nodes e
  ⟨s.x / ((2 : Nat) : K), s.y / ((2 : Nat) : K), s.z / ((2 : Nat) : K)⟩

variable [Elem K]

/-- `norm(nodes[1:] - nodes[:-1], axis=1)` -/
def elemLength (nodes : Pts K) (e : Nat) : K := V3.norm (elemDelta nodes e)

/-- `Weight.compute`: `element_mass` -/
def elementMass (mrho wwr : K) (nodes : Pts K) (A : Nat → K) (e : Nat) : K :=
  elemLength nodes e * A e * mrho * wwr

/-- `Weight.compute`: `structural_mass` -/
def structuralMass (ny : Nat) (sym : Bool) (mrho wwr : K) (nodes : Pts K) (A : Nat → K) : K :=
  let w := sumTo (ny - 1) (elementMass mrho wwr nodes A)
  if sym then w * ((2 : Nat) : K) else w

omit [Elem K] in
/-- `StructuralCG.compute` -/
def structuralCG (ny : Nat) (sym : Bool) (nodes : Pts K) (structMass : K) (elemMass : Nat → K) : V3 K :=
  let c : V3 K := ⟨sumTo (ny - 1) (fun e => (elemCenter nodes e).x * elemMass e) / structMass,
                   sumTo (ny - 1) (fun e => (elemCenter nodes e).y * elemMass e) / structMass,
                   sumTo (ny - 1) (fun e => (elemCenter nodes e).z * elemMass e) / structMass⟩
  if sym then ⟨c.x * ((2 : Nat) : K), 0 * ((2 : Nat) : K), c.z * ((2 : Nat) : K)⟩ else c

/-- the element → node accumulation shared by the weight and fuel loads:
`loads[:-1, 2] -= zf; loads[1:, 2] -= zf; loads[:-1, 3] -= bm3; loads[1:, 3] += bm3; …[4] bm4` -/
def distributedLoads (ny : Nat) (zf bm3 bm4 : Nat → K) (j : Nat) : Load K :=
  let inn (g : Nat → K) : K := if j < ny - 1 then g j else 0
  let out (g : Nat → K) : K := if 1 ≤ j then g (j - 1) else 0
  { f := ⟨0, 0, 0 - inn zf - out zf⟩
    m := ⟨0 - inn bm3 + out bm3, 0 - inn bm4 + out bm4, 0⟩ }

/-- `StructureWeightLoads.compute` -/
def structWeightLoads (ny : Nat) (nodes : Pts K) (elemMass : Nat → K) (loadFactor : K) : Nat → Load K :=
  let W : Nat → K := fun e => elemMass e * loadFactor * gravConstant
  let d := elemDelta nodes
  let zm : Nat → K := fun e => W e / ((12 : Nat) : K) * Elem.sqrt ((d e).x * (d e).x + (d e).y * (d e).y)
  distributedLoads ny (fun e => W e / ((2 : Nat) : K))
    (fun e => zm e * (d e).y / elemLength nodes e)
    (fun e => zm e * (d e).x / elemLength nodes e)

/-- `FuelLoads.compute` -/
def fuelWeight (sym : Bool) (fuelMass reserve loadFactor : K) : K :=
  let w := (fuelMass + reserve) * gravConstant * loadFactor
  if sym then w / ((2 : Nat) : K) else w

def fuelLoads (ny : Nat) (sym : Bool) (nodes : Pts K) (vols : Nat → K) (fuelMass reserve loadFactor : K) :
    Nat → Load K :=
  let fw := fuelWeight sym fuelMass reserve loadFactor
  let sumVols := sumTo (ny - 1) vols
  let zw : Nat → K := fun e => vols e * fw / sumVols
  let d := elemDelta nodes
  let L := elemLength nodes
  let zm : Nat → K := fun e =>
    zw e * L e / ((12 : Nat) : K) * Elem.sqrt ((d e).x * (d e).x + (d e).y * (d e).y) / L e
  distributedLoads ny (fun e => zw e / ((2 : Nat) : K))
    (fun e => zm e * (d e).y / L e)
    (fun e => zm e * (d e).x / L e)

omit [Elem K] in
/-- `WingboxFuelVolDelta.compute` -/
def fuelVolDelta (ny : Nat) (sym : Bool) (vols : Nat → K) (fuelburn reserve fuelDensity : K) : K :=
  let fw := if sym then fuelburn / ((2 : Nat) : K) else fuelburn
  let rs := if sym then reserve / ((2 : Nat) : K) else reserve
  sumTo (ny - 1) vols - (fw + rs) / fuelDensity

omit [Elem K] in
/-- `x ** 10` -/
def pow10 (x : K) : K := let x2 := x * x; let x4 := x2 * x2; x4 * x4 * x2

omit [Elem K] in
/-- `inv_dist10 = 1 / (span_dist**10 + 1e-10)` for node `j` and a point at `loc` -/
def invDist10 (nodes : Pts K) (loc : V3 K) (j : Nat) : K :=
  1 / (pow10 (loc.y - (nodes j).y) + dec 1 10000000000)

omit [Elem K] in
/-- `nodal_weightings[idx, j]` -/
def nodalWeighting (ny : Nat) (nodes : Pts K) (loc : V3 K) (j : Nat) : K :=
  invDist10 nodes loc j / sumTo ny (invDist10 nodes loc)

omit [Elem K] in
/-- loads of a set of point loads `dir * mag p` distributed to the nodes by `nodalWeighting`,
with moments `cross(loc - node, force)`; shared by point-mass and thrust loads -/
def pointLoads (ny np : Nat) (nodes : Pts K) (locs : Pts K) (force : Nat → Nat → V3 K) (j : Nat) : Load K :=
  { f := V3.sumTo np (fun p => force p j)
    m := V3.sumTo np (fun p => V3.cross (locs p - nodes j) (force p j)) }

omit [Elem K] in
/-- `ComputePointMassLoads.compute` -/
def pointMassLoads (ny np : Nat) (nodes : Pts K) (locs : Pts K) (masses : Nat → K) (loadFactor : K) :
    Nat → Load K :=
  pointLoads ny np nodes locs (fun p j =>
    let w := nodalWeighting ny nodes (locs p) j
    ⟨w * 0 * gravConstant * loadFactor * masses p, w * 0 * gravConstant * loadFactor * masses p,
     w * (-1) * gravConstant * loadFactor * masses p⟩)

omit [Elem K] in
/-- `ComputeThrustLoads.compute` -/
def thrustLoads (ny np : Nat) (nodes : Pts K) (locs : Pts K) (thrusts : Nat → K) : Nat → Load K :=
  pointLoads ny np nodes locs (fun p j =>
    let w := nodalWeighting ny nodes (locs p) j
    ⟨w * (-1) * thrusts p, w * 0 * thrusts p, w * 0 * thrusts p⟩)

omit [Elem K] in
/-- `TotalLoads.compute` -/
def totalLoads (relief fuel pm : Bool) (loads sw fw pml tl : Nat → Load K) (j : Nat) : Load K :=
  let t := loads j
  let t := if relief then t + sw j else t
  let t := if fuel then t + fw j else t
  if pm then t + pml j + tl j else t

end
end OAS
