import OASModel.Vec3
import OASModel.StructLoads
/-
  OASModel.FEM — transliteration of the beam finite-element chain
    structures/length.py, transform.py, local_stiff.py, local_stiff_permuted.py,
    local_stiff_transformed.py, fem.py (assemble_CSC_K, residual), create_rhs.py, disp.py
  Matrices are functions `Nat → Nat → K` (row, column).
-/
namespace OAS
namespace FEM
section
variable {K : Type} [Add K] [Sub K] [Mul K] [Div K] [Neg K] [Zero K] [One K] [NatCast K]

/-- an integer coefficient as a scalar -/
def ofInt (z : Int) : K := if z < 0 then -((z.natAbs : Nat) : K) else ((z.natAbs : Nat) : K)

/-- `coeffs_2`, `coeffs_y`, `coeffs_z` of local_stiff.py -/
def coeffs2 : List (List Int) := [[1, -1], [-1, 1]]
def coeffsY : List (List Int) := [[12, -6, -12, -6], [-6, 4, 6, 2], [-12, 6, 12, 6], [-6, 2, 6, 4]]
def coeffsZ : List (List Int) := [[12, 6, -12, 6], [6, 4, -6, 2], [-12, -6, 12, -6], [6, 2, -6, 4]]

def tab (t : List (List Int)) (i j : Nat) : Int := (t.getD i []).getD j 0

/-- `LocalStiff.compute`: 12×12 element matrix in the component's own DOF order
`(u1 u2 | θx1 θx2 | w, θ bending about y | v, θ bending about z)` -/
def localStiff (E G A Iy Iz J L : K) (r c : Nat) : K :=
  let odd := fun (k : Nat) => k = 1 ∨ k = 3
  let lp := fun (i j : Nat) (x : K) => (if odd i then (if odd j then x * L * L else x * L) else (if odd j then x * L else x))
  if r < 2 ∧ c < 2 then E * A / L * ofInt (tab coeffs2 r c)
  else if 2 ≤ r ∧ r < 4 ∧ 2 ≤ c ∧ c < 4 then G * J / L * ofInt (tab coeffs2 (r - 2) (c - 2))
  else if 4 ≤ r ∧ r < 8 ∧ 4 ≤ c ∧ c < 8 then lp (r - 4) (c - 4) (E * Iy / (L * L * L) * ofInt (tab coeffsY (r - 4) (c - 4)))
  else if 8 ≤ r ∧ r < 12 ∧ 8 ≤ c ∧ c < 12 then lp (r - 8) (c - 8) (E * Iz / (L * L * L) * ofInt (tab coeffsZ (r - 8) (c - 8)))
  else 0

/-- `col_indices` of local_stiff_permuted.py: `mtx[r, perm r] = 1` -/
def perm : List Nat := [0, 6, 3, 9, 2, 4, 8, 10, 1, 5, 7, 11]
def permOf (r : Nat) : Nat := perm.getD r 0
/-- inverse permutation -/
def permInv (j : Nat) : Nat := (perm.findIdx? (· == j)).getD 0

/-- `LocalStiffPermuted.compute`: `mtxᵀ K mtx`, i.e. `out[perm l, perm m] = K[l, m]` -/
def permuted (Kl : Nat → Nat → K) (j k : Nat) : K := Kl (permInv j) (permInv k)

/-- `Transform.compute`: the 3×3 direction-cosine block (rows `row0,row1,row2`); the 12×12 transform is
block diagonal with four copies -/
def triad [Elem K] (P0 P1 : V3 K) : M3 K :=
  let d := P1 - P0
  let n := V3.norm d
  let r0 : V3 K := ⟨d.x / n, d.y / n, d.z / n⟩
  let c := V3.cross r0 ⟨1, 0, 0⟩
  let nc := V3.norm c
  let r1 : V3 K := ⟨c.x / nc, c.y / nc, c.z / nc⟩
  ⟨r0, r1, V3.cross r0 r1⟩

def m3get (m : M3 K) (i j : Nat) : K := V3.get (if i = 0 then m.r0 else if i = 1 then m.r1 else m.r2) j

/-- 12×12 block-diagonal transform -/
def transform12 (R : M3 K) (r c : Nat) : K := if r / 3 = c / 3 then m3get R (r % 3) (c % 3) else 0

/-- `LocalStiffTransformed.compute`: `Tᵀ Kp T` -/
def transformed (T Kp : Nat → Nat → K) (j k : Nat) : K :=
  sumTo 12 (fun l => sumTo 12 (fun m => T l j * Kp l m * T m k))

/-- `FEM.assemble_CSC_K`: scatter of the element matrices plus the `1e9` constraint rows/columns that clamp
node `idx` (`ny − 1` for a symmetric surface, `(ny − 1) / 2` otherwise); size `6 ny + 6` -/
def assembleK (ny idx : Nat) (kloc : Nat → Nat → Nat → K) (r c : Nat) : K :=
  let body := sumTo (ny - 1) (fun e =>
    if 6 * e ≤ r ∧ r < 6 * e + 12 ∧ 6 * e ≤ c ∧ c < 6 * e + 12 ∧ r < 6 * ny ∧ c < 6 * ny then kloc e (r - 6 * e) (c - 6 * e) else 0)
  let big : K := ((1000000000 : Nat) : K)
  let con := if (6 * ny ≤ c ∧ c < 6 * ny + 6 ∧ r = 6 * idx + (c - 6 * ny)) ∨ (6 * ny ≤ r ∧ r < 6 * ny + 6 ∧ c = 6 * idx + (r - 6 * ny))
    then big else 0
  body + con

/-- clamped node index -/
def clampIndex (ny : Nat) (sym : Bool) : Nat := if sym then ny - 1 else (ny - 1) / 2

/-- residual of `FEM.apply_nonlinear`: `K u − f` -/
def residual (n : Nat) (Kmat : Nat → Nat → K) (u f : Nat → K) (r : Nat) : K := sumTo n (fun c => Kmat r c * u c) - f r

/-- `CreateRHS.compute`: loads followed by six zeros, entries below `1e-6` in magnitude zeroed -/
def createRHS [Elem K] [LT K] [DecidableLT K] (ny : Nat) (loads : Nat → K) (r : Nat) : K :=
  let v := if r < 6 * ny then 0 + loads r else 0
  if Elem.abs v < dec 1 1000000 then 0 else v

/-- the whole element-matrix chain for element `e` -/
def elementK [Elem K] (E G : K) (nodes : Pts K) (A Iy Iz J : Nat → K) (e : Nat) : Nat → Nat → K :=
  let L := elemLength nodes e
  let Kl := localStiff E G (A e) (Iy e) (Iz e) (J e) L
  transformed (transform12 (triad (nodes e) (nodes (e + 1)))) (permuted Kl)

/-! ### the sparse coordinate list of `FEM.setup` / `assemble_CSC_K` (order of `k_rows`, `k_cols`, `k_data`) -/

/-- a 6×6 block of coordinates, row-major -/
def cooBlock (r0 c0 : Nat) (v : Nat → Nat → K) : List (Nat × Nat × K) :=
  (List.range 6).flatMap fun a => (List.range 6).map fun b => (r0 + a, c0 + b, v a b)

/-- `zip(k_rows, k_cols, k_data)`: blocks 1–5 and the two constraint blocks (`rows6/cols6` and transposed) -/
def cooEntries (ny idx : Nat) (kloc : Nat → Nat → Nat → K) : List (Nat × Nat × K) :=
  ((List.range (ny - 1)).flatMap fun e => cooBlock (6 * e) (6 * e + 6) (fun a b => kloc e a (6 + b)))
  ++ ((List.range (ny - 1)).flatMap fun e => cooBlock (6 * e + 6) (6 * e) (fun a b => kloc e (6 + a) b))
  ++ cooBlock 0 0 (fun a b => kloc 0 a b)
  ++ cooBlock (6 * (ny - 1)) (6 * (ny - 1)) (fun a b => kloc (ny - 2) (6 + a) (6 + b))
  ++ ((List.range (ny - 2)).flatMap fun e =>
        cooBlock (6 * e + 6) (6 * e + 6) (fun a b => kloc e (6 + a) (6 + b) + kloc (e + 1) a b))
  ++ ((List.range 6).map fun a => (6 * idx + a, 6 * ny + a, ((1000000000 : Nat) : K)))
  ++ ((List.range 6).map fun a => (6 * ny + a, 6 * idx + a, ((1000000000 : Nat) : K)))

/-- duplicates summed (what `coo_matrix(...).tocsc()` does): entry `(r, c)` of the matrix a coordinate list stands for -/
def denseOf (l : List (Nat × Nat × K)) (r c : Nat) : K :=
  (l.map fun t => if t.1 = r ∧ t.2.1 = c then t.2.2 else 0).sum

end
end FEM
end OAS
