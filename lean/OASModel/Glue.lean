import OASModel.Vec3
/-
  OASModel.Glue — the index-bookkeeping components between the modelled cores:
    aerodynamics/get_vectors.py, eval_velocities.py, mtx_rhs.py, panel_forces_surf.py, solve_matrix.py (residual and the
    partials of `linearize`), structures/disp.py, geometry/monotonic_constraint.py, integration/multipoint_comps.py

  A list of surfaces is represented by the list of its panel counts `sizes = [(nx_s − 1)(ny_s − 1)]`; the running offsets
  `ind_1 / ind_2` of the code are `offset sizes s`, and `locate sizes m` maps a global panel index to (surface, local index).
-/
namespace OAS
namespace Glue
section
variable {K : Type} [Add K] [Sub K] [Mul K] [Neg K] [Zero K]

/-- `ind_1` when the loop reaches surface `s` -/
def offset : List Nat → Nat → Nat
  | [], _ => 0
  | _ :: _, 0 => 0
  | n :: rest, s + 1 => n + offset rest s

/-- global panel index ↦ (surface index, local panel index); past the end: the last surface keeps counting -/
def locate : List Nat → Nat → Nat × Nat
  | [], m => (0, m)
  | [_], m => (0, m)
  | n :: rest, m => if m < n then (0, m) else let r := locate rest (m - n); (r.1 + 1, r.2)

def total (sizes : List Nat) : Nat := sizes.sum

/-- `GetVectors.compute`: `vectors[p, i, j] = eval_pts[p] − vortex_mesh[i, j]` -/
def getVector (evalPts : Pts K) (vm : Mesh K) (p i j : Nat) : V3 K := evalPts p - vm i j

/-- `EvalVelocities.compute`: free stream plus the circulation-weighted columns of every surface's `vel_mtx`
(`velMtx s p l`: surface `s`, evaluation point `p`, local panel `l`) -/
def evalVelocity (sizes : List Nat) (velMtx : Nat → Nat → Nat → V3 K) (fs : Pts K) (gamma : Nat → K) (p : Nat) : V3 K :=
  fs p + V3.sumTo sizes.length (fun s =>
    V3.sumTo (sizes.getD s 0) (fun l => V3.smul (gamma (offset sizes s + l)) (velMtx s p l)))

/-- the stacked normals `normals_n_3[m]` -/
def stackedNormal (sizes : List Nat) (normals : Nat → Nat → V3 K) (m : Nat) : V3 K :=
  let r := locate sizes m; normals r.1 r.2

/-- `VLMMtxRHSComp.compute`: `mtx[i, j] = vel_mtx[i, j, :] · normal[i]` -/
def mtxEntry (sizes : List Nat) (velMtx : Nat → Nat → Nat → V3 K) (normals : Nat → Nat → V3 K) (i j : Nat) : K :=
  let r := locate sizes j
  V3.dot (velMtx r.1 i r.2) (stackedNormal sizes normals i)

/-- `rhs[i] = −freestream[i] · normal[i]` -/
def rhsEntry (sizes : List Nat) (fs : Pts K) (normals : Nat → Nat → V3 K) (i : Nat) : K :=
  -(V3.dot (fs i) (stackedNormal sizes normals i))

/-- `PanelForcesSurf.compute`: surface `s`, local panel `l` -/
def panelForcesSurf (sizes : List Nat) (pf : Pts K) (s l : Nat) : V3 K := pf (offset sizes s + l)

/-- `SolveMatrix.apply_nonlinear` -/
def solveResidual (n : Nat) (mtx : Nat → Nat → K) (rhs circ : Nat → K) (i : Nat) : K :=
  sumTo n (fun j => mtx i j * circ j) - rhs i

/-- `Disp.compute`: drop the six Lagrange-multiplier rows and reshape to `[ny, 6]` -/
def disp (dispAug : Nat → K) (j k : Nat) : K := dispAug (6 * j + k)

/-- `MonotonicConstraint.compute` -/
def monotonic (ny : Nat) (sym : Bool) (v : Nat → K) (i : Nat) : K :=
  if sym || decide (i < (ny - 1) / 2) then v i - v (i + 1) else -(v i - v (i + 1))

/-- `MultiCD.compute` -/
def multiCD (n : Nat) (cd : Nat → K) : K := sumTo n cd

/-! ### declared sparsity patterns (transliterated `rows/cols/val` of `setup()`), compared exactly with the arrays the component
declares and proved to be the Jacobian of the model for every size -/

/-- `MonotonicConstraint.setup`: entry `k < 2 (ny − 1)` of `rows`, `cols`, `sparse_val`:
`rows = [0,0,1,1,…]`, `cols = [0,1,1,2,2,…,ny−1]`, `val = [1,−1,1,−1,…]` with the sign flipped from index `ny − 2` (even `ny`) or
`ny − 1` (odd `ny`) on when the surface is not symmetric -/
def monoRow (k : Nat) : Nat := k / 2
def monoCol (k : Nat) : Nat := (k + 1) / 2
def monoFlipFrom (ny : Nat) : Nat := if ny % 2 = 0 then ny - 2 else ny - 1
def monoVal [One K] (ny : Nat) (sym : Bool) (k : Nat) : K :=
  let v : K := if k % 2 = 0 then 1 else -1
  if !sym && decide (monoFlipFrom ny ≤ k) then -v else v

/-- `RadiusComp.setup`: entry `k < 12 (ny − 1)` of the declared `rows`, `cols` of `d radius / d mesh`: six leading-edge entries per
element (`mesh[0, j:j+2, :]`), then the same six at the trailing edge (`mesh[nx−1, j:j+2, :]`, offset `(nx − 1)·3·ny`) -/
def radRow (ny k : Nat) : Nat := (k % (6 * (ny - 1))) / 6
def radCol (nx ny k : Nat) : Nat :=
  let r := k % (6 * (ny - 1))
  r % 6 + 3 * (r / 6) + (if k < 6 * (ny - 1) then 0 else (nx - 1) * 3 * ny)

/-- `ComputeNodes.setup`: entry `k < 2 · 3 ny` of the declared `rows`, `cols`, `val` of `d nodes / d mesh`
(`rows = hstack(arange, arange)`, `cols = hstack(arange, arange + (nx − 1) · 3 ny)`, `val = [1 − w …, w …]`) -/
def nodesRow (ny k : Nat) : Nat := k % (3 * ny)
def nodesCol (nx ny k : Nat) : Nat := if k < 3 * ny then k else k - 3 * ny + (nx - 1) * (3 * ny)
def nodesVal [One K] (ny : Nat) (w : K) (k : Nat) : K := if k < 3 * ny then 1 - w else w

/-- `CollocationPoints.setup`: entry `k < 4 m`, `m = 3 (nx − 1)(ny − 1)`, of the declared `rows`, `cols`, `val` of
`d coll_pts / d mesh`, `d force_pts / d mesh`, `d bound_vecs / d mesh` of one surface whose panels start at flattened output index
`off = 3 · ind_eval_points_1`: four blocks (`mesh[:-1, :-1]`, `mesh[1:, :-1]`, `mesh[:-1, 1:]`, `mesh[1:, 1:]`), the same `rows` in each -/
def collRow (nx ny off k : Nat) : Nat := off + k % (3 * ((nx - 1) * (ny - 1)))
def collCol (nx ny k : Nat) : Nat :=
  let m := 3 * ((nx - 1) * (ny - 1))
  let b := k / m
  let l := k % m
  ((l / 3 / (ny - 1) + (if b % 2 = 1 then 1 else 0)) * ny + (l / 3 % (ny - 1) + (if 2 ≤ b then 1 else 0))) * 3 + l % 3
/-- `which`: 0 `coll_pts`, 1 `force_pts`, 2 `bound_vecs` -/
def collVal [Div K] [NatCast K] (which nx ny k : Nat) : K :=
  let b := k / (3 * ((nx - 1) * (ny - 1)))
  let q : K := dec 25 100
  let t : K := dec 75 100
  let h : K := dec 5 10
  if which = 0 then (if b % 2 = 0 then q * h else t * h)
  else if which = 1 then (if b % 2 = 0 then t * h else q * h)
  else if b = 0 then t else if b = 1 then q else if b = 2 then -t else -q

end
end Glue
end OAS
