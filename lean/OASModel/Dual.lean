import OASModel.Scalar
/-
  OASModel.Dual — forward-mode dual numbers over `Float`.  Instantiating a model definition
  at `DualF` yields its directional derivative; used only as an *oracle* in the correspondence
  check (analytic partials of the code vs derivative of the model), never in a theorem.
-/
namespace OAS

structure DualF where
  v : Float
  d : Float

namespace DualF
instance : Inhabited DualF := ⟨⟨0, 0⟩⟩
instance : Zero DualF := ⟨⟨0, 0⟩⟩
instance : One DualF := ⟨⟨1, 0⟩⟩
instance : NatCast DualF := ⟨fun n => ⟨Float.ofNat n, 0⟩⟩
instance : Add DualF := ⟨fun a b => ⟨a.v + b.v, a.d + b.d⟩⟩
instance : Sub DualF := ⟨fun a b => ⟨a.v - b.v, a.d - b.d⟩⟩
instance : Neg DualF := ⟨fun a => ⟨-a.v, -a.d⟩⟩
instance : Mul DualF := ⟨fun a b => ⟨a.v * b.v, a.d * b.v + a.v * b.d⟩⟩
instance : Div DualF := ⟨fun a b => ⟨a.v / b.v, (a.d * b.v - a.v * b.d) / (b.v * b.v)⟩⟩
instance : LT DualF := ⟨fun a b => a.v < b.v⟩
instance : DecidableLT DualF := fun a b => inferInstanceAs (Decidable (a.v < b.v))

instance : Elem DualF where
  sqrt a := let s := Float.sqrt a.v; ⟨s, a.d / (2 * s)⟩
  sin a := ⟨Float.sin a.v, Float.cos a.v * a.d⟩
  cos a := ⟨Float.cos a.v, -(Float.sin a.v) * a.d⟩
  tan a := let c := Float.cos a.v; ⟨Float.tan a.v, a.d / (c * c)⟩
  exp a := let e := Float.exp a.v; ⟨e, e * a.d⟩
  log a := ⟨Float.log a.v, a.d / a.v⟩
  rpow a b :=
    let p := Float.pow a.v b.v
    ⟨p, b.v * Float.pow a.v (b.v - 1) * a.d + (if b.d == 0 then 0 else p * Float.log a.v * b.d)⟩
  abs a := ⟨Float.abs a.v, if a.v < 0 then -a.d else a.d⟩
  atan a := ⟨Float.atan a.v, a.d / (1 + a.v * a.v)⟩
  acos a := ⟨Float.acos a.v, -a.d / Float.sqrt (1 - a.v * a.v)⟩
  pi := ⟨3.141592653589793, 0⟩
end DualF

end OAS
