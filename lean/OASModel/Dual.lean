import OASModel.Scalar
/-
  OASModel.Dual — forward-mode dual numbers over any scalar type of the model.  Instantiating a model definition at
  `Dual K` yields its directional derivative.  At `K = Float` (`DualF`) this is the derivative the correspondence check
  compares with the analytic partials of the code; at `K = ℝ` the soundness of every primitive is proved in
  `OASProofs/Lemmas/AD.lean`.
-/
namespace OAS

structure Dual (K : Type) where
  v : K
  d : K

namespace Dual
variable {K : Type}

instance [Inhabited K] : Inhabited (Dual K) := ⟨⟨default, default⟩⟩
instance [Zero K] : Zero (Dual K) := ⟨⟨0, 0⟩⟩
instance [One K] [Zero K] : One (Dual K) := ⟨⟨1, 0⟩⟩
instance [NatCast K] [Zero K] : NatCast (Dual K) := ⟨fun n => ⟨(n : K), 0⟩⟩
instance [Add K] : Add (Dual K) := ⟨fun a b => ⟨a.v + b.v, a.d + b.d⟩⟩
instance [Sub K] : Sub (Dual K) := ⟨fun a b => ⟨a.v - b.v, a.d - b.d⟩⟩
instance [Neg K] : Neg (Dual K) := ⟨fun a => ⟨-a.v, -a.d⟩⟩
instance [Add K] [Mul K] : Mul (Dual K) := ⟨fun a b => ⟨a.v * b.v, a.d * b.v + a.v * b.d⟩⟩
instance [Sub K] [Mul K] [Div K] : Div (Dual K) := ⟨fun a b => ⟨a.v / b.v, (a.d * b.v - a.v * b.d) / (b.v * b.v)⟩⟩
instance [LT K] : LT (Dual K) := ⟨fun a b => a.v < b.v⟩
instance [LT K] [DecidableLT K] : DecidableLT (Dual K) := fun a b => inferInstanceAs (Decidable (a.v < b.v))

instance [Add K] [Sub K] [Mul K] [Div K] [Neg K] [Zero K] [One K] [NatCast K] [Elem K] [LT K] [DecidableLT K] [BEq K] :
    Elem (Dual K) where
  sqrt a := let s := Elem.sqrt a.v; ⟨s, a.d / (((2 : Nat) : K) * s)⟩
  sin a := ⟨Elem.sin a.v, Elem.cos a.v * a.d⟩
  cos a := ⟨Elem.cos a.v, -(Elem.sin a.v) * a.d⟩
  tan a := let c := Elem.cos a.v; ⟨Elem.tan a.v, a.d / (c * c)⟩
  exp a := let e := Elem.exp a.v; ⟨e, e * a.d⟩
  log a := ⟨Elem.log a.v, a.d / a.v⟩
  rpow a b :=
    let p := Elem.rpow a.v b.v
    ⟨p, b.v * Elem.rpow a.v (b.v - 1) * a.d + (if b.d == 0 then 0 else p * Elem.log a.v * b.d)⟩
  abs a := ⟨Elem.abs a.v, if a.v < 0 then -a.d else a.d⟩
  atan a := ⟨Elem.atan a.v, a.d / (1 + a.v * a.v)⟩
  acos a := ⟨Elem.acos a.v, -a.d / Elem.sqrt (1 - a.v * a.v)⟩
  pi := ⟨Elem.pi, 0⟩
end Dual

/-- the instance the driver uses -/
abbrev DualF := Dual Float

end OAS
