import OASModel.Vec3
/-
  OASModel.AeroFunc — transliteration of the aerodynamic post-processing components
    aerodynamics/geometry.py (VLMGeometry.compute), lift_drag.py, coeffs.py, total_lift.py,
    total_drag.py, lift_coeff_2D.py, viscous_drag.py, wave_drag.py
-/
namespace OAS
section
variable {K : Type} [Add K] [Sub K] [Mul K] [Div K] [Neg K] [Zero K] [One K] [NatCast K] [Elem K]

/-- `x * np.pi / 180.0` -/
def deg2rad (x : K) : K := x * Elem.pi / ((180 : Nat) : K)

/-! ### VLMGeometry -/
namespace VLMGeometry

/-- `b_pts = mesh[:-1] * 0.75 + mesh[1:] * 0.25` -/
def bPts (mesh : Mesh K) : Mesh K := fun i j =>
  V3.smul (dec 75 100) (mesh i j) + V3.smul (dec 25 100) (mesh (i + 1) j)

/-- `quarter_chord = 0.25 * mesh[-1] + 0.75 * mesh[0]` -/
def quarterChord (nx : Nat) (mesh : Mesh K) : Pts K := fun j =>
  V3.smul (dec 25 100) (mesh (nx - 1) j) + V3.smul (dec 75 100) (mesh 0 j)

def lengthsSpanwise (nx : Nat) (mesh : Mesh K) (j : Nat) : K :=
  V3.norm (quarterChord nx mesh (j + 1) - quarterChord nx mesh j)

/-- norm of the `(y, z)` part of the quarter-chord difference -/
def widths (nx : Nat) (mesh : Mesh K) (j : Nat) : K :=
  let d := quarterChord nx mesh (j + 1) - quarterChord nx mesh j
  Elem.sqrt (d.y * d.y + d.z * d.z)

/-- `lengths = Σ_i |mesh[i+1,j] - mesh[i,j]|` -/
def lengths (nx : Nat) (mesh : Mesh K) (j : Nat) : K :=
  sumTo (nx - 1) (fun i => V3.norm (mesh (i + 1) j - mesh i j))

/-- un-normalised panel normal: cross product of the panel diagonals -/
def rawNormal (mesh : Mesh K) (i j : Nat) : V3 K :=
  V3.cross (mesh i (j + 1) - mesh (i + 1) j) (mesh i j - mesh (i + 1) (j + 1))

def normals (mesh : Mesh K) (i j : Nat) : V3 K :=
  let n := rawNormal mesh i j
  let s := V3.norm n
  ⟨n.x / s, n.y / s, n.z / s⟩

/-- the mesh with `z` set to zero (projected area) -/
def projMesh (mesh : Mesh K) : Mesh K := fun i j => ⟨(mesh i j).x, (mesh i j).y, 0⟩

/-- `S_ref` (wetted or projected), doubled for a symmetric surface -/
def sRef (nx ny : Nat) (sym projected : Bool) (mesh : Mesh K) : K :=
  let m := if projected then projMesh mesh else mesh
  let s := dec 1 2 * sumTo (nx - 1) (fun i => sumTo (ny - 1) (fun j => V3.norm (rawNormal m i j)))
  if sym then s * ((2 : Nat) : K) else s

def chords (nx : Nat) (mesh : Mesh K) (j : Nat) : K := V3.norm (mesh 0 j - mesh (nx - 1) j)

end VLMGeometry

/-! ### LiftDrag / Coeffs / totals -/

/-- `LiftDrag.compute`: returns `(L, D)`; `alpha`, `beta` in degrees -/
def liftDrag (npanels : Nat) (sym : Bool) (alpha beta : K) (F : Nat → V3 K) : K × K :=
  let a := deg2rad alpha; let b := deg2rad beta
  let cosa := Elem.cos a; let sina := Elem.sin a; let cosb := Elem.cos b; let sinb := Elem.sin b
  let L := sumTo npanels (fun k => -(F k).x * sina + (F k).z * cosa)
  let D := sumTo npanels (fun k => (F k).x * cosa * cosb - (F k).y * sinb + (F k).z * sina * cosb)
  if sym then (L * ((2 : Nat) : K), D * ((2 : Nat) : K)) else (L, D)

omit [Elem K] [Neg K] [Zero K] [One K] [Sub K] [Add K] in
/-- `Coeffs.compute`: `X / (0.5 * rho * v**2 * S_ref)` -/
def coeff (X rho v S : K) : K := X / (dec 1 2 * rho * (v * v) * S)

omit [Elem K] in
def totalLift (CL1 CL0 : K) : K := CL1 + CL0
omit [Elem K] in
def totalDrag (CDi CDv CDw CD0 : K) : K := CDi + CDv + CDw + CD0

/-- `LiftCoeff2D.compute` for spanwise panel `j` -/
def liftCoeff2D (nx : Nat) (alpha rho v : K) (F : Nat → Nat → V3 K) (widths chords : Nat → K) (j : Nat) : K :=
  let a := deg2rad alpha
  let f := V3.sumTo (nx - 1) (fun i => F i j)
  let liftDist := (-f.x * Elem.sin a + f.z * Elem.cos a) / widths j
  let chord := dec 1 2 * (chords (j + 1) + chords j)
  liftDist / (dec 1 2 * rho * (v * v) * chord)

/-! ### WaveDrag -/
namespace WaveDrag
variable [LT K] [DecidableLT K]

omit [Elem K] [LT K] [DecidableLT K] in
def panelArea (chords widths : Nat → K) (j : Nat) : K := (chords j + chords (j + 1)) / ((2 : Nat) : K) * widths j

/-- crest-critical Mach number -/
def mcrit (ny : Nat) (ka : K) (CL : K) (toc widths lsp chords : Nat → K) : K :=
  let area := panelArea chords widths
  let sumA := sumTo (ny - 1) area
  let avgCos := sumTo (ny - 1) (fun j => widths j / lsp j * area j) / sumA
  let avgToc := sumTo (ny - 1) (fun j => toc j * area j) / sumA
  let mdd := ka / avgCos - avgToc / (avgCos * avgCos) - CL / (((10 : Nat) : K) * (avgCos * avgCos * avgCos))
  mdd - Elem.rpow (dec 1 10 / ((80 : Nat) : K)) (1 / ((3 : Nat) : K))

/-- `WaveDrag.compute` -/
def cdw (ny : Nat) (withWave sym : Bool) (ka M CL : K) (toc widths lsp chords : Nat → K) : K :=
  if withWave then
    let mc := mcrit ny ka CL toc widths lsp chords
    let d := M - mc
    let c := if mc < M then ((20 : Nat) : K) * (d * d * d * d) else 0
    if sym then c * ((2 : Nat) : K) else c
  else 0
end WaveDrag

/-! ### ViscousDrag -/
namespace ViscousDrag
variable [LT K] [DecidableLT K]

/-- `np.log10(x)` -/
def log10 (x : K) : K := Elem.log x / Elem.log ((10 : Nat) : K)

/-- compressible turbulent flat-plate skin friction `0.455 / log10(Re)^2.58 / (1 + 0.144 M²)^0.65` -/
def cfTurb (Re M : K) : K :=
  dec 455 1000 / Elem.rpow (log10 Re) (dec 258 100) / Elem.rpow (1 + dec 144 1000 * (M * M)) (dec 65 100)

/-- laminar `1.328 / sqrt(Re)` -/
def cfLam (Re : K) : K := dec 1328 1000 / Elem.sqrt Re

/-- section skin-friction coefficient with laminar fraction `klam`; the three branches of the code:
`klam == 0` (fully turbulent), `klam < 1` (transition), otherwise fully laminar -/
def cd (klam Rec M : K) : K :=
  if klam < 0 ∨ 0 < klam then
    if klam < 1 then (cfLam (Rec * klam) - cfTurb (Rec * klam) M) * klam + cfTurb Rec M
    else (cfLam (Rec * klam) - 0) * klam + 0
  else (0 - 0) * klam + cfTurb Rec M

/-- form factor `k_FF * cos_sweep^0.28` -/
def formFactor (cmaxt M toc cosSweep : K) : K :=
  dec 134 100 * Elem.rpow M (dec 18 100)
    * (1 + dec 6 10 * toc / cmaxt + ((100 : Nat) : K) * (toc * toc * toc * toc))
    * Elem.rpow cosSweep (dec 28 100)

/-- `ViscousDrag.compute` -/
def cdv (ny : Nat) (withViscous sym : Bool) (klam cmaxt re M S : K) (widths lsp lengths toc : Nat → K) : K :=
  if withViscous then
    let chord : Nat → K := fun j => (lengths (j + 1) + lengths j) / ((2 : Nat) : K)
    let dq := sumTo (ny - 1) (fun j =>
      ((2 : Nat) : K) * cd klam (re * chord j) M * chord j * widths j
        * formFactor cmaxt M (toc j) (widths j / lsp j))
    let c := dq / S
    if sym then c * ((2 : Nat) : K) else c
  else 0
end ViscousDrag

end
end OAS
