import OASModel.Vec3
import OASModel.Stress
/-
  OASModel.Wingbox — transliteration of
    structures/section_properties_wingbox.py (SectionPropertiesWingbox.compute, one element),
    structures/wingbox_geometry.py (WingboxGeometry.compute), structures/utils.py: radii,
    geometry/radius_comp.py, structures/spar_within_wing.py, structures/fuel_vol.py

  The airfoil data `data_x_upper, data_y_upper, data_x_lower, data_y_lower` are four arrays of the same
  length `n + 1` (the in-place `A_enc += …` of the code forces equal lengths); the code's `[-1]` is index `n`.
-/
namespace OAS
namespace Wingbox
section
variable {K : Type} [Add K] [Sub K] [Mul K] [Div K] [Neg K] [Zero K] [One K] [NatCast K]

/-- the four airfoil coordinate arrays of the surface dictionary -/
structure Airfoil (K : Type) where
  xu : Nat → K
  yu : Nat → K
  xl : Nat → K
  yl : Nat → K

/-- everything `SectionPropertiesWingbox.compute` writes for one element (order of `add_output`) -/
structure Section (K : Type) where
  A : K
  Aenc : K
  Aint : K
  Iy : K
  Qz : K
  Iz : K
  J : K
  htop : K
  hbottom : K
  hfront : K
  hrear : K

/-- `np.outer(data, chord)` followed by the `t/c` scaling of the `y` coordinates:
`y *= t_over_c / t_over_c_original * streamwise_chord / chord` -/
def scaled (af : Airfoil K) (chord tc tc0 sc : K) : Airfoil K :=
  let f := tc / tc0 * sc / chord
  ⟨fun i => af.xu i * chord, fun i => af.yu i * chord * f, fun i => af.xl i * chord, fun i => af.yl i * chord * f⟩

/-- the rotation by the element twist: `x' = cos θ x + sin θ y`, `y' = −sin θ x + cos θ y` -/
def rotated [Elem K] (af : Airfoil K) (theta : K) : Airfoil K :=
  let c := Elem.cos theta; let s := Elem.sin theta
  ⟨fun i => c * af.xu i + s * af.yu i, fun i => -s * af.xu i + c * af.yu i,
   fun i => c * af.xl i + s * af.yl i, fun i => -s * af.xl i + c * af.yl i⟩

def diff (f : Nat → K) (i : Nat) : K := f (i + 1) - f i
def addn (f : Nat → K) (i : Nat) : K := f (i + 1) + f i

def n2 : K := ((2 : Nat) : K)

/-- enclosed area (material midlines), before the rotation -/
def aEnc (n : Nat) (a : Airfoil K) (tspar tskin : K) : K :=
  sumTo n (fun i => diff a.xu i * (addn a.yu i - tskin) / n2 + diff a.xl i * (-(addn a.yl i) - tskin) / n2)
    - (a.yu 0 - a.yl 0) * tspar / n2 - (a.yu n - a.yl n) * tspar / n2

/-- internal area (fuel), before the rotation -/
def aInt (n : Nat) (a : Airfoil K) (tspar tskin : K) : K :=
  sumTo n (fun i => diff a.xu i * (addn a.yu i - n2 * tskin) / n2 + diff a.xl i * (-(addn a.yl i) - n2 * tskin) / n2)
    - (a.yu 0 - a.yl 0) * tspar - (a.yu n - a.yl n) * tspar

/-- perimeter-to-thickness ratio of the cell -/
def pByT [Elem K] (n : Nat) (a : Airfoil K) (tspar tskin : K) : K :=
  sumTo n (fun i => Elem.sqrt (diff a.xu i * diff a.xu i + diff a.yu i * diff a.yu i) / tskin
                    + Elem.sqrt (diff a.xl i * diff a.xl i + diff a.yl i * diff a.yl i) / tskin)
    + (a.yu 0 - a.yl 0 - tskin) / tspar + (a.yu n - a.yl n - tskin) / tspar

/-- torsion constant `J = 4 A_enc² / (p/t)` -/
def torsionJ [Elem K] (n : Nat) (a : Airfoil K) (tspar tskin : K) : K :=
  ((4 : Nat) : K) * (aEnc n a tspar tskin * aEnc n a tspar tskin) / pByT n a tspar tskin

/-- material area of the rotated section -/
def area (n : Nat) (a : Airfoil K) (tspar tskin : K) : K :=
  sumTo n (fun i => tskin * diff a.xu i) + sumTo n (fun i => tskin * diff a.xl i)
    + ((a.yu 0 - a.yl 0 - n2 * tskin) + (a.yu n - a.yl n - n2 * tskin)) * tspar

/-- centroid height of the rotated section -/
def centroid (n : Nat) (a : Airfoil K) (tspar tskin : K) : K :=
  (sumTo n (fun i => (addn a.yu i / n2 - tskin / n2) * tskin * diff a.xu i)
    + sumTo n (fun i => (addn a.yl i / n2 + tskin / n2) * tskin * diff a.xl i)
    + (a.yu 0 - a.yl 0 - n2 * tskin) * tspar * (a.yu 0 + a.yl 0) / n2
    + (a.yu n - a.yl n - n2 * tskin) * tspar * (a.yu n + a.yl n) / n2) / area n a tspar tskin

/-- the "derived analytical expression" for a skin strip of slope `a`, half height `b`, width `x2` -/
def stripI (a b x2 : K) : K :=
  n2 * (1 / ((12 : Nat) : K) * (a * a * a) * (x2 * x2 * x2 * x2) + 1 / ((3 : Nat) : K) * (a * a) * (x2 * x2 * x2) * b
        + 1 / n2 * a * (x2 * x2) * (b * b) + 1 / ((3 : Nat) : K) * (b * b * b) * x2)

/-- second moment of area for upward bending, `Iz` of the component -/
def iHoriz (n : Nat) (a : Airfoil K) (tspar tskin : K) : K :=
  let c := centroid n a tspar tskin
  let hf := a.yu 0 - a.yl 0 - n2 * tskin
  let hr := a.yu n - a.yl n - n2 * tskin
  sumTo n (fun i => stripI (diff a.yu i / diff a.xu i) ((diff a.yu i + tskin) / n2) (diff a.xu i)
                    + diff a.xu i * tskin * ((addn a.yu i / n2 - tskin / n2 - c) * (addn a.yu i / n2 - tskin / n2 - c)))
    + sumTo n (fun i => stripI (-(diff a.yl i) / diff a.xl i) ((-(diff a.yl i) + tskin) / n2) (diff a.xl i))
    + sumTo n (fun i => diff a.xl i * tskin * ((-(addn a.yl i) / n2 - tskin / n2 + c) * (-(addn a.yl i) / n2 - tskin / n2 + c)))
    + (1 / ((12 : Nat) : K) * tspar * (hf * hf * hf) + tspar * hf * (((a.yu 0 + a.yl 0) / n2 - c) * ((a.yu 0 + a.yl 0) / n2 - c)))
    + (1 / ((12 : Nat) : K) * tspar * (hr * hr * hr) + tspar * hr * (((a.yu n + a.yl n) / n2 - c) * ((a.yu n + a.yl n) / n2 - c)))

/-- first moment of the area above the neutral axis, `Qz` -/
def qUpper (n : Nat) (a : Airfoil K) (tspar tskin : K) : K :=
  let c := centroid n a tspar tskin
  sumTo n (fun i => ((addn a.yu i / n2 - tskin / n2) - c) * tskin * diff a.xu i)
    + (a.yu 0 - tskin - c) * (a.yu 0 - tskin - c) / n2 * tspar
    + (a.yu n - tskin - c) * (a.yu n - tskin - c) / n2 * tspar

/-- chordwise position of the centroid of the two spars -/
def centroidIvert (n : Nat) (a : Airfoil K) (tspar : K) : K :=
  ((a.yu 0 - a.yl 0) * tspar * (a.xu 0 + tspar / n2) + (a.yu n - a.yl n) * tspar * (a.xu n - tspar / n2))
    / (((a.yu 0 - a.yl 0) + (a.yu n - a.yl n)) * tspar)

/-- second moment of area for backward bending, `Iy` of the component -/
def iVert (n : Nat) (a : Airfoil K) (tspar tskin : K) : K :=
  let c := centroidIvert n a tspar
  let w := a.xu n - a.xu 0 - n2 * tspar
  (0 + (1 / ((12 : Nat) : K) * (a.yu 0 - a.yl 0) * (tspar * tspar * tspar)
        + (a.yu 0 - a.yl 0) * tspar * ((c - (a.xu 0 + tspar / n2)) * (c - (a.xu 0 + tspar / n2))))
     + (1 / ((12 : Nat) : K) * (a.yu n - a.yl n) * (tspar * tspar * tspar)
        + (a.yu n - a.yl n) * tspar * ((a.xu n - tspar / n2 - c) * (a.xu n - tspar / n2 - c))))
    + n2 * (1 / ((12 : Nat) : K) * tskin * (w * w * w)
            + tskin * w * ((c - (a.xu n + a.xu 0) / n2) * (c - (a.xu n + a.xu 0) / n2)))

section ks
variable [Elem K] [LT K] [DecidableLT K]
/-- the hard-coded aggregation parameter of the height functions -/
def ksRho : K := ((500 : Nat) : K)

/-- KS envelope of `f 0 … f n`: `fmax + 1/ρ · log Σ exp(ρ (f i − fmax))` -/
def ksMax (n : Nat) (f : Nat → K) : K :=
  let fmax := maxUpTo n f
  fmax + 1 / ksRho * Elem.log (sumTo (n + 1) (fun i => Elem.exp (ksRho * (f i - fmax))))

/-- `SectionPropertiesWingbox.compute` for one element -/
def sectionProperties (n : Nat) (af : Airfoil K) (tc0 : K) (streamwiseChord femChord femTwist tspar tskin tc : K) : Section K :=
  let a0 := scaled af femChord tc tc0 streamwiseChord
  let a := rotated a0 femTwist
  let c := centroid n a tspar tskin
  let cv := centroidIvert n a tspar
  { A := area n a tspar tskin
    Aenc := aEnc n a0 tspar tskin
    Aint := aInt n a0 tspar tskin
    Iy := iVert n a tspar tskin
    Qz := qUpper n a tspar tskin
    Iz := iHoriz n a tspar tskin
    J := torsionJ n a0 tspar tskin
    htop := ksMax n a.yu - c
    hbottom := ksMax n (fun i => -a.yl i) + c
    hfront := cv - a.xu 0
    hrear := a.xu n - cv }
end ks

/-! ### WingboxGeometry, radii, fuel volumes -/
section geom
variable [Elem K]

/-- chord vector lengths `‖mesh[-1, j] − mesh[0, j]‖` -/
def chordLen (nx : Nat) (mesh : Mesh K) (j : Nat) : K := V3.norm (mesh (nx - 1) j - mesh 0 j)

/-- `streamwise_chords[j] = 0.5·c_j + 0.5·c_{j+1}` -/
def streamwiseChord (nx : Nat) (mesh : Mesh K) (j : Nat) : K :=
  dec 5 10 * chordLen nx mesh j + dec 5 10 * chordLen nx mesh (j + 1)

/-- chordwise location of the shear centre from the four corners of the box -/
def shearCentre (n : Nat) (af : Airfoil K) : K :=
  (af.xu 0 * (af.yu 0 - af.yl 0) + af.xu n * (af.yu n - af.yl n)) / ((af.yu 0 - af.yl 0) + (af.yu n - af.yl n))

def wbNode (nx : Nat) (w : K) (mesh : Mesh K) (j : Nat) : V3 K :=
  V3.smul (1 - w) (mesh 0 j) + V3.smul w (mesh (nx - 1) j)

/-- `fem_chords[e]`: streamwise chord times the cosine of the element sweep -/
def femChord (nx n : Nat) (af : Airfoil K) (mesh : Mesh K) (e : Nat) : K :=
  let w := shearCentre n af
  let v := wbNode nx w mesh (e + 1) - wbNode nx w mesh e
  streamwiseChord nx mesh e * (V3.norm ⟨0, v.y, v.z⟩ / V3.norm v)

variable [LT K] [DecidableLT K]
/-- `arccos(‖(v.x, v.y, 0)‖ / ‖v‖)` with the guard of the code against arguments above one -/
def twistAngle (v : V3 K) : K :=
  let c := V3.norm ⟨v.x, v.y, 0⟩ / V3.norm v
  if 1 < c then 0 else Elem.acos c

/-- `fem_twists[e]` -/
def femTwist (nx n : Nat) (af : Airfoil K) (mesh : Mesh K) (e : Nat) : K :=
  (twistAngle (mesh (nx - 1) e - mesh 0 e) + twistAngle (mesh (nx - 1) (e + 1) - mesh 0 (e + 1))) / ((2 : Nat) : K)
    * streamwiseChord nx mesh e / femChord nx n af mesh e
end geom

/-- `structures/utils.py: radii` = `t_c · mean_chord · 0.5` -/
def radii [Elem K] (nx : Nat) (mesh : Mesh K) (tc : Nat → K) (j : Nat) : K :=
  tc j * streamwiseChord nx mesh j * dec 5 10

/-- `SparWithinWing.compute` -/
def sparWithinWing [Elem K] (nx : Nat) (mesh : Mesh K) (radius tc : Nat → K) (j : Nat) : K :=
  radius j - radii nx mesh tc j

/-- `WingboxFuelVol.compute` -/
def fuelVol [Elem K] (nodes : Pts K) (aInt : Nat → K) (e : Nat) : K := V3.norm (nodes (e + 1) - nodes e) * aInt e

end
end Wingbox
end OAS
