import OASModel.Vec3
import OASModel.StructLoads
/-
  OASModel.Functionals — transliteration of
    functionals/total_lift_drag.py, sum_areas.py, equilibrium.py, breguet_range.py,
    center_of_gravity.py, moment_coefficient.py, common/reynolds_comp.py
  Surfaces are indexed `0 … ns-1`.
-/
namespace OAS
section
variable {K : Type} [Add K] [Sub K] [Mul K] [Div K] [Neg K] [Zero K] [One K] [NatCast K]

/-- `SumAreas.compute` -/
def sumAreas (ns : Nat) (S : Nat → K) : K := sumTo ns S

/-- `TotalLiftDrag.compute`: `(L, D, CL, CD)` -/
def totalLiftDrag (ns : Nat) (CL CD S : Nat → K) (rho v Stot : K) : K × K × K × K :=
  let cl := sumTo ns (fun s => CL s * S s)
  let cd := sumTo ns (fun s => CD s * S s)
  (cl * dec 1 2 * rho * (v * v), cd * dec 1 2 * rho * (v * v), cl / Stot, cd / Stot)

/-- `Equilibrium.compute`: `(L_equals_W, total_weight)` -/
def equilibrium (ns : Nat) (sm : Nat → K) (fuelburn W0 lf CL Stot v rho : K) : K × K :=
  let g := gravConstant * lf
  let tw := (sumTo ns sm + fuelburn + W0) * g
  (1 - (dec 1 2 * rho * (v * v) * Stot) * CL / tw, tw)

/-- `BreguetRange.compute` -/
def breguetFuelburn [Elem K] (ns : Nat) (sm : Nat → K) (CT CL CD a R M W0 : K) : K :=
  (W0 + sumTo ns sm) * (Elem.exp (R * CT / a / M * CD / CL) - 1)

/-- `CenterOfGravity.compute` -/
def centerOfGravity (ns : Nat) (sm : Nat → K) (cgs : Nat → V3 K) (tw fuelburn W0 lf : K) (emptyCg : V3 K) : V3 K :=
  let g := gravConstant * lf
  let spar := V3.sumTo ns (fun s => V3.smul (sm s) (cgs s))
  let num := V3.smul W0 emptyCg + spar
  let den := tw / g - fuelburn
  ⟨num.x / den, num.y / den, num.z / den⟩

/-- `ReynoldsComp.compute` -/
def reynolds (rho v mu : K) : K := rho * v / mu

/-! ### MomentCoefficient -/
namespace MomentCoefficient

/-- one surface's inputs -/
structure Surf (K : Type) where
  nx : Nat
  ny : Nat
  sym : Bool
  bPts : Mesh K          -- [nx-1, ny, 3]
  widths : Nat → K       -- [ny-1]
  chords : Nat → K       -- [ny]
  sRef : K
  F : Nat → Nat → V3 K   -- sec_forces [nx-1, ny-1, 3]

/-- mean aerodynamic chord of a surface (doubled for a symmetric one) -/
def mac (s : Surf K) : K :=
  let pc : Nat → K := fun j => (s.chords (j + 1) + s.chords j) * dec 1 2
  let m := 1 / s.sRef * sumTo (s.ny - 1) (fun j => pc j * pc j * s.widths j)
  if s.sym then m * ((2 : Nat) : K) else m

/-- spanwise moment distribution about `cg` (summed chordwise) -/
def momentDist (s : Surf K) (cg : V3 K) (j : Nat) : V3 K :=
  let m := V3.sumTo (s.nx - 1) (fun i =>
    V3.cross (V3.smul (dec 1 2) (s.bPts i (j + 1) + s.bPts i j) - cg) (s.F i j))
  if s.sym then ⟨0, m.y * ((2 : Nat) : K), 0⟩ else m

def surfMoment (s : Surf K) (cg : V3 K) : V3 K := V3.sumTo (s.ny - 1) (momentDist s cg)

/-- `M`: summed over the list of surfaces (fold from the left, as the Python loop) -/
def moment (surfs : List (Surf K)) (cg : V3 K) : V3 K :=
  surfs.foldl (fun acc s => acc + surfMoment s cg) 0

/-- `CM = M / (0.5 rho v² S_ref_total MAC_wing)`, `MAC_wing` of the *first* surface -/
def cm (surfs : List (Surf K)) (cg : V3 K) (rho v Stot : K) : V3 K :=
  let M := moment surfs cg
  let macW := match surfs with
    | [] => 1
    | s :: _ => mac s
  let q := dec 1 2 * rho * (v * v) * Stot * macW
  ⟨M.x / q, M.y / q, M.z / q⟩

end MomentCoefficient

end
end OAS
