import OASModel.Vec3
/-
  OASModel.Unify — transliteration of geometry/geometry_unification.py: unify_mesh (the loop over the sections with
  the optional leading-edge shift), compute_uni_mesh_dims.
-/
namespace OAS
namespace Unify

/-- one section of a multi-section surface: number of spanwise nodes and mesh `[nx, ny, 3]` -/
structure Sec (K : Type) where
  ny : Nat
  mesh : Mesh K

section
variable {K : Type} [Add K] [Sub K] [Zero K]

/-- the body of the loop `for i_sec in 1 .. len-2` followed by the final concatenation:
`acc` holds the `n` columns assembled so far, `prev` is the section added last -/
def unifyAux (shift : Bool) (acc : Mesh K) (n : Nat) (prev : Sec K) : List (Sec K) → Mesh K × Nat
  | [] => (acc, n)
  | [last] => (fun i c => if c < n then acc i c else last.mesh i (c - n), n + last.ny)
  | s :: rest =>
    -- `uni_mesh = uni_mesh - last_mesh[0, -1, :] + mesh[0, 0, :]` (every node assembled so far is shifted)
    let acc' : Mesh K := if shift then fun i c => acc i c - prev.mesh 0 (prev.ny - 1) + s.mesh 0 0 else acc
    -- `uni_mesh = np.concatenate([uni_mesh, mesh[:, :-1, :]], axis=1)`
    unifyAux shift (fun i c => if c < n then acc' i c else s.mesh i (c - n)) (n + (s.ny - 1)) s rest

/-- `unify_mesh(sections, shift_uni_mesh)`: the unified mesh and its number of spanwise nodes
(`compute_uni_mesh_dims`: every section but the last loses its last column) -/
def unify (shift : Bool) : List (Sec K) → Mesh K × Nat
  | [] => (fun _ _ => 0, 0)
  | [s] => (s.mesh, s.ny)
  | s :: rest => unifyAux shift s.mesh (s.ny - 1) s rest

/-- the contiguous surface: the columns of every section but its last one, followed by the whole last section -/
def contig : List (Sec K) → Mesh K
  | [] => fun _ _ => 0
  | [s] => s.mesh
  | s :: rest => fun i c => if c < s.ny - 1 then s.mesh i c else contig rest i (c - (s.ny - 1))

omit [Add K] [Sub K] [Zero K] in
/-- `uni_ny` -/
def totalNy : List (Sec K) → Nat
  | [] => 0
  | [s] => s.ny
  | s :: rest => (s.ny - 1) + totalNy rest

/-! ### the component `GeomMultiUnification.compute` (it differs from the function `unify_mesh`: the leading-edge shift is
also applied before the *last* section is appended) and `GeomMultiJoin.compute` -/

/-- loop body of `GeomMultiUnification.compute` for `i_sec ≥ 1` -/
def unifyCompAux (shift : Bool) (acc : Mesh K) (n : Nat) (prev : Sec K) : List (Sec K) → Mesh K × Nat
  | [] => (acc, n)
  | s :: rest =>
    let acc' : Mesh K := if shift then fun i c => acc i c - prev.mesh 0 (prev.ny - 1) + s.mesh 0 0 else acc
    match rest with
    | [] => (fun i c => if c < n then acc' i c else s.mesh i (c - n), n + s.ny)
    | _ :: _ => unifyCompAux shift (fun i c => if c < n then acc' i c else s.mesh i (c - n)) (n + (s.ny - 1)) s rest

/-- `GeomMultiUnification.compute`: the first section always loses its last column (a one-section list therefore yields
`ny − 1` columns, which the component cannot store in its `ny`-column output: the real code raises) -/
def unifyComp (shift : Bool) : List (Sec K) → Mesh K × Nat
  | [] => (fun _ _ => 0, 0)
  | s :: rest => unifyCompAux shift s.mesh (s.ny - 1) s rest

/-- `GeomMultiJoin.compute`, edge `k` between sections `k` and `k+1`: left edge of the outer section minus right edge of the
inner one, leading edge (`te = false`) or trailing edge (`te = true`), all three coordinates -/
def joinSeparation (nx : Nat) (secs : List (Sec K)) (k : Nat) (te : Bool) : V3 K :=
  let a := secs.getD k ⟨0, fun _ _ => 0⟩
  let b := secs.getD (k + 1) ⟨0, fun _ _ => 0⟩
  let i := if te then nx - 1 else 0
  b.mesh i 0 - a.mesh i (a.ny - 1)

end
end Unify
end OAS
