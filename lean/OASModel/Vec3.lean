import OASModel.Scalar
/-
  OASModel.Vec3 — 3-vectors and the numpy array layouts used by OAS
  (`[nx, ny, 3]` meshes in C order, `[ny, 6]` load / displacement arrays …).
-/
namespace OAS

structure V3 (K : Type) where
  x : K
  y : K
  z : K

namespace V3
variable {K : Type}

def get (a : V3 K) (d : Nat) : K := if d = 0 then a.x else if d = 1 then a.y else a.z

section
variable [Add K] [Sub K] [Mul K] [Neg K] [Zero K]

def add (a b : V3 K) : V3 K := ⟨a.x + b.x, a.y + b.y, a.z + b.z⟩
def sub (a b : V3 K) : V3 K := ⟨a.x - b.x, a.y - b.y, a.z - b.z⟩
def neg (a : V3 K) : V3 K := ⟨-a.x, -a.y, -a.z⟩
def smul (c : K) (a : V3 K) : V3 K := ⟨c * a.x, c * a.y, c * a.z⟩
def dot (a b : V3 K) : K := a.x * b.x + a.y * b.y + a.z * b.z
/-- `np.cross(a, b)` -/
def cross (a b : V3 K) : V3 K :=
  ⟨a.y * b.z - a.z * b.y, a.z * b.x - a.x * b.z, a.x * b.y - a.y * b.x⟩
def zero : V3 K := ⟨0, 0, 0⟩
def normSq (a : V3 K) : K := a.x * a.x + a.y * a.y + a.z * a.z

instance : Add (V3 K) := ⟨add⟩
instance : Sub (V3 K) := ⟨sub⟩
instance : Neg (V3 K) := ⟨neg⟩
instance : Zero (V3 K) := ⟨zero⟩

/-- componentwise sum of `f 0 … f (n-1)` -/
def sumTo (n : Nat) (f : Nat → V3 K) : V3 K :=
  ⟨OAS.sumTo n (fun i => (f i).x), OAS.sumTo n (fun i => (f i).y), OAS.sumTo n (fun i => (f i).z)⟩

end

section
variable [Add K] [Mul K] [Elem K]
/-- `np.linalg.norm` / `np.sqrt(np.sum(v**2))` -/
def norm (a : V3 K) : K := Elem.sqrt (a.x * a.x + a.y * a.y + a.z * a.z)
end

end V3

/-- 3×3 matrix by rows -/
structure M3 (K : Type) where
  r0 : V3 K
  r1 : V3 K
  r2 : V3 K

def M3.mulVec {K : Type} [Add K] [Mul K] (m : M3 K) (v : V3 K) : V3 K :=
  ⟨m.r0.x * v.x + m.r0.y * v.y + m.r0.z * v.z, m.r1.x * v.x + m.r1.y * v.y + m.r1.z * v.z,
   m.r2.x * v.x + m.r2.y * v.y + m.r2.z * v.z⟩

/-- a structured mesh `[nx, ny, 3]`: chordwise index first, spanwise second -/
abbrev Mesh (K : Type) := Nat → Nat → V3 K

/-- an array of 3-vectors `[n, 3]` -/
abbrev Pts (K : Type) := Nat → V3 K

end OAS
