import OASModel.VLM
import OASModel.PG
/-
  OASModel.Compressible — the wiring of aerodynamics/compressible_states.py (without rotation rates and ground effect):
    PGTransform (rotate meshes, points and normals into the wind frame, stretch)  →  the incompressible
    system of `VLM` at α = β = 0 with the *transformed* normals  →  InversePGTransform (unscale, rotate back).
-/
namespace OAS
namespace PG
section
variable {K : Type} [Add K] [Sub K] [Mul K] [Div K] [Neg K] [Zero K] [One K] [NatCast K] [Elem K]
variable [LT K] [DecidableLT K]

/-- the surface seen by the incompressible solver: `def_mesh_pg` (`al`, `be` in radians, `B = β_PG`) -/
def pgSurf (al be B : K) (s : VLM.Surf K) : VLM.Surf K :=
  { s with mesh := fun i j => scaleGeom B (toWind al be (s.mesh i j)) }

/-- `normals_pg`: the normals of the ORIGINAL mesh rotated and scaled (`x·β`), not renormalised -/
def pgNormal (al be B : K) (s : VLM.Surf K) (i j : Nat) : V3 K :=
  scaleNormal B (toWind al be (VLM.normal s i j))

/-- the flow seen by the incompressible solver: `alpha_pg = beta_pg = 0` -/
def pgFlow (f : VLM.Flow K) : VLM.Flow K :=
  { f with alpha := 0, beta := 0, rotational := false }

/-- `mtx[m, n]` of the Prandtl–Glauert system -/
def aic (surfs : List (VLM.Surf K)) (f : VLM.Flow K) (M : K) (m n : Nat) : K :=
  let al := deg2rad f.alpha; let be := deg2rad f.beta; let B := betaPG M
  match VLM.locate surfs m with
  | none => 0
  | some (s, i, j) =>
    V3.dot (VLM.influence (surfs.map (pgSurf al be B)) (pgFlow f) (VLM.collPt (pgSurf al be B s) i j) n) (pgNormal al be B s i j)

/-- `rhs[m]` of the Prandtl–Glauert system -/
def rhs (surfs : List (VLM.Surf K)) (f : VLM.Flow K) (M : K) (m : Nat) : K :=
  let al := deg2rad f.alpha; let be := deg2rad f.beta; let B := betaPG M
  match VLM.locate surfs m with
  | none => 0
  | some (s, i, j) => -(V3.dot (VLM.onset (pgFlow f) (VLM.collPt (pgSurf al be B s) i j)) (pgNormal al be B s i j))

/-- `sec_forces[m]`: panel force of the transformed problem, unscaled and rotated back -/
def secForce (surfs : List (VLM.Surf K)) (f : VLM.Flow K) (M : K) (gamma : Nat → K) (m : Nat) : V3 K :=
  let al := deg2rad f.alpha; let be := deg2rad f.beta; let B := betaPG M
  fromWind al be (unscaleForce B (VLM.panelForce (surfs.map (pgSurf al be B)) (pgFlow f) gamma m))

end
end PG
end OAS
