import OASModel.VLM
import OASModel.PG
/-
  OASModel.Compressible — the wiring of aerodynamics/compressible_states.py (without ground effect):
    PGTransform (rotate meshes, points and normals into the wind frame, stretch)  →  the incompressible
    system of `VLM` at α = β = 0 with the *transformed* normals  →  InversePGTransform (unscale, rotate back).
-/
namespace OAS
namespace PG
section
variable {K : Type} [Add K] [Sub K] [Mul K] [Div K] [Neg K] [Zero K] [One K] [NatCast K] [Elem K]
variable [LT K] [DecidableLT K]

/-- the surface seen by the incompressible solver: `def_mesh_pg` (`al`, `be` in radians, `B = β_PG`) -/
def pgSurf (al be B : K) (s : VLM.Surf K) : VLM.Surf K :=
  { s with mesh := fun i j => scaleGeom B (toWind al be (s.mesh i j)) }

/-- `normals_pg`: the normals of the ORIGINAL mesh rotated and scaled (`x·β`), not renormalised -/
def pgNormal (al be B : K) (s : VLM.Surf K) (i j : Nat) : V3 K :=
  scaleNormal B (toWind al be (VLM.normal s i j))

/-- the flow seen by the incompressible solver: `alpha_pg = beta_pg = 0` -/
def pgFlow (f : VLM.Flow K) : VLM.Flow K :=
  { f with alpha := 0, beta := 0, rotational := false }

omit [Add K] [Sub K] [Div K] [Neg K] [Zero K] [One K] [NatCast K] [Elem K] [LT K] [DecidableLT K] in
/-- `ScaleToPrandtlGlauert` on the rotational velocities: `x·β²`, `y·β`, `z·β` -/
def scaleRotVel (B : K) (v : V3 K) : V3 K := ⟨v.x * (B * B), v.y * B, v.z * B⟩

/-- onset velocity the Prandtl–Glauert-domain solve sees at the panel whose (body-frame) collocation point is `c`:
the free stream `(v, 0, 0)` plus, with rotation rates, `ω × (c − cg)` rotated into the wind frame and scaled -/
def pgOnset (f : VLM.Flow K) (al be B : K) (c : V3 K) : V3 K :=
  VLM.freestreamDir (pgFlow f)
    + (if f.rotational then scaleRotVel B (toWind al be (V3.cross f.omega (c - f.cg))) else 0)

/-- `mtx[m, n]` of the Prandtl–Glauert system -/
def aic (surfs : List (VLM.Surf K)) (f : VLM.Flow K) (M : K) (m n : Nat) : K :=
  let al := deg2rad f.alpha; let be := deg2rad f.beta; let B := betaPG M
  match VLM.locate surfs m with
  | none => 0
  | some (s, i, j) =>
    V3.dot (VLM.influence (surfs.map (pgSurf al be B)) (pgFlow f) (VLM.collPt (pgSurf al be B s) i j) n) (pgNormal al be B s i j)

/-- `rhs[m]` of the Prandtl–Glauert system -/
def rhs (surfs : List (VLM.Surf K)) (f : VLM.Flow K) (M : K) (m : Nat) : K :=
  let al := deg2rad f.alpha; let be := deg2rad f.beta; let B := betaPG M
  match VLM.locate surfs m with
  | none => 0
  | some (s, i, j) => -(V3.dot (pgOnset f al be B (VLM.collPt s i j)) (pgNormal al be B s i j))

/-- onset velocity of the Prandtl–Glauert-domain solve at global panel `k` -/
def pgOnsetAt (surfs : List (VLM.Surf K)) (f : VLM.Flow K) (al be B : K) (k : Nat) : V3 K :=
  match VLM.locate surfs k with
  | none => 0
  | some (s, i, j) => pgOnset f al be B (VLM.collPt s i j)

/-- `sec_forces[m]`: panel force of the transformed problem, unscaled and rotated back -/
def secForce (surfs : List (VLM.Surf K)) (f : VLM.Flow K) (M : K) (gamma : Nat → K) (m : Nat) : V3 K :=
  let al := deg2rad f.alpha; let be := deg2rad f.beta; let B := betaPG M
  fromWind al be (unscaleForce B (VLM.panelForceWith (surfs.map (pgSurf al be B)) (pgFlow f) (pgOnsetAt surfs f al be B) gamma m))

end
end PG
end OAS
