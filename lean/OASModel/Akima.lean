import OASModel.Scalar
/-
  OASModel.Akima — the interpolation behind `common/atmos_comp.py`:
    `T_interp = Akima(USatm1976Data.alt, USatm1976Data.T)` … (scipy's `Akima1DInterpolator`, method "akima", no extrapolation),
    `AtmosComp.compute` (five table columns and `v = speed_of_sound * Mach_number`); `compute_partials` uses the derivative
    splines `T_interp.derivative(1)` …, here the forward-mode derivative of the same term.

  A table is `n ≥ 3` knots `x 0 < … < x (n−1)` with values `y`.  Transliterated from scipy 1.x `_cubic.py`:
    m[2 … n]   = secant slopes,  m[1], m[0], m[n+1], m[n+2] extrapolated linearly,
    t[i]       = m[i+1] + f2/(f1+f2) · (m[i+2] − m[i+1])   where f1 = |m[i+3] − m[i+2]|, f2 = |m[i+1] − m[i]|  and
                 f1 + f2 > 1e−9 · max(f1 + f2); otherwise (m[i+3] + m[i]) / 2,
    segment i  : the cubic Hermite polynomial through (x i, y i, t i) and (x (i+1), y (i+1), t (i+1)) in powers of `q − x i`.
-/
namespace OAS
namespace Akima
section
variable {K : Type} [Add K] [Sub K] [Mul K] [Div K] [NatCast K]

/-- `np.diff(y) / dx` -/
def secant (x y : Nat → K) (i : Nat) : K := (y (i + 1) - y i) / (x (i + 1) - x i)

/-- scipy's array `m` (length `n + 3`) -/
def mExt (n : Nat) (x y : Nat → K) (k : Nat) : K :=
  let s := secant x y
  let two : K := ((2 : Nat) : K)
  if k = 0 then two * (two * s 0 - s 1) - s 0
  else if k = 1 then two * s 0 - s 1
  else if k ≤ n then s (k - 2)
  else if k = n + 1 then two * s (n - 2) - s (n - 3)
  else two * (two * s (n - 2) - s (n - 3)) - s (n - 2)

/-- the cubic Hermite segment through `(x0, y0)` with slope `t0` and `(x1, y1)` with slope `t1` (`CubicHermiteSpline`: coefficients
`c[0] … c[3]` of `PPoly`, evaluated at `q`) -/
def hermite (x0 x1 y0 y1 t0 t1 q : K) : K :=
  let two : K := ((2 : Nat) : K)
  let dx := x1 - x0
  let slope := (y1 - y0) / dx
  let t := (t0 + t1 - two * slope) / dx
  let c0 := t / dx
  let c1 := (slope - t0) / dx - t
  let s := q - x0
  c0 * s * s * s + c1 * s * s + t0 * s + y0

variable [Elem K] [LT K] [DecidableLT K]

/-- `f1[i] + f2[i]` -/
def f12 (n : Nat) (x y : Nat → K) (i : Nat) : K :=
  Elem.abs (mExt n x y (i + 3) - mExt n x y (i + 2)) + Elem.abs (mExt n x y (i + 1) - mExt n x y i)

/-- `max(f 0, …, f n)` -/
def maxTo : Nat → (Nat → K) → K
  | 0, f => f 0
  | n + 1, f => let m := maxTo n f; if m < f (n + 1) then f (n + 1) else m

/-- the slope `t[i]` at knot `i` given `mmax = max(f12)` -/
def knotSlope (n : Nat) (x y : Nat → K) (mmax : K) (i : Nat) : K :=
  let f := f12 n x y i
  if dec 1 1000000000 * mmax < f then
    mExt n x y (i + 1) + Elem.abs (mExt n x y (i + 1) - mExt n x y i) / f * (mExt n x y (i + 2) - mExt n x y (i + 1))
  else dec 1 2 * (mExt n x y (i + 3) + mExt n x y i)

/-- index of the segment of `q`: the largest `i ≤ k` with `x i ≤ q` (0 when there is none) -/
def locate (x : Nat → K) (q : K) : Nat → Nat
  | 0 => 0
  | k + 1 => if q < x (k + 1) then locate x q k else k + 1

/-- `Akima(x, y)(q)` for `x 0 ≤ q ≤ x (n−1)` -/
def eval (n : Nat) (x y : Nat → K) (q : K) : K :=
  let mmax := maxTo (n - 1) (f12 n x y)
  let i := locate x q (n - 2)
  hermite (x i) (x (i + 1)) (y i) (y (i + 1)) (knotSlope n x y mmax i) (knotSlope n x y mmax (i + 1)) q

/-- `AtmosComp.compute`: `T, P, rho, speed_of_sound, mu, v` -/
def atmos (n : Nat) (alt tT tP tRho tA tMu : Nat → K) (altitude mach : K) : K × K × K × K × K × K :=
  let a := eval n alt tA altitude
  (eval n alt tT altitude, eval n alt tP altitude, eval n alt tRho altitude, a, eval n alt tMu altitude, a * mach)

end
end Akima
end OAS
