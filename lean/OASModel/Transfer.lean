import OASModel.Vec3
/-
  OASModel.Transfer — transliteration of
    openaerostruct/transfer/load_transfer.py           (LoadTransfer.compute)
    openaerostruct/transfer/displacement_transfer.py   (DisplacementTransfer.compute)
    openaerostruct/transfer/compute_transformation_matrix.py
    openaerostruct/aerodynamics/mesh_point_forces.py   (MeshPointForces.compute)
    openaerostruct/structures/compute_nodes.py         (ComputeNodes.compute)
-/
namespace OAS

section
variable {K : Type} [Add K] [Sub K] [Mul K] [Div K] [Neg K] [Zero K] [One K] [NatCast K]

/-- `ComputeNodes.compute`: `(1 - w) * mesh[0] + w * mesh[-1]` -/
def computeNodes (nx : Nat) (w : K) (mesh : Mesh K) : Pts K :=
  fun j => V3.smul (1 - w) (mesh 0 j) + V3.smul w (mesh (nx - 1) j)

namespace LoadTransfer

/-- aerodynamic centre of panel `(i,j)` (`a_pts`), `w1 = 0.25` in the code -/
def aPt (w1 : K) (mesh : Mesh K) (i j : Nat) : V3 K :=
  V3.smul (dec 1 2 * (1 - w1)) (mesh i j) + V3.smul (dec 1 2 * w1) (mesh (i + 1) j)
    + V3.smul (dec 1 2 * (1 - w1)) (mesh i (j + 1)) + V3.smul (dec 1 2 * w1) (mesh (i + 1) (j + 1))

/-- structural node of spanwise station `j` (`s_pts`) -/
def sPt (nx : Nat) (w2 : K) (mesh : Mesh K) (j : Nat) : V3 K :=
  V3.smul (1 - w2) (mesh 0 j) + V3.smul w2 (mesh (nx - 1) j)

/-- `sec_forces_sum = 0.5 * np.sum(sec_forces, axis=0)` -/
def secSum (nx : Nat) (F : Nat → Nat → V3 K) (j : Nat) : V3 K :=
  V3.smul (dec 1 2) (V3.sumTo (nx - 1) (fun i => F i j))

def momentIn (nx : Nat) (w1 w2 : K) (mesh : Mesh K) (F : Nat → Nat → V3 K) (j : Nat) : V3 K :=
  V3.sumTo (nx - 1) (fun i => V3.cross (aPt w1 mesh i j - sPt nx w2 mesh j) (V3.smul (dec 1 2) (F i j)))

def momentOut (nx : Nat) (w1 w2 : K) (mesh : Mesh K) (F : Nat → Nat → V3 K) (j : Nat) : V3 K :=
  V3.sumTo (nx - 1) (fun i => V3.cross (aPt w1 mesh i j - sPt nx w2 mesh (j + 1)) (V3.smul (dec 1 2) (F i j)))

/-- `outputs["loads"][j, :3]` -/
def force (nx ny : Nat) (F : Nat → Nat → V3 K) (j : Nat) : V3 K :=
  (if j < ny - 1 then secSum nx F j else 0) + (if 1 ≤ j then secSum nx F (j - 1) else 0)

/-- `outputs["loads"][j, 3:]` -/
def moment (nx ny : Nat) (w1 w2 : K) (mesh : Mesh K) (F : Nat → Nat → V3 K) (j : Nat) : V3 K :=
  (if j < ny - 1 then momentIn nx w1 w2 mesh F j else 0)
    + (if 1 ≤ j then momentOut nx w1 w2 mesh F (j - 1) else 0)

end LoadTransfer

/-- `ComputeTransformationMatrix.compute` for one node with rotations `(rx, ry, rz)` -/
def transformationMatrix [Elem K] (r : V3 K) : M3 K :=
  let two : K := ((2 : Nat) : K)
  let cx := Elem.cos r.x; let sx := Elem.sin r.x
  let cy := Elem.cos r.y; let sy := Elem.sin r.y
  let cz := Elem.cos r.z; let sz := Elem.sin r.z
  { r0 := ⟨0 - two + cy + cz, 0 - sz, 0 + sy⟩
    r1 := ⟨0 + sz, 0 - two + cx + cz, 0 - sx⟩
    r2 := ⟨0 - sy, 0 + sx, 0 - two + cx + cy⟩ }

/-- `DisplacementTransfer.compute`: `mesh + disp[:, :3] + T · (mesh − nodes)` -/
def displacementTransfer (mesh : Mesh K) (nodes : Pts K) (dispT : Pts K) (T : Nat → M3 K) : Mesh K :=
  fun i j => mesh i j + dispT j + (T j).mulVec (mesh i j - nodes j)

/-- `MeshPointForces.compute` (`le_wt = 0.375`, `te_wt = 0.125` by default) -/
def meshPointForces (nx ny : Nat) (le te : K) (F : Nat → Nat → V3 K) : Mesh K :=
  fun i j =>
    (0 : V3 K)
      + (if i < nx - 1 ∧ j < ny - 1 then V3.smul le (F i j) else 0)
      + (if 1 ≤ i ∧ j < ny - 1 then V3.smul te (F (i - 1) j) else 0)
      + (if 1 ≤ i ∧ 1 ≤ j then V3.smul te (F (i - 1) (j - 1)) else 0)
      + (if i < nx - 1 ∧ 1 ≤ j then V3.smul le (F i (j - 1)) else 0)

end

end OAS
