import OASModel.Vec3
/-
  OASModel.PG — transliteration of aerodynamics/pg_wind_rotation.py and pg_scale.py (compute), and of
  mphys/utils.py (get_src_indices), demux_surface_mesh.py, mux_surface_forces.py.
-/
namespace OAS
namespace PG
section
variable {K : Type} [Add K] [Sub K] [Mul K] [Div K] [Neg K] [Zero K] [One K] [NatCast K] [Elem K]

/-- wind-frame rotation matrix `Tw` (angles in radians) -/
def tw (a b : K) : M3 K :=
  let ca := Elem.cos a; let sa := Elem.sin a; let cb := Elem.cos b; let sb := Elem.sin b
  ⟨⟨cb * ca, -sb, cb * sa⟩, ⟨sb * ca, cb, sb * sa⟩, ⟨-sa, 0, ca⟩⟩

omit [Sub K] [Div K] [Neg K] [Zero K] [One K] [NatCast K] [Elem K] in
def transpose (m : M3 K) : M3 K :=
  ⟨⟨m.r0.x, m.r1.x, m.r2.x⟩, ⟨m.r0.y, m.r1.y, m.r2.y⟩, ⟨m.r0.z, m.r1.z, m.r2.z⟩⟩

/-- `RotateToWindFrame`: every point / vector is multiplied by `Tw` -/
def toWind (a b : K) (v : V3 K) : V3 K := (tw a b).mulVec v
/-- `RotateFromWindFrame`: forces are multiplied by `Twᵀ` -/
def fromWind (a b : K) (v : V3 K) : V3 K := (transpose (tw a b)).mulVec v

/-- `betaPG = sqrt(1 - M²)` -/
def betaPG (M : K) : K := Elem.sqrt (1 - M * M)

omit [Add K] [Sub K] [Div K] [Neg K] [Zero K] [One K] [NatCast K] [Elem K] in
/-- geometry (points, bound vectors, meshes): `y, z` multiplied by `β` -/
def scaleGeom (B : K) (v : V3 K) : V3 K := ⟨v.x, v.y * B, v.z * B⟩
omit [Add K] [Sub K] [Div K] [Neg K] [Zero K] [One K] [NatCast K] [Elem K] in
/-- normals: `x` multiplied by `β` -/
def scaleNormal (B : K) (n : V3 K) : V3 K := ⟨n.x * B, n.y, n.z⟩
omit [Add K] [Sub K] [Neg K] [Zero K] [NatCast K] [Elem K] in
/-- `ScaleFromPrandtlGlauert`: forces scaled by `1/β⁴` (x) and `1/β³` (y, z) -/
def unscaleForce (B : K) (f : V3 K) : V3 K :=
  ⟨f.x * (1 / (B * B * B * B)), f.y * (1 / (B * B * B)), f.z * (1 / (B * B * B))⟩
end
end PG

/-! ### MPhys (de)multiplexers: flat array ↔ per-surface arrays, via prefix offsets (`get_src_indices`) -/
namespace Mux

/-- start of surface `s` in the flat array: sum of the sizes of the preceding surfaces -/
def offset : List Nat → Nat → Nat
  | [], _ => 0
  | _ :: _, 0 => 0
  | n :: rest, s + 1 => n + offset rest s

/-- flat index → (surface, local index) -/
def locate : List Nat → Nat → Option (Nat × Nat)
  | [], _ => none
  | n :: rest, g => if g < n then some (0, g) else (locate rest (g - n)).map (fun p => (p.1 + 1, p.2))

def total (sz : List Nat) : Nat := sz.sum

variable {K : Type} [Zero K]

/-- `DemuxSurfaceMesh.compute`: `out_s[k] = flat[src_indices_s[k]]` -/
def demux (sz : List Nat) (flat : Nat → K) (s k : Nat) : K := flat (offset sz s + k)

/-- `MuxSurfaceForces.compute`: `flat[src_indices_s[k]] = in_s[k]` -/
def mux (sz : List Nat) (parts : Nat → Nat → K) (g : Nat) : K :=
  match locate sz g with
  | some (s, k) => parts s k
  | none => 0

end Mux
end OAS
