import OASModel.Vec3
import OASModel.AeroFunc
/-
  OASModel.VLM — transliteration of the vortex-lattice core
    aerodynamics/collocation_points.py, vortex_mesh.py, get_vectors.py, eval_mtx.py (compute),
    convert_velocity.py, rotational_velocity.py, mtx_rhs.py, horseshoe_circulations.py,
    eval_velocities.py, panel_forces.py, panel_forces_surf.py  and the wiring of states.py.
  Panels of a surface are indexed `(i, j)`, `i < nx-1` chordwise, `j < ny-1` spanwise; the global
  panel index of the surface list is `offset(surface) + i*(ny-1) + j` (C order), as in the code.
-/
namespace OAS
namespace VLM
section
variable {K : Type} [Add K] [Sub K] [Mul K] [Div K] [Neg K] [Zero K] [One K] [NatCast K] [Elem K]
variable [LT K] [DecidableLT K]

/-- one lifting surface as seen by the VLM components -/
structure Surf (K : Type) where
  nx : Nat
  ny : Nat
  sym : Bool
  left : Bool        -- `left_wing` of VortexMesh; EvalVelMtx flips the result when it is false
  ground : Bool      -- `groundplane`
  mesh : Mesh K      -- `def_mesh`

omit [Add K] [Sub K] [Mul K] [Div K] [Neg K] [Zero K] [One K] [NatCast K] [Elem K] [LT K] [DecidableLT K] in
def Surf.npanels (s : Surf K) : Nat := (s.nx - 1) * (s.ny - 1)

/-! ### kernel (`eval_mtx.py`) -/

/-- `tol = 1e-10` -/
def tol : K := dec 1 10000000000

/-- `_compute_finite_vortex(r1, r2)` -/
def finiteVortex (r1 r2 : V3 K) : V3 K :=
  let n1 := V3.norm r1; let n2 := V3.norm r2
  let c := V3.cross r1 r2
  let d := V3.dot r1 r2
  let f := 1 / n1 + 1 / n2
  let den := n1 * n2 + d
  let q := den * ((4 : Nat) : K) * Elem.pi
  if tol < Elem.abs den then ⟨f * c.x / q, f * c.y / q, f * c.z / q⟩ else 0

/-- `_compute_semi_infinite_vortex(u, r)` -/
def semiInfVortex (u r : V3 K) : V3 K :=
  let n := V3.norm r
  let c := V3.cross u r
  let den := n * (n - V3.dot u r)
  ⟨c.x / den / ((4 : Nat) : K) / Elem.pi, c.y / den / ((4 : Nat) : K) / Elem.pi, c.z / den / ((4 : Nat) : K) / Elem.pi⟩

/-- velocity induced at `p` by the unit-strength vortex ring `(i, j)` of the vortex mesh `vm` -/
def ring (vm : Mesh K) (p : V3 K) (i j : Nat) : V3 K :=
  let A := p - vm i (j + 1); let B := p - vm i j; let C := p - vm (i + 1) j; let D := p - vm (i + 1) (j + 1)
  finiteVortex A B + finiteVortex B C + finiteVortex C D + finiteVortex D A

/-- extra segment and the two trailing legs (direction `u`) attached to the last chordwise ring row -/
def trailing (u : V3 K) (vm : Mesh K) (p : V3 K) (i j : Nat) : V3 K :=
  let C := p - vm (i + 1) j; let D := p - vm (i + 1) (j + 1)
  finiteVortex D C - semiInfVortex u D + semiInfVortex u C

/-- ring `(i,j)` of a lattice with `nx` chordwise node rows starting at row `r0` of `vm` -/
def latticeVel (nx : Nat) (u : V3 K) (vm : Mesh K) (r0 : Nat) (p : V3 K) (i j : Nat) : V3 K :=
  let m : Mesh K := fun a b => vm (r0 + a) b
  ring m p i j + (if i + 2 = nx then trailing u m p i j else 0)

/-! ### vortex mesh (`vortex_mesh.py`) -/

omit [Add K] [Sub K] [Mul K] [Div K] [Zero K] [One K] [NatCast K] [Elem K] [LT K] [DecidableLT K] in
def mirrorY (v : V3 K) : V3 K := ⟨v.x, -v.y, v.z⟩

omit [Add K] [Sub K] [Mul K] [Div K] [Zero K] [One K] [NatCast K] [Elem K] [LT K] [DecidableLT K] in
/-- the half mesh extended by its mirror image (`2 ny − 1` columns) for a symmetric surface -/
def extMesh (s : Surf K) : Mesh K := fun i c =>
  if s.sym then
    if s.left then (if c < s.ny then s.mesh i c else mirrorY (s.mesh i (2 * s.ny - 2 - c)))
    else (if c < s.ny - 1 then mirrorY (s.mesh i (s.ny - 1 - c)) else s.mesh i (c - (s.ny - 1)))
  else s.mesh i c

/-- reflection across the ground plane (normal `n = (sin α, 0, −cos α)`, through `h·n`), `α` in radians -/
def groundReflect (alphaRad h : K) (m : V3 K) : V3 K :=
  let n : V3 K := ⟨Elem.sin alphaRad, 0, -Elem.cos alphaRad⟩
  let v := m - V3.smul h n
  let t := V3.dot v n
  m - V3.smul ((2 : Nat) : K) (V3.smul t n)

/-- quarter-chord shift of a lattice with `nx` rows: `0.75 m[i] + 0.25 m[i+1]`, last row unchanged -/
def shiftQuarter (nx : Nat) (m : Mesh K) : Mesh K := fun i c =>
  if i + 1 < nx then V3.smul (dec 75 100) (m i c) + V3.smul (dec 25 100) (m (i + 1) c) else m i c

/-- `VortexMesh.compute` (`alphaRad`, `h` only used with ground effect) -/
def vortexMesh (s : Surf K) (alphaRad h : K) : Mesh K :=
  let e := extMesh s
  if s.ground then
    fun i c =>
      if i < s.nx then shiftQuarter s.nx e i c
      else shiftQuarter s.nx (fun a b => groundReflect alphaRad h (e a b)) (i - s.nx) c
  else shiftQuarter s.nx e

/-! ### collocation points (`collocation_points.py`) -/

def collPt (s : Surf K) (i j : Nat) : V3 K :=
  V3.smul (dec 25 100 * dec 5 10) (s.mesh i j) + V3.smul (dec 75 100 * dec 5 10) (s.mesh (i + 1) j)
    + V3.smul (dec 25 100 * dec 5 10) (s.mesh i (j + 1)) + V3.smul (dec 75 100 * dec 5 10) (s.mesh (i + 1) (j + 1))

def forcePt (s : Surf K) (i j : Nat) : V3 K :=
  V3.smul (dec 75 100 * dec 5 10) (s.mesh i j) + V3.smul (dec 25 100 * dec 5 10) (s.mesh (i + 1) j)
    + V3.smul (dec 75 100 * dec 5 10) (s.mesh i (j + 1)) + V3.smul (dec 25 100 * dec 5 10) (s.mesh (i + 1) (j + 1))

def boundVec (s : Surf K) (i j : Nat) : V3 K :=
  V3.smul (dec 75 100) (s.mesh i j) + V3.smul (dec 25 100) (s.mesh (i + 1) j)
    + V3.smul (-(dec 75 100)) (s.mesh i (j + 1)) + V3.smul (-(dec 25 100)) (s.mesh (i + 1) (j + 1))

/-! ### influence of one surface's ring `(i,j)` at a point (`EvalVelMtx.compute`) -/

/-- wake direction `(cos α, 0, sin α)`, `α` in degrees -/
def wakeDir (alphaDeg : K) : V3 K := ⟨Elem.cos (deg2rad alphaDeg), 0, Elem.sin (deg2rad alphaDeg)⟩

/-- ring `(i, jj)` of the (extended) vortex mesh, minus its ground image when ground effect is on -/
def velRaw (s : Surf K) (u : V3 K) (vm : Mesh K) (p : V3 K) (i jj : Nat) : V3 K :=
  if s.ground then latticeVel s.nx u vm 0 p i jj - latticeVel s.nx u vm s.nx p i jj
  else latticeVel s.nx u vm 0 p i jj

/-- `vel_mtx[p, i, j, :]`: symmetric fold `res[:ny-1] + res[ny-1:][::-1]` and right-wing flip -/
def velMtx (s : Surf K) (alphaDeg : K) (vm : Mesh K) (p : V3 K) (i j : Nat) : V3 K :=
  let u := wakeDir alphaDeg
  if s.sym then
    let jf := if s.left then j else s.ny - 2 - j
    velRaw s u vm p i jf + velRaw s u vm p i (2 * s.ny - 3 - jf)
  else velRaw s u vm p i j

/-! ### the assembled system (`mtx_rhs.py`, `convert_velocity.py`, `rotational_velocity.py`) -/

/-- flow condition -/
structure Flow (K : Type) where
  alpha : K      -- deg
  beta : K       -- deg
  v : K
  rho : K
  omega : V3 K   -- rad/s
  cg : V3 K
  h : K          -- height_agl
  rotational : Bool

omit [LT K] [DecidableLT K] in
/-- `ConvertVelocity`: `v (cos α cos β, −sin β, sin α cos β)` -/
def freestreamDir (f : Flow K) : V3 K :=
  let a := deg2rad f.alpha; let b := deg2rad f.beta
  ⟨f.v * (Elem.cos a * Elem.cos b), f.v * (-Elem.sin b), f.v * (Elem.sin a * Elem.cos b)⟩

omit [LT K] [DecidableLT K] in
/-- onset velocity at a collocation point `c` (free stream + `ω × (c − cg)` when rotational) -/
def onset (f : Flow K) (c : V3 K) : V3 K :=
  if f.rotational then freestreamDir f + V3.cross f.omega (c - f.cg) else freestreamDir f

/-- global panel index → (surface, i, j) -/
def locate : List (Surf K) → Nat → Option (Surf K × Nat × Nat)
  | [], _ => none
  | s :: rest, m =>
    if m < s.npanels then some (s, m / (s.ny - 1), m % (s.ny - 1)) else locate rest (m - s.npanels)

omit [Add K] [Sub K] [Mul K] [Div K] [Neg K] [Zero K] [One K] [NatCast K] [Elem K] [LT K] [DecidableLT K] in
def totalPanels (l : List (Surf K)) : Nat := (l.map Surf.npanels).sum

/-- panel normal of a surface (VLMGeometry.normals of its `def_mesh`) -/
def normal (s : Surf K) (i j : Nat) : V3 K := VLMGeometry.normals s.mesh i j

/-- velocity induced at point `p` by unit circulation of global panel `n` -/
def influence (surfs : List (Surf K)) (f : Flow K) (p : V3 K) (n : Nat) : V3 K :=
  match locate surfs n with
  | none => 0
  | some (s, i, j) => velMtx s f.alpha (vortexMesh s (deg2rad f.alpha) f.h) p i j

/-- `mtx[m, n]` -/
def aic (surfs : List (Surf K)) (f : Flow K) (m n : Nat) : K :=
  match locate surfs m with
  | none => 0
  | some (s, i, j) => V3.dot (influence surfs f (collPt s i j) n) (normal s i j)

/-- `rhs[m]` -/
def rhs (surfs : List (Surf K)) (f : Flow K) (m : Nat) : K :=
  match locate surfs m with
  | none => 0
  | some (s, i, j) => -(V3.dot (onset f (collPt s i j)) (normal s i j))

/-- `HorseshoeCirculations`: chordwise difference of the ring strengths -/
def horseshoe (surfs : List (Surf K)) (gamma : Nat → K) (m : Nat) : K :=
  match locate surfs m with
  | none => 0
  | some (s, i, _) => if 1 ≤ i then gamma m - gamma (m - (s.ny - 1)) else gamma m

/-- `force_pts_velocities[m]`: onset velocity (evaluated at the *collocation* point, as in the code) plus
the induction of all rings at the force point -/
def forcePtVelocity (surfs : List (Surf K)) (f : Flow K) (gamma : Nat → K) (m : Nat) : V3 K :=
  match locate surfs m with
  | none => 0
  | some (s, i, j) =>
    onset f (collPt s i j)
      + V3.sumTo (totalPanels surfs) (fun n => V3.smul (gamma n) (influence surfs f (forcePt s i j) n))

/-- `panel_forces[m] = ρ Γ_hs (V × bound_vec)` -/
def panelForce (surfs : List (Surf K)) (f : Flow K) (gamma : Nat → K) (m : Nat) : V3 K :=
  match locate surfs m with
  | none => 0
  | some (s, i, j) =>
    V3.smul (f.rho * horseshoe surfs gamma m) (V3.cross (forcePtVelocity surfs f gamma m) (boundVec s i j))

/-- `panel_forces[m]` with the onset velocity of every panel given explicitly (`onsetAt m`, global panel index): the
form used by the compressible group, whose onset velocities are transformed separately from the geometry -/
def panelForceWith (surfs : List (Surf K)) (f : Flow K) (onsetAt : Nat → V3 K) (gamma : Nat → K) (m : Nat) : V3 K :=
  match locate surfs m with
  | none => 0
  | some (s, i, j) =>
    let vel := onsetAt m
      + V3.sumTo (totalPanels surfs) (fun n => V3.smul (gamma n) (influence surfs f (forcePt s i j) n))
    V3.smul (f.rho * horseshoe surfs gamma m) (V3.cross vel (boundVec s i j))

end
end VLM
end OAS
