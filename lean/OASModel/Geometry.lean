import OASModel.Vec3
import OASModel.AeroFunc
/-
  OASModel.Geometry — transliteration of geometry/geometry_mesh_transformations.py (compute of the
  nine transformations) and the chain of geometry/geometry_mesh.py.
  Meshes are `[nx, ny, 3]`; `mesh 0` is the leading edge, `mesh (nx-1)` the trailing edge.
-/
namespace OAS
namespace Geo
section
variable {K : Type} [Add K] [Sub K] [Mul K] [Div K] [Neg K] [Zero K] [One K] [NatCast K]

/-- `ref_axis = pos * te + (1 - pos) * le` -/
def refAxis (nx : Nat) (pos : K) (mesh : Mesh K) : Pts K :=
  fun j => V3.smul pos (mesh (nx - 1) j) + V3.smul (1 - pos) (mesh 0 j)

/-- scale the section offset from the reference axis: `(mesh - ref) * f + ref` (all components) -/
def scaleAbout (ref : Pts K) (f : Nat → K) (mesh : Mesh K) : Mesh K :=
  fun i j => V3.smul (f j) (mesh i j - ref j) + ref j

section interp
variable [LT K] [DecidableLT K]
/-- `np.interp(x, [x0, x1], [f0, f1])` for `x0 < x1` (clamped outside) -/
def interp2 (x x0 x1 f0 f1 : K) : K :=
  if x < x0 then f0            -- left of the table: fp[0]   (np.interp returns fp[0] for x <= xp[0])
  else if x < x1 then (f1 - f0) / (x1 - x0) * (x - x0) + f0
  else f1

/-- `np.interp(x, [x0, x1, x2], [f0, f1, f2])` for `x0 < x1 < x2` -/
def interp3 (x x0 x1 x2 f0 f1 f2 : K) : K :=
  if x < x0 then f0
  else if x < x1 then (f1 - f0) / (x1 - x0) * (x - x0) + f0
  else if x < x2 then (f2 - f1) / (x2 - x1) * (x - x1) + f1
  else f2

/-- the spanwise taper distribution of `Taper.compute` for a given vector of end values:
symmetric `xp = [-span, 0]`, full `xp = [-span/2, 0, span/2]`, `span = y[ny-1] - y[0]` -/
def taperDist (ny : Nat) (sym : Bool) (ref : Pts K) (ftip froot : K) (j : Nat) : K :=
  let span := (ref (ny - 1)).y - (ref 0).y
  if sym then interp2 (ref j).y (-span) 0 ftip froot
  else interp3 (ref j).y (-span / ((2 : Nat) : K)) 0 (span / ((2 : Nat) : K)) ftip froot ftip

/-- `Taper.compute` -/
def taper (nx ny : Nat) (sym : Bool) (pos : K) (mesh : Mesh K) (t : K) : Mesh K :=
  let ref := refAxis nx pos mesh
  scaleAbout ref (taperDist ny sym ref t 1) mesh

/-- `Taper.compute_partials` (as repaired by the fix: commit): `d mesh / d taper` -/
def taperPartial (nx ny : Nat) (sym : Bool) (pos : K) (mesh : Mesh K) : Mesh K :=
  let ref := refAxis nx pos mesh
  fun i j => V3.smul (taperDist ny sym ref 1 0 j) (mesh i j - ref j)
end interp

/-- `ScaleX.compute` -/
def scaleX (nx : Nat) (pos : K) (mesh : Mesh K) (chord : Nat → K) : Mesh K :=
  scaleAbout (refAxis nx pos mesh) chord mesh

/-- spanwise shear distance used by `Sweep` and `Dihedral`:
symmetric: `-(y_j - y_root)`, `root = ny-1`; full: `∓ (y_j - y_root)`, `root = (ny-1)/2` -/
def shearDist (ny : Nat) (sym : Bool) (mesh : Mesh K) (j : Nat) : K :=
  if sym then -((mesh 0 j).y - (mesh 0 (ny - 1)).y)
  else
    let r := (ny - 1) / 2
    if j < r then -((mesh 0 j).y - (mesh 0 r).y) else (mesh 0 j).y - (mesh 0 r).y

/-- `Sweep.compute` (angle in degrees) -/
def sweep [Elem K] (ny : Nat) (sym : Bool) (mesh : Mesh K) (angle : K) : Mesh K :=
  let t := Elem.tan (Elem.pi / ((180 : Nat) : K) * angle)
  fun i j => ⟨(mesh i j).x + shearDist ny sym mesh j * t, (mesh i j).y, (mesh i j).z⟩

/-- `Dihedral.compute` -/
def dihedral [Elem K] (ny : Nat) (sym : Bool) (mesh : Mesh K) (angle : K) : Mesh K :=
  let t := Elem.tan (Elem.pi / ((180 : Nat) : K) * angle)
  fun i j => ⟨(mesh i j).x, (mesh i j).y, (mesh i j).z + shearDist ny sym mesh j * t⟩

def shearX (mesh : Mesh K) (s : Nat → K) : Mesh K := fun i j => ⟨(mesh i j).x + s j, (mesh i j).y, (mesh i j).z⟩
def shearY (mesh : Mesh K) (s : Nat → K) : Mesh K := fun i j => ⟨(mesh i j).x, (mesh i j).y + s j, (mesh i j).z⟩
def shearZ (mesh : Mesh K) (s : Nat → K) : Mesh K := fun i j => ⟨(mesh i j).x, (mesh i j).y, (mesh i j).z + s j⟩

/-- `Stretch.compute`: every chordwise row gets `y = ref_y / prev_span * span` -/
def stretch (nx ny : Nat) (sym : Bool) (pos : K) (mesh : Mesh K) (span : K) : Mesh K :=
  let ref := refAxis nx pos mesh
  let sp := if sym then span / ((2 : Nat) : K) else span
  let prev := (ref (ny - 1)).y - (ref 0).y
  fun i j => ⟨(mesh i j).x, (ref j).y / prev * sp, (mesh i j).z⟩

/-- `rad_theta_x` of `Rotate.compute` (dihedral angle of the reference axis, 0 at the root) -/
def thetaX [Elem K] (ny : Nat) (sym : Bool) (ref : Pts K) (j : Nat) : K :=
  if sym then
    if j < ny - 1 then Elem.atan (((ref j).z - (ref (j + 1)).z) / ((ref j).y - (ref (j + 1)).y)) else 0
  else
    let r := (ny - 1) / 2
    if j < r then Elem.atan (((ref j).z - (ref (j + 1)).z) / ((ref j).y - (ref (j + 1)).y))
    else if r < j then Elem.atan (((ref j).z - (ref (j - 1)).z) / ((ref j).y - (ref (j - 1)).y))
    else 0

/-- rotation matrix of `Rotate.compute` -/
def rotMat [Elem K] (tx ty : K) : M3 K :=
  let cx := Elem.cos tx; let sx := Elem.sin tx; let cy := Elem.cos ty; let sy := Elem.sin ty
  ⟨⟨cy, 0, sy⟩, ⟨sx * sy, cx, -sx * cy⟩, ⟨-cx * sy, sx, cx * cy⟩⟩

/-- `Rotate.compute` (twist in degrees) -/
def rotate [Elem K] (nx ny : Nat) (sym rotateX : Bool) (pos : K) (mesh : Mesh K) (twist : Nat → K) : Mesh K :=
  let ref := refAxis nx pos mesh
  fun i j =>
    let tx := if rotateX then thetaX ny sym ref j else 0
    (rotMat tx (deg2rad (twist j))).mulVec (mesh i j - ref j) + ref j

/-- all design variables of the geometry chain -/
structure DVs (K : Type) where
  taper : K
  chord : Nat → K
  sweep : K
  xshear : Nat → K
  span : K
  yshear : Nat → K
  dihedral : K
  zshear : Nat → K
  twist : Nat → K

/-- `GeometryMesh`: taper → scale_x → sweep → shear_x → stretch → shear_y → dihedral → shear_z → rotate -/
def chain [Elem K] [LT K] [DecidableLT K] (nx ny : Nat) (sym : Bool) (pos : K) (mesh : Mesh K) (d : DVs K) : Mesh K :=
  let m := taper nx ny sym pos mesh d.taper
  let m := scaleX nx pos m d.chord
  let m := sweep ny sym m d.sweep
  let m := shearX m d.xshear
  let m := stretch nx ny sym pos m d.span
  let m := shearY m d.yshear
  let m := dihedral ny sym m d.dihedral
  let m := shearZ m d.zshear
  rotate nx ny sym true pos m d.twist

end
end Geo
end OAS
