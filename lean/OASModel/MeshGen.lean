import OASModel.Vec3
/-
  OASModel.MeshGen — transliteration of geometry/utils.py: gen_rect_mesh (blend in [0,1]),
  the symmetric slicing / offset of generate_mesh, getFullMesh, add_chordwise_panels.
-/
namespace OAS
namespace MeshGen
section
variable {K : Type} [Add K] [Sub K] [Mul K] [Div K] [Neg K] [Zero K] [One K] [NatCast K] [Elem K]

omit [Neg K] [Zero K] [One K] [Elem K] in
/-- `np.linspace(a, b, n)[k]`: `a + k * ((b - a) / (n - 1))`, the last entry is exactly `b` -/
def linspace (a b : K) (n k : Nat) : K :=
  if k + 1 = n then b else a + (k : K) * ((b - a) / ((n - 1 : Nat) : K))

/-- `half_wing[k]`, `k < ny2`: blend of cosine and uniform spacing from the tip (`0.5`) to the root (`0`) -/
def halfWing (ny2 : Nat) (s : K) (k : Nat) : K :=
  let beta := linspace 0 (Elem.pi / ((2 : Nat) : K)) ny2 k
  let cosine := dec 5 10 * Elem.cos beta
  let uniform := linspace 0 (dec 5 10) ny2 (ny2 - 1 - k)
  cosine * s + (1 - s) * uniform

/-- `full_wing[c]` for `c < num_y`, `num_y = 2 ny2 − 1` -/
def fullWing (ny2 : Nat) (s span : K) (c : Nat) : K :=
  if c + 1 < ny2 then -(halfWing ny2 s c) * span else halfWing ny2 s (2 * (ny2 - 1) - c) * span

/-- `wing_x[i]` -/
def wingX (numX : Nat) (cs chord : K) (i : Nat) : K :=
  let cosine := dec 5 10 * (1 - Elem.cos (linspace 0 Elem.pi numX i))
  let uniform := linspace 0 1 numX i
  (cosine * cs + (1 - cs) * uniform) * chord

/-- `gen_rect_mesh(num_x, num_y, span, chord, span_cos_spacing, chord_cos_spacing)` -/
def rectMesh (numX numY : Nat) (span chord s cs : K) : Mesh K :=
  fun i j => ⟨wingX numX cs chord i, fullWing ((numY + 1) / 2) s span j, 0⟩

omit [Sub K] [Mul K] [Div K] [Neg K] [Zero K] [One K] [NatCast K] [Elem K] in
/-- `generate_mesh`: slice to the left half when symmetric (`mesh[:, :ny2]` keeps the same indices) and add the offset -/
def withOffset (m : Mesh K) (off : V3 K) : Mesh K := fun i j => m i j + off

omit [Add K] [Sub K] [Mul K] [Div K] [Zero K] [One K] [NatCast K] [Elem K] in
/-- `getFullMesh(left_mesh=half)`: `ny` columns of the half followed by the mirrored columns `ny-2 … 0` -/
def fullFromLeft (ny : Nat) (half : Mesh K) : Mesh K := fun i c =>
  if c < ny then half i c else let h := half i (2 * (ny - 1) - c); ⟨h.x, -h.y, h.z⟩

omit [Add K] [Sub K] [Mul K] [Div K] [Zero K] [One K] [NatCast K] [Elem K] in
/-- `getFullMesh(right_mesh=half)` -/
def fullFromRight (ny : Nat) (half : Mesh K) : Mesh K := fun i c =>
  if c < ny then let h := half i (ny - 1 - c); ⟨h.x, -h.y, h.z⟩ else half i (c - (ny - 1))

/-- `add_chordwise_panels(mesh, num_x, chord_cos_spacing)` -/
def addChordwisePanels (nxOld numX : Nat) (cs : K) (m : Mesh K) : Mesh K := fun i j =>
  if i = 0 then m 0 j
  else if i + 1 = numX then m (nxOld - 1) j
  else
    let w := wingX numX cs 1 i
    V3.smul (1 - w) (m 0 j) + V3.smul w (m (nxOld - 1) j)

end

/-- validation logic of `generate_mesh` (decision only) -/
inductive GenOutcome where
  | ok
  | valueError      -- num_y even
  | nameError       -- unknown wing type
deriving DecidableEq, Repr

def validate (numY : Nat) (wingTypeKnown : Bool) : GenOutcome :=
  if numY % 2 = 0 then .valueError else if wingTypeKnown then .ok else .nameError

end MeshGen
end OAS
