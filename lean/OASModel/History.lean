/-
  OASModel.History — state machines of stateful OpenAeroStruct components (C03).

  * `Stmt` / `exec`: what a statement list does to one cell of framework storage (`partials[...]`,
    `outputs[...]`) — plain assignment, accumulation, scaling.
  * `Cached`: a component that stores data in `self.*` during `compute` and reads it in
    `compute_partials` / `linearize` (MomentCoefficient.M/MAC_wing/S_ref_wing, VLMMtxRHSComp.mtx_n_n_3 /
    normals_n_3, SolveMatrix.lu, FEM._lup/k_data, VonMisesTube.T/x_gl, VortexMesh cached partials).
  * `jacCell`: the Jacobian storage cell of `MomentCoefficient`'s `M` blocks, in the defective
    (accumulate only) and in the repaired (zero, then accumulate) variant.
-/
namespace OAS
namespace History

section cell
variable {K : Type} [Add K] [Mul K]

/-- one statement acting on a storage cell -/
inductive Stmt (K : Type) where
  | assign (v : K)      -- `x[...] = v`
  | accum (v : K)       -- `x[...] += v`   (`-=` with the negated value)
  | scale (c : K)       -- `x[...] *= c`

def step (s : K) : Stmt K → K
  | .assign v => v
  | .accum v => s + v
  | .scale c => s * c

/-- run a statement list on a cell that holds `s` on entry -/
def exec (s : K) (l : List (Stmt K)) : K := l.foldl step s

end cell

section cached
/-- a component with a cache written by `compute` and read by `linearize` -/
structure Cached (X C O J : Type) where
  cacheOf : X → C
  out : X → O
  jac : X → C → J

inductive Op (X : Type) where
  | compute (x : X)
  | linearize (x : X)

/-- outputs emitted by an op -/
inductive Emit (O J : Type) where
  | out (o : O)
  | jac (j : J)
  | nothing

variable {X C O J : Type}

/-- state: the cache (none before the first compute) and the point of the last compute -/
structure St (X C : Type) where
  cache : Option C
  last : Option X

def init : St X C := ⟨none, none⟩

def stepOp (c : Cached X C O J) (s : St X C) : Op X → St X C × Emit O J
  | .compute x => (⟨some (c.cacheOf x), some x⟩, .out (c.out x))
  | .linearize x =>
    match s.cache with
    | some ch => (s, .jac (c.jac x ch))
    | none => (s, .nothing)

/-- run a history, return the final state and the emission of the last op -/
def run (c : Cached X C O J) : St X C → List (Op X) → St X C × Emit O J
  | s, [] => (s, .nothing)
  | s, [op] => stepOp c s op
  | s, op :: rest => run c (stepOp c s op).1 rest

/-- the framework protocol: every `linearize x` happens at the point of the most recent `compute` -/
def Protocol [DecidableEq X] : Option X → List (Op X) → Prop
  | _, [] => True
  | _, .compute x :: rest => Protocol (some x) rest
  | last, .linearize x :: rest => last = some x ∧ Protocol last rest
end cached

section jaccell
variable {K : Type} [Add K] [Zero K]

/-- defective `MomentCoefficient`: each linearisation only accumulates into the `M` blocks -/
def jacCellDefective (s : K) (js : List K) : K := js.foldl (fun acc j => acc + j) s

/-- repaired: each linearisation zeroes the block first, then accumulates -/
def jacCellFixed (s : K) (js : List K) : K := js.foldl (fun _ j => 0 + j) s
end jaccell

end History
end OAS
