import OASProofs.Lemmas.Basic
import OASProofs.Props.C11
import OASProofs.Props.C16
import OASProofs.Props.C15
import OASProofs.Props.C17
import OASProofs.Props.C18
import OASProofs.Props.C17Atmos
import OASProofs.Props.C13
