import OASProofs.Lemmas.Basic
import OASProofs.Props.C11
