import OASProofs.Lemmas.Basic
import OASProofs.Props.C11
import OASProofs.Props.C16
