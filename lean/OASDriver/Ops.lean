import OASDriver.Basic
import OASDriver.LinAlg
/-
  OASDriver.Ops — one entry per modelled OAS function: decode options/inputs, call the model,
  flatten the outputs in numpy (C) order.
-/
namespace OAS.Driver
open OAS

variable {K : Type} [Sc K]

abbrev Op (K : Type) := Array Nat → Array K → Array K

/-- ints: nx ny ; floats: w, mesh[nx,ny,3] -/
def opComputeNodes : Op K := fun n a =>
  let nx := n[0]!; let ny := n[1]!
  outPts #[] ny (computeNodes nx (at_ a 0) (mesh a 1 ny))

/-- ints: nx ny ; floats: w1 w2 mesh[nx,ny,3] F[nx-1,ny-1,3] → loads[ny,6] -/
def opLoadTransfer : Op K := fun n a =>
  let nx := n[0]!; let ny := n[1]!
  let w1 := at_ a 0; let w2 := at_ a 1
  let m := mesh a 2 ny
  let F := mesh a (2 + 3 * nx * ny) (ny - 1)
  Id.run do
    let mut o : Array K := #[]
    for j in [0:ny] do
      o := pushV3 o (LoadTransfer.force nx ny F j)
      o := pushV3 o (LoadTransfer.moment nx ny w1 w2 m F j)
    return o

/-- ints: ny ; floats: disp[ny,6] → T[ny,3,3] -/
def opTransformationMatrix : Op K := fun n a =>
  let ny := n[0]!
  Id.run do
    let mut o : Array K := #[]
    for j in [0:ny] do
      let T := transformationMatrix (⟨at_ a (6*j+3), at_ a (6*j+4), at_ a (6*j+5)⟩ : V3 K)
      o := pushV3 (pushV3 (pushV3 o T.r0) T.r1) T.r2
    return o

/-- ints: nx ny ; floats: mesh[nx,ny,3] nodes[ny,3] disp[ny,6] T[ny,3,3] → def_mesh -/
def opDisplacementTransfer : Op K := fun n a =>
  let nx := n[0]!; let ny := n[1]!
  let m := mesh a 0 ny
  let o1 := 3 * nx * ny
  let nodes := pts a o1
  let o2 := o1 + 3 * ny
  let dispT : Pts K := fun j => ⟨at_ a (o2 + 6*j), at_ a (o2 + 6*j+1), at_ a (o2 + 6*j+2)⟩
  let o3 := o2 + 6 * ny
  let T : Nat → M3 K := fun j => ⟨pts a (o3 + 9*j) 0, pts a (o3 + 9*j) 1, pts a (o3 + 9*j) 2⟩
  outMesh #[] nx ny (displacementTransfer m nodes dispT T)

/-- ints: nx ny ; floats: le te F[nx-1,ny-1,3] → mesh_point_forces[nx,ny,3] -/
def opMeshPointForces : Op K := fun n a =>
  let nx := n[0]!; let ny := n[1]!
  outMesh #[] nx ny (meshPointForces nx ny (at_ a 0) (at_ a 1) (mesh a 2 (ny - 1)))

def outLoads (ny : Nat) (f : Nat → Load K) : Array K := Id.run do
  let mut o : Array K := #[]
  for j in [0:ny] do
    o := pushV3 (pushV3 o (f j).f) (f j).m
  return o

def loadsView (a : Array K) (off : Nat) : Nat → Load K := fun j =>
  ⟨⟨at_ a (off + 6*j), at_ a (off + 6*j+1), at_ a (off + 6*j+2)⟩,
   ⟨at_ a (off + 6*j+3), at_ a (off + 6*j+4), at_ a (off + 6*j+5)⟩⟩

def flag (n : Array Nat) (i : Nat) : Bool := n.getD i 0 != 0

/-- ints: ny sym ; floats: mrho wwr A[ny-1] nodes[ny,3] → structural_mass, element_mass[ny-1] -/
def opWeight : Op K := fun n a =>
  let ny := n[0]!; let sym := flag n 1
  let mrho := at_ a 0; let wwr := at_ a 1
  let A := vec a 2
  let nodes := pts a (2 + (ny - 1))
  outVec #[structuralMass ny sym mrho wwr nodes A] (ny - 1) (elementMass mrho wwr nodes A)

/-- ints: ny sym ; floats: nodes[ny,3] structural_mass element_mass[ny-1] → cg[3] -/
def opStructuralCG : Op K := fun n a =>
  let ny := n[0]!; let sym := flag n 1
  pushV3 #[] (structuralCG ny sym (pts a 0) (at_ a (3*ny)) (vec a (3*ny+1)))

/-- ints: ny ; floats: element_mass[ny-1] load_factor nodes[ny,3] → loads[ny,6] -/
def opStructWeightLoads : Op K := fun n a =>
  let ny := n[0]!
  outLoads ny (structWeightLoads ny (pts a ny) (vec a 0) (at_ a (ny - 1)))

/-- ints: ny sym ; floats: reserve nodes[ny,3] fuel_vols[ny-1] fuel_mass load_factor → loads[ny,6] -/
def opFuelLoads : Op K := fun n a =>
  let ny := n[0]!; let sym := flag n 1
  let o := 1 + 3 * ny
  outLoads ny (fuelLoads ny sym (pts a 1) (vec a o) (at_ a (o + ny - 1)) (at_ a 0) (at_ a (o + ny)))

/-- ints: ny sym ; floats: reserve fuel_density fuelburn fuel_vols[ny-1] → fuel_vol_delta -/
def opFuelVolDelta : Op K := fun n a =>
  let ny := n[0]!; let sym := flag n 1
  #[fuelVolDelta ny sym (vec a 3) (at_ a 2) (at_ a 0) (at_ a 1)]

/-- ints: ny np ; floats: locs[np,3] masses[np] nodes[ny,3] load_factor → weightings[np,ny], loads[ny,6] -/
def opPointMassLoads : Op K := fun n a =>
  let ny := n[0]!; let np := n[1]!
  let locs := pts a 0
  let masses := vec a (3*np)
  let nodes := pts a (4*np)
  let lf := at_ a (4*np + 3*ny)
  Id.run do
    let mut o : Array K := #[]
    for p in [0:np] do
      for j in [0:ny] do o := o.push (nodalWeighting ny nodes (locs p) j)
    return o ++ outLoads ny (pointMassLoads ny np nodes locs masses lf)

/-- ints: ny np ; floats: locs[np,3] thrusts[np] nodes[ny,3] → weightings[np,ny], loads[ny,6] -/
def opThrustLoads : Op K := fun n a =>
  let ny := n[0]!; let np := n[1]!
  let locs := pts a 0
  let thr := vec a (3*np)
  let nodes := pts a (4*np)
  Id.run do
    let mut o : Array K := #[]
    for p in [0:np] do
      for j in [0:ny] do o := o.push (nodalWeighting ny nodes (locs p) j)
    return o ++ outLoads ny (thrustLoads ny np nodes locs thr)

/-- ints: ny relief fuel pm ; floats: the enabled [ny,6] arrays in order loads, sw, fw, pml, tl -/
def opTotalLoads : Op K := fun n a =>
  let ny := n[0]!; let relief := flag n 1; let fuel := flag n 2; let pm := flag n 3
  let o1 := 6 * ny
  let o2 := if relief then o1 + 6 * ny else o1
  let o3 := if fuel then o2 + 6 * ny else o2
  outLoads ny (totalLoads relief fuel pm (loadsView a 0) (loadsView a o1) (loadsView a o2) (loadsView a o3)
    (loadsView a (o3 + 6 * ny)))

/-- ints: nx ny sym projected ; floats: mesh → b_pts[nx-1,ny,3] widths[ny-1] lengths_spanwise[ny-1]
    lengths[ny] normals[nx-1,ny-1,3] S_ref chords[ny]   (order of add_output in geometry.py) -/
def opVLMGeometry : Op K := fun n a =>
  let nx := n[0]!; let ny := n[1]!; let sym := flag n 2; let proj := flag n 3
  let m := mesh a 0 ny
  let o := outMesh #[] (nx - 1) ny (VLMGeometry.bPts m)
  let o := outVec o (ny - 1) (VLMGeometry.widths nx m)
  let o := outVec o (ny - 1) (VLMGeometry.lengthsSpanwise nx m)
  let o := outVec o ny (VLMGeometry.lengths nx m)
  let o := outMesh o (nx - 1) (ny - 1) (VLMGeometry.normals m)
  let o := o.push (VLMGeometry.sRef nx ny sym proj m)
  outVec o ny (VLMGeometry.chords nx m)

/-- ints: nx ny sym ; floats: alpha beta sec_forces[nx-1,ny-1,3] → L D -/
def opLiftDrag : Op K := fun n a =>
  let nx := n[0]!; let ny := n[1]!; let sym := flag n 2
  let r := liftDrag ((nx - 1) * (ny - 1)) sym (at_ a 0) (at_ a 1) (pts a 2)
  #[r.1, r.2]

/-- floats: S_ref L D v rho → CL1 CDi -/
def opCoeffs : Op K := fun _ a =>
  #[coeff (at_ a 1) (at_ a 4) (at_ a 3) (at_ a 0), coeff (at_ a 2) (at_ a 4) (at_ a 3) (at_ a 0)]

/-- floats: CL0 CL1 → CL -/
def opTotalLift : Op K := fun _ a => #[totalLift (at_ a 1) (at_ a 0)]

/-- floats: CD0 CDi CDv CDw → CD -/
def opTotalDrag : Op K := fun _ a => #[totalDrag (at_ a 1) (at_ a 2) (at_ a 3) (at_ a 0)]

/-- ints: nx ny ; floats: alpha sec_forces[nx-1,ny-1,3] widths[ny-1] chords[ny] v rho → Cl[ny-1] -/
def opLiftCoeff2D : Op K := fun n a =>
  let nx := n[0]!; let ny := n[1]!
  let o1 := 1 + 3 * (nx - 1) * (ny - 1)
  let o2 := o1 + (ny - 1)
  let o3 := o2 + ny
  outVec #[] (ny - 1) (liftCoeff2D nx (at_ a 0) (at_ a (o3 + 1)) (at_ a o3) (mesh a 1 (ny - 1)) (vec a o1) (vec a o2))

/-- ints: ny withWave sym ; floats: ka Mach CL lengths_spanwise[ny-1] widths[ny-1] chords[ny] t_over_c[ny-1] → CDw -/
def opWaveDrag : Op K := fun n a =>
  let ny := n[0]!; let ww := flag n 1; let sym := flag n 2
  let o1 := 3; let o2 := o1 + (ny - 1); let o3 := o2 + (ny - 1); let o4 := o3 + ny
  #[WaveDrag.cdw ny ww sym (at_ a 0) (at_ a 1) (at_ a 2) (vec a o4) (vec a o2) (vec a o1) (vec a o3)]

/-- ints: ny withViscous sym ; floats: k_lam c_max_t re Mach S_ref widths[ny-1] lengths_spanwise[ny-1]
    lengths[ny] t_over_c[ny-1] → CDv -/
def opViscousDrag : Op K := fun n a =>
  let ny := n[0]!; let wv := flag n 1; let sym := flag n 2
  let o1 := 5; let o2 := o1 + (ny - 1); let o3 := o2 + (ny - 1); let o4 := o3 + ny
  #[ViscousDrag.cdv ny wv sym (at_ a 0) (at_ a 1) (at_ a 2) (at_ a 3) (at_ a 4) (vec a o1) (vec a o2) (vec a o3) (vec a o4)]

/-- ints: ns ; floats: per surface (CL CD S_ref) … then v rho S_ref_total → L D CL CD -/
def opTotalLiftDrag : Op K := fun n a =>
  let ns := n[0]!
  let r := totalLiftDrag ns (fun s => at_ a (3*s)) (fun s => at_ a (3*s+1)) (fun s => at_ a (3*s+2))
    (at_ a (3*ns+1)) (at_ a (3*ns)) (at_ a (3*ns+2))
  #[r.1, r.2.1, r.2.2.1, r.2.2.2]

/-- ints: ns ; floats: S_ref per surface → S_ref_total -/
def opSumAreas : Op K := fun n a => #[sumAreas n[0]! (vec a 0)]

/-- ints: ns ; floats: structural_mass[ns] fuelburn W0 load_factor CL S_ref_total v rho → L_equals_W total_weight -/
def opEquilibrium : Op K := fun n a =>
  let ns := n[0]!
  let r := equilibrium ns (vec a 0) (at_ a ns) (at_ a (ns+1)) (at_ a (ns+2)) (at_ a (ns+3)) (at_ a (ns+4))
    (at_ a (ns+5)) (at_ a (ns+6))
  #[r.1, r.2]

/-- ints: ns ; floats: structural_mass[ns] CT CL CD speed_of_sound R Mach W0 → fuelburn -/
def opBreguet : Op K := fun n a =>
  let ns := n[0]!
  #[breguetFuelburn ns (vec a 0) (at_ a ns) (at_ a (ns+1)) (at_ a (ns+2)) (at_ a (ns+3)) (at_ a (ns+4))
    (at_ a (ns+5)) (at_ a (ns+6))]

/-- ints: ns ; floats: per surface (structural_mass, cg_location[3]) … total_weight fuelburn W0 load_factor empty_cg[3] → cg[3] -/
def opCenterOfGravity : Op K := fun n a =>
  let ns := n[0]!
  let o := 4 * ns
  pushV3 #[] (centerOfGravity ns (fun s => at_ a (4*s)) (fun s => pts a (4*s+1) 0) (at_ a o) (at_ a (o+1))
    (at_ a (o+2)) (at_ a (o+3)) (pts a (o+4) 0))

/-- floats: rho mu v → re -/
def opReynolds : Op K := fun _ a => #[reynolds (at_ a 0) (at_ a 2) (at_ a 1)]

/-- ints: n ; floats: the table columns alt T P rho a mu (n each), altitude, Mach_number → T P rho speed_of_sound mu v -/
def opAtmosComp : Op K := fun n a =>
  let m := n[0]!
  let r := Akima.atmos m (vec a 0) (vec a m) (vec a (2*m)) (vec a (3*m)) (vec a (4*m)) (vec a (5*m)) (at_ a (6*m)) (at_ a (6*m+1))
  #[r.1, r.2.1, r.2.2.1, r.2.2.2.1, r.2.2.2.2.1, r.2.2.2.2.2]

/-- ints: ns, then (nx ny sym) per surface ; floats: per surface b_pts widths chords S_ref sec_forces ; cg[3] v rho S_ref_total
    → CM[3] M[3] -/
def opMomentCoefficient : Op K := fun n a =>
  let ns := n[0]!
  let (surfs, off) := Id.run do
    let mut l : List (MomentCoefficient.Surf K) := []
    let mut off := 0
    for s in [0:ns] do
      let nx := n[1 + 3*s]!; let ny := n[2 + 3*s]!; let sym := flag n (3 + 3*s)
      let oB := off
      let oW := oB + 3 * (nx - 1) * ny
      let oC := oW + (ny - 1)
      let oS := oC + ny
      let oF := oS + 1
      l := l ++ [{ nx := nx, ny := ny, sym := sym, bPts := mesh a oB ny, widths := vec a oW, chords := vec a oC,
                   sRef := at_ a oS, F := mesh a oF (ny - 1) }]
      off := oF + 3 * (nx - 1) * (ny - 1)
    return (l, off)
  let cg := pts a off 0
  let v := at_ a (off + 3); let rho := at_ a (off + 4); let st := at_ a (off + 5)
  pushV3 (pushV3 #[] (MomentCoefficient.cm surfs cg rho v st)) (MomentCoefficient.moment surfs cg)

def dispView (a : Array K) (off : Nat) : Nat → Disp K := fun j =>
  ⟨⟨at_ a (off + 6*j), at_ a (off + 6*j+1), at_ a (off + 6*j+2)⟩,
   ⟨at_ a (off + 6*j+3), at_ a (off + 6*j+4), at_ a (off + 6*j+5)⟩⟩

/-- ints: ny ; floats: E G nodes[ny,3] radius[ny-1] disp[ny,6] → vonmises[ny-1,2] -/
def opVonMisesTube : Op K := fun n a =>
  let ny := n[0]!
  let nodes := pts a 2
  let radius := vec a (2 + 3*ny)
  let disp := dispView a (2 + 3*ny + (ny - 1))
  Id.run do
    let mut o : Array K := #[]
    for e in [0:ny-1] do
      let r := vonMisesTube (at_ a 0) (at_ a 1) nodes radius disp e
      o := (o.push r.1).push r.2
    return o

/-- ints: ny ; floats: E G tssf nodes[ny,3] disp[ny,6] Qz J A_enc spar_thickness htop hbottom hfront hrear (each [ny-1])
    → vonmises[ny-1,4] -/
def opVonMisesWingbox : Op K := fun n a =>
  let ny := n[0]!; let ne := ny - 1
  let nodes := pts a 3
  let disp := dispView a (3 + 3*ny)
  let o := 3 + 9*ny
  let sec : Nat → WingboxSec K := fun e =>
    ⟨at_ a (o + e), at_ a (o + ne + e), at_ a (o + 2*ne + e), at_ a (o + 3*ne + e), at_ a (o + 4*ne + e),
     at_ a (o + 5*ne + e), at_ a (o + 6*ne + e), at_ a (o + 7*ne + e)⟩
  Id.run do
    let mut out : Array K := #[]
    for e in [0:ne] do
      let r := vonMisesWingbox (at_ a 0) (at_ a 1) (at_ a 2) nodes sec disp e
      out := (((out.push r.1).push r.2.1).push r.2.2.1).push r.2.2.2
    return out

/-- ints: N ; floats: sigma rho vm[N] → failure -/
def opFailureKS : Op K := fun n a =>
  #[failureKS (n[0]! - 1) (at_ a 0) (at_ a 1) (vec a 2)]

/-- ints: N ; floats: sigma vm[N] → failure[N] -/
def opFailureExact : Op K := fun n a =>
  outVec #[] n[0]! (fun i => failureExact (at_ a 0) (at_ a (1 + i)))

/-- ints: ne ; floats: radius[ne] thickness[ne] → A Iy Iz J (each [ne]) -/
def opSectionPropertiesTube : Op K := fun n a =>
  let ne := n[0]!
  let f := fun e => sectionPropertiesTube (at_ a e) (at_ a (ne + e))
  let o := outVec #[] ne (fun e => (f e).1)
  let o := outVec o ne (fun e => (f e).2.1)
  let o := outVec o ne (fun e => (f e).2.2.1)
  outVec o ne (fun e => (f e).2.2.2)

/-- ints: ne ; floats: thickness[ne] radius[ne] → thickness_intersects[ne] -/
def opNonIntersectingThickness : Op K := fun n a =>
  let ne := n[0]!
  outVec #[] ne (fun e => nonIntersectingThickness (at_ a e) (at_ a (ne + e)))

/-- ints: ny ; floats: disp[ny,6] loads[ny,6] → energy -/
def opEnergy : Op K := fun n a =>
  let m := 6 * n[0]!
  #[energy m (vec a 0) (vec a m)]

/-! geometry transformations: ints nx ny sym ; floats: ref_axis_pos, DV…, in_mesh -/

def opTaper : Op K := fun n a =>
  let nx := n[0]!; let ny := n[1]!; let sym := flag n 2
  outMesh #[] nx ny (Geo.taper nx ny sym (at_ a 0) (mesh a 2 ny) (at_ a 1))

/-- the repaired analytic partial d mesh / d taper -/
def opTaperPartial : Op K := fun n a =>
  let nx := n[0]!; let ny := n[1]!; let sym := flag n 2
  outMesh #[] nx ny (Geo.taperPartial nx ny sym (at_ a 0) (mesh a 2 ny))

def opScaleX : Op K := fun n a =>
  let nx := n[0]!; let ny := n[1]!
  outMesh #[] nx ny (Geo.scaleX nx (at_ a 0) (mesh a (1 + ny) ny) (vec a 1))

def opSweep : Op K := fun n a =>
  let nx := n[0]!; let ny := n[1]!; let sym := flag n 2
  outMesh #[] nx ny (Geo.sweep ny sym (mesh a 1 ny) (at_ a 0))

def opDihedral : Op K := fun n a =>
  let nx := n[0]!; let ny := n[1]!; let sym := flag n 2
  outMesh #[] nx ny (Geo.dihedral ny sym (mesh a 1 ny) (at_ a 0))

/-- ints: nx ny axis(0,1,2) ; floats: shear[ny] in_mesh -/
def opShear : Op K := fun n a =>
  let nx := n[0]!; let ny := n[1]!; let ax := n[2]!
  let m := mesh a ny ny
  let s := vec a 0
  outMesh #[] nx ny (if ax = 0 then Geo.shearX m s else if ax = 1 then Geo.shearY m s else Geo.shearZ m s)

def opStretch : Op K := fun n a =>
  let nx := n[0]!; let ny := n[1]!; let sym := flag n 2
  outMesh #[] nx ny (Geo.stretch nx ny sym (at_ a 0) (mesh a 2 ny) (at_ a 1))

/-- ints: nx ny sym rotate_x ; floats: pos twist[ny] in_mesh -/
def opRotate : Op K := fun n a =>
  let nx := n[0]!; let ny := n[1]!; let sym := flag n 2; let rx := flag n 3
  outMesh #[] nx ny (Geo.rotate nx ny sym rx (at_ a 0) (mesh a (1 + ny) ny) (vec a 1))

/-- the whole chain, materialised stage by stage.
    ints: nx ny sym ; floats: pos taper chord[ny] sweep xshear[ny] span yshear[ny] dihedral zshear[ny] twist[ny] mesh -/
def opGeometryChain : Op K := fun n a =>
  let nx := n[0]!; let ny := n[1]!; let sym := flag n 2
  let pos := at_ a 0
  let oChord := 2; let oSweep := oChord + ny; let oXs := oSweep + 1; let oSpan := oXs + ny; let oYs := oSpan + 1
  let oDih := oYs + ny; let oZs := oDih + 1; let oTw := oZs + ny; let oMesh := oTw + ny
  let m := mesh a oMesh ny
  let a1 := outMesh #[] nx ny (Geo.taper nx ny sym pos m (at_ a 1))
  let a2 := outMesh #[] nx ny (Geo.scaleX nx pos (mesh a1 0 ny) (vec a oChord))
  let a3 := outMesh #[] nx ny (Geo.sweep ny sym (mesh a2 0 ny) (at_ a oSweep))
  let a4 := outMesh #[] nx ny (Geo.shearX (mesh a3 0 ny) (vec a oXs))
  let a5 := outMesh #[] nx ny (Geo.stretch nx ny sym pos (mesh a4 0 ny) (at_ a oSpan))
  let a6 := outMesh #[] nx ny (Geo.shearY (mesh a5 0 ny) (vec a oYs))
  let a7 := outMesh #[] nx ny (Geo.dihedral ny sym (mesh a6 0 ny) (at_ a oDih))
  let a8 := outMesh #[] nx ny (Geo.shearZ (mesh a7 0 ny) (vec a oZs))
  let m := mesh a8 0 ny
  outMesh #[] nx ny (Geo.rotate nx ny sym true pos m (vec a oTw))

/-! ### VLM -/

/-- decode the surface list: ints `ns, (nx ny sym left ground)*`; meshes are consecutive in `a` from `off` -/
def vlmSurfs (n : Array Nat) (i0 : Nat) (a : Array K) (off : Nat) : List (VLM.Surf K) × Nat := Id.run do
  let ns := n.getD i0 0
  let mut l : List (VLM.Surf K) := []
  let mut o := off
  for s in [0:ns] do
    let nx := n.getD (i0 + 1 + 5*s) 0; let ny := n.getD (i0 + 2 + 5*s) 0
    l := l ++ [{ nx := nx, ny := ny, sym := flag n (i0 + 3 + 5*s), left := flag n (i0 + 4 + 5*s),
                 ground := flag n (i0 + 5 + 5*s), mesh := mesh a o ny }]
    o := o + 3 * nx * ny
  return (l, o)

/-- ints: ns (nx ny sym left ground)* ; floats: meshes → coll_pts[N,3] force_pts[N,3] bound_vecs[N,3] -/
def opCollocationPoints : Op K := fun n a =>
  let (surfs, _) := vlmSurfs n 0 a 0
  Id.run do
    let mut c : Array K := #[]; let mut f : Array K := #[]; let mut b : Array K := #[]
    for s in surfs do
      for i in [0:s.nx-1] do
        for j in [0:s.ny-1] do
          c := pushV3 c (VLM.collPt s i j); f := pushV3 f (VLM.forcePt s i j); b := pushV3 b (VLM.boundVec s i j)
    return c ++ f ++ b

/-- ints: 1 nx ny sym left ground ; floats: alpha_rad h mesh → vortex_mesh -/
def opVortexMesh : Op K := fun n a =>
  let (surfs, _) := vlmSurfs n 0 a 2
  match surfs with
  | [] => #[]
  | s :: _ =>
    let rows := if s.ground then 2 * s.nx else s.nx
    let cols := if s.sym then 2 * s.ny - 1 else s.ny
    outMesh #[] rows cols (VLM.vortexMesh s (at_ a 0) (at_ a 1))

/-- ints: 1 nx ny sym left ground npts ; floats: alpha_deg vectors[npts, nxv, nyv, 3] → vel_mtx[npts,nx-1,ny-1,3]
    (`vectors = eval point − vortex mesh`, so the model is called with `p = 0`, `vm = −vectors[p]`) -/
def opEvalVelMtx : Op K := fun n a =>
  let (surfs, _) := vlmSurfs n 0 a 0
  let npts := n.getD 6 0
  match surfs with
  | [] => #[]
  | s :: _ =>
    let rows := if s.ground then 2 * s.nx else s.nx
    let cols := if s.sym then 2 * s.ny - 1 else s.ny
    Id.run do
      let mut o : Array K := #[]
      for p in [0:npts] do
        let vm : Mesh K := fun i c => -(mesh a (1 + 3 * p * rows * cols) cols i c)
        for i in [0:s.nx-1] do
          for j in [0:s.ny-1] do
            o := pushV3 o (VLM.velMtx s (at_ a 0) vm 0 i j)
      return o

/-- ints: ns (nx ny)* ; floats: circulations[N] → horseshoe_circulations[N] -/
def opHorseshoe : Op K := fun n a =>
  let ns := n.getD 0 0
  let surfs : List (VLM.Surf K) := (List.range ns).map fun s =>
    { nx := n.getD (1 + 2*s) 0, ny := n.getD (2 + 2*s) 0, sym := false, left := true, ground := false, mesh := fun _ _ => 0 }
  outVec #[] (VLM.totalPanels surfs) (VLM.horseshoe surfs (vec a 0))

/-- floats: alpha beta v → freestream (one row); rotational part is added by the caller -/
def opConvertVelocity : Op K := fun n a =>
  let npts := n.getD 0 0; let rot := flag n 1
  let f : VLM.Flow K := { alpha := at_ a 0, beta := at_ a 1, v := at_ a 2, rho := 0, omega := 0, cg := 0, h := 0, rotational := false }
  let d := VLM.freestreamDir f
  Id.run do
    let mut o : Array K := #[]
    for p in [0:npts] do
      o := pushV3 o (if rot then d + pts a 3 p else d)
    return o

/-- ints: npts ; floats: cg[3] omega[3] coll_pts[npts,3] → rotational_velocities -/
def opRotationalVelocity : Op K := fun n a =>
  let npts := n.getD 0 0
  outPts #[] npts (fun p => V3.cross (pts a 3 0) (pts a 6 p - pts a 0 0))

/-- ints: N ; floats: rho horseshoe[N] velocities[N,3] bound_vecs[N,3] → panel_forces[N,3] -/
def opPanelForces : Op K := fun n a =>
  let N := n.getD 0 0
  outPts #[] N (fun m => V3.smul (at_ a 0 * at_ a (1 + m)) (V3.cross (pts a (1 + N) m) (pts a (1 + 4 * N) m)))

/-- core of the `VLMStates` pipeline on materialised data: returns (circulations, panel forces, matrix rows, rhs).
    `nrmOverride`: when given, these panel normals (global panel order) replace the ones computed from the meshes
    (used by the Prandtl–Glauert pipeline, whose normals are transformed, not recomputed). -/
def vlmCore (surfs : List (VLM.Surf K)) (f : VLM.Flow K) (nrmOverride : Option (Nat → V3 K) := none)
    (onsetOverride : Option (Nat → V3 K) := none) :
    Array K × Array (V3 K) × Array (Array K) × Array K :=
  let N := VLM.totalPanels surfs
  let vms : Array (Array K) := (surfs.map fun s =>
      outMesh #[] (if s.ground then 2 * s.nx else s.nx) (if s.sym then 2 * s.ny - 1 else s.ny)
        (VLM.vortexMesh s (deg2rad f.alpha) f.h)).toArray
  let infl := fun (p : V3 K) (m : Nat) => Id.run do
    let mut off := 0
    let mut k := 0
    let mut res : V3 K := 0
    let mut found := false
    for s in surfs do
      if !found then
        if m < off + s.npanels then
          let l := m - off
          let cols := if s.sym then 2 * s.ny - 1 else s.ny
          let vm := mesh (vms.getD k #[]) 0 cols
          res := VLM.velMtx s f.alpha vm p (l / (s.ny - 1)) (l % (s.ny - 1))
          found := true
        off := off + s.npanels
        k := k + 1
    return res
  let locs : Array (VLM.Surf K × Nat × Nat) := (Array.range N).filterMap fun m => VLM.locate surfs m
  let nrm : Nat → V3 K := match nrmOverride with
    | some g => g
    | none => fun m => match locs[m]? with
      | some (s, i, j) => VLM.normal s i j
      | none => 0
  let A : Array (Array K) := locs.mapIdx fun r (s, i, j) =>
    (Array.range N).map fun m => V3.dot (infl (VLM.collPt s i j) m) (nrm r)
  let ons : Nat → V3 K := match onsetOverride with
    | some g => g
    | none => fun m => match locs[m]? with
      | some (s, i, j) => VLM.onset f (VLM.collPt s i j)
      | none => 0
  let b : Array K := locs.mapIdx fun r _ => -(V3.dot (ons r) (nrm r))
  let g := gaussSolve N A b
  let gamma := fun m => at_ g m
  let forces : Array (V3 K) := locs.mapIdx fun m (s, i, j) =>
    let vel := ons m
      + V3.sumTo N (fun k => V3.smul (gamma k) (infl (VLM.forcePt s i j) k))
    V3.smul (f.rho * VLM.horseshoe surfs gamma m) (V3.cross vel (VLM.boundVec s i j))
  (g, forces, A, b)

/-- the whole `VLMStates` pipeline.
    ints: rotational, ns (nx ny sym left ground)* ; floats: alpha beta v rho omega[3] cg[3] h meshes…
    → circulations[N], panel forces[N,3], mtx[N,N], rhs[N] -/
def opVLMStates : Op K := fun n a =>
  let rot := flag n 0
  let (surfs, _) := vlmSurfs n 1 a 11
  let f : VLM.Flow K := { alpha := at_ a 0, beta := at_ a 1, v := at_ a 2, rho := at_ a 3, omega := pts a 4 0, cg := pts a 7 0,
                          h := at_ a 10, rotational := rot }
  let (g, forces, A, b) := vlmCore surfs f
  Id.run do
    let mut o : Array K := g
    for v in forces do o := pushV3 o v
    for r in A do o := o ++ r
    return o ++ b

/-- `CompressibleVLMStates`: rotate meshes, normals and rotational velocities into the wind frame, stretch / scale, solve the
    incompressible problem at alpha = beta = 0, unscale the forces, rotate back.
    ints: rotational, ns (nx ny sym left ground)* ; floats: alpha beta v rho Mach omega[3] cg[3] meshes… → panel forces[N,3] -/
def opCompressibleStates : Op K := fun n a =>
  let rot := flag n 0
  let (surfs, _) := vlmSurfs n 1 a 11
  let al := deg2rad (at_ a 0); let be := deg2rad (at_ a 1)
  let B := PG.betaPG (at_ a 4)
  let f : VLM.Flow K := { alpha := at_ a 0, beta := at_ a 1, v := at_ a 2, rho := at_ a 3, omega := pts a 5 0, cg := pts a 8 0, h := 0,
                          rotational := rot }
  -- transformed surfaces (materialised)
  let tsurfs : List (VLM.Surf K) := surfs.map fun s =>
    let arr := outMesh #[] s.nx s.ny (PG.pgSurf al be B s).mesh
    { s with mesh := mesh arr 0 s.ny }
  -- normals of the ORIGINAL meshes, rotated and scaled (x * beta), not renormalised; onset velocities from the ORIGINAL
  -- collocation points
  let (nrmArr, onsArr) : Array (V3 K) × Array (V3 K) := Id.run do
    let mut o : Array (V3 K) := #[]
    let mut w : Array (V3 K) := #[]
    for s in surfs do
      for i in [0:s.nx-1] do
        for j in [0:s.ny-1] do
          o := o.push (PG.pgNormal al be B s i j)
          w := w.push (PG.pgOnset f al be B (VLM.collPt s i j))
    return (o, w)
  let (_, forces, _, _) := vlmCore tsurfs (PG.pgFlow f) (some fun m => nrmArr.getD m 0) (some fun m => onsArr.getD m 0)
  Id.run do
    let mut o : Array K := #[]
    for v in forces do o := pushV3 o (PG.fromWind al be (PG.unscaleForce B v))
    return o

/-- coupled aerostructural state of one surface by block Gauss–Seidel (no weight relief):
    ints: nx ny sym left ; floats: alpha beta v rho fem_origin mesh[nx,ny,3] nodes[ny,3] kloc[ne,12,12]
    → disp[ny,6], sec_forces[N,3], loads[ny,6], iterations -/
def opAeroStructCoupled : Op K := fun n a =>
  let nx := n[0]!; let ny := n[1]!; let sym := flag n 2; let left := flag n 3
  let ne := ny - 1
  let oM := 5; let oN := oM + 3 * nx * ny; let oK := oN + 3 * ny
  let m0 := mesh a oM ny
  let nodes := pts a oN
  let kloc := fun e r c => at_ a (oK + 144*e + 12*r + c)
  let size := 6 * ny + 6
  let Kf := FEM.assembleK ny (FEM.clampIndex ny sym) kloc
  let Kmat : Array (Array K) := (Array.range size).map fun r => (Array.range size).map fun c => Kf r c
  let f : VLM.Flow K := { alpha := at_ a 0, beta := at_ a 1, v := at_ a 2, rho := at_ a 3, omega := 0, cg := 0, h := 0, rotational := false }
  Id.run do
    let mut disp : Array K := Array.replicate (6 * ny) 0
    let mut forcesOut : Array (V3 K) := #[]
    let mut loadsOut : Array K := #[]
    let mut its := 0
    for _ in [0:200] do
      let d := disp
      let dispT : Pts K := fun j => ⟨at_ d (6*j), at_ d (6*j+1), at_ d (6*j+2)⟩
      let T : Nat → M3 K := fun j => transformationMatrix (⟨at_ d (6*j+3), at_ d (6*j+4), at_ d (6*j+5)⟩ : V3 K)
      let dmArr := outMesh #[] nx ny (displacementTransfer m0 nodes dispT T)
      let dm := mesh dmArr 0 ny
      let s : VLM.Surf K := { nx := nx, ny := ny, sym := sym, left := left, ground := false, mesh := dm }
      let (_, forces, _, _) := vlmCore [s] f
      let F : Nat → Nat → V3 K := fun i j => forces.getD (i * (ny - 1) + j) 0
      let loads : Array K := Id.run do
        let mut o : Array K := #[]
        for j in [0:ny] do
          o := pushV3 o (LoadTransfer.force nx ny F j)
          o := pushV3 o (LoadTransfer.moment nx ny (dec 25 100) (at_ a 4) dm F j)
        return o
      let rhs := (Array.range size).map fun r => FEM.createRHS ny (vec loads 0) r
      let u := gaussSolve size Kmat rhs
      let newDisp := u.extract 0 (6 * ny)
      -- convergence measure on the values (works for Float and for duals through `<` on the value part)
      let mut diff : K := 0
      let mut scale : K := 0
      for k in [0:6*ny] do
        let e := Elem.abs (at_ newDisp k - at_ disp k)
        if diff < e then diff := e
        let v := Elem.abs (at_ newDisp k)
        if scale < v then scale := v
      disp := newDisp
      forcesOut := forces
      loadsOut := loads
      its := its + 1
      if diff < dec 1 10000000000000 * scale then break
    let mut o : Array K := disp
    for v in forcesOut do o := pushV3 o v
    o := o ++ loadsOut
    return o.push ((its : Nat) : K)

/-- ints: npts, toWind(1)/fromWind(0) ; floats: alpha beta (rad), vectors[npts,3] → rotated vectors -/
def opPGRotate : Op K := fun n a =>
  let npts := n.getD 0 0
  outPts #[] npts (fun p => if flag n 1 then PG.toWind (at_ a 0) (at_ a 1) (pts a 2 p) else PG.fromWind (at_ a 0) (at_ a 1) (pts a 2 p))

/-- ints: npts, kind (0 geometry, 1 normal, 2 force) ; floats: Mach, vectors[npts,3] -/
def opPGScale : Op K := fun n a =>
  let npts := n.getD 0 0; let kind := n.getD 1 0
  let B := PG.betaPG (at_ a 0)
  outPts #[] npts (fun p => if kind = 0 then PG.scaleGeom B (pts a 1 p) else if kind = 1 then PG.scaleNormal B (pts a 1 p)
    else PG.unscaleForce B (pts a 1 p))

/-- ints: mode (0 demux, 1 mux), ns, sizes… ; floats: flat (demux) or concatenated parts (mux) → the other layout -/
def opMux : Op K := fun n a =>
  let ns := n.getD 1 0
  let sz := (List.range ns).map fun s => n.getD (2 + s) 0
  let tot := Mux.total sz
  if flag n 0 then
    -- mux: parts are given concatenated in list order
    outVec #[] tot (Mux.mux sz (fun s k => at_ a (Mux.offset sz s + k)))
  else
    Id.run do
      let mut o : Array K := #[]
      for s in [0:ns] do
        for k in [0:sz.getD s 0] do o := o.push (Mux.demux sz (vec a 0) s k)
      return o

/-! ### beam FEM -/

def outMat (o : Array K) (n m : Nat) (f : Nat → Nat → K) : Array K := Id.run do
  let mut o := o
  for i in [0:n] do
    for j in [0:m] do o := o.push (f i j)
  return o

/-- ints: ny ; floats: nodes[ny,3] → element_lengths[ny-1] -/
def opLength : Op K := fun n a => outVec #[] (n[0]! - 1) (elemLength (pts a 0))

/-- ints: ny ; floats: nodes[ny,3] → transform[ny-1,12,12] -/
def opTransform : Op K := fun n a =>
  let ny := n[0]!
  Id.run do
    let mut o : Array K := #[]
    for e in [0:ny-1] do
      o := outMat o 12 12 (FEM.transform12 (FEM.triad (pts a 0 e) (pts a 0 (e + 1))))
    return o

/-- ints: ny ; floats: E G A[ne] Iy[ne] Iz[ne] J[ne] L[ne] → local_stiff[ne,12,12] -/
def opLocalStiff : Op K := fun n a =>
  let ne := n[0]! - 1
  Id.run do
    let mut o : Array K := #[]
    for e in [0:ne] do
      o := outMat o 12 12 (FEM.localStiff (at_ a 0) (at_ a 1) (at_ a (2 + e)) (at_ a (2 + ne + e)) (at_ a (2 + 2*ne + e))
        (at_ a (2 + 3*ne + e)) (at_ a (2 + 4*ne + e)))
    return o

/-- ints: ny ; floats: local_stiff[ne,12,12] → local_stiff_permuted -/
def opLocalStiffPermuted : Op K := fun n a =>
  let ne := n[0]! - 1
  Id.run do
    let mut o : Array K := #[]
    for e in [0:ne] do
      o := outMat o 12 12 (FEM.permuted (fun r c => at_ a (144*e + 12*r + c)))
    return o

/-- ints: ny ; floats: local_stiff_permuted[ne,12,12] transform[ne,12,12] → local_stiff_transformed -/
def opLocalStiffTransformed : Op K := fun n a =>
  let ne := n[0]! - 1
  Id.run do
    let mut o : Array K := #[]
    for e in [0:ne] do
      o := outMat o 12 12 (FEM.transformed (fun r c => at_ a (144*ne + 144*e + 12*r + c)) (fun r c => at_ a (144*e + 12*r + c)))
    return o

/-- ints: ny ; floats: total_loads[ny,6] → forces[6ny+6] -/
def opCreateRHS : Op K := fun n a =>
  let ny := n[0]!
  outVec #[] (6 * ny + 6) (FEM.createRHS ny (vec a 0))

/-- ints: ny sym ; floats: local_stiff_transformed[ne,12,12] forces[6ny+6] → disp_aug[6ny+6] (own Gaussian elimination) -/
def opFEMSolve : Op K := fun n a =>
  let ny := n[0]!; let sym := flag n 1
  let ne := ny - 1
  let size := 6 * ny + 6
  let kloc := fun e r c => at_ a (144*e + 12*r + c)
  let Kf := FEM.assembleK ny (FEM.clampIndex ny sym) kloc
  let A : Array (Array K) := (Array.range size).map fun r => (Array.range size).map fun c => Kf r c
  gaussSolve size A ((Array.range size).map fun r => at_ a (144*ne + r))

/-- ints: ny sym ; floats: E G nodes[ny,3] A Iy Iz J (each [ne]) loads[ny,6] → disp[ny,6]  (SpatialBeam chain) -/
def opSpatialBeam : Op K := fun n a =>
  let ny := n[0]!; let sym := flag n 1
  let ne := ny - 1
  let size := 6 * ny + 6
  let nodes := pts a 2
  let o := 2 + 3 * ny
  let kl : Array (Array K) := (Array.range ne).map fun e =>
    outMat #[] 12 12 (FEM.elementK (at_ a 0) (at_ a 1) nodes (vec a o) (vec a (o + ne)) (vec a (o + 2*ne)) (vec a (o + 3*ne)) e)
  let kloc := fun e r c => at_ (kl.getD e #[]) (12*r + c)
  let Kf := FEM.assembleK ny (FEM.clampIndex ny sym) kloc
  let A : Array (Array K) := (Array.range size).map fun r => (Array.range size).map fun c => Kf r c
  let f := (Array.range size).map fun r => FEM.createRHS ny (vec a (o + 4*ne)) r
  let u := gaussSolve size A f
  u.extract 0 (6 * ny)

/-- ints: num_x num_y sym ; floats: span chord span_cos chord_cos offset[3] → mesh (half when symmetric) -/
def opGenRectMesh : Op K := fun n a =>
  let nx := n[0]!; let ny := n[1]!; let sym := flag n 2
  let m := MeshGen.withOffset (MeshGen.rectMesh nx ny (at_ a 0) (at_ a 1) (at_ a 2) (at_ a 3)) (pts a 4 0)
  outMesh #[] nx (if sym then (ny + 1) / 2 else ny) m

/-- ints: nx ny left(1)/right(0) ; floats: half mesh → full mesh [nx, 2ny-1, 3] -/
def opGetFullMesh : Op K := fun n a =>
  let nx := n[0]!; let ny := n[1]!
  outMesh #[] nx (2 * ny - 1) (if flag n 2 then MeshGen.fullFromLeft ny (mesh a 0 ny) else MeshGen.fullFromRight ny (mesh a 0 ny))

/-- ints: nx shift nsec ny_0 … ny_{nsec-1} ; floats: section meshes … → unified mesh [nx, uni_ny, 3] -/
def opUnifyMesh : Op K := fun n a =>
  let nx := n[0]!; let shift := flag n 1; let ns := n[2]!
  let secs : List (Unify.Sec K) := Id.run do
    let mut off := 0
    let mut l : List (Unify.Sec K) := []
    for k in [0:ns] do
      let ny := n[3 + k]!
      l := l ++ [{ ny := ny, mesh := mesh a off ny }]
      off := off + 3 * nx * ny
    return l
  let (u, tot) := Unify.unify shift secs
  outMesh #[] nx tot u

/-- ints: nx_old ny num_x ; floats: chord_cos_spacing mesh → new mesh [num_x, ny, 3] -/
def opAddChordwisePanels : Op K := fun n a =>
  let nxo := n[0]!; let ny := n[1]!; let numX := n[2]!
  outMesh #[] numX ny (MeshGen.addChordwisePanels nxo numX (at_ a 0) (mesh a 1 ny))

/-- decision logic: ints = kind, params… → outcome code (0 ok, 1 ValueError, 2 NameError) as a float -/
def opValidate : Op K := fun n _ =>
  let kind := n.getD 0 0
  let o : Validate.Outcome :=
    if kind = 0 then Validate.generateMesh (n.getD 1 0) (flag n 2) (flag n 3)
    else if kind = 1 then Validate.groundEffect (flag n 1) (flag n 2)
    else if kind = 2 then Validate.structModel (n.getD 1 0) (flag n 2) (flag n 3)
    else Validate.sections (n.getD 1 0) (flag n 2) (n.getD 3 0) (n.getD 4 0) (n.getD 5 0) (n.getD 6 0) (n.getD 7 0) (n.getD 8 0)
  #[((o.code : Nat) : K)]

/-! ### wingbox section, wingbox geometry, radii, glue components -/

def airfoilView (a : Array K) (off npt : Nat) : Wingbox.Airfoil K :=
  ⟨vec a off, vec a (off + npt), vec a (off + 2 * npt), vec a (off + 3 * npt)⟩

/-- ints: ny npt ; floats: tc0 xu[npt] yu[npt] xl[npt] yl[npt] | streamwise_chords fem_chords fem_twists spar skin t_over_c (each [ny-1])
    → A A_enc A_int Iy Qz Iz J htop hbottom hfront hrear (each [ny-1]) -/
def opSectionPropertiesWingbox : Op K := fun n a =>
  let ny := n[0]!; let npt := n[1]!; let ne := ny - 1
  let af := airfoilView a 1 npt
  let o := 1 + 4 * npt
  let secs : Array (Wingbox.Section K) := (Array.range ne).map fun e =>
    Wingbox.sectionProperties (npt - 1) af (at_ a 0) (at_ a (o + e)) (at_ a (o + ne + e)) (at_ a (o + 2*ne + e))
      (at_ a (o + 3*ne + e)) (at_ a (o + 4*ne + e)) (at_ a (o + 5*ne + e))
  let col (f : Wingbox.Section K → K) (out : Array K) : Array K := secs.foldl (fun acc s => acc.push (f s)) out
  col (·.hrear) <| col (·.hfront) <| col (·.hbottom) <| col (·.htop) <| col (·.J) <| col (·.Iz) <| col (·.Qz) <| col (·.Iy) <|
    col (·.Aint) <| col (·.Aenc) <| col (·.A) #[]

/-- ints: nx ny npt ; floats: xu yu xl yl (each [npt]) | mesh → streamwise_chords fem_chords fem_twists (each [ny-1]) -/
def opWingboxGeometry : Op K := fun n a =>
  let nx := n[0]!; let ny := n[1]!; let npt := n[2]!; let ne := ny - 1
  let af := airfoilView a 0 npt
  let m := mesh a (4 * npt) ny
  let o := outVec #[] ne (Wingbox.streamwiseChord nx m)
  let o := outVec o ne (Wingbox.femChord nx (npt - 1) af m)
  outVec o ne (Wingbox.femTwist nx (npt - 1) af m)

/-- ints: nx ny ; floats: mesh t_over_c[ny-1] → radius[ny-1] -/
def opRadiusComp : Op K := fun n a =>
  let nx := n[0]!; let ny := n[1]!
  outVec #[] (ny - 1) (Wingbox.radii nx (mesh a 0 ny) (vec a (3 * nx * ny)))

/-- ints: nx ny ; floats: mesh radius[ny-1] t_over_c[ny-1] → spar_within_wing[ny-1] -/
def opSparWithinWing : Op K := fun n a =>
  let nx := n[0]!; let ny := n[1]!; let o := 3 * nx * ny
  outVec #[] (ny - 1) (Wingbox.sparWithinWing nx (mesh a 0 ny) (vec a o) (vec a (o + ny - 1)))

/-- ints: ny ; floats: nodes[ny,3] A_int[ny-1] → fuel_vols[ny-1] -/
def opWingboxFuelVol : Op K := fun n a =>
  let ny := n[0]!
  outVec #[] (ny - 1) (Wingbox.fuelVol (pts a 0) (vec a (3 * ny)))

/-- ints: ny ; floats: disp_aug[6(ny+1)] → disp[ny,6] -/
def opDisp : Op K := fun n a =>
  let ny := n[0]!
  Id.run do
    let mut o : Array K := #[]
    for j in [0:ny] do
      for k in [0:6] do o := o.push (Glue.disp (vec a 0) j k)
    return o

/-- ints: ny sym ; floats: v[ny] → monotonic[ny-1] -/
def opMonotonic : Op K := fun n a =>
  let ny := n[0]!
  outVec #[] (ny - 1) (Glue.monotonic ny (flag n 1) (vec a 0))

/-- ints: npoints ; floats: cd[npoints] → CD -/
def opMultiCD : Op K := fun n a => #[Glue.multiCD n[0]! (vec a 0)]

/-- ints: N ; floats: mtx[N,N] rhs[N] circulations[N] → residual[N] -/
def opSolveResidual : Op K := fun n a =>
  let N := n[0]!
  outVec #[] N (Glue.solveResidual N (fun i j => at_ a (i * N + j)) (vec a (N * N)) (vec a (N * N + N)))

/-- panel counts from ints `ns (nx ny)*` starting at position `p` -/
def sizesOf (n : Array Nat) (p : Nat) : List Nat :=
  (List.range (n.getD p 0)).map fun s => (n.getD (p + 1 + 2*s) 0 - 1) * (n.getD (p + 2 + 2*s) 0 - 1)

/-- ints: ns (nx ny)* ; floats: panel_forces[N,3] → per surface sec_forces -/
def opPanelForcesSurf : Op K := fun n a =>
  let sizes := sizesOf n 0
  Id.run do
    let mut o : Array K := #[]
    for s in [0:sizes.length] do
      o := outPts o (sizes.getD s 0) (Glue.panelForcesSurf sizes (pts a 0) s)
    return o

/-- ints: npts ns (nx ny)* ; floats: freestream[npts,3] circulations[N] then per surface vel_mtx[npts, num_s, 3] → velocities[npts,3] -/
def opEvalVelocities : Op K := fun n a =>
  let npts := n[0]!
  let sizes := sizesOf n 1
  let N := Glue.total sizes
  let o0 := 3 * npts + N
  let velMtx : Nat → Nat → Nat → V3 K := fun s p l =>
    pts a (o0 + 3 * npts * Glue.offset sizes s) (p * sizes.getD s 0 + l)
  outPts #[] npts (Glue.evalVelocity sizes velMtx (pts a 0) (vec a (3 * npts)))

/-- ints: ns (nx ny)* ; floats: freestream[N,3] then per surface vel_mtx[N, num_s, 3], normals[num_s, 3] → mtx[N,N] rhs[N] -/
def opMtxRhs : Op K := fun n a =>
  let sizes := sizesOf n 0
  let N := Glue.total sizes
  -- start of surface s's block: 3N + Σ_{t<s} (3 N num_t + 3 num_t)
  let blk : Nat → Nat := fun s => 3 * N + (3 * N + 3) * Glue.offset sizes s
  let velMtx : Nat → Nat → Nat → V3 K := fun s p l => pts a (blk s) (p * sizes.getD s 0 + l)
  let normals : Nat → Nat → V3 K := fun s l => pts a (blk s + 3 * N * sizes.getD s 0) l
  Id.run do
    let mut o : Array K := #[]
    for i in [0:N] do
      for j in [0:N] do o := o.push (Glue.mtxEntry sizes velMtx normals i j)
    for i in [0:N] do o := o.push (Glue.rhsEntry sizes (pts a 0) normals i)
    return o

/-- ints: npts nxv nyv ; floats: eval_pts[npts,3] vortex_mesh[nxv,nyv,3] → vectors[npts,nxv,nyv,3] -/
def opGetVectors : Op K := fun n a =>
  let npts := n[0]!; let nxv := n[1]!; let nyv := n[2]!
  let vm := mesh a (3 * npts) nyv
  Id.run do
    let mut o : Array K := #[]
    for p in [0:npts] do
      o := outMesh o nxv nyv (Glue.getVector (pts a 0) vm p)
    return o



def secsOf (n : Array Nat) (a : Array K) (p nx ns : Nat) : List (Unify.Sec K) := Id.run do
  let mut off := 0
  let mut l : List (Unify.Sec K) := []
  for k in [0:ns] do
    let ny := n.getD (p + k) 0
    l := l ++ [{ ny := ny, mesh := mesh a off ny }]
    off := off + 3 * nx * ny
  return l

/-- ints: nx shift nsec ny_0 … ; floats: section meshes → unified mesh (the component, not the function) -/
def opUnifyComp : Op K := fun n a =>
  let nx := n[0]!; let shift := flag n 1; let ns := n[2]!
  let (u, tot) := Unify.unifyComp shift (secsOf n a 3 nx ns)
  outMesh #[] nx tot u

/-- ints: nx nsec ny_0 … then 3 mask flags per edge ; floats: section meshes → section_separation -/
def opMultiJoin : Op K := fun n a =>
  let nx := n[0]!; let ns := n[1]!
  let secs := secsOf n a 2 nx ns
  Id.run do
    let mut o : Array K := #[]
    for k in [0:ns - 1] do
      for te in [false, true] do
        let v := Unify.joinSeparation nx secs k te
        for d in [0:3] do
          if flag n (2 + ns + 3 * k + d) then o := o.push (v.get d)
    return o

/-- ints: ny sym ; floats: local_stiff_transformed[ne,12,12] forces[6ny+6] disp_aug[6ny+6] → residual[6ny+6] -/
def opFEMResidual : Op K := fun n a =>
  let ny := n[0]!; let sym := flag n 1
  let ne := ny - 1
  let size := 6 * ny + 6
  let kloc := fun e r c => at_ a (144*e + 12*r + c)
  let Kf := FEM.assembleK ny (FEM.clampIndex ny sym) kloc
  outVec #[] size (FEM.residual size Kf (vec a (144*ne + size)) (vec a (144*ne)))



/-- ints: ny sym ; → rows[2(ny-1)] cols[2(ny-1)] vals[2(ny-1)] of the declared sparsity of MonotonicConstraint -/
def opMonotonicPattern : Op K := fun n _ =>
  let ny := n[0]!; let m := 2 * (ny - 1)
  let o := outVec #[] m (fun k => ((Glue.monoRow k : Nat) : K))
  let o := outVec o m (fun k => ((Glue.monoCol k : Nat) : K))
  outVec o m (fun k => Glue.monoVal ny (flag n 1) k)



/-- ints: ny sym ; floats: local_stiff_transformed[ne,12,12] → k_rows, k_cols, k_data (each of the same length) -/
def opFEMPattern : Op K := fun n a =>
  let ny := n[0]!; let sym := flag n 1
  let kloc := fun e r c => at_ a (144*e + 12*r + c)
  let l := FEM.cooEntries ny (FEM.clampIndex ny sym) kloc
  let o := l.foldl (fun (o : Array K) t => o.push ((t.1 : Nat) : K)) #[]
  let o := l.foldl (fun (o : Array K) t => o.push ((t.2.1 : Nat) : K)) o
  l.foldl (fun (o : Array K) t => o.push t.2.2) o



/-- ints: nx sym root nsec ny_0 … ; floats: root_chord then (taper, span, sweep) per section → the section meshes [nx, ny_k, 3] in order -/
def opSectionGeometry : Op K := fun n a =>
  let nx := n[0]!; let sym := flag n 1; let root := n[2]!; let ns := n[3]!
  let specs : List (Sections.Spec K) := (List.range ns).map fun k =>
    { ny := n.getD (4 + k) 0, taper := at_ a (1 + 3 * k), span := at_ a (2 + 3 * k), sweep := at_ a (3 + 3 * k) }
  let gs := Sections.generate nx sym root specs (at_ a 0)
  gs.foldl (fun o g => outMesh o nx g.ny (Sections.oasMesh nx g)) #[]



/-- ints: nx ny ; → rows[12(ny-1)] cols[12(ny-1)] of the declared sparsity of d radius / d mesh (RadiusComp) -/
def opRadiusPattern : Op K := fun n _ =>
  let nx := n[0]!; let ny := n[1]!; let m := 12 * (ny - 1)
  let o := outVec #[] m (fun k => ((Glue.radRow ny k : Nat) : K))
  outVec o m (fun k => ((Glue.radCol nx ny k : Nat) : K))

/-- ints: nx ny ; floats: w → rows[6 ny] cols[6 ny] val[6 ny] of the declared constant partials d nodes / d mesh (ComputeNodes) -/
def opComputeNodesPattern : Op K := fun n a =>
  let nx := n[0]!; let ny := n[1]!; let m := 6 * ny
  let o := outVec #[] m (fun k => ((Glue.nodesRow ny k : Nat) : K))
  let o := outVec o m (fun k => ((Glue.nodesCol nx ny k : Nat) : K))
  outVec o m (fun k => Glue.nodesVal ny (at_ a 0) k)

/-- ints: nx ny off which ; → rows[4m] cols[4m] val[4m], m = 3 (nx-1)(ny-1): declared constant partials of CollocationPoints -/
def opCollocationPattern : Op K := fun n _ =>
  let nx := n[0]!; let ny := n[1]!; let off := n[2]!; let which := n[3]!; let m := 12 * ((nx - 1) * (ny - 1))
  let o := outVec #[] m (fun k => ((Glue.collRow nx ny off k : Nat) : K))
  let o := outVec o m (fun k => ((Glue.collCol nx ny k : Nat) : K))
  outVec o m (fun k => Glue.collVal which nx ny k)

def ops : List (String × Op K) := [
  ("ComputeNodes", opComputeNodes),
  ("LoadTransfer", opLoadTransfer),
  ("TransformationMatrix", opTransformationMatrix),
  ("DisplacementTransfer", opDisplacementTransfer),
  ("MeshPointForces", opMeshPointForces),
  ("Weight", opWeight),
  ("StructuralCG", opStructuralCG),
  ("StructWeightLoads", opStructWeightLoads),
  ("FuelLoads", opFuelLoads),
  ("FuelVolDelta", opFuelVolDelta),
  ("PointMassLoads", opPointMassLoads),
  ("ThrustLoads", opThrustLoads),
  ("TotalLoads", opTotalLoads),
  ("VLMGeometry", opVLMGeometry),
  ("LiftDrag", opLiftDrag),
  ("Coeffs", opCoeffs),
  ("TotalLift", opTotalLift),
  ("TotalDrag", opTotalDrag),
  ("LiftCoeff2D", opLiftCoeff2D),
  ("WaveDrag", opWaveDrag),
  ("ViscousDrag", opViscousDrag),
  ("TotalLiftDrag", opTotalLiftDrag),
  ("SumAreas", opSumAreas),
  ("Equilibrium", opEquilibrium),
  ("Breguet", opBreguet),
  ("CenterOfGravity", opCenterOfGravity),
  ("Reynolds", opReynolds),
  ("AtmosComp", opAtmosComp),
  ("MomentCoefficient", opMomentCoefficient),
  ("VonMisesTube", opVonMisesTube),
  ("VonMisesWingbox", opVonMisesWingbox),
  ("FailureKS", opFailureKS),
  ("FailureExact", opFailureExact),
  ("SectionPropertiesTube", opSectionPropertiesTube),
  ("NonIntersectingThickness", opNonIntersectingThickness),
  ("Energy", opEnergy),
  ("Taper", opTaper),
  ("TaperPartial", opTaperPartial),
  ("ScaleX", opScaleX),
  ("Sweep", opSweep),
  ("Dihedral", opDihedral),
  ("Shear", opShear),
  ("Stretch", opStretch),
  ("Rotate", opRotate),
  ("GeometryChain", opGeometryChain),
  ("CollocationPoints", opCollocationPoints),
  ("VortexMesh", opVortexMesh),
  ("EvalVelMtx", opEvalVelMtx),
  ("Horseshoe", opHorseshoe),
  ("ConvertVelocity", opConvertVelocity),
  ("RotationalVelocity", opRotationalVelocity),
  ("PanelForces", opPanelForces),
  ("VLMStates", opVLMStates),
  ("CompressibleStates", opCompressibleStates),
  ("AeroStructCoupled", opAeroStructCoupled),
  ("PGRotate", opPGRotate),
  ("PGScale", opPGScale),
  ("Mux", opMux),
  ("Length", opLength),
  ("Transform", opTransform),
  ("LocalStiff", opLocalStiff),
  ("LocalStiffPermuted", opLocalStiffPermuted),
  ("LocalStiffTransformed", opLocalStiffTransformed),
  ("CreateRHS", opCreateRHS),
  ("FEMSolve", opFEMSolve),
  ("SpatialBeam", opSpatialBeam),
  ("GenRectMesh", opGenRectMesh),
  ("GetFullMesh", opGetFullMesh),
  ("UnifyMesh", opUnifyMesh),
  ("AddChordwisePanels", opAddChordwisePanels),
  ("Validate", opValidate),
  ("SectionPropertiesWingbox", opSectionPropertiesWingbox),
  ("WingboxGeometry", opWingboxGeometry),
  ("RadiusComp", opRadiusComp),
  ("SparWithinWing", opSparWithinWing),
  ("WingboxFuelVol", opWingboxFuelVol),
  ("Disp", opDisp),
  ("Monotonic", opMonotonic),
  ("MultiCD", opMultiCD),
  ("SolveResidual", opSolveResidual),
  ("PanelForcesSurf", opPanelForcesSurf),
  ("EvalVelocities", opEvalVelocities),
  ("MtxRhs", opMtxRhs),
  ("GetVectors", opGetVectors),
  ("UnifyComp", opUnifyComp),
  ("MultiJoin", opMultiJoin),
  ("FEMResidual", opFEMResidual),
  ("MonotonicPattern", opMonotonicPattern),
  ("FEMPattern", opFEMPattern),
  ("SectionGeometry", opSectionGeometry),
  ("RadiusPattern", opRadiusPattern),
  ("ComputeNodesPattern", opComputeNodesPattern),
  ("CollocationPattern", opCollocationPattern)
]

end OAS.Driver
