import OASDriver.Basic
/-
  OASDriver.Ops — one entry per modelled OAS function: decode options/inputs, call the model,
  flatten the outputs in numpy (C) order.
-/
namespace OAS.Driver
open OAS

variable {K : Type} [Sc K]

abbrev Op (K : Type) := Array Nat → Array K → Array K

/-- ints: nx ny ; floats: w, mesh[nx,ny,3] -/
def opComputeNodes : Op K := fun n a =>
  let nx := n[0]!; let ny := n[1]!
  outPts #[] ny (computeNodes nx (at_ a 0) (mesh a 1 ny))

/-- ints: nx ny ; floats: w1 w2 mesh[nx,ny,3] F[nx-1,ny-1,3] → loads[ny,6] -/
def opLoadTransfer : Op K := fun n a =>
  let nx := n[0]!; let ny := n[1]!
  let w1 := at_ a 0; let w2 := at_ a 1
  let m := mesh a 2 ny
  let F := mesh a (2 + 3 * nx * ny) (ny - 1)
  Id.run do
    let mut o : Array K := #[]
    for j in [0:ny] do
      o := pushV3 o (LoadTransfer.force nx ny F j)
      o := pushV3 o (LoadTransfer.moment nx ny w1 w2 m F j)
    return o

/-- ints: ny ; floats: disp[ny,6] → T[ny,3,3] -/
def opTransformationMatrix : Op K := fun n a =>
  let ny := n[0]!
  Id.run do
    let mut o : Array K := #[]
    for j in [0:ny] do
      let T := transformationMatrix (⟨at_ a (6*j+3), at_ a (6*j+4), at_ a (6*j+5)⟩ : V3 K)
      o := pushV3 (pushV3 (pushV3 o T.r0) T.r1) T.r2
    return o

/-- ints: nx ny ; floats: mesh[nx,ny,3] nodes[ny,3] disp[ny,6] T[ny,3,3] → def_mesh -/
def opDisplacementTransfer : Op K := fun n a =>
  let nx := n[0]!; let ny := n[1]!
  let m := mesh a 0 ny
  let o1 := 3 * nx * ny
  let nodes := pts a o1
  let o2 := o1 + 3 * ny
  let dispT : Pts K := fun j => ⟨at_ a (o2 + 6*j), at_ a (o2 + 6*j+1), at_ a (o2 + 6*j+2)⟩
  let o3 := o2 + 6 * ny
  let T : Nat → M3 K := fun j => ⟨pts a (o3 + 9*j) 0, pts a (o3 + 9*j) 1, pts a (o3 + 9*j) 2⟩
  outMesh #[] nx ny (displacementTransfer m nodes dispT T)

/-- ints: nx ny ; floats: le te F[nx-1,ny-1,3] → mesh_point_forces[nx,ny,3] -/
def opMeshPointForces : Op K := fun n a =>
  let nx := n[0]!; let ny := n[1]!
  outMesh #[] nx ny (meshPointForces nx ny (at_ a 0) (at_ a 1) (mesh a 2 (ny - 1)))

def ops : List (String × Op K) := [
  ("ComputeNodes", opComputeNodes),
  ("LoadTransfer", opLoadTransfer),
  ("TransformationMatrix", opTransformationMatrix),
  ("DisplacementTransfer", opDisplacementTransfer),
  ("MeshPointForces", opMeshPointForces)
]

end OAS.Driver
