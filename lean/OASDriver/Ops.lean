import OASDriver.Basic
/-
  OASDriver.Ops — one entry per modelled OAS function: decode options/inputs, call the model,
  flatten the outputs in numpy (C) order.
-/
namespace OAS.Driver
open OAS

variable {K : Type} [Sc K]

abbrev Op (K : Type) := Array Nat → Array K → Array K

/-- ints: nx ny ; floats: w, mesh[nx,ny,3] -/
def opComputeNodes : Op K := fun n a =>
  let nx := n[0]!; let ny := n[1]!
  outPts #[] ny (computeNodes nx (at_ a 0) (mesh a 1 ny))

/-- ints: nx ny ; floats: w1 w2 mesh[nx,ny,3] F[nx-1,ny-1,3] → loads[ny,6] -/
def opLoadTransfer : Op K := fun n a =>
  let nx := n[0]!; let ny := n[1]!
  let w1 := at_ a 0; let w2 := at_ a 1
  let m := mesh a 2 ny
  let F := mesh a (2 + 3 * nx * ny) (ny - 1)
  Id.run do
    let mut o : Array K := #[]
    for j in [0:ny] do
      o := pushV3 o (LoadTransfer.force nx ny F j)
      o := pushV3 o (LoadTransfer.moment nx ny w1 w2 m F j)
    return o

/-- ints: ny ; floats: disp[ny,6] → T[ny,3,3] -/
def opTransformationMatrix : Op K := fun n a =>
  let ny := n[0]!
  Id.run do
    let mut o : Array K := #[]
    for j in [0:ny] do
      let T := transformationMatrix (⟨at_ a (6*j+3), at_ a (6*j+4), at_ a (6*j+5)⟩ : V3 K)
      o := pushV3 (pushV3 (pushV3 o T.r0) T.r1) T.r2
    return o

/-- ints: nx ny ; floats: mesh[nx,ny,3] nodes[ny,3] disp[ny,6] T[ny,3,3] → def_mesh -/
def opDisplacementTransfer : Op K := fun n a =>
  let nx := n[0]!; let ny := n[1]!
  let m := mesh a 0 ny
  let o1 := 3 * nx * ny
  let nodes := pts a o1
  let o2 := o1 + 3 * ny
  let dispT : Pts K := fun j => ⟨at_ a (o2 + 6*j), at_ a (o2 + 6*j+1), at_ a (o2 + 6*j+2)⟩
  let o3 := o2 + 6 * ny
  let T : Nat → M3 K := fun j => ⟨pts a (o3 + 9*j) 0, pts a (o3 + 9*j) 1, pts a (o3 + 9*j) 2⟩
  outMesh #[] nx ny (displacementTransfer m nodes dispT T)

/-- ints: nx ny ; floats: le te F[nx-1,ny-1,3] → mesh_point_forces[nx,ny,3] -/
def opMeshPointForces : Op K := fun n a =>
  let nx := n[0]!; let ny := n[1]!
  outMesh #[] nx ny (meshPointForces nx ny (at_ a 0) (at_ a 1) (mesh a 2 (ny - 1)))

def outLoads (ny : Nat) (f : Nat → Load K) : Array K := Id.run do
  let mut o : Array K := #[]
  for j in [0:ny] do
    o := pushV3 (pushV3 o (f j).f) (f j).m
  return o

def loadsView (a : Array K) (off : Nat) : Nat → Load K := fun j =>
  ⟨⟨at_ a (off + 6*j), at_ a (off + 6*j+1), at_ a (off + 6*j+2)⟩,
   ⟨at_ a (off + 6*j+3), at_ a (off + 6*j+4), at_ a (off + 6*j+5)⟩⟩

def flag (n : Array Nat) (i : Nat) : Bool := n.getD i 0 != 0

/-- ints: ny sym ; floats: mrho wwr A[ny-1] nodes[ny,3] → structural_mass, element_mass[ny-1] -/
def opWeight : Op K := fun n a =>
  let ny := n[0]!; let sym := flag n 1
  let mrho := at_ a 0; let wwr := at_ a 1
  let A := vec a 2
  let nodes := pts a (2 + (ny - 1))
  outVec #[structuralMass ny sym mrho wwr nodes A] (ny - 1) (elementMass mrho wwr nodes A)

/-- ints: ny sym ; floats: nodes[ny,3] structural_mass element_mass[ny-1] → cg[3] -/
def opStructuralCG : Op K := fun n a =>
  let ny := n[0]!; let sym := flag n 1
  pushV3 #[] (structuralCG ny sym (pts a 0) (at_ a (3*ny)) (vec a (3*ny+1)))

/-- ints: ny ; floats: element_mass[ny-1] load_factor nodes[ny,3] → loads[ny,6] -/
def opStructWeightLoads : Op K := fun n a =>
  let ny := n[0]!
  outLoads ny (structWeightLoads ny (pts a ny) (vec a 0) (at_ a (ny - 1)))

/-- ints: ny sym ; floats: reserve nodes[ny,3] fuel_vols[ny-1] fuel_mass load_factor → loads[ny,6] -/
def opFuelLoads : Op K := fun n a =>
  let ny := n[0]!; let sym := flag n 1
  let o := 1 + 3 * ny
  outLoads ny (fuelLoads ny sym (pts a 1) (vec a o) (at_ a (o + ny - 1)) (at_ a 0) (at_ a (o + ny)))

/-- ints: ny sym ; floats: reserve fuel_density fuelburn fuel_vols[ny-1] → fuel_vol_delta -/
def opFuelVolDelta : Op K := fun n a =>
  let ny := n[0]!; let sym := flag n 1
  #[fuelVolDelta ny sym (vec a 3) (at_ a 2) (at_ a 0) (at_ a 1)]

/-- ints: ny np ; floats: locs[np,3] masses[np] nodes[ny,3] load_factor → weightings[np,ny], loads[ny,6] -/
def opPointMassLoads : Op K := fun n a =>
  let ny := n[0]!; let np := n[1]!
  let locs := pts a 0
  let masses := vec a (3*np)
  let nodes := pts a (4*np)
  let lf := at_ a (4*np + 3*ny)
  Id.run do
    let mut o : Array K := #[]
    for p in [0:np] do
      for j in [0:ny] do o := o.push (nodalWeighting ny nodes (locs p) j)
    return o ++ outLoads ny (pointMassLoads ny np nodes locs masses lf)

/-- ints: ny np ; floats: locs[np,3] thrusts[np] nodes[ny,3] → weightings[np,ny], loads[ny,6] -/
def opThrustLoads : Op K := fun n a =>
  let ny := n[0]!; let np := n[1]!
  let locs := pts a 0
  let thr := vec a (3*np)
  let nodes := pts a (4*np)
  Id.run do
    let mut o : Array K := #[]
    for p in [0:np] do
      for j in [0:ny] do o := o.push (nodalWeighting ny nodes (locs p) j)
    return o ++ outLoads ny (thrustLoads ny np nodes locs thr)

/-- ints: ny relief fuel pm ; floats: the enabled [ny,6] arrays in order loads, sw, fw, pml, tl -/
def opTotalLoads : Op K := fun n a =>
  let ny := n[0]!; let relief := flag n 1; let fuel := flag n 2; let pm := flag n 3
  let o1 := 6 * ny
  let o2 := if relief then o1 + 6 * ny else o1
  let o3 := if fuel then o2 + 6 * ny else o2
  outLoads ny (totalLoads relief fuel pm (loadsView a 0) (loadsView a o1) (loadsView a o2) (loadsView a o3)
    (loadsView a (o3 + 6 * ny)))

def ops : List (String × Op K) := [
  ("ComputeNodes", opComputeNodes),
  ("LoadTransfer", opLoadTransfer),
  ("TransformationMatrix", opTransformationMatrix),
  ("DisplacementTransfer", opDisplacementTransfer),
  ("MeshPointForces", opMeshPointForces),
  ("Weight", opWeight),
  ("StructuralCG", opStructuralCG),
  ("StructWeightLoads", opStructWeightLoads),
  ("FuelLoads", opFuelLoads),
  ("FuelVolDelta", opFuelVolDelta),
  ("PointMassLoads", opPointMassLoads),
  ("ThrustLoads", opThrustLoads),
  ("TotalLoads", opTotalLoads)
]

end OAS.Driver
