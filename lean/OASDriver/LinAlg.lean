import OASDriver.Basic
/-
  OASDriver.LinAlg — dense Gaussian elimination with partial pivoting (trusted glue: stands in for
  scipy's LU in the model pipelines; the harness compares the results with the real solve).
-/
namespace OAS.Driver
variable {K : Type} [Sc K]

/-- solve `A x = b`, `A` given as `n` rows -/
def gaussSolve (n : Nat) (A : Array (Array K)) (b : Array K) : Array K := Id.run do
  let mut M : Array (Array K) := (Array.range n).map fun i => (A.getD i #[]).push (b.getD i 0)
  for c in [0:n] do
    -- pivot search
    let mut piv := c
    let mut best := Elem.abs ((M.getD c #[]).getD c 0)
    for r in [c+1:n] do
      let v := Elem.abs ((M.getD r #[]).getD c 0)
      if best < v then
        piv := r; best := v
    if piv != c then
      let rc := M.getD c #[]; let rp := M.getD piv #[]
      M := (M.set! c rp).set! piv rc
    let prow := M.getD c #[]
    let pv := prow.getD c 0
    for r in [c+1:n] do
      let row := M.getD r #[]
      let f := row.getD c 0 / pv
      let mut nr := row
      for k in [c:n+1] do
        nr := nr.set! k (row.getD k 0 - f * prow.getD k 0)
      M := M.set! r nr
  -- back substitution
  let mut x : Array K := Array.replicate n 0
  for ii in [0:n] do
    let i := n - 1 - ii
    let row := M.getD i #[]
    let mut s := row.getD n 0
    for k in [i+1:n] do
      s := s - row.getD k 0 * x.getD k 0
    x := x.set! i (s / row.getD i 0)
  return x

end OAS.Driver
