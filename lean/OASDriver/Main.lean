import OASDriver.Ops
/-
  Line protocol.  One request per line:

      <op> <k> <int>*k <n> <hex64>*n          value request
      d:<op> <k> <int>*k <n> <hex64>*2n       derivative request (n values, then n tangents)

  Reply:  `ok <m> <hex64>*m`  (for d: requests m values then m tangents, `ok 2m …`)
          `err <message>`
  Floats travel as IEEE-754 bit patterns, so the exchange is exact.
-/
open OAS OAS.Driver

def hexDigit (c : Char) : Option UInt64 :=
  if '0' ≤ c ∧ c ≤ '9' then some (c.toNat - '0'.toNat).toUInt64
  else if 'a' ≤ c ∧ c ≤ 'f' then some (c.toNat - 'a'.toNat + 10).toUInt64
  else none

def parseHex (s : String) : Option Float := do
  let mut v : UInt64 := 0
  for c in s.toList do
    let d ← hexDigit c
    v := v * 16 + d
  return Float.ofBits v

def hexOf (f : Float) : String :=
  let v := f.toBits
  let digs := "0123456789abcdef".toList.toArray
  String.ofList ((List.range 16).map fun i => digs[((v >>> (60 - 4 * i).toUInt64) &&& 15).toNat]!)

def findOp {K} [Sc K] (name : String) : Option (Op K) := (ops (K := K)).lookup name

def handle (line : String) : String := Id.run do
  let toks := (line.splitOn " ").filter (· ≠ "")
  match toks with
  | [] => return "err empty"
  | opname :: rest =>
    let rest := rest.toArray
    let some k := (rest[0]?).bind String.toNat? | return "err bad-int-count"
    let mut ints : Array Nat := #[]
    for i in [0:k] do
      match (rest[1 + i]?).bind String.toNat? with
      | some v => ints := ints.push v
      | none => return "err bad-int"
    let some n := (rest[1 + k]?).bind String.toNat? | return "err bad-float-count"
    let isD := opname.startsWith "d:"
    let total := if isD then 2 * n else n
    let mut fl : Array Float := Array.mkEmpty total
    for i in [0:total] do
      match (rest[2 + k + i]?).bind parseHex with
      | some v => fl := fl.push v
      | none => return "err bad-float"
    if isD then
      let name := (opname.drop 2).toString
      match findOp (K := DualF) name with
      | none => return s!"err unknown-op {name}"
      | some f =>
        let inp : Array DualF := (Array.range n).map fun i => ⟨fl[i]!, fl[n + i]!⟩
        let out := f ints inp
        let vs := out.map (fun x => hexOf x.v)
        let ds := out.map (fun x => hexOf x.d)
        return s!"ok {2 * out.size} " ++ " ".intercalate (vs ++ ds).toList
    else
      match findOp (K := Float) opname with
      | none => return s!"err unknown-op {opname}"
      | some f =>
        let out := f ints fl
        return s!"ok {out.size} " ++ " ".intercalate (out.map hexOf).toList

partial def loop (h : IO.FS.Stream) (out : IO.FS.Stream) : IO Unit := do
  let line ← h.getLine
  if line.isEmpty then return ()
  out.putStrLn (handle (line.trimAscii.toString))
  loop h out

def main : IO Unit := do
  let out ← IO.getStdout
  loop (← IO.getStdin) out
  out.flush
