import OASModel
/-
  OASDriver.Basic — glue between the line protocol and the polymorphic model:
  scalar bundle, array views, output flattening.  Trusted glue (see DESIGN.md §2.8).
-/
namespace OAS.Driver
open OAS

/-- bundle of everything the model needs from a scalar, for the driver only -/
class Sc (K : Type) extends Add K, Sub K, Mul K, Div K, Neg K, Zero K, One K, NatCast K, Elem K, LT K,
    Inhabited K where
  decLt : DecidableLT K

instance {K} [s : Sc K] : DecidableLT K := s.decLt

instance : Sc Float where
  decLt := inferInstance
instance : Sc DualF where
  decLt := inferInstance

variable {K : Type} [Sc K]

/-- flat array view with zero padding (never panics) -/
def at_ (a : Array K) (i : Nat) : K := a.getD i 0

/-- `[n,3]` view starting at offset `off` -/
def pts (a : Array K) (off : Nat) : Pts K := fun j =>
  ⟨at_ a (off + 3 * j), at_ a (off + 3 * j + 1), at_ a (off + 3 * j + 2)⟩

/-- `[nx,ny,3]` view (C order) starting at `off` -/
def mesh (a : Array K) (off ny : Nat) : Mesh K := fun i j =>
  let b := off + 3 * (i * ny + j)
  ⟨at_ a b, at_ a (b + 1), at_ a (b + 2)⟩

def vec (a : Array K) (off : Nat) : Nat → K := fun i => at_ a (off + i)

def pushV3 (o : Array K) (v : V3 K) : Array K := ((o.push v.x).push v.y).push v.z

def outVec (o : Array K) (n : Nat) (f : Nat → K) : Array K := Id.run do
  let mut o := o
  for i in [0:n] do o := o.push (f i)
  return o

def outPts (o : Array K) (n : Nat) (f : Pts K) : Array K := Id.run do
  let mut o := o
  for i in [0:n] do o := pushV3 o (f i)
  return o

def outMesh (o : Array K) (nx ny : Nat) (f : Mesh K) : Array K := Id.run do
  let mut o := o
  for i in [0:nx] do
    for j in [0:ny] do o := pushV3 o (f i j)
  return o

/-! Materialisation between stages is done in the ops by binding the flattened `Array` with a `let`
(e.g. `let a1 := outMesh #[] nx ny f; let m1 := mesh a1 0 ny`).  A helper returning the view directly
would be eta-expanded by the compiler and recompute the array on every access. -/

end OAS.Driver
