#!/usr/bin/env python3
"""copy verified seeded changes from /tmp/seeded_out into /verif/seeded/<id>/ with a meta.json"""
import json, glob, os, shutil, re
src = "/tmp/seeded_out"
for f in sorted(glob.glob(src + "/verify/*.json")):
    d = json.load(open(f))
    ok = d["applies"] == "yes" and d["rc_clean"] == 0 and d["rc_patched"] not in (0, -1) and "174 passed" in d["summary"] and "3 failed" in d["summary"]
    if not ok:
        print("skip", d["id"]); continue
    sid = d["id"]; prop = sid.split("_")[0]
    dst = "/verif/seeded/" + sid
    os.makedirs(dst, exist_ok=True)
    for n in ("patch.diff", "demo.py", "notes.md"):
        if os.path.exists("%s/%s/%s" % (src, sid, n)):
            shutil.copy("%s/%s/%s" % (src, sid, n), dst)
    notes = open(dst + "/notes.md").read() if os.path.exists(dst + "/notes.md") else ""
    files = re.findall(r"^\+\+\+ b/(\S+)", open(dst + "/patch.diff").read(), flags=re.M)
    meta_p = dst + "/meta.json"
    old = json.load(open(meta_p)) if os.path.exists(meta_p) else {}
    meta = dict(old)
    meta.update(id=sid, property=prop, files=files,
                produced_by="independent sub-agent given only the property text and a scratch worktree (no access to /verif)",
                needs_to_manifest="see notes.md",
                confirmed=dict(at_repo_commit=d["head"], patch_applies=True, demo_exit_clean=d["rc_clean"], demo_exit_patched=d["rc_patched"],
                               pinned_suite_with_patch=d["summary"], failed_tests_with_patch=d["failed"],
                               how="scratch worktree of /repo: demo.py without and with the patch, then the full pinned suite serially with the patch"))
    json.dump(meta, open(meta_p, "w"), indent=1)
    print("archived", sid)
