#!/bin/sh
# run every quick check on the unchanged tree with several seeds; print one line per (seed, property) with the exit code
cd "$(dirname "$0")/.." || exit 2
/venv/bin/python -m harness.setup > /dev/null || exit 2
TIER=${1:-quick}; shift
BAD=0
for s in ${@:-1 2 3}; do
  for p in $(python3 -c "import json; print(' '.join(c['property_id'] for c in json.load(open('MANIFEST.json'))['checks']))"); do
    out=$(VERIF_SEED=$s ./check $p --tier $TIER 2>&1); rc=$?
    echo "seed=$s $p rc=$rc $(echo "$out" | grep -c '^VIOLATION') violations; $(echo "$out" | tail -1 | cut -c1-140)"
    if [ $rc -ne 0 ]; then BAD=1; echo "$out" | tail -5; fi
  done
done
exit $BAD
