#!/usr/bin/env python3
"""Which lines of the files a property is anchored in does its quick check execute?  (blind-spot finder, not a check)
   tools/anchor_coverage.py [Cxx ...]  ->  out/anchor_coverage.json + a table on stdout"""
import json, os, subprocess, sys
V = os.path.dirname(os.path.dirname(os.path.abspath(__file__)))
props = {json.loads(l)["id"]: json.loads(l) for l in open(V + "/properties.jsonl")}
only = sys.argv[1:] or sorted(props)
os.makedirs(V + "/out/cov", exist_ok=True)
res = {}
for pid in only:
    data = V + "/out/cov/%s.cov" % pid
    env = dict(os.environ, COVERAGE_FILE=data)
    subprocess.run(["/venv/bin/python", "-m", "coverage", "run", "--source=/repo/openaerostruct", "-m", "harness.check", pid, "--no-build"],
                   cwd=V, env=env, stdout=subprocess.DEVNULL, stderr=subprocess.DEVNULL)
    js = V + "/out/cov/%s.json" % pid
    subprocess.run(["/venv/bin/python", "-m", "coverage", "json", "-o", js, "--data-file", data], cwd=V, stdout=subprocess.DEVNULL, stderr=subprocess.DEVNULL)
    try:
        cov = json.load(open(js))["files"]
    except Exception as e:
        print(pid, "no coverage data", e); continue
    row = {}
    for f in props[pid]["anchors"]["files"]:
        key = next((k for k in cov if k.endswith(f)), None)
        if key is None:
            row[f] = None
        else:
            sm = cov[key]["summary"]; row[f] = [sm["covered_lines"], sm["num_statements"], cov[key]["missing_lines"][:40]]
    res[pid] = row
    for f, v in row.items():
        print("%s %-62s %s" % (pid, f.replace("openaerostruct/", ""), "NOT IMPORTED" if v is None else "%3d/%3d" % (v[0], v[1])), flush=True)
json.dump(res, open(V + "/out/anchor_coverage.json", "w"), indent=1)
subprocess.run(["git", "-C", V, "checkout", "--", "evidence"])
