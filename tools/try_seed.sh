#!/bin/bash
# run the property check against archived seeded changes applied to a scratch worktree (default /tmp/wt/test), never to /repo
#   tools/try_seed.sh C10_d C16_c ...       (the check run is that of the seed's own property)
WT=${SEED_WT:-/tmp/wt/test}
V=$(cd "$(dirname "$0")/.." && pwd)
[ -d "$WT" ] || git -C /repo worktree add -q --detach "$WT" HEAD || exit 2
cd "$V" || exit 2
for sid in "$@"; do
  prop=${sid%%_*}
  git -C "$WT" checkout -q -- .
  (cd "$WT" && git apply "$V/seeded/$sid/patch.diff") || { echo "$sid: patch does not apply"; continue; }
  out=$(OAS_REPO="$WT" ./check "$prop" 2>&1 | tail -n 3 | tr '\n' '|')
  echo "$sid: $out"
  git -C "$WT" checkout -q -- .
done
/venv/bin/python -c "from harness import generate; generate.run(sorted(generate.GENERATORS))"
git -C "$V" checkout -- evidence
