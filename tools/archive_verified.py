#!/usr/bin/env python3
"""write seeded/<id>/meta.json from seeded/<id>/verify.json (produced by tools/verify_seed.sh)"""
import json, glob, os, re
V = os.path.dirname(os.path.dirname(os.path.abspath(__file__)))
CH = json.load(open(V + "/seeded/CHANGES.json"))
for f in sorted(glob.glob(V + "/seeded/*/verify.json")):
    d = json.load(open(f))
    sid = d["id"]; dst = os.path.dirname(f)
    ok = d["applies"] == "yes" and d["rc_clean"] == 0 and d["rc_patched"] not in (0, -1) and "174 passed" in d["summary"] and "3 failed" in d["summary"]
    files = re.findall(r"^\+\+\+ b/(\S+)", open(dst + "/patch.diff").read(), flags=re.M)
    meta = dict(id=sid, property=sid.split("_")[0], change=CH.get(sid, ""), files=files,
                produced_by="independent sub-agent given only the property text and a scratch worktree (no access to /verif)",
                needs_to_manifest="see notes.md", verified=ok,
                confirmed=dict(at_repo_commit=d["head"], patch_applies=d["applies"] == "yes", demo_exit_clean=d["rc_clean"],
                               demo_exit_patched=d["rc_patched"], pinned_suite_with_patch=d["summary"], failed_tests_with_patch=d["failed"],
                               how="scratch worktree of /repo: demo.py without and with the patch, then the full pinned suite serially with the patch"))
    json.dump(meta, open(dst + "/meta.json", "w"), indent=1)
    print(sid, "verified" if ok else "NOT VERIFIED: %s" % d)
