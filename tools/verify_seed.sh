#!/bin/bash
# confirm archived seeded changes: patch applies, demo exits 0 clean / non-zero patched, pinned suite unchanged with the patch.
#   tools/verify_seed.sh C10_c C10_d ...   -> seeded/<id>/verify.json  (uses a private scratch worktree per call)
V=$(cd "$(dirname "$0")/.." && pwd)
WT=/tmp/wt/verify_$$
git -C /repo worktree add -q --detach "$WT" HEAD || exit 2
head=$(git -C /repo rev-parse HEAD)
for sid in "$@"; do
  d="$V/seeded/$sid"
  cd "$WT" || exit 2
  git checkout -q -- .
  PYTHONPATH="$WT" timeout 1500 /venv/bin/python "$d/demo.py" > /tmp/verify_$$_clean.log 2>&1; rc_clean=$?
  if git apply --check "$d/patch.diff" 2>/dev/null; then
    git apply "$d/patch.diff"
    PYTHONPATH="$WT" timeout 1500 /venv/bin/python "$d/demo.py" > /tmp/verify_$$_patched.log 2>&1; rc_patched=$?
    PYTHONPATH="$WT" /venv/bin/python -m pytest -q -p no:cacheprovider --timeout=900 --continue-on-collection-errors > /tmp/verify_$$_pytest.log 2>&1
    summary=$(tail -1 /tmp/verify_$$_pytest.log)
    failed=$(grep "^FAILED" /tmp/verify_$$_pytest.log | sed 's/ - .*//' | sort | tr '\n' ';')
    git checkout -q -- .
    applies=yes
  else
    applies=no; rc_patched=-1; summary=""; failed=""
  fi
  echo "{\"id\":\"$sid\",\"applies\":\"$applies\",\"rc_clean\":$rc_clean,\"rc_patched\":$rc_patched,\"summary\":\"$summary\",\"failed\":\"$failed\",\"head\":\"$head\"}" > "$d/verify.json"
  cat "$d/verify.json"
  git clean -fdq 2>/dev/null
done
cd /; git -C /repo worktree remove --force "$WT"; rm -f /tmp/verify_$$_*.log
