#!/usr/bin/env python3
"""Regenerate /verif/MANIFEST.json from harness/manifest_texts.json + theorems.json (run by hand, committed)."""
import json, os, sys
V = os.path.dirname(os.path.dirname(os.path.abspath(__file__)))
texts = json.load(open(os.path.join(V, "harness", "manifest_texts.json")))
props = [json.loads(l) for l in open(os.path.join(V, "properties.jsonl"))]
checks, na = [], []
for p in props:
    i = p["id"]
    t = texts.get(i)
    if t and t.get("claimed"):
        checks.append(dict(
            property_id=i,
            quick_cmd="./check %s --tier quick" % i,
            thorough_cmd="./check %s --tier thorough" % i,
            evidence_file="evidence/%s.json" % i,
            replay_cmd_template="./check %s --replay {path}" % i,
            engine="lean4-model+correspondence",
            level_claimed=dict(category="proof", text=t["text"], design_ref=t.get("design_ref", "DESIGN.md §4 " + i)),
            level_note=t["note"],
            technique=t.get("technique", "Lean 4 theorems about a hand-written executable model + differential correspondence with the Python code"),
        ))
    else:
        na.append(dict(property_id=i, reason=(t or {}).get("reason", "not yet covered by this build of the framework (planned: DESIGN.md §4 %s); no claim is made" % i)))
m = dict(
    version=1,
    setup_cmd="/venv/bin/python -m harness.setup",
    hooks=dict(guard="OAS_VERIF", enable="no source hooks are needed: the harness reads component internals from outside",
               baseline_off_cmd="cd /repo && /venv/bin/python -m pytest -ra -q -p no:cacheprovider --timeout=900 --continue-on-collection-errors",
               source_commits=[], add_only=True),
    engines=[dict(name="lean4-model+correspondence", path="check",
                  serves_properties=[c["property_id"] for c in checks],
                  kind_free_text="Lean 4 + Mathlib theorems about a polymorphic executable model (lean/OASModel, lean/OASProofs); "
                                 "the model is tied to /repo on every run by a differential correspondence check (harness/) that drives the "
                                 "compiled model (lean/OASDriver) and the real OpenMDAO components on the same inputs; real-code oracles search "
                                 "for a failing input when an obligation or the correspondence breaks")],
    checks=checks,
    notes="See DESIGN.md. Known findings are in known_findings.json; fix: commits in /repo are recorded there as fixed entries.",
    not_applicable=na,
)
json.dump(m, open(os.path.join(V, "MANIFEST.json"), "w"), indent=1)
print("claimed:", [c["property_id"] for c in checks])
