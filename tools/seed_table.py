#!/usr/bin/env python3
"""markdown table "seed | change | caught by" from a seed_results.json of tools/run_seeds.py and the replay files it names.
   tools/seed_table.py [seed_results.json] [ids or property prefixes ...]"""
import json, os, sys
V = os.path.dirname(os.path.dirname(os.path.abspath(__file__)))
args = sys.argv[1:]
path = args.pop(0) if args and args[0].endswith(".json") else V + "/out/seed_results.json"
res = json.load(open(path))
CH = json.load(open(V + "/seeded/CHANGES.json"))
for sid in sorted(res):
    if args and sid not in args and sid.split("_")[0] not in args and not any(sid.endswith(a) for a in args):
        continue
    meta = json.load(open(V + "/seeded/%s/meta.json" % sid)) if os.path.exists(V + "/seeded/%s/meta.json" % sid) else {}
    cells = []
    for prop, r in res[sid].items():
        if not isinstance(r, dict) or not r.get("violation"):
            cells.append("%s: **not reported** (%s)" % (prop, r if not isinstance(r, dict) else "rc=%s" % r.get("rc")))
            continue
        rp = r["violation"].split("replay=")[1].split()[0]
        nfi = r["violation"].rstrip().endswith("no-failing-input-found")
        what = []
        try:
            rep = json.load(open(rp))
            fl = rep.get("failure") or {}
            if fl.get("oracle"):
                what.append("oracle `%s`" % fl["oracle"])
            br = [b for b in rep.get("broken", []) if isinstance(b, str)]
            if any("theorems" in b or "obligation" in b for b in br):
                what.append("regenerated theorem")
            if any(b.startswith("entry") or b.startswith("max |diff|") for b in br):
                what.append("model correspondence")
            for b in rep.get("broken", []):
                if isinstance(b, dict) and b.get("kind"):
                    what.append(b["kind"])
        except Exception as e:
            what.append("(replay not readable: %s)" % type(e).__name__)
        cells.append("%s %s%s" % (prop, " + ".join(dict.fromkeys(what)) or "violation", " (no-failing-input-found)" if nfi else ""))
    print("| %s | %s | %s |" % (sid, CH.get(sid, ", ".join(os.path.basename(f) for f in meta.get("files", []))), "; ".join(cells)))
