#!/usr/bin/env python3
"""run the registered quick checks against every archived seeded change (applied to /repo, then reverted)"""
import json, glob, os, subprocess, sys, time
V = os.path.dirname(os.path.dirname(os.path.abspath(__file__)))
REPO = os.environ.get("OAS_REPO") or os.environ.get("VP_RUN_REPO") or "/repo"
os.environ["OAS_REPO"] = REPO
if not os.path.exists(V + "/lean/.lake/build/bin/oasdriver"):
    subprocess.run(["/venv/bin/python", "-m", "harness.setup"], cwd=V, check=True, stdout=subprocess.DEVNULL)
claimed = {c["property_id"] for c in json.load(open(V + "/MANIFEST.json"))["checks"]}
only = sys.argv[1:]
res = {}
assert subprocess.run("git -C %s status --porcelain --untracked-files=no" % REPO, shell=True, capture_output=True).stdout.strip() == b"", "repo dirty"
for d in sorted(glob.glob(V + "/seeded/*/")):
    sid = os.path.basename(d.rstrip("/")); prop = sid.split("_")[0]
    if only and sid not in only and prop not in only:
        continue
    meta = json.load(open(d + "meta.json")) if os.path.exists(d + "meta.json") else {}
    props = [prop] + [p for p in meta.get("also_check", []) if p != prop]
    if subprocess.run(["git", "-C", REPO, "apply", d + "patch.diff"]).returncode != 0:
        res[sid] = "patch does not apply to this repository state"
        print(sid, res[sid], flush=True)
        continue
    try:
        out = {}
        for p in props:
            if p not in claimed:
                out[p] = "unclaimed"; continue
            t = time.time()
            r = subprocess.run(["./check", p, "--tier", "quick"], cwd=V, capture_output=True, text=True, timeout=3000)
            v = [l for l in r.stdout.split("\n") if l.startswith("VIOLATION")]
            out[p] = dict(rc=r.returncode, violation=v[0] if v else None, wall=round(time.time() - t, 1))
    finally:
        subprocess.run(["git", "-C", REPO, "checkout", "--", "."], check=True)
        # put the regenerated data files back in the state of the unchanged tree
        subprocess.run(["/venv/bin/python", "-c", "from harness import generate; generate.run(sorted(generate.GENERATORS))"], cwd=V)
    res[sid] = out
    print(sid, out, flush=True)
# evidence files written while a seeded change was applied do not describe the unchanged tree: restore the committed ones
subprocess.run(["git", "-C", V, "checkout", "--", "evidence"], check=False)
json.dump(res, open(V + "/out/seed_results.json", "w"), indent=1)
