#!/bin/sh
# run every registered quick check on the current (unchanged) tree so that the committed evidence describes it
cd "$(dirname "$0")/.." || exit 2
/venv/bin/python -m harness.setup > /dev/null || exit 2
rc=0
for p in $(python3 -c "import json; print(' '.join(c['property_id'] for c in json.load(open('MANIFEST.json'))['checks']))"); do
  VERIF_SEED=${VERIF_SEED:-0} ./check $p --tier quick | tail -1 | cut -c1-160 || rc=1
done
exit $rc
