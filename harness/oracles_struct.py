"""Real-code oracles for the structural properties C10 (and structural parts of C02, C04, C07)."""
import numpy as np
from . import core, gen, pipelines
from .oracles import oracle, _fail, relerr, Discard
from .core import quiet


def ref_frame(nodes, sec, E, G, clamp):
    """independent 3-D Euler-Bernoulli frame: textbook 12x12 element in DOF order (u,v,w,tx,ty,tz) x 2 nodes,
    local y = unit(x_loc x e_x), local z = x_loc x y_loc; returns the stiffness of the free DOFs and their indices"""
    ny = nodes.shape[0]
    K = np.zeros((6 * ny, 6 * ny))
    for e in range(ny - 1):
        d = nodes[e + 1] - nodes[e]; L = np.linalg.norm(d)
        x = d / L
        y = np.cross(x, [1.0, 0.0, 0.0]); y /= np.linalg.norm(y)
        z = np.cross(x, y)
        R = np.array([x, y, z])
        A, Iy, Iz, J = sec["A"][e], sec["Iy"][e], sec["Iz"][e], sec["J"][e]
        k = np.zeros((12, 12))
        ea = E * A / L; gj = G * J / L
        for (a, b) in ((0, 6),):
            k[a, a] = k[b, b] = ea; k[a, b] = k[b, a] = -ea
        for (a, b) in ((3, 9),):
            k[a, a] = k[b, b] = gj; k[a, b] = k[b, a] = -gj
        # bending in the local x-y plane (v, theta_z) uses Iz; in the local x-z plane (w, theta_y) uses Iy
        def bend(EI, dofs, sgn):
            v1, t1, v2, t2 = dofs
            c = EI / L ** 3
            m = c * np.array([[12, sgn * 6 * L, -12, sgn * 6 * L],
                              [sgn * 6 * L, 4 * L * L, -sgn * 6 * L, 2 * L * L],
                              [-12, -sgn * 6 * L, 12, -sgn * 6 * L],
                              [sgn * 6 * L, 2 * L * L, -sgn * 6 * L, 4 * L * L]])
            for i, di in enumerate(dofs):
                for j, dj in enumerate(dofs):
                    k[di, dj] += m[i, j]
        bend(E * Iz, (1, 5, 7, 11), +1.0)
        bend(E * Iy, (2, 4, 8, 10), -1.0)
        T = np.zeros((12, 12))
        for b in range(4):
            T[3 * b:3 * b + 3, 3 * b:3 * b + 3] = R
        kg = T.T @ k @ T
        idx = np.r_[6 * e:6 * e + 12]
        K[np.ix_(idx, idx)] += kg
    free = np.array([i for i in range(6 * ny) if not (6 * clamp <= i < 6 * clamp + 6)])
    return K, free


def _beam(rng, tier, straight=False):
    from . import suites
    s, nodes, sec, loads = suites.beam_case(rng, tier)
    return s, nodes, sec, loads


def _disp(s, nodes, sec, loads):
    return np.array(pipelines.run_beam(s, nodes, sec, loads).get_val("disp"))


@oracle("C10", "independent_frame_equilibrium")
def c10_equilibrium(rng, tier):
    s, nodes, sec, loads = _beam(rng, tier)
    if rng.uniform() < 0.3:
        wb = True       # wingbox-like section: Iy != Iz strongly
        sec["Iz"] = sec["Iy"] * rng.uniform(3, 20, size=sec["Iy"].shape)
    if rng.uniform() < 0.4:
        # cranked, highly swept layout (strake / delta): elements up to ~72 deg from the y axis, i.e. close to (not on) the global
        # x axis that the local triad uses as reference; with unequal principal inertias the orientation of the triad matters
        yy = np.abs(nodes[:, 1]); crank = float(rng.uniform(0.2, 0.7)) * max(float(yy.max()), 1e-9)
        t1 = np.tan(np.radians(rng.uniform(55, 72))); t2 = np.tan(np.radians(rng.uniform(0, 30)))
        nodes = nodes.copy()
        nodes[:, 0] += np.where(yy < crank, t1 * yy, t1 * crank + t2 * (yy - crank))
        sec["Iz"] = sec["Iy"] * rng.uniform(3, 20, size=sec["Iy"].shape)
    ny = nodes.shape[0]
    clamp = ny - 1 if s["symmetry"] else (ny - 1) // 2
    disp = _disp(s, nodes, sec, loads)
    K, free = ref_frame(nodes, sec, s["E"], s["G"], clamp)
    out = []
    case = dict(ny=ny, symmetry=s["symmetry"])
    u = disp.ravel()
    if np.max(np.abs(disp[clamp])) > 1e-9 * max(np.max(np.abs(disp)), 1e-30):
        out.append(_fail("the root node is not clamped", disp[clamp], np.zeros(6), **case))
    f = loads.ravel()
    res = (K @ u - f)[free]
    if np.max(np.abs(res)) > 1e-6 * np.max(np.abs(f)):
        out.append(_fail("displacements do not satisfy the equilibrium of an independently assembled Euler-Bernoulli frame",
                         float(np.max(np.abs(res))), 0.0, **case))
    # linearity and reciprocity
    l2 = rng.normal(size=loads.shape) * 1e3
    a, b = float(rng.uniform(0.5, 2)), float(rng.uniform(-2, -0.5))
    d2 = _disp(s, nodes, sec, l2); d3 = _disp(s, nodes, sec, a * loads + b * l2)
    if relerr(d3, a * disp + b * d2) > 1e-7:
        out.append(_fail("displacements are not linear in the loads", d3, a * disp + b * d2, **case))
    w12 = float(np.sum(loads * d2)); w21 = float(np.sum(l2 * disp))
    if abs(w12 - w21) > 1e-7 * max(abs(w12), abs(w21)):
        out.append(_fail("Maxwell-Betti reciprocity violated", w12, w21, **case))
    return out


@oracle("C10", "cantilever_closed_forms")
def c10_cantilever(rng, tier):
    ny = int(rng.choice([2, 3, 5, 8]))
    sym = bool(rng.integers(2))
    L = float(rng.uniform(2, 12))
    if sym:
        y = -np.sort(rng.uniform(0, 1, size=ny - 2)) * L if ny > 2 else np.array([])
        ys = np.concatenate([[-L], np.sort(y), [0.0]])
        tip = 0; n_el = ny
    else:
        if ny % 2 == 0:
            ny += 1
        h = (ny - 1) // 2
        inner = np.sort(rng.uniform(0.05, 0.95, size=h - 1)) * L if h > 1 else np.array([])
        right = np.concatenate([[0.0], inner, [L]])
        ys = np.concatenate([-right[::-1][:-1], right])
        tip = ny - 1
    nodes = np.zeros((ny, 3)); nodes[:, 1] = ys
    s = pipelines.struct_surface("w", np.zeros((2, ny, 3)), sym)
    ne = ny - 1
    A, Iy, Iz, J = (float(rng.uniform(2e-3, 5e-2)), float(rng.uniform(1e-5, 5e-4)), float(rng.uniform(1e-5, 5e-4)), float(rng.uniform(2e-5, 1e-3)))
    sec = dict(A=np.full(ne, A), Iy=np.full(ne, Iy), Iz=np.full(ne, Iz), J=np.full(ne, J))
    E, G = s["E"], s["G"]
    out = []
    P = float(rng.uniform(1e2, 1e4))
    case = dict(ny=ny, symmetry=sym, L=L)
    sgn = -1.0 if sym else 1.0       # direction of the beam axis from root to tip along y

    def tipdisp(comp, mag):
        loads = np.zeros((ny, 6)); loads[tip, comp] = mag
        return _disp(s, nodes, sec, loads)[tip]
    d = tipdisp(2, P)        # transverse force along z: bending about x (local), uses the inertia for z-deflection
    # the element local y axis is unit(x_loc x e_x) = (0,0,-+1): z-deflection is local-y bending -> Iz
    req = P * L ** 3 / (3 * E * Iz)
    if abs(d[2] - req) > 1e-7 * abs(req):
        out.append(_fail("cantilever tip deflection under a tip force != P L^3 / (3 E I)", d[2], req, **case))
    req_rot = P * L ** 2 / (2 * E * Iz)
    if abs(abs(d[3]) - req_rot) > 1e-7 * req_rot:
        out.append(_fail("cantilever tip rotation under a tip force != P L^2 / (2 E I)", d[3], req_rot, **case))
    d = tipdisp(1, P)        # axial
    req = sgn * P * L / (E * A) * sgn
    if abs(d[1] - P * L / (E * A)) > 1e-7 * abs(req):
        out.append(_fail("axial tip displacement != P L / (E A)", d[1], P * L / (E * A), **case))
    d = tipdisp(4, P)        # torque about the beam axis (global y)
    req = P * L / (G * J)
    if abs(d[4] - req) > 1e-7 * abs(req):
        out.append(_fail("tip twist under a tip torque != T L / (G J)", d[4], req, **case))
    d = tipdisp(0, P)        # transverse force along x: bending with Iy
    req = P * L ** 3 / (3 * E * Iy)
    if abs(d[0] - req) > 1e-7 * abs(req):
        out.append(_fail("cantilever tip deflection (x) != P L^3 / (3 E I)", d[0], req, **case))
    return out


@oracle("C10", "tube_rotation_equivariance")
def c10_rotation(rng, tier):
    s, nodes, sec, loads = _beam(rng, tier)
    sec["Iz"] = sec["Iy"].copy()         # tube: Iy = Iz
    # random rotation that leaves no element along the global x axis
    from scipy.spatial.transform import Rotation
    R = Rotation.from_rotvec(rng.normal(size=3) * 0.6).as_matrix()
    n2 = nodes @ R.T
    d = np.diff(n2, axis=0)
    if np.any(np.abs(d[:, 0]) / np.linalg.norm(d, axis=1) > 0.97):
        raise Discard()
    l2 = np.concatenate([loads[:, :3] @ R.T, loads[:, 3:] @ R.T], axis=1)
    d1 = _disp(s, nodes, sec, loads)
    d2 = _disp(s, n2, sec, l2)
    req = np.concatenate([d1[:, :3] @ R.T, d1[:, 3:] @ R.T], axis=1)
    if relerr(d2, req) > 1e-6:
        return [_fail("rotating structure and loads together does not rotate the response (tube)", d2, req, ny=nodes.shape[0], symmetry=s["symmetry"])]
    return []


# ---------------------------------------------------------------------------------------
# coupled models: C02 (totals), C12 (fixed point), structural parts of C04 / C07
# ---------------------------------------------------------------------------------------
def _as_surface(rng, tier, sym=None, ny=None, fem="tube", **kw):
    """fem: 'tube', 'wingbox' or 'random' (one third wingbox)"""
    from openaerostruct.geometry.utils import generate_mesh
    sym = bool(rng.integers(2)) if sym is None else sym
    ny = ny or int(rng.choice([3, 4, 5]))
    num_y = 2 * ny - 1 if sym else (ny if ny % 2 else ny + 1)
    mesh = np.array(generate_mesh(dict(num_x=2, num_y=num_y, wing_type="rect", symmetry=sym, span=float(rng.uniform(8, 14)),
                                       root_chord=float(rng.uniform(0.8, 1.6)), span_cos_spacing=float(rng.uniform(0, 1)))), dtype=float)
    eta = np.abs(mesh[0, :, 1]) / np.max(np.abs(mesh[0, :, 1]))
    mesh[:, :, 0] += np.tan(np.radians(rng.uniform(0, 25))) * np.abs(mesh[:, :, 1])
    s = pipelines.struct_surface("wing", mesh, sym, thickness_cp=rng.uniform(0.01, 0.03, size=3), twist_cp=rng.uniform(-2, 2, size=3),
                                 radius_cp=None, fem_origin=float(rng.uniform(0.25, 0.5)), **kw)
    s.pop("radius_cp")
    s["E"] = 70e9; s["G"] = 30e9
    # options the pinned tests never combine with an aerostructural model
    st = str(rng.choice(["wetted", "projected"]))
    if "S_ref_type" not in kw:
        s["S_ref_type"] = st
    if "k_lam" not in kw:
        s["k_lam"] = float(rng.choice([0.05, 0.0, 0.5, 1.0], p=[0.4, 0.3, 0.2, 0.1]))
    u = rng.uniform()
    if fem == "wingbox" or (fem == "random" and u < 1.0 / 3.0):
        s["fem_model_type"] = "wingbox"
        s.pop("thickness_cp", None)
        s.update(data_x_upper=np.linspace(0.1, 0.6, 6), data_x_lower=np.linspace(0.1, 0.6, 6),
                 data_y_upper=np.array([0.05, 0.06, 0.065, 0.065, 0.06, 0.05]), data_y_lower=-np.array([0.05, 0.06, 0.065, 0.065, 0.06, 0.05]),
                 original_wingbox_airfoil_t_over_c=0.12, strength_factor_for_upper_skin=float(rng.choice([1.0, 1.25])),
                 t_over_c_cp=np.array([0.12, 0.1]), spar_thickness_cp=rng.uniform(0.004, 0.01, size=3),
                 skin_thickness_cp=rng.uniform(0.005, 0.015, size=3), Wf_reserve=500.0, fuel_density=803.0)
        if "distributed_fuel_weight" not in kw and rng.uniform() < 0.5:
            s["distributed_fuel_weight"] = True          # fuel inertia relief inside the coupled loop (wingbox only)
    return gen.flagify(rng, s)


def _thk(s):
    """promoted name and value of the structural thickness design variable of a surface"""
    if s["fem_model_type"] == "wingbox":
        return "wing.spar_thickness_cp", s["spar_thickness_cp"]
    return "wing.thickness_cp", s["thickness_cp"]


def _as_flow(rng, **kw):
    f = dict(alpha=float(rng.uniform(1, 6)), v=float(rng.uniform(60, 120)), rho=float(rng.uniform(0.6, 1.2)), Mach_number=float(rng.uniform(0.2, 0.5)),
             re=1e6, load_factor=float(rng.choice([1.0, 2.5])), W0=float(rng.uniform(500, 3000)), R=2e6)
    f.update(kw)
    return f


_AS_OF = ["CL", "CD", "CM", "fuelburn", "L_equals_W", "wing_perf.failure", "total_perf.wing_structural_mass"]


@oracle("C02", "aerostruct_totals_fwd_rev_fd")
def c02_aerostruct(rng, tier):
    relief = bool(rng.integers(2))
    s = _as_surface(rng, tier, struct_weight_relief=relief, with_wave=bool(rng.integers(2)), chord_cp=np.array([1.0, 1.0]), fem="random")
    flow = _as_flow(rng)
    ofs = ["AS_point_0." + o for o in _AS_OF if o != "total_perf.wing_structural_mass"] + ["wing.structural_mass"]
    wrt = ["alpha", "Mach_number", "v", "rho", "load_factor", _thk(s)[0], "wing.twist_cp", "wing.geometry.chord_cp"]
    if s["fem_model_type"] == "wingbox":
        wrt.append("wing.skin_thickness_cp")
    from . import oracles as _o
    lin = ["lbgs", "krylov", "direct"][_o.CURRENT_K % 3]       # every solver is exercised in both modes in every run
    rng.choice(["direct", "lbgs", "krylov"])                    # (keeps the random stream of earlier versions)
    import openmdao.api as om
    compressible = bool(rng.integers(2)); rotational = bool(rng.integers(2))
    if rotational:
        flow["omega"] = np.array([0.0, 0.03, 0.0]) if s["symmetry"] else rng.normal(size=3) * 0.03
    _build = pipelines.build_aerostruct
    def build_as(surfs, flows, **kw):
        return _build(surfs, flows, compressible=compressible, rotational=rotational, **kw)
    res = {}; nonconv = {}
    for mode in ("fwd", "rev"):
        p = build_as([s], [flow], linear=lin, mode=mode)
        with quiet():
            p.run_model()
            try:
                res[mode] = p.compute_totals(of=ofs, wrt=wrt, return_format="array")
            except om.AnalysisError as ex:
                nonconv[mode] = str(ex)[:200]
    out = []
    case = dict(ny=s["mesh"].shape[1], symmetry=s["symmetry"], linear_solver=lin, weight_relief=relief, load_factor=flow["load_factor"],
                k_lam=s.get("k_lam"), S_ref_type=s.get("S_ref_type"), fem_model_type=s["fem_model_type"], compressible=compressible,
                rotational=rotational)
    if nonconv:
        if lin == "lbgs" and len(nonconv) == 1:
            # the block Gauss-Seidel iterations of the two modes act on transposed systems (same spectrum): when one mode converges
            # well inside the iteration limit and the other does not even with ten times the limit, the reverse-mode solves of
            # the subsystems are not the transposes of the forward-mode ones
            m = list(nonconv)[0]
            pipelines.LBGS_MAXITER = 3000
            try:
                p = build_as([s], [flow], linear=lin, mode=m)
                with quiet():
                    p.run_model()
                    try:
                        res[m] = p.compute_totals(of=ofs, wrt=wrt, return_format="array"); nonconv.pop(m)
                    except om.AnalysisError:
                        pass
            finally:
                pipelines.LBGS_MAXITER = 300
            if nonconv:
                return [_fail("linear block Gauss-Seidel converges in one derivative mode but not in %s mode (3000 iterations)" % m,
                              nonconv[m], "both modes converge to the same totals", **case)]
        else:
            raise Discard()      # convergence of Krylov / of both modes is runtime behaviour (hypothesis of the property)
    sc = np.maximum(np.max(np.abs(res["fwd"]), axis=0, keepdims=True), 1e-30)
    fv = np.concatenate([np.atleast_1d(p.get_val(o)).ravel() for o in ofs])
    xv = np.concatenate([np.atleast_1d(p.get_val(w)).ravel() for w in wrt])
    # the iterative solvers reach their residual tolerance, not the same accuracy in the solution (condition number of the
    # coupled system): "the same values to solver tolerance"
    tol_lin = 1e-6 if lin == "direct" else 2e-4
    ok, msg = core.close_jac(res["fwd"], res["rev"], rtol=tol_lin, fvals=fv, xvals=xv, noise=1e-9)
    if not ok:
        out.append(_fail("forward and reverse mode totals differ", msg, "equal", **case))
    Jref = res["fwd"]
    # direct solver reference
    if lin != "direct":
        p = build_as([s], [flow], linear="direct", mode="fwd")
        with quiet():
            p.run_model(); Jd = p.compute_totals(of=ofs, wrt=wrt, return_format="array")
        Jref = Jd          # the finite-difference comparison below uses the directly solved totals
        ok, msg = core.close_jac(res["fwd"], Jd, rtol=tol_lin, fvals=fv, xvals=xv, noise=1e-9)
        if not ok:
            out.append(_fail("totals depend on the linear solver attached to the coupled group", msg, "equal", **case))
    # finite differences of the converged analysis for a few scalar inputs
    p = build_as([s], [flow], linear="direct")
    def f(name, val):
        p.set_val(name, val)
        with quiet():
            p.run_model()
        return np.concatenate([np.atleast_1d(p.get_val(o)).ravel() for o in ofs])
    col = 0
    for name in wrt:
        n = np.atleast_1d(p.get_val(name)).size
        if (n == 1 and name in ("alpha", "load_factor", "v")) or name == "wing.geometry.chord_cp":
            # scalars, and the first entry of the chord distribution (the only variable here that changes chord lengths)
            xfull = np.array(p.get_val(name), dtype=float).copy()
            x0 = float(xfull.ravel()[0]); h = 1e-4 * max(1.0, abs(x0))
            def at(v, xfull=xfull):
                xx = xfull.copy(); xx.ravel()[0] = v
                return xx
            d1 = (f(name, at(x0 + h)) - f(name, at(x0 - h))) / (2 * h); d2 = (f(name, at(x0 + h / 2)) - f(name, at(x0 - h / 2))) / h
            fd = (4 * d2 - d1) / 3
            f(name, xfull)
            an = Jref[:, col]
            sc2 = max(np.max(np.abs(fd)), np.max(np.abs(an)), 1e-30)
            if np.max(np.abs(fd - an)) > 2e-5 * sc2:
                out.append(_fail("total derivatives w.r.t. %s differ from finite differences of the converged analysis" % name,
                                 an, fd, **case))
        col += n
    return out


@oracle("C02", "aero_and_struct_totals")
def c02_aero_struct(rng, tier):
    from .oracles_aero import _aero_config, _flow
    out = []
    # aero point: fwd vs rev vs FD w.r.t. alpha, beta (both non-zero), Mach
    surfaces = _aero_config(rng, tier, ns=int(rng.choice([1, 2, 3])))
    anysym = any(s["symmetry"] for s in surfaces)
    flow = _flow(rng, alpha=float(rng.uniform(2, 10)), beta=0.0 if anysym else float(rng.uniform(3, 10)))
    ofs = ["pt.CL", "pt.CD", "pt.CM"]; wrt = ["alpha", "beta", "v", "Mach_number"] + [s["name"] + "_def_mesh" for s in surfaces]
    res = {}
    for mode in ("fwd", "rev"):
        p = pipelines.build_aero_point(surfaces, flow)
        with quiet():
            p.setup(mode=mode); p.run_model()
            res[mode] = p.compute_totals(of=ofs, wrt=wrt, return_format="array")
    case = dict(shapes=[list(s["mesh"].shape) for s in surfaces], alpha=flow["alpha"], beta=flow["beta"])
    fv = np.concatenate([np.atleast_1d(p.get_val(o)).ravel() for o in ofs])
    xv = np.concatenate([[flow["alpha"], flow["beta"], flow["v"], flow["Mach_number"]]] + [s["mesh"].ravel() for s in surfaces])
    ok, msg = core.close_jac(res["fwd"], res["rev"], rtol=1e-7, fvals=fv, xvals=xv, noise=1e-10)
    if not ok:
        out.append(_fail("AeroPoint: forward and reverse totals differ", msg, "equal", **case))
    p = pipelines.build_aero_point(surfaces, flow)
    def f(name, val):
        p.set_val(name, val)
        with quiet():
            p.run_model()
        return np.concatenate([np.atleast_1d(p.get_val(o)).ravel() for o in ofs])
    for col, name in enumerate(["alpha", "beta", "v", "Mach_number"]):
        x0 = float(flow[name]); h = 1e-4 * max(1.0, abs(x0))
        d1 = (f(name, x0 + h) - f(name, x0 - h)) / (2 * h); d2 = (f(name, x0 + h / 2) - f(name, x0 - h / 2)) / h
        fd = (4 * d2 - d1) / 3; f(name, x0)
        an = res["fwd"][:, col]
        sc2 = max(np.max(np.abs(fd)), np.max(np.abs(an)), 1e-12)
        if np.max(np.abs(fd - an)) > 2e-6 * sc2 + 1e-10:
            out.append(_fail("AeroPoint: total derivatives w.r.t. %s differ from finite differences" % name, an, fd, **case))
    # structure alone: two linearisations on one problem with a stiffness change in between, both modes
    s = _as_surface(rng, tier)
    ofs2 = ["wing.failure", "wing.structural_mass", "wing.disp"]; wrt2 = ["wing.thickness_cp", "loads"]
    for mode in ("fwd", "rev"):
        p = pipelines.build_struct_alone(s)
        with quiet():
            p.setup(mode=mode); p.run_model(); p.compute_totals(of=ofs2, wrt=wrt2)
            p.set_val("wing.thickness_cp", s["thickness_cp"] * 1.7); p.run_model()
            res[mode] = p.compute_totals(of=ofs2, wrt=wrt2, return_format="array")
    fv = np.concatenate([np.atleast_1d(p.get_val(o)).ravel() for o in ofs2])
    xv = np.concatenate([np.atleast_1d(p.get_val(w)).ravel() for w in wrt2])
    ok, msg = core.close_jac(res["fwd"], res["rev"], rtol=1e-6, fvals=fv, xvals=xv, noise=1e-9)
    if not ok:
        out.append(_fail("SpatialBeamAlone: forward and reverse totals differ after the design changed on a live problem",
                         msg, "equal", ny=s["mesh"].shape[1], symmetry=s["symmetry"]))
    # two problems built from the same script (identical path names), another stiffness in the second: the totals of the first
    # must be those of its own converged analysis although the second was analysed between its run_model and compute_totals
    mode = str(rng.choice(["fwd", "rev"]))
    pa = pipelines.build_struct_alone(s)
    s2 = dict(s); s2["thickness_cp"] = s["thickness_cp"] * 2.3
    pb = pipelines.build_struct_alone(s2)
    pref = pipelines.build_struct_alone(s)
    with quiet():
        pa.setup(mode=mode); pb.setup(mode=mode); pref.setup(mode=mode)
        pref.run_model(); Jref = pref.compute_totals(of=ofs2, wrt=wrt2, return_format="array")
        pa.run_model()
        pb.run_model(); pb.compute_totals(of=ofs2, wrt=wrt2)
        Ja = pa.compute_totals(of=ofs2, wrt=wrt2, return_format="array")
    fv = np.concatenate([np.atleast_1d(pa.get_val(o)).ravel() for o in ofs2])
    xv = np.concatenate([np.atleast_1d(pa.get_val(w)).ravel() for w in wrt2])
    ok, msg = core.close_jac(Ja, Jref, rtol=1e-7, fvals=fv, xvals=xv, noise=1e-9)
    if not ok:
        out.append(_fail("SpatialBeamAlone: totals of a problem change when another problem (same path names, other stiffness) is "
                         "analysed between its run_model and compute_totals", msg, "equal", mode=mode, ny=s["mesh"].shape[1],
                         symmetry=s["symmetry"]))
    return out


@oracle("C12", "coupled_fixed_point")
def c12_fixed_point(rng, tier):
    from openaerostruct.transfer.load_transfer import LoadTransfer
    from . import oracles as _o
    rng.integers(2)
    s = _as_surface(rng, tier, struct_weight_relief=bool(_o.CURRENT_K % 2 == 0), fem="random")     # relief alternates between the cases
    surfs = [s]
    if rng.uniform() < 0.5:
        # a second surface (tail) with its own spar location; same mesh shape as the wing half of the time
        t = _as_surface(rng, tier, sym=s["symmetry"], ny=s["mesh"].shape[1] if rng.uniform() < 0.5 and s["symmetry"] else None)
        t["name"] = "tail"; t["mesh"] = t["mesh"] * 0.5 + np.array([6.0, 0.0, 0.8])
        t["fem_origin"] = float(np.clip(s["fem_origin"] + rng.choice([-0.2, 0.25]), 0.05, 0.9))
        surfs.append(t)
    flow = _as_flow(rng, beta=float(rng.choice([0.0, 0.0, 4.0])) if not any(x["symmetry"] for x in surfs) else 0.0)
    # options of the point the pinned tests never combine with a coupled analysis
    compressible = bool(rng.integers(2)); rotational = bool(rng.integers(2))
    if rotational:
        om_ = rng.normal(size=3) * 0.05
        if any(x["symmetry"] for x in surfs):
            om_[[0, 2]] = 0.0
        flow["omega"] = om_; flow["cg_rot"] = np.zeros(3)
    outs = {}
    combos = [("nlbgs", True), ("nlbgs", False), ("newton", True)]
    for nl, ait in combos:
        p = pipelines.build_aerostruct(surfs, [flow], nonlinear=nl, aitken=ait, compressible=compressible, rotational=rotational)
        with quiet():
            p.run_model()
        outs[(nl, ait)] = p
    def vec(p):
        return np.concatenate([np.atleast_1d(p.get_val("AS_point_0." + o)).ravel() for o in ("CL", "CD", "CM", "fuelburn", "L_equals_W", "wing_perf.failure")]
                              + [np.array(p.get_val("AS_point_0.coupled.wing.disp")).ravel() * 1e3])
    ref = vec(outs[("nlbgs", True)])
    out = []
    case = dict(ny=[x["mesh"].shape[1] for x in surfs], symmetry=[x["symmetry"] for x in surfs], beta=flow["beta"], load_factor=flow["load_factor"],
                compressible=compressible, rotational=rotational)
    for k, p in outs.items():
        if relerr(vec(p), ref) > 1e-6:
            out.append(_fail("converged state depends on the nonlinear solver %s" % (k,), vec(p)[:6], ref[:6], **case))
    # consistency of the converged state: loads == transfer(aero forces on the deformed mesh), disp == FEM(loads)
    p = outs[("nlbgs", True)]
    from .pipelines import aero_surface
    dms = []
    for x in surfs:
        n = x["name"]
        dm = np.array(p.get_val("AS_point_0.coupled.%s.def_mesh" % n)); F = np.array(p.get_val("AS_point_0.coupled.aero_states.%s_sec_forces" % n))
        loads = np.array(p.get_val("AS_point_0.coupled.%s.loads" % n))
        lt = core.comp_problem(LoadTransfer(surface=x), dict(def_mesh=dm, sec_forces=F))
        if relerr(np.array(lt.get_val("loads")), loads) > 1e-7:
            out.append(_fail("converged loads of surface %s are not the transfer of its aerodynamic forces on its deformed mesh (own spar line)" % n,
                             loads[:2], np.array(lt.get_val("loads"))[:2], **case))
        dms.append(dm)
        # ... independently of the transfer component: the converged nodal loads, placed at the displaced nodes of the structure the
        # FEM actually solves (the model's own `nodes` output), are statically equivalent to the converged panel forces at the
        # quarter-chord points of the deformed mesh (for every surface: own spar line, tube or wingbox)
        nodes = np.array(p.get_val("%s.nodes" % n)); disp = np.array(p.get_val("AS_point_0.coupled.%s.disp" % n))
        qc = 0.75 * 0.5 * (dm[:-1, :-1] + dm[:-1, 1:]) + 0.25 * 0.5 * (dm[1:, :-1] + dm[1:, 1:])
        P0 = np.array([0.3, -0.7, 0.2])
        Mtot = np.cross(qc - P0, F).sum(axis=(0, 1)); fs = np.abs(F).max(); ms = max(np.abs(Mtot).max(), fs)
        Mn = loads[:, 3:].sum(axis=0) + np.cross(nodes + disp[:, :3] - P0, loads[:, :3]).sum(axis=0)
        if np.max(np.abs(loads[:, :3].sum(axis=0) - F.sum(axis=(0, 1)))) > 1e-9 * fs * F[..., 0].size or \
                np.max(np.abs(Mn - Mtot)) > 1e-8 * ms * F[..., 0].size:
            out.append(_fail("converged loads of surface %s (at the displaced structural nodes) are not statically equivalent to its "
                             "aerodynamic forces on the deformed mesh" % n, Mn, Mtot, fem_model_type=x["fem_model_type"],
                             fem_origin_key=x.get("fem_origin"), **case))
    # the flow about the deformed meshes (independent aero analysis at the same flight condition) gives the same forces
    sa = [dict(aero_surface(x["name"], x["mesh"], x["symmetry"]), S_ref_type=x["S_ref_type"]) for x in surfs]
    pa = pipelines.run_aero_point(sa, dict(flow, cg=np.zeros(3)), meshes=dms, compressible=compressible, rotational=rotational)
    for x in surfs:
        Fa = np.array(pa.get_val("pt.aero_states.%s_sec_forces" % x["name"])); F = np.array(p.get_val("AS_point_0.coupled.aero_states.%s_sec_forces" % x["name"]))
        if relerr(Fa, F) > 1e-6:
            out.append(_fail("converged aerodynamic forces are not those of the flow about the deformed mesh at the point's flight condition",
                             F[0, :2], Fa[0, :2], surface=x["name"], **case))
    # path independence: visit another design point first
    p2 = pipelines.build_aerostruct(surfs, [flow], compressible=compressible, rotational=rotational)
    with quiet():
        p2.set_val("alpha", flow["alpha"] + 3.0); p2.set_val(_thk(s)[0], _thk(s)[1] * 0.6); p2.run_model()
        p2.set_val("alpha", flow["alpha"]); p2.set_val(_thk(s)[0], _thk(s)[1]); p2.run_model()
    if relerr(vec(p2), ref) > 1e-6:
        out.append(_fail("converged state depends on the previously analysed design point", vec(p2)[:6], ref[:6], **case))
    # ... and one that differs in a single flight-condition input only (the structure and the meshes stay what they were)
    for name, other in (("load_factor", flow["load_factor"] * 0.4 + 0.3), ("v", flow["v"] * 1.3), ("rho", flow["rho"] * 0.7)):
        p3 = pipelines.build_aerostruct(surfs, [flow], compressible=compressible, rotational=rotational)
        with quiet():
            p3.set_val(name, other); p3.run_model()
            p3.set_val(name, flow[name]); p3.run_model()
        if relerr(vec(p3), ref) > 1e-6:
            out.append(_fail("converged state depends on a previously analysed flight condition (only %s differed)" % name,
                             vec(p3)[:6], ref[:6], changed_input=name, weight_relief=s["struct_weight_relief"], **case))
            break
    return out


@oracle("C12", "multipoint_independence_and_rigid_limit")
def c12_multipoint(rng, tier):
    s = _as_surface(rng, tier)
    f1 = _as_flow(rng); f2 = _as_flow(rng, alpha=f1["alpha"] + 2.0, load_factor=2.5)
    pm = pipelines.build_aerostruct([s], [f1, f2])
    p1 = pipelines.build_aerostruct([s], [f1])
    with quiet():
        pm.run_model(); p1.run_model()
    out = []
    case = dict(ny=s["mesh"].shape[1], symmetry=s["symmetry"])
    a = np.array([pm.get_val("AS_point_0." + o)[0] for o in ("CL", "CD", "fuelburn", "L_equals_W")])
    b = np.array([p1.get_val("AS_point_0." + o)[0] for o in ("CL", "CD", "fuelburn", "L_equals_W")])
    if relerr(a, b) > 1e-7:
        out.append(_fail("a flight point of a multipoint model is influenced by the other point", a, b, **case))
    with quiet():
        pm.set_val("alpha_1", f2["alpha"] + 1.0); pm.run_model()
    a2 = np.array([pm.get_val("AS_point_0." + o)[0] for o in ("CL", "CD", "fuelburn", "L_equals_W")])
    if relerr(a2, a) > 1e-9:
        out.append(_fail("changing the flight condition of point 1 changes the results of point 0", a2, a, **case))
    # rigid limit: stiffen the structure by 1e6 -> rigid aerodynamic analysis at the point's flight condition (sideslip included)
    beta = 0.0 if s["symmetry"] else float(rng.uniform(3, 8))
    ss = dict(s); ss["E"] = s["E"] * 1e6; ss["G"] = s["G"] * 1e6
    fr = dict(f1, beta=beta)
    pr = pipelines.build_aerostruct([ss], [fr])
    with quiet():
        pr.run_model()
    from .pipelines import aero_surface
    sa = [dict(aero_surface("wing", s["mesh"], s["symmetry"]), S_ref_type=s["S_ref_type"])]
    mesh_rigid = np.array(pr.get_val("wing.mesh"))
    pa = pipelines.run_aero_point(sa, dict(fr, cg=np.zeros(3)), meshes=[mesh_rigid])
    Fr = np.array(pr.get_val("AS_point_0.coupled.aero_states.wing_sec_forces")); Fa = np.array(pa.get_val("pt.aero_states.wing_sec_forces"))
    if relerr(Fr, Fa) > 1e-4:
        out.append(_fail("a very stiff structure does not reproduce the rigid aerodynamic analysis", Fr[0, :2], Fa[0, :2], beta=beta, **case))
    # independent problems in one process: the single-point problem analysed earlier is visited again (new angle of attack, its own
    # structure unchanged) after a problem with the same surface name but another stiffness has been analysed in between
    sfx1 = ""        # single-point problems of pipelines.build_aerostruct use unsuffixed names
    a_new = f1["alpha"] + 0.7
    with quiet():
        p1.set_val("alpha" + sfx1, a_new); p1.run_model()
    pf = pipelines.build_aerostruct([s], [dict(f1, alpha=a_new)])
    with quiet():
        pf.run_model()
    keys = ("CL", "CD", "fuelburn", "L_equals_W")
    a = np.array([p1.get_val("AS_point_0." + o)[0] for o in keys]); b = np.array([pf.get_val("AS_point_0." + o)[0] for o in keys])
    da = np.array(p1.get_val("AS_point_0.coupled.wing.disp")); db = np.array(pf.get_val("AS_point_0.coupled.wing.disp"))
    if relerr(a, b) > 1e-7 or relerr(da, db) > 1e-7:
        out.append(_fail("a problem revisited after another problem (same surface name, other stiffness) was analysed differs from a fresh analysis",
                         [a.tolist(), float(np.max(np.abs(da)))], [b.tolist(), float(np.max(np.abs(db)))], **case))
    return out


# ---------------------------------------------------------------------------------------
# C20  rejection, warnings, finiteness, repeatability, non-mutation
# ---------------------------------------------------------------------------------------
@oracle("C20", "rejections_and_warnings")
def c20_reject(rng, tier):
    import warnings
    import openmdao.api as om
    from openaerostruct.geometry.utils import generate_mesh
    from openaerostruct.structures.struct_groups import SpatialBeamAlone
    from openaerostruct.integration.aerostruct_groups import AerostructGeometry
    from openaerostruct.geometry.geometry_group import build_sections
    from openaerostruct.utils.check_surface_dict import check_surface_dict_keys
    out = []

    def expect(exc, fn, what, **case):
        # the property asks for *an error instead of numbers*; `exc` is the kind the current code raises (reported, not required)
        try:
            with quiet():
                r = fn()
        except Exception:
            return
        out.append(_fail(what + ": accepted, numbers were produced", "no error", exc.__name__, **case))
    num_y = int(rng.choice([2, 4, 6, 8, 10, 20]))
    expect(ValueError, lambda: generate_mesh(dict(num_x=2, num_y=num_y, wing_type=str(rng.choice(["rect", "CRM"])), symmetry=bool(rng.integers(2)))),
           "even number of spanwise nodes", num_y=num_y)
    wt = str(rng.choice(["delta", "Rect", "crm", "elliptic"]))
    expect(NameError, lambda: generate_mesh(dict(num_x=2, num_y=5, wing_type=wt, symmetry=True)), "unknown wing type", wing_type=wt)
    mesh = gen.rand_mesh(rng, 2, 3, True, planar=True, jitter=0.0)
    wb = dict(data_x_upper=np.linspace(0.1, 0.6, 6), data_x_lower=np.linspace(0.1, 0.6, 6),
              data_y_upper=np.array([0.05, 0.06, 0.065, 0.065, 0.06, 0.05]), data_y_lower=-np.array([0.05, 0.06, 0.065, 0.065, 0.06, 0.05]),
              original_wingbox_airfoil_t_over_c=0.12, strength_factor_for_upper_skin=1.0)
    for grp in (SpatialBeamAlone, AerostructGeometry):
        fem = str(rng.choice(["box", "Tube", "beam"]))
        s = pipelines.struct_surface("w", mesh, True, fem=fem)
        def build(s=s, grp=grp):
            p = om.Problem(reports=False); p.model.add_subsystem("w", grp(surface=s)); p.setup()
        expect(NameError, build, "unknown structural model type in %s" % grp.__name__, fem_model_type=fem)
        for key in ("skin_thickness_cp", "spar_thickness_cp"):
            s = pipelines.struct_surface("w", mesh, True, fem="wingbox", **wb)
            s.pop("thickness_cp", None)
            s[key] = np.array([0.005, 0.01])
            def build2(s=s, grp=grp):
                p = om.Problem(reports=False); p.model.add_subsystem("w", grp(surface=s)); p.setup(); p.run_model()
            expect(NameError, build2, "only %s given for a wingbox in %s" % (key, grp.__name__), group=grp.__name__, key=key)
    num = int(rng.integers(2, 4))
    for genm in (True, False):
        for bad in (("ny", "taper", "span", "sweep", "sec_name") if genm else ("meshes", "taper", "span", "sweep", "sec_name")):
            surface = dict(name="surface", num_sections=num, sec_name=["s%d" % i for i in range(num)], symmetry=True, taper=[1.0] * num,
                           span=[1.0] * num, sweep=[0.0] * num, root_chord=1.0, nx=2, ny=[3] * num,
                           meshes="gen-meshes" if genm else [gen.rand_mesh(rng, 2, 3, True) for _ in range(num)])
            shorter = bool(rng.integers(2))
            surface[bad] = surface[bad][:-1] if shorter else surface[bad] + [surface[bad][0]]
            fnd = {} if genm or bad in ("meshes", "sec_name") else dict(finding="F13")
            n0 = len(out)
            expect(ValueError, lambda surface=surface: build_sections(surface),
                   "multi-section list %s of the wrong length (%s, %s meshes)" % (bad, "too short" if shorter else "too long", "generated" if genm else "user-provided"),
                   key=bad, num_sections=num, gen_meshes=genm, shorter=shorter)
            for f in out[n0:]:
                f.update(fnd)
    # unknown key -> warning, documented keys -> no warning
    s = pipelines.struct_surface("w", mesh, True)
    with warnings.catch_warnings(record=True) as w:
        warnings.simplefilter("always")
        check_surface_dict_keys(s)
    if w:
        out.append(_fail("documented surface keys produce a warning", [str(x.message) for x in w][:2], "no warning"))
    s["twist_cpp"] = 1.0
    with warnings.catch_warnings(record=True) as w:
        warnings.simplefilter("always")
        check_surface_dict_keys(s)
    if not any("twist_cpp" in str(x.message) for x in w):
        out.append(_fail("an unknown dictionary key produces no warning", "no warning", "RuntimeWarning naming the key"))
    return out


@oracle("C08", "aerostruct_ground_effect")
def c08_aerostruct_ground(rng, tier):
    """ground effect in the aerostructural point (`AerostructPoint` wires `height_agl` and the image rows itself): far from the
    ground it returns the free-air aerostructural result, and for a very stiff structure at a finite height it returns the rigid
    aerodynamic analysis with ground effect on the same mesh"""
    s = _as_surface(rng, tier, sym=True)
    flow = _as_flow(rng)
    sg = dict(s); sg["groundplane"] = gen.flag(rng, True)
    out = []
    case = dict(ny=s["mesh"].shape[1], alpha=flow["alpha"])
    keys = ("CL", "CD", "L_equals_W")
    def vals(p):
        return np.array([p.get_val("AS_point_0." + k)[0] for k in keys])
    chord = float(np.max(s["mesh"][-1, :, 0] - s["mesh"][0, :, 0]))
    p0 = pipelines.build_aerostruct([s], [flow])
    pfar = pipelines.build_aerostruct([sg], [dict(flow, height_agl=1e6 * chord)])
    with quiet():
        p0.run_model(); pfar.run_model()
    if relerr(vals(pfar), vals(p0)) > 1e-5:
        out.append(_fail("aerostructural point: ground effect does not vanish 1e6 chords above the ground", vals(pfar), vals(p0), **case))
    d0 = np.array(p0.get_val("AS_point_0.coupled.wing.disp")); d1 = np.array(pfar.get_val("AS_point_0.coupled.wing.disp"))
    if relerr(d1, d0) > 1e-5:
        out.append(_fail("aerostructural point: displacements far from the ground differ from the free-air result", d1[0], d0[0], **case))
    # rigid limit at a finite height
    h = float(rng.uniform(0.5, 5.0)) * chord
    ss = dict(sg); ss["E"] = s["E"] * 1e6; ss["G"] = s["G"] * 1e6
    pr = pipelines.build_aerostruct([ss], [dict(flow, height_agl=h)])
    with quiet():
        pr.run_model()
    from .pipelines import aero_surface
    sa = [dict(aero_surface("wing", s["mesh"], True), S_ref_type=s["S_ref_type"], groundplane=True)]
    mesh_rigid = np.array(pr.get_val("wing.mesh"))
    pa = pipelines.run_aero_point(sa, dict(flow, cg=np.zeros(3), height_agl=h), meshes=[mesh_rigid])
    Fr = np.array(pr.get_val("AS_point_0.coupled.aero_states.wing_sec_forces")); Fa = np.array(pa.get_val("pt.aero_states.wing_sec_forces"))
    if relerr(Fr, Fa) > 1e-4:
        out.append(_fail("aerostructural point with ground effect: a very stiff structure does not reproduce the rigid analysis with "
                         "ground effect at the same height", Fr[0, :2], Fa[0, :2], height_over_chord=h / chord, **case))
    # and the ground must matter at that height (the comparison above is not vacuous)
    pfree = pipelines.run_aero_point([dict(sa[0], groundplane=False)], dict(flow, cg=np.zeros(3)), meshes=[mesh_rigid])
    Ff = np.array(pfree.get_val("pt.aero_states.wing_sec_forces"))
    if h < 2 * chord and relerr(Fa, Ff) < 1e-6:
        raise Discard()
    return out


@oracle("C20", "finite_repeatable_nonmutating")
def c20_repeatable(rng, tier):
    import hashlib
    s = _as_surface(rng, tier, struct_weight_relief=bool(rng.integers(2)))
    s2 = _as_surface(rng, tier)
    flow = _as_flow(rng)
    h0 = hashlib.sha256(np.ascontiguousarray(s["mesh"]).tobytes()).hexdigest()
    mesh_copy = s["mesh"].copy()

    def outs(p):
        return np.concatenate([np.atleast_1d(p.get_val("AS_point_0." + o)).ravel() for o in ("CL", "CD", "CM", "fuelburn", "L_equals_W", "wing_perf.failure")]
                              + [np.array(p.get_val("AS_point_0.coupled.wing.disp")).ravel()])
    pa = pipelines.build_aerostruct([s], [flow])
    pb = pipelines.build_aerostruct([s2], [_as_flow(rng)])      # an independent problem interleaved in the same process
    with quiet():
        pa.run_model(); a1 = outs(pa)
        pb.run_model()
        pa.run_model(); a2 = outs(pa)
    pc = pipelines.build_aerostruct([s], [flow])
    with quiet():
        pb.run_model(); pc.run_model(); a3 = outs(pc)
    out = []
    case = dict(ny=s["mesh"].shape[1], symmetry=s["symmetry"])
    if not np.all(np.isfinite(a1)):
        out.append(_fail("outputs of an admissible configuration are not finite", a1[:6], "finite", **case))
    if relerr(a2, a1) > 1e-10 or relerr(a3, a1) > 1e-10:
        out.append(_fail("results are not reproducible between runs / independent problems", [relerr(a2, a1), relerr(a3, a1)], 0.0, **case))
    if hashlib.sha256(np.ascontiguousarray(s["mesh"]).tobytes()).hexdigest() != h0 or not np.array_equal(s["mesh"], mesh_copy):
        out.append(_fail("the mesh array of the user's surface dictionary was modified", "changed", "unchanged", **case))
    # multi-section surfaces with user-supplied section meshes (each in its own local frame)
    from openaerostruct.geometry.geometry_group import build_sections
    from openaerostruct.geometry.geometry_unification import unify_mesh
    n = int(rng.integers(2, 5))
    meshes = []
    for i in range(n):
        m = gen.rand_mesh(rng, 2, int(rng.integers(2, 5)), True, planar=True, jitter=0.0)
        meshes.append(m)
    before = [m.copy() for m in meshes]
    surface = dict(name="surface", num_sections=n, sec_name=["s%d" % i for i in range(n)], symmetry=True, meshes=meshes, S_ref_type="wetted",
                   root_chord=1.0, span=[1.0] * n, taper=[1.0] * n, sweep=[0.0] * n, nx=2, ny=[m.shape[1] for m in meshes])
    with quiet():
        secs = build_sections(surface)
        u1 = unify_mesh(secs); u2 = unify_mesh(secs)
    if any(not np.array_equal(a, b) for a, b in zip(before, meshes)):
        out.append(_fail("user-supplied section meshes were modified by build_sections / unify_mesh", "changed", "unchanged", sections=n))
    if not np.array_equal(u1, u2):
        out.append(_fail("unify_mesh is not repeatable on the same sections", float(np.max(np.abs(u1 - u2))), 0.0, sections=n))
    return out


# ---------------------------------------------------------------------------------------
# structural parts of C04 (half vs full) and C07 (mirror symmetry), incl. finding F7
# ---------------------------------------------------------------------------------------
def _full_surface(s):
    from .refvlm import full_mesh
    fm, sl = full_mesh(s["mesh"], True)
    f = dict(s); f["mesh"] = fm; f["symmetry"] = False
    # control points of a full-span surface run tip-root-tip: mirror the half-span distribution
    for k in ("thickness_cp", "twist_cp", "chord_cp"):
        if k in f:
            cp = np.asarray(f[k]); f[k] = np.concatenate([cp, cp[-2::-1]])
    return f, sl


@oracle("C04", "half_vs_full_aerostruct")
def c04_half_full_struct(rng, tier):
    relief = bool(rng.integers(2))
    s = _as_surface(rng, tier, sym=True, struct_weight_relief=relief)
    # B-spline distributions over a half span and over a full span are different functions unless they are constant:
    # use constant thickness and twist so that the half and the full model describe the same wing
    s["thickness_cp"] = np.full(3, float(rng.uniform(0.01, 0.03))); s["twist_cp"] = np.full(3, float(rng.uniform(-2, 2)))
    f, sl = _full_surface(s)
    flow = _as_flow(rng)
    ph = pipelines.build_aerostruct([s], [flow]); pf = pipelines.build_aerostruct([f], [flow])
    with quiet():
        ph.run_model(); pf.run_model()
    out = []
    ny = s["mesh"].shape[1]
    case = dict(ny=ny, weight_relief=relief, load_factor=flow["load_factor"])
    def g(p, k):
        return np.array(p.get_val(k), dtype=float)
    for k in ("AS_point_0.CL", "AS_point_0.CD", "AS_point_0.CM", "AS_point_0.fuelburn", "AS_point_0.L_equals_W", "wing.structural_mass", "wing.cg_location"):
        # (the KS-aggregated failure is not compared: aggregating every stress twice shifts KS by ln 2 / rho, inside the C15 band;
        #  the stresses themselves are compared below)
        a, b = g(ph, k), g(pf, k)
        if np.max(np.abs(a - b)) > 1e-6 * max(np.max(np.abs(b)), 1e-9):
            out.append(_fail("half and full aerostructural model differ in %s" % k.split(".")[-1], a, b, **case))
    dh = g(ph, "AS_point_0.coupled.wing.disp"); df = g(pf, "AS_point_0.coupled.wing.disp")[:ny]
    if relerr(dh, df) > 1e-6:
        out.append(_fail("displacements on the modelled half differ between half and full model", dh[0], df[0], **case))
    vh = g(ph, "AS_point_0.wing_perf.vonmises"); vf = g(pf, "AS_point_0.wing_perf.vonmises")[:ny - 1]
    if relerr(vh, vf) > 1e-6:
        out.append(_fail("stresses on the modelled half differ between half and full model", vh[0], vf[0], **case))
    return out


@oracle("C07", "mirror_symmetric_full_span_structure")
def c07_struct_symmetry(rng, tier):
    """a mirror-symmetric full-span aerostructural model has mirror-symmetric loads, displacements and stresses (tube)"""
    s = _as_surface(rng, tier, sym=True, struct_weight_relief=bool(rng.integers(2)))
    f, sl = _full_surface(s)          # mirrored control points: a mirror-symmetric full-span wing (any distribution)
    flow = _as_flow(rng)
    p = pipelines.build_aerostruct([f], [flow])
    with quiet():
        p.run_model()
    out = []
    case = dict(ny=f["mesh"].shape[1])
    loads = np.array(p.get_val("AS_point_0.coupled.wing.loads")); disp = np.array(p.get_val("AS_point_0.coupled.wing.disp"))
    vm = np.array(p.get_val("AS_point_0.wing_perf.vonmises"))
    mir6 = np.array([1, -1, 1, -1, 1, -1.0])      # forces/translations mirror as vectors, moments/rotations as pseudo-vectors
    if relerr(loads[::-1] * mir6, loads) > 1e-7:
        out.append(_fail("loads of a mirror-symmetric full-span model are not mirror symmetric", loads[::-1][0] * mir6, loads[0], **case))
    if relerr(disp[::-1] * mir6, disp) > 1e-7:
        out.append(_fail("displacements of a mirror-symmetric full-span model are not mirror symmetric", disp[::-1][0] * mir6, disp[0], **case))
    # mirror-image elements: the two stress points of the tube exchange their roles (element orientation reverses)
    vmm = vm[::-1][:, ::-1]
    if relerr(np.sort(vmm, axis=1), np.sort(vm, axis=1)) > 1e-6:
        out.append(_fail("tube stresses of mirror-image elements differ", vmm[0], vm[0], **case))
    return out


@oracle("C07", "wingbox_stress_symmetry")
def c07_wingbox_symmetry(rng, tier):
    """stress recovery of the wingbox on mirror-image elements under a mirror-symmetric displacement field (finding F7)"""
    from openaerostruct.structures.vonmises_wingbox import VonMisesWingbox
    ny = int(rng.choice([3, 5, 7]))
    y = np.linspace(-1, 1, ny) * float(rng.uniform(4, 10))
    nodes = np.zeros((ny, 3)); nodes[:, 1] = y; nodes[:, 0] = 0.1 * np.abs(y); nodes[:, 2] = 0.05 * np.abs(y)
    s = pipelines.struct_surface("w", np.zeros((2, ny, 3)), False, fem="wingbox")
    s["strength_factor_for_upper_skin"] = 1.0
    ne = ny - 1
    half = {k: rng.uniform(lo, hi, size=ne // 2) for k, (lo, hi) in dict(Qz=(1e-3, 1e-2), J=(1e-3, 1e-2), A_enc=(0.1, 0.6), spar_thickness=(2e-3, 2e-2),
                                                                         htop=(0.05, 0.3), hbottom=(0.05, 0.3), hfront=(0.2, 0.8), hrear=(0.2, 0.8)).items()}
    sec = {k: np.concatenate([v, v[::-1]]) for k, v in half.items()}
    # mirror-symmetric displacement field: bending up, symmetric twist
    d = np.zeros((ny, 6)); eta = np.abs(y) / np.max(np.abs(y))
    d[:, 2] = 0.3 * eta ** 2; d[:, 3] = -0.6 * eta / np.max(np.abs(y)) * np.sign(y) * 1.0; d[:, 4] = 0.01 * eta
    prob = core.comp_problem(VonMisesWingbox(surface=s), dict(nodes=nodes, disp=d, **sec))
    vm = np.array(prob.get_val("vonmises"))
    if relerr(vm[::-1], vm) > 1e-6:
        f = _fail("wingbox von Mises stresses of mirror-image elements differ under a mirror-symmetric displacement field",
                  vm[::-1][0], vm[0], ny=ny)
        f["finding"] = "F7"
        return [f]
    return []


# ---------------------------------------------------------------------------------------
# C16 at group level: the wiring of the inertial, fuel, point-mass and thrust loads in SpatialBeamAlone
# ---------------------------------------------------------------------------------------
@oracle("C16", "group_level_load_totals")
def c16_group_totals(rng, tier):
    """SpatialBeamAlone with weight relief, (wingbox) distributed fuel and point masses / engines switched on in random
    combinations: the loads the FEM actually receives minus the applied loads sum to -(m_struct + m_fuel + m_point) g n
    vertically and to the thrust forwards, and scale with the load factor"""
    import openmdao.api as om
    from openaerostruct.structures.struct_groups import SpatialBeamAlone
    from openaerostruct.utils.constants import grav_constant
    fem = str(rng.choice(["tube", "wingbox"]))
    s = _as_surface(rng, tier, fem=fem, struct_weight_relief=bool(rng.integers(2)))
    fuel = bool(fem == "wingbox" and rng.integers(2))
    s["distributed_fuel_weight"] = fuel
    npm = int(rng.choice([0, 1, 2]))
    if npm:
        s["n_point_masses"] = npm
    if not (s["struct_weight_relief"] or fuel or npm):
        s["struct_weight_relief"] = True
    ny = s["mesh"].shape[1]
    lf = float(rng.choice([1.0, 2.5, -1.0]))
    loads = rng.normal(size=(ny, 6)) * 1e3
    masses = rng.uniform(500, 3000, size=(npm, 1)); thrusts = rng.uniform(5e3, 4e4, size=(npm, 1))
    locs = np.column_stack([rng.uniform(0, 2, npm), -rng.uniform(0.5, 4.0, npm), rng.uniform(-1, 0, npm)]) if npm else np.zeros((0, 3))
    fuel_mass = float(rng.uniform(500, 5000))
    def run(lf_):
        prob = om.Problem(reports=False)
        ivc = om.IndepVarComp()
        ivc.add_output("loads", val=loads, units="N"); ivc.add_output("load_factor", val=lf_)
        if npm:
            ivc.add_output("point_masses", val=masses, units="kg"); ivc.add_output("point_mass_locations", val=locs, units="m")
            ivc.add_output("engine_thrusts", val=thrusts, units="N")
        if fuel:
            ivc.add_output("fuel_mass", val=fuel_mass, units="kg")
        prob.model.add_subsystem("ivc", ivc, promotes=["*"])
        prob.model.add_subsystem("wing", SpatialBeamAlone(surface=s))
        prob.model.connect("loads", "wing.loads"); prob.model.connect("load_factor", "wing.load_factor")
        if npm:
            for k in ("point_masses", "point_mass_locations", "engine_thrusts"):
                prob.model.connect(k, "wing." + k)
        if fuel:
            prob.model.connect("fuel_mass", "wing.struct_states.fuel_mass")
            prob.model.connect("wing.struct_setup.fuel_vols", "wing.struct_states.fuel_vols")
        with quiet():
            prob.setup(); prob.run_model()
        tot = np.array(prob.get_val("wing.struct_states.total_loads"))
        em = np.array(prob.get_val("wing.element_mass")).ravel()
        return tot, em
    tot, em = run(lf)
    extra = tot - loads
    out = []
    case = dict(fem_model_type=fem, symmetry=s["symmetry"], weight_relief=s["struct_weight_relief"], distributed_fuel=fuel, n_point_masses=npm,
                load_factor=lf, ny=ny)
    m = 0.0
    if s["struct_weight_relief"]:
        m += float(em.sum())
    if fuel:
        m += (fuel_mass + s["Wf_reserve"]) / (2.0 if s["symmetry"] else 1.0)
    if npm:
        m += float(masses.sum())
    fz = float(extra[:, 2].sum()); fx = float(extra[:, 0].sum()); fy = float(extra[:, 1].sum())
    req_z = -m * grav_constant * lf
    if abs(fz - req_z) > 1e-8 * max(abs(req_z), 1.0):
        out.append(_fail("the inertial loads received by the FEM do not sum to -(structural + fuel + point masses) g n", fz, req_z, **case))
    req_x = -float(thrusts.sum()) if npm else 0.0
    if abs(fx - req_x) > 1e-8 * max(abs(req_x), 1.0) or abs(fy) > 1e-8 * max(abs(req_z), 1.0):
        out.append(_fail("the thrust loads received by the FEM do not sum to the thrust acting forwards", [fx, fy], [req_x, 0.0], **case))
    # linear in the load factor (everything but the thrust)
    tot2, _ = run(lf * 2.0)
    ez2 = float((tot2 - loads)[:, 2].sum())
    if abs(ez2 - 2.0 * fz) > 1e-8 * max(abs(fz), 1.0):
        out.append(_fail("the inertial loads received by the FEM are not proportional to the load factor", ez2, 2.0 * fz, **case))
    return out


# ---------------------------------------------------------------------------------------
# C15 at group level: SpatialBeamFunctionals wiring (which stresses, which allowable, which aggregation)
# ---------------------------------------------------------------------------------------
@oracle("C15", "group_level_failure")
def c15_group_failure(rng, tier):
    """SpatialBeamAlone (tube / wingbox, KS or exact failure): the reported failure is the aggregation of the group's own von Mises
    stresses over the surface's allowable; KS lies in [max, max + ln(N)/rho]"""
    from . import oracles as _o
    rng.choice(["tube", "wingbox"]); rng.integers(2)
    fem = ["tube", "wingbox"][_o.CURRENT_K % 2]; exact = bool((_o.CURRENT_K // 2) % 2)      # all four combinations in every run
    s = _as_surface(rng, tier, fem=fem, exact_failure_constraint=exact)
    s["yield"] = float(rng.uniform(1e8, 4e8))
    ny = s["mesh"].shape[1]
    loads = rng.normal(size=(ny, 6)) * 2e4
    p = pipelines.build_struct_alone(s, loads)
    with quiet():
        p.run_model()
    vm = np.array(p.get_val("wing.vonmises")); fail = np.array(p.get_val("wing.failure"))
    g = vm / s["yield"] - 1.0
    out = []
    case = dict(fem_model_type=fem, exact_failure_constraint=exact, symmetry=s["symmetry"], ny=ny)
    if exact:
        if fail.shape != g.shape or relerr(fail, g) > 1e-12:
            out.append(_fail("exact failure is not (von Mises / allowable) - 1 of the group's own stresses", fail.ravel()[:4], g.ravel()[:4], **case))
    else:
        gm = float(g.max()); f = float(np.atleast_1d(fail).ravel()[0]); N = g.size
        rho = 100.0
        if f < gm - 1e-10 or f > gm + np.log(N) / rho + 1e-10:
            out.append(_fail("aggregated failure is outside [max, max + ln(N)/rho] of the group's own stress ratios", f, [gm, gm + np.log(N) / rho], **case))
    return out


# ---------------------------------------------------------------------------------------
# C01 for every component of the assembled groups (also those without a model): reported partials vs OpenMDAO's own
# finite-difference / complex-step check at a converged, physically meaningful point
# ---------------------------------------------------------------------------------------
_CP_SKIP = ()     # components excluded from the group-level partial check (none)


def _check_partials_two_steps(prob):
    with quiet():
        d1 = prob.check_partials(out_stream=None, compact_print=True, method="cs", step=1e-30)
        d2 = prob.check_partials(out_stream=None, compact_print=True, method="cs", step=1e-20)
    return d1, d2


def _approximated(prob, comp, key):
    """True when the component declares this sub-Jacobian as an OpenMDAO fd/cs approximation (not its own formula)"""
    c = prob.model._get_subsystem(comp)
    if c is None:
        return True
    meta = c._subjacs_info.get((comp + "." + key[0], comp + "." + key[1]))
    return meta is None or meta.get("method") in ("fd", "cs")


@oracle("C11", "group_transfer_conservation")
def c11_group_transfer(rng, tier):
    """in a converged aerostructural point (tube or wingbox, the wingbox dictionary carrying an unused `fem_origin`; compressible
    or not): the structural nodal loads, placed at the displaced structural nodes of the model's own `nodes` output, and the
    exported mesh-node forces, placed at the deformed mesh nodes, have the total force and the total moment about a random point
    of the panel forces at the quarter-chord points of the deformed mesh"""
    from . import oracles as _o
    fem = ["tube", "wingbox"][_o.CURRENT_K % 2]
    s = _as_surface(rng, tier, fem=fem)
    compressible = bool((_o.CURRENT_K // 2) % 2)
    flow = _as_flow(rng, Mach_number=float(rng.uniform(0.3, 0.8)) if compressible else 0.3)
    p = pipelines.build_aerostruct([s], [flow], compressible=compressible)
    with quiet():
        p.run_model()
    pre = "AS_point_0.coupled."
    dm = np.array(p.get_val(pre + "wing.def_mesh")); F = np.array(p.get_val(pre + "aero_states.wing_sec_forces"))
    loads = np.array(p.get_val(pre + "wing.loads")); disp = np.array(p.get_val(pre + "wing.disp")); nodes = np.array(p.get_val("wing.nodes"))
    mpf = np.array(p.get_val(pre + "aero_states.wing_mesh_point_forces"))
    qc = 0.75 * 0.5 * (dm[:-1, :-1] + dm[:-1, 1:]) + 0.25 * 0.5 * (dm[1:, :-1] + dm[1:, 1:])
    P = rng.normal(size=3) * 3
    case = dict(fem_model_type=fem, symmetry=s["symmetry"], ny=int(dm.shape[1]), compressible=compressible, alpha=flow["alpha"],
                Mach_number=flow["Mach_number"], fem_origin_key=s.get("fem_origin"), point=P.tolist())
    out = []
    Ftot = F.sum(axis=(0, 1)); Mtot = np.cross(qc - P, F).sum(axis=(0, 1))
    fs = np.abs(F).max(); ms = max(np.abs(Mtot).max(), fs)
    if np.max(np.abs(loads[:, :3].sum(axis=0) - Ftot)) > 1e-9 * fs * F[..., 0].size:
        out.append(_fail("coupled point: total structural nodal force != total panel force", loads[:, :3].sum(axis=0), Ftot, **case))
    xs = nodes + disp[:, :3]
    Mn = loads[:, 3:].sum(axis=0) + np.cross(xs - P, loads[:, :3]).sum(axis=0)
    if np.max(np.abs(Mn - Mtot)) > 1e-8 * ms * F[..., 0].size:
        out.append(_fail("coupled point: total moment of the structural nodal loads (at the displaced structural nodes) != total moment of "
                         "the panel forces at the quarter-chord points of the deformed mesh", Mn, Mtot, **case))
    if np.max(np.abs(mpf.sum(axis=(0, 1)) - Ftot)) > 1e-9 * fs * F[..., 0].size:
        out.append(_fail("coupled point: exported mesh-node forces do not sum to the panel forces", mpf.sum(axis=(0, 1)), Ftot, **case))
    Mm = np.cross(dm - P, mpf).sum(axis=(0, 1))
    if np.max(np.abs(Mm - Mtot)) > 1e-8 * ms * F[..., 0].size:
        out.append(_fail("coupled point: moment of the exported mesh-node forces != moment of the panel forces on the deformed mesh", Mm, Mtot, **case))
    # aerodynamics alone, several surfaces
    from .oracles_aero import _aero_config, _flow
    surfaces = _aero_config(rng, tier)
    fl = _flow(rng, Mach_number=float(rng.uniform(0.3, 0.8)))
    if not any(x["symmetry"] for x in surfaces):
        fl["beta"] = float(rng.uniform(-8, 8))
    pa = pipelines.run_aero_point(surfaces, fl, compressible=compressible)
    for x in surfaces:
        n = x["name"]; m = x["mesh"]
        F = np.array(pa.get_val("pt.aero_states.%s_sec_forces" % n)); mpf = np.array(pa.get_val("pt.aero_states.%s_mesh_point_forces" % n))
        qc = 0.75 * 0.5 * (m[:-1, :-1] + m[:-1, 1:]) + 0.25 * 0.5 * (m[1:, :-1] + m[1:, 1:])
        Mtot = np.cross(qc - P, F).sum(axis=(0, 1)); fs = np.abs(F).max(); ms = max(np.abs(Mtot).max(), fs)
        c2 = dict(model="AeroPoint", surface=n, compressible=compressible, alpha=fl["alpha"], beta=fl["beta"], Mach_number=fl["Mach_number"],
                  shapes=[list(y["mesh"].shape) for y in surfaces])
        if np.max(np.abs(mpf.sum(axis=(0, 1)) - F.sum(axis=(0, 1)))) > 1e-9 * fs * F[..., 0].size:
            out.append(_fail("aero point: exported mesh-node forces do not sum to the panel forces", mpf.sum(axis=(0, 1)), F.sum(axis=(0, 1)), **c2))
        Mm = np.cross(m - P, mpf).sum(axis=(0, 1))
        if np.max(np.abs(Mm - Mtot)) > 1e-8 * ms * F[..., 0].size:
            out.append(_fail("aero point: moment of the exported mesh-node forces != moment of the panel forces", Mm, Mtot, **c2))
    return out


@oracle("C01", "group_check_partials")
def c01_group_partials(rng, tier):
    """an assembled model (aero point with random options, aerostructural point with tube or wingbox, structure alone with fuel and
    point masses) is converged at a random design point; the partials every one of its components reports there are compared
    with OpenMDAO's own check (complex step where the component asks for it, central differences with two step sizes
    otherwise; entries on which the two step sizes disagree are skipped)."""
    from . import oracles as _o
    kind = ["aerostruct", "aero", "struct"][_o.CURRENT_K % 3]
    pipelines.FORCE_COMPLEX = True
    try:
        return _c01_group_partials(rng, tier, kind)
    finally:
        pipelines.FORCE_COMPLEX = False


def _c01_group_partials(rng, tier, kind):
    from . import oracles as _o
    if kind == "aerostruct":
        s = _as_surface(rng, tier, fem="random", struct_weight_relief=bool(rng.integers(2)), with_wave=bool(rng.integers(2)),
                        chord_cp=np.array([1.0, 1.1]))
        prob = pipelines.build_aerostruct([s], [_as_flow(rng, Mach_number=float(rng.uniform(0.3, 0.85)))])
        case = dict(model="AerostructPoint", fem_model_type=s["fem_model_type"], symmetry=s["symmetry"], k_lam=s["k_lam"], S_ref_type=s["S_ref_type"])
    elif kind == "aero":
        from .oracles_aero import _aero_config, _flow
        # the components that stack several surfaces keep running offsets: three or more surfaces in every other case
        ns = (3 + int(rng.integers(2))) if (_o.CURRENT_K // 3) % 2 == 0 else int(rng.choice([1, 2]))
        surfaces = _aero_config(rng, tier, ns=ns)
        for x in surfaces:
            x["with_viscous"] = bool(rng.integers(2)); x["with_wave"] = bool(rng.integers(2))
            x["k_lam"] = float(rng.choice([0.05, 0.0, 1.0]))
        comp = bool(rng.integers(2)); rot = bool(rng.integers(2))
        fl = _flow(rng, Mach_number=float(rng.uniform(0.3, 0.85)))
        fl["omega"] = rng.normal(size=3) * 0.2
        prob = pipelines.build_aero_point(surfaces, fl, compressible=comp, rotational=rot)
        case = dict(model="AeroPoint", compressible=comp, rotational=rot, shapes=[list(x["mesh"].shape) for x in surfaces],
                    symmetry=[x["symmetry"] for x in surfaces])
    else:
        fem = str(rng.choice(["tube", "wingbox"]))
        s = _as_surface(rng, tier, fem=fem, struct_weight_relief=bool(rng.integers(2)))
        if rng.integers(2):
            s["n_point_masses"] = 1
        loads = rng.normal(size=(s["mesh"].shape[1], 6)) * 1e4
        prob = pipelines.build_struct_alone(s, loads)
        if "n_point_masses" in s:
            prob.set_val("wing.point_masses", np.array([[float(rng.uniform(500, 3000))]]))
            prob.set_val("wing.point_mass_locations", np.array([[1.0, -float(rng.uniform(0.5, 3.0)), -0.3]]))
            prob.set_val("wing.engine_thrusts", np.array([[float(rng.uniform(5e3, 3e4))]]))
        case = dict(model="SpatialBeamAlone", fem_model_type=fem, symmetry=s["symmetry"], weight_relief=s["struct_weight_relief"],
                    point_masses="n_point_masses" in s)
    with quiet():
        prob.run_model()
    d1, d2 = _check_partials_two_steps(prob)
    out = []
    for comp, keys in d1.items():
        if any(sk in comp for sk in _CP_SKIP):
            continue
        for key, v in keys.items():
            if "J_fwd" not in v or "J_fd" not in v or "J_fd" not in d2.get(comp, {}).get(key, {}) or _approximated(prob, comp, key):
                continue
            Ja = np.atleast_2d(np.array(v["J_fwd"], dtype=float)); J1 = np.atleast_2d(np.array(v["J_fd"], dtype=float))
            J2 = np.atleast_2d(np.array(d2[comp][key]["J_fd"], dtype=float))
            if Ja.shape != J1.shape:
                continue
            sc = max(float(np.max(np.abs(Ja))) if Ja.size else 0.0, float(np.max(np.abs(J1))) if J1.size else 0.0)
            if sc == 0.0:
                continue
            # relative to the size of the whole sub-Jacobian: complex step through `norm`/`abs` of nearly real vectors is itself only
            # accurate to about 1e-4 of a *small* entry (seen on Length and VLMGeometry, whose partials the model confirms to 1e-7)
            try:
                fmag = float(np.max(np.abs(np.array(prob.get_val(comp + "." + key[0])))))
            except Exception:
                fmag = 0.0
            tol = (2e-5 * sc + 1e-12 * fmag) * np.ones_like(Ja)       # second term: round-off floor of a derivative that is really zero
            unreliable = np.abs(J1 - J2) > 0.25 * tol
            D = np.where(unreliable, 0.0, np.abs(Ja - J1))
            if np.any(D > tol):
                i, j = np.unravel_index(int(np.argmax(D / tol)), D.shape)
                out.append(_fail("a component of the assembled model reports a partial derivative that differs from the finite-difference / "
                                 "complex-step derivative of its own compute()",
                                 "%s d %s / d %s entry (%d,%d): %.10g vs %.10g" % (comp, key[0], key[1], i, j, Ja[i, j], J1[i, j]),
                                 "equal", component=comp, of=key[0], wrt=key[1], **case))
            if "J_rev" in v:
                Jr = np.atleast_2d(np.array(v["J_rev"], dtype=float))
                if Jr.shape == Ja.shape and np.max(np.abs(Jr - Ja)) > 1e-9 * sc:
                    out.append(_fail("forward and reverse matrix-free products of a component are not adjoint to each other",
                                     "%s d %s / d %s" % (comp, key[0], key[1]), "J_rev = J_fwd", component=comp, **case))
            if len(out) >= 5:
                return out
    return out


# ---------------------------------------------------------------------------------------
# C03 at group level: change ONE independent input of a live assembled model at a time and compare with a fresh model
# ---------------------------------------------------------------------------------------
def _all_outputs(prob):
    vals = []
    for name, meta in prob.model.list_outputs(out_stream=None, val=True):
        v = np.atleast_1d(np.array(meta["val"], dtype=float)).ravel()
        vals.append((name, v))
    return vals


@oracle("C03", "single_input_history_groups")
def c03_single_input_history(rng, tier):
    """a live AerostructPoint / AeroPoint / SpatialBeamAlone / AtmosGroup is re-run after changing one independent input only
    (flight condition, load factor, one design-variable vector, …); every output of every subsystem must equal the one of
    a freshly built model at the same inputs (a cache keyed on a subset of the inputs goes stale here)"""
    import openmdao.api as om
    from . import oracles as _o
    kind = ["aerostruct", "atmos", "struct", "aero"][_o.CURRENT_K % 4]
    if kind == "aerostruct":
        s = _as_surface(rng, tier, fem="random", struct_weight_relief=True, chord_cp=np.array([1.0, 1.0]))
        flow = _as_flow(rng)
        build = lambda: pipelines.build_aerostruct([s], [flow])
        names = ["alpha", "v", "rho", "Mach_number", "load_factor", "wing.twist_cp", _thk(s)[0], "W0", "R", "CT"]
    elif kind == "aero":
        from .oracles_aero import _aero_config, _flow
        # the components that stack several surfaces keep running offsets: three or more surfaces in every other case
        ns = (3 + int(rng.integers(2))) if (_o.CURRENT_K // 3) % 2 == 0 else int(rng.choice([1, 2]))
        surfaces = _aero_config(rng, tier, ns=ns)
        for x in surfaces:
            x["with_viscous"] = True; x["with_wave"] = bool(rng.integers(2))
        fl = _flow(rng, Mach_number=float(rng.uniform(0.3, 0.8)))
        comp = bool(rng.integers(2))
        build = lambda: pipelines.build_aero_point(surfaces, fl, compressible=comp)
        names = ["alpha", "v", "rho", "Mach_number", "re", "cg", "beta"] + [x["name"] + "_def_mesh" for x in surfaces]
    elif kind == "struct":
        fem = str(rng.choice(["tube", "wingbox"]))
        s = _as_surface(rng, tier, fem=fem, struct_weight_relief=True)
        loads = rng.normal(size=(s["mesh"].shape[1], 6)) * 1e4
        build = lambda: pipelines.build_struct_alone(s, loads)
        names = ["loads", "load_factor", _thk(s)[0]]
    else:
        from openaerostruct.common.atmos_group import AtmosGroup
        alt0 = float(rng.uniform(1000, 12000))
        def build():
            p = om.Problem(reports=False)
            ivc = om.IndepVarComp(); ivc.add_output("altitude", val=alt0, units="m"); ivc.add_output("Mach_number", val=0.5)
            p.model.add_subsystem("ivc", ivc, promotes=["*"]); p.model.add_subsystem("atmos", AtmosGroup(), promotes=["*"])
            with quiet():
                p.setup()
            return p
        names = ["Mach_number", "altitude"]
    live = build()
    with quiet():
        live.run_model()
    # a second model built from the same script (identical names) is kept alive and analysed at *other* inputs between the
    # steps of the live one: instances must not share state through class attributes or module-level tables
    decoy = build()
    out = []
    order = [names[int(i)] for i in rng.permutation(len(names))][:4]
    state = {}
    for nm in order:
        try:
            with quiet():
                for k2 in order:
                    v2 = np.array(decoy.get_val(k2), dtype=float)
                    decoy.set_val(k2, v2 * (1.0 + 0.2 * rng.uniform(-1, 1, size=v2.shape)) + (0.03 if np.all(v2 == 0) else 0.0))
                decoy.run_model()
        except Exception:
            pass
        try:
            x0 = np.array(live.get_val(nm), dtype=float)
        except Exception:
            continue
        x1 = x0 * (1.0 + 0.15 * rng.uniform(-1, 1, size=x0.shape)) + (0.05 if np.all(x0 == 0) else 0.0)
        state[nm] = x1
        with quiet():
            live.set_val(nm, x1); live.run_model()
        fresh = build()
        with quiet():
            for k2, v2 in state.items():
                fresh.set_val(k2, v2)
            fresh.run_model()
        a = dict(_all_outputs(live)); b = dict(_all_outputs(fresh))
        for name in a:
            if name in b and a[name].shape == b[name].shape:
                sc = max(float(np.max(np.abs(b[name]))) if b[name].size else 0.0, 1e-30)
                if np.max(np.abs(a[name] - b[name])) > 1e-6 * sc + 1e-12:
                    out.append(_fail("after changing only '%s' on a live model an output differs from a freshly built model at the same inputs" % nm,
                                     "%s: %s" % (name, a[name][:3]), "%s" % b[name][:3], model=kind, changed_input=nm, output=name,
                                     sequence=list(state)))
                    return out
    return out


# ---------------------------------------------------------------------------------------
# C10 / C03: a live structural problem whose geometry is mirrored / rotated between runs (same stiffness magnitudes, other signs)
# ---------------------------------------------------------------------------------------
def _c10_live_sign_flips(rng, tier):
    """SpatialBeamAlone with a dihedral design variable: run at +d, then at -d (anhedral: every length, area and inertia is
    the same, only signs in the stiffness matrix change), then with a thicker wall, and compare each state with a freshly
    built problem and with the independent frame"""
    fem = str(rng.choice(["tube", "wingbox"]))
    s = _as_surface(rng, tier, fem=fem)
    s["twist_cp"] = np.zeros(3)          # flat, untwisted planform: +d and -d are exact mirror images of each other
    s["mesh"][:, :, 2] = 0.0
    d0 = float(rng.uniform(3, 12))
    s["dihedral"] = d0
    ny = s["mesh"].shape[1]
    loads = rng.normal(size=(ny, 6)) * 1e4
    live = pipelines.build_struct_alone(s, loads)
    out = []
    seq = []
    def fresh_at(dih, thk):
        s2 = dict(s); s2["dihedral"] = dih
        p = pipelines.build_struct_alone(s2, loads)
        with quiet():
            p.set_val(_thk(s)[0], thk); p.run_model()
        return np.array(p.get_val("wing.disp"))
    thk = np.array(_thk(s)[1], dtype=float)
    for dih, tscale in ((d0, 1.0), (-d0, 1.0), (-d0, 1.6), (d0, 1.6)):
        seq.append((round(dih, 3), tscale))
        with quiet():
            live.set_val("wing.geometry.dihedral", dih); live.set_val(_thk(s)[0], thk * tscale); live.run_model()
        dl = np.array(live.get_val("wing.disp")); df = fresh_at(dih, thk * tscale)
        if relerr(dl, df) > 1e-8:
            out.append(_fail("a live structural problem re-run at a mirrored geometry differs from a freshly built problem at that geometry",
                             dl[:2].ravel()[:6], df[:2].ravel()[:6], fem_model_type=fem, symmetry=s["symmetry"], ny=ny, sequence=list(seq)))
            break
    return out


oracle("C10", "live_problem_mirrored_geometry")(_c10_live_sign_flips)
oracle("C03", "live_structure_mirrored_geometry")(_c10_live_sign_flips)


@oracle("C07", "mirror_symmetric_structure_with_inertial_loads")
def c07_struct_alone_symmetry(rng, tier):
    """a mirror-symmetric full-span structure (tube or wingbox) under mirror-symmetric applied loads, with weight relief,
    distributed fuel (wingbox) and a mirror pair of point masses / engines in random combinations: the loads the FEM receives
    and the displacements are mirror symmetric"""
    import openmdao.api as om
    from openaerostruct.structures.struct_groups import SpatialBeamAlone
    fem = str(rng.choice(["tube", "wingbox"]))
    s = _as_surface(rng, tier, sym=True, fem=fem, struct_weight_relief=bool(rng.integers(2)))
    for k in ("thickness_cp", "spar_thickness_cp", "skin_thickness_cp", "twist_cp", "t_over_c_cp"):
        if k in s:
            s[k] = np.full(np.asarray(s[k]).shape, float(np.asarray(s[k]).ravel()[0]))     # constant distributions
    f, sl = _full_surface(s)
    for k in ("spar_thickness_cp", "skin_thickness_cp", "t_over_c_cp"):
        if k in f:
            cp = np.asarray(f[k]); f[k] = np.concatenate([cp, cp[-2::-1]])
    fuel = bool(fem == "wingbox" and rng.integers(2)); f["distributed_fuel_weight"] = fuel
    pm = bool(rng.integers(2))
    if pm:
        f["n_point_masses"] = 2
    if not (f["struct_weight_relief"] or fuel or pm):
        f["struct_weight_relief"] = True
    ny = f["mesh"].shape[1]; nh = s["mesh"].shape[1]
    mir6 = np.array([1, -1, 1, -1, 1, -1.0])
    lh = rng.normal(size=(nh, 6)) * 1e4
    lh[-1, [1, 3, 5]] = 0.0                              # the centre node lies on the plane
    loads = np.concatenate([lh, (lh[:-1] * mir6)[::-1]])
    yloc = float(rng.uniform(0.5, 0.8 * np.max(np.abs(f["mesh"][0, :, 1]))))
    prob = om.Problem(reports=False)
    ivc = om.IndepVarComp()
    ivc.add_output("loads", val=loads, units="N"); ivc.add_output("load_factor", val=float(rng.choice([1.0, 2.5])))
    if pm:
        ivc.add_output("point_masses", val=np.array([[800.0], [800.0]]), units="kg")
        ivc.add_output("point_mass_locations", val=np.array([[1.0, -yloc, -0.4], [1.0, yloc, -0.4]]), units="m")
        ivc.add_output("engine_thrusts", val=np.array([[2e4], [2e4]]), units="N")
    if fuel:
        ivc.add_output("fuel_mass", val=float(rng.uniform(500, 5000)), units="kg")
    prob.model.add_subsystem("ivc", ivc, promotes=["*"])
    prob.model.add_subsystem("wing", SpatialBeamAlone(surface=f))
    prob.model.connect("loads", "wing.loads"); prob.model.connect("load_factor", "wing.load_factor")
    if pm:
        for k in ("point_masses", "point_mass_locations", "engine_thrusts"):
            prob.model.connect(k, "wing." + k)
    if fuel:
        prob.model.connect("fuel_mass", "wing.struct_states.fuel_mass")
        prob.model.connect("wing.struct_setup.fuel_vols", "wing.struct_states.fuel_vols")
    with quiet():
        prob.setup(); prob.run_model()
    tot = np.array(prob.get_val("wing.struct_states.total_loads")); disp = np.array(prob.get_val("wing.disp"))
    out = []
    case = dict(fem_model_type=fem, weight_relief=f["struct_weight_relief"], distributed_fuel=fuel, point_masses=pm, ny=ny)
    if relerr(tot[::-1] * mir6, tot) > 1e-9:
        k = int(np.argmax(np.max(np.abs(tot[::-1] * mir6 - tot), axis=1)))
        out.append(_fail("the loads received by the FEM of a mirror-symmetric full-span structure are not mirror symmetric",
                         (tot[::-1] * mir6)[k], tot[k], node=k, **case))
    if relerr(disp[::-1] * mir6, disp) > 1e-7:
        out.append(_fail("displacements of a mirror-symmetric full-span structure are not mirror symmetric", (disp[::-1] * mir6)[0], disp[0], **case))
    return out
