"""
check <Cxx> [--tier quick|thorough] [--replay file]

1. build the Lean library (model, proofs, driver), grep forbidden constructs, audit axioms
2. correspondence suites for the property's modelled footprint (real code vs Lean model)
3. the property's own relation evaluated on the real code (oracles)
4. known findings (witness replay), verdict, evidence
Exit 0: property held on everything explored.  Exit 1: VIOLATION line printed.  Exit 2: infrastructure.
"""
import sys, os, json, time, argparse, traceback

T0 = time.time()


def main():
    ap = argparse.ArgumentParser()
    ap.add_argument("prop")
    ap.add_argument("--tier", default=os.environ.get("VERIF_TIER", "quick"))
    ap.add_argument("--replay", default=None)
    ap.add_argument("--no-build", action="store_true")
    args = ap.parse_args()
    os.environ["VERIF_TIER"] = args.tier
    from . import core
    core.TIER = args.tier
    from . import leanbuild, registry, suites, oracles, findings
    prop = args.prop
    if prop not in registry.PROPS:
        print("unknown or unclaimed property", prop)
        return 2
    R = registry.PROPS[prop]
    os.makedirs(os.path.join(core.VERIF, "out", "replays"), exist_ok=True)
    os.makedirs(os.path.join(core.VERIF, "evidence"), exist_ok=True)

    if args.replay:
        return replay(prop, args.replay, core, oracles, findings)

    problems = []       # broken obligations / correspondences (not yet violations)
    failures = []       # concrete failing inputs on the real code
    notes = []

    # ---- 1. build + audit ---------------------------------------------------------------
    from . import generate
    gen_names = R.get("generated", [])
    gen_info = generate.run(gen_names)
    for gname, gi in gen_info.items():
        if "error" in gi:
            problems.append(dict(kind="proof-obligation", detail="generator %s cannot read the source any more: %s" % (gname, gi["error"])))
    modules = R["modules"]
    gen_modules = R.get("generated_modules", [])
    ok, log = (True, "") if args.no_build else leanbuild.lake_build(["OASModel", "OASDriver", "oasdriver"])
    if not ok:
        print(log[-3000:])
        print("INFRASTRUCTURE: lake build of the model/driver failed")
        return 2
    ok, log = (True, "") if args.no_build else leanbuild.lake_build(modules)
    if not ok:
        failed = leanbuild.failed_modules(log)
        if not gen_modules or not all(m in gen_modules for m in failed):
            # a failure in a module that does not depend on data regenerated from /repo is ours
            print(log[-3000:])
            print("INFRASTRUCTURE: lake build failed in modules", failed)
            return 2
        problems.append(dict(kind="proof-obligation",
                             detail="theorems about data regenerated from /repo no longer check: %s" % failed,
                             log=[l for l in log.split("\n") if "error" in l][:8]))
    hits = leanbuild.forbidden_hits()
    if hits:
        print("\n".join(hits))
        print("INFRASTRUCTURE: forbidden constructs in Lean sources")
        return 2
    theorems = R["theorems"]
    discharged = 0
    axioms_seen = set()
    missing = []
    broken_theorems = []
    res, out = leanbuild.audit(theorems, imports=[m for m in modules if ok or m not in gen_modules])
    for t in theorems:
        ax = res.get(t)
        if ax is None:
            if not ok and any(t.startswith(pref) for pref in R.get("generated_theorem_prefixes", [])):
                broken_theorems.append(t)
            else:
                missing.append(t)
        elif ax <= leanbuild.ALLOWED_AXIOMS:
            discharged += 1
            axioms_seen |= ax
        else:
            missing.append(t + " (axioms %s)" % sorted(ax))
    if missing:
        print(out[-2000:])
        print("INFRASTRUCTURE: registered theorems missing or with unexpected axioms:", missing)
        return 2

    # ---- 2. correspondence --------------------------------------------------------------
    st = suites.Stats()
    try:
        if ok or os.path.exists(core.DRIVER):
            registry.run_suites(prop, st, args.tier)
    except core.DriverError as e:
        print("INFRASTRUCTURE: model driver failed:", e)
        return 2
    for d in st.disagreements:
        problems.append(dict(d, kind="correspondence:" + d.get("kind", "")))

    # ---- 3. the property's relation on the real code ------------------------------------
    oracles.register_history(prop, R.get("history_components", R.get("components", [])))
    if R.get("jacobian_components"):
        oracles.register_jacobian(prop, R["jacobian_components"])
    n_or = R.get("oracle_cases", {}).get(args.tier, 6 if args.tier == "quick" else 40)
    # broken correspondences that are exactly a listed known finding do not trigger the intensified search
    _, _, unexplained, _ = findings.process(prop, [], problems)
    if unexplained:
        n_or = max(n_or * 4, 40)     # search harder when something no longer checks
    rel_checked = 0
    for name, f in oracles.ORACLES.get(prop, []):
        for k in range(n_or):
            keys = ["oracle", prop, name, k]
            oracles.CURRENT_K = k
            try:
                fl = f(core.rng_for(*keys), args.tier)
            except oracles.Discard:
                st.discarded += 1
                continue
            except core.DriverError:
                raise
            except core.om.AnalysisError:
                # a solver of the framework did not converge: outside the model, discarded and counted
                st.discarded += 1
                continue
            except Exception as ex:
                # the real code raised on a configuration inside the property's quantifier
                import traceback as _tb
                tb = _tb.extract_tb(ex.__traceback__)
                where = next((("%s:%d" % (fr.filename, fr.lineno)) for fr in reversed(tb) if "/openaerostruct/" in fr.filename), "")
                fl = [dict(what="the analysis raised %s on an admissible configuration" % type(ex).__name__,
                           observed=str(ex)[:300], required="a result", case=dict(where=where))]
            rel_checked += 1
            for x in fl:
                x["oracle"] = name
                x["seed_keys"] = keys
                failures.append(x)
    st.relation_instances = rel_checked

    # ---- 4. known findings --------------------------------------------------------------
    known_lines, failures, problems, kf_info = findings.process(prop, failures, problems)
    for l in known_lines:
        print(l)

    # ---- verdict ------------------------------------------------------------------------
    violations = []
    if failures:
        f0 = failures[0]
        path = write_replay(core, prop, dict(kind="failing-input", property=prop, seed=core.SEED, tier=args.tier,
                                             failure=f0, n_failures=len(failures),
                                             broken=[p.get("detail") for p in problems][:5]))
        violations.append("VIOLATION property=%s replay=%s" % (prop, path))
    elif problems:
        p0 = problems[0]
        path = write_replay(core, prop, dict(kind="no-failing-input-found", property=prop, seed=core.SEED, tier=args.tier,
                                             broken=problems[:10],
                                             theorems_no_longer_checking=broken_theorems,
                                             theorems_no_longer_tied=theorems,
                                             note="the model no longer corresponds to the code (or an obligation regenerated "
                                                  "from /repo no longer checks); the oracles found no failing input"))
        violations.append("VIOLATION property=%s replay=%s no-failing-input-found" % (prop, path))

    lc = None
    if args.tier == "thorough" and ok and not args.no_build:
        lc = registry.leanchecker(prop)
    wall = time.time() - T0
    ev = dict(
        property_id=prop, tier=args.tier, seed=core.SEED, level="proof",
        coverage=dict(
            obligations=len(theorems), discharged=discharged,
            checker_cmd="cd /verif/lean && lake build && lake env lean <audit file with #print axioms for the registered theorems>"
                        + ((" && lake env leanchecker " + " ".join(R["modules"])) if args.tier == "thorough" else ""),
            trusted_base=registry.trusted_base(prop, sorted(axioms_seen)),
            theorems=theorems,
            evaluations=st.evaluations + rel_checked,
            distinct_nontrivial=len(st.nontrivial) + rel_checked,
            rule="correspondence cases are generated from VERIF_SEED by harness/gen.py (real generate_mesh + random planform, "
                 "forces, displacements) on a grid of mesh sizes and symmetry flags; a case is distinct by the SHA-256 of its "
                 "op, options and input floats and non-trivial when the real component produced at least one non-zero output; "
                 "oracle cases (relation_instances_checked) are counted once each, they are generated from distinct seeds",
            samples=st.samples,
            correspondence_cases=st.evaluations, per_suite=st.per_suite, histogram=st.hist,
            relation_instances_checked=rel_checked, discarded=st.discarded,
            correspondence_disagreements=len(st.disagreements),
            known_findings=kf_info, generated=gen_info,
        ),
        assumptions=registry.assumptions(prop),
        wall_s=round(wall, 2), violations=len(violations),
    )
    if lc is not None:
        lc_ok, lc_out = lc
        ev["coverage"]["leanchecker"] = "ok" if lc_ok else lc_out[-500:]
        if not lc_ok:
            print(lc_out[-2000:]); print("INFRASTRUCTURE: leanchecker failed"); return 2
    with open(os.path.join(core.VERIF, "evidence", prop + ".json"), "w") as f:
        json.dump(ev, f, indent=1, default=str)
    print("%s tier=%s seed=%d theorems=%d/%d correspondence=%d (disagree %d) relation_instances=%d wall=%.1fs" % (
        prop, args.tier, core.SEED, discharged, len(theorems), st.evaluations, len(st.disagreements), rel_checked, wall))
    for v in violations:
        print(v)
    return 1 if violations else 0


def write_replay(core, prop, obj):
    d = os.path.join(core.VERIF, "out", "replays")
    p = os.path.join(d, "%s_seed%d_%d.json" % (prop, core.SEED, int(time.time())))
    with open(p, "w") as f:
        json.dump(obj, f, indent=1, default=str)
    return p


def replay(prop, path, core, oracles, findings):
    obj = json.load(open(path))
    core.SEED = int(obj.get("seed", 0))
    if obj.get("kind") == "failing-input":
        f0 = obj["failure"]
        keys = f0["seed_keys"]
        from . import registry
        R = registry.PROPS[prop]
        oracles.register_history(prop, R.get("history_components", R.get("components", [])))
        if R.get("jacobian_components"):
            oracles.register_jacobian(prop, R["jacobian_components"])
        for name, f in oracles.ORACLES.get(prop, []):
            if name == f0["oracle"]:
                oracles.CURRENT_K = int(keys[-1])
                fl = f(core.rng_for(*keys), obj.get("tier", "quick"))
                if fl:
                    print("replay reproduces:", fl[0]["what"], "observed", fl[0]["observed"], "required", fl[0]["required"])
                    print("VIOLATION property=%s replay=%s" % (prop, path))
                    return 1
                print("replay no longer fails")
                return 0
        print("oracle not found:", f0.get("oracle"))
        return 2
    else:
        print("replay file names broken obligations/correspondences:")
        for b in obj.get("broken", []):
            print("  ", b)
        print("re-run `./check %s` to re-evaluate them" % prop)
        return 1


if __name__ == "__main__":
    try:
        rc = main()
    except SystemExit:
        raise
    except Exception:
        traceback.print_exc()
        print("INFRASTRUCTURE: check crashed")
        rc = 2
    sys.exit(rc)
