"""Build the Lean project, grep for forbidden constructs, audit axioms of registered theorems."""
import os, re, subprocess, json, fcntl, time, hashlib
from .core import VERIF

LEAN_DIR = os.path.join(VERIF, "lean")
ALLOWED_AXIOMS = {"propext", "Classical.choice", "Quot.sound"}
FORBIDDEN = re.compile(r"\b(sorry|admit|native_decide|bv_decide|implemented_by|unsafe)\b|^\s*axiom\s|maxHeartbeats\s+0")


def _strip_comments(text):
    # remove block comments (nested not handled beyond one level, sufficient here) and line comments
    out = []
    depth = 0
    i = 0
    while i < len(text):
        if text.startswith("/-", i):
            depth += 1; i += 2; continue
        if text.startswith("-/", i) and depth > 0:
            depth -= 1; i += 2; continue
        if depth == 0:
            if text.startswith("--", i):
                j = text.find("\n", i)
                i = len(text) if j < 0 else j
                continue
            out.append(text[i])
        elif text[i] == "\n":
            out.append("\n")
        i += 1
    return "".join(out)


def forbidden_hits():
    hits = []
    for root, _, files in os.walk(LEAN_DIR):
        if ".lake" in root:
            continue
        for f in files:
            if f.endswith(".lean"):
                p = os.path.join(root, f)
                txt = _strip_comments(open(p).read())
                for ln, line in enumerate(txt.split("\n"), 1):
                    if FORBIDDEN.search(line):
                        hits.append("%s:%d: %s" % (os.path.relpath(p, VERIF), ln, line.strip()[:100]))
    return hits


class Lock:
    def __enter__(self):
        self.f = open(os.path.join(LEAN_DIR, ".build.lock"), "w")
        fcntl.flock(self.f, fcntl.LOCK_EX)
        return self

    def __exit__(self, *a):
        fcntl.flock(self.f, fcntl.LOCK_UN)
        self.f.close()


def lake_build(targets=None, timeout=3000):
    """returns (ok, log)"""
    cmd = ["lake", "build"] + (targets or [])
    with Lock():
        p = subprocess.run(cmd, cwd=LEAN_DIR, stdout=subprocess.PIPE, stderr=subprocess.STDOUT, timeout=timeout)
    return p.returncode == 0, p.stdout.decode(errors="replace")


def failed_modules(log):
    return sorted(set(re.findall(r"^- (\S+)$", log, flags=re.M)))


def audit(theorems, timeout=1800, imports=("OASProofs",)):
    """#print axioms for each theorem name; returns ({name: set(axioms) | None if missing}, raw output)"""
    if not theorems:
        return {}, ""
    src = "".join("import %s\n" % m for m in imports) + "\n".join("#print axioms %s" % t for t in theorems) + "\n"
    key = hashlib.sha256(src.encode()).hexdigest()[:12]
    path = os.path.join(LEAN_DIR, ".lake", "audit_%s_%d.lean" % (key, os.getpid()))
    os.makedirs(os.path.dirname(path), exist_ok=True)
    open(path, "w").write(src)
    try:
        p = subprocess.run(["lake", "env", "lean", path], cwd=LEAN_DIR, stdout=subprocess.PIPE,
                           stderr=subprocess.STDOUT, timeout=timeout)
    finally:
        try:
            os.remove(path)
        except OSError:
            pass
    out = p.stdout.decode(errors="replace")
    res = {t: None for t in theorems}
    # messages:  'X' depends on axioms: [a, b]   |   'X' does not depend on any axioms
    for m in re.finditer(r"^'([^\n]+?)' depends on axioms: \[([^\]]*)\]", out, flags=re.M):
        res[m.group(1)] = set(a.strip() for a in m.group(2).replace("\n", " ").split(",") if a.strip())
    for m in re.finditer(r"^'([^\n]+?)' does not depend on any axioms", out, flags=re.M):
        res[m.group(1)] = set()
    return res, out
