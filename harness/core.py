"""
Core of the correspondence harness.

* imports OpenAeroStruct from /repo's working tree (never the stale site-packages copy);
* talks to the Lean model driver (lean/.lake/build/bin/oasdriver) through the line protocol
  of OASDriver/Main.lean (floats as IEEE-754 bit patterns);
* runs real OpenMDAO components in one-component problems and extracts outputs and the
  analytic Jacobian the component reports to the framework;
* compares values and Jacobians with scale-relative tolerances.
"""
import os, sys, struct, subprocess, json, time, hashlib, warnings, io, contextlib

REPO = os.environ.get("OAS_REPO", "/repo")
VERIF = os.path.dirname(os.path.dirname(os.path.abspath(__file__)))
sys.path.insert(0, REPO)
os.environ.setdefault("OPENMDAO_REPORTS", "0")
os.environ.setdefault("OPENMDAO_WORKDIR", "/tmp/oas_verif_omwork")
warnings.filterwarnings("ignore")

import numpy as np
import openmdao.api as om
import openaerostruct

assert os.path.realpath(openaerostruct.__file__).startswith(os.path.realpath(REPO) + os.sep), (
    "openaerostruct imported from %s, expected %s" % (openaerostruct.__file__, REPO))

DRIVER = os.environ.get("OAS_DRIVER") or os.path.join(VERIF, "lean", ".lake", "build", "bin", "oasdriver")

SEED = int(os.environ.get("VERIF_SEED", "0"))
TIER = os.environ.get("VERIF_TIER", "quick")


def rng_for(*keys):
    """independent, reproducible stream derived from VERIF_SEED and a label"""
    h = hashlib.sha256(("%d|" % SEED + "|".join(str(k) for k in keys)).encode()).digest()
    return np.random.default_rng(int.from_bytes(h[:8], "little"))


# ----------------------------------------------------------------------------------------
# protocol
# ----------------------------------------------------------------------------------------
def _hex(x):
    return struct.pack(">d", float(x)).hex()


def _unhex(s):
    return struct.unpack(">d", bytes.fromhex(s))[0]


def encode_line(op, ints, floats, tangents=None):
    fl = [float(v) for v in np.asarray(floats, dtype=float).ravel()]
    parts = [("d:" + op) if tangents is not None else op, str(len(ints))]
    parts += [str(int(i)) for i in ints]
    parts.append(str(len(fl)))
    parts += [_hex(v) for v in fl]
    if tangents is not None:
        tl = [float(v) for v in np.asarray(tangents, dtype=float).ravel()]
        assert len(tl) == len(fl)
        parts += [_hex(v) for v in tl]
    return " ".join(parts)


class DriverError(Exception):
    pass


def run_driver(lines):
    """send request lines, return list of numpy arrays (or DriverError instances)"""
    if not lines:
        return []
    if not os.path.exists(DRIVER):
        raise DriverError("model driver not built: " + DRIVER)
    try:
        p = subprocess.run([DRIVER], input=("\n".join(lines) + "\n").encode(), stdout=subprocess.PIPE,
                           stderr=subprocess.PIPE, timeout=float(os.environ.get("OAS_DRIVER_TIMEOUT", "900")))
    except subprocess.TimeoutExpired:
        raise DriverError("model driver timed out on %d request lines (first op %s)" % (len(lines), lines[0].split(" ")[0]))
    if p.returncode != 0:
        raise DriverError("driver exit %d: %s" % (p.returncode, p.stderr.decode()[-500:]))
    out = []
    replies = p.stdout.decode().split("\n")
    if replies and replies[-1] == "":
        replies.pop()
    if len(replies) != len(lines):
        raise DriverError("driver returned %d replies for %d requests; stderr=%s" % (
            len(replies), len(lines), p.stderr.decode()[-300:]))
    for r in replies:
        t = r.split(" ")
        if t[0] != "ok":
            out.append(DriverError(r))
        else:
            out.append(np.array([_unhex(s) for s in t[2:2 + int(t[1])]], dtype=float))
    return out


def model_value(op, ints, floats):
    r = run_driver([encode_line(op, ints, floats)])[0]
    if isinstance(r, DriverError):
        raise r
    return r


def model_jacobian(op, ints, floats, wrt_idx):
    """dense Jacobian of the model op w.r.t. the float positions wrt_idx (forward-mode duals)"""
    floats = np.asarray(floats, dtype=float).ravel()
    lines = []
    for c in wrt_idx:
        t = np.zeros_like(floats)
        t[c] = 1.0
        lines.append(encode_line(op, ints, floats, t))
    res = run_driver(lines)
    cols = []
    val = None
    for r in res:
        if isinstance(r, DriverError):
            raise r
        m = len(r) // 2
        val = r[:m]
        cols.append(r[m:])
    return val, (np.array(cols).T if cols else np.zeros((0, 0)))


# ----------------------------------------------------------------------------------------
# running real components
# ----------------------------------------------------------------------------------------
@contextlib.contextmanager
def quiet():
    with warnings.catch_warnings():
        warnings.simplefilter("ignore")
        with contextlib.redirect_stdout(io.StringIO()), contextlib.redirect_stderr(io.StringIO()):
            yield


def comp_problem(comp, inputs, complex_alloc=False):
    """one-component problem fed by an IndepVarComp; returns the Problem after run_model"""
    prob = om.Problem(reports=False)
    ivc = om.IndepVarComp()
    for k, v in inputs.items():
        ivc.add_output(k, val=np.array(v, dtype=float))
    prob.model.add_subsystem("ivc", ivc, promotes=["*"])
    prob.model.add_subsystem("c", comp, promotes=["*"])
    with quiet():
        prob.setup(force_alloc_complex=complex_alloc)
        for k, v in inputs.items():
            prob.set_val(k, np.array(v, dtype=float))
        prob.run_model()
    return prob


def comp_outputs(prob, outputs):
    return {k: np.array(prob.get_val(k), dtype=float) for k in outputs}


def comp_jacobian(prob, outputs, inputs):
    """the Jacobian the component reports (through its declared sparsity), as dense blocks"""
    with quiet():
        J = prob.compute_totals(of=list(outputs), wrt=list(inputs), return_format="dict")
    return {(o, i): np.atleast_2d(np.array(J[o][i], dtype=float)) for o in outputs for i in inputs}


def flat_cat(d, keys):
    return np.concatenate([np.asarray(d[k], dtype=float).ravel() for k in keys]) if keys else np.zeros(0)


def dense_from_blocks(J, outputs, inputs, osz, isz):
    rows = []
    for o in outputs:
        rows.append(np.hstack([J[(o, i)].reshape(osz[o], isz[i]) for i in inputs]))
    return np.vstack(rows)


def cs_jacobian(comp_factory, inputs, outputs, h=1e-30):
    """complex-step derivative of the real compute(); returns dense matrix or None if unsupported"""
    prob = om.Problem(reports=False)
    comp = comp_factory()
    prob.model.add_subsystem("c", comp, promotes=["*"])
    with quiet():
        prob.setup(force_alloc_complex=True)
        for k, v in inputs.items():
            prob.set_val(k, np.array(v, dtype=float))
        prob.run_model()
        prob.set_complex_step_mode(True)
    names_in = list(inputs)
    cols = []
    try:
        with quiet():
            for k in names_in:
                base = np.array(inputs[k], dtype=complex)
                flat = base.ravel()
                for idx in range(flat.size):
                    pert = flat.copy()
                    pert[idx] += 1j * h
                    for kk in names_in:
                        comp._inputs[kk] = np.array(inputs[kk], dtype=complex).reshape(comp._inputs[kk].shape)
                    comp._inputs[k] = pert.reshape(comp._inputs[k].shape)
                    comp.compute(comp._inputs, comp._outputs)
                    cols.append(np.concatenate([np.array(comp._outputs[o]).ravel().imag / h for o in outputs]))
    finally:
        with quiet():
            prob.set_complex_step_mode(False)
    return np.array(cols).T


def fd_jacobian(comp_factory, inputs, outputs, rel=1e-6):
    """central finite differences of the real compute() (Richardson-extrapolated)"""
    comp = comp_factory()
    prob = om.Problem(reports=False)
    prob.model.add_subsystem("c", comp, promotes=["*"])
    with quiet():
        prob.setup()

    def f(x):
        off = 0
        for k in inputs:
            n = np.asarray(inputs[k]).size
            prob.set_val(k, x[off:off + n].reshape(np.asarray(inputs[k]).shape))
            off += n
        with quiet():
            prob.run_model()
        return np.concatenate([np.array(prob.get_val(o), dtype=float).ravel() for o in outputs])

    x0 = flat_cat(inputs, list(inputs))
    # step relative to the entry, or to the largest entry of the same input array when the entry is (near) zero
    scale = np.concatenate([np.full(np.asarray(inputs[k]).size, max(float(np.max(np.abs(np.asarray(inputs[k], dtype=float)))) if np.asarray(inputs[k]).size else 0.0, 0.0))
                            for k in inputs]) if len(inputs) else np.zeros(0)
    cols = []
    for c in range(x0.size):
        ref = abs(x0[c]) if abs(x0[c]) > 1e-3 * scale[c] else scale[c]
        h = rel * (ref if ref > 0 else 1.0)
        e = np.zeros_like(x0); e[c] = h
        d1 = (f(x0 + e) - f(x0 - e)) / (2 * h)
        d2 = (f(x0 + e / 2) - f(x0 - e / 2)) / h
        cols.append((4 * d2 - d1) / 3)
    return np.array(cols).T


# ----------------------------------------------------------------------------------------
# comparison
# ----------------------------------------------------------------------------------------
def close_vec(a, b, rtol=1e-9, atol=0.0):
    a = np.asarray(a, dtype=float).ravel(); b = np.asarray(b, dtype=float).ravel()
    if a.shape != b.shape:
        return False, "shape %s vs %s" % (a.shape, b.shape)
    if a.size == 0:
        return True, ""
    if not (np.all(np.isfinite(a)) and np.all(np.isfinite(b))):
        if np.array_equal(np.isnan(a), np.isnan(b)) and np.array_equal(np.isinf(a), np.isinf(b)):
            m = np.isfinite(a)
            a = a[m]; b = b[m]
            if a.size == 0:
                return True, ""
        else:
            return False, "non-finite mismatch"
    scale = max(np.max(np.abs(a)), np.max(np.abs(b)))
    err = np.max(np.abs(a - b))
    if err <= rtol * scale + atol:
        return True, ""
    k = int(np.argmax(np.abs(a - b)))
    return False, "max |diff| %.3e at %d (%.12g vs %.12g), scale %.3e" % (err, k, a[k], b[k], scale)


def close_jac(Ja, Jb, rtol=1e-7, atol=0.0, fvals=None, xvals=None, noise=1e-12, Jb2=None):
    """column-scale-relative comparison of two dense Jacobians.

    tol_ij = rtol * (largest entry of column j in either matrix) + noise * |f_i| / |x_j| + atol.
    The second term is the round-off floor of a derivative obtained by perturbing x_j
    (complex step / finite difference / cancellation in the analytic formula); it is far below
    any genuine derivative of f_i w.r.t. x_j unless that derivative is itself negligible.
    """
    Ja = np.asarray(Ja, dtype=float); Jb = np.asarray(Jb, dtype=float)
    if Ja.shape != Jb.shape:
        return False, "shape %s vs %s" % (Ja.shape, Jb.shape)
    if Ja.size == 0:
        return True, ""
    if not (np.all(np.isfinite(Ja)) and np.all(np.isfinite(Jb))):
        return False, "non-finite entries"
    colscale = np.maximum(np.max(np.abs(Ja), axis=0), np.max(np.abs(Jb), axis=0))
    rowscale = np.maximum(np.max(np.abs(Ja), axis=1), np.max(np.abs(Jb), axis=1))
    tol = rtol * colscale[None, :] + atol
    if fvals is not None and xvals is not None:
        f = np.abs(np.asarray(fvals, dtype=float).ravel())
        x = np.abs(np.asarray(xvals, dtype=float).ravel())
        fs = np.maximum(f, 1e-3 * (f.max() if f.size else 0.0))
        xs = np.maximum(x, max(1e-3 * (x.max() if x.size else 0.0), 1e-12))
        tol = tol + noise * fs[:, None] / xs[None, :]
    tol = np.maximum(tol, 1e-300)
    D = np.abs(Ja - Jb)
    if Jb2 is not None:
        # Jb2: a second estimate of Jb (finite differences with another step). Entries on which the two estimates do not
        # agree with each other to a quarter of the tolerance are numerically unreliable (cancellation inside compute())
        # and are not compared.
        Jb2 = np.asarray(Jb2, dtype=float)
        unreliable = ~(np.abs(Jb - Jb2) <= 0.25 * tol)
        D = np.where(unreliable, 0.0, D)
    bad = D > tol
    if not bad.any():
        return True, ""
    i, j = np.unravel_index(int(np.argmax(D / tol)), D.shape)
    return False, "entry (%d,%d): %.12g vs %.12g (column scale %.3e, row scale %.3e, tol %.3e)" % (
        i, j, Ja[i, j], Jb[i, j], colscale[j], rowscale[i], tol[i, j])


def case_hash(*parts):
    h = hashlib.sha256()
    for p in parts:
        if isinstance(p, np.ndarray):
            h.update(np.ascontiguousarray(p, dtype=float).tobytes())
        else:
            h.update(repr(p).encode())
    return h.hexdigest()[:16]
