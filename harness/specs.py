"""
Component specifications: how to build the real OpenMDAO component, which inputs to generate,
and how the same case is presented to the Lean model op (ints, constant floats, input floats in
order, outputs in order).  One entry per modelled component.
"""
from collections import OrderedDict
import numpy as np
from . import gen

SPECS = {}


def spec(name, op=None, jac=True, sym_opts=(True, False), min_ny=2):
    def deco(f):
        SPECS[name] = dict(name=name, op=op or name, build=f, jac=jac, sym_opts=sym_opts, min_ny=min_ny)
        return f
    return deco


def _surf(rng, nx, ny, sym, **kw):
    return gen.base_surface(rng, nx, ny, sym, **kw)


# ---------------------------------------------------------------------------------------
# transfer
# ---------------------------------------------------------------------------------------
@spec("ComputeNodes")
def _compute_nodes(rng, nx, ny, sym):
    from openaerostruct.structures.compute_nodes import ComputeNodes
    s = _surf(rng, nx, ny, sym)
    return dict(factory=lambda: ComputeNodes(surface=s), ints=[nx, ny], consts=[s["fem_origin"]],
                inputs=OrderedDict(mesh=s["mesh"]), outputs=["nodes"],
                pattern=dict(op="ComputeNodesPattern", ints=[nx, ny], floats=[s["fem_origin"]], of="nodes", wrt="mesh"))


@spec("LoadTransfer")
def _load_transfer(rng, nx, ny, sym):
    from openaerostruct.transfer.load_transfer import LoadTransfer
    s = _surf(rng, nx, ny, sym)
    F = rng.normal(size=(nx - 1, ny - 1, 3)) * 1e3
    return dict(factory=lambda: LoadTransfer(surface=s), ints=[nx, ny], consts=[0.25, s["fem_origin"]],
                inputs=OrderedDict(def_mesh=s["mesh"], sec_forces=F), outputs=["loads"])


@spec("TransformationMatrix")
def _transformation_matrix(rng, nx, ny, sym):
    from openaerostruct.transfer.compute_transformation_matrix import ComputeTransformationMatrix
    s = _surf(rng, nx, ny, sym)
    disp = rng.normal(size=(ny, 6)) * 0.2
    return dict(factory=lambda: ComputeTransformationMatrix(surface=s), ints=[ny], consts=[],
                inputs=OrderedDict(disp=disp), outputs=["transformation_matrix"])


@spec("DisplacementTransfer")
def _displacement_transfer(rng, nx, ny, sym):
    from openaerostruct.transfer.displacement_transfer import DisplacementTransfer
    s = _surf(rng, nx, ny, sym)
    mesh = s["mesh"]
    nodes = (1 - s["fem_origin"]) * mesh[0] + s["fem_origin"] * mesh[-1] + rng.normal(size=(ny, 3)) * 0.01
    disp = rng.normal(size=(ny, 6)) * 0.2
    T = rng.normal(size=(ny, 3, 3)) * 0.1
    return dict(factory=lambda: DisplacementTransfer(surface=s), ints=[nx, ny], consts=[],
                inputs=OrderedDict(mesh=mesh, nodes=nodes, disp=disp, transformation_matrix=T),
                outputs=["def_mesh"])


@spec("MeshPointForces")
def _mesh_point_forces(rng, nx, ny, sym):
    from openaerostruct.aerodynamics.mesh_point_forces import MeshPointForces
    s = _surf(rng, nx, ny, sym)
    F = rng.normal(size=(nx - 1, ny - 1, 3)) * 1e3
    return dict(factory=lambda: MeshPointForces(surfaces=[s]), ints=[nx, ny], consts=[0.375, 0.125],
                inputs=OrderedDict([(s["name"] + "_sec_forces", F)]), outputs=[s["name"] + "_mesh_point_forces"])


# ---------------------------------------------------------------------------------------
# structures: mass, cg, inertial / fuel / point loads
# ---------------------------------------------------------------------------------------
def _nodes(rng, s):
    m = s["mesh"]; w = s["fem_origin"]
    return (1 - w) * m[0] + w * m[-1]


@spec("Weight")
def _weight(rng, nx, ny, sym):
    from openaerostruct.structures.weight import Weight
    s = _surf(rng, nx, ny, sym)
    A = rng.uniform(1e-3, 5e-2, size=ny - 1)
    return dict(factory=lambda: Weight(surface=s), ints=[ny, int(sym)], consts=[s["mrho"], s["wing_weight_ratio"]],
                inputs=OrderedDict(A=A, nodes=_nodes(rng, s)), outputs=["structural_mass", "element_mass"])


@spec("StructuralCG")
def _structural_cg(rng, nx, ny, sym):
    from openaerostruct.structures.structural_cg import StructuralCG
    s = _surf(rng, nx, ny, sym)
    em = rng.uniform(1.0, 50.0, size=ny - 1)
    sm = np.array([em.sum() * (2.0 if sym else 1.0) * rng.uniform(0.9, 1.1)])
    return dict(factory=lambda: StructuralCG(surface=s), ints=[ny, int(sym)], consts=[],
                inputs=OrderedDict(nodes=_nodes(rng, s), structural_mass=sm, element_mass=em), outputs=["cg_location"])


@spec("StructWeightLoads")
def _struct_weight_loads(rng, nx, ny, sym):
    from openaerostruct.structures.wing_weight_loads import StructureWeightLoads
    s = _surf(rng, nx, ny, sym)
    em = rng.uniform(1.0, 50.0, size=ny - 1)
    return dict(factory=lambda: StructureWeightLoads(surface=s), ints=[ny], consts=[],
                inputs=OrderedDict(element_mass=em, load_factor=np.array([rng.uniform(0.5, 2.5)]), nodes=_nodes(rng, s)),
                outputs=["struct_weight_loads"], input_order=["element_mass", "load_factor", "nodes"])


@spec("FuelLoads")
def _fuel_loads(rng, nx, ny, sym):
    from openaerostruct.structures.fuel_loads import FuelLoads
    s = _surf(rng, nx, ny, sym)
    scale = float(10 ** rng.uniform(-4.5, 0)) if rng.uniform() < 0.5 else 1.0      # airliner tanks down to small-UAV tanks
    s["Wf_reserve"] = float(rng.uniform(0, 2000.0)) * scale
    vols = rng.uniform(0.1, 2.0, size=ny - 1) * scale
    return dict(factory=lambda: FuelLoads(surface=s), ints=[ny, int(sym)], consts=[s["Wf_reserve"]],
                inputs=OrderedDict(nodes=_nodes(rng, s), fuel_vols=vols, fuel_mass=np.array([rng.uniform(1e3, 3e4) * scale]),
                                   load_factor=np.array([rng.uniform(0.5, 2.5)])),
                outputs=["fuel_weight_loads"], jtol=1e-6)


@spec("FuelVolDelta")
def _fuel_vol_delta(rng, nx, ny, sym):
    from openaerostruct.structures.wingbox_fuel_vol_delta import WingboxFuelVolDelta
    s = _surf(rng, nx, ny, sym)
    s["Wf_reserve"] = float(rng.uniform(0, 2000.0)); s["fuel_density"] = float(rng.uniform(700, 850))
    vols = rng.uniform(0.1, 2.0, size=ny - 1)
    return dict(factory=lambda: WingboxFuelVolDelta(surface=s), ints=[ny, int(sym)],
                consts=[s["Wf_reserve"], s["fuel_density"]],
                inputs=OrderedDict(fuelburn=np.array([rng.uniform(1e3, 3e4)]), fuel_vols=vols),
                outputs=["fuel_vol_delta"], jtol=1e-6)


def _point_setup(rng, nx, ny, sym):
    s = _surf(rng, nx, ny, sym)
    npm = int(rng.integers(1, 4))
    s["n_point_masses"] = npm
    nodes = _nodes(rng, s)
    locs = np.zeros((npm, 3))
    for p in range(npm):
        j = rng.integers(ny)
        locs[p] = nodes[j] + rng.normal(size=3) * np.array([0.5, 0.3, 0.3])
    return s, npm, nodes, locs


@spec("PointMassLoads")
def _point_mass_loads(rng, nx, ny, sym):
    from openaerostruct.structures.compute_point_mass_loads import ComputePointMassLoads
    s, npm, nodes, locs = _point_setup(rng, nx, ny, sym)
    return dict(factory=lambda: ComputePointMassLoads(surface=s), ints=[ny, npm], consts=[],
                inputs=OrderedDict(point_mass_locations=locs, point_masses=rng.uniform(100, 5000, size=npm), nodes=nodes,
                                   load_factor=np.array([rng.uniform(0.5, 2.5)])),
                outputs=["nodal_weightings", "loads_from_point_masses"], jtol=1e-5, jatol=1e-6)


@spec("ThrustLoads")
def _thrust_loads(rng, nx, ny, sym):
    from openaerostruct.structures.compute_thrust_loads import ComputeThrustLoads
    s, npm, nodes, locs = _point_setup(rng, nx, ny, sym)
    return dict(factory=lambda: ComputeThrustLoads(surface=s), ints=[ny, npm], consts=[],
                inputs=OrderedDict(point_mass_locations=locs, engine_thrusts=rng.uniform(1e3, 1e5, size=npm), nodes=nodes),
                outputs=["nodal_weightings", "loads_from_thrusts"], jtol=1e-5, jatol=1e-6)


@spec("TotalLoads")
def _total_loads(rng, nx, ny, sym):
    from openaerostruct.structures.total_loads import TotalLoads
    s = _surf(rng, nx, ny, sym)
    relief, fuel, pm = (bool(rng.integers(2)) for _ in range(3))
    s["struct_weight_relief"] = relief; s["distributed_fuel_weight"] = fuel
    if pm:
        s["n_point_masses"] = 1
    inp = OrderedDict(loads=rng.normal(size=(ny, 6)) * 1e3)
    if relief: inp["struct_weight_loads"] = rng.normal(size=(ny, 6)) * 1e3
    if fuel: inp["fuel_weight_loads"] = rng.normal(size=(ny, 6)) * 1e3
    if pm:
        inp["loads_from_point_masses"] = rng.normal(size=(ny, 6)) * 1e3
        inp["loads_from_thrusts"] = rng.normal(size=(ny, 6)) * 1e3
    return dict(factory=lambda: TotalLoads(surface=s), ints=[ny, int(relief), int(fuel), int(pm)], consts=[],
                inputs=inp, outputs=["total_loads"])


# ---------------------------------------------------------------------------------------
# aerodynamic post-processing
# ---------------------------------------------------------------------------------------
@spec("VLMGeometry")
def _vlm_geometry(rng, nx, ny, sym):
    from openaerostruct.aerodynamics.geometry import VLMGeometry
    s = _surf(rng, nx, ny, sym)
    proj = s["S_ref_type"] == "projected"
    return dict(factory=lambda: VLMGeometry(surface=s), ints=[nx, ny, int(sym), int(proj)], consts=[],
                inputs=OrderedDict(def_mesh=s["mesh"]),
                outputs=["b_pts", "widths", "lengths_spanwise", "lengths", "normals", "S_ref", "chords"])


@spec("LiftDrag")
def _lift_drag(rng, nx, ny, sym):
    from openaerostruct.aerodynamics.lift_drag import LiftDrag
    s = _surf(rng, nx, ny, sym)
    return dict(factory=lambda: LiftDrag(surface=s), ints=[nx, ny, int(sym)], consts=[],
                inputs=OrderedDict(alpha=np.array([rng.uniform(-15, 15)]), beta=np.array([rng.uniform(-15, 15)]),
                                   sec_forces=rng.normal(size=(nx - 1, ny - 1, 3)) * 1e3),
                outputs=["L", "D"])


@spec("Coeffs", sym_opts=(False,))
def _coeffs(rng, nx, ny, sym):
    from openaerostruct.aerodynamics.coeffs import Coeffs
    return dict(factory=lambda: Coeffs(), ints=[], consts=[],
                inputs=OrderedDict(S_ref=np.array([rng.uniform(5, 400)]), L=np.array([rng.normal() * 1e5]),
                                   D=np.array([rng.uniform(1e2, 1e4)]), v=np.array([rng.uniform(20, 260)]),
                                   rho=np.array([rng.uniform(0.2, 1.3)])),
                outputs=["CL1", "CDi"])


@spec("TotalLift", sym_opts=(False,))
def _total_lift(rng, nx, ny, sym):
    from openaerostruct.aerodynamics.total_lift import TotalLift
    s = _surf(rng, nx, ny, sym); s["CL0"] = float(rng.uniform(-0.1, 0.3))
    return dict(factory=lambda: TotalLift(surface=s), ints=[], consts=[s["CL0"]],
                inputs=OrderedDict(CL1=np.array([rng.uniform(-0.5, 1.2)])), outputs=["CL"])


@spec("TotalDrag", sym_opts=(False,))
def _total_drag(rng, nx, ny, sym):
    from openaerostruct.aerodynamics.total_drag import TotalDrag
    s = _surf(rng, nx, ny, sym); s["CD0"] = float(rng.uniform(0, 0.03))
    return dict(factory=lambda: TotalDrag(surface=s), ints=[], consts=[s["CD0"]],
                inputs=OrderedDict(CDi=np.array([rng.uniform(0, 0.05)]), CDv=np.array([rng.uniform(0, 0.02)]),
                                   CDw=np.array([rng.uniform(0, 0.01)])), outputs=["CD"])


@spec("LiftCoeff2D")
def _lift_coeff_2d(rng, nx, ny, sym):
    from openaerostruct.aerodynamics.lift_coeff_2D import LiftCoeff2D
    s = _surf(rng, nx, ny, sym)
    return dict(factory=lambda: LiftCoeff2D(surface=s), ints=[nx, ny], consts=[],
                inputs=OrderedDict(alpha=np.array([rng.uniform(-15, 15)]), sec_forces=rng.normal(size=(nx - 1, ny - 1, 3)) * 1e3,
                                   widths=rng.uniform(0.3, 2.0, size=ny - 1), chords=rng.uniform(0.5, 3.0, size=ny),
                                   v=np.array([rng.uniform(20, 260)]), rho=np.array([rng.uniform(0.2, 1.3)])),
                outputs=["Cl"])


def _strip_geom(rng, ny):
    widths = rng.uniform(0.3, 2.0, size=ny - 1)
    lsp = widths / np.cos(np.radians(rng.uniform(0, 50, size=ny - 1)))
    return widths, lsp


@spec("WaveDrag")
def _wave_drag(rng, nx, ny, sym):
    from openaerostruct.aerodynamics.wave_drag import WaveDrag
    s = _surf(rng, nx, ny, sym)
    s["with_wave"] = bool(rng.uniform() < 0.85)
    widths, lsp = _strip_geom(rng, ny)
    chords = rng.uniform(0.5, 3.0, size=ny)
    toc = rng.uniform(0.05, 0.2, size=ny - 1)
    CL = rng.uniform(-0.8, 0.8)
    # crest-critical Mach number of this case, to place M on either side of it with a guard band
    area = 0.5 * (chords[:-1] + chords[1:]) * widths
    ac = np.sum(widths / lsp * area) / area.sum(); at = np.sum(toc * area) / area.sum()
    mcrit = 0.95 / ac - at / ac ** 2 - CL / (10 * ac ** 3) - (0.1 / 80.0) ** (1.0 / 3.0)
    if rng.uniform() < 0.6:
        M = mcrit + rng.uniform(0.01, 0.15)
    else:
        M = mcrit - rng.uniform(0.01, 0.3)
    return dict(factory=lambda: WaveDrag(surface=s), ints=[ny, int(s["with_wave"]), int(sym)], consts=[0.95],
                inputs=OrderedDict(Mach_number=np.array([M]), CL=np.array([CL]), lengths_spanwise=lsp, widths=widths,
                                   chords=chords, t_over_c=toc),
                outputs=["CDw"], vatol=1e-300, branch="above" if M > mcrit else "below")


@spec("ViscousDrag")
def _viscous_drag(rng, nx, ny, sym):
    from openaerostruct.aerodynamics.viscous_drag import ViscousDrag
    s = _surf(rng, nx, ny, sym)
    s["with_viscous"] = bool(rng.uniform() < 0.9)
    s["k_lam"] = float(rng.choice([0.0, 0.05, 0.3, 0.7, 1.0]))
    s["c_max_t"] = float(rng.uniform(0.25, 0.45))
    widths, lsp = _strip_geom(rng, ny)
    lengths = rng.uniform(0.5, 3.0, size=ny)
    return dict(factory=lambda: ViscousDrag(surface=s), ints=[ny, int(s["with_viscous"]), int(sym)],
                consts=[s["k_lam"], s["c_max_t"]],
                inputs=OrderedDict(re=np.array([10 ** rng.uniform(5.5, 7.5)]), Mach_number=np.array([rng.uniform(0.1, 0.9)]),
                                   S_ref=np.array([rng.uniform(5, 400)]), widths=widths, lengths_spanwise=lsp,
                                   lengths=lengths, t_over_c=rng.uniform(0.05, 0.3, size=ny - 1)),
                outputs=["CDv"], branch="k_lam=%g" % s["k_lam"])


# ---------------------------------------------------------------------------------------
# functionals
# ---------------------------------------------------------------------------------------
def _surfaces(rng, nx, ny, sym, ns=None):
    ns = ns or int(rng.integers(1, 4))
    out = []
    for k in range(ns):
        s = _surf(rng, nx + (k % 2), ny + (k // 2), sym if k == 0 else bool(rng.integers(2)), name="surf%d" % k)
        out.append(s)
    return out


@spec("TotalLiftDrag", sym_opts=(False,))
def _total_lift_drag(rng, nx, ny, sym):
    from openaerostruct.functionals.total_lift_drag import TotalLiftDrag
    ss = _surfaces(rng, nx, ny, sym)
    inp = OrderedDict()
    for s in ss:
        inp[s["name"] + "_CL"] = np.array([rng.uniform(-0.3, 1.0)])
        inp[s["name"] + "_CD"] = np.array([rng.uniform(0.005, 0.06)])
        inp[s["name"] + "_S_ref"] = np.array([rng.uniform(5, 300)])
    inp["v"] = np.array([rng.uniform(20, 260)]); inp["rho"] = np.array([rng.uniform(0.2, 1.3)])
    inp["S_ref_total"] = np.array([rng.uniform(50, 500)])
    return dict(factory=lambda: TotalLiftDrag(surfaces=ss), ints=[len(ss)], consts=[], inputs=inp, outputs=["L", "D", "CL", "CD"])


@spec("SumAreas", sym_opts=(False,))
def _sum_areas(rng, nx, ny, sym):
    from openaerostruct.functionals.sum_areas import SumAreas
    ss = _surfaces(rng, nx, ny, sym)
    inp = OrderedDict((s["name"] + "_S_ref", np.array([rng.uniform(5, 300)])) for s in ss)
    return dict(factory=lambda: SumAreas(surfaces=ss), ints=[len(ss)], consts=[], inputs=inp, outputs=["S_ref_total"])


@spec("Equilibrium", sym_opts=(False,))
def _equilibrium(rng, nx, ny, sym):
    from openaerostruct.functionals.equilibrium import Equilibrium
    ss = _surfaces(rng, nx, ny, sym)
    inp = OrderedDict((s["name"] + "_structural_mass", np.array([rng.uniform(100, 2e4)])) for s in ss)
    inp.update(fuelburn=np.array([rng.uniform(1e3, 1e5)]), W0=np.array([rng.uniform(1e3, 2e5)]),
               load_factor=np.array([rng.uniform(0.5, 2.5)]), CL=np.array([rng.uniform(0.1, 1.0)]),
               S_ref_total=np.array([rng.uniform(20, 500)]), v=np.array([rng.uniform(50, 260)]), rho=np.array([rng.uniform(0.2, 1.3)]))
    return dict(factory=lambda: Equilibrium(surfaces=ss), ints=[len(ss)], consts=[], inputs=inp,
                outputs=["L_equals_W", "total_weight"])


@spec("Breguet", sym_opts=(False,))
def _breguet(rng, nx, ny, sym):
    from openaerostruct.functionals.breguet_range import BreguetRange
    ss = _surfaces(rng, nx, ny, sym)
    inp = OrderedDict((s["name"] + "_structural_mass", np.array([rng.uniform(100, 2e4)])) for s in ss)
    inp.update(CT=np.array([rng.uniform(1e-5, 3e-4)]), CL=np.array([rng.uniform(0.2, 0.9)]), CD=np.array([rng.uniform(0.01, 0.06)]),
               speed_of_sound=np.array([rng.uniform(290, 345)]), R=np.array([rng.uniform(1e5, 1.5e7)]),
               Mach_number=np.array([rng.uniform(0.2, 0.9)]), W0=np.array([rng.uniform(1e3, 2e5)]))
    return dict(factory=lambda: BreguetRange(surfaces=ss), ints=[len(ss)], consts=[], inputs=inp, outputs=["fuelburn"])


@spec("CenterOfGravity", sym_opts=(False,))
def _center_of_gravity(rng, nx, ny, sym):
    from openaerostruct.functionals.center_of_gravity import CenterOfGravity
    ss = _surfaces(rng, nx, ny, sym)
    inp = OrderedDict()
    tot = 0.0
    for s in ss:
        m = rng.uniform(100, 2e4); tot += m
        inp[s["name"] + "_structural_mass"] = np.array([m])
        inp[s["name"] + "_cg_location"] = rng.normal(size=3) * 3
    W0 = rng.uniform(1e3, 2e5); fb = rng.uniform(1e3, 1e5); lf = rng.uniform(0.5, 2.5)
    inp.update(total_weight=np.array([(tot + W0 + fb) * 9.80665 * lf]), fuelburn=np.array([fb]), W0=np.array([W0]),
               load_factor=np.array([lf]), empty_cg=rng.normal(size=3) * 3)
    return dict(factory=lambda: CenterOfGravity(surfaces=ss), ints=[len(ss)], consts=[], inputs=inp, outputs=["cg"])


@spec("Reynolds", sym_opts=(False,))
def _reynolds(rng, nx, ny, sym):
    from openaerostruct.common.reynolds_comp import ReynoldsComp
    return dict(factory=lambda: ReynoldsComp(), ints=[], consts=[],
                inputs=OrderedDict(rho=np.array([rng.uniform(0.2, 1.3)]), mu=np.array([rng.uniform(1e-5, 2e-5)]),
                                   v=np.array([rng.uniform(20, 260)])), outputs=["re"])


@spec("AtmosComp", sym_opts=tuple(range(7)))
def _atmos_comp(rng, nx, ny, regime):
    """the interpolation table is read from the source text; `regime` stratifies the altitude over the table"""
    from openaerostruct.common.atmos_comp import AtmosComp
    from . import generate
    cols = generate.atmos_columns()
    alt = np.array(cols["alt"]); n = len(alt)
    k = int(rng.integers(1, n - 1))
    if regime == 0:
        h = rng.uniform(alt[0], alt[-1])
    elif regime == 1:       # both ends of the isothermal layer, where the spline still bends
        h = rng.uniform(36000.0, 37000.0) if rng.integers(2) else rng.uniform(65000.0, 66000.0)
    elif regime == 2:       # coarse part of the table
        h = rng.uniform(100000.0, alt[-1])
    elif regime == 3:       # first and last two segments (extrapolated slopes)
        h = rng.uniform(alt[0], alt[2]) if rng.integers(2) else rng.uniform(alt[-3], alt[-1])
    elif regime == 4:       # just beside a knot
        h = alt[k] + rng.choice([-1.0, 1.0]) * 10.0 ** rng.uniform(-6, 0)
    elif regime == 5:       # on a knot
        h = alt[k]
    else:                   # inside the isothermal layer
        h = rng.uniform(37000.0, 65000.0)
    consts = np.concatenate([alt, cols["T"], cols["P"], cols["rho"], cols["a"], cols["viscosity"]])
    return dict(factory=lambda: AtmosComp(), ints=[n], consts=list(consts),
                inputs=OrderedDict(altitude=np.array([float(h)]), Mach_number=np.array([rng.uniform(0.05, 0.95)])),
                outputs=["T", "P", "rho", "speed_of_sound", "mu", "v"], jrowscale=True)


@spec("MomentCoefficient")
def _moment_coefficient(rng, nx, ny, sym):
    from openaerostruct.functionals.moment_coefficient import MomentCoefficient
    ss = _surfaces(rng, nx, ny, sym)
    inp = OrderedDict(); ints = [len(ss)]
    for s in ss:
        snx, sny = s["mesh"].shape[:2]
        ints += [snx, sny, int(s["symmetry"])]
        m = s["mesh"]
        inp[s["name"] + "_b_pts"] = 0.75 * m[:-1] + 0.25 * m[1:]
        inp[s["name"] + "_widths"] = rng.uniform(0.3, 2.0, size=sny - 1)
        inp[s["name"] + "_chords"] = rng.uniform(0.5, 3.0, size=sny)
        inp[s["name"] + "_S_ref"] = np.array([rng.uniform(5, 300)])
        inp[s["name"] + "_sec_forces"] = rng.normal(size=(snx - 1, sny - 1, 3)) * 1e3
    inp.update(cg=rng.normal(size=3) * 2, v=np.array([rng.uniform(20, 260)]), rho=np.array([rng.uniform(0.2, 1.3)]),
               S_ref_total=np.array([rng.uniform(50, 500)]))
    return dict(factory=lambda: MomentCoefficient(surfaces=ss), ints=ints, consts=[], inputs=inp, outputs=["CM", "M"])


# ---------------------------------------------------------------------------------------
# stresses / failure
# ---------------------------------------------------------------------------------------
def _disp(rng, ny, scale=0.05):
    d = rng.normal(size=(ny, 6)) * scale
    d[:, 3:] *= 0.2
    return d


@spec("VonMisesTube")
def _vonmises_tube(rng, nx, ny, sym):
    from openaerostruct.structures.vonmises_tube import VonMisesTube
    s = _surf(rng, nx, ny, sym)
    return dict(factory=lambda: VonMisesTube(surface=s), ints=[ny], consts=[s["E"], s["G"]],
                inputs=OrderedDict(nodes=_nodes(rng, s), radius=rng.uniform(0.05, 0.4, size=ny - 1), disp=_disp(rng, ny)),
                outputs=["vonmises"])


@spec("VonMisesWingbox")
def _vonmises_wingbox(rng, nx, ny, sym):
    from openaerostruct.structures.vonmises_wingbox import VonMisesWingbox
    s = _surf(rng, nx, ny, sym, fem="wingbox")
    s["strength_factor_for_upper_skin"] = float(rng.uniform(0.8, 1.2))
    ne = ny - 1
    inp = OrderedDict(nodes=_nodes(rng, s), disp=_disp(rng, ny), Qz=rng.uniform(1e-3, 1e-2, size=ne), J=rng.uniform(1e-3, 1e-2, size=ne),
                      A_enc=rng.uniform(0.1, 0.6, size=ne), spar_thickness=rng.uniform(2e-3, 2e-2, size=ne),
                      htop=rng.uniform(0.05, 0.3, size=ne), hbottom=rng.uniform(0.05, 0.3, size=ne),
                      hfront=rng.uniform(0.2, 0.8, size=ne), hrear=rng.uniform(0.2, 0.8, size=ne))
    return dict(factory=lambda: VonMisesWingbox(surface=s), ints=[ny], consts=[s["E"], s["G"], s["strength_factor_for_upper_skin"]],
                inputs=inp, outputs=["vonmises"], jtol=1e-6)


def _stresses(rng, ny, nc):
    mag = 10 ** rng.uniform(3, 12)
    vm = rng.uniform(0, 1, size=(ny - 1, nc)) * mag
    return vm


@spec("FailureKS")
def _failure_ks(rng, nx, ny, sym):
    from openaerostruct.structures.failure_ks import FailureKS
    fem = "tube" if rng.integers(2) else "wingbox"
    s = _surf(rng, nx, ny, sym, fem=fem)
    nc = 2 if fem == "tube" else 4
    rho = float(rng.choice([10.0, 50.0, 100.0, 500.0]))
    vm = _stresses(rng, ny, nc)
    return dict(factory=lambda: FailureKS(surface=s, rho=rho), ints=[vm.size], consts=[s["yield"], rho],
                inputs=OrderedDict(vonmises=vm), outputs=["failure"])


@spec("FailureExact")
def _failure_exact(rng, nx, ny, sym):
    from openaerostruct.structures.failure_exact import FailureExact
    fem = "tube" if rng.integers(2) else "wingbox"
    s = _surf(rng, nx, ny, sym, fem=fem)
    vm = _stresses(rng, ny, 2 if fem == "tube" else 4)
    return dict(factory=lambda: FailureExact(surface=s), ints=[vm.size], consts=[s["yield"]],
                inputs=OrderedDict(vonmises=vm), outputs=["failure"])


@spec("SectionPropertiesTube")
def _section_properties_tube(rng, nx, ny, sym):
    from openaerostruct.structures.section_properties_tube import SectionPropertiesTube
    s = _surf(rng, nx, ny, sym)
    r = rng.uniform(0.05, 0.5, size=ny - 1)
    return dict(factory=lambda: SectionPropertiesTube(surface=s), ints=[ny - 1], consts=[],
                inputs=OrderedDict(radius=r, thickness=r * rng.uniform(0.02, 0.6, size=ny - 1)), outputs=["A", "Iy", "Iz", "J"])


@spec("NonIntersectingThickness")
def _non_intersecting(rng, nx, ny, sym):
    from openaerostruct.structures.non_intersecting_thickness import NonIntersectingThickness
    s = _surf(rng, nx, ny, sym)
    return dict(factory=lambda: NonIntersectingThickness(surface=s), ints=[ny - 1], consts=[],
                inputs=OrderedDict(thickness=rng.uniform(0.001, 0.1, size=ny - 1), radius=rng.uniform(0.05, 0.5, size=ny - 1)),
                outputs=["thickness_intersects"])


@spec("Energy")
def _energy(rng, nx, ny, sym):
    from openaerostruct.structures.energy import Energy
    s = _surf(rng, nx, ny, sym)
    return dict(factory=lambda: Energy(surface=s), ints=[ny], consts=[],
                inputs=OrderedDict(disp=_disp(rng, ny), loads=rng.normal(size=(ny, 6)) * 1e3), outputs=["energy"])


# ---------------------------------------------------------------------------------------
# geometry transformations
# ---------------------------------------------------------------------------------------
import openaerostruct.geometry.geometry_mesh_transformations as GT


def _geo_mesh(rng, nx, ny, sym):
    # full-span meshes need odd ny for the root index conventions of Sweep/Dihedral/Rotate
    right = bool(sym and rng.uniform() < 0.3)
    return gen.rand_mesh(rng, nx, ny, sym, right=right), right


def _odd(ny, sym):
    return ny if sym or ny % 2 == 1 else ny + 1


@spec("Taper")
def _taper(rng, nx, ny, sym):
    ny = _odd(ny, sym)
    mesh, right = _geo_mesh(rng, nx, ny, sym)
    pos = float(rng.uniform(0, 1))
    t = float(rng.choice([1.0, rng.uniform(0.2, 1.5)]))
    return dict(factory=lambda: GT.Taper(val=t, mesh=mesh, symmetry=sym, ref_axis_pos=pos), ints=[nx, ny, int(sym)],
                consts=[pos], inputs=OrderedDict(taper=np.array([t])), post_consts=mesh.ravel(), outputs=["mesh"],
                branch="taper=1" if t == 1.0 else "taper!=1")


@spec("ScaleX")
def _scale_x(rng, nx, ny, sym):
    mesh, right = _geo_mesh(rng, nx, ny, sym)
    pos = float(rng.uniform(0, 1))
    chord = rng.uniform(0.5, 1.5, size=ny)
    return dict(factory=lambda: GT.ScaleX(val=chord, mesh_shape=mesh.shape, ref_axis_pos=pos), ints=[nx, ny, int(sym)],
                consts=[pos], inputs=OrderedDict(chord=chord, in_mesh=mesh), outputs=["mesh"])


@spec("Sweep")
def _sweep(rng, nx, ny, sym):
    ny = _odd(ny, sym)
    mesh, right = _geo_mesh(rng, nx, ny, sym)
    ang = float(rng.choice([0.0, rng.uniform(-20, 40)]))
    return dict(factory=lambda: GT.Sweep(val=ang, mesh_shape=mesh.shape, symmetry=sym), ints=[nx, ny, int(sym)], consts=[],
                inputs=OrderedDict(sweep=np.array([ang]), in_mesh=mesh), outputs=["mesh"])


@spec("Dihedral")
def _dihedral(rng, nx, ny, sym):
    ny = _odd(ny, sym)
    mesh, right = _geo_mesh(rng, nx, ny, sym)
    ang = float(rng.choice([0.0, rng.uniform(-10, 20)]))
    return dict(factory=lambda: GT.Dihedral(val=ang, mesh_shape=mesh.shape, symmetry=sym), ints=[nx, ny, int(sym)], consts=[],
                inputs=OrderedDict(dihedral=np.array([ang]), in_mesh=mesh), outputs=["mesh"])


@spec("Shear")
def _shear(rng, nx, ny, sym):
    mesh, right = _geo_mesh(rng, nx, ny, sym)
    ax = int(rng.integers(3))
    cls, nm = [(GT.ShearX, "xshear"), (GT.ShearY, "yshear"), (GT.ShearZ, "zshear")][ax]
    sh = rng.normal(size=ny) * 0.3
    return dict(factory=lambda: cls(val=sh, mesh_shape=mesh.shape), ints=[nx, ny, ax], consts=[],
                inputs=OrderedDict([(nm, sh), ("in_mesh", mesh)]), outputs=["mesh"])


@spec("Stretch")
def _stretch(rng, nx, ny, sym):
    mesh, right = _geo_mesh(rng, nx, ny, sym)
    pos = float(rng.uniform(0, 1))
    span = float(rng.uniform(4, 20))
    return dict(factory=lambda: GT.Stretch(val=span, mesh_shape=mesh.shape, symmetry=sym, ref_axis_pos=pos),
                ints=[nx, ny, int(sym)], consts=[pos], inputs=OrderedDict(span=np.array([span]), in_mesh=mesh), outputs=["mesh"])


@spec("Rotate")
def _rotate(rng, nx, ny, sym):
    ny = _odd(ny, sym)
    mesh, right = _geo_mesh(rng, nx, ny, sym)
    pos = float(rng.uniform(0, 1)); rx = bool(rng.integers(2))
    tw = rng.uniform(-8, 8, size=ny) * float(rng.integers(2))
    return dict(factory=lambda: GT.Rotate(val=tw, mesh_shape=mesh.shape, symmetry=sym, rotate_x=rx, ref_axis_pos=pos),
                ints=[nx, ny, int(sym), int(rx)], consts=[pos], inputs=OrderedDict(twist=tw, in_mesh=mesh), outputs=["mesh"])


@spec("GeometryChain")
def _geometry_chain(rng, nx, ny, sym):
    from openaerostruct.geometry.geometry_mesh import GeometryMesh
    ny = _odd(ny, sym)
    mesh, right = _geo_mesh(rng, nx, ny, sym)
    pos = float(rng.choice([rng.uniform(0, 1), 0.0, 1.0, 0.25], p=[0.55, 0.2, 0.15, 0.1]))    # end points and default included
    ref = pos * mesh[-1] + (1 - pos) * mesh[0]
    cur_span = (ref[-1, 1] - ref[0, 1]) * (2 if sym else 1)
    default = rng.uniform() < 0.25
    z = np.zeros(ny)
    vals = OrderedDict(
        taper=np.array([1.0 if default else rng.uniform(0.3, 1.3)]),
        chord=np.ones(ny) if default else rng.uniform(0.7, 1.3, size=ny),
        sweep=np.array([0.0 if default else rng.uniform(-10, 30)]),
        xshear=z.copy() if default else rng.normal(size=ny) * 0.1,
        span=np.array([cur_span if default else cur_span * rng.uniform(0.7, 1.4)]),
        yshear=z.copy() if default else rng.normal(size=ny) * 0.05,
        dihedral=np.array([0.0 if default else rng.uniform(-5, 10)]),
        zshear=z.copy() if default else rng.normal(size=ny) * 0.1,
        twist=z.copy() if default else rng.uniform(-6, 6, size=ny),
    )
    s = dict(name="wing", symmetry=sym, mesh=mesh, ref_axis_pos=pos, taper=1.0, chord_cp=np.ones(2), sweep=0.0, xshear_cp=np.zeros(2),
             span=1.0, yshear_cp=np.zeros(2), dihedral=0.0, zshear_cp=np.zeros(2), twist_cp=np.zeros(2))
    return dict(factory=lambda: GeometryMesh(surface=s), ints=[nx, ny, int(sym)], consts=[pos], inputs=vals,
                post_consts=mesh.ravel(), outputs=["mesh"], branch="defaults" if default else "random DVs", jtol=1e-6)


# ---------------------------------------------------------------------------------------
# vortex-lattice core
# ---------------------------------------------------------------------------------------
from .pipelines import left_flag


def _vlm_surfs(rng, nx, ny, sym, ns=None, ground=False):
    ns = ns or int(rng.integers(1, 3))
    out = []
    for k in range(ns):
        s_sym = sym if k == 0 else bool(rng.integers(2))
        right = bool(s_sym and rng.uniform() < 0.35)
        s = gen.base_surface(rng, nx + (k % 2), ny + (k // 2), s_sym, name="surf%d" % k, right=right)
        s["mesh"][:, :, 0] += 4.0 * k
        s["mesh"][:, :, 2] += 0.7 * k
        if ground and s_sym:
            s["groundplane"] = True
        out.append(s)
    return out


def _vlm_ints(ss):
    ints = [len(ss)]
    for s in ss:
        m = s["mesh"]
        ints += [m.shape[0], m.shape[1], int(s["symmetry"]), int(left_flag(m)), int(bool(s.get("groundplane", False)))]
    return ints


@spec("CollocationPoints")
def _collocation_points(rng, nx, ny, sym):
    from openaerostruct.aerodynamics.collocation_points import CollocationPoints
    ss = _vlm_surfs(rng, nx, ny, sym)
    inp = OrderedDict((s["name"] + "_def_mesh", s["mesh"]) for s in ss)
    # declared constant partials of every surface (row offset = panels of the surfaces before it) and every output
    pats = []; off = 0
    for s in ss:
        snx, sny = s["mesh"].shape[:2]
        for which, of in enumerate(["coll_pts", "force_pts", "bound_vecs"]):
            pats.append(dict(op="CollocationPattern", ints=[snx, sny, 3 * off, which], of=of, wrt=s["name"] + "_def_mesh"))
        off += (snx - 1) * (sny - 1)
    return dict(factory=lambda: CollocationPoints(surfaces=ss), ints=_vlm_ints(ss), consts=[], inputs=inp,
                outputs=["coll_pts", "force_pts", "bound_vecs"], pattern=pats)


@spec("VortexMesh")
def _vortex_mesh(rng, nx, ny, sym):
    from openaerostruct.aerodynamics.vortex_mesh import VortexMesh
    ground = bool(sym and rng.uniform() < 0.5)
    ss = _vlm_surfs(rng, nx, ny, sym, ns=1, ground=ground)
    s = ss[0]
    inp = OrderedDict()
    if ground:
        inp["alpha"] = np.array([np.radians(rng.uniform(-10, 10))]); inp["height_agl"] = np.array([rng.uniform(2, 40)])
    dm = s["mesh"] + rng.normal(size=s["mesh"].shape) * 0.01 * np.array([1, 0, 1])
    if rng.uniform() < 0.3:
        # deformed / sheared mesh whose root is not exactly on the symmetry plane (the component must treat it as data)
        dm = dm + np.array([0.0, rng.normal() * 0.3, 0.0])
    inp[s["name"] + "_def_mesh"] = dm
    consts = [] if ground else [0.0, 0.0]
    return dict(factory=lambda: VortexMesh(surfaces=ss), ints=_vlm_ints(ss), consts=consts, inputs=inp,
                outputs=[s["name"] + "_vortex_mesh"], branch="ground" if ground else "free", jtol=1e-6)


@spec("EvalVelMtx")
def _eval_vel_mtx(rng, nx, ny, sym):
    from openaerostruct.aerodynamics.eval_mtx import EvalVelMtx
    ground = bool(sym and rng.uniform() < 0.4)
    ss = _vlm_surfs(rng, nx, ny, sym, ns=1, ground=ground)
    s = ss[0]; m = s["mesh"]
    npts = int(rng.integers(2, 5))
    rows = (2 if ground else 1) * m.shape[0]; cols = 2 * m.shape[1] - 1 if sym else m.shape[1]
    # vectors = eval points - vortex mesh: build them from a real vortex mesh so that the geometry is realistic
    from openaerostruct.aerodynamics.vortex_mesh import VortexMesh
    from .core import comp_problem
    vin = {s["name"] + "_def_mesh": m}
    if ground:
        vin.update(alpha=np.radians(3.0), height_agl=float(rng.uniform(3, 30)))
    vm = np.array(comp_problem(VortexMesh(surfaces=ss), vin).get_val(s["name"] + "_vortex_mesh"))
    pts = np.array([0.5 * (m[0, 0] + m[-1, -1])]) + rng.normal(size=(npts, 3)) * np.array([2.0, 3.0, 0.5])
    vec = pts[:, None, None, :] - vm[None]
    alpha = float(rng.uniform(-10, 10))
    name = "%s_%s_vectors" % (s["name"], "coll_pts")
    return dict(factory=lambda: EvalVelMtx(surfaces=ss, num_eval_points=npts, eval_name="coll_pts"),
                ints=_vlm_ints(ss) + [npts], consts=[], inputs=OrderedDict([("alpha", np.array([alpha])), (name, vec)]),
                outputs=["%s_coll_pts_vel_mtx" % s["name"]], branch="ground" if ground else "free", vtol=1e-8)


@spec("Horseshoe", sym_opts=(False,))
def _horseshoe(rng, nx, ny, sym):
    from openaerostruct.aerodynamics.horseshoe_circulations import HorseshoeCirculations
    ss = _vlm_surfs(rng, nx, ny, sym, ns=int(rng.integers(1, 4)))
    N = sum((s["mesh"].shape[0] - 1) * (s["mesh"].shape[1] - 1) for s in ss)
    ints = [len(ss)]
    for s in ss:
        ints += [s["mesh"].shape[0], s["mesh"].shape[1]]
    return dict(factory=lambda: HorseshoeCirculations(surfaces=ss), ints=ints, consts=[],
                inputs=OrderedDict(circulations=rng.normal(size=N)), outputs=["horseshoe_circulations"])


# ---------------------------------------------------------------------------------------
# Prandtl-Glauert transformation components, MPhys (de)multiplexers
# ---------------------------------------------------------------------------------------
@spec("PGRotateTo", op="PGRotate")
def _pg_rotate_to(rng, nx, ny, sym):
    from openaerostruct.aerodynamics.pg_wind_rotation import RotateToWindFrame
    ss = _vlm_surfs(rng, nx, ny, sym, ns=1)
    s = ss[0]; m = s["mesh"]; N = (m.shape[0] - 1) * (m.shape[1] - 1)
    inp = OrderedDict(alpha=np.array([np.radians(rng.uniform(-15, 15))]), beta=np.array([np.radians(rng.uniform(-15, 15))]))
    inp["coll_pts"] = rng.normal(size=(N, 3)); inp["force_pts"] = rng.normal(size=(N, 3)); inp["bound_vecs"] = rng.normal(size=(N, 3))
    inp[s["name"] + "_def_mesh"] = m; inp[s["name"] + "_normals"] = rng.normal(size=(m.shape[0] - 1, m.shape[1] - 1, 3))
    npts = 3 * N + m.shape[0] * m.shape[1] + N
    return dict(factory=lambda: RotateToWindFrame(surfaces=ss, rotational=False), ints=[npts, 1], consts=[], inputs=inp,
                outputs=["coll_pts_w_frame", "force_pts_w_frame", "bound_vecs_w_frame", s["name"] + "_def_mesh_w_frame",
                         s["name"] + "_normals_w_frame"])


@spec("PGRotateFrom", op="PGRotate")
def _pg_rotate_from(rng, nx, ny, sym):
    from openaerostruct.aerodynamics.pg_wind_rotation import RotateFromWindFrame
    ss = _vlm_surfs(rng, nx, ny, sym, ns=1)
    s = ss[0]; m = s["mesh"]; N = (m.shape[0] - 1) * (m.shape[1] - 1)
    inp = OrderedDict(alpha=np.array([np.radians(rng.uniform(-15, 15))]), beta=np.array([np.radians(rng.uniform(-15, 15))]))
    inp[s["name"] + "_sec_forces_w_frame"] = rng.normal(size=(m.shape[0] - 1, m.shape[1] - 1, 3)) * 1e3
    return dict(factory=lambda: RotateFromWindFrame(surfaces=ss), ints=[N, 0], consts=[], inputs=inp, outputs=[s["name"] + "_sec_forces"])


@spec("PGScaleFrom", op="PGScale")
def _pg_scale_from(rng, nx, ny, sym):
    from openaerostruct.aerodynamics.pg_scale import ScaleFromPrandtlGlauert
    ss = _vlm_surfs(rng, nx, ny, sym, ns=1)
    s = ss[0]; m = s["mesh"]; N = (m.shape[0] - 1) * (m.shape[1] - 1)
    inp = OrderedDict(Mach_number=np.array([rng.choice([rng.uniform(0, 0.9), rng.uniform(0.9, 0.949)])]))
    inp[s["name"] + "_sec_forces_pg"] = rng.normal(size=(m.shape[0] - 1, m.shape[1] - 1, 3)) * 1e3
    return dict(factory=lambda: ScaleFromPrandtlGlauert(surfaces=ss), ints=[N, 2], consts=[], inputs=inp,
                outputs=[s["name"] + "_sec_forces_w_frame"])


@spec("PGScaleToGeom", op="PGScale")
def _pg_scale_to(rng, nx, ny, sym):
    from openaerostruct.aerodynamics.pg_scale import ScaleToPrandtlGlauert
    ss = _vlm_surfs(rng, nx, ny, sym, ns=1)
    s = ss[0]; m = s["mesh"]; N = (m.shape[0] - 1) * (m.shape[1] - 1)
    inp = OrderedDict(Mach_number=np.array([rng.uniform(0, 0.94)]))
    inp["coll_pts_w_frame"] = rng.normal(size=(N, 3)); inp["force_pts_w_frame"] = rng.normal(size=(N, 3)); inp["bound_vecs_w_frame"] = rng.normal(size=(N, 3))
    inp[s["name"] + "_def_mesh_w_frame"] = m
    # the normals are a separate op kind; fed as zeros here so that their (different) scaling is not compared in this case
    inp_n = rng.normal(size=(m.shape[0] - 1, m.shape[1] - 1, 3))
    full = OrderedDict(inp); full[s["name"] + "_normals_w_frame"] = inp_n * 0.0
    npts = 3 * N + m.shape[0] * m.shape[1]
    return dict(factory=lambda: ScaleToPrandtlGlauert(surfaces=ss, rotational=False), ints=[npts, 0], consts=[], inputs=inp,
                outputs=["coll_pts_pg", "force_pts_pg", "bound_vecs_pg", s["name"] + "_def_mesh_pg"],
                extra_inputs={s["name"] + "_normals_w_frame": inp_n})


@spec("PGScaleToNormals", op="PGScale")
def _pg_scale_normals(rng, nx, ny, sym):
    from openaerostruct.aerodynamics.pg_scale import ScaleToPrandtlGlauert
    ss = _vlm_surfs(rng, nx, ny, sym, ns=1)
    s = ss[0]; m = s["mesh"]; N = (m.shape[0] - 1) * (m.shape[1] - 1)
    inp = OrderedDict(Mach_number=np.array([rng.uniform(0, 0.94)]))
    inp[s["name"] + "_normals_w_frame"] = rng.normal(size=(m.shape[0] - 1, m.shape[1] - 1, 3))
    extra = {"coll_pts_w_frame": rng.normal(size=(N, 3)), "force_pts_w_frame": rng.normal(size=(N, 3)),
             "bound_vecs_w_frame": rng.normal(size=(N, 3)), s["name"] + "_def_mesh_w_frame": m}
    return dict(factory=lambda: ScaleToPrandtlGlauert(surfaces=ss, rotational=False), ints=[N, 1], consts=[], inputs=inp,
                outputs=[s["name"] + "_normals_pg"], extra_inputs=extra)


def _mphys_ok():
    try:
        import mphys  # noqa: F401
        return True
    except Exception:
        return False


@spec("Demux", op="Mux", sym_opts=(False,))
def _demux(rng, nx, ny, sym):
    from openaerostruct.mphys.demux_surface_mesh import DemuxSurfaceMesh
    from mphys.core import MPhysVariables
    ss = _vlm_surfs(rng, nx, ny, sym, ns=int(rng.integers(1, 4)))
    sizes = [s["mesh"].size for s in ss]
    flat = rng.normal(size=sum(sizes))
    return dict(factory=lambda: DemuxSurfaceMesh(surfaces=ss), ints=[0, len(ss)] + sizes, consts=[],
                inputs=OrderedDict([(MPhysVariables.Aerodynamics.Surface.COORDINATES, flat)]),
                outputs=[s["name"] + "_def_mesh" for s in ss])


@spec("MuxForces", op="Mux", sym_opts=(False,))
def _mux(rng, nx, ny, sym):
    from openaerostruct.mphys.mux_surface_forces import MuxSurfaceForces
    from mphys.core import MPhysVariables
    ss = _vlm_surfs(rng, nx, ny, sym, ns=int(rng.integers(1, 4)))
    sizes = [s["mesh"].size for s in ss]
    inp = OrderedDict((s["name"] + "_mesh_point_forces", rng.normal(size=s["mesh"].shape)) for s in ss)
    return dict(factory=lambda: MuxSurfaceForces(surfaces=ss), ints=[1, len(ss)] + sizes, consts=[], inputs=inp,
                outputs=[MPhysVariables.Aerodynamics.Surface.LOADS])


# ---------------------------------------------------------------------------------------
# beam FEM
# ---------------------------------------------------------------------------------------
def _sec(rng, ne):
    return dict(A=rng.uniform(2e-3, 5e-2, size=ne), Iy=rng.uniform(1e-5, 5e-4, size=ne), Iz=rng.uniform(1e-5, 5e-4, size=ne),
                J=rng.uniform(2e-5, 1e-3, size=ne))


@spec("Length")
def _length(rng, nx, ny, sym):
    from openaerostruct.structures.length import Length
    s = _surf(rng, nx, ny, sym)
    return dict(factory=lambda: Length(surface=s), ints=[ny], consts=[], inputs=OrderedDict(nodes=_nodes(rng, s)), outputs=["element_lengths"])


@spec("Transform")
def _transform(rng, nx, ny, sym):
    from openaerostruct.structures.transform import Transform
    s = _surf(rng, nx, ny, sym)
    return dict(factory=lambda: Transform(surface=s), ints=[ny], consts=[], inputs=OrderedDict(nodes=_nodes(rng, s)), outputs=["transform"])


@spec("LocalStiff")
def _local_stiff(rng, nx, ny, sym):
    from openaerostruct.structures.local_stiff import LocalStiff
    s = _surf(rng, nx, ny, sym)
    sec = _sec(rng, ny - 1)
    inp = OrderedDict(A=sec["A"], Iy=sec["Iy"], Iz=sec["Iz"], J=sec["J"], element_lengths=rng.uniform(0.3, 2.5, size=ny - 1))
    return dict(factory=lambda: LocalStiff(surface=s), ints=[ny], consts=[s["E"], s["G"]], inputs=inp, outputs=["local_stiff"])


@spec("LocalStiffPermuted")
def _local_stiff_permuted(rng, nx, ny, sym):
    from openaerostruct.structures.local_stiff_permuted import LocalStiffPermuted
    s = _surf(rng, nx, ny, sym)
    return dict(factory=lambda: LocalStiffPermuted(surface=s), ints=[ny], consts=[],
                inputs=OrderedDict(local_stiff=rng.normal(size=(ny - 1, 12, 12))), outputs=["local_stiff_permuted"])


@spec("LocalStiffTransformed")
def _local_stiff_transformed(rng, nx, ny, sym):
    from openaerostruct.structures.local_stiff_transformed import LocalStiffTransformed
    s = _surf(rng, nx, ny, sym)
    return dict(factory=lambda: LocalStiffTransformed(surface=s), ints=[ny], consts=[],
                inputs=OrderedDict(local_stiff_permuted=rng.normal(size=(ny - 1, 12, 12)), transform=rng.normal(size=(ny - 1, 12, 12))),
                outputs=["local_stiff_transformed"])


@spec("CreateRHS")
def _create_rhs(rng, nx, ny, sym):
    from openaerostruct.structures.create_rhs import CreateRHS
    s = _surf(rng, nx, ny, sym)
    loads = rng.normal(size=(ny, 6)) * 1e3
    if rng.uniform() < 0.4:
        # wide dynamic range: large in-plane loads next to small (but well above the threshold) transverse ones
        loads = loads * 10.0 ** rng.uniform(-6, 3, size=loads.shape)
    loads[np.abs(loads) < 1e-4] = 1.0      # keep two decades away from the 1e-6 N zeroing threshold
    zero_branch = bool(rng.uniform() < 0.3)
    if zero_branch:
        loads[rng.integers(ny), rng.integers(6)] = 1e-9      # exercise the zeroing branch well inside it
    # the constant unit Jacobian is exempt at zeroed entries (documented non-smooth point): values only there
    return dict(factory=lambda: CreateRHS(surface=s), ints=[ny], consts=[], inputs=OrderedDict(total_loads=loads), outputs=["forces"],
                jac=not zero_branch)


def _real_kloc(rng, s, ny):
    """a realistic local_stiff_transformed from the real AssembleKGroup"""
    from openaerostruct.structures.assemble_k_group import AssembleKGroup
    from .core import comp_problem
    sec = _sec(rng, ny - 1)
    p = comp_problem(AssembleKGroup(surface=s), dict(nodes=_nodes(rng, s), **sec))
    return np.array(p.get_val("local_stiff_transformed")), sec


@spec("FEMSolve")
def _fem_solve(rng, nx, ny, sym):
    from openaerostruct.structures.fem import FEM
    s = _surf(rng, nx, ny, sym)
    kloc, sec = _real_kloc(rng, s, ny)
    forces = np.concatenate([rng.normal(size=6 * ny) * 1e3, np.zeros(6)])
    return dict(factory=lambda: FEM(surface=s), ints=[ny, int(sym)], consts=[],
                inputs=OrderedDict(local_stiff_transformed=kloc, forces=forces), outputs=["disp_aug"], vtol=1e-6, vatol=1e-12,
                jtol=1e-5, jac=bool(ny <= 4))     # totals through the implicit solve (linearize + solve_linear) vs the derivative of the
                                                  # model solve; one Gaussian elimination per input entry, hence small beams only


@spec("ConvertVelocity", sym_opts=(False,))
def _convert_velocity(rng, nx, ny, sym):
    from openaerostruct.aerodynamics.convert_velocity import ConvertVelocity
    ss = _vlm_surfs(rng, nx, ny, sym, ns=1)
    N = (ss[0]["mesh"].shape[0] - 1) * (ss[0]["mesh"].shape[1] - 1)
    rot = bool(rng.integers(2))
    inp = OrderedDict(alpha=np.array([rng.uniform(-15, 15)]), beta=np.array([rng.uniform(-15, 15)]), v=np.array([rng.uniform(20, 250)]))
    if rot:
        inp["rotational_velocities"] = rng.normal(size=(N, 3))
    return dict(factory=lambda: ConvertVelocity(surfaces=ss, rotational=rot), ints=[N, int(rot)], consts=[], inputs=inp,
                outputs=["freestream_velocities"], branch="rotational" if rot else "plain")


@spec("RotationalVelocity", sym_opts=(False,))
def _rotational_velocity(rng, nx, ny, sym):
    from openaerostruct.aerodynamics.rotational_velocity import RotationalVelocity
    ss = _vlm_surfs(rng, nx, ny, sym, ns=1)
    N = (ss[0]["mesh"].shape[0] - 1) * (ss[0]["mesh"].shape[1] - 1)
    return dict(factory=lambda: RotationalVelocity(surfaces=ss), ints=[N], consts=[],
                inputs=OrderedDict(cg=rng.normal(size=3), omega=rng.normal(size=3) * 0.3, coll_pts=rng.normal(size=(N, 3)) * 3),
                outputs=["rotational_velocities"])


@spec("PanelForces", sym_opts=(False,))
def _panel_forces(rng, nx, ny, sym):
    from openaerostruct.aerodynamics.panel_forces import PanelForces
    ss = _vlm_surfs(rng, nx, ny, sym, ns=int(rng.integers(1, 3)))
    N = sum((s["mesh"].shape[0] - 1) * (s["mesh"].shape[1] - 1) for s in ss)
    return dict(factory=lambda: PanelForces(surfaces=ss), ints=[N], consts=[],
                inputs=OrderedDict(rho=np.array([rng.uniform(0.3, 1.2)]), horseshoe_circulations=rng.normal(size=N) * 10,
                                   force_pts_velocities=rng.normal(size=(N, 3)) * 50, bound_vecs=rng.normal(size=(N, 3))),
                outputs=["panel_forces"])


# ---------------------------------------------------------------------------------------
# wingbox section / geometry, radii, and the index-bookkeeping ("glue") components
# ---------------------------------------------------------------------------------------
def _airfoil(rng):
    """random wingbox cross-section data: x increasing between the spars, upper above lower, not symmetric"""
    npt = int(rng.integers(3, 9))
    x = np.sort(rng.uniform(0.1, 0.65, size=npt)); x[0] = rng.uniform(0.08, 0.15); x[-1] = rng.uniform(0.55, 0.7)
    x = np.sort(x) + np.arange(npt) * 1e-3        # strictly increasing
    xi = (x - x[0]) / (x[-1] - x[0])
    yu = rng.uniform(0.035, 0.06) + rng.uniform(0.005, 0.03) * 4 * xi * (1 - xi) + rng.uniform(-0.004, 0.004, size=npt)
    yl = -(rng.uniform(0.03, 0.055) + rng.uniform(0.0, 0.02) * 4 * xi * (1 - xi)) + rng.uniform(-0.004, 0.004, size=npt)
    return dict(data_x_upper=x, data_x_lower=x.copy(), data_y_upper=yu, data_y_lower=yl,
                original_wingbox_airfoil_t_over_c=float(rng.uniform(0.1, 0.14)))


def _af_consts(wb):
    return list(wb["data_x_upper"]) + list(wb["data_y_upper"]) + list(wb["data_x_lower"]) + list(wb["data_y_lower"])


@spec("SectionPropertiesWingbox")
def _section_properties_wingbox(rng, nx, ny, sym):
    from openaerostruct.structures.section_properties_wingbox import SectionPropertiesWingbox
    s = _surf(rng, nx, ny, sym, fem="wingbox"); wb = _airfoil(rng); s.update(wb)
    ne = ny - 1
    sc = rng.uniform(1.0, 6.0, size=ne)
    inp = OrderedDict(streamwise_chords=sc, fem_chords=sc * rng.uniform(0.75, 1.0, size=ne),
                      fem_twists=rng.choice([0.0, 1.0]) * rng.uniform(-0.12, 0.12, size=ne),
                      spar_thickness=rng.uniform(3e-3, 2e-2, size=ne), skin_thickness=rng.uniform(3e-3, 2e-2, size=ne),
                      t_over_c=rng.uniform(0.08, 0.16, size=ne))
    return dict(factory=lambda: SectionPropertiesWingbox(surface=s), ints=[ny, len(wb["data_x_upper"])],
                consts=[wb["original_wingbox_airfoil_t_over_c"]] + _af_consts(wb), inputs=inp,
                outputs=["A", "A_enc", "A_int", "Iy", "Qz", "Iz", "J", "htop", "hbottom", "hfront", "hrear"], jtol=1e-6)


@spec("WingboxGeometry", jac=False)
def _wingbox_geometry(rng, nx, ny, sym):
    from openaerostruct.structures.wingbox_geometry import WingboxGeometry
    s = _surf(rng, nx, ny, sym, fem="wingbox"); wb = _airfoil(rng); s.update(wb)
    return dict(factory=lambda: WingboxGeometry(surface=s), ints=[nx, ny, len(wb["data_x_upper"])], consts=_af_consts(wb),
                inputs=OrderedDict(mesh=s["mesh"]), outputs=["streamwise_chords", "fem_chords", "fem_twists"])


@spec("RadiusComp")
def _radius_comp(rng, nx, ny, sym):
    from openaerostruct.geometry.radius_comp import RadiusComp
    s = _surf(rng, nx, ny, sym)
    return dict(factory=lambda: RadiusComp(surface=s), ints=[nx, ny], consts=[],
                inputs=OrderedDict(mesh=s["mesh"], t_over_c=rng.uniform(0.06, 0.2, size=ny - 1)), outputs=["radius"],
                pattern=dict(op="RadiusPattern", ints=[nx, ny], of="radius", wrt="mesh", val=False))


@spec("SparWithinWing")
def _spar_within_wing(rng, nx, ny, sym):
    from openaerostruct.structures.spar_within_wing import SparWithinWing
    s = _surf(rng, nx, ny, sym)
    # `t_over_c` has no declared partials in the component (a constraint on radius and mesh): compared w.r.t. mesh and radius
    toc = rng.uniform(0.06, 0.2, size=ny - 1)
    return dict(factory=lambda: SparWithinWing(surface=s), ints=[nx, ny], consts=[],
                inputs=OrderedDict(mesh=s["mesh"], radius=rng.uniform(0.02, 0.4, size=ny - 1)), post_consts=toc,
                extra_inputs=dict(t_over_c=toc), outputs=["spar_within_wing"])


@spec("WingboxFuelVol")
def _wingbox_fuel_vol(rng, nx, ny, sym):
    from openaerostruct.structures.fuel_vol import WingboxFuelVol
    s = _surf(rng, nx, ny, sym, fem="wingbox")
    return dict(factory=lambda: WingboxFuelVol(surface=s), ints=[ny], consts=[],
                inputs=OrderedDict(nodes=_nodes(rng, s), A_int=rng.uniform(0.05, 0.8, size=ny - 1)), outputs=["fuel_vols"])


@spec("Disp")
def _disp_comp(rng, nx, ny, sym):
    from openaerostruct.structures.disp import Disp
    s = _surf(rng, nx, ny, sym)
    return dict(factory=lambda: Disp(surface=s), ints=[ny], consts=[],
                inputs=OrderedDict(disp_aug=rng.normal(size=6 * (ny + 1))), outputs=["disp"])


@spec("Monotonic")
def _monotonic(rng, nx, ny, sym):
    from openaerostruct.geometry.monotonic_constraint import MonotonicConstraint
    s = _surf(rng, nx, ny, sym)
    return dict(factory=lambda: MonotonicConstraint(var_name="chord", surface=s), ints=[ny, int(sym)], consts=[],
                inputs=OrderedDict(chord=rng.uniform(0.5, 3.0, size=ny)), outputs=["monotonic_chord"],
                pattern=dict(op="MonotonicPattern", ints=[ny, int(sym)], of="monotonic_chord", wrt="chord"))


@spec("MultiCD", sym_opts=(False,))
def _multi_cd(rng, nx, ny, sym):
    from openaerostruct.integration.multipoint_comps import MultiCD
    n = nx + ny - 2
    inp = OrderedDict(("%d_CD" % i, np.array([rng.uniform(0.005, 0.08)])) for i in range(n))
    return dict(factory=lambda: MultiCD(n_points=n), ints=[n], consts=[], inputs=inp, outputs=["CD"])


def _glue_surfs(rng, nx, ny, sym, ns=None, cap=False):
    if cap:
        # the dense Jacobians of these components have O(N^2) columns and rows: the panel counts are kept small (the bookkeeping over
        # 1-3 surfaces of different sizes is what matters)
        nx, ny = min(nx, 3), min(ny, 4)
    ss = _vlm_surfs(rng, nx, ny, sym, ns=ns if ns is not None else int(rng.integers(1, 4)))
    ints = [len(ss)]
    for s in ss:
        ints += [s["mesh"].shape[0], s["mesh"].shape[1]]
    nums = [(s["mesh"].shape[0] - 1) * (s["mesh"].shape[1] - 1) for s in ss]
    return ss, ints, nums


@spec("PanelForcesSurf")
def _panel_forces_surf(rng, nx, ny, sym):
    from openaerostruct.aerodynamics.panel_forces_surf import PanelForcesSurf
    ss, ints, nums = _glue_surfs(rng, nx, ny, sym)
    return dict(factory=lambda: PanelForcesSurf(surfaces=ss), ints=ints, consts=[],
                inputs=OrderedDict(panel_forces=rng.normal(size=(sum(nums), 3)) * 1e3),
                outputs=[s["name"] + "_sec_forces" for s in ss])


@spec("EvalVelocities")
def _eval_velocities(rng, nx, ny, sym):
    from openaerostruct.aerodynamics.eval_velocities import EvalVelocities
    ss, ints, nums = _glue_surfs(rng, nx, ny, sym, cap=True)
    N = sum(nums)
    # the component is instantiated with num_eval_points = system size (force points), as in VLMStates
    inp = OrderedDict(freestream_velocities=rng.normal(size=(N, 3)) * 30, circulations=rng.normal(size=N) * 5)
    for s, num in zip(ss, nums):
        m = s["mesh"]
        inp["%s_force_pts_vel_mtx" % s["name"]] = rng.normal(size=(N, m.shape[0] - 1, m.shape[1] - 1, 3))
    return dict(factory=lambda: EvalVelocities(surfaces=ss, eval_name="force_pts", num_eval_points=N), ints=[N] + ints, consts=[],
                inputs=inp, outputs=["force_pts_velocities"])


@spec("MtxRhs")
def _mtx_rhs(rng, nx, ny, sym):
    from openaerostruct.aerodynamics.mtx_rhs import VLMMtxRHSComp
    ss, ints, nums = _glue_surfs(rng, nx, ny, sym, cap=True)
    N = sum(nums)
    inp = OrderedDict(freestream_velocities=rng.normal(size=(N, 3)) * 30)
    for s, num in zip(ss, nums):
        m = s["mesh"]
        inp["%s_coll_pts_vel_mtx" % s["name"]] = rng.normal(size=(N, m.shape[0] - 1, m.shape[1] - 1, 3))
        inp["%s_normals" % s["name"]] = rng.normal(size=(m.shape[0] - 1, m.shape[1] - 1, 3))
    return dict(factory=lambda: VLMMtxRHSComp(surfaces=ss), ints=ints, consts=[], inputs=inp, outputs=["mtx", "rhs"])


@spec("GetVectors")
def _get_vectors(rng, nx, ny, sym):
    from openaerostruct.aerodynamics.get_vectors import GetVectors
    ground = bool(sym and rng.uniform() < 0.4)
    ss = _vlm_surfs(rng, nx, ny, sym, ns=1, ground=ground)
    s = ss[0]; m = s["mesh"]
    npts = int(rng.integers(1, 5))
    nxv = (2 if ground else 1) * m.shape[0]; nyv = 2 * m.shape[1] - 1 if sym else m.shape[1]
    return dict(factory=lambda: GetVectors(surfaces=ss, num_eval_points=npts, eval_name="coll_pts"), ints=[npts, nxv, nyv], consts=[],
                inputs=OrderedDict([("coll_pts", rng.normal(size=(npts, 3)) * 3), (s["name"] + "_vortex_mesh", rng.normal(size=(nxv, nyv, 3)) * 3)]),
                outputs=["%s_coll_pts_vectors" % s["name"]], branch="ground" if ground else "free")


def _sections(rng, nx, ny, continuous):
    """2-4 section meshes [nx, ny_k, 3], outboard first (section 0 = tip side, as in the multi-section examples)"""
    ns = int(rng.integers(2, 5))
    secs = []
    y0 = -float(rng.uniform(6, 12))
    for k in range(ns):
        nyk = ny + int(rng.integers(0, 2))
        span = float(rng.uniform(1.0, 3.0))
        m = gen.rand_mesh(rng, nx, nyk, True, jitter=0.0, span=2 * span)
        m[:, :, 1] += y0 - m[0, 0, 1]
        if secs and continuous:
            m += secs[-1][:, -1:, :][0:1] * 0      # keep shape; aligned below
            m[:, 0, :] = secs[-1][:, -1, :]
        elif secs:
            m += rng.normal(size=3) * 0.2
        y0 = m[0, -1, 1]
        secs.append(np.ascontiguousarray(m))
    return secs


@spec("GeomMultiUnification", op="UnifyComp")
def _geom_multi_unification(rng, nx, ny, sym):
    from openaerostruct.geometry.geometry_unification import GeomMultiUnification
    secs = _sections(rng, nx, ny, continuous=bool(rng.uniform() < 0.5))
    shift = bool(rng.integers(2))
    sd = [dict(name="sec%d" % k, mesh=m.copy(), symmetry=True) for k, m in enumerate(secs)]
    inp = OrderedDict(("sec%d_def_mesh" % k, m + rng.normal(size=m.shape) * 0.01) for k, m in enumerate(secs))
    return dict(factory=lambda: GeomMultiUnification(sections=sd, surface_name="wing", shift_uni_mesh=shift),
                ints=[nx, int(shift), len(secs)] + [m.shape[1] for m in secs], consts=[], inputs=inp, outputs=["wing_uni_mesh"],
                branch="shift" if shift else "noshift")


@spec("GeomMultiJoin", op="MultiJoin")
def _geom_multi_join(rng, nx, ny, sym):
    from openaerostruct.geometry.geometry_multi_join import GeomMultiJoin
    secs = _sections(rng, nx, ny, continuous=False)
    ns = len(secs)
    masks = []
    for k in range(ns - 1):
        mk = rng.integers(0, 2, size=3)
        if not mk.any():
            mk[int(rng.integers(3))] = 1
        masks.append(np.array(mk, dtype=int))
    sd = [dict(name="sec%d" % k, mesh=m.copy(), symmetry=True) for k, m in enumerate(secs)]
    inp = OrderedDict(("sec%d_join_mesh" % k, m) for k, m in enumerate(secs))
    return dict(factory=lambda: GeomMultiJoin(sections=sd, dim_constr=[m.copy() for m in masks]),
                ints=[nx, ns] + [m.shape[1] for m in secs] + [int(x) for m in masks for x in m], consts=[], inputs=inp,
                outputs=["section_separation"])
