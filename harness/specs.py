"""
Component specifications: how to build the real OpenMDAO component, which inputs to generate,
and how the same case is presented to the Lean model op (ints, constant floats, input floats in
order, outputs in order).  One entry per modelled component.
"""
from collections import OrderedDict
import numpy as np
from . import gen

SPECS = {}


def spec(name, op=None, jac=True, sym_opts=(True, False), min_ny=2):
    def deco(f):
        SPECS[name] = dict(name=name, op=op or name, build=f, jac=jac, sym_opts=sym_opts, min_ny=min_ny)
        return f
    return deco


def _surf(rng, nx, ny, sym, **kw):
    return gen.base_surface(rng, nx, ny, sym, **kw)


# ---------------------------------------------------------------------------------------
# transfer
# ---------------------------------------------------------------------------------------
@spec("ComputeNodes")
def _compute_nodes(rng, nx, ny, sym):
    from openaerostruct.structures.compute_nodes import ComputeNodes
    s = _surf(rng, nx, ny, sym)
    return dict(factory=lambda: ComputeNodes(surface=s), ints=[nx, ny], consts=[s["fem_origin"]],
                inputs=OrderedDict(mesh=s["mesh"]), outputs=["nodes"])


@spec("LoadTransfer")
def _load_transfer(rng, nx, ny, sym):
    from openaerostruct.transfer.load_transfer import LoadTransfer
    s = _surf(rng, nx, ny, sym)
    F = rng.normal(size=(nx - 1, ny - 1, 3)) * 1e3
    return dict(factory=lambda: LoadTransfer(surface=s), ints=[nx, ny], consts=[0.25, s["fem_origin"]],
                inputs=OrderedDict(def_mesh=s["mesh"], sec_forces=F), outputs=["loads"])


@spec("TransformationMatrix")
def _transformation_matrix(rng, nx, ny, sym):
    from openaerostruct.transfer.compute_transformation_matrix import ComputeTransformationMatrix
    s = _surf(rng, nx, ny, sym)
    disp = rng.normal(size=(ny, 6)) * 0.2
    return dict(factory=lambda: ComputeTransformationMatrix(surface=s), ints=[ny], consts=[],
                inputs=OrderedDict(disp=disp), outputs=["transformation_matrix"])


@spec("DisplacementTransfer")
def _displacement_transfer(rng, nx, ny, sym):
    from openaerostruct.transfer.displacement_transfer import DisplacementTransfer
    s = _surf(rng, nx, ny, sym)
    mesh = s["mesh"]
    nodes = (1 - s["fem_origin"]) * mesh[0] + s["fem_origin"] * mesh[-1] + rng.normal(size=(ny, 3)) * 0.01
    disp = rng.normal(size=(ny, 6)) * 0.2
    T = rng.normal(size=(ny, 3, 3)) * 0.1
    return dict(factory=lambda: DisplacementTransfer(surface=s), ints=[nx, ny], consts=[],
                inputs=OrderedDict(mesh=mesh, nodes=nodes, disp=disp, transformation_matrix=T),
                outputs=["def_mesh"])


@spec("MeshPointForces")
def _mesh_point_forces(rng, nx, ny, sym):
    from openaerostruct.aerodynamics.mesh_point_forces import MeshPointForces
    s = _surf(rng, nx, ny, sym)
    F = rng.normal(size=(nx - 1, ny - 1, 3)) * 1e3
    return dict(factory=lambda: MeshPointForces(surfaces=[s]), ints=[nx, ny], consts=[0.375, 0.125],
                inputs=OrderedDict([(s["name"] + "_sec_forces", F)]), outputs=[s["name"] + "_mesh_point_forces"])
