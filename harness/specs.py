"""
Component specifications: how to build the real OpenMDAO component, which inputs to generate,
and how the same case is presented to the Lean model op (ints, constant floats, input floats in
order, outputs in order).  One entry per modelled component.
"""
from collections import OrderedDict
import numpy as np
from . import gen

SPECS = {}


def spec(name, op=None, jac=True, sym_opts=(True, False), min_ny=2):
    def deco(f):
        SPECS[name] = dict(name=name, op=op or name, build=f, jac=jac, sym_opts=sym_opts, min_ny=min_ny)
        return f
    return deco


def _surf(rng, nx, ny, sym, **kw):
    return gen.base_surface(rng, nx, ny, sym, **kw)


# ---------------------------------------------------------------------------------------
# transfer
# ---------------------------------------------------------------------------------------
@spec("ComputeNodes")
def _compute_nodes(rng, nx, ny, sym):
    from openaerostruct.structures.compute_nodes import ComputeNodes
    s = _surf(rng, nx, ny, sym)
    return dict(factory=lambda: ComputeNodes(surface=s), ints=[nx, ny], consts=[s["fem_origin"]],
                inputs=OrderedDict(mesh=s["mesh"]), outputs=["nodes"])


@spec("LoadTransfer")
def _load_transfer(rng, nx, ny, sym):
    from openaerostruct.transfer.load_transfer import LoadTransfer
    s = _surf(rng, nx, ny, sym)
    F = rng.normal(size=(nx - 1, ny - 1, 3)) * 1e3
    return dict(factory=lambda: LoadTransfer(surface=s), ints=[nx, ny], consts=[0.25, s["fem_origin"]],
                inputs=OrderedDict(def_mesh=s["mesh"], sec_forces=F), outputs=["loads"])


@spec("TransformationMatrix")
def _transformation_matrix(rng, nx, ny, sym):
    from openaerostruct.transfer.compute_transformation_matrix import ComputeTransformationMatrix
    s = _surf(rng, nx, ny, sym)
    disp = rng.normal(size=(ny, 6)) * 0.2
    return dict(factory=lambda: ComputeTransformationMatrix(surface=s), ints=[ny], consts=[],
                inputs=OrderedDict(disp=disp), outputs=["transformation_matrix"])


@spec("DisplacementTransfer")
def _displacement_transfer(rng, nx, ny, sym):
    from openaerostruct.transfer.displacement_transfer import DisplacementTransfer
    s = _surf(rng, nx, ny, sym)
    mesh = s["mesh"]
    nodes = (1 - s["fem_origin"]) * mesh[0] + s["fem_origin"] * mesh[-1] + rng.normal(size=(ny, 3)) * 0.01
    disp = rng.normal(size=(ny, 6)) * 0.2
    T = rng.normal(size=(ny, 3, 3)) * 0.1
    return dict(factory=lambda: DisplacementTransfer(surface=s), ints=[nx, ny], consts=[],
                inputs=OrderedDict(mesh=mesh, nodes=nodes, disp=disp, transformation_matrix=T),
                outputs=["def_mesh"])


@spec("MeshPointForces")
def _mesh_point_forces(rng, nx, ny, sym):
    from openaerostruct.aerodynamics.mesh_point_forces import MeshPointForces
    s = _surf(rng, nx, ny, sym)
    F = rng.normal(size=(nx - 1, ny - 1, 3)) * 1e3
    return dict(factory=lambda: MeshPointForces(surfaces=[s]), ints=[nx, ny], consts=[0.375, 0.125],
                inputs=OrderedDict([(s["name"] + "_sec_forces", F)]), outputs=[s["name"] + "_mesh_point_forces"])


# ---------------------------------------------------------------------------------------
# structures: mass, cg, inertial / fuel / point loads
# ---------------------------------------------------------------------------------------
def _nodes(rng, s):
    m = s["mesh"]; w = s["fem_origin"]
    return (1 - w) * m[0] + w * m[-1]


@spec("Weight")
def _weight(rng, nx, ny, sym):
    from openaerostruct.structures.weight import Weight
    s = _surf(rng, nx, ny, sym)
    A = rng.uniform(1e-3, 5e-2, size=ny - 1)
    return dict(factory=lambda: Weight(surface=s), ints=[ny, int(sym)], consts=[s["mrho"], s["wing_weight_ratio"]],
                inputs=OrderedDict(A=A, nodes=_nodes(rng, s)), outputs=["structural_mass", "element_mass"])


@spec("StructuralCG")
def _structural_cg(rng, nx, ny, sym):
    from openaerostruct.structures.structural_cg import StructuralCG
    s = _surf(rng, nx, ny, sym)
    em = rng.uniform(1.0, 50.0, size=ny - 1)
    sm = np.array([em.sum() * (2.0 if sym else 1.0) * rng.uniform(0.9, 1.1)])
    return dict(factory=lambda: StructuralCG(surface=s), ints=[ny, int(sym)], consts=[],
                inputs=OrderedDict(nodes=_nodes(rng, s), structural_mass=sm, element_mass=em), outputs=["cg_location"])


@spec("StructWeightLoads")
def _struct_weight_loads(rng, nx, ny, sym):
    from openaerostruct.structures.wing_weight_loads import StructureWeightLoads
    s = _surf(rng, nx, ny, sym)
    em = rng.uniform(1.0, 50.0, size=ny - 1)
    return dict(factory=lambda: StructureWeightLoads(surface=s), ints=[ny], consts=[],
                inputs=OrderedDict(element_mass=em, load_factor=np.array([rng.uniform(0.5, 2.5)]), nodes=_nodes(rng, s)),
                outputs=["struct_weight_loads"], input_order=["element_mass", "load_factor", "nodes"])


@spec("FuelLoads")
def _fuel_loads(rng, nx, ny, sym):
    from openaerostruct.structures.fuel_loads import FuelLoads
    s = _surf(rng, nx, ny, sym)
    s["Wf_reserve"] = float(rng.uniform(0, 2000.0))
    vols = rng.uniform(0.1, 2.0, size=ny - 1)
    return dict(factory=lambda: FuelLoads(surface=s), ints=[ny, int(sym)], consts=[s["Wf_reserve"]],
                inputs=OrderedDict(nodes=_nodes(rng, s), fuel_vols=vols, fuel_mass=np.array([rng.uniform(1e3, 3e4)]),
                                   load_factor=np.array([rng.uniform(0.5, 2.5)])),
                outputs=["fuel_weight_loads"], jtol=1e-6)


@spec("FuelVolDelta")
def _fuel_vol_delta(rng, nx, ny, sym):
    from openaerostruct.structures.wingbox_fuel_vol_delta import WingboxFuelVolDelta
    s = _surf(rng, nx, ny, sym)
    s["Wf_reserve"] = float(rng.uniform(0, 2000.0)); s["fuel_density"] = float(rng.uniform(700, 850))
    vols = rng.uniform(0.1, 2.0, size=ny - 1)
    return dict(factory=lambda: WingboxFuelVolDelta(surface=s), ints=[ny, int(sym)],
                consts=[s["Wf_reserve"], s["fuel_density"]],
                inputs=OrderedDict(fuelburn=np.array([rng.uniform(1e3, 3e4)]), fuel_vols=vols),
                outputs=["fuel_vol_delta"], jtol=1e-6)


def _point_setup(rng, nx, ny, sym):
    s = _surf(rng, nx, ny, sym)
    npm = int(rng.integers(1, 4))
    s["n_point_masses"] = npm
    nodes = _nodes(rng, s)
    locs = np.zeros((npm, 3))
    for p in range(npm):
        j = rng.integers(ny)
        locs[p] = nodes[j] + rng.normal(size=3) * np.array([0.5, 0.3, 0.3])
    return s, npm, nodes, locs


@spec("PointMassLoads")
def _point_mass_loads(rng, nx, ny, sym):
    from openaerostruct.structures.compute_point_mass_loads import ComputePointMassLoads
    s, npm, nodes, locs = _point_setup(rng, nx, ny, sym)
    return dict(factory=lambda: ComputePointMassLoads(surface=s), ints=[ny, npm], consts=[],
                inputs=OrderedDict(point_mass_locations=locs, point_masses=rng.uniform(100, 5000, size=npm), nodes=nodes,
                                   load_factor=np.array([rng.uniform(0.5, 2.5)])),
                outputs=["nodal_weightings", "loads_from_point_masses"], jtol=1e-5, jatol=1e-6)


@spec("ThrustLoads")
def _thrust_loads(rng, nx, ny, sym):
    from openaerostruct.structures.compute_thrust_loads import ComputeThrustLoads
    s, npm, nodes, locs = _point_setup(rng, nx, ny, sym)
    return dict(factory=lambda: ComputeThrustLoads(surface=s), ints=[ny, npm], consts=[],
                inputs=OrderedDict(point_mass_locations=locs, engine_thrusts=rng.uniform(1e3, 1e5, size=npm), nodes=nodes),
                outputs=["nodal_weightings", "loads_from_thrusts"], jtol=1e-5, jatol=1e-6)


@spec("TotalLoads")
def _total_loads(rng, nx, ny, sym):
    from openaerostruct.structures.total_loads import TotalLoads
    s = _surf(rng, nx, ny, sym)
    relief, fuel, pm = (bool(rng.integers(2)) for _ in range(3))
    s["struct_weight_relief"] = relief; s["distributed_fuel_weight"] = fuel
    if pm:
        s["n_point_masses"] = 1
    inp = OrderedDict(loads=rng.normal(size=(ny, 6)) * 1e3)
    if relief: inp["struct_weight_loads"] = rng.normal(size=(ny, 6)) * 1e3
    if fuel: inp["fuel_weight_loads"] = rng.normal(size=(ny, 6)) * 1e3
    if pm:
        inp["loads_from_point_masses"] = rng.normal(size=(ny, 6)) * 1e3
        inp["loads_from_thrusts"] = rng.normal(size=(ny, 6)) * 1e3
    return dict(factory=lambda: TotalLoads(surface=s), ints=[ny, int(relief), int(fuel), int(pm)], consts=[],
                inputs=inp, outputs=["total_loads"])
