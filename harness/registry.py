"""Which theorems, correspondence suites and oracles belong to which property."""
import json, os, subprocess
from . import core, suites
from .core import VERIF

THEOREMS = json.load(open(os.path.join(VERIF, "theorems.json")))

COMMON_TRUST = [
    "Lean 4.33.0 kernel; Mathlib v4.33.0 as a library of proved facts",
    "hand transliteration of the Python sources into the Lean model (lean/OASModel), validated only by the "
    "correspondence check of this run (sampled inputs; values 1e-9, Jacobians 1e-7 relative to the column scale)",
    "the Python harness, the line protocol, the Lean driver glue (lean/OASDriver), Lean `Float` as IEEE doubles, libm",
    "OpenMDAO, numpy, scipy, CPython (not modelled)",
    "real-number semantics: the theorems say nothing about rounding, overflow or NaN",
]

PROPS = {
    "C11": dict(
        components=["ComputeNodes", "LoadTransfer", "TransformationMatrix", "DisplacementTransfer", "MeshPointForces"],
        assumptions=["quarter-chord aerodynamic centre (w1 = 0.25) and the 0.375/0.125 node weights are constants of the code, "
                     "compared through the correspondence check"],
    ),
    "C16": dict(
        components=["Weight", "StructuralCG", "StructWeightLoads", "FuelLoads", "FuelVolDelta", "PointMassLoads",
                    "ThrustLoads", "TotalLoads", "WingboxFuelVol"],
        value_only=["FuelVolDelta"],   # its Jacobian belongs to C01 (known finding F10)
        assumptions=["element lengths are positive (non-degenerate beam mesh) and the fuel volumes do not sum to zero"],
    ),
    "C15": dict(
        components=["VonMisesTube", "VonMisesWingbox", "FailureKS", "FailureExact", "SectionPropertiesTube",
                    "NonIntersectingThickness", "Energy", "SectionPropertiesWingbox", "SparWithinWing", "RadiusComp"],
        assumptions=["elements are not aligned with the global x axis (the local triad uses x as reference)",
                     "IEEE overflow is not modelled: the theorem shows every KS exponent is <= 0"],
    ),
    "C13": dict(
        components=["Taper", "ScaleX", "Sweep", "Dihedral", "Shear", "Stretch", "Rotate", "GeometryChain"],
        assumptions=["B-splines (om.SplineComp) are external: 'equal control points give a constant' is examined by the oracle only"],
    ),
    "C17": dict(
        components=["TotalLiftDrag", "SumAreas", "Equilibrium", "Breguet", "CenterOfGravity", "Reynolds", "MomentCoefficient", "Coeffs", "AtmosComp"],
        assumptions=["the Akima interpolation of the atmosphere table is modelled (transliterated from scipy) and compared with AtmosComp over the "
                     "whole table; the table itself is passed to the model from the source text on every run"],
    ),
    "C18": dict(
        components=["ViscousDrag", "WaveDrag", "TotalDrag", "VLMGeometry"],
        assumptions=["monotonicity is proved for fully turbulent (k_lam = 0) and fully laminar (k_lam = 1) sections; "
                     "mixed laminar fractions are examined numerically by the oracle only"],
    ),
    "C01": dict(
        components="ALL",
        history_components="ALL",
        jacobian_components="ALL_JAC",
        extra_suites=[suites.implicit_suite],
        oracle_cases=dict(quick=2, thorough=10),
        assumptions=["non-degenerate meshes, positive section properties, subsonic Mach; generators keep a guard band around the documented "
                     "non-smooth points (wave-drag onset, the 1e-6 N zeroing threshold, zero rotation differences in the tube stress)",
                     "partials declared method='cs'/'fd' are OpenMDAO's approximations of compute()",
                     "the model Jacobian the code is compared with is the dual-number evaluation of the model; its exactness (= the "
                     "derivative of the real-number model along every curve) is proved primitive by primitive (Lemmas/AD.lean) and "
                     "for the model functions listed in C01AD*.lean (C01AD .. C01AD8); for model functions without a composed theorem "
                     "(e.g. the B-spline-free geometry chain as a whole, the assembled VLM system as a whole) it rests on the primitive "
                     "lemmas and on the composed theorems of their parts"],
    ),
    "C03": dict(
        components=["MomentCoefficient", "VortexMesh", "ViscousDrag", "WaveDrag", "LoadTransfer", "Taper", "ScaleX", "Rotate", "Stretch",
                    "StructWeightLoads", "Horseshoe", "VonMisesTube", "VLMGeometry", "MtxRhs"],
        extra_suites=[suites.implicit_suite],
        history_components="ALL",
        assumptions=["the framework protocol: compute(x) precedes compute_partials/linearize at x (OpenMDAO's run_model -> compute_totals)",
                     "the accumulation-site scan is syntactic (augmented assignments on partials/outputs/inputs/self and on local views of them)"],
    ),
    "C10": dict(
        components=["ComputeNodes", "Length", "Transform", "LocalStiff", "LocalStiffPermuted", "LocalStiffTransformed", "CreateRHS",
                    "FEMSolve", "TotalLoads", "Disp"],
        extra_suites=[suites.beam_pipeline_suite, lambda st, tier: suites.implicit_suite(st, tier, names=("FEM",))],
        assumptions=["the sparse LU solver returns a solution of the system it is given (contract)",
                     "multi-element closed-form cantilever values and the tube rotation equivariance are evaluated on the real code by the oracle, not proved"],
    ),
    "C02": dict(
        components=["FEMSolve", "LocalStiffTransformed", "Demux", "MuxForces", "VonMisesWingbox", "FuelLoads", "ConvertVelocity", "RotationalVelocity", "PanelForces",
                    "SectionPropertiesWingbox", "WingboxGeometry"],
        extra_suites=[suites.beam_pipeline_suite, suites.aero_pipeline_suite, suites.aerostruct_pipeline_suite, suites.implicit_suite],
        oracle_cases=dict(quick=3, thorough=15),
        assumptions=["OpenMDAO's assembly of total derivatives and the convergence of its iterative linear solvers are trusted, not modelled",
                     "component partials are covered by C01"],
    ),
    "C12": dict(
        components=["LoadTransfer", "DisplacementTransfer", "TransformationMatrix", "FEMSolve", "MultiCD"],
        extra_suites=[suites.beam_pipeline_suite, suites.aero_pipeline_suite, suites.aerostruct_pipeline_suite],
        oracle_cases=dict(quick=3, thorough=15),
        assumptions=["convergence of OpenMDAO's nonlinear solvers is runtime behaviour; uniqueness of the consistent state is a hypothesis",
                     "the rigid limit needs bounded aerodynamic loads (hypothesis)"],
    ),
    "C14": dict(
        components=["ScaleX", "GeomMultiUnification", "GeomMultiJoin"],
        history_components=[],
        extra_suites=[suites.meshgen_suite],
        assumptions=["blends in [0,1] (the undocumented span_cos_spacing == 2 branch is not modelled)",
                     "unify_mesh is modelled (Unify.lean, compared exactly with the real function, detached sections and both shift settings included); the multi-section mesh generator is modelled too (Sections.lean); CRM planform data are evaluated on the real code by the oracle, not modelled"],
    ),
    "C20": dict(
        components=[],
        history_components=[],
        extra_suites=[suites.validation_suite],
        oracle_cases=dict(quick=3, thorough=20),
        assumptions=["finiteness, repeatability and non-mutation of user arrays are runtime/aliasing behaviour: monitored by the oracle, not proved"],
    ),
    "C05": dict(
        components=["CollocationPoints", "VortexMesh", "EvalVelMtx", "Horseshoe", "VLMGeometry", "GetVectors", "MtxRhs", "EvalVelocities",
                    "PanelForcesSurf"],
        extra_suites=[suites.aero_pipeline_suite, lambda st, tier: suites.implicit_suite(st, tier, names=("SolveMatrix",))],
        assumptions=["the linear solver returns a solution of the system it is given (scipy LU; contract, not modelled)",
                     "the line-integral origin of the closed-form kernel is not formalised, only its equality with the Biot-Savart closed form"],
    ),
    "C04": dict(
        components=["VortexMesh", "EvalVelMtx", "LiftDrag", "VLMGeometry", "ViscousDrag", "WaveDrag", "MomentCoefficient", "Weight", "StructuralCG", "GetVectors"],
        extra_suites=[suites.aero_pipeline_suite],
        assumptions=["mirror-symmetric configuration with the root edge on y = 0, zero sideslip and no roll/yaw rate",
                     "structural half/full equivalence is examined by the oracle only"],
    ),
    "C06": dict(
        components=["EvalVelMtx", "LiftDrag", "Coeffs", "LiftCoeff2D", "TotalLiftDrag", "SumAreas", "ViscousDrag", "MomentCoefficient"],
        extra_suites=[suites.aero_pipeline_suite],
        assumptions=["length scaling requires that the |den| > 1e-10 branch of the kernel is the same in both configurations (known finding F9)"],
    ),
    "C07": dict(
        components=["VortexMesh", "EvalVelMtx", "Taper", "Sweep", "Dihedral", "VonMisesWingbox", "VonMisesTube", "PointMassLoads", "ThrustLoads", "Monotonic"],
        extra_suites=[suites.aero_pipeline_suite],
        assumptions=["aerodynamic mirror equivariance is proved for full-span surfaces without ground effect; structural mirror equivariance and the coefficient functionals are examined by the oracle only"],
    ),
    "C08": dict(
        components=["VortexMesh", "EvalVelMtx", "GetVectors"],
        extra_suites=[suites.aero_pipeline_suite],
        assumptions=["the far-field limit is examined numerically (h = 1e6 chords) by the oracle, not proved"],
    ),
    "C09": dict(
        components=["PGRotateTo", "PGRotateFrom", "PGScaleFrom", "PGScaleToGeom", "PGScaleToNormals"],
        extra_suites=[suites.compressible_pipeline_suite],
        assumptions=["the wiring of compressible_states.py is tied twice: by the model pipeline CompressibleStates (compared with the real "
                     "AeroPoint(compressible=True), rotation rates included) and by the real-code oracle (PG specification around the real "
                     "incompressible solver)", "continuity of the linear solve in its data is assumed"],
    ),
    "C19": dict(
        components=["Demux", "MuxForces", "Horseshoe", "CollocationPoints", "MtxRhs", "EvalVelocities", "PanelForcesSurf", "GeomMultiUnification"],
        extra_suites=[suites.aero_pipeline_suite],
        assumptions=["order-independence is proved for the assembled system (matrix, rhs, solutions, panel forces); the coefficient functionals downstream and the splitting of a surface into abutting surfaces are examined by the oracle", "mphys wrapper groups are compared by the oracle when mphys is importable"],
    ),
}
from .specs import SPECS as _SPECS
for k, v in PROPS.items():
    if v.get("history_components") == "ALL":
        v["history_components"] = sorted(_SPECS)
    if v.get("components") == "ALL":
        v["components"] = sorted(_SPECS)
    if v.get("jacobian_components") == "ALL_JAC":
        v["jacobian_components"] = sorted(k for k, sp in _SPECS.items() if sp["jac"])
    v["theorems"] = THEOREMS.get(k, {}).get("theorems", [])
    v["modules"] = THEOREMS.get(k, {}).get("modules", ["OASProofs.Props." + k])
    v["generated"] = THEOREMS.get(k, {}).get("generated", [])
    v["generated_modules"] = THEOREMS.get(k, {}).get("generated_modules", [])
    v["generated_theorem_prefixes"] = THEOREMS.get(k, {}).get("generated_theorem_prefixes", [])


def run_suites(prop, st, tier):
    R = PROPS[prop]
    suites.component_suite(R.get("components", []), st, tier=tier, value_only=R.get("value_only", ()))
    for f in R.get("extra_suites", []):
        f(st, tier)


def trusted_base(prop, axioms):
    return ["axioms of the registered theorems (from #print axioms): %s" % (", ".join(axioms) or "none")] + COMMON_TRUST \
        + PROPS[prop].get("trusted_extra", [])


def assumptions(prop):
    return PROPS[prop].get("assumptions", []) + ["inputs are exchanged with the model as IEEE-754 bit patterns"]


def leanchecker(prop=None):
    mods = PROPS[prop]["modules"] if prop else ["OASProofs"]
    p = subprocess.run(["lake", "env", "leanchecker"] + list(mods), cwd=os.path.join(VERIF, "lean"),
                       stdout=subprocess.PIPE, stderr=subprocess.STDOUT)
    return p.returncode == 0, p.stdout.decode(errors="replace")
