"""Known findings: committed in /verif/known_findings.json, never written at run time."""
import json, os
from .core import VERIF

PATH = os.path.join(VERIF, "known_findings.json")
CLASSIFIERS = {}
WITNESSES = {}


def classifier(fid):
    def deco(f):
        CLASSIFIERS[fid] = f
        return f
    return deco


def witness(fid):
    def deco(f):
        WITNESSES[fid] = f
        return f
    return deco


def load():
    if not os.path.exists(PATH):
        return []
    return json.load(open(PATH))["findings"]


def process(prop, failures, problems=()):
    """returns (KNOWN-FINDING lines, remaining failures, remaining problems, info)

    `failures` are concrete failing inputs found by the real-code oracles, `problems` are broken
    correspondences / obligations.  Both are offered to the classifier of every listed finding;
    what a classifier accepts is reported as KNOWN-FINDING instead of VIOLATION."""
    lines, info = [], []
    entries = [e for e in load() if prop in e["properties"]]
    remaining = list(failures)
    rem_problems = list(problems)
    for e in entries:
        fid = e["id"]
        if e["status"] != "known":
            info.append(dict(id=fid, status=e["status"]))
            continue      # a `fixed` entry suppresses nothing
        cl = CLASSIFIERS.get(fid, lambda f: False)
        matched = [f for f in remaining if cl(f)] + [f for f in rem_problems if cl(f)]
        remaining = [f for f in remaining if not cl(f)]
        rem_problems = [f for f in rem_problems if not cl(f)]
        still = None
        if fid in WITNESSES:
            try:
                still = WITNESSES[fid]()
            except Exception as ex:      # a witness that cannot run any more is not "still failing"
                still = None
                info.append(dict(id=fid, witness_error=repr(ex)))
        if still or matched:
            lines.append("KNOWN-FINDING: property=%s %s: %s" % (prop, fid, e.get("short", e["what"])))
        info.append(dict(id=fid, status="known", witness_still_fails=bool(still), matched_failures=len(matched)))
    return lines, remaining, rem_problems, info


# ---------------------------------------------------------------------------------------
# F10  WingboxFuelVolDelta halves its `fuelburn` input view in place (symmetric surfaces)
# ---------------------------------------------------------------------------------------
@classifier("F10")
def _f10_class(f):
    if f.get("component") == "FuelVolDelta" and "jacobian" in f.get("kind", "") and tuple(f.get("size", ()))[-1:] == (True,):
        return True
    return f.get("finding") == "F10"


@witness("F10")
def _f10_witness():
    import numpy as np, openmdao.api as om
    from .core import comp_problem, comp_jacobian
    from openaerostruct.structures.wingbox_fuel_vol_delta import WingboxFuelVolDelta
    s = {"symmetry": True, "mesh": np.zeros((2, 3, 3)), "Wf_reserve": 1000.0, "fuel_density": 800.0}
    p = comp_problem(WingboxFuelVolDelta(surface=s), dict(fuelburn=np.array([2000.0]), fuel_vols=np.array([1.0, 2.0])))
    J = comp_jacobian(p, ["fuel_vol_delta"], ["fuel_vols"])[("fuel_vol_delta", "fuel_vols")]
    return bool(np.max(np.abs(J - 1.0)) > 1e-6) or float(p.model.c._inputs["fuelburn"][0]) != 2000.0


# ---------------------------------------------------------------------------------------
# F8a  Rotate pre-rotates sections about x by the dihedral of the reference axis at zero twist
# ---------------------------------------------------------------------------------------
@classifier("F8a")
def _f8a_class(f):
    return f.get("finding") == "F8a"


@witness("F8a")
def _f8a_witness():
    import numpy as np
    import openaerostruct.geometry.geometry_mesh_transformations as GT
    from .core import comp_problem
    # 2x2 symmetric half mesh: reference axis rises 1 m over 2 m of span; the trailing edge is 0.1 m above the chord line
    mesh = np.array([[[0.0, -2.0, 1.0], [0.0, 0.0, 0.0]], [[1.0, -2.0, 1.1], [1.0, 0.0, 0.1]]])
    p = comp_problem(GT.Rotate(val=np.zeros(2), mesh_shape=mesh.shape, symmetry=True), dict(twist=np.zeros(2), in_mesh=mesh))
    return bool(np.max(np.abs(np.array(p.get_val("mesh")) - mesh)) > 1e-6)


# ---------------------------------------------------------------------------------------
# F8b  Stretch overwrites the y of every chordwise row with the reference-axis y
# ---------------------------------------------------------------------------------------
@classifier("F8b")
def _f8b_class(f):
    return f.get("finding") == "F8b"


@witness("F8b")
def _f8b_witness():
    import numpy as np
    import openaerostruct.geometry.geometry_mesh_transformations as GT
    from .core import comp_problem
    # trailing edge nodes 0.2 m outboard of the leading edge nodes (raked sections); span input = current span
    mesh = np.array([[[0.0, -2.0, 0.0], [0.0, 0.0, 0.0]], [[1.0, -2.2, 0.0], [1.0, 0.0, 0.0]]])
    ref = 0.25 * mesh[-1] + 0.75 * mesh[0]
    span = 2 * (ref[-1, 1] - ref[0, 1])
    p = comp_problem(GT.Stretch(val=span, mesh_shape=mesh.shape, symmetry=True), dict(span=np.array([span]), in_mesh=mesh))
    return bool(np.max(np.abs(np.array(p.get_val("mesh")) - mesh)) > 1e-6)
