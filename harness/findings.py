"""Known findings: committed in /verif/known_findings.json, never written at run time."""
import json, os
from .core import VERIF

PATH = os.path.join(VERIF, "known_findings.json")
CLASSIFIERS = {}
WITNESSES = {}


def classifier(fid):
    def deco(f):
        CLASSIFIERS[fid] = f
        return f
    return deco


def witness(fid):
    def deco(f):
        WITNESSES[fid] = f
        return f
    return deco


def load():
    if not os.path.exists(PATH):
        return []
    return json.load(open(PATH))["findings"]


def process(prop, failures, problems=()):
    """returns (KNOWN-FINDING lines, remaining failures, remaining problems, info)

    `failures` are concrete failing inputs found by the real-code oracles, `problems` are broken
    correspondences / obligations.  Both are offered to the classifier of every listed finding;
    what a classifier accepts is reported as KNOWN-FINDING instead of VIOLATION."""
    lines, info = [], []
    entries = [e for e in load() if prop in e["properties"]]
    remaining = list(failures)
    rem_problems = list(problems)
    for e in entries:
        fid = e["id"]
        if e["status"] != "known":
            info.append(dict(id=fid, status=e["status"]))
            continue      # a `fixed` entry suppresses nothing
        cl = CLASSIFIERS.get(fid, lambda f: False)
        matched = [f for f in remaining if cl(f)] + [f for f in rem_problems if cl(f)]
        remaining = [f for f in remaining if not cl(f)]
        rem_problems = [f for f in rem_problems if not cl(f)]
        still = None
        if fid in WITNESSES:
            try:
                still = WITNESSES[fid]()
            except Exception as ex:      # a witness that cannot run any more is not "still failing"
                still = None
                info.append(dict(id=fid, witness_error=repr(ex)))
        if still or matched:
            lines.append("KNOWN-FINDING: property=%s %s: %s" % (prop, fid, e.get("short", e["what"])))
        info.append(dict(id=fid, status="known", witness_still_fails=bool(still), matched_failures=len(matched)))
    return lines, remaining, rem_problems, info


# ---------------------------------------------------------------------------------------
# F10  WingboxFuelVolDelta halves its `fuelburn` input view in place (symmetric surfaces)
# ---------------------------------------------------------------------------------------
@classifier("F10")
def _f10_class(f):
    if f.get("component") == "FuelVolDelta" and "jacobian" in f.get("kind", "") and tuple(f.get("size", ()))[-1:] == (True,):
        return True
    c = f.get("case", {})
    if c.get("component") == "FuelVolDelta" and bool(c.get("symmetry")):
        return True
    return f.get("finding") == "F10"


@witness("F10")
def _f10_witness():
    import numpy as np, openmdao.api as om
    from .core import comp_problem, comp_jacobian
    from openaerostruct.structures.wingbox_fuel_vol_delta import WingboxFuelVolDelta
    s = {"symmetry": True, "mesh": np.zeros((2, 3, 3)), "Wf_reserve": 1000.0, "fuel_density": 800.0}
    p = comp_problem(WingboxFuelVolDelta(surface=s), dict(fuelburn=np.array([2000.0]), fuel_vols=np.array([1.0, 2.0])))
    J = comp_jacobian(p, ["fuel_vol_delta"], ["fuel_vols"])[("fuel_vol_delta", "fuel_vols")]
    return bool(np.max(np.abs(J - 1.0)) > 1e-6) or float(p.model.c._inputs["fuelburn"][0]) != 2000.0


# ---------------------------------------------------------------------------------------
# F8a  Rotate pre-rotates sections about x by the dihedral of the reference axis at zero twist
# ---------------------------------------------------------------------------------------
@classifier("F8a")
def _f8a_class(f):
    return f.get("finding") == "F8a"


@witness("F8a")
def _f8a_witness():
    import numpy as np
    import openaerostruct.geometry.geometry_mesh_transformations as GT
    from .core import comp_problem
    # 2x2 symmetric half mesh: reference axis rises 1 m over 2 m of span; the trailing edge is 0.1 m above the chord line
    mesh = np.array([[[0.0, -2.0, 1.0], [0.0, 0.0, 0.0]], [[1.0, -2.0, 1.1], [1.0, 0.0, 0.1]]])
    p = comp_problem(GT.Rotate(val=np.zeros(2), mesh_shape=mesh.shape, symmetry=True), dict(twist=np.zeros(2), in_mesh=mesh))
    return bool(np.max(np.abs(np.array(p.get_val("mesh")) - mesh)) > 1e-6)


# ---------------------------------------------------------------------------------------
# F8b  Stretch overwrites the y of every chordwise row with the reference-axis y
# ---------------------------------------------------------------------------------------
@classifier("F8b")
def _f8b_class(f):
    return f.get("finding") == "F8b"


@witness("F8b")
def _f8b_witness():
    import numpy as np
    import openaerostruct.geometry.geometry_mesh_transformations as GT
    from .core import comp_problem
    # trailing edge nodes 0.2 m outboard of the leading edge nodes (raked sections); span input = current span
    mesh = np.array([[[0.0, -2.0, 0.0], [0.0, 0.0, 0.0]], [[1.0, -2.2, 0.0], [1.0, 0.0, 0.0]]])
    ref = 0.25 * mesh[-1] + 0.75 * mesh[0]
    span = 2 * (ref[-1, 1] - ref[0, 1])
    p = comp_problem(GT.Stretch(val=span, mesh_shape=mesh.shape, symmetry=True), dict(span=np.array([span]), in_mesh=mesh))
    return bool(np.max(np.abs(np.array(p.get_val("mesh")) - mesh)) > 1e-6)


# ---------------------------------------------------------------------------------------
# aerodynamic findings: tagged by the oracle that recognises the exact mechanism
# ---------------------------------------------------------------------------------------
for _fid in ("F4", "F5", "F6", "F7", "F9"):
    CLASSIFIERS[_fid] = (lambda fid: (lambda f: f.get("finding") == fid))(_fid)


@witness("F4")
def _f4_witness():
    import numpy as np
    from .core import comp_problem
    from openaerostruct.aerodynamics.wave_drag import WaveDrag
    inp = dict(Mach_number=0.9, CL=0.5, widths=np.array([1.0, 1.0]), lengths_spanwise=np.array([1.0, 1.0]),
               chords=np.array([1.0, 1.0, 1.0]), t_over_c=np.array([0.12, 0.12]))
    r = []
    for sym in (True, False):
        s = dict(name="w", symmetry=sym, mesh=np.zeros((2, 3, 3)), with_wave=True)
        r.append(float(comp_problem(WaveDrag(surface=s), inp).get_val("CDw")[0]))
    return r[1] > 0 and abs(r[0] - 2 * r[1]) < 1e-12


@witness("F9")
def _f9_witness():
    import numpy as np
    from openaerostruct.aerodynamics.eval_mtx import _compute_finite_vortex
    r1 = np.array([[1.0, 0.0, 0.0]]); r2 = np.array([[0.0, 1.0, 0.0]])
    k = 1e-6
    a = _compute_finite_vortex(r1, r2); b = _compute_finite_vortex(k * r1, k * r2)
    return bool(np.any(a != 0) and np.all(b == 0))


@witness("F6")
def _f6_witness():
    import numpy as np
    import openaerostruct.geometry.geometry_mesh_transformations as GT
    from .core import comp_problem
    mesh = np.array([[[0.0, 0.0, 0.0], [0.0, 1.0, 0.0], [0.0, 2.0, 0.0]], [[1.0, 0.0, 0.0], [1.0, 1.0, 0.0], [1.0, 2.0, 0.0]]])
    p = comp_problem(GT.Taper(val=0.5, mesh=mesh, symmetry=True), dict(taper=np.array([0.5])))
    return bool(np.array_equal(np.array(p.get_val("mesh")), mesh))


@witness("F5")
def _f5_witness():
    import numpy as np
    from . import pipelines
    from .oracles_aero import _mirror_mesh
    from openaerostruct.geometry.utils import generate_mesh
    m = np.array(generate_mesh(dict(num_x=2, num_y=5, wing_type="rect", symmetry=True, span=4.0, root_chord=1.0)), dtype=float)
    m[:, :, 1] -= 1.0
    flow = dict(alpha=5.0, v=50.0, rho=1.0, cg=np.zeros(3))
    half = [pipelines.aero_surface("fin", m, True)]
    full = [pipelines.aero_surface("fin", m, False), pipelines.aero_surface("fin_m", _mirror_mesh(m), False)]
    a = pipelines.aero_outputs(pipelines.run_aero_point(half, flow), half)["fin"]["CL"]
    b = pipelines.aero_outputs(pipelines.run_aero_point(full, flow), full)["fin"]["CL"]
    return abs(a - b) > 1e-6 * abs(b)


@witness("F7")
def _f7_witness():
    import numpy as np
    from .oracles_struct import c07_wingbox_symmetry
    from .core import rng_for
    return bool(c07_wingbox_symmetry(rng_for("witness", "F7"), "quick"))
