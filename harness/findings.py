"""Known findings: committed in /verif/known_findings.json, never written at run time."""
import json, os
from .core import VERIF

PATH = os.path.join(VERIF, "known_findings.json")
CLASSIFIERS = {}
WITNESSES = {}


def classifier(fid):
    def deco(f):
        CLASSIFIERS[fid] = f
        return f
    return deco


def witness(fid):
    def deco(f):
        WITNESSES[fid] = f
        return f
    return deco


def load():
    if not os.path.exists(PATH):
        return []
    return json.load(open(PATH))["findings"]


def process(prop, failures):
    """returns (KNOWN-FINDING lines, remaining failures, info)"""
    lines, info = [], []
    entries = [e for e in load() if e["property"] == prop]
    remaining = list(failures)
    for e in entries:
        fid = e["id"]
        if e["status"] != "known":
            info.append(dict(id=fid, status=e["status"]))
            continue      # a `fixed` entry suppresses nothing
        matched = [f for f in remaining if CLASSIFIERS.get(fid, lambda f: False)(f)]
        remaining = [f for f in remaining if f not in matched]
        still = None
        if fid in WITNESSES:
            still = WITNESSES[fid]()
        if still or matched:
            lines.append("KNOWN-FINDING: property=%s %s: %s" % (prop, fid, e["what"]))
        info.append(dict(id=fid, status="known", witness_still_fails=bool(still), matched_failures=len(matched)))
    return lines, remaining, info
