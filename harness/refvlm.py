"""
Independent reference vortex-lattice solver (plain numpy, textbook Biot-Savart filament formulas,
explicit loops).  It shares no code with OpenAeroStruct or with the Lean model: every surface is
treated at full span (a symmetric half surface is mirrored explicitly) and ground effect is
treated with explicit image rings of opposite strength.
"""
import numpy as np


def seg_vel(p, a, b):
    """velocity at p induced by a unit-strength straight filament from a to b (Katz & Plotkin 2.72)"""
    r1 = p - a; r2 = p - b; r0 = b - a
    c = np.cross(r1, r2)
    c2 = c.dot(c)
    n1 = np.linalg.norm(r1); n2 = np.linalg.norm(r2)
    if c2 < 1e-20 * max(n1 * n2, 1e-300) ** 2 or n1 < 1e-12 or n2 < 1e-12:
        return np.zeros(3)
    return c / c2 * r0.dot(r1 / n1 - r2 / n2) / (4 * np.pi)


def semi_inf_vel(p, a, u):
    """unit-strength semi-infinite filament starting at a, going to infinity along unit vector u"""
    r = p - a
    n = np.linalg.norm(r)
    c = np.cross(u, r)
    c2 = c.dot(c)
    if c2 < 1e-20 * n * n:
        return np.zeros(3)
    return c / c2 * (1.0 + u.dot(r) / n) / (4 * np.pi)


def full_mesh(mesh, symmetry):
    """mirror a half mesh about y = 0 (left or right half); returns full mesh and the column slice of the given half"""
    mesh = np.asarray(mesh, dtype=float)
    if not symmetry:
        return mesh, slice(0, mesh.shape[1] - 1)
    ny = mesh.shape[1]
    left = abs(mesh[0, 0, 1]) > abs(mesh[0, -1, 1])
    mir = mesh.copy(); mir[:, :, 1] *= -1
    if left:
        full = np.concatenate([mesh, mir[:, :-1][:, ::-1]], axis=1)
        return full, slice(0, ny - 1)
    full = np.concatenate([mir[:, 1:][:, ::-1], mesh], axis=1)
    return full, slice(ny - 1, 2 * ny - 2)


class RefVLM:
    def __init__(self, meshes, symmetries, alpha, beta=0.0, v=1.0, rho=1.0, omega=None, cg=None, ground=None):
        """ground: None or height; image lattices (strength -Gamma) are added for every surface"""
        self.alpha = np.radians(alpha); self.beta = np.radians(beta); self.v = v; self.rho = rho
        self.omega = None if omega is None else np.asarray(omega, dtype=float)
        self.cg = np.zeros(3) if cg is None else np.asarray(cg, dtype=float)
        self.u = np.array([np.cos(self.alpha), 0.0, np.sin(self.alpha)])
        self.vinf = v * np.array([np.cos(self.alpha) * np.cos(self.beta), -np.sin(self.beta), np.sin(self.alpha) * np.cos(self.beta)])
        self.lattices = []      # (full mesh, ring mesh, half slice)
        for m, s in zip(meshes, symmetries):
            fm, sl = full_mesh(m, s)
            ring = fm.copy()
            ring[:-1] = 0.75 * fm[:-1] + 0.25 * fm[1:]
            self.lattices.append((fm, ring, sl))
        self.ground = ground
        if ground is not None:
            n = np.array([np.sin(self.alpha), 0.0, -np.cos(self.alpha)])
            self.plane_n = n; self.plane_p = ground * n
        # panel list
        self.panels = []
        for k, (fm, ring, sl) in enumerate(self.lattices):
            nx, ny = fm.shape[:2]
            for i in range(nx - 1):
                for j in range(ny - 1):
                    self.panels.append((k, i, j))

    def reflect(self, x):
        n = self.plane_n
        return x - 2 * np.dot(x - self.plane_p, n)[..., None] * n

    def ring_vel(self, p, ring, i, j, nx):
        A = ring[i, j + 1]; B = ring[i, j]; C = ring[i + 1, j]; D = ring[i + 1, j + 1]
        vel = seg_vel(p, A, B) + seg_vel(p, B, C) + seg_vel(p, C, D) + seg_vel(p, D, A)
        if i == nx - 2:
            # the trailing-edge segment is cancelled by the first wake ring; two trailing legs remain
            vel = vel + seg_vel(p, D, C) + semi_inf_vel(p, C, self.u) - semi_inf_vel(p, D, self.u)
        return vel

    def panel_vel(self, p, k, i, j):
        fm, ring, sl = self.lattices[k]
        vel = self.ring_vel(p, ring, i, j, fm.shape[0])
        if self.ground is not None:
            vel = vel - self.ring_vel(p, self.reflect(ring), i, j, fm.shape[0])
        return vel

    def geometry(self, k, i, j):
        fm = self.lattices[k][0]
        coll = 0.125 * (fm[i, j] + fm[i, j + 1]) + 0.375 * (fm[i + 1, j] + fm[i + 1, j + 1])
        fpt = 0.375 * (fm[i, j] + fm[i, j + 1]) + 0.125 * (fm[i + 1, j] + fm[i + 1, j + 1])
        bvec = (0.75 * fm[i, j] + 0.25 * fm[i + 1, j]) - (0.75 * fm[i, j + 1] + 0.25 * fm[i + 1, j + 1])
        nrm = np.cross(fm[i, j + 1] - fm[i + 1, j], fm[i, j] - fm[i + 1, j + 1])
        return coll, fpt, bvec, nrm / np.linalg.norm(nrm)

    def onset(self, coll):
        if self.omega is None:
            return self.vinf
        return self.vinf + np.cross(self.omega, coll - self.cg)

    def solve(self):
        N = len(self.panels)
        A = np.zeros((N, N)); b = np.zeros(N)
        geo = [self.geometry(*pn) for pn in self.panels]
        for m, (coll, fpt, bvec, nrm) in enumerate(geo):
            b[m] = -self.onset(coll).dot(nrm)
            for n_, pn in enumerate(self.panels):
                A[m, n_] = self.panel_vel(coll, *pn).dot(nrm)
        gam = np.linalg.solve(A, b)
        self.gamma = gam
        forces = np.zeros((N, 3)); resid = np.zeros(N)
        for m, ((k, i, j), (coll, fpt, bvec, nrm)) in enumerate(zip(self.panels, geo)):
            vel = self.onset(coll).copy()
            vc = self.onset(coll).copy()
            for n_, pn in enumerate(self.panels):
                vel = vel + gam[n_] * self.panel_vel(fpt, *pn)
                vc = vc + gam[n_] * self.panel_vel(coll, *pn)
            resid[m] = vc.dot(nrm)
            ghs = gam[m] - (gam[m - (self.lattices[k][0].shape[1] - 1)] if i >= 1 else 0.0)
            forces[m] = self.rho * ghs * np.cross(vel, bvec)
        self.forces = forces; self.resid = resid
        return self

    def half_results(self, k):
        """circulations and forces of surface k restricted to the modelled half, shape (nx-1, ny_half-1[,3])"""
        fm, ring, sl = self.lattices[k]
        nx, ny = fm.shape[:2]
        off = sum((l[0].shape[0] - 1) * (l[0].shape[1] - 1) for l in self.lattices[:k])
        g = self.gamma[off:off + (nx - 1) * (ny - 1)].reshape(nx - 1, ny - 1)
        f = self.forces[off:off + (nx - 1) * (ny - 1)].reshape(nx - 1, ny - 1, 3)
        return g[:, sl], f[:, sl]
